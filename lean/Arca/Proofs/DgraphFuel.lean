/-
Graph-level facts behind the panic-freedom theorems of `LoopSafe.lean`:

* `Graph.resolve_ne_fuel`: the fuel `edges.length + 1` of `resolve` is never exhausted.  Measure: (number of pending
  messages) + (number of edges whose source is still `waiting`) decreases by exactly one with every handled message
  (a node that newly turns unresolvable stops being `waiting` and sends exactly one message per outgoing edge).
* `Graph.Keeps`: what a successful propagation keeps of every node: `res` only grows, and a node all of whose
  outstanding entries are soft keeps its status, stays all-soft and is not put (again) into the ready set.
* `Graph.Pend`: the pending messages are pairwise distinct (target, source) pairs that are still outstanding at their
  target; with the auxiliary invariant `Graph.Aux` and the closure of resolved nodes `Graph.RClosed` this makes every
  `depResolved` of a propagation succeed (`Graph.resolve_ok`).
-/
import Arca.Model.Dgraph
import Arca.Proofs.DgraphLemmas
import Arca.Proofs.DgraphInv
import Arca.Proofs.LoopDagLemmas

set_option linter.unusedSectionVars false
set_option linter.unusedVariables false

namespace Arca.Model

variable {ι : Type} [DecidableEq ι]

/-! ## fuel -/

/-- number of edges whose source is still waiting -/
def Graph.wcount (g : Graph ι) : Nat :=
  (g.edges.filter (fun e => decide (g.statusOf e.1 = some St.waiting))).length

theorem filter_split_len {α : Type} (l : List α) (p p' q : α → Bool)
    (h : ∀ x ∈ l, p x = (p' x || q x)) (hd : ∀ x ∈ l, ¬ (p' x = true ∧ q x = true)) :
    (l.filter p).length = (l.filter p').length + (l.filter q).length := by
  induction l with
  | nil => rfl
  | cons a l ih =>
    have ih' := ih (fun x hx => h x (List.mem_cons_of_mem _ hx)) (fun x hx => hd x (List.mem_cons_of_mem _ hx))
    have h1 := h a List.mem_cons_self
    have h2 := hd a List.mem_cons_self
    simp only [List.filter_cons]
    cases hp' : p' a <;> cases hq : q a <;> simp_all <;> omega

theorem Graph.statusOf_replace {g : Graph ι} {t : ι} {n n' : Node ι} (hn : g.find? t = some n) (hid : n'.id = t)
    (r' : List ι) (x : ι) :
    Graph.statusOf { g.setNode n' with ready := r' } x = if x = t then some n'.status else g.statusOf x := by
  unfold Graph.statusOf
  rw [Graph.find?_replace hn hid r' x]
  split <;> rfl

theorem Graph.succs_length (g : Graph ι) (t : ι) :
    (g.succs t).length = (g.edges.filter (fun e => decide (e.1 = t))).length := by
  simp [Graph.succs]

/-- replacing a node by one with the same status keeps the count -/
theorem Graph.wcount_same {g : Graph ι} {t : ι} {n n' : Node ι} (hn : g.find? t = some n) (hid : n'.id = t)
    (r' : List ι) (hs : n'.status = n.status) :
    Graph.wcount { g.setNode n' with ready := r' } = g.wcount := by
  unfold Graph.wcount
  show (g.edges.filter _).length = _
  congr 1
  apply List.filter_congr
  intro e _
  rw [Graph.statusOf_replace hn hid r']
  split
  · rename_i h
    rw [h, hs]
    simp [Graph.statusOf, hn]
  · rfl

/-- a waiting node that settles takes its outgoing edges out of the count -/
theorem Graph.wcount_settle {g : Graph ι} {t : ι} {n n' : Node ι} (hn : g.find? t = some n) (hid : n'.id = t)
    (r' : List ι) (hw : n.status = St.waiting) (hs : n'.status ≠ St.waiting) :
    Graph.wcount { g.setNode n' with ready := r' } + (g.succs t).length = g.wcount := by
  unfold Graph.wcount
  rw [Graph.succs_length]
  show (g.edges.filter _).length + _ = _
  symm
  apply filter_split_len
  · intro e _
    rw [Graph.statusOf_replace hn hid r']
    by_cases h : e.1 = t
    · simp [h, Graph.statusOf, hn, hw]
    · simp [h]
  · intro e _
    rw [Graph.statusOf_replace hn hid r']
    rintro ⟨h1, h2⟩
    have h2 : e.1 = t := by simpa using h2
    simp [h2, hs] at h1

theorem Graph.depResolved_wcount {g g' : Graph ι} {t s : ι} {st : St} {turned : Bool}
    (h : g.depResolved t s st = .ok (g', turned)) :
    g'.wcount + (if turned then (g'.succs t).length else 0) = g.wcount := by
  obtain ⟨n, dt, n', r', hn, _, _, rfl, hstep⟩ := Graph.depResolved_ok h
  obtain ⟨hid, _, _, hstatus⟩ := hstep.facts
  have hnid : n.id = t := (Graph.find?_some hn).2
  rcases hstatus with ⟨rfl, hs⟩ | ⟨rfl, hw, hu⟩
  · simp only [Bool.false_eq_true, ↓reduceIte, Nat.add_zero]
    exact Graph.wcount_same hn (hid.trans hnid) r' hs
  · simp only [↓reduceIte]
    exact Graph.wcount_settle hn (hid.trans hnid) r' hw (by rw [hu]; decide)

theorem Graph.depResolved_ne_fuel (g : Graph ι) (t s : ι) (st : St) :
    g.depResolved t s st ≠ .error DgErr.fuel := by
  intro h
  unfold Graph.depResolved at h
  simp only [Graph.markReady] at h
  repeat' split at h
  all_goals cases h

theorem Graph.propagate_ne_fuel (f : Nat) (g : Graph ι) (msgs : List (ι × ι × St))
    (hf : msgs.length + g.wcount ≤ f) : Graph.propagate f g msgs ≠ .error DgErr.fuel := by
  induction f generalizing g msgs with
  | zero =>
    cases msgs with
    | nil => simp [Graph.propagate]
    | cons x rest => simp at hf
  | succ f ih =>
    cases msgs with
    | nil => simp [Graph.propagate]
    | cons x rest =>
      obtain ⟨tgt, src, st⟩ := x
      simp only [Graph.propagate]
      split
      · rename_i e he
        intro h
        cases h
        exact Graph.depResolved_ne_fuel g tgt src st he
      · rename_i g1 turned hd
        apply ih
        have := Graph.depResolved_wcount hd
        simp only [List.length_cons] at hf
        cases turned
        · simp only [Bool.false_eq_true, ↓reduceIte, List.nil_append] at this ⊢
          omega
        · simp only [↓reduceIte, List.length_append, List.length_map] at this ⊢
          omega

theorem Graph.wcount_le (g : Graph ι) : g.wcount ≤ g.edges.length := List.length_filter_le _ _

/-- fuel never runs out (no invariant needed) -/
theorem Graph.resolve_ne_fuel (g : Graph ι) (id : ι) (st : St) : g.resolve id st ≠ .error DgErr.fuel := by
  unfold Graph.resolve
  split
  · simp
  rename_i n hn
  split
  · simp
  · split <;> simp
  · rename_i hw
    split
    · simp
    · rename_i hst
      apply Graph.propagate_ne_fuel
      have hnid : n.id = id := (Graph.find?_some hn).2
      have := Graph.wcount_settle (n' := { n with status := st }) hn hnid g.ready hw hst
      have hle := g.wcount_le
      simp only [List.length_map, Graph.succs_setNode]
      have heq : ({ g.setNode { n with status := st } with ready := g.ready } : Graph ι) =
          g.setNode { n with status := st } := rfl
      rw [heq] at this
      show (g.succs id).length + _ ≤ g.edges.length + 1
      omega

/-! ## what a propagation keeps of every node -/

def allSoft (l : List (ι × Dep)) : Prop := ∀ p ∈ l, p.2.hard = false

theorem nodup_insertSet {x : ι} {l : List ι} (h : l.Nodup) : (insertSet x l).Nodup := by
  unfold insertSet
  split
  · exact h
  · rename_i hx
    rw [List.nodup_append]
    refine ⟨h, by simp, ?_⟩
    intro a ha b hb
    simp only [List.mem_singleton] at hb
    subst hb
    rintro rfl
    exact hx ha

theorem DepStep.ready_cases {g : Graph ι} {n n' : Node ι} {s : ι} {st : St} {dt : Dep} {r' : List ι} {turned : Bool}
    (hstep : DepStep g n s st dt n' r' turned) : r' = g.ready ∨ r' = insertSet n.id g.ready := by
  cases hstep <;> simp

/-- with only soft outstanding entries the step is the `soft` one -/
theorem DepStep.of_soft {g : Graph ι} {n n' : Node ι} {s : ι} {st : St} {dt : Dep} {r' : List ι} {turned : Bool}
    (hstep : DepStep g n s st dt n' r' turned) (hdt : dt.hard = false) :
    n'.out = aerase s n.out ∧ n'.status = n.status ∧ r' = g.ready := by
  cases hstep with
  | soft _ => exact ⟨rfl, rfl, rfl⟩
  | failW _ h _ => rcases h with rfl | ⟨rfl, _⟩ <;> cases hdt
  | failU _ h _ => rcases h with rfl | ⟨rfl, _⟩ <;> cases hdt
  | orWait _ h _ => subst h; cases hdt
  | okReady o2 hh _ _ _ => rw [hh] at hdt; cases hdt
  | okWait o2 hh _ _ => rw [hh] at hdt; cases hdt

/-- `g'` is a later graph of the same propagation: the ready set stays duplicate free, `res` lists only grow, and a
node all of whose outstanding entries are soft keeps its status, stays all-soft and does not enter the ready set -/
structure Graph.Keeps (g g' : Graph ι) : Prop where
  ready_nodup : g.ready.Nodup → g'.ready.Nodup
  node : ∀ y n, g.find? y = some n → ∃ n', g'.find? y = some n' ∧ (∀ q ∈ n.res, q ∈ n'.res) ∧
    (allSoft n.out → allSoft n'.out ∧ n'.status = n.status ∧ (y ∈ g'.ready → y ∈ g.ready))

theorem Graph.Keeps.refl (g : Graph ι) : g.Keeps g :=
  ⟨id, fun y n hn => ⟨n, hn, fun _ h => h, fun h => ⟨h, rfl, id⟩⟩⟩

theorem Graph.Keeps.trans {a b c : Graph ι} (h1 : a.Keeps b) (h2 : b.Keeps c) : a.Keeps c := by
  refine ⟨fun h => h2.ready_nodup (h1.ready_nodup h), ?_⟩
  intro y n hn
  obtain ⟨n1, hn1, hr1, hs1⟩ := h1.node y n hn
  obtain ⟨n2, hn2, hr2, hs2⟩ := h2.node y n1 hn1
  refine ⟨n2, hn2, fun q hq => hr2 q (hr1 q hq), ?_⟩
  intro hsoft
  obtain ⟨a1, a2, a3⟩ := hs1 hsoft
  obtain ⟨b1, b2, b3⟩ := hs2 a1
  exact ⟨b1, b2.trans a2, fun h => a3 (b3 h)⟩

theorem Graph.depResolved_keeps {g g' : Graph ι} {t s : ι} {st : St} {turned : Bool}
    (h : g.depResolved t s st = .ok (g', turned)) : g.Keeps g' := by
  obtain ⟨n, dt, n', r', hn, _, hdt, rfl, hstep⟩ := Graph.depResolved_ok h
  obtain ⟨hid, _, hres, _⟩ := hstep.facts
  have hnid : n.id = t := (Graph.find?_some hn).2
  have hs : (s, dt) ∈ n.out := alookup_some_mem hdt
  constructor
  · intro hnd
    show r'.Nodup
    rcases hstep.ready_cases with h1 | h1 <;> rw [h1]
    · exact hnd
    · exact nodup_insertSet hnd
  · intro y m hm
    rw [Graph.find?_replace hn (hid.trans hnid) r' y]
    by_cases hy : y = t
    · subst hy
      rw [hn] at hm
      cases hm
      rw [if_pos rfl]
      refine ⟨n', rfl, ?_, ?_⟩
      · intro q hq
        rw [hres]
        split
        · exact List.mem_append_left _ hq
        · exact hq
      · intro hsoft
        obtain ⟨h1, h2, h3⟩ := hstep.of_soft (hsoft _ hs)
        refine ⟨?_, h2, ?_⟩
        · intro p hp
          rw [h1] at hp
          exact hsoft p (mem_aerase.1 hp).1
        · intro hr
          have hr : y ∈ r' := hr
          rw [h3] at hr
          exact hr
    · rw [if_neg hy]
      refine ⟨m, hm, fun _ h => h, fun hsoft => ⟨hsoft, rfl, ?_⟩⟩
      intro hr
      have hr : y ∈ r' := hr
      rcases hstep.ready_cases with h1 | h1 <;> rw [h1] at hr
      · exact hr
      · rcases mem_insertSet.1 hr with h2 | h2
        · exact absurd (h2.trans hnid) hy
        · exact h2

theorem Graph.propagate_keeps (f : Nat) {g g' : Graph ι} {msgs : List (ι × ι × St)}
    (h : Graph.propagate f g msgs = .ok g') : g.Keeps g' := by
  induction f generalizing g msgs with
  | zero =>
    cases msgs with
    | nil => simp only [Graph.propagate, Except.ok.injEq] at h; subst h; exact Graph.Keeps.refl g
    | cons x rest => simp [Graph.propagate] at h
  | succ f ih =>
    cases msgs with
    | nil => simp only [Graph.propagate, Except.ok.injEq] at h; subst h; exact Graph.Keeps.refl g
    | cons x rest =>
      obtain ⟨tgt, src, st⟩ := x
      simp only [Graph.propagate] at h
      split at h
      · cases h
      · rename_i g1 turned hd
        exact (Graph.depResolved_keeps hd).trans (ih h)

/-- the same for an explicit resolution of `x`: only `x` itself may change status among the all-soft nodes -/
theorem Graph.resolve_keeps {g g' : Graph ι} {x : ι} {st : St} (hok : g.resolve x st = .ok g') :
    (g.ready.Nodup → g'.ready.Nodup) ∧
    ∀ y n, g.find? y = some n → ∃ n', g'.find? y = some n' ∧ (∀ q ∈ n.res, q ∈ n'.res) ∧
      (allSoft n.out → allSoft n'.out ∧ (y ≠ x → n'.status = n.status) ∧ (y ∈ g'.ready → y ∈ g.ready)) := by
  have hrefl : (g.ready.Nodup → g.ready.Nodup) ∧
    ∀ y n, g.find? y = some n → ∃ n', g.find? y = some n' ∧ (∀ q ∈ n.res, q ∈ n'.res) ∧
      (allSoft n.out → allSoft n'.out ∧ (y ≠ x → n'.status = n.status) ∧ (y ∈ g.ready → y ∈ g.ready)) :=
    ⟨id, fun y n hn => ⟨n, hn, fun _ h => h, fun h => ⟨h, fun _ => rfl, id⟩⟩⟩
  unfold Graph.resolve at hok
  split at hok
  · cases hok
  rename_i m hm
  split at hok
  · cases hok
  · split at hok
    · cases hok; exact hrefl
    · cases hok
  · split at hok
    · cases hok; exact hrefl
    · have hk := Graph.propagate_keeps _ hok
      have hmid : m.id = x := (Graph.find?_some hm).2
      have hf := Graph.find?_replace (n' := { m with status := st }) hm hmid g.ready
      refine ⟨hk.ready_nodup, ?_⟩
      intro y n hn
      have h1 : ∃ n1, (g.setNode { m with status := st }).find? y = some n1 ∧ n1.res = n.res ∧ n1.out = n.out ∧
          (y ≠ x → n1.status = n.status) := by
        have := hf y
        by_cases hy : y = x
        · subst hy
          rw [if_pos rfl] at this
          rw [hm] at hn; cases hn
          exact ⟨_, this, rfl, rfl, fun h => absurd rfl h⟩
        · rw [if_neg hy] at this
          exact ⟨n, this.trans hn, rfl, rfl, fun _ => rfl⟩
      obtain ⟨n1, hn1, hr1, ho1, hs1⟩ := h1
      obtain ⟨n2, hn2, hr2, hs2⟩ := hk.node y n1 hn1
      refine ⟨n2, hn2, fun q hq => hr2 q (hr1 ▸ hq), ?_⟩
      intro hsoft
      obtain ⟨b1, b2, b3⟩ := hs2 (ho1 ▸ hsoft)
      exact ⟨b1, fun hy => b2.trans (hs1 hy), b3⟩

/-! ## success of a propagation -/

/-- every resolved node has its `and` dependencies resolved and, if it has `or` dependencies, one of them recorded -/
def Graph.RClosed (g : Graph ι) : Prop :=
  ∀ x n, g.find? x = some n → n.status = St.resolved →
    (∀ ed ∈ g.edges, ed.2.1 = x → ed.2.2 = Dep.and → ∃ m, g.find? ed.1 = some m ∧ m.status = St.resolved) ∧
    ((∃ ed ∈ g.edges, ed.2.1 = x ∧ ed.2.2 = Dep.or) → ∃ q ∈ n.res, q.2 = Dep.or)

/-- the pending messages are pairwise distinct (target, source) pairs, still outstanding at their target -/
structure Graph.Pend (g : Graph ι) (msgs : List (ι × ι × St)) : Prop where
  nodup : (msgs.map (fun x => (x.1, x.2.1))).Nodup
  out : ∀ x ∈ msgs, ∃ n, g.find? x.1 = some n ∧ x.2.1 ∈ keys n.out

theorem nodup_map_pair {α β : Type} (l : List α) (t : β) (h : l.Nodup) : (l.map (fun c => (c, t))).Nodup := by
  induction l with
  | nil => simp
  | cons a l ih =>
    simp only [List.nodup_cons] at h
    simp only [List.map_cons, List.nodup_cons, List.mem_map, Prod.mk.injEq, and_true, exists_eq_right]
    exact ⟨h.1, ih h.2⟩

theorem alookup_of_mem_keys {k : ι} {l : List (ι × Dep)} (h : k ∈ keys l) : ∃ d, alookup k l = some d := by
  induction l with
  | nil => simp [keys] at h
  | cons p l ih =>
    obtain ⟨k', v⟩ := p
    simp only [alookup]
    split
    · exact ⟨v, rfl⟩
    · rename_i hne
      apply ih
      simp only [keys, List.map_cons, List.mem_cons] at h
      rcases h with h | h
      · exact absurd h hne
      · exact h

theorem succs_nodup_aux (l : List (ι × ι × Dep)) (t : ι) (h : (l.map (fun e => (e.1, e.2.1))).Nodup) :
    ((l.filter (fun e => decide (e.1 = t))).map (·.2.1)).Nodup := by
  induction l with
  | nil => simp
  | cons e l ih =>
    simp only [List.map_cons, List.nodup_cons] at h
    simp only [List.filter_cons]
    split
    · rename_i he
      have he : e.1 = t := by simpa using he
      simp only [List.map_cons, List.nodup_cons]
      refine ⟨?_, ih h.2⟩
      intro hmem
      simp only [List.mem_map, List.mem_filter, decide_eq_true_eq] at hmem
      obtain ⟨e', ⟨he'l, he't⟩, he'c⟩ := hmem
      apply h.1
      simp only [List.mem_map]
      exact ⟨e', he'l, by rw [he't, he'c, he]⟩
    · exact ih h.2

theorem Graph.succs_nodup (g : Graph ι) (t : ι) (h : (g.edges.map (fun e => (e.1, e.2.1))).Nodup) :
    (g.succs t).Nodup := succs_nodup_aux g.edges t h

theorem Graph.find?_unique {g : Graph ι} {x : ι} {a b : Node ι} (h1 : g.find? x = some a) (h2 : g.find? x = some b) :
    a = b := by rw [h1] at h2; exact Option.some.inj h2

/-- the head message can be handled -/
theorem Graph.depResolved_succeeds {g : Graph ι} {t s : ι} {st : St} {rest : List (ι × ι × St)}
    (ha : g.Aux ((t, s, st) :: rest)) (hp : g.Pend ((t, s, st) :: rest)) (hc : g.RClosed) :
    ∃ g1 turned, g.depResolved t s st = .ok (g1, turned) := by
  obtain ⟨n, hn, hsk⟩ := hp.out _ List.mem_cons_self
  simp only at hn hsk
  obtain ⟨hstw, ms, hms, hmss⟩ := ha.msg_st _ List.mem_cons_self
  simp only at hstw hms hmss
  obtain ⟨dt, hdt⟩ := alookup_of_mem_keys hsk
  have hsm : (s, dt) ∈ n.out := alookup_some_mem hdt
  have hnid : n.id = t := (Graph.find?_some hn).2
  have hnode := ha.node_ok t n hn
  cases hres : g.depResolved t s st with
  | ok p => exact ⟨p.1, p.2, rfl⟩
  | error e =>
    exfalso
    unfold Graph.depResolved at hres
    rw [hn] at hres
    simp only [hstw, ↓reduceIte, hdt, Graph.markReady] at hres
    split at hres
    · cases hres
    split at hres
    · rename_i hcond
      obtain ⟨hu, hcand⟩ := hcond
      subst hu
      split at hres
      · rename_i hc2
        split at hres
        · cases hres
        · cases hres
        · rename_i hsr
          have hsr : n.status = St.resolved := hsr
          obtain ⟨hand, hor⟩ := hc t n hn hsr
          obtain ⟨d, hd, hok⟩ := hnode.out_edge _ hsm
          simp only at hd hok
          rw [hnid] at hd
          rename_i hh
          have hdd : dt = Dep.and ∨ dt = Dep.or := by
            cases dt <;> simp_all [Dep.hard]
          rcases hdd with hdd | hdd
          · subst hdd
            have := entryOk_and_left hok
            subst this
            obtain ⟨m, hm, hmr⟩ := hand _ hd rfl rfl
            simp only at hm
            rw [hms] at hm
            cases hm
            rw [hmss] at hmr
            cases hmr
          · subst hdd
            have := entryOk_or_left hok
            subst this
            obtain ⟨q, hq, hq2⟩ := hor ⟨_, hd, rfl, rfl⟩
            exact hnode.or_excl ⟨q, hq, hq2⟩ _ hsm rfl
      · cases hres
    · repeat' split at hres
      all_goals cases hres

theorem Graph.RClosed.depResolved {g g' : Graph ι} {t s : ι} {st : St} {turned : Bool} (hc : g.RClosed)
    (h : g.depResolved t s st = .ok (g', turned)) : g'.RClosed := by
  intro x n' hn' hs'
  obtain ⟨n, hn, hs⟩ := Graph.depResolved_resolved h hn' hs'
  obtain ⟨hand, hor⟩ := hc x n hn hs
  have hed := (Graph.depResolved_frame h).1
  refine ⟨?_, ?_⟩
  · intro ed he h1 h2
    rw [hed] at he
    obtain ⟨m, hm, hmr⟩ := hand ed he h1 h2
    obtain ⟨m', hm', hms'⟩ := Graph.depResolved_status h hm (by rw [hmr]; decide)
    exact ⟨m', hm', hms'.trans hmr⟩
  · intro hex
    rw [hed] at hex
    obtain ⟨q, hq, hq2⟩ := hor hex
    obtain ⟨n'', hn'', hr, _⟩ := (Graph.depResolved_keeps h).node x n hn
    have := Graph.find?_unique hn' hn''
    subst this
    exact ⟨q, hr q hq, hq2⟩

theorem Graph.Pend.depResolved {g g1 : Graph ι} {t s : ι} {st : St} {turned : Bool} {rest : List (ι × ι × St)}
    (ha : g.Aux ((t, s, st) :: rest)) (hp : g.Pend ((t, s, st) :: rest))
    (h : g.depResolved t s st = .ok (g1, turned)) :
    g1.Pend ((if turned then (g1.succs t).map (fun c => (c, t, St.unres)) else []) ++ rest) := by
  obtain ⟨n, dt, n', r', hn, hst, hdt, rfl, hstep⟩ := Graph.depResolved_ok h
  obtain ⟨hid, hkeys, _, hstatus⟩ := hstep.facts
  have hnid : n.id = t := (Graph.find?_some hn).2
  have hf := Graph.find?_replace hn (hid.trans hnid) r'
  obtain ⟨hstw, ms, hms, hmss⟩ := ha.msg_st _ List.mem_cons_self
  simp only at hstw hms hmss
  have hnd := hp.nodup
  simp only [List.map_cons, List.nodup_cons] at hnd
  -- the messages of `rest` stay outstanding
  have hrest : ∀ x ∈ rest, ∃ k, Graph.find? { g.setNode n' with ready := r' } x.1 = some k ∧ x.2.1 ∈ keys k.out := by
    intro x hx
    obtain ⟨k, hk, hin⟩ := hp.out x (List.mem_cons_of_mem _ hx)
    rw [hf]
    by_cases hxt : x.1 = t
    · rw [if_pos hxt]
      rw [hxt, hn] at hk
      cases hk
      refine ⟨n', rfl, ?_⟩
      rw [hkeys, mem_keys_aerase]
      refine ⟨hin, ?_⟩
      intro hxs
      apply hnd.1
      simp only [List.mem_map]
      exact ⟨x, hx, by rw [hxt, hxs]⟩
    · rw [if_neg hxt]
      exact ⟨k, hk, hin⟩
  rcases hstatus with ⟨rfl, _⟩ | ⟨rfl, hw, _⟩
  · simp only [Bool.false_eq_true, ↓reduceIte, List.nil_append]
    exact ⟨hnd.2, hrest⟩
  · simp only [↓reduceIte]
    have hts : t ≠ s := by
      rintro rfl
      rw [hn] at hms
      cases hms
      exact hstw (hmss.symm.trans hw)
    constructor
    · rw [List.map_append, List.nodup_append]
      refine ⟨?_, hnd.2, ?_⟩
      · rw [List.map_map]
        have : ((fun x : ι × ι × St => (x.1, x.2.1)) ∘ fun c => (c, t, St.unres)) = fun c => (c, t) := rfl
        rw [this]
        exact nodup_map_pair _ t (Graph.succs_nodup g t ha.edges_nodup)
      · intro a ha' b hb hab
        subst hab
        simp only [List.mem_map] at ha' hb
        obtain ⟨_, ⟨c, _, rfl⟩, rfl⟩ := ha'
        obtain ⟨x, hx, hxe⟩ := hb
        simp only [Prod.mk.injEq] at hxe
        obtain ⟨_, m0, hm0, hm0s⟩ := ha.msg_st x (List.mem_cons_of_mem _ hx)
        rw [hxe.2, hn] at hm0
        cases hm0
        exact (ha.msg_st x (List.mem_cons_of_mem _ hx)).1 (hm0s.symm.trans hw)
    · intro x hx
      rcases List.mem_append.1 hx with hx | hx
      · obtain ⟨c, hc, rfl⟩ := List.mem_map.1 hx
        simp only
        obtain ⟨d, hd⟩ := Graph.mem_succs.1 (show c ∈ g.succs t from hc)
        obtain ⟨k, hk⟩ := Graph.has_iff.1 (ha.edge_nodes _ hd).2
        simp only at hk
        have hin := ha.e_wait _ hd n k hn hk hw
        simp only at hin
        rw [hf]
        by_cases hct : c = t
        · rw [if_pos hct]
          rw [hct, hn] at hk
          cases hk
          refine ⟨n', rfl, ?_⟩
          rw [hkeys, mem_keys_aerase]
          exact ⟨hin, hts⟩
        · rw [if_neg hct]
          exact ⟨k, hk, hin⟩
      · exact hrest x hx

/-- a propagation from a state satisfying the auxiliary invariant, with distinct outstanding messages and closed
resolved nodes, succeeds (given enough fuel) and keeps the resolved nodes closed -/
theorem Graph.propagate_ok (f : Nat) {g : Graph ι} {msgs : List (ι × ι × St)} (ha : g.Aux msgs) (hp : g.Pend msgs)
    (hc : g.RClosed) (hf : msgs.length + g.wcount ≤ f) :
    ∃ g', Graph.propagate f g msgs = .ok g' ∧ g'.RClosed := by
  induction f generalizing g msgs with
  | zero =>
    cases msgs with
    | nil => exact ⟨g, rfl, hc⟩
    | cons x rest => simp at hf
  | succ f ih =>
    cases msgs with
    | nil => exact ⟨g, rfl, hc⟩
    | cons x rest =>
      obtain ⟨tgt, src, st⟩ := x
      obtain ⟨g1, turned, hd⟩ := Graph.depResolved_succeeds ha hp hc
      simp only [Graph.propagate, hd]
      apply ih (ha.depResolved hd) (hp.depResolved ha hd) (hc.depResolved hd)
      have := Graph.depResolved_wcount hd
      simp only [List.length_cons] at hf
      cases turned
      · simp only [Bool.false_eq_true, ↓reduceIte, List.nil_append] at this ⊢
        omega
      · simp only [↓reduceIte, List.length_append, List.length_map] at this ⊢
        omega

/-- an explicit resolution of a waiting node succeeds when resolved nodes are closed (and, for `resolved`, the node
itself satisfies the closure condition) -/
theorem Graph.resolve_ok (g : Graph ι) (h : g.Inv) (hc : g.RClosed) (id : ι) (n : Node ι) (st : St)
    (hn : g.find? id = some n) (hw : n.status = St.waiting) (hst : st ≠ St.waiting)
    (hid : st = St.resolved →
      (∀ ed ∈ g.edges, ed.2.1 = id → ed.2.2 = Dep.and → ∃ m, g.find? ed.1 = some m ∧ m.status = St.resolved) ∧
      ((∃ ed ∈ g.edges, ed.2.1 = id ∧ ed.2.2 = Dep.or) → ∃ q ∈ n.res, q.2 = Dep.or)) :
    ∃ g', g.resolve id st = .ok g' ∧ g'.RClosed := by
  have hnid : n.id = id := (Graph.find?_some hn).2
  have ha := h.toAux.setStatus hn hw hst
  rw [List.append_nil] at ha
  have hf := Graph.find?_replace (n' := { n with status := st }) hn hnid g.ready
  have hf' : ∀ x, (g.setNode { n with status := st }).find? x =
      if x = id then some { n with status := st } else g.find? x := hf
  -- sources that are resolved in `g` are resolved after the status change
  have hsrc : ∀ a m, g.find? a = some m → m.status = St.resolved →
      ∃ m', (g.setNode { n with status := st }).find? a = some m' ∧ m'.status = St.resolved := by
    intro a m hm hmr
    rw [hf']
    have : a ≠ id := by
      rintro rfl
      rw [hn] at hm; cases hm
      rw [hw] at hmr; cases hmr
    rw [if_neg this]
    exact ⟨m, hm, hmr⟩
  have hc1 : (g.setNode { n with status := st }).RClosed := by
    intro x m1 hm1 hs1
    rw [hf'] at hm1
    by_cases hx : x = id
    · rw [if_pos hx] at hm1
      cases hm1
      simp only at hs1
      obtain ⟨hand, hor⟩ := hid hs1
      refine ⟨?_, ?_⟩
      · intro ed he h1 h2
        obtain ⟨m, hm, hmr⟩ := hand ed he (h1.trans hx) h2
        exact hsrc _ m hm hmr
      · intro hex
        obtain ⟨ed, he, h1, h2⟩ := hex
        exact hor ⟨ed, he, h1.trans hx, h2⟩
    · rw [if_neg hx] at hm1
      obtain ⟨hand, hor⟩ := hc x m1 hm1 hs1
      refine ⟨?_, hor⟩
      intro ed he h1 h2
      obtain ⟨m, hm, hmr⟩ := hand ed he h1 h2
      exact hsrc _ m hm hmr
  have hp1 : (g.setNode { n with status := st }).Pend ((g.succs id).map (fun c => (c, id, st))) := by
    constructor
    · rw [List.map_map]
      have : ((fun x : ι × ι × St => (x.1, x.2.1)) ∘ fun c => (c, id, st)) = fun c => (c, id) := rfl
      rw [this]
      exact nodup_map_pair _ id (Graph.succs_nodup g id h.edges_nodup)
    · intro x hx
      obtain ⟨c, hc', rfl⟩ := List.mem_map.1 hx
      simp only
      obtain ⟨d, hd⟩ := Graph.mem_succs.1 hc'
      obtain ⟨k, hk⟩ := Graph.has_iff.1 (h.edge_nodes _ hd).2
      simp only at hk
      have hin := (h.src_waiting _ hd n k hn hk hw).1
      simp only at hin
      rw [hf']
      by_cases hci : c = id
      · rw [if_pos hci]
        rw [hci, hn] at hk
        cases hk
        exact ⟨_, rfl, hin⟩
      · rw [if_neg hci]
        exact ⟨k, hk, hin⟩
  have hwc := Graph.wcount_settle (n' := { n with status := st }) hn hnid g.ready hw hst
  have heq : ({ g.setNode { n with status := st } with ready := g.ready } : Graph ι) =
      g.setNode { n with status := st } := rfl
  rw [heq] at hwc
  have hle := g.wcount_le
  unfold Graph.resolve
  rw [hn]
  simp only [hw, hst, ↓reduceIte]
  apply Graph.propagate_ok _ ha hp1 hc1
  simp only [List.length_map]
  omega

/-- what a successful explicit resolution does to the closure of resolved nodes -/
theorem Graph.RClosed.resolve {g g' : Graph ι} (h : g.Inv) (hc : g.RClosed) {id : ι} {st : St}
    (hok : g.resolve id st = .ok g')
    (hid : st = St.resolved → ∀ n, g.find? id = some n →
      (∀ ed ∈ g.edges, ed.2.1 = id → ed.2.2 = Dep.and → ∃ m, g.find? ed.1 = some m ∧ m.status = St.resolved) ∧
      ((∃ ed ∈ g.edges, ed.2.1 = id ∧ ed.2.2 = Dep.or) → ∃ q ∈ n.res, q.2 = Dep.or)) : g'.RClosed := by
  intro x n' hn' hs'
  obtain ⟨hed, hids⟩ := Graph.resolve_frame g g' id st hok
  obtain ⟨_, hkeep⟩ := Graph.resolve_keeps hok
  -- the node before
  have hex : ∃ n, g.find? x = some n := by
    cases hx : g.find? x with
    | some n => exact ⟨n, rfl⟩
    | none =>
      rw [Graph.find?_none_iff, ← hids, ← Graph.find?_none_iff] at hx
      rw [hx] at hn'; cases hn'
  obtain ⟨n, hn⟩ := hex
  obtain ⟨n'', hn'', hr, _⟩ := hkeep x n hn
  have := Graph.find?_unique hn' hn''
  subst this
  have hcond : (∀ ed ∈ g.edges, ed.2.1 = x → ed.2.2 = Dep.and → ∃ m, g.find? ed.1 = some m ∧ m.status = St.resolved) ∧
      ((∃ ed ∈ g.edges, ed.2.1 = x ∧ ed.2.2 = Dep.or) → ∃ q ∈ n.res, q.2 = Dep.or) := by
    rcases Graph.resolve_resolved_only g g' id x st n' hok hn' hs' with ⟨rfl, hst⟩ | ⟨n0, hn0, hs0⟩
    · exact hid hst n hn
    · rw [hn] at hn0; cases hn0
      exact hc x n hn hs0
  obtain ⟨hand, hor⟩ := hcond
  refine ⟨?_, ?_⟩
  · intro ed he h1 h2
    rw [hed] at he
    obtain ⟨m, hm, hmr⟩ := hand ed he h1 h2
    obtain ⟨m', hm', hms'⟩ := Graph.resolve_status_mono g g' id ed.1 st m h hok hm (by rw [hmr]; decide)
    exact ⟨m', hm', hms'.trans hmr⟩
  · intro hex
    rw [hed] at hex
    obtain ⟨q, hq, hq2⟩ := hor hex
    exact ⟨q, hr q hq, hq2⟩

/-- marking a node that is not `resolved` unresolvable succeeds -/
theorem Graph.resolve_unres_succeeds (g : Graph ι) (h : g.Inv) (hc : g.RClosed) (id : ι) (n : Node ι)
    (hn : g.find? id = some n) (hs : n.status ≠ St.resolved) :
    ∃ g', g.resolve id St.unres = .ok g' ∧ g'.RClosed := by
  cases hst : n.status with
  | waiting => exact Graph.resolve_ok g h hc id n .unres hn hst (by decide) (fun h => by cases h)
  | resolved => exact absurd hst hs
  | unres =>
    refine ⟨g, ?_, hc⟩
    unfold Graph.resolve
    rw [hn]
    simp [hst]

/-- resolving a node either succeeds or is refused with `alreadySet` (never a panic of the library), provided the
closure condition holds of the node in case it is still waiting -/
theorem Graph.resolve_resolved_ok_or_set (g : Graph ι) (h : g.Inv) (hc : g.RClosed) (id : ι) (n : Node ι)
    (hn : g.find? id = some n)
    (hid : n.status = St.waiting →
      (∀ ed ∈ g.edges, ed.2.1 = id → ed.2.2 = Dep.and → ∃ m, g.find? ed.1 = some m ∧ m.status = St.resolved) ∧
      ((∃ ed ∈ g.edges, ed.2.1 = id ∧ ed.2.2 = Dep.or) → ∃ q ∈ n.res, q.2 = Dep.or)) :
    (∃ g', g.resolve id St.resolved = .ok g' ∧ g'.RClosed) ∨
    (∃ a b c, g.resolve id St.resolved = .error (DgErr.alreadySet a b c)) := by
  cases hst : n.status with
  | waiting => exact .inl (Graph.resolve_ok g h hc id n .resolved hn hst (by decide) (fun _ => hid hst))
  | resolved =>
    refine .inr ⟨id, .resolved, .resolved, ?_⟩
    unfold Graph.resolve
    rw [hn]
    simp [hst]
  | unres =>
    refine .inr ⟨id, .unres, .resolved, ?_⟩
    unfold Graph.resolve
    rw [hn]
    simp [hst]

end Arca.Model
