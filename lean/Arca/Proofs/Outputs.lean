/-
Helper lemmas of C08 (engine-generated outputs): the Boolean table checks of `Arca.Model.OutputShape` say what their
names promise, and a value of a conforming shape is accepted by the declared object once the run loop has serialized it.
-/
import Arca.Model.OutputShape
import Arca.Model.RunLoop

namespace Arca.Proofs.Outputs
open Arca.Model

theorem findProp_some {ds : List Prop'} {k : String} {p : Prop'} (h : findProp ds k = some p) : p ∈ ds ∧ p.name = k := by
  unfold findProp at h
  exact ⟨List.mem_of_find?_eq_some h, by simpa using List.find?_some h⟩

theorem findField_some {fs : List Field} {k : String} {f : Field} (h : findField fs k = some f) : f ∈ fs ∧ f.key = k := by
  unfold findField at h
  exact ⟨List.mem_of_find?_eq_some h, by simpa using List.find?_some h⟩

/-- `conformsShape` spelled out: the shape has static keys, every produced key is a declared property of a compatible
    kind, and every required declared property is a key that is always produced -/
theorem conformsShape_spec {declared : List Prop'} {s : Shape} (h : conformsShape declared s = true) :
    ∃ fs, s.fields = some fs ∧
      (∀ f ∈ fs, ∃ p ∈ declared, p.name = f.key ∧ p.kind.accepts f.kind = true) ∧
      (∀ p ∈ declared, p.required = true → ∃ f ∈ fs, f.key = p.name ∧ f.always = true) := by
  unfold conformsShape at h
  cases hf : s.fields with
  | none => simp [hf] at h
  | some fs =>
    simp only [hf, Bool.and_eq_true] at h
    obtain ⟨⟨_, hk⟩, hr⟩ := h
    refine ⟨fs, rfl, ?_, ?_⟩
    · intro f hfm
      have := (List.all_eq_true.mp hk) f hfm
      cases hp : findProp declared f.key with
      | none => simp [hp] at this
      | some p =>
        simp only [hp] at this
        obtain ⟨hm, hn⟩ := findProp_some hp
        exact ⟨p, hm, hn, this⟩
    · intro p hpm hreq
      have := (List.all_eq_true.mp hr) p hpm
      simp only [hreq, Bool.not_true, Bool.false_or] at this
      cases hq : findField fs p.name with
      | none => simp [hq] at this
      | some f =>
        simp only [hq] at this
        obtain ⟨hm, hn⟩ := findField_some hq
        exact ⟨f, hm, hn, this⟩

/-- a dynamic or unrecognised shape never conforms: `generated_outputs_conform` excuses dynamic rows explicitly and
    fails on unrecognised ones -/
theorem conformsShape_unknown (declared : List Prop') (src : String) : conformsShape declared (.unknown src) = false := rfl
theorem conformsShape_dynamic (declared : List Prop') (src : String) : conformsShape declared (.dynamic src) = false := rfl

theorem accepts_allows {d k : TyKind} {v : Val} (ha : d.accepts k = true) (hv : Val.hasKind k v = true) : d.allows v = true := by
  cases d <;> cases k <;> cases v <;> simp_all [TyKind.accepts, TyKind.allows, Val.hasKind]

theorem rowConforms_iff (ds : List DeclaredRow) (r : ProducedRow) :
    rowConforms ds r = true ↔
      (r.shape.isDynamic = true ∨
        ∃ d ∈ ds, d.provider = r.provider ∧ d.stage = r.stage ∧ d.output = r.output ∧ conformsShape d.props r.shape = true) := by
  simp [rowConforms, DeclaredRow.describes, and_assoc]

theorem all_rowConforms_iff (ds : List DeclaredRow) (rs : List ProducedRow) :
    rs.all (rowConforms ds) = true ↔
      ∀ r ∈ rs, r.shape.isDynamic = true ∨
        ∃ d ∈ ds, d.provider = r.provider ∧ d.stage = r.stage ∧ d.output = r.output ∧ conformsShape d.props r.shape = true := by
  simp only [List.all_eq_true, rowConforms_iff]

/-- the fields part of the value theorem -/
theorem fields_accepted {declared : List Prop'} {fs : List Field} {kvs : List (String × Val)}
    (hk : keysDeclared declared fs = true) (hr : requiredProduced declared fs = true) (hm : fieldsMatch fs kvs = true) :
    objectAccepts declared (.map kvs) = true := by
  unfold fieldsMatch at hm
  simp only [Bool.and_eq_true] at hm
  obtain ⟨hm1, hm2⟩ := hm
  unfold objectAccepts
  simp only [Bool.and_eq_true]
  constructor
  · apply List.all_eq_true.mpr
    intro kv hkv
    have h1 := (List.all_eq_true.mp hm1) kv hkv
    cases hf : findField fs kv.1 with
    | none => simp [hf] at h1
    | some f =>
      simp only [hf] at h1
      obtain ⟨hfm, hfk⟩ := findField_some hf
      have h2 := (List.all_eq_true.mp hk) f hfm
      rw [hfk] at h2
      cases hp : findProp declared kv.1 with
      | none => simp [hp] at h2
      | some p =>
        simp only [hp] at h2 ⊢
        exact accepts_allows h2 h1
  · apply List.all_eq_true.mpr
    intro p hp
    have h1 := (List.all_eq_true.mp hr) p hp
    cases hreq : p.required with
    | false => simp
    | true =>
      simp only [hreq, Bool.not_true, Bool.false_or] at h1 ⊢
      cases hf : findField fs p.name with
      | none => simp [hf] at h1
      | some f =>
        simp only [hf] at h1
        obtain ⟨hfm, hfk⟩ := findField_some hf
        have h2 := (List.all_eq_true.mp hm2) f hfm
        simp only [h1, Bool.not_true, Bool.false_or] at h2
        rw [hfk] at h2
        exact h2

/-- Soundness of the table check at the level of values: whatever value a site of shape `s` produces, what the run
    loop stores for it (`serializedOutput`: struct -> map of its JSON fields) is accepted by every declared object the
    shape conforms to. -/
theorem produced_value_accepted {declared : List Prop'} {s : Shape} {v : Val}
    (h : conformsShape declared s = true) (hv : v.hasShape s = true) :
    objectAccepts declared (serializedOutput v) = true := by
  unfold conformsShape at h
  cases s with
  | mapLit fs =>
    simp only [Shape.fields, Bool.and_eq_true] at h
    cases v <;> simp [Val.hasShape] at hv
    exact fields_accepted h.1.2 h.2 hv
  | struct n fs =>
    simp only [Shape.fields, Bool.and_eq_true] at h
    cases v <;> simp [Val.hasShape] at hv
    exact fields_accepted h.1.2 h.2 hv.2
  | dynamic src => simp [Shape.fields] at h
  | unknown src => simp [Shape.fields] at h

end Arca.Proofs.Outputs
