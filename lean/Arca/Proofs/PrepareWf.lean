/-
Helper lemmas for C10 / C16, part 3: the operation sequence of a whole workflow (`Wf.ops`) against the declarative edge
sets (`stageOutS`, `lifecycleS`, `impliedS`), and the facts about the lifecycle tables (`Arca.Gen`) the argument needs.
-/
import Arca.Model.Prepare
import Arca.Proofs.PrepareFold
import Arca.Proofs.PrepareOps

set_option linter.unusedSectionVars false
set_option linter.unusedVariables false

namespace Arca.Model
open Arca.Gen (StageRow pluginStages foreachStages)

/-! ### facts about the generated lifecycle tables (re-checked whenever `Arca.Gen.Lifecycle` changes) -/

/-- every "next stage" of a lifecycle is a stage of that lifecycle -/
theorem next_is_row : ∀ k : StepKind, ∀ row ∈ rowsOf k, ∀ nd ∈ row.next, ∃ row' ∈ rowsOf k, row'.id = nd.1 := by
  intro k; cases k <;> decide

/-- a lifecycle edge that is not a plain `and` never points at a stage that takes input fields; so an expression
dependency of a stage (always `and`, tolerated when the connection exists) cannot coincide with it -/
theorem soft_next_no_fields : ∀ k : StepKind, ∀ row ∈ rowsOf k, ∀ nd ∈ row.next, nd.2 ≠ Dep.and →
    ∀ row' ∈ rowsOf k, row'.id = nd.1 → row'.inputFields = [] := by
  intro k; cases k <;> decide

theorem rows_nodup : ∀ k : StepKind, ((rowsOf k).map (·.id)).Nodup := by
  intro k; cases k <;> decide

theorem enabling_row : ∀ k : StepKind, ∃ row ∈ rowsOf k, row.id = "enabling" := by
  intro k; cases k <;> decide

/-! ### membership in `Wf.ops` -/

/-- the operations that do not come from a value: nodes of stages, outputs and workflow outputs; lifecycle edges -/
def Wf.headOps (po : List String) (wf : Wf) : List Op :=
  failIf wf.steps.isEmpty .noSteps ++ [.node .input] ++ wf.steps.flatMap (stepNodeOps po)
    ++ wf.steps.flatMap (fun s => (rowsOf s.kind).flatMap (fun row =>
        row.next.map (fun nd => Op.edge (.stage s.id row.id) (.stage s.id nd.1) nd.2 false)))
    ++ failIf wf.outputs.isEmpty .noOutputs ++ wf.outputs.map (fun o => Op.node (.wfout o.1))

theorem mem_roots {wf : Wf} {ra : NodeId × AIn} :
    ra ∈ wf.roots ↔
      (∃ s ∈ wf.steps, ∃ row ∈ rowsOf s.kind, ∃ f ∈ row.inputFields,
          lookup f s.fields = some ra.2 ∧ ra.1 = .stage s.id row.id) ∨
      (∃ o ∈ wf.outputs, ra = (.wfout o.1, o.2)) := by
  unfold Wf.roots
  simp only [List.mem_append, List.mem_flatMap, List.mem_filterMap, List.mem_map, Option.map_eq_some_iff]
  constructor
  · rintro (⟨s, hs, row, hrow, f, hf, a, ha, rfl⟩ | ⟨o, ho, rfl⟩)
    · exact Or.inl ⟨s, hs, row, hrow, f, hf, ha, rfl⟩
    · exact Or.inr ⟨o, ho, rfl⟩
  · rintro (⟨s, hs, row, hrow, f, hf, ha, h1⟩ | ⟨o, ho, rfl⟩)
    · refine Or.inl ⟨s, hs, row, hrow, f, hf, ra.2, ha, ?_⟩
      rw [← h1]
    · exact Or.inr ⟨o, ho, rfl⟩

theorem mem_allSites {wf : Wf} {σ : Site} : σ ∈ wf.allSites ↔ ∃ ra ∈ wf.roots, σ ∈ sites ra.1 [] ra.2 := by
  unfold Wf.allSites
  simp only [List.mem_flatMap]

theorem mem_stepEdgeOps {R : Resolver} {s : Step} {op : Op} :
    op ∈ stepEdgeOps R s ↔
      (∃ row ∈ rowsOf s.kind, ∃ nd ∈ row.next, op = .edge (.stage s.id row.id) (.stage s.id nd.1) nd.2 false) ∨
      (∃ row ∈ rowsOf s.kind, ∃ f ∈ row.inputFields, ∃ a, lookup f s.fields = some a ∧
          op ∈ opsIn R (.stage s.id row.id) [] a) := by
  unfold stepEdgeOps rowEdgeOps
  simp only [List.mem_flatMap, List.mem_append, List.mem_map]
  constructor
  · rintro ⟨row, hrow, ⟨nd, hnd, rfl⟩ | ⟨f, hf, hop⟩⟩
    · exact Or.inl ⟨row, hrow, nd, hnd, rfl⟩
    · unfold fieldOps at hop
      split at hop
      · simp at hop
      · rename_i a ha
        exact Or.inr ⟨row, hrow, f, hf, a, ha, hop⟩
  · rintro (⟨row, hrow, nd, hnd, rfl⟩ | ⟨row, hrow, f, hf, a, ha, hop⟩)
    · exact ⟨row, hrow, Or.inl ⟨nd, hnd, rfl⟩⟩
    · refine ⟨row, hrow, Or.inr ⟨f, hf, ?_⟩⟩
      unfold fieldOps
      simp only [ha]
      exact hop

theorem mem_ops {po : List String} {wf : Wf} {op : Op} :
    op ∈ wf.ops po ↔ op ∈ wf.headOps po ∨ ∃ σ ∈ wf.allSites, op ∈ siteOps (wf.resolve po) σ := by
  have hsite : ∀ (c : NodeId) (a : AIn), (c, a) ∈ wf.roots →
      (op ∈ opsIn (wf.resolve po) c [] a ↔ ∃ σ ∈ sites c [] a, op ∈ siteOps (wf.resolve po) σ) := by
    intro c a _
    rw [opsIn_eq]
    simp only [List.mem_flatMap]
  unfold Wf.ops Wf.headOps
  simp only [List.mem_append, List.mem_flatMap, mem_stepEdgeOps, List.mem_map, outputOps, List.mem_cons]
  constructor
  · rintro (((((h | h) | h) | ⟨s, hs, h⟩) | h) | ⟨o, ho, h⟩)
    · exact Or.inl (Or.inl (Or.inl (Or.inl (Or.inl (Or.inl h)))))
    · exact Or.inl (Or.inl (Or.inl (Or.inl (Or.inl (Or.inr h)))))
    · exact Or.inl (Or.inl (Or.inl (Or.inl (Or.inr h))))
    · rcases h with ⟨row, hrow, nd, hnd, rfl⟩ | ⟨row, hrow, f, hf, a, ha, hop⟩
      · exact Or.inl (Or.inl (Or.inl (Or.inr ⟨s, hs, row, hrow, nd, hnd, rfl⟩)))
      · have hr : (NodeId.stage s.id row.id, a) ∈ wf.roots :=
          mem_roots.2 (Or.inl ⟨s, hs, row, hrow, f, hf, ha, rfl⟩)
        obtain ⟨σ, hσ, h1⟩ := (hsite _ _ hr).1 hop
        exact Or.inr ⟨σ, mem_allSites.2 ⟨_, hr, hσ⟩, h1⟩
    · exact Or.inl (Or.inl (Or.inr h))
    · rcases h with rfl | hop
      · exact Or.inl (Or.inr ⟨o, ho, rfl⟩)
      · have hr : (NodeId.wfout o.1, o.2) ∈ wf.roots := mem_roots.2 (Or.inr ⟨o, ho, rfl⟩)
        obtain ⟨σ, hσ, h1⟩ := (hsite _ _ hr).1 hop
        exact Or.inr ⟨σ, mem_allSites.2 ⟨_, hr, hσ⟩, h1⟩
  · rintro ((((((h | h) | h) | ⟨s, hs, row, hrow, nd, hnd, rfl⟩) | h) | ⟨o, ho, rfl⟩) | ⟨σ, hσ, hop⟩)
    · exact Or.inl (Or.inl (Or.inl (Or.inl (Or.inl h))))
    · exact Or.inl (Or.inl (Or.inl (Or.inl (Or.inr h))))
    · exact Or.inl (Or.inl (Or.inl (Or.inr h)))
    · exact Or.inl (Or.inl (Or.inr ⟨s, hs, Or.inl ⟨row, hrow, nd, hnd, rfl⟩⟩))
    · exact Or.inl (Or.inr h)
    · exact Or.inr ⟨o, ho, Or.inl rfl⟩
    · obtain ⟨ra, hra, hσ'⟩ := mem_allSites.1 hσ
      have hop' : op ∈ opsIn (wf.resolve po) ra.1 [] ra.2 := (hsite ra.1 ra.2 hra).2 ⟨σ, hσ', hop⟩
      rcases mem_roots.1 hra with ⟨s, hs, row, hrow, f, hf, ha, h1⟩ | ⟨o, ho, rfl⟩
      · rw [h1] at hop'
        exact Or.inl (Or.inl (Or.inr ⟨s, hs, Or.inr ⟨row, hrow, f, hf, ra.2, ha, hop'⟩⟩))
      · exact Or.inr ⟨o, ho, Or.inr hop'⟩

/-! ### head operations -/

theorem mem_rowNodeOps {po : List String} {s : String} {row : StageRow} {op : Op} :
    op ∈ rowNodeOps po s row ↔ op = .node (.stage s row.id) ∨
      ∃ o ∈ rowOuts po row, op = .node (.out s row.id o) ∨ op = .edge (.stage s row.id) (.out s row.id o) .and false := by
  unfold rowNodeOps
  simp only [List.mem_cons, List.mem_flatMap, List.mem_nil_iff, or_false]

theorem mem_headOps {po : List String} {wf : Wf} {op : Op} :
    op ∈ wf.headOps po ↔
      (wf.steps.isEmpty = true ∧ op = .fail .noSteps) ∨ op = .node .input ∨
      (∃ s ∈ wf.steps, ∃ row ∈ rowsOf s.kind, op ∈ rowNodeOps po s.id row) ∨
      (∃ s ∈ wf.steps, ∃ row ∈ rowsOf s.kind, ∃ nd ∈ row.next,
          op = .edge (.stage s.id row.id) (.stage s.id nd.1) nd.2 false) ∨
      (wf.outputs.isEmpty = true ∧ op = .fail .noOutputs) ∨
      (∃ o ∈ wf.outputs, op = .node (.wfout o.1)) := by
  unfold Wf.headOps stepNodeOps failIf
  simp only [List.mem_append, List.mem_flatMap, List.mem_map, List.mem_cons, List.mem_nil_iff, or_false]
  constructor
  · rintro (((((h | h) | h) | h) | h) | ⟨o, ho, rfl⟩)
    · split at h
      · rename_i he
        simp only [List.mem_cons, List.mem_nil_iff, or_false] at h
        exact Or.inl ⟨he, h⟩
      · simp at h
    · exact Or.inr (Or.inl h)
    · exact Or.inr (Or.inr (Or.inl h))
    · obtain ⟨s, hs, row, hrow, nd, hnd, rfl⟩ := h
      exact Or.inr (Or.inr (Or.inr (Or.inl ⟨s, hs, row, hrow, nd, hnd, rfl⟩)))
    · split at h
      · rename_i he
        simp only [List.mem_cons, List.mem_nil_iff, or_false] at h
        exact Or.inr (Or.inr (Or.inr (Or.inr (Or.inl ⟨he, h⟩))))
      · simp at h
    · exact Or.inr (Or.inr (Or.inr (Or.inr (Or.inr ⟨o, ho, rfl⟩))))
  · rintro (⟨he, rfl⟩ | h | h | ⟨s, hs, row, hrow, nd, hnd, rfl⟩ | ⟨he, rfl⟩ | ⟨o, ho, rfl⟩)
    · exact Or.inl (Or.inl (Or.inl (Or.inl (Or.inl (by simp [he])))))
    · exact Or.inl (Or.inl (Or.inl (Or.inl (Or.inr h))))
    · exact Or.inl (Or.inl (Or.inl (Or.inr h)))
    · exact Or.inl (Or.inl (Or.inr ⟨s, hs, row, hrow, nd, hnd, rfl⟩))
    · exact Or.inl (Or.inr (by simp [he]))
    · exact Or.inr ⟨o, ho, rfl⟩

/-- edges among the head operations: stage → output, and the lifecycle -/
theorem edge_mem_headOps {po : List String} {wf : Wf} {a b : NodeId} {d : Dep} {tol : Bool} :
    Op.edge a b d tol ∈ wf.headOps po ↔ tol = false ∧ ((a, b, d) ∈ wf.stageOutS po ∨ (a, b, d) ∈ wf.lifecycleS) := by
  rw [mem_headOps]
  unfold Wf.stageOutS Wf.lifecycleS
  simp only [List.mem_flatMap, List.mem_map, mem_rowNodeOps]
  constructor
  · rintro (⟨_, h⟩ | h | ⟨s, hs, row, hrow, h | ⟨o, ho, h | h⟩⟩ | ⟨s, hs, row, hrow, nd, hnd, h⟩ | ⟨_, h⟩ | ⟨o, ho, h⟩)
    · cases h
    · cases h
    · cases h
    · cases h
    · cases h
      exact ⟨rfl, Or.inl ⟨s, hs, row, hrow, o, ho, rfl⟩⟩
    · cases h
      exact ⟨rfl, Or.inr ⟨s, hs, row, hrow, nd, hnd, rfl⟩⟩
    · cases h
    · cases h
  · rintro ⟨rfl, ⟨s, hs, row, hrow, o, ho, h⟩ | ⟨s, hs, row, hrow, nd, hnd, h⟩⟩
    · cases h
      exact Or.inr (Or.inr (Or.inl ⟨s, hs, row, hrow, Or.inr ⟨o, ho, Or.inr rfl⟩⟩))
    · cases h
      exact Or.inr (Or.inr (Or.inr (Or.inl ⟨s, hs, row, hrow, nd, hnd, rfl⟩)))

/-! ### reference resolution -/

/-- what a reference can resolve to: the input node, a stage with outputs, or a declared stage output -/
theorem resolve_ok {po : List String} {wf : Wf} {p : List String} {a : NodeId} (h : wf.resolve po p = .ok a) :
    a = .input ∨
    (∃ s ∈ wf.steps, ∃ row ∈ rowsOf s.kind, a = .stage s.id row.id) ∨
    (∃ s ∈ wf.steps, ∃ row ∈ rowsOf s.kind, ∃ o ∈ rowOuts po row, a = .out s.id row.id o) := by
  unfold Wf.resolve at h
  split at h
  · cases h
  rename_i k rest
  split at h
  · -- input
    split at h
    · cases h; exact Or.inl rfl
    · split at h
      · cases h; exact Or.inl rfl
      · cases h
  split at h
  · -- steps
    split at h
    · cases h
    rename_i s rest'
    split at h
    · cases h
    rename_i st hst
    have hmem : st ∈ wf.steps := List.mem_of_find?_eq_some hst
    have hid : st.id = s := by
      have := List.find?_some hst
      simpa using this
    split at h
    · cases h
    rename_i g rest''
    split at h
    · cases h
    rename_i row hrow
    have hrmem : row ∈ rowsOf st.kind := List.mem_of_find?_eq_some hrow
    have hrid : row.id = g := by
      have := List.find?_some hrow
      simpa using this
    split at h
    · cases h
    split at h
    · cases h
      exact Or.inr (Or.inl ⟨st, hmem, row, hrmem, by rw [hid, hrid]⟩)
    · rename_i o _
      split at h
      · rename_i ho
        cases h
        exact Or.inr (Or.inr ⟨st, hmem, row, hrmem, o, ho, by rw [hid, hrid]⟩)
      · cases h
  · cases h

theorem resolve_isRef {po : List String} {wf : Wf} {p : List String} {a : NodeId} (h : wf.resolve po p = .ok a) :
    a.isRef := by
  rcases resolve_ok h with rfl | ⟨s, _, row, _, rfl⟩ | ⟨s, _, row, _, o, _, rfl⟩ <;> trivial

/-- ... and that node is created by a head operation -/
theorem resolve_node {po : List String} {wf : Wf} {p : List String} {a : NodeId} (h : wf.resolve po p = .ok a) :
    Op.node a ∈ wf.headOps po := by
  rw [mem_headOps]
  rcases resolve_ok h with rfl | ⟨s, hs, row, hrow, rfl⟩ | ⟨s, hs, row, hrow, o, ho, rfl⟩
  · exact Or.inr (Or.inl rfl)
  · exact Or.inr (Or.inr (Or.inl ⟨s, hs, row, hrow, mem_rowNodeOps.2 (Or.inl rfl)⟩))
  · exact Or.inr (Or.inr (Or.inl ⟨s, hs, row, hrow, mem_rowNodeOps.2 (Or.inr ⟨o, ho, Or.inl rfl⟩)⟩))

/-! ### the edge operations of a workflow are exactly the declared edges -/

theorem mem_impliedS {po : List String} {wf : Wf} {x : Edge} :
    x ∈ wf.impliedS po ↔ ∃ σ ∈ wf.allSites, x ∈ siteEdges (wf.resolve po) σ := by
  unfold Wf.impliedS
  simp only [List.mem_flatMap]

theorem ops_edge_sound {po : List String} {wf : Wf} {a b : NodeId} {d : Dep} {tol : Bool}
    (h : Op.edge a b d tol ∈ wf.ops po) :
    (a, b, d) ∈ wf.stageOutS po ∨ (a, b, d) ∈ wf.lifecycleS ∨ (a, b, d) ∈ wf.impliedS po := by
  rcases mem_ops.1 h with h | ⟨σ, hσ, h⟩
  · rcases (edge_mem_headOps.1 h).2 with h | h
    · exact Or.inl h
    · exact Or.inr (Or.inl h)
  · exact Or.inr (Or.inr (mem_impliedS.2 ⟨σ, hσ, siteOps_edge_sound h⟩))

theorem ops_edge_complete {po : List String} {wf : Wf} (hnf : ∀ r, Op.fail r ∉ wf.ops po) {a b : NodeId} {d : Dep}
    (h : (a, b, d) ∈ wf.stageOutS po ∨ (a, b, d) ∈ wf.lifecycleS ∨ (a, b, d) ∈ wf.impliedS po) :
    ∃ tol, Op.edge a b d tol ∈ wf.ops po := by
  rcases h with h | h | h
  · exact ⟨false, mem_ops.2 (Or.inl (edge_mem_headOps.2 ⟨rfl, Or.inl h⟩))⟩
  · exact ⟨false, mem_ops.2 (Or.inl (edge_mem_headOps.2 ⟨rfl, Or.inr h⟩))⟩
  · obtain ⟨σ, hσ, hx⟩ := mem_impliedS.1 h
    have hnf' : ∀ r, Op.fail r ∉ siteOps (wf.resolve po) σ :=
      fun r hr => hnf r (mem_ops.2 (Or.inr ⟨σ, hσ, hr⟩))
    obtain ⟨tol, ht⟩ := siteOps_edge_complete hnf' hx
    exact ⟨tol, mem_ops.2 (Or.inr ⟨σ, hσ, ht⟩)⟩

end Arca.Model
