/-
Helper lemmas for C18: integer / boolean text round trips, `strings.Split` / `strings.Join`, case mapping,
bindConstants.
-/
import Arca.Model.Builtins

namespace Arca.Proofs.Builtins
open Arca.Model Arca.Model.Builtins

/-! ### parseNat ∘ Nat.repr -/

theorem parseNat_toDigits (n : Nat) : parseNat (Nat.toDigits 10 n) = some n := by
  unfold parseNat
  have hne : (Nat.toDigits 10 n).isEmpty = false := by
    cases h : Nat.toDigits 10 n with
    | nil => exact absurd h Nat.toDigits_ne_nil
    | cons _ _ => rfl
  have hall : (Nat.toDigits 10 n).all Char.isDigit = true := by
    rw [List.all_eq_true]
    intro c hc
    exact Nat.isDigit_of_mem_toDigits (by decide) (by decide) hc
  simp [hne, hall, Nat.ofDigitChars_ten_toDigits]

theorem head_toDigits_isDigit (n : Nat) : ∃ c rest, Nat.toDigits 10 n = c :: rest ∧ c.isDigit = true := by
  cases h : Nat.toDigits 10 n with
  | nil => exact absurd h Nat.toDigits_ne_nil
  | cons c rest =>
    refine ⟨c, rest, rfl, ?_⟩
    apply Nat.isDigit_of_mem_toDigits (b := 10) (n := n) (by decide) (by decide)
    rw [h]; exact List.mem_cons_self

theorem stringToIntChars_unsigned {cs : List Char} {c : Char} {rest : List Char} (h : cs = c :: rest)
    (hc : c.isDigit = true) :
    stringToIntChars cs = (parseNat cs).bind fun n => if n < 2 ^ 63 then some (n : Int) else none := by
  subst h
  unfold stringToIntChars
  split
  · rename_i heq; injection heq with h1 _; subst h1; exact absurd hc (by decide)
  · rename_i heq; injection heq with h1 _; subst h1; exact absurd hc (by decide)
  · rfl

theorem stringToInt_intToString_aux (i : Int) (hlo : minInt64 ≤ i) (hhi : i ≤ maxInt64) :
    stringToInt (intToString i) = some i := by
  unfold stringToInt intToString
  unfold minInt64 at hlo
  unfold maxInt64 at hhi
  by_cases hneg : i < 0
  · simp only [hneg, if_true]
    have hl : ("-" ++ Nat.repr i.natAbs).toList = '-' :: Nat.toDigits 10 i.natAbs := by
      rw [String.toList_append, Nat.toList_repr]; rfl
    rw [hl]
    show ((parseNat (Nat.toDigits 10 i.natAbs)).bind fun n => if n ≤ 2 ^ 63 then some (-(n : Int)) else none) = some i
    rw [parseNat_toDigits]
    have : i.natAbs ≤ 2 ^ 63 := by omega
    simp only [Option.bind_some, this, if_true]
    congr 1; omega
  · simp only [hneg, if_false]
    rw [Nat.toList_repr]
    obtain ⟨c, rest, hcr, hc⟩ := head_toDigits_isDigit i.natAbs
    rw [stringToIntChars_unsigned hcr hc, parseNat_toDigits]
    have : i.natAbs < 2 ^ 63 := by omega
    simp only [Option.bind_some, this, if_true]
    congr 1; omega

/-! ### booleans -/

theorem stringToBool_boolToString_aux (b : Bool) : stringToBool (boolToString b) = some b := by
  cases b <;> decide

/-! ### strings.Split / strings.Join -/

theorem splitGo_ne_nil (sep : List Char) (fuel : Nat) (s cur : List Char) : splitGo sep fuel s cur ≠ [] := by
  induction fuel generalizing s cur with
  | zero => simp [splitGo]
  | succ f ih =>
    cases s with
    | nil => simp [splitGo]
    | cons c cs =>
      unfold splitGo
      split
      · simp
      · exact ih _ _

theorem joinChars_cons {sep p : List Char} {l : List (List Char)} (h : l ≠ []) :
    joinChars sep (p :: l) = p ++ sep ++ joinChars sep l := by
  cases l with
  | nil => exact absurd rfl h
  | cons q rest => rfl

theorem join_splitGo (sep : List Char) (hsep : sep ≠ []) (fuel : Nat) (s cur : List Char) (hf : s.length ≤ fuel) :
    joinChars sep (splitGo sep fuel s cur) = cur.reverse ++ s := by
  induction fuel generalizing s cur with
  | zero =>
    have : s = [] := List.length_eq_zero_iff.1 (Nat.le_zero.1 hf)
    subst this
    simp [splitGo, joinChars]
  | succ f ih =>
    cases s with
    | nil => simp [splitGo, joinChars]
    | cons c cs =>
      unfold splitGo
      split
      · rename_i hp
        rw [joinChars_cons (splitGo_ne_nil _ _ _ _)]
        have hlen : ((c :: cs).drop sep.length).length ≤ f := by
          have : 0 < sep.length := List.length_pos_iff.2 hsep
          simp only [List.length_drop, List.length_cons] at hf ⊢
          omega
        rw [ih _ _ hlen]
        have hpre : sep <+: (c :: cs) := List.isPrefixOf_iff_prefix.1 hp
        have := List.prefix_iff_eq_append.1 hpre
        simp only [List.reverse_nil, List.nil_append, List.append_assoc]
        rw [this]
      · have hlen : cs.length ≤ f := by simp only [List.length_cons] at hf; omega
        rw [ih _ _ hlen]
        simp

theorem join_explode (s : List Char) : joinChars [] (s.map fun c => [c]) = s := by
  induction s with
  | nil => rfl
  | cons c cs ih =>
    cases cs with
    | nil => rfl
    | cons d ds =>
      simp only [List.map_cons] at ih ⊢
      show [c] ++ [] ++ joinChars [] ([d] :: List.map (fun c => [c]) ds) = c :: d :: ds
      rw [ih]; rfl

theorem join_splitChars (s sep : List Char) : joinChars sep (splitChars s sep) = s := by
  unfold splitChars
  cases sep with
  | nil => simpa using join_explode s
  | cons a as =>
    simp only [List.isEmpty_cons, Bool.false_eq_true, if_false]
    simpa using join_splitGo (a :: as) (by simp) s.length s [] (Nat.le_refl _)

theorem length_splitGo (sep : List Char) (fuel : Nat) (s cur : List Char) :
    (splitGo sep fuel s cur).length = countGo sep fuel s + 1 := by
  induction fuel generalizing s cur with
  | zero => simp [splitGo, countGo]
  | succ f ih =>
    cases s with
    | nil => simp [splitGo, countGo]
    | cons c cs =>
      unfold splitGo countGo
      split
      · simp [ih]
      · exact ih _ _

/-! ### case mapping -/

theorem ascii_cases (P : Char → Prop) (h : ∀ n : Fin 128, P (Char.ofNat n.val)) (c : Char) (hc : isAscii c = true) : P c := by
  have hlt : c.toNat < 128 := by simpa [isAscii] using hc
  have := h ⟨c.toNat, hlt⟩
  simpa [Char.ofNat_toNat] using this

theorem lower_ascii (c : Char) (hc : isAscii c = true) :
    isAscii c.toLower = true ∧ c.toLower.toLower = c.toLower :=
  ascii_cases (fun c => isAscii c.toLower = true ∧ c.toLower.toLower = c.toLower) (by decide) c hc

theorem upper_ascii (c : Char) (hc : isAscii c = true) :
    isAscii c.toUpper = true ∧ c.toUpper.toUpper = c.toUpper :=
  ascii_cases (fun c => isAscii c.toUpper = true ∧ c.toUpper.toUpper = c.toUpper) (by decide) c hc

theorem toLowerWith_idem_of (cm : Char → Char) (h : ∀ c, lowerChar cm (lowerChar cm c) = lowerChar cm c) (s : String) :
    toLowerWith cm (toLowerWith cm s) = toLowerWith cm s := by
  unfold toLowerWith
  rw [String.toList_ofList, List.map_map]
  congr 1
  apply List.map_congr_left
  intro c _
  exact h c

theorem toUpperWith_idem_of (cm : Char → Char) (h : ∀ c, upperChar cm (upperChar cm c) = upperChar cm c) (s : String) :
    toUpperWith cm (toUpperWith cm s) = toUpperWith cm s := by
  unfold toUpperWith
  rw [String.toList_ofList, List.map_map]
  congr 1
  apply List.map_congr_left
  intro c _
  exact h c

theorem toLowerWith_idem_ascii (cm : Char → Char) (s : String) (hs : s.toList.all isAscii = true) :
    toLowerWith cm (toLowerWith cm s) = toLowerWith cm s := by
  unfold toLowerWith
  rw [String.toList_ofList, List.map_map]
  congr 1
  apply List.map_congr_left
  intro c hc
  have hca : isAscii c = true := (List.all_eq_true.1 hs) c hc
  have := lower_ascii c hca
  simp [lowerChar, hca, this.1, this.2]

theorem toUpperWith_idem_ascii (cm : Char → Char) (s : String) (hs : s.toList.all isAscii = true) :
    toUpperWith cm (toUpperWith cm s) = toUpperWith cm s := by
  unfold toUpperWith
  rw [String.toList_ofList, List.map_map]
  congr 1
  apply List.map_congr_left
  intro c hc
  have hca : isAscii c = true := (List.all_eq_true.1 hs) c hc
  have := upper_ascii c hca
  simp [upperChar, hca, this.1, this.2]

end Arca.Proofs.Builtins
