/-
Witnesses and counterexamples for `LoopDag.lean`.

* `P0` is a small prepared workflow WITH a stage-output item; `P0_wf : P0.WF` shows that the corrected
  `Prepared.WF` is satisfiable by such workflows (the first version was not: `WFOrig_no_stage_outputs`).
* `P2` additionally has a dependency-group node `steps.a.s.k` (kind `group`) below the declared stage `s` of step `a`;
  `P2_wf : P2.WF`, whereas `output_kind` for arbitrary `out` fails on it (`P2_not_output_kind_all`).
* The `#guard`s replay, on the executable model, the counterexamples to `react_data_inv` /
  `provide_refs_available` as first stated (without `DataMap`, `EventOK`, `WF.output_unamb`): in each of them the
  state before the reaction satisfies `LoopDagInv` and `DataInv`, the loop stays alive, a stage-output node is
  `resolved` and its value is NOT in the data model (and in CE1/CE3 the dependent stage `b/t` is provided).
-/
import Arca.Proofs.LoopDag

namespace Arca.Model.Cex

def nd (id : String) (out : List (String × Dep)) : Node String := ⟨id, .waiting, out, []⟩

def itA : Item := { kind := .stage, step := "a", stage := "s" }
def itO : Item := { kind := .stageOutput, step := "a", stage := "s", output := "o" }
def itB : Item := { kind := .stage, step := "b", stage := "t", data := some (.lit (.map [])), hasSchema := true }

/-- input → steps.a.s (stage) → steps.a.s.o (stage output) → steps.b.t (stage with a literal input) -/
def P0 : Prepared :=
  { dag := ⟨[nd "input" [], nd "steps.a.s" [("input", .and)], nd "steps.a.s.o" [("steps.a.s", .and)],
             nd "steps.b.t" [("steps.a.s.o", .and)]],
            [("input", "steps.a.s", .and), ("steps.a.s", "steps.a.s.o", .and), ("steps.a.s.o", "steps.b.t", .and)], []⟩,
    items := [("input", { kind := .input }), ("steps.a.s", itA), ("steps.a.s.o", itO), ("steps.b.t", itB)],
    stages := [("a", [("s", ["o"])]), ("b", [("t", [])])],
    errCap := 5 }

theorem P0_inv : P0.dag.Inv := by
  constructor <;> simp [P0, nd, Graph.find?, Graph.has, keys, entryOk]

theorem declares_P0 {step stage : String} (h : P0.declares step stage) :
    (step = "a" ∧ stage = "s") ∨ (step = "b" ∧ stage = "t") := by
  obtain ⟨sts, outs, h1, h2⟩ := h
  simp only [P0, lookup] at h1
  split at h1
  · cases h1
    simp only [lookup] at h2
    split at h2
    · left; constructor <;> assumption
    · cases h2
  · split at h1
    · cases h1
      simp only [lookup] at h2
      split at h2
      · right; constructor <;> assumption
      · cases h2
    · cases h1

theorem items_cases {id : String} {it : Item} (h : lookup id P0.items = some it) :
    (id = "input" ∧ it = { kind := .input }) ∨ (id = "steps.a.s" ∧ it = itA) ∨ (id = "steps.a.s.o" ∧ it = itO) ∨
    (id = "steps.b.t" ∧ it = itB) := by
  simp only [P0, lookup] at h
  split at h
  · cases h; exact .inl ⟨‹_›, rfl⟩
  split at h
  · cases h; exact .inr (.inl ⟨‹_›, rfl⟩)
  split at h
  · cases h; exact .inr (.inr (.inl ⟨‹_›, rfl⟩))
  split at h
  · cases h; exact .inr (.inr (.inr ⟨‹_›, rfl⟩))
  · cases h

theorem pre_a (out x : String) (h : "steps." ++ "a" ++ "." ++ "s" ++ "." ++ out = x) :
    x.toList = "steps.a.s.".toList ++ out.toList := by
  subst h; simp [String.toList_append]

theorem pre_b (out x : String) (h : "steps." ++ "b" ++ "." ++ "t" ++ "." ++ out = x) :
    x.toList = "steps.b.t.".toList ++ out.toList := by
  subst h; simp [String.toList_append]

/-- the corrected well-formedness predicate holds of a workflow that has a stage-output item -/
theorem P0_wf : P0.WF := by
  refine ⟨P0_inv, ?_, rfl, ?_, ?_, ?_, ?_, ?_, ?_⟩
  · simp [P0, nd]
  · simp [P0, nd, lookup]
  · intro id it hit hk
    rcases items_cases hit with ⟨rfl, rfl⟩ | ⟨rfl, rfl⟩ | ⟨rfl, rfl⟩ | ⟨rfl, rfl⟩
    · cases hk
    · decide
    · cases hk
    · decide
  · intro id it hit hk
    rcases items_cases hit with ⟨rfl, rfl⟩ | ⟨rfl, rfl⟩ | ⟨rfl, rfl⟩ | ⟨rfl, rfl⟩
    · cases hk
    · cases hk
    · exact ⟨by decide, by decide⟩
    · cases hk
  · intro step stage it hd hit
    rcases declares_P0 hd with ⟨rfl, rfl⟩ | ⟨rfl, rfl⟩
    · rcases items_cases hit with ⟨h, rfl⟩ | ⟨h, rfl⟩ | ⟨h, rfl⟩ | ⟨h, rfl⟩
      · exact absurd h (by decide)
      · rfl
      · exact absurd h (by decide)
      · rfl
    · rcases items_cases hit with ⟨h, rfl⟩ | ⟨h, rfl⟩ | ⟨h, rfl⟩ | ⟨h, rfl⟩
      · exact absurd h (by decide)
      · rfl
      · exact absurd h (by decide)
      · rfl
  · intro step stage out it hd _ hit
    rcases declares_P0 hd with ⟨rfl, rfl⟩ | ⟨rfl, rfl⟩
    · rcases items_cases hit with ⟨h, rfl⟩ | ⟨h, rfl⟩ | ⟨h, rfl⟩ | ⟨h, rfl⟩
      · have := pre_a _ _ h; simp at this
      · have := pre_a _ _ h; simp at this
      · rfl
      · have := pre_a _ _ h; simp at this
    · rcases items_cases hit with ⟨h, rfl⟩ | ⟨h, rfl⟩ | ⟨h, rfl⟩ | ⟨h, rfl⟩
      · have := pre_b _ _ h; simp at this
      · have := pre_b _ _ h; simp at this
      · have := pre_b _ _ h; simp at this
      · have := pre_b _ _ h; simp at this
  · intro step stage out it hd _ hit hk
    rcases declares_P0 hd with ⟨rfl, rfl⟩ | ⟨rfl, rfl⟩
    · rcases items_cases hit with ⟨h, rfl⟩ | ⟨h, rfl⟩ | ⟨h, rfl⟩ | ⟨h, rfl⟩
      · cases hk
      · cases hk
      · exact ⟨rfl, rfl⟩
      · cases hk
    · rcases items_cases hit with ⟨h, rfl⟩ | ⟨h, rfl⟩ | ⟨h, rfl⟩ | ⟨h, rfl⟩
      · cases hk
      · cases hk
      · have := pre_b _ _ h; simp at this
      · cases hk

/-- the corrected `WF` does not exclude stage outputs -/
theorem WF_has_stage_outputs : ∃ P : Prepared, P.WF ∧ ∃ id it, lookup id P.items = some it ∧ it.kind = Kind.stageOutput :=
  ⟨P0, P0_wf, "steps.a.s.o", itO, by simp [P0, lookup], rfl⟩

/-! ### a workflow with a dependency-group node below a declared stage

`P2` = `P0` plus the node `steps.a.s.k` of kind `group` (what `createGroupNode` builds for a tagged value under key `k`
of the input of stage `s` of step `a`).  Its id is `outputNodeId "a" "s" "k"` although it is no stage output: the
corrected `WF` (clauses only about *declared* outputs) accepts it, `output_kind` for arbitrary `out` did not. -/

def itK : Item := { kind := .group }

def P2 : Prepared :=
  { dag := ⟨[nd "input" [], nd "steps.a.s.k" [("input", .and)],
             nd "steps.a.s" [("input", .and), ("steps.a.s.k", .opt)], nd "steps.a.s.o" [("steps.a.s", .and)],
             nd "steps.b.t" [("steps.a.s.o", .and)]],
            [("input", "steps.a.s.k", .and), ("input", "steps.a.s", .and), ("steps.a.s.k", "steps.a.s", .opt),
             ("steps.a.s", "steps.a.s.o", .and), ("steps.a.s.o", "steps.b.t", .and)], []⟩,
    items := [("input", { kind := .input }), ("steps.a.s.k", itK), ("steps.a.s", itA), ("steps.a.s.o", itO),
              ("steps.b.t", itB)],
    stages := [("a", [("s", ["o"])]), ("b", [("t", [])])],
    errCap := 5 }

theorem P2_inv : P2.dag.Inv := by
  constructor <;> simp [P2, nd, Graph.find?, Graph.has, keys, entryOk]
  rintro a b (⟨rfl, rfl⟩ | ⟨rfl, rfl⟩)
  · exact ⟨.and, .inl ⟨rfl, rfl⟩, .inl rfl⟩
  · exact ⟨.opt, .inr ⟨rfl, rfl⟩, .inl rfl⟩

theorem declares_P2 {step stage : String} (h : P2.declares step stage) :
    (step = "a" ∧ stage = "s") ∨ (step = "b" ∧ stage = "t") := declares_P0 h

theorem items_cases2 {id : String} {it : Item} (h : lookup id P2.items = some it) :
    (id = "input" ∧ it = { kind := .input }) ∨ (id = "steps.a.s.k" ∧ it = itK) ∨ (id = "steps.a.s" ∧ it = itA) ∨
    (id = "steps.a.s.o" ∧ it = itO) ∨ (id = "steps.b.t" ∧ it = itB) := by
  simp only [P2, lookup] at h
  split at h
  · cases h; exact .inl ⟨‹_›, rfl⟩
  split at h
  · cases h; exact .inr (.inl ⟨‹_›, rfl⟩)
  split at h
  · cases h; exact .inr (.inr (.inl ⟨‹_›, rfl⟩))
  split at h
  · cases h; exact .inr (.inr (.inr (.inl ⟨‹_›, rfl⟩)))
  split at h
  · cases h; exact .inr (.inr (.inr (.inr ⟨‹_›, rfl⟩)))
  · cases h

theorem outputsOf_P2_a : P2.outputsOf "a" "s" = ["o"] := by decide
theorem outputsOf_P2_b : P2.outputsOf "b" "t" = [] := by decide

/-- the corrected well-formedness predicate holds of a workflow with a group node `steps.a.s.k` below the declared
stage `s` of step `a` -/
theorem P2_wf : P2.WF := by
  refine ⟨P2_inv, ?_, rfl, ?_, ?_, ?_, ?_, ?_, ?_⟩
  · simp [P2, nd]
  · simp [P2, nd, lookup]
  · intro id it hit hk
    rcases items_cases2 hit with ⟨rfl, rfl⟩ | ⟨rfl, rfl⟩ | ⟨rfl, rfl⟩ | ⟨rfl, rfl⟩ | ⟨rfl, rfl⟩
    · cases hk
    · cases hk
    · decide
    · cases hk
    · decide
  · intro id it hit hk
    rcases items_cases2 hit with ⟨rfl, rfl⟩ | ⟨rfl, rfl⟩ | ⟨rfl, rfl⟩ | ⟨rfl, rfl⟩ | ⟨rfl, rfl⟩
    · cases hk
    · cases hk
    · cases hk
    · exact ⟨by decide, by decide⟩
    · cases hk
  · intro step stage it hd hit
    rcases declares_P2 hd with ⟨rfl, rfl⟩ | ⟨rfl, rfl⟩
    · rcases items_cases2 hit with ⟨h, rfl⟩ | ⟨h, rfl⟩ | ⟨h, rfl⟩ | ⟨h, rfl⟩ | ⟨h, rfl⟩
      · exact absurd h (by decide)
      · exact absurd h (by decide)
      · rfl
      · exact absurd h (by decide)
      · rfl
    · rcases items_cases2 hit with ⟨h, rfl⟩ | ⟨h, rfl⟩ | ⟨h, rfl⟩ | ⟨h, rfl⟩ | ⟨h, rfl⟩
      · exact absurd h (by decide)
      · exact absurd h (by decide)
      · rfl
      · exact absurd h (by decide)
      · rfl
  · intro step stage out it hd hmem hit
    rcases declares_P2 hd with ⟨rfl, rfl⟩ | ⟨rfl, rfl⟩
    · rw [outputsOf_P2_a, List.mem_singleton] at hmem
      subst hmem
      rcases items_cases2 hit with ⟨h, rfl⟩ | ⟨h, rfl⟩ | ⟨h, rfl⟩ | ⟨h, rfl⟩ | ⟨h, rfl⟩
      · exact absurd h (by decide)
      · exact absurd h (by decide)
      · exact absurd h (by decide)
      · rfl
      · exact absurd h (by decide)
    · rw [outputsOf_P2_b] at hmem
      cases hmem
  · intro step stage out it hd hmem hit hk
    rcases declares_P2 hd with ⟨rfl, rfl⟩ | ⟨rfl, rfl⟩
    · rw [outputsOf_P2_a, List.mem_singleton] at hmem
      subst hmem
      rcases items_cases2 hit with ⟨h, rfl⟩ | ⟨h, rfl⟩ | ⟨h, rfl⟩ | ⟨h, rfl⟩ | ⟨h, rfl⟩
      · cases hk
      · cases hk
      · cases hk
      · exact ⟨rfl, rfl⟩
      · cases hk
    · rw [outputsOf_P2_b] at hmem
      cases hmem

/-- `output_kind` quantified over every `out` (as in the previous version of `WF`) is false of `P2` -/
theorem P2_not_output_kind_all :
    ¬ ∀ step stage out it, P2.declares step stage →
        lookup (outputNodeId step stage out) P2.items = some it → it.kind = Kind.stageOutput := by
  intro H
  have hd : P2.declares "a" "s" := ⟨[("s", ["o"])], ["o"], by decide, by decide⟩
  have hl : lookup (outputNodeId "a" "s" "k") P2.items = some itK := by
    have : outputNodeId "a" "s" "k" = "steps.a.s.k" := by decide
    rw [this]; simp [P2, lookup]
  have := H "a" "s" "k" itK hd hl
  cases this

/-! ### executable counterexamples to the statements as first given -/

def fns0 : Fns := fun _ _ => .error (.unknownFn "")
def ord0 : Order := id

def resolvedB (s : LoopState) (id : String) : Bool :=
  match s.dag.statusOf id with
  | some .resolved => true
  | _ => false

/-- alive, the stage-output node `id` is resolved, and its value is absent from the data model -/
def violates (s : LoopState) (step stage out id : String) : Bool :=
  !s.dead && resolvedB s id && !(lookupData s.data step stage out).isSome

/-- no node among `ids` is resolved (so `DataInv` holds trivially for the stage outputs among them) -/
def noneResolved (s : LoopState) (ids : List String) : Bool := ids.all (fun id => !resolvedB s id)

def provided (acts : List Action) (step stage : String) : Bool :=
  acts.any (fun a => match a with | .provide a b _ => a == step && b == stage | _ => false)

def done : Event := .stageChange "a" (some "s") (some ("o", .str "x")) false

-- the normal run keeps the invariant: the output is resolved and its data is present
#guard resolvedB (run P0 fns0 ord0 [.start .null, done]).1 "steps.a.s.o"
#guard !violates (run P0 fns0 ord0 [.start .null, done]).1 "a" "s" "o" "steps.a.s.o"

/-- CE1 (`DataMap` is needed): same state as after `start`, but the data model is not a map -/
def s1 : LoopState := { (run P0 fns0 ord0 [.start .null]).1 with data := .null }
#guard noneResolved s1 ["steps.a.s.o"]                                   -- `DataInv P0 s1`
#guard violates (react P0 fns0 ord0 s1 done).1 "a" "s" "o" "steps.a.s.o"  -- `DataInv` broken
#guard provided (react P0 fns0 ord0 s1 done).2 "b" "t"                    -- and `b/t` is provided nevertheless

/-- CE2 (`EventOK`, `start`): a second `start` replaces the data model while the output stays resolved -/
def s2 : LoopState := (run P0 fns0 ord0 [.start .null, done]).1
#guard !violates s2 "a" "s" "o" "steps.a.s.o"                                     -- `DataInv P0 s2`
#guard violates (react P0 fns0 ord0 s2 (.start .null)).1 "a" "s" "o" "steps.a.s.o"  -- broken

/-- CE3 (`EventOK`, declared stages): the callback names the undeclared stage `s.o` of step `a`; its "stage node"
`steps.a.s.o` is the output node of (a, s, o), which gets resolved without any data -/
def s3 : LoopState := (run P0 fns0 ord0 [.start .null, .stageChange "a" (some "s") none false]).1
#guard noneResolved s3 ["steps.a.s.o"]
#guard violates (react P0 fns0 ord0 s3 (.stageChange "a" (some "s.o") none false)).1 "a" "s" "o" "steps.a.s.o"
#guard provided (react P0 fns0 ord0 s3 (.stageChange "a" (some "s.o") none false)).2 "b" "t"

/-- CE4 (`WF.output_unamb`): the id `steps.a.b.c.d` is the output `d` of (step `a`, stage `b.c`) for its item and the
output `d` of (step `a.b`, stage `c`) for the callback; both stages are declared -/
def P1 : Prepared :=
  { dag := ⟨[nd "input" [], nd "steps.a.b.c" [("input", .and)], nd "steps.a.b.c.d" [("steps.a.b.c", .and)]],
            [("input", "steps.a.b.c", .and), ("steps.a.b.c", "steps.a.b.c.d", .and)], []⟩,
    items := [("input", { kind := .input }),
              ("steps.a.b.c", { kind := .stage, step := "a.b", stage := "c" }),
              ("steps.a.b.c.d", { kind := .stageOutput, step := "a", stage := "b.c", output := "d" })],
    stages := [("a", [("b.c", ["d"])]), ("a.b", [("c", ["d"])])],
    errCap := 5 }
def s4 : LoopState := (run P1 fns0 ord0 [.start .null]).1
#guard noneResolved s4 ["steps.a.b.c.d"]
#guard violates (react P1 fns0 ord0 s4 (.stageChange "a.b" (some "c") (some ("d", .str "x")) false)).1
  "a" "b.c" "d" "steps.a.b.c.d"

/-- CE5 (`EventDeclared`, declared outputs): as `P1`, but `d` is not a declared output of (step `a.b`, stage `c`);
`WF.output_unamb` then says nothing about the callback's id, and a callback reporting the undeclared output `d` of the
declared stage (`a.b`, `c`) resolves the output node of (`a`, `b.c`, `d`) while storing the value elsewhere -/
def P1' : Prepared := { P1 with stages := [("a", [("b.c", ["d"])]), ("a.b", [("c", [])])] }
def s5 : LoopState := (run P1' fns0 ord0 [.start .null]).1
#guard noneResolved s5 ["steps.a.b.c.d"]
#guard violates (react P1' fns0 ord0 s5 (.stageChange "a.b" (some "c") (some ("d", .str "x")) false)).1
  "a" "b.c" "d" "steps.a.b.c.d"

-- a normal run on `P2` (group node present): the group node is resolved by the loop, the invariant is kept
#guard resolvedB (run P2 fns0 ord0 [.start .null]).1 "steps.a.s.k"
#guard !violates (run P2 fns0 ord0 [.start .null, done]).1 "a" "s" "o" "steps.a.s.o"
#guard provided (run P2 fns0 ord0 [.start .null, done]).2 "b" "t"

end Arca.Model.Cex
