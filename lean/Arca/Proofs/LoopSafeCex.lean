/-
Counterexamples to the first statements of `LoopSafe.lean`, each a THEOREM refuting the statement (the reactions are
evaluated by the kernel, `decide +kernel`), and witnesses that the corrected hypotheses are
satisfiable (`PC_wf2`).

* `hist_needs_OrdNodup`  : `OrdOK` alone is not enough — with the corrected `WF2`, the order `l ↦ l ++ l` processes the
  dependency-group node `g` twice after `start`; the second `ResolveNode(Resolved)` is refused: `panic groupResolve`.
* `react_needs_ready_nodup` : with `OrdOK`, `OrdNodup`, the corrected `WF2`, `LoopDagInv`, `ResolvedClosed`, a legal
  `start` panics from a state whose ready set lists `g` twice.
* `react_needs_ready_group` : ... and with a duplicate-free ready set, from a state in which the resolved group node
  `g` sits in the ready set (legal `stageFail`).
* `react_needs_group_soft` : ... and with no resolved group node in the ready set, from a state in which the resolved
  group node `g` still has a hard (`cand`) outstanding entry: a legal `stageFail` of its source makes `g` ready again.
* `hist_needs_input_no_deps` : with the first `WF2` (here `WF2Orig`) and `OrdOK`, `OrdNodup`: the `input` node depends
  (`and`) on the stage node `steps.a.s`; `start` resolves `input` (closure lost), then the legal `stageFail a s` cannot
  mark the stage node unresolvable: `panic markStageNodeUnresolvable`.  Also `react_start_breaks_closed`.
* `hist_needs_input_kind` : with the first `WF2`: the item of `input` has kind `group`; `start` panics (`groupResolve`).
-/
import Arca.Proofs.LoopSafe

set_option linter.unusedVariables false

namespace Arca.Model.SafeCex

/-- `Prepared.WF2` as first stated (without `input_no_deps`, `input_kind`) -/
structure WF2Orig (P : Prepared) : Prop where
  wf : P.WF
  output_nodes : ∀ step stage o, P.declares step stage → o ∈ P.outputsOf step stage →
      (lookup (outputNodeId step stage o) P.items).isSome = true ∧
      (∀ ed ∈ P.dag.edges, ed.2.1 = outputNodeId step stage o → ed.1 = stageNodeId step stage ∧ ed.2.2 = Dep.and)
  stage_data_map : ∀ id it d, lookup id P.items = some it → it.kind = Kind.stage → it.data = some d →
      ∃ kvs, d = InVal.map kvs
  stage_ids_nonempty : ∀ id it, lookup id P.items = some it → it.kind = Kind.stage → it.step ≠ "" ∧ it.stage ≠ ""
  kinds_handled : ∀ id it, lookup id P.items = some it → it.data.isSome = true → it.kind = Kind.stage ∨ it.kind = Kind.output

/-! ### a family of small workflows: one declared stage `s` of step `a` without outputs, no item data -/

structure Simple (P : Prepared) : Prop where
  stages : P.stages = [("a", [("s", [])])]
  inv : P.dag.Inv
  fresh : ∀ n ∈ P.dag.nodes, n.status = St.waiting ∧ n.res = []
  no_ready : P.dag.ready = []
  items_nodes : ∀ n ∈ P.dag.nodes, (lookup n.id P.items).isSome = true
  items : ∀ id it, lookup id P.items = some it → it.kind ≠ Kind.stageOutput ∧ it.data = none ∧
      (it.kind = Kind.stage → id = "steps.a.s" ∧ it.step = "a" ∧ it.stage = "s")
  stage_item : ∀ it, lookup "steps.a.s" P.items = some it → it.kind = Kind.stage

theorem Simple.declares {P : Prepared} (h : Simple P) {step stage : String} (hd : P.declares step stage) :
    step = "a" ∧ stage = "s" := by
  obtain ⟨sts, outs, h1, h2⟩ := hd
  rw [h.stages] at h1
  simp only [lookup] at h1
  split at h1
  · cases h1
    simp only [lookup] at h2
    split at h2
    · constructor <;> assumption
    · cases h2
  · cases h1

theorem Simple.declares_as {P : Prepared} (h : Simple P) : P.declares "a" "s" :=
  ⟨[("s", [])], [], by rw [h.stages]; rfl, rfl⟩

theorem Simple.outputsOf {P : Prepared} (h : Simple P) (step stage : String) : P.outputsOf step stage = [] := by
  unfold Prepared.outputsOf
  rw [h.stages]
  simp only [lookup]
  by_cases hs : step = "a"
  · simp only [hs, ↓reduceIte, lookup]
    split <;> rfl
  · simp only [hs, ↓reduceIte]

theorem sn_as : stageNodeId "a" "s" = "steps.a.s" := by decide

theorem Simple.wf {P : Prepared} (h : Simple P) : P.WF := by
  refine ⟨h.inv, h.fresh, h.no_ready, h.items_nodes, ?_, ?_, ?_, ?_, ?_⟩
  · intro id it hit hk
    obtain ⟨h1, h2, h3⟩ := (h.items id it hit).2.2 hk
    rw [h1, h2, h3, sn_as]
  · intro id it hit hk
    exact absurd hk (h.items id it hit).1
  · intro step stage it hd hit
    obtain ⟨rfl, rfl⟩ := h.declares hd
    rw [sn_as] at hit
    exact h.stage_item it hit
  · intro step stage out it _ hm
    rw [h.outputsOf] at hm; cases hm
  · intro step stage out it _ hm
    rw [h.outputsOf] at hm; cases hm

theorem Simple.wf2orig {P : Prepared} (h : Simple P) : WF2Orig P := by
  refine ⟨h.wf, ?_, ?_, ?_, ?_⟩
  · intro step stage o _ hm
    rw [h.outputsOf] at hm; cases hm
  · intro id it d hit _ hd
    rw [(h.items id it hit).2.1] at hd; cases hd
  · intro id it hit hk
    obtain ⟨_, h2, h3⟩ := (h.items id it hit).2.2 hk
    rw [h2, h3]
    exact ⟨by decide, by decide⟩
  · intro id it hit hd
    rw [(h.items id it hit).2.1] at hd; cases hd

theorem Simple.stageUnamb {P : Prepared} (h : Simple P) : P.StageUnamb := by
  intro step stage it hd hit
  obtain ⟨rfl, rfl⟩ := h.declares hd
  rw [sn_as] at hit
  obtain ⟨_, h2, h3⟩ := (h.items _ it hit).2.2 (h.stage_item it hit)
  exact ⟨h2, h3⟩

theorem Simple.wf2 {P : Prepared} (h : Simple P) (h1 : ∀ ed ∈ P.dag.edges, ed.2.1 ≠ "input")
    (h2 : ∀ it, lookup "input" P.items = some it → it.kind = Kind.input) : P.WF2 :=
  ⟨h.wf, h.wf2orig.output_nodes, h.wf2orig.stage_data_map, h.wf2orig.stage_ids_nonempty, h.wf2orig.kinds_handled, h1, h2,
    h.stageUnamb⟩

theorem Simple.noOutputResolved {P : Prepared} (h : Simple P) (s : LoopState) : NoOutputResolved P s :=
  fun id it hit hk => absurd hk (h.items id it hit).1

def nd (id : String) (out : List (String × Dep)) : Node String := ⟨id, .waiting, out, []⟩
def itS : Item := { kind := .stage, step := "a", stage := "s" }
def itG : Item := { kind := .group }
def fns0 : Fns := fun _ _ => .error (.unknownFn "")
def ordDup : Order := fun l => l ++ l
def hasPanic (l : List Action) : Bool := l.any Action.isPanic

theorem ordDup_ok : OrdOK ordDup := by
  intro l x hx
  rcases List.mem_append.1 hx with h | h <;> exact h

theorem ordId_ok : OrdOK id := fun _ _ h => h
theorem ordId_nodup : OrdNodup id := fun _ h => h

theorem not_nopanic {l : List Action} (h : hasPanic l = true) : ¬ ∀ a ∈ l, a.isPanic = false := by
  intro hall
  unfold hasPanic at h
  rw [List.any_eq_true] at h
  obtain ⟨a, ha, hp⟩ := h
  rw [hall a ha] at hp
  cases hp

/-! ### `PC`: input → stage `steps.a.s` (and), input → group `g` (optional) -/

def PC : Prepared :=
  { dag := ⟨[nd "input" [], nd "steps.a.s" [("input", .and)], nd "g" [("input", .opt)]],
            [("input", "steps.a.s", .and), ("input", "g", .opt)], []⟩,
    items := [("input", { kind := .input }), ("steps.a.s", itS), ("g", itG)],
    stages := [("a", [("s", [])])],
    errCap := 5 }

theorem PC_items {id : String} {it : Item} (h : lookup id PC.items = some it) :
    (id = "input" ∧ it = { kind := .input }) ∨ (id = "steps.a.s" ∧ it = itS) ∨ (id = "g" ∧ it = itG) := by
  simp only [PC, lookup] at h
  split at h
  · cases h; exact .inl ⟨‹_›, rfl⟩
  split at h
  · cases h; exact .inr (.inl ⟨‹_›, rfl⟩)
  split at h
  · cases h; exact .inr (.inr ⟨‹_›, rfl⟩)
  · cases h

theorem PC_simple : Simple PC := by
  refine ⟨rfl, ?_, ?_, rfl, ?_, ?_, ?_⟩
  · constructor <;> simp [PC, nd, Graph.find?, Graph.has, keys, entryOk]
  · simp [PC, nd]
  · simp [PC, nd, lookup]
  · intro id it hit
    rcases PC_items hit with ⟨rfl, rfl⟩ | ⟨rfl, rfl⟩ | ⟨rfl, rfl⟩
    · exact ⟨by decide, rfl, fun h => by cases h⟩
    · exact ⟨by decide, rfl, fun _ => ⟨rfl, rfl, rfl⟩⟩
    · exact ⟨by decide, rfl, fun h => by cases h⟩
  · intro it hit
    rcases PC_items hit with ⟨h, rfl⟩ | ⟨h, rfl⟩ | ⟨h, rfl⟩
    · exact absurd h (by decide)
    · rfl
    · exact absurd h (by decide)

/-- the corrected `WF2` is satisfiable (by a workflow with a dependency-group node) -/
theorem PC_wf2 : PC.WF2 := by
  refine PC_simple.wf2 ?_ ?_
  · simp [PC]
  · intro it hit
    rcases PC_items hit with ⟨h, rfl⟩ | ⟨h, rfl⟩ | ⟨h, rfl⟩
    · rfl
    · exact absurd h (by decide)
    · exact absurd h (by decide)

/-! #### CE-A: `OrdNodup` is needed -/

theorem ceA_panics : hasPanic (run PC fns0 ordDup [.start .null]).2 = true := by decide +kernel
-- with an order that does not duplicate, the same history is fine
theorem ceA_id_fine : hasPanic (run PC fns0 id [.start .null]).2 = false := by decide +kernel

theorem ceA_legal : LegalHistory PC fns0 ordDup (LoopState.init PC) [.start .null] := by
  refine ⟨⟨PC_simple.noOutputResolved _, ?_⟩, trivial⟩
  intro n hn
  exact (PC_simple.fresh n hn).1

/-- `legal_history_never_panics` without `OrdNodup` is false, even with the corrected `WF2` -/
theorem hist_needs_OrdNodup :
    ¬ (∀ (P : Prepared) (fns : Fns) (ord : Order), OrdOK ord → P.WF2 → ∀ h : List Event,
        LegalHistory P fns ord (LoopState.init P) h →
        (∀ a ∈ (run P fns ord h).2, a.isPanic = false) ∧ (run P fns ord h).1.dead = false) := by
  intro H
  exact not_nopanic ceA_panics (H PC fns0 ordDup ordDup_ok PC_wf2 _ ceA_legal).1

theorem statusIs_iff (g : Graph String) (id : String) (st : St) : statusIs g id st ↔ g.statusOf id = some st := by
  unfold statusIs Graph.statusOf
  cases g.find? id with
  | none => simp
  | some n => simp

/-! #### CE-B: the ready set must be duplicate free -/

/-- the initial state of `PC`, but with `g` twice in the ready set (`g` only has a soft dependency) -/
def sB : LoopState := { LoopState.init PC with dag := { PC.dag with ready := ["g", "g"] } }

theorem sB_inv : LoopDagInv PC sB := by
  refine ⟨?_, rfl, rfl⟩
  constructor <;> simp [sB, PC, nd, Graph.find?, Graph.has, keys, entryOk, Dep.hard]

theorem sB_waiting : ∀ n ∈ sB.dag.nodes, n.status = St.waiting := fun n hn => (PC_simple.fresh n hn).1

theorem sB_closed : ResolvedClosed sB.dag := by
  intro n hn hs
  rw [sB_waiting n hn] at hs; cases hs

theorem ceB_panics : hasPanic (react PC fns0 id sB (.start .null)).2 = true := by decide +kernel

/-- `react_legal_no_panic` with `ResolvedClosed` as the only extra state hypothesis is false (even with `OrdNodup` and
the corrected `WF2`): the ready set may contain a dependency-group node twice -/
theorem react_needs_ready_nodup :
    ¬ (∀ (P : Prepared) (fns : Fns) (ord : Order), OrdOK ord → OrdNodup ord → P.WF2 → ∀ (s : LoopState) (e : Event),
        LoopDagInv P s → ResolvedClosed s.dag → LegalEvent P s e →
        (∀ a ∈ (react P fns ord s e).2, a.isPanic = false) ∧ ResolvedClosed (react P fns ord s e).1.dag) := by
  intro H
  exact not_nopanic ceB_panics
    (H PC fns0 id ordId_ok ordId_nodup PC_wf2 sB (.start .null) sB_inv sB_closed
      ⟨PC_simple.noOutputResolved _, sB_waiting⟩).1

/-! #### CE-C: a resolved dependency-group node must not be in the ready set -/

/-- `input` and `g` resolved, the stage node waiting, and `g` (again) in the ready set -/
def sC : LoopState :=
  { LoopState.init PC with
    dag := ⟨[⟨"input", .resolved, [], []⟩, ⟨"steps.a.s", .waiting, [], [("input", .and)]⟩,
             ⟨"g", .resolved, [], [("input", .opt)]⟩],
            [("input", "steps.a.s", .and), ("input", "g", .opt)], ["g"]⟩ }

theorem sC_inv : LoopDagInv PC sC := by
  refine ⟨?_, rfl, rfl⟩
  constructor <;> simp [sC, PC, nd, Graph.find?, Graph.has, keys, entryOk, Dep.hard]

theorem sC_closed : ResolvedClosed sC.dag := by
  intro n hn hs
  refine ⟨?_, ?_⟩
  · intro ed he h1 h2
    simp [sC] at he hn
    rcases he with rfl | rfl
    · rcases hn with rfl | rfl | rfl
      · exact absurd h1 (by decide)
      · cases hs
      · exact absurd h1 (by decide)
    · cases h2
  · rintro ⟨ed, he, _, h2⟩
    simp [sC] at he
    rcases he with rfl | rfl <;> cases h2

theorem sC_legal : LegalEvent PC sC (.stageFail "a" "s") := by
  refine ⟨PC_simple.declares_as, ?_, ?_⟩
  · rw [statusIs_iff]; decide +kernel
  · intro o ho
    rw [PC_simple.outputsOf] at ho; cases ho

theorem ceC_panics : hasPanic (react PC fns0 id sC (.stageFail "a" "s")).2 = true := by decide +kernel

theorem react_needs_ready_group :
    ¬ (∀ (P : Prepared) (fns : Fns) (ord : Order), OrdOK ord → OrdNodup ord → P.WF2 → ∀ (s : LoopState) (e : Event),
        LoopDagInv P s → ResolvedClosed s.dag → s.dag.ready.Nodup → LegalEvent P s e →
        (∀ a ∈ (react P fns ord s e).2, a.isPanic = false) ∧ ResolvedClosed (react P fns ord s e).1.dag) := by
  intro H
  exact not_nopanic ceC_panics
    (H PC fns0 id ordId_ok ordId_nodup PC_wf2 sC (.stageFail "a" "s") sC_inv sC_closed (by simp [sC]) sC_legal).1

/-! #### CE-D: resolved dependency-group nodes must only have soft outstanding entries

`PD`: input → stage `steps.a.s` (and), `steps.a.s` → group `g` (completion dependency `cand`). -/

def PD : Prepared :=
  { dag := ⟨[nd "input" [], nd "steps.a.s" [("input", .and)], nd "g" [("steps.a.s", .cand)]],
            [("input", "steps.a.s", .and), ("steps.a.s", "g", .cand)], []⟩,
    items := [("input", { kind := .input }), ("steps.a.s", itS), ("g", itG)],
    stages := [("a", [("s", [])])],
    errCap := 5 }

theorem PD_simple : Simple PD := by
  have hitems : PD.items = PC.items := rfl
  refine ⟨rfl, ?_, ?_, rfl, ?_, ?_, ?_⟩
  · constructor <;> simp [PD, nd, Graph.find?, Graph.has, keys, entryOk]
  · simp [PD, nd]
  · simp [PD, nd, lookup]
  · rw [hitems]; exact PC_simple.items
  · rw [hitems]; exact PC_simple.stage_item

theorem PD_wf2 : PD.WF2 := by
  refine PD_simple.wf2 ?_ ?_
  · simp [PD]
  · exact PC_wf2.input_kind

/-- `input` resolved, the stage node waiting, `g` resolved although its completion dependency is outstanding; the
ready set is empty -/
def sD : LoopState :=
  { LoopState.init PD with
    dag := ⟨[⟨"input", .resolved, [], []⟩, ⟨"steps.a.s", .waiting, [], [("input", .and)]⟩,
             ⟨"g", .resolved, [("steps.a.s", .cand)], []⟩],
            [("input", "steps.a.s", .and), ("steps.a.s", "g", .cand)], []⟩ }

theorem sD_inv : LoopDagInv PD sD := by
  refine ⟨?_, rfl, rfl⟩
  constructor <;> simp [sD, PD, nd, Graph.find?, Graph.has, keys, entryOk, Dep.hard]

theorem sD_closed : ResolvedClosed sD.dag := by
  intro n hn hs
  refine ⟨?_, ?_⟩
  · intro ed he h1 h2
    simp [sD] at he hn
    rcases he with rfl | rfl
    · rcases hn with rfl | rfl | rfl
      · exact absurd h1 (by decide)
      · cases hs
      · exact absurd h1 (by decide)
    · cases h2
  · rintro ⟨ed, he, _, h2⟩
    simp [sD] at he
    rcases he with rfl | rfl <;> cases h2

theorem sD_legal : LegalEvent PD sD (.stageFail "a" "s") := by
  refine ⟨PD_simple.declares_as, ?_, ?_⟩
  · rw [statusIs_iff]; decide +kernel
  · intro o ho
    rw [PD_simple.outputsOf] at ho; cases ho

theorem ceD_panics : hasPanic (react PD fns0 id sD (.stageFail "a" "s")).2 = true := by decide +kernel

theorem react_needs_group_soft :
    ¬ (∀ (P : Prepared) (fns : Fns) (ord : Order), OrdOK ord → OrdNodup ord → P.WF2 → ∀ (s : LoopState) (e : Event),
        LoopDagInv P s → ResolvedClosed s.dag → s.dag.ready.Nodup →
        (∀ id ∈ s.dag.ready, isGroup P id → ¬ statusIs s.dag id St.resolved) → LegalEvent P s e →
        (∀ a ∈ (react P fns ord s e).2, a.isPanic = false) ∧ ResolvedClosed (react P fns ord s e).1.dag) := by
  intro H
  exact not_nopanic ceD_panics
    (H PD fns0 id ordId_ok ordId_nodup PD_wf2 sD (.stageFail "a" "s") sD_inv sD_closed (by simp [sD])
      (by intro id hid; simp [sD] at hid) sD_legal).1

/-! #### CE-E: the `input` node must not have dependencies

`PE`: the `input` node depends (`and`) on the stage node `steps.a.s`. -/

def PE : Prepared :=
  { dag := ⟨[nd "steps.a.s" [], nd "input" [("steps.a.s", .and)]], [("steps.a.s", "input", .and)], []⟩,
    items := [("input", { kind := .input }), ("steps.a.s", itS)],
    stages := [("a", [("s", [])])],
    errCap := 5 }

theorem PE_items {id : String} {it : Item} (h : lookup id PE.items = some it) :
    (id = "input" ∧ it = { kind := .input }) ∨ (id = "steps.a.s" ∧ it = itS) := by
  simp only [PE, lookup] at h
  split at h
  · cases h; exact .inl ⟨‹_›, rfl⟩
  split at h
  · cases h; exact .inr ⟨‹_›, rfl⟩
  · cases h

theorem PE_simple : Simple PE := by
  refine ⟨rfl, ?_, ?_, rfl, ?_, ?_, ?_⟩
  · constructor <;> simp [PE, nd, Graph.find?, Graph.has, keys, entryOk]
  · simp [PE, nd]
  · simp [PE, nd, lookup]
  · intro id it hit
    rcases PE_items hit with ⟨rfl, rfl⟩ | ⟨rfl, rfl⟩
    · exact ⟨by decide, rfl, fun h => by cases h⟩
    · exact ⟨by decide, rfl, fun _ => ⟨rfl, rfl, rfl⟩⟩
  · intro it hit
    rcases PE_items hit with ⟨h, rfl⟩ | ⟨h, rfl⟩
    · exact absurd h (by decide)
    · rfl

theorem PE_init_waiting : ∀ n ∈ (LoopState.init PE).dag.nodes, n.status = St.waiting :=
  fun n hn => (PE_simple.fresh n hn).1

theorem ceE_legal : LegalHistory PE fns0 id (LoopState.init PE) [.start .null, .stageFail "a" "s"] := by
  refine ⟨⟨PE_simple.noOutputResolved _, PE_init_waiting⟩, ⟨PE_simple.declares_as, ?_, ?_⟩, trivial⟩
  · rw [statusIs_iff]; decide +kernel
  · intro o ho
    rw [PE_simple.outputsOf] at ho; cases ho

theorem ceE_panics : hasPanic (run PE fns0 id [.start .null, .stageFail "a" "s"]).2 = true := by decide +kernel

/-- `legal_history_never_panics` with `WF2` as first stated is false, even with `OrdNodup` -/
theorem hist_needs_input_no_deps :
    ¬ (∀ (P : Prepared) (fns : Fns) (ord : Order), OrdOK ord → OrdNodup ord → WF2Orig P → ∀ h : List Event,
        LegalHistory P fns ord (LoopState.init P) h →
        (∀ a ∈ (run P fns ord h).2, a.isPanic = false) ∧ (run P fns ord h).1.dead = false) := by
  intro H
  exact not_nopanic ceE_panics (H PE fns0 id ordId_ok ordId_nodup PE_simple.wf2orig _ ceE_legal).1

/-- already the first reaction (`start`, legal in the initial state) loses the closure of resolved nodes -/
theorem react_start_breaks_closed :
    ¬ ResolvedClosed (react PE fns0 id (LoopState.init PE) (.start .null)).1.dag := by
  intro h
  have hinv := react_dag_inv PE fns0 id (LoopState.init PE) (.start .null) (init_dag_inv PE PE_simple.wf)
  have hin : statusIs (react PE fns0 id (LoopState.init PE) (.start .null)).1.dag "input" St.resolved := by
    rw [statusIs_iff]; decide +kernel
  obtain ⟨n, hn, hs⟩ := hin
  have hc := (resolvedClosed_iff _ hinv.inv.nodup).1 h "input" n hn hs
  have hed : ("steps.a.s", "input", Dep.and) ∈ (react PE fns0 id (LoopState.init PE) (.start .null)).1.dag.edges := by
    rw [hinv.edges]; simp [PE]
  obtain ⟨m, hm, hms⟩ := hc.1 _ hed rfl rfl
  have : statusIs (react PE fns0 id (LoopState.init PE) (.start .null)).1.dag "steps.a.s" St.resolved := ⟨m, hm, hms⟩
  rw [statusIs_iff] at this
  revert this
  decide +kernel

/-! #### CE-F: the item of the `input` node must not be a dependency group -/

def PF : Prepared :=
  { dag := ⟨[nd "input" []], [], []⟩,
    items := [("input", itG)],
    stages := [("a", [("s", [])])],
    errCap := 5 }

theorem PF_items {id : String} {it : Item} (h : lookup id PF.items = some it) : id = "input" ∧ it = itG := by
  simp only [PF, lookup] at h
  split at h
  · cases h; exact ⟨‹_›, rfl⟩
  · cases h

theorem PF_simple : Simple PF := by
  refine ⟨rfl, ?_, ?_, rfl, ?_, ?_, ?_⟩
  · constructor <;> simp [PF, nd, Graph.find?, Graph.has, keys, entryOk]
  · simp [PF, nd]
  · simp [PF, nd, lookup]
  · intro id it hit
    obtain ⟨rfl, rfl⟩ := PF_items hit
    exact ⟨by decide, rfl, fun h => by cases h⟩
  · intro it hit
    exact absurd (PF_items hit).1 (by decide)

theorem ceF_legal : LegalHistory PF fns0 id (LoopState.init PF) [.start .null] :=
  ⟨⟨PF_simple.noOutputResolved _, fun n hn => (PF_simple.fresh n hn).1⟩, trivial⟩

theorem ceF_panics : hasPanic (run PF fns0 id [.start .null]).2 = true := by decide +kernel

theorem hist_needs_input_kind :
    ¬ (∀ (P : Prepared) (fns : Fns) (ord : Order), OrdOK ord → OrdNodup ord → WF2Orig P →
        (∀ ed ∈ P.dag.edges, ed.2.1 ≠ "input") → ∀ h : List Event,
        LegalHistory P fns ord (LoopState.init P) h →
        (∀ a ∈ (run P fns ord h).2, a.isPanic = false) ∧ (run P fns ord h).1.dead = false) := by
  intro H
  exact not_nopanic ceF_panics
    (H PF fns0 id ordId_ok ordId_nodup PF_simple.wf2orig (by simp [PF]) _ ceF_legal).1

/-! ### the corrected statements applied: a normal run of `PC` -/

theorem PC_run_fine :
    hasPanic (run PC fns0 id [.start .null, .stageChange "a" (some "s") none false]).2 = false := by decide +kernel

end Arca.Model.SafeCex
