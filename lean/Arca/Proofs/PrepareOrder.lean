/-
Helper lemmas for C16, part 3: when does an operation sequence run through, and why that does not depend on the order
of the steps / outputs.

`run_iff_allPre`: a sequence runs through iff every operation meets a precondition that only depends on the SETS of
node ids and connected pairs produced by the operations before it.  `phase_perm`: for a sequence made of blocks
(`l.flatMap f`), permuting the blocks keeps all preconditions true, provided the blocks only refer to nodes created
earlier in the same block or before the phase, and different blocks connect different pairs.
-/
import Arca.Model.Prepare
import Arca.Proofs.PreparePerm

set_option linter.unusedSectionVars false
set_option linter.unusedVariables false

namespace Arca.Model

/-! ### preconditions -/

/-- rendered ids of the node operations -/
def ridsOf (os : List Op) : List String := (nodeIds os).map NodeId.render

/-- rendered endpoint pairs of the edge operations -/
def pairsOf (os : List Op) : List (String × String) :=
  os.filterMap (fun op => match op with
    | .edge a b _ _ => some (a.render, b.render)
    | _ => none)

theorem ridsOf_append (xs ys : List Op) : ridsOf (xs ++ ys) = ridsOf xs ++ ridsOf ys := by
  simp [ridsOf, nodeIds_append]

theorem pairsOf_append (xs ys : List Op) : pairsOf (xs ++ ys) = pairsOf xs ++ pairsOf ys := by
  simp [pairsOf, List.filterMap_append]

theorem mem_ridsOf {os : List Op} {x : String} : x ∈ ridsOf os ↔ ∃ n, Op.node n ∈ os ∧ n.render = x := by
  unfold ridsOf
  simp only [List.mem_map, mem_nodeIds]

theorem mem_pairsOf {os : List Op} {p : String × String} :
    p ∈ pairsOf os ↔ ∃ a b d t, Op.edge a b d t ∈ os ∧ p = (a.render, b.render) := by
  unfold pairsOf
  simp only [List.mem_filterMap]
  constructor
  · rintro ⟨op, hop, h⟩
    cases op with
    | node n => simp at h
    | fail r => simp at h
    | edge a b d t =>
      simp only [Option.some.injEq] at h
      exact ⟨a, b, d, t, hop, h.symm⟩
  · rintro ⟨a, b, d, t, hop, rfl⟩
    exact ⟨_, hop, rfl⟩

theorem ridsOf_perm {os os' : List Op} (h : os.Perm os') : (ridsOf os).Perm (ridsOf os') :=
  (nodeIds_perm h).map _

theorem pairsOf_perm {os os' : List Op} (h : os.Perm os') : (pairsOf os).Perm (pairsOf os') := by
  unfold pairsOf
  exact h.filterMap _

/-- what an operation needs of the operations performed before it -/
def Pre (pre : List Op) : Op → Prop
  | .node n => n.render ∉ ridsOf pre
  | .edge a b _ tol => a.render ∈ ridsOf pre ∧ b.render ∈ ridsOf pre ∧ a.render ≠ b.render ∧
      (tol = false → (a.render, b.render) ∉ pairsOf pre)
  | .fail _ => False

/-- every operation of `os`, performed after `P`, meets its precondition -/
def AllPre (P os : List Op) : Prop := ∀ pre op post, os = pre ++ op :: post → Pre (P ++ pre) op

/-- the graph `g` is what the operations `P` produced, as far as later operations can tell -/
structure Rep (g : Graph String) (P : List Op) : Prop where
  ids : ∀ x, g.has x = true ↔ x ∈ ridsOf P
  pairs : ∀ a b, g.hasEdge a b = true ↔ (a, b) ∈ pairsOf P
  irrefl : ∀ a, (a, a) ∉ pairsOf P

theorem rep_empty : Rep (Graph.empty : Graph String) [] := by
  constructor
  · intro x; simp [Graph.empty, Graph.has, Graph.find?, ridsOf, nodeIds]
  · intro a b; simp [Graph.empty, Graph.hasEdge, pairsOf]
  · intro a; simp [pairsOf]

theorem hasEdge_congr {g g' : Graph String} (h : g'.edges = g.edges) (a b : String) : g'.hasEdge a b = g.hasEdge a b := by
  unfold Graph.hasEdge
  rw [h]

theorem applyOp_pre {g g1 : Graph String} {P : List Op} {op : Op} (hr : Rep g P) (h : applyOp g op = .ok g1) :
    Pre P op ∧ Rep g1 (P ++ [op]) := by
  cases applyOp_stepped h with
  | node id hnew hn he hrdy =>
    refine ⟨?_, ?_, ?_, ?_⟩
    · intro hm
      have := (hr.ids _).2 hm
      rw [hnew] at this
      cases this
    · intro x
      rw [Graph.has_iff_mem_ids, hn, ridsOf_append]
      simp only [List.map_append, List.mem_append, List.map_cons, List.map_nil, List.mem_singleton]
      rw [← Graph.has_iff_mem_ids, hr.ids]
      simp [ridsOf, nodeIds]
    · intro a b
      rw [hasEdge_congr he, hr.pairs, pairsOf_append]
      simp [pairsOf]
    · intro a
      rw [pairsOf_append]
      simpa [pairsOf] using hr.irrefl a
  | edgeNew a b d tol ha hb hne hno hn he hrdy hc =>
    refine ⟨⟨(hr.ids _).1 ha, (hr.ids _).1 hb, hne, fun _ hm => ?_⟩, ?_, ?_, ?_⟩
    · have := (hr.pairs _ _).2 hm
      rw [hno] at this
      cases this
    · intro x
      rw [Graph.has_iff_mem_ids, hn, ← Graph.has_iff_mem_ids, hr.ids, ridsOf_append]
      simp [ridsOf, nodeIds]
    · intro x y
      rw [Graph.hasEdge_iff, he, pairsOf_append]
      simp only [List.mem_append, List.mem_singleton]
      constructor
      · rintro ⟨d', h1 | h1⟩
        · exact Or.inl ((hr.pairs _ _).1 (Graph.hasEdge_iff.2 ⟨d', h1⟩))
        · simp only [Prod.mk.injEq] at h1
          obtain ⟨rfl, rfl, _⟩ := h1
          exact Or.inr (by simp [pairsOf])
      · rintro (h1 | h1)
        · obtain ⟨d', hd'⟩ := Graph.hasEdge_iff.1 ((hr.pairs _ _).2 h1)
          exact ⟨d', Or.inl hd'⟩
        · simp only [pairsOf, List.filterMap_cons, List.filterMap_nil, List.mem_singleton, Prod.mk.injEq] at h1
          obtain ⟨rfl, rfl⟩ := h1
          exact ⟨d, Or.inr rfl⟩
    · intro x hx
      rw [pairsOf_append] at hx
      rcases List.mem_append.1 hx with h1 | h1
      · exact hr.irrefl x h1
      · simp only [pairsOf, List.filterMap_cons, List.filterMap_nil, List.mem_singleton, Prod.mk.injEq] at h1
        exact hne (h1.1.symm.trans h1.2)
  | edgeDup a b d ha hb hex heq =>
    subst heq
    have hin : (a.render, b.render) ∈ pairsOf P := (hr.pairs _ _).1 hex
    have hne : a.render ≠ b.render := by
      -- an existing connection never joins a node to itself: it was made by a successful `connect`
      intro e
      rw [e] at hin
      exact hr.irrefl _ hin
    refine ⟨⟨(hr.ids _).1 ha, (hr.ids _).1 hb, hne, fun h => by cases h⟩, ?_, ?_, ?_⟩
    · intro x
      rw [hr.ids, ridsOf_append]
      simp [ridsOf, nodeIds]
    · intro x y
      rw [hr.pairs, pairsOf_append]
      simp only [List.mem_append]
      constructor
      · exact Or.inl
      · rintro (h1 | h1)
        · exact h1
        · simp only [pairsOf, List.filterMap_cons, List.filterMap_nil, List.mem_singleton, Prod.mk.injEq] at h1
          obtain ⟨rfl, rfl⟩ := h1
          exact hin
    · intro x hx
      rw [pairsOf_append] at hx
      rcases List.mem_append.1 hx with h1 | h1
      · exact hr.irrefl x h1
      · simp only [pairsOf, List.filterMap_cons, List.filterMap_nil, List.mem_singleton, Prod.mk.injEq] at h1
        exact hne (h1.1.symm.trans h1.2)

theorem Graph.connect_total {g : Graph String} {s t : String} (d : Dep) (hs : g.has s = true) (ht : g.has t = true)
    (hne : s ≠ t) :
    (g.hasEdge s t = false → ∃ g1, g.connect s t d = .ok g1) ∧
    (g.hasEdge s t = true → g.connect s t d = .error (.connectionExists s t)) := by
  obtain ⟨ms, hms⟩ := Graph.has_iff.1 hs
  obtain ⟨mt, hmt⟩ := Graph.has_iff.1 ht
  constructor
  · intro he
    unfold Graph.connect
    simp only [hms, hmt, hne, if_false, he]
    exact ⟨_, rfl⟩
  · intro he
    unfold Graph.connect
    simp only [hms, hmt, hne, if_false, he, if_true]

theorem applyOp_of_pre {g : Graph String} {P : List Op} {op : Op} (hr : Rep g P) (h : Pre P op) :
    ∃ g1, applyOp g op = .ok g1 := by
  cases op with
  | fail r => cases h
  | node n =>
    have hnew : g.has n.render = false := by
      cases hh : g.has n.render with
      | false => rfl
      | true => exact absurd ((hr.ids _).1 hh) h
    simp only [applyOp, Graph.addNode, hnew]
    exact ⟨_, rfl⟩
  | edge a b d tol =>
    obtain ⟨ha, hb, hne, hst⟩ := h
    have ha' := (hr.ids _).2 ha
    have hb' := (hr.ids _).2 hb
    obtain ⟨h1, h2⟩ := Graph.connect_total d ha' hb' hne
    cases he : g.hasEdge a.render b.render with
    | false =>
      obtain ⟨g1, hg1⟩ := h1 he
      exact ⟨g1, by simp only [applyOp, hg1]⟩
    | true =>
      have hc := h2 he
      cases tol with
      | true => exact ⟨g, by simp only [applyOp, hc]; rfl⟩
      | false => exact absurd ((hr.pairs _ _).1 he) (hst rfl)

/-- An operation sequence runs through iff every operation meets its precondition. -/
theorem run_iff_allPre {g : Graph String} {P os : List Op} (hr : Rep g P) :
    (∃ g', runOps g os = .ok g') ↔ AllPre P os := by
  induction os generalizing g P with
  | nil =>
    constructor
    · intro _ pre op post h
      cases pre <;> cases h
    · intro _
      exact ⟨g, rfl⟩
  | cons op os ih =>
    constructor
    · rintro ⟨g', h⟩
      obtain ⟨g1, h1, h2⟩ := runOps_cons h
      obtain ⟨hp, hr1⟩ := applyOp_pre hr h1
      have hall := (ih hr1).1 ⟨g', h2⟩
      intro pre op' post hsplit
      cases pre with
      | nil =>
        simp only [List.nil_append, List.cons.injEq] at hsplit
        obtain ⟨rfl, _⟩ := hsplit
        simpa using hp
      | cons x pre' =>
        simp only [List.cons_append, List.cons.injEq] at hsplit
        obtain ⟨rfl, hs⟩ := hsplit
        have := hall pre' op' post hs
        simpa [List.append_assoc] using this
    · intro hall
      have hp : Pre P op := by
        have := hall [] op os rfl
        simpa using this
      obtain ⟨g1, h1⟩ := applyOp_of_pre hr hp
      obtain ⟨_, hr1⟩ := applyOp_pre hr h1
      have hall1 : AllPre (P ++ [op]) os := by
        intro pre op' post hs
        have := hall (op :: pre) op' post (by rw [hs]; rfl)
        simpa [List.append_assoc] using this
      obtain ⟨g', hg'⟩ := (ih hr1).2 hall1
      exact ⟨g', by simp only [runOps, h1]; exact hg'⟩

/-! ### sequences made of blocks -/

theorem allPre_append {P A B : List Op} : AllPre P (A ++ B) ↔ AllPre P A ∧ AllPre (P ++ A) B := by
  constructor
  · intro h
    constructor
    · intro pre op post hs
      have := h pre op (post ++ B) (by rw [hs]; simp)
      exact this
    · intro pre op post hs
      have := h (A ++ pre) op post (by rw [hs]; simp)
      simpa [List.append_assoc] using this
  · rintro ⟨hA, hB⟩ pre op post hs
    rcases List.append_eq_append_iff.1 hs with ⟨a', h1, h2⟩ | ⟨c', h1, h2⟩
    · -- the operation lies in B
      have := hB a' op post h2
      rw [h1]
      simpa [List.append_assoc] using this
    · cases c' with
      | nil =>
        simp only [List.nil_append] at h2
        simp only [List.append_nil] at h1
        have := hB [] op post h2.symm
        rw [← h1]
        simpa using this
      | cons o c'' =>
        simp only [List.cons_append, List.cons.injEq] at h2
        obtain ⟨rfl, h3⟩ := h2
        exact hA pre op c'' h1

theorem flatMap_split {α : Type} {f : α → List Op} {l : List α} {pre post : List Op} {op : Op}
    (h : l.flatMap f = pre ++ op :: post) :
    ∃ l1 x l2 W V, l = l1 ++ x :: l2 ∧ f x = W ++ op :: V ∧ pre = l1.flatMap f ++ W ∧ post = V ++ l2.flatMap f := by
  induction l generalizing pre with
  | nil => cases pre <;> cases h
  | cons x l ih =>
    simp only [List.flatMap_cons] at h
    rcases List.append_eq_append_iff.1 h with ⟨a', h1, h2⟩ | ⟨c', h1, h2⟩
    · obtain ⟨l1, y, l2, W, V, e1, e2, e3, e4⟩ := ih h2
      refine ⟨x :: l1, y, l2, W, V, by rw [e1]; rfl, e2, ?_, e4⟩
      rw [h1, e3]
      simp
    · cases c' with
      | nil =>
        simp only [List.nil_append] at h2
        simp only [List.append_nil] at h1
        obtain ⟨l1, y, l2, W, V, e1, e2, e3, e4⟩ := ih (pre := []) (by simpa using h2.symm)
        refine ⟨x :: l1, y, l2, W, V, by rw [e1]; rfl, e2, ?_, e4⟩
        have : l1.flatMap f ++ W = [] := e3.symm
        rw [List.flatMap_cons, List.append_assoc, this, List.append_nil, h1]
      | cons o c'' =>
        simp only [List.cons_append, List.cons.injEq] at h2
        obtain ⟨rfl, h3⟩ := h2
        exact ⟨[], x, l, pre, c'', rfl, h1, by simp, h3⟩

theorem mem_ridsOf_flatMap {α : Type} {f : α → List Op} {l : List α} {x : String} :
    x ∈ ridsOf (l.flatMap f) ↔ ∃ y ∈ l, x ∈ ridsOf (f y) := by
  simp only [mem_ridsOf, List.mem_flatMap]
  constructor
  · rintro ⟨n, ⟨y, hy, hn⟩, rfl⟩
    exact ⟨y, hy, n, hn, rfl⟩
  · rintro ⟨y, hy, n, hn, rfl⟩
    exact ⟨n, ⟨y, hy, hn⟩, rfl⟩

theorem mem_pairsOf_flatMap {α : Type} {f : α → List Op} {l : List α} {p : String × String} :
    p ∈ pairsOf (l.flatMap f) ↔ ∃ y ∈ l, p ∈ pairsOf (f y) := by
  simp only [mem_pairsOf, List.mem_flatMap]
  constructor
  · rintro ⟨a, b, d, t, ⟨y, hy, hop⟩, rfl⟩
    exact ⟨y, hy, a, b, d, t, hop, rfl⟩
  · rintro ⟨y, hy, a, b, d, t, hop, rfl⟩
    exact ⟨a, b, d, t, ⟨y, hy, hop⟩, rfl⟩

/-- removing one occurrence of `x` from both sides of a permutation -/
theorem perm_remove_middle {α : Type} {l1 l2 l1' l2' : List α} {x : α}
    (h : (l1 ++ x :: l2).Perm (l1' ++ x :: l2')) : (l1 ++ l2).Perm (l1' ++ l2') := by
  have h1 : (x :: (l1 ++ l2)).Perm (x :: (l1' ++ l2')) :=
    (List.perm_middle.symm.trans h).trans List.perm_middle
  exact h1.cons_inv

/--
Permuting the blocks of a phase keeps every precondition true, provided
* the phase ran through in the original order (`hrun`) and produced pairwise distinct node ids (`hnd`),
* the edges of a block connect nodes created before the phase or in the same block (`hclosed`),
* different blocks connect different pairs (`hdisj`).
-/
theorem phase_perm {α : Type} {f : α → List Op} {l l' : List α} (hperm : l.Perm l') {P P' : List Op}
    (hids : (ridsOf P).Perm (ridsOf P')) (hpairs : ∀ p, p ∈ pairsOf P ↔ p ∈ pairsOf P')
    (hnd : (ridsOf (P ++ l.flatMap f)).Nodup)
    (hrun : AllPre P (l.flatMap f))
    (hclosed : ∀ x ∈ l, ∀ a b d t, Op.edge a b d t ∈ f x →
        (a.render ∈ ridsOf P ∨ a.render ∈ ridsOf (f x)) ∧ (b.render ∈ ridsOf P ∨ b.render ∈ ridsOf (f x)))
    (hdisj : ∀ l1 x l2 y, l = l1 ++ x :: l2 → y ∈ l1 ++ l2 → ∀ p, p ∈ pairsOf (f x) → p ∉ pairsOf (f y)) :
    AllPre P' (l'.flatMap f) := by
  intro pre' op post' hs
  obtain ⟨l1', x, l2', W, V, el', efx, epre, epost⟩ := flatMap_split hs
  have hxl : x ∈ l := hperm.mem_iff.2 (by rw [el']; simp)
  obtain ⟨l1, l2, el⟩ := List.append_of_mem hxl
  -- the same occurrence in the original order
  have hsplit : l.flatMap f = (l1.flatMap f ++ W) ++ op :: (V ++ l2.flatMap f) := by
    rw [el, List.flatMap_append, List.flatMap_cons, efx]
    simp [List.append_assoc]
  have hpre := hrun _ _ _ hsplit
  -- node ids of the permuted phase are pairwise distinct as well
  have hnd' : (ridsOf (P' ++ l'.flatMap f)).Nodup := by
    have : (ridsOf (P ++ l.flatMap f)).Perm (ridsOf (P' ++ l'.flatMap f)) := by
      rw [ridsOf_append, ridsOf_append]
      exact hids.append (ridsOf_perm (hperm.flatMap_right f))
    exact this.nodup_iff.1 hnd
  rw [epre]
  cases op with
  | fail r => exact hpre.elim
  | node n =>
    have e : P' ++ l'.flatMap f = (P' ++ (l1'.flatMap f ++ W)) ++ ([Op.node n] ++ (V ++ l2'.flatMap f)) := by
      rw [hs, epre, epost]; simp [List.append_assoc]
    rw [e, ridsOf_append, ridsOf_append (xs := [Op.node n])] at hnd'
    have hdis := (List.nodup_append.1 hnd').2.2
    intro hm
    exact hdis _ hm n.render (List.mem_append_left _ (by simp [ridsOf, nodeIds])) rfl
  | edge a b d tol =>
    obtain ⟨ha, hb, hne, hst⟩ := hpre
    -- an id that is known before the operation and belongs to the block lies in the block's prefix `W`
    have inW : ∀ z, z ∈ ridsOf (P ++ (l1.flatMap f ++ W)) → z ∈ ridsOf (f x) → z ∈ ridsOf P ∨ z ∈ ridsOf W := by
      intro z hz hzx
      rw [efx, ridsOf_append] at hzx
      rcases List.mem_append.1 hzx with h1 | h1
      · exact Or.inr h1
      · have h1' : z ∈ ridsOf V := by simpa [ridsOf, nodeIds] using h1
        exfalso
        have e : P ++ l.flatMap f = (P ++ (l1.flatMap f ++ W)) ++ ([Op.edge a b d tol] ++ (V ++ l2.flatMap f)) := by
          rw [hsplit]; simp [List.append_assoc]
        rw [e, ridsOf_append] at hnd
        have hdis := (List.nodup_append.1 hnd).2.2
        refine hdis z hz z ?_ rfl
        rw [ridsOf_append, ridsOf_append]
        exact List.mem_append_right _ (List.mem_append_left _ h1')
    have known : ∀ z, z ∈ ridsOf (P ++ (l1.flatMap f ++ W)) → (z ∈ ridsOf P ∨ z ∈ ridsOf (f x)) →
        z ∈ ridsOf (P' ++ (l1'.flatMap f ++ W)) := by
      intro z hz hc
      rw [ridsOf_append, ridsOf_append]
      rcases hc with hc | hc
      · exact List.mem_append_left _ (hids.mem_iff.1 hc)
      · rcases inW z hz hc with h1 | h1
        · exact List.mem_append_left _ (hids.mem_iff.1 h1)
        · exact List.mem_append_right _ (List.mem_append_right _ h1)
    have hop : Op.edge a b d tol ∈ f x := by rw [efx]; simp
    obtain ⟨ca, cb⟩ := hclosed x hxl a b d tol hop
    refine ⟨known _ ha ca, known _ hb cb, hne, fun ht hm => ?_⟩
    have hst' := hst ht
    rw [pairsOf_append, pairsOf_append] at hm hst'
    simp only [List.mem_append, not_or] at hst'
    rcases List.mem_append.1 hm with h1 | h1
    · exact hst'.1 ((hpairs _).2 h1)
    · rcases List.mem_append.1 h1 with h2 | h2
      · obtain ⟨y, hy, hpy⟩ := mem_pairsOf_flatMap.1 h2
        have hrem : (l1 ++ l2).Perm (l1' ++ l2') := by
          apply perm_remove_middle (x := x)
          rw [← el, ← el']
          exact hperm
        have hy' : y ∈ l1 ++ l2 := hrem.mem_iff.2 (List.mem_append_left _ hy)
        exact hdisj l1 x l2 y el hy' _ (mem_pairsOf.2 ⟨a, b, d, tol, hop, rfl⟩) hpy
      · exact hst'.2.2 h2

/-- blocks at different positions of a phase with pairwise distinct node ids have disjoint node ids -/
theorem rids_blocks_disjoint {α : Type} {f : α → List Op} {l l1 l2 : List α} {x y : α} {Q : List Op}
    (hnd : (ridsOf (Q ++ l.flatMap f)).Nodup) (el : l = l1 ++ x :: l2) (hy : y ∈ l1 ++ l2) {z : String}
    (hx : z ∈ ridsOf (f x)) (hz : z ∈ ridsOf (f y)) : False := by
  rw [ridsOf_append] at hnd
  have h1 := (List.nodup_append.1 hnd).2.1
  rw [el, List.flatMap_append, List.flatMap_cons, ridsOf_append, ridsOf_append] at h1
  obtain ⟨_, h2, h3⟩ := List.nodup_append.1 h1
  obtain ⟨_, _, h4⟩ := List.nodup_append.1 h2
  rcases List.mem_append.1 hy with hy | hy
  · exact h3 z (mem_ridsOf_flatMap.2 ⟨y, hy, hz⟩) z (List.mem_append_left _ hx) rfl
  · exact h4 z hx z (mem_ridsOf_flatMap.2 ⟨y, hy, hz⟩) rfl

end Arca.Model
