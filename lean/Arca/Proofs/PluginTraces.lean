/-
Helper lemmas for C12, trace part: the notification traces of the plugin / foreach providers against `LifecycleSpec`.
-/
import Arca.Model.PluginStep

namespace Arca.Proofs.PluginTraces
open Arca.Model.PluginStep
open Arca.Model.PluginStep.LifecycleSpec

/-- the output ids the scripted plugin of the correspondence harness declares (`opOutputs()` in sdeploy.go) -/
def scriptedOuts : List String := ["alt", "cancelled", "error", "success"]

/-- every path of the plugin provider's `run()` is accepted, for the concrete output list of the scripted plugin -/
theorem scripted_paths_accepted : ∀ p ∈ pluginPaths scriptedOuts, pluginAcceptsRelaxed scriptedOuts p.2 = true := by
  decide

/-! ### arbitrary output lists -/

theorem outputOk_mono (stages : List Arca.Gen.StageRow) (outs outs' : List String) (h : ∀ x ∈ outs, x ∈ outs')
    (st : String) (o : Option String) (hok : outputOk stages outs st o = true) : outputOk stages outs' st o = true := by
  unfold outputOk at *
  cases hd : declaredOutputs stages st with
  | none => simp [hd] at hok
  | some d =>
    cases o with
    | none => simpa [hd] using hok
    | some x =>
      simp only [hd] at hok ⊢
      by_cases hs : d.contains "*" = true
      · simp only [hs, if_true] at hok ⊢
        simp only [List.contains_iff_mem] at hok ⊢
        exact h x hok
      · simp only [hs] at hok ⊢
        simpa using hok

/-- the acceptor depends on the plugin's output ids only through the `undeclared-output` clause, monotonically -/
theorem accepts_mono (stages : List Arca.Gen.StageRow) (edges : List (String × String)) (outs outs' : List String)
    (h : ∀ x ∈ outs, x ∈ outs') (tr : List Notif) (hacc : accepts stages edges outs tr = true) :
    accepts stages edges outs' tr = true := by
  have key : (reportedOutputs tr).all (fun p => outputOk stages outs p.1 p.2) = true →
      (reportedOutputs tr).all (fun p => outputOk stages outs' p.1 p.2) = true := by
    intro hall
    rw [List.all_eq_true] at hall ⊢
    intro p hp
    exact outputOk_mono stages outs outs' h p.1 p.2 (hall p hp)
  unfold accepts violations at *
  by_cases hc : (reportedOutputs tr).all (fun p => outputOk stages outs p.1 p.2) = true
  · have hc' := key hc
    simp only [hc, hc'] at hacc ⊢
    exact hacc
  · simp [hc] at hacc

theorem fixed_paths_accepted_nil : ∀ p ∈ fixedPaths, pluginAcceptsRelaxed [] p.2 = true := by decide

theorem fixed_paths_accepted (outs : List String) : ∀ p ∈ fixedPaths, pluginAcceptsRelaxed outs p.2 = true := by
  intro p hp
  exact accepts_mono _ _ [] outs (by simp) p.2 (fixed_paths_accepted_nil p hp)

theorem result_paths_accepted (x : String) (outs : List String) (hx : x ∈ outs) :
    ∀ p ∈ resultPaths x, pluginAcceptsRelaxed outs p.2 = true := by
  intro p hp
  simp [resultPaths] at hp
  rcases hp with rfl | rfl <;>
  simp [pluginAcceptsRelaxed, accepts, violations, path, seq, upToRunning, upToStarting, upToEnabling, start,
    deployStageEntry, enableStageEntry, enabledTrue, startStageEntry, runStageEntry, runResultOk, emit,
    transitionStageWithOutput, transitionRunningStage, completeStep, finishedStages, failedStages, reportedOutputs,
    transitions, transitionsFrom, mentioned, noDup, afterComplete, isComplete, outputOk, declaredOutputs, Arca.Gen.pluginStages,
    stageIds, pluginEdges, edgesOf, pluginUndeclaredEdges, hx] <;> rfl

theorem all_paths_accepted (outs : List String) : ∀ p ∈ pluginPaths outs, pluginAcceptsRelaxed outs p.2 = true := by
  intro p hp
  unfold pluginPaths at hp
  rcases List.mem_append.mp hp with h | h
  · exact fixed_paths_accepted outs p h
  · rcases List.mem_flatMap.mp h with ⟨x, hx, hpx⟩
    exact result_paths_accepted x outs hx p hpx

theorem ite_nil_iff {c : Prop} [Decidable c] (x : String) : (if c then ([] : List String) else [x]) = [] ↔ c := by
  by_cases h : c <;> simp [h]

theorem ite_nil_iff2 {c d : Prop} [Decidable c] [Decidable d] (x y : String) :
    (if c then ([] : List String) else (if d then [x] else [y])) = [] ↔ c := by
  by_cases h : c <;> by_cases h' : d <;> simp [h, h']

/-- what acceptance means, clause by clause -/
theorem accepts_iff (stages : List Arca.Gen.StageRow) (edges : List (String × String)) (outs : List String)
    (tr : List Notif) :
    accepts stages edges outs tr = true ↔
      (noDup (finishedStages tr) = true ∧
       (finishedStages tr).all (fun s => !(failedStages tr).contains s) = true ∧
       (reportedOutputs tr).all (fun p => outputOk stages outs p.1 p.2) = true ∧
       ((tr.filter isComplete).length == 1) = true ∧
       (afterComplete tr).all isFail = true ∧
       (mentioned tr).all (fun s => (stageIds stages).contains s) = true ∧
       (transitions tr).all (fun e => edges.contains e) = true) := by
  unfold accepts violations
  simp only [List.isEmpty_iff, List.append_eq_nil_iff, ite_nil_iff, ite_nil_iff2, and_assoc]

/-- the strict acceptor rejects the `disabled` path whatever the plugin's outputs are: `deploy -> enabling` -/
theorem strict_rejects_disabled (outs : List String) :
    pluginAccepts outs (path (upToEnabling ++ [transitionToDisabled])) = false := by
  cases h : pluginAccepts outs (path (upToEnabling ++ [transitionToDisabled])) with
  | false => rfl
  | true =>
    have h7 := ((accepts_iff _ _ _ _).mp h).2.2.2.2.2.2
    exact absurd h7 (by decide)

theorem disabled_mem (outs : List String) :
    ("disabled", path (upToEnabling ++ [transitionToDisabled])) ∈ pluginPaths outs := by
  unfold pluginPaths
  apply List.mem_append_left
  decide

/-! ### foreach -/

open Arca.Model.ForeachStep in
theorem foreach_paths_accepted : ∀ p ∈ foreachPaths, foreachAccepts p.2 = true := by decide

open Arca.Model.ForeachStep in
theorem foreach_old_lifecycle_rejects_closed_waiting_execute :
    foreachAcceptsBeforeExecuteClosed (fpath [enterExecute, Arca.Model.ForeachStep.closedEarly "outputs" true]) = false := by
  decide

/-- the regenerated foreach lifecycle is the old one plus exactly the edge `execute -> closed` (completion-and) -/
theorem foreach_lifecycle_change :
    Arca.Gen.foreachStages = Arca.Model.ForeachStep.foreachStagesBeforeExecuteClosed.map (fun r =>
      if r.id = "execute" then { r with next := ("closed", Arca.Model.Dep.cand) :: r.next } else r) := by
  decide

end Arca.Proofs.PluginTraces
