/-
Invariants of the dependency-graph model (M2) and their preservation by every operation the engine performs on
a graph after it has been built: the statements the run-loop theorems (C02, C03, C04, C10, C15) rest on.

`Graph.Inv` relates, for every edge (m → n), the status of the source `m` to the bookkeeping lists of the target
`n` (`out` = outstanding, `res` = resolved), records that the ready set only contains nodes without outstanding hard
dependencies (or unresolvable ones), and that unresolvability has propagated along `and` edges and across exhausted
`or` groups.  All operations are considered only when they succeed (`= .ok _`): the error results are Go errors or
panics that the run loop turns into an explicit failure action.
-/
import Arca.Model.Dgraph
import Arca.Proofs.DgraphLemmas

set_option linter.unusedSectionVars false

namespace Arca.Model

variable {ι : Type} [DecidableEq ι]

def keys (l : List (ι × Dep)) : List ι := l.map (·.1)

/-- the entry a dependency list holds for an edge of original type `d`: unchanged, or obviated (`or` / `opt` only) -/
def entryOk (t d : Dep) : Prop := t = d ∨ (t = Dep.obv ∧ (d = Dep.or ∨ d = Dep.opt))

structure Graph.Inv (g : Graph ι) : Prop where
  /-- node ids are unique -/
  nodup : (g.nodes.map (·.id)).Nodup
  /-- at most one edge per ordered pair, and edges connect existing nodes -/
  edges_nodup : (g.edges.map (fun e => (e.1, e.2.1))).Nodup
  edge_nodes : ∀ e ∈ g.edges, g.has e.1 = true ∧ g.has e.2.1 = true
  /-- every entry of `out` / `res` belongs to an edge and carries that edge's type or its obviation -/
  out_edge : ∀ n ∈ g.nodes, ∀ p ∈ n.out, ∃ d, (p.1, n.id, d) ∈ g.edges ∧ entryOk p.2 d
  res_edge : ∀ n ∈ g.nodes, ∀ p ∈ n.res, ∃ d, (p.1, n.id, d) ∈ g.edges ∧ entryOk p.2 d
  out_nodup : ∀ n ∈ g.nodes, (keys n.out).Nodup
  /-- status of the source of an edge vs. the lists of its target -/
  src_waiting : ∀ e ∈ g.edges, ∀ m n, g.find? e.1 = some m → g.find? e.2.1 = some n →
      m.status = St.waiting → e.1 ∈ keys n.out ∧ e.1 ∉ keys n.res
  src_resolved : ∀ e ∈ g.edges, ∀ m n, g.find? e.1 = some m → g.find? e.2.1 = some n →
      m.status = St.resolved → e.1 ∉ keys n.out ∧ e.1 ∈ keys n.res
  src_unres : ∀ e ∈ g.edges, ∀ m n, g.find? e.1 = some m → g.find? e.2.1 = some n →
      m.status = St.unres → e.1 ∉ keys n.out ∧ e.1 ∉ keys n.res
  /-- unresolvability has propagated along `and` edges -/
  and_unres : ∀ e ∈ g.edges, e.2.2 = Dep.and → ∀ m n, g.find? e.1 = some m → g.find? e.2.1 = some n →
      m.status = St.unres → n.status = St.unres
  /-- ... and across `or` groups none of whose members can be resolved any more -/
  or_unres : ∀ n ∈ g.nodes, (∃ e ∈ g.edges, e.2.1 = n.id ∧ e.2.2 = Dep.or) →
      (∀ e ∈ g.edges, e.2.1 = n.id → e.2.2 = Dep.or → ∀ m, g.find? e.1 = some m → m.status = St.unres) →
      n.status = St.unres
  /-- an obviated `or` entry witnesses that another member of the group was resolved first -/
  or_obviated : ∀ n ∈ g.nodes, ∀ p ∈ n.out ++ n.res, p.2 = Dep.obv →
      (∃ d, (p.1, n.id, d) ∈ g.edges ∧ d = Dep.or) → ∃ q ∈ n.res, q.2 = Dep.or
  /-- at most one resolved dependency keeps the type `or` (the one `resolveOneOfExpression` picks) -/
  or_unique : ∀ n ∈ g.nodes, (n.res.filter (fun p => p.2 = Dep.or)).length ≤ 1
  /-- (added, needed for `or_unique` to be inductive) once a member of the `or` group has been resolved, no outstanding
  entry keeps the type `or`: they were all obviated at that moment -/
  or_excl : ∀ n ∈ g.nodes, (∃ q ∈ n.res, q.2 = Dep.or) → ∀ p ∈ n.out, p.2 ≠ Dep.or
  /-- nodes in the ready set have no outstanding hard dependency, unless they are unresolvable -/
  ready_ok : ∀ id ∈ g.ready, ∃ n, g.find? id = some n ∧ (n.status = St.unres ∨ ∀ p ∈ n.out, p.2.hard = false)

/-! ## Helper lemmas -/

theorem mem_keys {a : ι} {l : List (ι × Dep)} : a ∈ keys l ↔ ∃ p ∈ l, p.1 = a := by
  simp [keys]

theorem mem_keys_of_mem {p : ι × Dep} {l : List (ι × Dep)} (h : p ∈ l) : p.1 ∈ keys l :=
  mem_keys.2 ⟨p, h, rfl⟩

theorem mem_keys_aerase {a s : ι} {l : List (ι × Dep)} : a ∈ keys (aerase s l) ↔ a ∈ keys l ∧ a ≠ s := by
  unfold keys
  rw [map_fst_aerase]
  simp

theorem keys_obviate (d : Dep) (l : List (ι × Dep)) : keys (obviate d l) = keys l :=
  map_fst_obviate d l

theorem keys_append (l l' : List (ι × Dep)) : keys (l ++ l') = keys l ++ keys l' := by
  simp [keys]

theorem nodup_keys_aerase {s : ι} {l : List (ι × Dep)} (h : (keys l).Nodup) : (keys (aerase s l)).Nodup := by
  unfold keys at *
  rw [map_fst_aerase]
  exact h.filter _

theorem mem_foldl_insertSet {l : List (Node ι)} {r : List ι} {x : ι}
    (h : x ∈ l.foldl (fun r n => insertSet n.id r) r) : x ∈ r ∨ ∃ n ∈ l, n.id = x := by
  induction l generalizing r with
  | nil => exact Or.inl h
  | cons a l ih =>
    rcases ih h with h | ⟨n, hn, rfl⟩
    · rcases mem_insertSet.1 h with rfl | h
      · exact Or.inr ⟨a, List.mem_cons_self, rfl⟩
      · exact Or.inl h
    · exact Or.inr ⟨n, List.mem_cons_of_mem _ hn, rfl⟩

theorem entryOk_and {t : Dep} (h : entryOk t Dep.and) : t = Dep.and := by
  rcases h with h | ⟨_, h | h⟩ <;> simp_all
theorem entryOk_cand {t : Dep} (h : entryOk t Dep.cand) : t = Dep.cand := by
  rcases h with h | ⟨_, h | h⟩ <;> simp_all
theorem entryOk_or_left {d : Dep} (h : entryOk Dep.or d) : d = Dep.or := by
  rcases h with h | ⟨h, _⟩ <;> simp_all
theorem entryOk_and_left {d : Dep} (h : entryOk Dep.and d) : d = Dep.and := by
  rcases h with h | ⟨h, _⟩ <;> simp_all
theorem entryOk_cand_left {d : Dep} (h : entryOk Dep.cand d) : d = Dep.cand := by
  rcases h with h | ⟨h, _⟩ <;> simp_all
theorem entryOk_opt_left {d : Dep} (h : entryOk Dep.opt d) : d = Dep.opt := by
  rcases h with h | ⟨h, _⟩ <;> simp_all
theorem entryOk_or {t : Dep} (h : entryOk t Dep.or) : t = Dep.or ∨ t = Dep.obv := by
  rcases h with h | ⟨h, _⟩ <;> simp_all

/-- the status of an edge's source, read off the lists of the target -/
theorem Graph.Inv.src_cases {g : Graph ι} (h : g.Inv) {e : ι × ι × Dep} (he : e ∈ g.edges) :
    ∃ m n, g.find? e.1 = some m ∧ g.find? e.2.1 = some n ∧
      ((m.status = St.waiting ∧ e.1 ∈ keys n.out ∧ e.1 ∉ keys n.res) ∨
       (m.status = St.resolved ∧ e.1 ∉ keys n.out ∧ e.1 ∈ keys n.res) ∨
       (m.status = St.unres ∧ e.1 ∉ keys n.out ∧ e.1 ∉ keys n.res)) := by
  obtain ⟨hm, hn⟩ := h.edge_nodes e he
  obtain ⟨m, hm⟩ := Graph.has_iff.1 hm
  obtain ⟨n, hn⟩ := Graph.has_iff.1 hn
  refine ⟨m, n, hm, hn, ?_⟩
  cases hs : m.status
  · exact Or.inl ⟨rfl, h.src_waiting e he m n hm hn hs⟩
  · exact Or.inr (Or.inl ⟨rfl, h.src_resolved e he m n hm hn hs⟩)
  · exact Or.inr (Or.inr ⟨rfl, h.src_unres e he m n hm hn hs⟩)

theorem Graph.Inv.res_src_resolved {g : Graph ι} (h : g.Inv) {n : Node ι} (hn : n ∈ g.nodes) {p : ι × Dep}
    (hp : p ∈ n.res) : ∃ m, g.find? p.1 = some m ∧ m.status = St.resolved := by
  obtain ⟨d, he, _⟩ := h.res_edge n hn p hp
  obtain ⟨m, n', hm, hn', hc⟩ := h.src_cases he
  have : n' = n := by
    have := Graph.find?_of_mem h.nodup hn
    simp only at hn'
    rw [this] at hn'
    exact (Option.some.inj hn').symm
  subst this
  have hk : p.1 ∈ keys n'.res := mem_keys_of_mem hp
  refine ⟨m, hm, ?_⟩
  rcases hc with ⟨_, _, h3⟩ | ⟨h1, _, _⟩ | ⟨_, _, h3⟩
  · exact absurd hk h3
  · exact h1
  · exact absurd hk h3

theorem entry_type {E : List (ι × ι × Dep)} (hnd : (E.map (fun e => (e.1, e.2.1))).Nodup)
    {l : List (ι × Dep)} {x : ι}
    (hl : ∀ p ∈ l, ∃ d, (p.1, x, d) ∈ E ∧ entryOk p.2 d)
    {e : ι × ι × Dep} (he : e ∈ E) (he2 : e.2.1 = x) (hk : e.1 ∈ keys l) :
    ∃ p ∈ l, p.1 = e.1 ∧ entryOk p.2 e.2.2 := by
  obtain ⟨p, hp, hpe⟩ := mem_keys.1 hk
  obtain ⟨d, hd, hok⟩ := hl p hp
  obtain ⟨a, b, d'⟩ := e
  simp only at he2 hpe
  subst he2; subst hpe
  have := edge_type_unique hnd hd he
  subst this
  exact ⟨p, hp, rfl, hok⟩

/-! ## `depResolved`, case by case -/


/-- the possible effects of a successful `depResolved` on the target node `n` (outstanding entry `(s, dt)`),
the ready set and the `turned` flag -/
inductive DepStep (g : Graph ι) (n : Node ι) (s : ι) (st : St) (dt : Dep) : Node ι → List ι → Bool → Prop
  | soft : dt.hard = false →
      DepStep g n s st dt
        { n with res := if st = .resolved then n.res ++ [(s, dt)] else n.res, out := aerase s n.out } g.ready false
  | failW : st = .unres → (dt = .and ∨ (dt = .or ∧ hasDep .or (aerase s n.out) = false)) → n.status = .waiting →
      DepStep g n s st dt
        { n with out := obviate .opt (aerase s n.out), status := .unres } (insertSet n.id g.ready) true
  | failU : st = .unres → (dt = .and ∨ (dt = .or ∧ hasDep .or (aerase s n.out) = false)) → n.status = .unres →
      DepStep g n s st dt
        { n with out := obviate .opt (aerase s n.out) } (insertSet n.id g.ready) false
  | orWait : st = .unres → dt = .or → hasDep .or (aerase s n.out) = true →
      DepStep g n s st dt { n with out := aerase s n.out } g.ready false
  | okReady (o2 : List (ι × Dep)) : dt.hard = true → (st = .resolved ∨ (st = .unres ∧ dt = .cand)) →
      o2 = (if dt = .or then obviate .or (aerase s n.out) else aerase s n.out) →
      (∀ p ∈ o2, p.2.hard = false) →
      DepStep g n s st dt
        { n with res := if st = .resolved then n.res ++ [(s, dt)] else n.res, out := obviate .opt o2 }
        (insertSet n.id g.ready) false
  | okWait (o2 : List (ι × Dep)) : dt.hard = true → (st = .resolved ∨ (st = .unres ∧ dt = .cand)) →
      o2 = (if dt = .or then obviate .or (aerase s n.out) else aerase s n.out) →
      DepStep g n s st dt
        { n with res := if st = .resolved then n.res ++ [(s, dt)] else n.res, out := o2 } g.ready false

theorem Graph.setNode_ready_comm (g : Graph ι) (r : List ι) (x : Node ι) :
    ({ g with ready := r } : Graph ι).setNode x = { g.setNode x with ready := r } := rfl

theorem List.map_setNode_collapse (l : List (Node ι)) (a b : Node ι) (h : a.id = b.id) :
    (l.map (fun m => if m.id = a.id then a else m)).map (fun m => if m.id = b.id then b else m) =
      l.map (fun m => if m.id = b.id then b else m) := by
  have := Graph.setNode_setNode ⟨l, [], []⟩ a b h
  simp only [Graph.setNode, Graph.mk.injEq, and_true] at this
  exact this

theorem obviate_ne {d : Dep} (hd : d ≠ .obv) {l : List (ι × Dep)} {p : ι × Dep} (hp : p ∈ obviate d l) :
    p.2 ≠ d := by
  obtain ⟨q, _, rfl⟩ := mem_obviate.1 hp
  split
  · exact fun h => hd h.symm
  · assumption

theorem soft_of_no_hard {l : List (ι × Dep)} (h1 : hasDep .and l = false) (h2 : hasDep .cand l = false)
    (h3 : ∀ p ∈ l, p.2 ≠ Dep.or) : ∀ p ∈ l, p.2.hard = false := by
  intro p hp
  have a1 := hasDep_false_iff.1 h1 p hp
  have a2 := hasDep_false_iff.1 h2 p hp
  have a3 := h3 p hp
  cases hp2 : p.2 <;> simp_all [Dep.hard]

theorem Graph.depResolved_ok {g g' : Graph ι} {t s : ι} {st : St} {turned : Bool}
    (h : g.depResolved t s st = .ok (g', turned)) :
    ∃ n dt n' r', g.find? t = some n ∧ st ≠ .waiting ∧ alookup s n.out = some dt ∧
      g' = { g.setNode n' with ready := r' } ∧ DepStep g n s st dt n' r' turned := by
  unfold Graph.depResolved at h
  split at h
  · cases h
  rename_i n hn
  split at h
  · cases h
  rename_i hst
  split at h
  · split at h <;> cases h
  rename_i dt hdt
  refine ⟨n, dt, ?_⟩
  simp only [Graph.markReady] at h
  have hcol : ∀ (a b : Node ι), a.id = b.id → (g.setNode a).setNode b = g.setNode b :=
    fun a b hab => Graph.setNode_setNode g a b hab
  split at h
  · -- soft
    rename_i hh
    simp only [Except.ok.injEq, Prod.mk.injEq] at h
    obtain ⟨rfl, rfl⟩ := h
    exact ⟨_, g.ready, hn, hst, hdt, rfl, DepStep.soft (by simpa using hh)⟩
  rename_i hh
  have hh : dt.hard = true := by simpa using hh
  split at h
  · rename_i hc
    obtain ⟨hu, hcand⟩ := hc
    subst hu
    simp only [reduceCtorEq, ↓reduceIte] at h
    split at h
    · rename_i hc2
      have hc2 : dt = .and ∨ (dt = .or ∧ hasDep .or (aerase s n.out) = false) := by
        rcases hc2 with h1 | h1
        · exact Or.inl h1
        · cases dt <;> simp_all [Dep.hard]
      split at h
      · rename_i hs
        simp only [Except.ok.injEq, Prod.mk.injEq] at h
        obtain ⟨rfl, rfl⟩ := h
        refine ⟨_, _, hn, hst, hdt, ?_, DepStep.failW rfl hc2 hs⟩
        simp [Graph.setNode]
        intro a _; by_cases ha : a.id = n.id <;> simp [ha]
      · rename_i hs
        simp only [Except.ok.injEq, Prod.mk.injEq] at h
        obtain ⟨rfl, rfl⟩ := h
        refine ⟨_, _, hn, hst, hdt, ?_, DepStep.failU rfl hc2 hs⟩
        simp [Graph.setNode]
        intro a _; by_cases ha : a.id = n.id <;> simp [ha]
      · cases h
    · rename_i hc2
      have hc2 : dt = .or ∧ hasDep .or (aerase s n.out) = true := by
        cases dt <;> simp_all [Dep.hard]
      simp only [Except.ok.injEq, Prod.mk.injEq] at h
      obtain ⟨rfl, rfl⟩ := h
      exact ⟨_, _, hn, hst, hdt, rfl, DepStep.orWait rfl hc2.1 hc2.2⟩
  · rename_i hc
    have hc : st = .resolved ∨ (st = .unres ∧ dt = .cand) := by
      cases st <;> simp_all
    by_cases hor : dt = .or
    · subst hor
      simp only [↓reduceIte, Bool.or_false] at h
      split at h
      · rename_i hr
        simp only [Except.ok.injEq, Prod.mk.injEq] at h
        obtain ⟨rfl, rfl⟩ := h
        refine ⟨_, _, hn, hst, hdt, ?_, DepStep.okReady (obviate .or (aerase s n.out)) hh hc (by simp) ?_⟩
        · simp [Graph.setNode]
          intro a _; by_cases ha : a.id = n.id <;> simp [ha]
        · simp only [Bool.not_eq_eq_eq_not, Bool.not_true, Bool.or_eq_false_iff] at hr
          exact soft_of_no_hard hr.1 hr.2 (fun p hp => obviate_ne (by simp) hp)
      · simp only [Except.ok.injEq, Prod.mk.injEq] at h
        obtain ⟨rfl, rfl⟩ := h
        refine ⟨_, _, hn, hst, hdt, ?_, DepStep.okWait (obviate .or (aerase s n.out)) hh hc (by simp)⟩
        simp [Graph.setNode]
        intro a _; by_cases ha : a.id = n.id <;> simp [ha]
    · simp only [hor, ↓reduceIte] at h
      split at h
      · rename_i hr
        simp only [Except.ok.injEq, Prod.mk.injEq] at h
        obtain ⟨rfl, rfl⟩ := h
        refine ⟨_, _, hn, hst, hdt, ?_, DepStep.okReady (aerase s n.out) hh hc (by simp [hor]) ?_⟩
        · simp [Graph.setNode]
          intro a _; by_cases ha : a.id = n.id <;> simp [ha]
        · simp only [Bool.not_eq_eq_eq_not, Bool.not_true, Bool.or_eq_false_iff] at hr
          exact soft_of_no_hard hr.1.1 hr.1.2 (hasDep_false_iff.1 hr.2)
      · simp only [Except.ok.injEq, Prod.mk.injEq] at h
        obtain ⟨rfl, rfl⟩ := h
        refine ⟨_, _, hn, hst, hdt, ?_, DepStep.okWait (aerase s n.out) hh hc (by simp [hor])⟩
        simp [Graph.setNode]
        intro a _; by_cases ha : a.id = n.id <;> simp [ha]

/-! ## Frame and status monotonicity of propagation -/


theorem Graph.depResolved_frame {g g' : Graph ι} {t s : ι} {st : St} {turned : Bool}
    (h : g.depResolved t s st = .ok (g', turned)) :
    g'.edges = g.edges ∧ g'.nodes.map (·.id) = g.nodes.map (·.id) := by
  obtain ⟨n, dt, n', r', _, _, _, rfl, _⟩ := Graph.depResolved_ok h
  exact ⟨rfl, Graph.setNode_ids g n'⟩

theorem Graph.propagate_frame (f : Nat) {g g' : Graph ι} {msgs : List (ι × ι × St)}
    (h : Graph.propagate f g msgs = .ok g') :
    g'.edges = g.edges ∧ g'.nodes.map (·.id) = g.nodes.map (·.id) := by
  induction f generalizing g msgs with
  | zero =>
    cases msgs with
    | nil => simp only [Graph.propagate, Except.ok.injEq] at h; subst h; exact ⟨rfl, rfl⟩
    | cons x rest => simp [Graph.propagate] at h
  | succ f ih =>
    cases msgs with
    | nil => simp only [Graph.propagate, Except.ok.injEq] at h; subst h; exact ⟨rfl, rfl⟩
    | cons x rest =>
      obtain ⟨tgt, src, st⟩ := x
      simp only [Graph.propagate] at h
      split at h
      · cases h
      · rename_i g1 turned hd
        obtain ⟨h1, h2⟩ := Graph.depResolved_frame hd
        obtain ⟨h3, h4⟩ := ih h
        exact ⟨h3.trans h1, h4.trans h2⟩

/-- a successful `depResolved` only ever changes a status from `waiting` to `unres` -/
theorem Graph.depResolved_status {g g' : Graph ι} {t s : ι} {st : St} {turned : Bool}
    (h : g.depResolved t s st = .ok (g', turned)) {x : ι} {n : Node ι} (hn : g.find? x = some n)
    (hs : n.status ≠ St.waiting) : ∃ n', g'.find? x = some n' ∧ n'.status = n.status := by
  obtain ⟨m, dt, m', r', hm, _, _, rfl, hstep⟩ := Graph.depResolved_ok h
  have hid : m'.id = m.id ∧ (m'.status = m.status ∨ m.status = St.waiting) := by
    cases hstep <;> simp_all
  have hmt := (Graph.find?_some hm).2
  by_cases hx : x = m'.id
  · subst hx
    have hxt : m'.id = t := hid.1.trans hmt
    rw [hxt] at hn
    rw [hm] at hn; cases hn
    refine ⟨m', ?_, ?_⟩
    · show (g.setNode m').find? m'.id = some m'
      exact Graph.find?_setNode_self (hxt ▸ hm)
    · exact hid.2.resolve_right hs
  · refine ⟨n, ?_, rfl⟩
    show (g.setNode m').find? x = some n
    rw [Graph.find?_setNode_ne hx]; exact hn

theorem Graph.propagate_status (f : Nat) {g g' : Graph ι} {msgs : List (ι × ι × St)}
    (h : Graph.propagate f g msgs = .ok g') {x : ι} {n : Node ι} (hn : g.find? x = some n)
    (hs : n.status ≠ St.waiting) : ∃ n', g'.find? x = some n' ∧ n'.status = n.status := by
  induction f generalizing g msgs n with
  | zero =>
    cases msgs with
    | nil => simp only [Graph.propagate, Except.ok.injEq] at h; subst h; exact ⟨n, hn, rfl⟩
    | cons x rest => simp [Graph.propagate] at h
  | succ f ih =>
    cases msgs with
    | nil => simp only [Graph.propagate, Except.ok.injEq] at h; subst h; exact ⟨n, hn, rfl⟩
    | cons y rest =>
      obtain ⟨tgt, src, st⟩ := y
      simp only [Graph.propagate] at h
      split at h
      · cases h
      · rename_i g1 turned hd
        obtain ⟨n1, hn1, hs1⟩ := Graph.depResolved_status hd hn hs
        obtain ⟨n2, hn2, hs2⟩ := ih h hn1 (hs1 ▸ hs)
        exact ⟨n2, hn2, hs2.trans hs1⟩

theorem Graph.find?_none_iff {g : Graph ι} {x : ι} : g.find? x = none ↔ x ∉ g.nodes.map (·.id) := by
  unfold Graph.find?
  simp only [List.find?_eq_none, decide_eq_true_eq, List.mem_map, not_exists, not_and]

theorem Graph.mem_setNode {g : Graph ι} {n' m : Node ι} (hm : m ∈ (g.setNode n').nodes) :
    (m ∈ g.nodes ∧ m.id ≠ n'.id) ∨ m = n' := by
  unfold Graph.setNode at hm
  simp only [List.mem_map] at hm
  obtain ⟨k, hk, rfl⟩ := hm
  by_cases h : k.id = n'.id
  · simp [h]
  · simp [h, hk]

/-! ## The node-local part of the invariant and the primitive updates of a node -/

/-- the part of the invariant that speaks about a single node (given the edge list) -/
structure NodeOk (E : List (ι × ι × Dep)) (n : Node ι) : Prop where
  out_edge : ∀ p ∈ n.out, ∃ d, (p.1, n.id, d) ∈ E ∧ entryOk p.2 d
  res_edge : ∀ p ∈ n.res, ∃ d, (p.1, n.id, d) ∈ E ∧ entryOk p.2 d
  out_nodup : (keys n.out).Nodup
  or_obviated : ∀ p ∈ n.out ++ n.res, p.2 = Dep.obv → (∃ d, (p.1, n.id, d) ∈ E ∧ d = Dep.or) →
      ∃ q ∈ n.res, q.2 = Dep.or
  or_unique : (n.res.filter (fun p => p.2 = Dep.or)).length ≤ 1
  or_excl : (∃ q ∈ n.res, q.2 = Dep.or) → ∀ p ∈ n.out, p.2 ≠ Dep.or
  disj : ∀ a ∈ keys n.out, a ∉ keys n.res
  /-- a consumed `and` dependency that was not resolved makes the node unresolvable -/
  and_s : ∀ e ∈ E, e.2.1 = n.id → e.2.2 = Dep.and → e.1 ∉ keys n.out → e.1 ∉ keys n.res → n.status = St.unres
  /-- so does an `or` group all of whose members were consumed without being resolved -/
  or_s : (∃ e ∈ E, e.2.1 = n.id ∧ e.2.2 = Dep.or) →
      (∀ e ∈ E, e.2.1 = n.id → e.2.2 = Dep.or → e.1 ∉ keys n.out ∧ e.1 ∉ keys n.res) → n.status = St.unres

theorem NodeOk.setUnres {E : List (ι × ι × Dep)} {n : Node ι} (h : NodeOk E n) :
    NodeOk E { n with status := .unres } :=
  ⟨h.out_edge, h.res_edge, h.out_nodup, h.or_obviated, h.or_unique, h.or_excl, h.disj,
    fun _ _ _ _ _ _ => rfl, fun _ _ => rfl⟩

theorem NodeOk.obviateOpt {E : List (ι × ι × Dep)} (hE : (E.map (fun e => (e.1, e.2.1))).Nodup)
    {n : Node ι} (h : NodeOk E n) : NodeOk E { n with out := obviate .opt n.out } := by
  have hmem : ∀ p ∈ obviate Dep.opt n.out, p ∈ n.out ∨ (p.2 = Dep.obv ∧ (p.1, Dep.opt) ∈ n.out) := by
    intro p hp
    obtain ⟨q, hq, rfl⟩ := mem_obviate.1 hp
    split
    · rename_i h2
      right; exact ⟨rfl, by rw [← h2]; exact hq⟩
    · left; exact hq
  constructor
  · intro p hp
    rcases hmem p hp with hp | ⟨h2, hp⟩
    · exact h.out_edge p hp
    · obtain ⟨d, hd, hok⟩ := h.out_edge _ hp
      have := entryOk_opt_left hok
      subst this
      exact ⟨Dep.opt, hd, Or.inr ⟨h2, Or.inr rfl⟩⟩
  · exact h.res_edge
  · show (keys (obviate Dep.opt n.out)).Nodup
    rw [keys_obviate]; exact h.out_nodup
  · intro p hp hobv hex
    simp only [List.mem_append] at hp
    rcases hp with hp | hp
    · rcases hmem p hp with hp | ⟨h2, hp⟩
      · exact h.or_obviated p (List.mem_append_left _ hp) hobv hex
      · obtain ⟨d, hd, hok⟩ := h.out_edge _ hp
        have := entryOk_opt_left hok
        subst this
        obtain ⟨d', hd', rfl⟩ := hex
        exact absurd (edge_type_unique hE hd hd') (by decide)
    · exact h.or_obviated p (List.mem_append_right _ hp) hobv hex
  · exact h.or_unique
  · intro hex p hp
    rcases hmem p hp with hp | ⟨h2, hp⟩
    · exact h.or_excl hex p hp
    · rw [h2]; decide
  · show ∀ a ∈ keys (obviate Dep.opt n.out), a ∉ keys n.res
    rw [keys_obviate]; exact h.disj
  · show ∀ e ∈ E, e.2.1 = n.id → e.2.2 = Dep.and → e.1 ∉ keys (obviate Dep.opt n.out) → _
    rw [keys_obviate]; exact h.and_s
  · show _ → (∀ e ∈ E, e.2.1 = n.id → e.2.2 = Dep.or → e.1 ∉ keys (obviate Dep.opt n.out) ∧ _) → _
    rw [keys_obviate]; exact h.or_s

/-- the original type of the edge behind an outstanding entry -/
theorem NodeOk.out_type {E : List (ι × ι × Dep)} (hE : (E.map (fun e => (e.1, e.2.1))).Nodup) {n : Node ι}
    (h : NodeOk E n) {s : ι} {dt : Dep} (hs : (s, dt) ∈ n.out) {e : ι × ι × Dep} (he : e ∈ E)
    (he2 : e.2.1 = n.id) (he1 : e.1 = s) : entryOk dt e.2.2 := by
  obtain ⟨d, hd, hok⟩ := h.out_edge _ hs
  obtain ⟨a, b, d'⟩ := e
  simp only at he2 he1 hd ⊢
  subst he2; subst he1
  rw [← edge_type_unique hE hd he]; exact hok

theorem NodeOk.consumeU {E : List (ι × ι × Dep)} (hE : (E.map (fun e => (e.1, e.2.1))).Nodup)
    {n : Node ι} (h : NodeOk E n) {s : ι} {dt : Dep} (hs : (s, dt) ∈ n.out)
    (hc : n.status = .unres ∨ dt.hard = false ∨ dt = .cand ∨ (dt = .or ∧ hasDep .or (aerase s n.out) = true)) :
    NodeOk E { n with out := aerase s n.out } := by
  have hsub : ∀ p ∈ aerase s n.out, p ∈ n.out := fun p hp => (mem_aerase.1 hp).1
  have hk : ∀ a, a ∉ keys (aerase s n.out) → a ∉ keys n.out ∨ a = s := by
    intro a ha
    by_cases hs : a = s
    · exact Or.inr hs
    · exact Or.inl (fun hin => ha (mem_keys_aerase.2 ⟨hin, hs⟩))
  constructor
  · exact fun p hp => h.out_edge p (hsub p hp)
  · exact h.res_edge
  · exact nodup_keys_aerase h.out_nodup
  · intro p hp
    simp only [List.mem_append] at hp
    refine h.or_obviated p (List.mem_append.2 ?_)
    rcases hp with hp | hp
    · exact Or.inl (hsub p hp)
    · exact Or.inr hp
  · exact h.or_unique
  · exact fun hex p hp => h.or_excl hex p (hsub p hp)
  · exact fun a ha => h.disj a (mem_keys_aerase.1 ha).1
  · intro e he he2 hand hout hres
    rcases hk _ hout with hout | he1
    · exact h.and_s e he he2 hand hout hres
    · have hok := h.out_type hE hs he he2 he1
      rw [hand] at hok
      have := entryOk_and hok
      subst this
      rcases hc with hc | hc | hc | hc
      · exact hc
      · simp [Dep.hard] at hc
      · cases hc
      · cases hc.1
  · intro hex hall
    rcases hc with hc | hc
    · exact hc
    -- is the consumed entry a member of the `or` group?
    by_cases hsor : ∃ e ∈ E, e.2.1 = n.id ∧ e.2.2 = Dep.or ∧ e.1 = s
    · exfalso
      obtain ⟨e, he, he2, hor, he1⟩ := hsor
      have hok := h.out_type hE hs he he2 he1
      rw [hor] at hok
      rcases hc with hc | hc | hc
      · rcases entryOk_or hok with h2 | h2
        · subst h2; simp [Dep.hard] at hc
        · subst h2
          obtain ⟨q, hq, hq2⟩ := h.or_obviated _ (List.mem_append_left _ hs) rfl
            ⟨Dep.or, by rw [← he1, ← he2, ← hor]; exact he, rfl⟩
          obtain ⟨d, hd, hok'⟩ := h.res_edge q hq
          rw [hq2] at hok'
          have := entryOk_or_left hok'
          subst this
          exact (hall _ hd rfl rfl).2 (mem_keys_of_mem hq)
      · subst hc
        rcases entryOk_or hok with h2 | h2 <;> cases h2
      · obtain ⟨p, hp, hp2⟩ := hasDep_iff.1 hc.2
        obtain ⟨d, hd, hok'⟩ := h.out_edge p (hsub p hp)
        rw [hp2] at hok'
        have := entryOk_or_left hok'
        subst this
        exact (hall _ hd rfl rfl).1 (mem_keys_of_mem hp)
    · refine h.or_s hex ?_
      intro e he he2 hor
      obtain ⟨h1, h2⟩ := hall e he he2 hor
      refine ⟨?_, h2⟩
      rcases hk _ h1 with h1 | he1
      · exact h1
      · exact absurd ⟨e, he, he2, hor, he1⟩ hsor

theorem NodeOk.consumeR {E : List (ι × ι × Dep)}
    {n : Node ι} (h : NodeOk E n) {s : ι} {dt : Dep} (hs : (s, dt) ∈ n.out) (hdt : dt ≠ .or) :
    NodeOk E { n with res := n.res ++ [(s, dt)], out := aerase s n.out } := by
  have hsub : ∀ p ∈ aerase s n.out, p ∈ n.out := fun p hp => (mem_aerase.1 hp).1
  have hk : ∀ a, a ∉ keys (aerase s n.out) → a ∉ keys (n.res ++ [(s, dt)]) → a ∉ keys n.out ∧ a ∉ keys n.res := by
    intro a ha har
    simp only [keys_append, List.mem_append, not_or] at har
    have hne : a ≠ s := fun h => har.2 (by simp [keys, h])
    exact ⟨fun hin => ha (mem_keys_aerase.2 ⟨hin, hne⟩), har.1⟩
  constructor
  · exact fun p hp => h.out_edge p (hsub p hp)
  · intro p hp
    rcases List.mem_append.1 hp with hp | hp
    · exact h.res_edge p hp
    · simp only [List.mem_singleton] at hp
      subst hp
      exact h.out_edge _ hs
  · exact nodup_keys_aerase h.out_nodup
  · intro p hp hobv hex
    have : p ∈ n.out ++ n.res := by
      simp only [List.mem_append, List.mem_singleton] at hp ⊢
      rcases hp with hp | hp | hp
      · exact Or.inl (hsub p hp)
      · exact Or.inr hp
      · exact Or.inl (hp ▸ hs)
    obtain ⟨q, hq, hq2⟩ := h.or_obviated p this hobv hex
    exact ⟨q, List.mem_append_left _ hq, hq2⟩
  · show ((n.res ++ [(s, dt)]).filter (fun p => p.2 = Dep.or)).length ≤ 1
    rw [List.filter_append]
    simp only [List.filter_cons, List.filter_nil, hdt, decide_false]
    simpa using h.or_unique
  · intro hex p hp
    refine h.or_excl ?_ p (hsub p hp)
    obtain ⟨q, hq, hq2⟩ := hex
    rcases List.mem_append.1 hq with hq | hq
    · exact ⟨q, hq, hq2⟩
    · simp only [List.mem_singleton] at hq
      subst hq
      exact absurd hq2 hdt
  · intro a ha
    obtain ⟨h1, h2⟩ := mem_keys_aerase.1 ha
    simp only [keys_append, List.mem_append, not_or]
    exact ⟨h.disj a h1, by simp [keys, h2]⟩
  · intro e he he2 hand hout hres
    obtain ⟨h1, h2⟩ := hk _ hout hres
    exact h.and_s e he he2 hand h1 h2
  · intro hex hall
    refine h.or_s hex ?_
    intro e he he2 hor
    obtain ⟨h1, h2⟩ := hall e he he2 hor
    exact hk _ h1 h2

theorem NodeOk.consumeROr {E : List (ι × ι × Dep)}
    {n : Node ι} (h : NodeOk E n) {s : ι} (hs : (s, Dep.or) ∈ n.out) :
    NodeOk E { n with res := n.res ++ [(s, .or)], out := obviate .or (aerase s n.out) } := by
  have hsub : ∀ p ∈ aerase s n.out, p ∈ n.out := fun p hp => (mem_aerase.1 hp).1
  have hk : ∀ a, a ∉ keys (obviate .or (aerase s n.out)) → a ∉ keys (n.res ++ [(s, Dep.or)]) →
      a ∉ keys n.out ∧ a ∉ keys n.res := by
    intro a ha har
    rw [keys_obviate] at ha
    simp only [keys_append, List.mem_append, not_or] at har
    have hne : a ≠ s := fun h => har.2 (by simp [keys, h])
    exact ⟨fun hin => ha (mem_keys_aerase.2 ⟨hin, hne⟩), har.1⟩
  have hnor : ∀ q ∈ n.res, q.2 ≠ Dep.or := by
    intro q hq hq2
    exact h.or_excl ⟨q, hq, hq2⟩ _ hs rfl
  constructor
  · intro p hp
    obtain ⟨q, hq, rfl⟩ := mem_obviate.1 hp
    obtain ⟨d, hd, hok⟩ := h.out_edge q (hsub q hq)
    split
    · rename_i h2
      rw [h2] at hok
      have := entryOk_or_left hok
      subst this
      exact ⟨Dep.or, hd, Or.inr ⟨rfl, Or.inl rfl⟩⟩
    · exact ⟨d, hd, hok⟩
  · intro p hp
    rcases List.mem_append.1 hp with hp | hp
    · exact h.res_edge p hp
    · simp only [List.mem_singleton] at hp
      subst hp
      exact h.out_edge _ hs
  · show (keys (obviate Dep.or (aerase s n.out))).Nodup
    rw [keys_obviate]
    exact nodup_keys_aerase h.out_nodup
  · intro _ _ _ _
    exact ⟨(s, Dep.or), by simp, rfl⟩
  · show ((n.res ++ [(s, Dep.or)]).filter (fun p => p.2 = Dep.or)).length ≤ 1
    rw [List.filter_append]
    have : n.res.filter (fun p => p.2 = Dep.or) = [] := by
      simp only [List.filter_eq_nil_iff, decide_eq_true_eq]
      exact hnor
    simp [this]
  · intro _ p hp
    exact obviate_ne (by decide) hp
  · show ∀ a ∈ keys (obviate Dep.or (aerase s n.out)), _
    rw [keys_obviate]
    intro a ha
    obtain ⟨h1, h2⟩ := mem_keys_aerase.1 ha
    simp only [keys_append, List.mem_append, not_or]
    exact ⟨h.disj a h1, by simp [keys, h2]⟩
  · intro e he he2 hand hout hres
    obtain ⟨h1, h2⟩ := hk _ hout hres
    exact h.and_s e he he2 hand h1 h2
  · intro hex hall
    refine h.or_s hex ?_
    intro e he he2 hor
    obtain ⟨h1, h2⟩ := hall e he he2 hor
    exact hk _ h1 h2

/-! ## Consequences of a `depResolved` step for the target node -/

theorem DepStep.nodeOk {g : Graph ι} {E : List (ι × ι × Dep)} (hE : (E.map (fun e => (e.1, e.2.1))).Nodup)
    {n n' : Node ι} {s : ι} {st : St} {dt : Dep} {r' : List ι} {turned : Bool}
    (hstep : DepStep g n s st dt n' r' turned) (h : NodeOk E n) (hs : (s, dt) ∈ n.out) (hst : st ≠ .waiting) :
    NodeOk E n' := by
  cases hstep with
  | soft hsoft =>
    cases st with
    | waiting => exact absurd rfl hst
    | resolved =>
      simp only [↓reduceIte]
      exact h.consumeR hs (by rintro rfl; simp [Dep.hard] at hsoft)
    | unres =>
      simp only [reduceCtorEq, ↓reduceIte]
      exact h.consumeU hE hs (Or.inr (Or.inl hsoft))
  | failW _ _ _ =>
    exact (h.setUnres.consumeU hE (n := { n with status := .unres }) hs (Or.inl rfl)).obviateOpt hE
  | failU _ _ hu =>
    exact (h.consumeU hE hs (Or.inl hu)).obviateOpt hE
  | orWait _ hor hhas =>
    exact h.consumeU hE hs (Or.inr (Or.inr (Or.inr ⟨hor, hhas⟩)))
  | okReady o2 hh hc ho2 _ =>
    subst ho2
    rcases hc with rfl | ⟨rfl, rfl⟩
    · simp only [↓reduceIte]
      by_cases hor : dt = .or
      · subst hor
        simp only [↓reduceIte]
        exact (h.consumeROr hs).obviateOpt hE
      · simp only [hor, ↓reduceIte]
        exact (h.consumeR hs hor).obviateOpt hE
    · simp only [reduceCtorEq, ↓reduceIte]
      exact (h.consumeU hE hs (Or.inr (Or.inr (Or.inl rfl)))).obviateOpt hE
  | okWait o2 hh hc ho2 =>
    subst ho2
    rcases hc with rfl | ⟨rfl, rfl⟩
    · simp only [↓reduceIte]
      by_cases hor : dt = .or
      · subst hor
        simp only [↓reduceIte]
        exact h.consumeROr hs
      · simp only [hor, ↓reduceIte]
        exact h.consumeR hs hor
    · simp only [reduceCtorEq, ↓reduceIte]
      exact h.consumeU hE hs (Or.inr (Or.inr (Or.inl rfl)))

theorem DepStep.facts {g : Graph ι} {n n' : Node ι} {s : ι} {st : St} {dt : Dep} {r' : List ι} {turned : Bool}
    (hstep : DepStep g n s st dt n' r' turned) :
    n'.id = n.id ∧ keys n'.out = keys (aerase s n.out) ∧
      n'.res = (if st = .resolved then n.res ++ [(s, dt)] else n.res) ∧
      ((turned = false ∧ n'.status = n.status) ∨ (turned = true ∧ n.status = .waiting ∧ n'.status = .unres)) := by
  cases hstep with
  | soft _ => simp
  | failW hst _ hw => subst hst; simp [keys_obviate, hw]
  | failU hst _ _ => subst hst; simp [keys_obviate]
  | orWait hst _ _ => subst hst; simp
  | okReady o2 _ _ ho2 _ =>
    subst ho2
    by_cases hor : dt = .or <;> simp [keys_obviate, hor]
  | okWait o2 _ _ ho2 =>
    subst ho2
    by_cases hor : dt = .or <;> simp [keys_obviate, hor]

theorem soft_obviate {d : Dep} {l : List (ι × Dep)} (h : ∀ p ∈ l, p.2.hard = false) :
    ∀ p ∈ obviate d l, p.2.hard = false := by
  intro p hp
  obtain ⟨q, hq, rfl⟩ := mem_obviate.1 hp
  split
  · rfl
  · exact h q hq

theorem DepStep.ready {g : Graph ι} {n n' : Node ι} {s : ι} {st : St} {dt : Dep} {r' : List ι} {turned : Bool}
    (hstep : DepStep g n s st dt n' r' turned) (hs : (s, dt) ∈ n.out)
    (hold : n.id ∈ g.ready → n.status = .unres ∨ ∀ p ∈ n.out, p.2.hard = false) :
    ∀ id ∈ r', (id ≠ n.id ∧ id ∈ g.ready) ∨
      (id = n.id ∧ (n'.status = .unres ∨ ∀ p ∈ n'.out, p.2.hard = false)) := by
  have hsub : ∀ p ∈ aerase s n.out, p ∈ n.out := fun p hp => (mem_aerase.1 hp).1
  have hhard : dt.hard = true → n.id ∈ g.ready → n.status = .unres := by
    intro hh hr
    rcases hold hr with h1 | h1
    · exact h1
    · have := h1 _ hs
      simp only at this
      rw [hh] at this; cases this
  intro id hid
  by_cases hidn : id = n.id
  · right
    refine ⟨hidn, ?_⟩
    subst hidn
    cases hstep with
    | soft _ =>
      rcases hold hid with h1 | h1
      · exact Or.inl h1
      · exact Or.inr (fun p hp => h1 p (hsub p hp))
    | failW _ _ _ => exact Or.inl rfl
    | failU _ _ hu => exact Or.inl hu
    | orWait _ hor _ => exact Or.inl (hhard (by rw [hor]; rfl) hid)
    | okReady o2 _ _ _ hsoft => exact Or.inr (soft_obviate hsoft)
    | okWait o2 hh _ _ => exact Or.inl (hhard hh hid)
  · left
    refine ⟨hidn, ?_⟩
    cases hstep with
    | soft _ => exact hid
    | orWait _ _ _ => exact hid
    | okWait o2 _ _ _ => exact hid
    | failW _ _ _ => exact (mem_insertSet.1 hid).resolve_left hidn
    | failU _ _ _ => exact (mem_insertSet.1 hid).resolve_left hidn
    | okReady o2 _ _ _ _ => exact (mem_insertSet.1 hid).resolve_left hidn

/-! ## The invariant of intermediate propagation states -/

/-- the invariant of the intermediate states of `propagate`, with the pending messages `msgs` -/
structure Graph.Aux (g : Graph ι) (msgs : List (ι × ι × St)) : Prop where
  nodup : (g.nodes.map (·.id)).Nodup
  edges_nodup : (g.edges.map (fun e => (e.1, e.2.1))).Nodup
  edge_nodes : ∀ e ∈ g.edges, g.has e.1 = true ∧ g.has e.2.1 = true
  node_ok : ∀ x n, g.find? x = some n → NodeOk g.edges n
  /-- a waiting source is still outstanding at the target -/
  e_wait : ∀ e ∈ g.edges, ∀ m n, g.find? e.1 = some m → g.find? e.2.1 = some n →
      m.status = St.waiting → e.1 ∈ keys n.out
  /-- a settled source that is still outstanding at the target has a message under way -/
  e_pend : ∀ e ∈ g.edges, ∀ m n, g.find? e.1 = some m → g.find? e.2.1 = some n →
      m.status ≠ St.waiting → e.1 ∈ keys n.out → (e.2.1, e.1, m.status) ∈ msgs
  /-- a consumed source is settled, and recorded in `res` exactly if it was resolved -/
  e_done : ∀ e ∈ g.edges, ∀ m n, g.find? e.1 = some m → g.find? e.2.1 = some n →
      e.1 ∉ keys n.out → (m.status = St.resolved ∧ e.1 ∈ keys n.res) ∨ (m.status = St.unres ∧ e.1 ∉ keys n.res)
  ready_ok : ∀ id ∈ g.ready, ∃ n, g.find? id = some n ∧ (n.status = St.unres ∨ ∀ p ∈ n.out, p.2.hard = false)
  /-- messages carry the (settled) status of their source -/
  msg_st : ∀ x ∈ msgs, x.2.2 ≠ St.waiting ∧ ∃ m, g.find? x.2.1 = some m ∧ m.status = x.2.2

/-- lookups after replacing the node `t` -/
theorem Graph.find?_replace {g : Graph ι} {t : ι} {n n' : Node ι} (hn : g.find? t = some n) (hid : n'.id = t)
    (r' : List ι) (x : ι) :
    Graph.find? { g.setNode n' with ready := r' } x = if x = t then some n' else g.find? x := by
  show (g.setNode n').find? x = _
  split
  · rename_i hx
    subst hx; subst hid
    exact Graph.find?_setNode_self hn
  · rename_i hx
    exact Graph.find?_setNode_ne (hid ▸ hx)

/-- consuming the message `(t, s, st)`: the node `t` is replaced by `n'`, which no longer lists `s` as outstanding -/
theorem Graph.Aux.step {g : Graph ι} {msgs msgs' : List (ι × ι × St)} {t s : ι} {st : St} {n n' : Node ι}
    {r' : List ι} (h : g.Aux msgs) (hx : (t, s, st) ∈ msgs) (hn : g.find? t = some n) (hid : n'.id = t)
    (hs : s ∈ keys n.out) (hok : NodeOk g.edges n')
    (hout : ∀ a, a ∈ keys n'.out ↔ a ∈ keys n.out ∧ a ≠ s)
    (hres : ∀ a, a ∈ keys n'.res ↔ a ∈ keys n.res ∨ (st = .resolved ∧ a = s))
    (hstat : n'.status = n.status)
    (hready : ∀ id ∈ r', (id ≠ t ∧ id ∈ g.ready) ∨
      (id = t ∧ (n'.status = .unres ∨ ∀ p ∈ n'.out, p.2.hard = false)))
    (hsub : ∀ x ∈ msgs, x = (t, s, st) ∨ x ∈ msgs') (hsup : ∀ x ∈ msgs', x ∈ msgs) :
    Graph.Aux { g.setNode n' with ready := r' } msgs' := by
  have hf := Graph.find?_replace hn hid r'
  obtain ⟨hstw, ms, hms, hmss⟩ := h.msg_st _ hx
  simp only at hstw hms hmss
  -- the old node behind a new lookup, with the same status
  have hold : ∀ x m, Graph.find? { g.setNode n' with ready := r' } x = some m →
      ∃ m0, g.find? x = some m0 ∧ m0.status = m.status ∧ (x ≠ t → m0 = m) ∧ (x = t → m0 = n ∧ m = n') := by
    intro x m hm
    rw [hf] at hm
    split at hm
    · rename_i hxt
      cases hm
      exact ⟨n, hxt ▸ hn, hstat.symm, fun h => absurd hxt h, fun _ => ⟨rfl, rfl⟩⟩
    · rename_i hxt
      exact ⟨m, hm, rfl, fun _ => rfl, fun h => absurd h hxt⟩
  have hdisj : s ∉ keys n.res := (h.node_ok t n hn).disj s hs
  constructor
  · show ((g.setNode n').nodes.map (·.id)).Nodup
    rw [Graph.setNode_ids]; exact h.nodup
  · exact h.edges_nodup
  · intro e he
    show (g.setNode n').has e.1 = true ∧ (g.setNode n').has e.2.1 = true
    rw [Graph.has_setNode, Graph.has_setNode]
    exact h.edge_nodes e he
  · intro x m hm
    rw [hf] at hm
    split at hm
    · cases hm; exact hok
    · exact h.node_ok x m hm
  · intro e he m k hm hk hmw
    obtain ⟨m0, hm0, hm0s, _, _⟩ := hold _ _ hm
    obtain ⟨k0, hk0, _, hkne, hkeq⟩ := hold _ _ hk
    have hin := h.e_wait e he m0 k0 hm0 hk0 (hm0s.trans hmw)
    by_cases hkt : e.2.1 = t
    · obtain ⟨rfl, rfl⟩ := hkeq hkt
      refine (hout _).2 ⟨hin, ?_⟩
      intro hes
      rw [hes, hms] at hm0
      cases hm0
      exact hstw (hmss.symm.trans (hm0s.trans hmw))
    · rw [← hkne hkt]; exact hin
  · intro e he m k hm hk hmw hin
    obtain ⟨m0, hm0, hm0s, _, _⟩ := hold _ _ hm
    obtain ⟨k0, hk0, _, hkne, hkeq⟩ := hold _ _ hk
    rw [← hm0s] at hmw ⊢
    by_cases hkt : e.2.1 = t
    · obtain ⟨rfl, rfl⟩ := hkeq hkt
      obtain ⟨hin0, hne⟩ := (hout _).1 hin
      rcases hsub _ (h.e_pend e he m0 k0 hm0 hk0 hmw hin0) with heq | hmem
      · simp only [Prod.mk.injEq] at heq
        exact absurd heq.2.1 hne
      · exact hmem
    · rw [← hkne hkt] at hin
      rcases hsub _ (h.e_pend e he m0 k0 hm0 hk0 hmw hin) with heq | hmem
      · simp only [Prod.mk.injEq] at heq
        exact absurd heq.1 hkt
      · exact hmem
  · intro e he m k hm hk hnin
    obtain ⟨m0, hm0, hm0s, _, _⟩ := hold _ _ hm
    obtain ⟨k0, hk0, _, hkne, hkeq⟩ := hold _ _ hk
    rw [← hm0s]
    by_cases hkt : e.2.1 = t
    · obtain ⟨rfl, rfl⟩ := hkeq hkt
      by_cases hes : e.1 = s
      · rw [hes, hms] at hm0
        cases hm0
        rw [hes, hmss]
        cases st with
        | waiting => exact absurd rfl hstw
        | resolved => exact Or.inl ⟨rfl, (hres s).2 (Or.inr ⟨rfl, rfl⟩)⟩
        | unres =>
          refine Or.inr ⟨rfl, ?_⟩
          intro hin
          rcases (hres s).1 hin with h1 | h1
          · exact hdisj h1
          · cases h1.1
      · have hnin0 : e.1 ∉ keys k0.out := fun hin => hnin ((hout _).2 ⟨hin, hes⟩)
        have hiff : e.1 ∈ keys k.res ↔ e.1 ∈ keys k0.res := by
          rw [hres]
          constructor
          · rintro (h1 | h1)
            · exact h1
            · exact absurd h1.2 hes
          · exact Or.inl
        rw [hiff]
        exact h.e_done e he m0 k0 hm0 hk0 hnin0
    · rw [← hkne hkt] at hnin ⊢
      exact h.e_done e he m0 k0 hm0 hk0 hnin
  · intro id hid'
    show ∃ k, Graph.find? { g.setNode n' with ready := r' } id = some k ∧ _
    rw [hf]
    rcases hready id hid' with ⟨hne, hr⟩ | ⟨heq, hc⟩
    · rw [if_neg hne]
      exact h.ready_ok id hr
    · rw [if_pos heq]
      exact ⟨n', rfl, hc⟩
  · intro x hx'
    obtain ⟨h1, m0, hm0, hm0s⟩ := h.msg_st x (hsup x hx')
    refine ⟨h1, ?_⟩
    rw [hf]
    split
    · rename_i hxt
      rw [hxt, hn] at hm0
      cases hm0
      exact ⟨n', rfl, hstat.trans hm0s⟩
    · exact ⟨m0, hm0, hm0s⟩

/-- a waiting node `t` settles with status `st`; messages to all its successors are enqueued -/
theorem Graph.Aux.setStatus {g : Graph ι} {msgs : List (ι × ι × St)} {t : ι} {st : St} {n : Node ι}
    (h : g.Aux msgs) (hn : g.find? t = some n) (hw : n.status = .waiting) (hst : st ≠ .waiting) :
    Graph.Aux (g.setNode { n with status := st }) ((g.succs t).map (fun c => (c, t, st)) ++ msgs) := by
  have hnid : n.id = t := (Graph.find?_some hn).2
  have hf : ∀ x, (g.setNode { n with status := st }).find? x =
      if x = t then some { n with status := st } else g.find? x :=
    Graph.find?_replace (n' := { n with status := st }) hn hnid g.ready
  have hold : ∀ x m, (g.setNode { n with status := st }).find? x = some m →
      ∃ m0, g.find? x = some m0 ∧ m0.out = m.out ∧ m0.res = m.res ∧ m0.id = m.id ∧ (x ≠ t → m0 = m) ∧
        (x = t → m0 = n ∧ m.status = st) := by
    intro x m hm
    rw [hf] at hm
    split at hm
    · rename_i hxt
      cases hm
      exact ⟨n, hxt ▸ hn, rfl, rfl, rfl, fun h => absurd hxt h, fun _ => ⟨rfl, rfl⟩⟩
    · rename_i hxt
      exact ⟨m, hm, rfl, rfl, rfl, fun _ => rfl, fun h => absurd h hxt⟩
  constructor
  · rw [Graph.setNode_ids]; exact h.nodup
  · exact h.edges_nodup
  · intro e he
    rw [Graph.has_setNode, Graph.has_setNode]
    exact h.edge_nodes e he
  · intro x m hm
    rw [hf] at hm
    split at hm
    · cases hm
      have h0 := h.node_ok t n hn
      exact ⟨h0.out_edge, h0.res_edge, h0.out_nodup, h0.or_obviated, h0.or_unique, h0.or_excl, h0.disj,
        fun e he he2 hand h1 h2 => absurd ((h0.and_s e he he2 hand h1 h2).symm.trans hw) (by decide),
        fun hex hall => absurd ((h0.or_s hex hall).symm.trans hw) (by decide)⟩
    · exact h.node_ok x m hm
  · intro e he m k hm hk hmw
    obtain ⟨m0, hm0, _, _, _, hmne, hmeq⟩ := hold _ _ hm
    obtain ⟨k0, hk0, hko, _, _, _, _⟩ := hold _ _ hk
    by_cases hmt : e.1 = t
    · exact absurd ((hmeq hmt).2.symm.trans hmw) hst
    · rw [← hko]
      exact h.e_wait e he m0 k0 hm0 hk0 (by rw [hmne hmt]; exact hmw)
  · intro e he m k hm hk hmw hin
    obtain ⟨m0, hm0, _, _, _, hmne, hmeq⟩ := hold _ _ hm
    obtain ⟨k0, hk0, hko, _, _, _, _⟩ := hold _ _ hk
    by_cases hmt : e.1 = t
    · rw [(hmeq hmt).2, hmt]
      refine List.mem_append_left _ (List.mem_map.2 ⟨e.2.1, Graph.mem_succs.2 ⟨e.2.2, ?_⟩, rfl⟩)
      rw [← hmt]; exact he
    · have := hmne hmt
      subst this
      rw [← hko] at hin
      exact List.mem_append_right _ (h.e_pend e he m0 k0 hm0 hk0 hmw hin)
  · intro e he m k hm hk hnin
    obtain ⟨m0, hm0, _, _, _, hmne, hmeq⟩ := hold _ _ hm
    obtain ⟨k0, hk0, hko, hkr, _, _, _⟩ := hold _ _ hk
    rw [← hko] at hnin
    by_cases hmt : e.1 = t
    · obtain ⟨rfl, _⟩ := hmeq hmt
      exact absurd (h.e_wait e he m0 k0 hm0 hk0 hw) hnin
    · have := hmne hmt
      subst this
      rw [← hkr]
      exact h.e_done e he m0 k0 hm0 hk0 hnin
  · intro id hid
    obtain ⟨k, hk, hc⟩ := h.ready_ok id hid
    rw [hf]
    split
    · rename_i hidt
      rw [hidt, hn] at hk
      cases hk
      refine ⟨_, rfl, Or.inr ?_⟩
      rcases hc with hc | hc
      · rw [hw] at hc; cases hc
      · exact hc
    · exact ⟨k, hk, hc⟩
  · intro x hx
    rcases List.mem_append.1 hx with hx | hx
    · obtain ⟨c, _, rfl⟩ := List.mem_map.1 hx
      refine ⟨hst, ?_⟩
      rw [hf]
      simp
    · obtain ⟨h1, m0, hm0, hm0s⟩ := h.msg_st x hx
      refine ⟨h1, ?_⟩
      rw [hf]
      split
      · rename_i hxt
        rw [hxt, hn] at hm0
        cases hm0
        exact absurd (hm0s.symm.trans hw) h1
      · exact ⟨m0, hm0, hm0s⟩

theorem Graph.Inv.toAux {g : Graph ι} (h : g.Inv) : g.Aux [] := by
  -- the status of the source of an edge, read off the lists of the target
  have hsrc : ∀ e ∈ g.edges, ∀ m n, g.find? e.1 = some m → g.find? e.2.1 = some n →
      ((m.status = St.waiting ∧ e.1 ∈ keys n.out ∧ e.1 ∉ keys n.res) ∨
       (m.status = St.resolved ∧ e.1 ∉ keys n.out ∧ e.1 ∈ keys n.res) ∨
       (m.status = St.unres ∧ e.1 ∉ keys n.out ∧ e.1 ∉ keys n.res)) := by
    intro e he m n hm hn
    obtain ⟨m', n', hm', hn', hc⟩ := h.src_cases he
    rw [hm] at hm'; cases hm'
    rw [hn] at hn'; cases hn'
    exact hc
  constructor
  · exact h.nodup
  · exact h.edges_nodup
  · exact h.edge_nodes
  · intro x n hn
    obtain ⟨hnm, hnid⟩ := Graph.find?_some hn
    have hfn : g.find? n.id = some n := hnid ▸ hn
    have hedge : ∀ e ∈ g.edges, e.2.1 = n.id → ∃ m, g.find? e.1 = some m ∧
        ((m.status = St.waiting ∧ e.1 ∈ keys n.out ∧ e.1 ∉ keys n.res) ∨
         (m.status = St.resolved ∧ e.1 ∉ keys n.out ∧ e.1 ∈ keys n.res) ∨
         (m.status = St.unres ∧ e.1 ∉ keys n.out ∧ e.1 ∉ keys n.res)) := by
      intro e he he2
      obtain ⟨m, hm⟩ := Graph.has_iff.1 (h.edge_nodes e he).1
      exact ⟨m, hm, hsrc e he m n hm (he2 ▸ hfn)⟩
    constructor
    · exact h.out_edge n hnm
    · exact h.res_edge n hnm
    · exact h.out_nodup n hnm
    · exact h.or_obviated n hnm
    · exact h.or_unique n hnm
    · exact h.or_excl n hnm
    · intro a ha hr
      obtain ⟨p, hp, rfl⟩ := mem_keys.1 ha
      obtain ⟨d, hd, _⟩ := h.out_edge n hnm p hp
      obtain ⟨m, _, hc⟩ := hedge _ hd rfl
      rcases hc with ⟨_, _, h3⟩ | ⟨_, h2, _⟩ | ⟨_, h2, _⟩
      · exact h3 hr
      · exact h2 ha
      · exact h2 ha
    · intro e he he2 hand hout hres
      obtain ⟨m, hm, hc⟩ := hedge e he he2
      rcases hc with ⟨_, h2, _⟩ | ⟨_, _, h3⟩ | ⟨h1, _, _⟩
      · exact absurd h2 hout
      · exact absurd h3 hres
      · exact h.and_unres e he hand m n hm (he2 ▸ hfn) h1
    · intro hex hall
      refine h.or_unres n hnm hex ?_
      intro e he he2 hor m hm
      obtain ⟨m', hm', hc⟩ := hedge e he he2
      rw [hm] at hm'; cases hm'
      obtain ⟨hout, hres⟩ := hall e he he2 hor
      rcases hc with ⟨_, h2, _⟩ | ⟨_, _, h3⟩ | ⟨h1, _, _⟩
      · exact absurd h2 hout
      · exact absurd h3 hres
      · exact h1
  · intro e he m n hm hn hw
    exact (h.src_waiting e he m n hm hn hw).1
  · intro e he m n hm hn hw hin
    exfalso
    rcases hsrc e he m n hm hn with ⟨h1, _, _⟩ | ⟨_, h2, _⟩ | ⟨_, h2, _⟩
    · exact hw h1
    · exact h2 hin
    · exact h2 hin
  · intro e he m n hm hn hnin
    rcases hsrc e he m n hm hn with ⟨_, h2, _⟩ | ⟨h1, _, h3⟩ | ⟨h1, _, h3⟩
    · exact absurd h2 hnin
    · exact Or.inl ⟨h1, h3⟩
    · exact Or.inr ⟨h1, h3⟩
  · exact h.ready_ok
  · intro x hx; cases hx

theorem Graph.Aux.toInv {g : Graph ι} (h : g.Aux []) : g.Inv := by
  have hnode : ∀ n ∈ g.nodes, NodeOk g.edges n :=
    fun n hn => h.node_ok n.id n (Graph.find?_of_mem h.nodup hn)
  have hsrc : ∀ e ∈ g.edges, ∀ m n, g.find? e.1 = some m → g.find? e.2.1 = some n →
      ((m.status = St.waiting ∧ e.1 ∈ keys n.out ∧ e.1 ∉ keys n.res) ∨
       (m.status = St.resolved ∧ e.1 ∉ keys n.out ∧ e.1 ∈ keys n.res) ∨
       (m.status = St.unres ∧ e.1 ∉ keys n.out ∧ e.1 ∉ keys n.res)) := by
    intro e he m n hm hn
    by_cases hw : m.status = .waiting
    · have hin := h.e_wait e he m n hm hn hw
      exact Or.inl ⟨hw, hin, (h.node_ok _ n hn).disj _ hin⟩
    · have hnin : e.1 ∉ keys n.out := fun hin => by
        have := h.e_pend e he m n hm hn hw hin
        cases this
      rcases h.e_done e he m n hm hn hnin with ⟨h1, h2⟩ | ⟨h1, h2⟩
      · exact Or.inr (Or.inl ⟨h1, hnin, h2⟩)
      · exact Or.inr (Or.inr ⟨h1, hnin, h2⟩)
  constructor
  · exact h.nodup
  · exact h.edges_nodup
  · exact h.edge_nodes
  · exact fun n hn => (hnode n hn).out_edge
  · exact fun n hn => (hnode n hn).res_edge
  · exact fun n hn => (hnode n hn).out_nodup
  · intro e he m n hm hn hw
    rcases hsrc e he m n hm hn with ⟨_, h2, h3⟩ | ⟨h1, _, _⟩ | ⟨h1, _, _⟩
    · exact ⟨h2, h3⟩
    · rw [hw] at h1; cases h1
    · rw [hw] at h1; cases h1
  · intro e he m n hm hn hw
    rcases hsrc e he m n hm hn with ⟨h1, _, _⟩ | ⟨_, h2, h3⟩ | ⟨h1, _, _⟩
    · rw [hw] at h1; cases h1
    · exact ⟨h2, h3⟩
    · rw [hw] at h1; cases h1
  · intro e he m n hm hn hw
    rcases hsrc e he m n hm hn with ⟨h1, _, _⟩ | ⟨h1, _, _⟩ | ⟨_, h2, h3⟩
    · rw [hw] at h1; cases h1
    · rw [hw] at h1; cases h1
    · exact ⟨h2, h3⟩
  · intro e he hand m n hm hn hu
    rcases hsrc e he m n hm hn with ⟨h1, _, _⟩ | ⟨h1, _, _⟩ | ⟨_, h2, h3⟩
    · rw [hu] at h1; cases h1
    · rw [hu] at h1; cases h1
    · exact (h.node_ok _ n hn).and_s e he (Graph.find?_some hn).2.symm hand h2 h3
  · intro n hn hex hall
    refine (hnode n hn).or_s hex ?_
    intro e he he2 hor
    obtain ⟨m, hm⟩ := Graph.has_iff.1 (h.edge_nodes e he).1
    have hu := hall e he he2 hor m hm
    rcases hsrc e he m n hm (he2 ▸ Graph.find?_of_mem h.nodup hn) with ⟨h1, _, _⟩ | ⟨h1, _, _⟩ | ⟨_, h2, h3⟩
    · rw [hu] at h1; cases h1
    · rw [hu] at h1; cases h1
    · exact ⟨h2, h3⟩
  · exact fun n hn => (hnode n hn).or_obviated
  · exact fun n hn => (hnode n hn).or_unique
  · exact fun n hn => (hnode n hn).or_excl
  · exact h.ready_ok

/-- handling the head message preserves the auxiliary invariant (with the successors' messages enqueued if the
target newly turned unresolvable) -/
theorem Graph.Aux.depResolved {g g1 : Graph ι} {t s : ι} {st : St} {turned : Bool} {rest : List (ι × ι × St)}
    (h : g.Aux ((t, s, st) :: rest)) (hd : g.depResolved t s st = .ok (g1, turned)) :
    g1.Aux ((if turned then (g1.succs t).map (fun c => (c, t, St.unres)) else []) ++ rest) := by
  obtain ⟨n, dt, n', r', hn, hst, hdt, rfl, hstep⟩ := Graph.depResolved_ok hd
  have hs : (s, dt) ∈ n.out := alookup_some_mem hdt
  have hsk : s ∈ keys n.out := mem_keys_of_mem hs
  obtain ⟨hid, hkeys, hres, hstatus⟩ := hstep.facts
  have hnid : n.id = t := (Graph.find?_some hn).2
  have hok : NodeOk g.edges n' := hstep.nodeOk h.edges_nodup (h.node_ok t n hn) hs hst
  have hout : ∀ a, a ∈ keys n'.out ↔ a ∈ keys n.out ∧ a ≠ s := by
    intro a; rw [hkeys, mem_keys_aerase]
  have hres' : ∀ a, a ∈ keys n'.res ↔ a ∈ keys n.res ∨ (st = .resolved ∧ a = s) := by
    intro a
    rw [hres]
    split
    · rename_i hr
      simp [keys, hr]
    · rename_i hr
      simp [hr]
  have hready : ∀ id ∈ r', (id ≠ t ∧ id ∈ g.ready) ∨
      (id = t ∧ (n'.status = .unres ∨ ∀ p ∈ n'.out, p.2.hard = false)) := by
    have := hstep.ready hs (by
      intro hr
      obtain ⟨k, hk, hc⟩ := h.ready_ok _ hr
      rw [hnid, hn] at hk
      cases hk
      exact hc)
    rw [hnid] at this
    exact this
  rcases hstatus with ⟨rfl, hstat⟩ | ⟨rfl, hw, hu⟩
  · simp only [Bool.false_eq_true, ↓reduceIte, List.nil_append]
    refine h.step List.mem_cons_self hn (hid.trans hnid) hsk hok hout hres' hstat hready ?_ ?_
    · intro x hx
      rcases List.mem_cons.1 hx with hx | hx
      · exact Or.inl hx
      · exact Or.inr hx
    · exact fun x hx => List.mem_cons_of_mem _ hx
  · simp only [↓reduceIte]
    have ha := h.setStatus hn hw (st := .unres) (by decide)
    have hna : (g.setNode { n with status := .unres }).find? t = some { n with status := .unres } := by
      have := Graph.find?_replace (n' := { n with status := .unres }) hn hnid g.ready t
      rw [if_pos rfl] at this
      exact this
    have := ha.step (msgs' := (g.succs t).map (fun c => (c, t, St.unres)) ++ rest) (t := t) (s := s) (st := st)
      (n' := n') (r' := r')
      (List.mem_append_right _ List.mem_cons_self) hna (hid.trans hnid) hsk hok hout hres' hu hready
      (by
        intro x hx
        rcases List.mem_append.1 hx with hx | hx
        · exact Or.inr (List.mem_append_left _ hx)
        · rcases List.mem_cons.1 hx with hx | hx
          · exact Or.inl hx
          · exact Or.inr (List.mem_append_right _ hx))
      (by
        intro x hx
        rcases List.mem_append.1 hx with hx | hx
        · exact List.mem_append_left _ hx
        · exact List.mem_append_right _ (List.mem_cons_of_mem _ hx))
    rw [Graph.setNode_setNode g _ n' (by simp [hid])] at this
    exact this

theorem Graph.Aux.propagate (f : Nat) {g g' : Graph ι} {msgs : List (ι × ι × St)} (h : g.Aux msgs)
    (hp : Graph.propagate f g msgs = .ok g') : g'.Aux [] := by
  induction f generalizing g msgs with
  | zero =>
    cases msgs with
    | nil => simp only [Graph.propagate, Except.ok.injEq] at hp; subst hp; exact h
    | cons x rest => simp [Graph.propagate] at hp
  | succ f ih =>
    cases msgs with
    | nil => simp only [Graph.propagate, Except.ok.injEq] at hp; subst hp; exact h
    | cons x rest =>
      obtain ⟨tgt, src, st⟩ := x
      simp only [Graph.propagate] at hp
      split at hp
      · cases hp
      · rename_i g1 turned hd
        exact ih (h.depResolved hd) hp

/-! ## Preservation -/

theorem Graph.inv_empty : (Graph.empty : Graph ι).Inv := by
  constructor <;> simp [Graph.empty]

/-- adding a node to a graph in which nothing has been resolved yet -/
theorem Graph.inv_addNode (g g' : Graph ι) (id : ι) (h : g.Inv) (hok : g.addNode id = .ok g') : g'.Inv := by
  unfold Graph.addNode at hok
  split at hok
  · cases hok
  rename_i hhas
  simp only [Except.ok.injEq] at hok
  subst hok
  have hnone : g.find? id = none := Graph.has_false_iff.1 (by simpa using hhas)
  -- lookups in the extended graph
  have hf1 : ∀ x m, g.find? x = some m →
      Graph.find? { g with nodes := g.nodes ++ [⟨id, .waiting, [], []⟩] } x = some m := by
    intro x m hm
    unfold Graph.find? at hm ⊢
    simp only [List.find?_append, hm, Option.some_or]
  have hf2 : ∀ x m, Graph.find? { g with nodes := g.nodes ++ [⟨id, .waiting, [], []⟩] } x = some m →
      g.has x = true → g.find? x = some m := by
    intro x m hm hx
    obtain ⟨m', hm'⟩ := Graph.has_iff.1 hx
    rw [hf1 x m' hm'] at hm
    rw [← hm]; exact hm'
  have hhas' : ∀ x, g.has x = true → Graph.has { g with nodes := g.nodes ++ [⟨id, .waiting, [], []⟩] } x = true := by
    intro x hx
    obtain ⟨m', hm'⟩ := Graph.has_iff.1 hx
    exact Graph.has_iff.2 ⟨m', hf1 x m' hm'⟩
  have hmem : ∀ n, n ∈ g.nodes ++ [(⟨id, .waiting, [], []⟩ : Node ι)] → n ∈ g.nodes ∨ n = ⟨id, .waiting, [], []⟩ := by
    intro n hn
    simpa using hn
  have hnoedge : ∀ e ∈ g.edges, e.2.1 ≠ id := by
    intro e he heq
    have := (h.edge_nodes e he).2
    rw [heq] at this
    rw [Graph.has_false_iff.2 hnone] at this
    cases this
  constructor
  · show ((g.nodes ++ [(⟨id, .waiting, [], []⟩ : Node ι)]).map (·.id)).Nodup
    rw [List.map_append, List.nodup_append]
    refine ⟨h.nodup, by simp, ?_⟩
    intro a ha b hb
    simp only [List.map_cons, List.map_nil, List.mem_singleton] at hb
    subst hb
    rintro rfl
    exact Graph.find?_none_iff.1 hnone ha
  · exact h.edges_nodup
  · intro e he
    exact ⟨hhas' _ (h.edge_nodes e he).1, hhas' _ (h.edge_nodes e he).2⟩
  · intro n hn
    rcases hmem n hn with hn | rfl
    · exact h.out_edge n hn
    · simp
  · intro n hn
    rcases hmem n hn with hn | rfl
    · exact h.res_edge n hn
    · simp
  · intro n hn
    rcases hmem n hn with hn | rfl
    · exact h.out_nodup n hn
    · simp [keys]
  · intro e he m n hm hn
    exact h.src_waiting e he m n (hf2 _ _ hm (h.edge_nodes e he).1) (hf2 _ _ hn (h.edge_nodes e he).2)
  · intro e he m n hm hn
    exact h.src_resolved e he m n (hf2 _ _ hm (h.edge_nodes e he).1) (hf2 _ _ hn (h.edge_nodes e he).2)
  · intro e he m n hm hn
    exact h.src_unres e he m n (hf2 _ _ hm (h.edge_nodes e he).1) (hf2 _ _ hn (h.edge_nodes e he).2)
  · intro e he hand m n hm hn
    exact h.and_unres e he hand m n (hf2 _ _ hm (h.edge_nodes e he).1) (hf2 _ _ hn (h.edge_nodes e he).2)
  · intro n hn hex hall
    rcases hmem n hn with hn | rfl
    · refine h.or_unres n hn hex ?_
      intro e he he2 hor m hm
      exact hall e he he2 hor m (hf1 _ _ hm)
    · obtain ⟨e, he, he2, _⟩ := hex
      exact absurd he2 (hnoedge e he)
  · intro n hn
    rcases hmem n hn with hn | rfl
    · exact h.or_obviated n hn
    · simp
  · intro n hn
    rcases hmem n hn with hn | rfl
    · exact h.or_unique n hn
    · simp
  · intro n hn
    rcases hmem n hn with hn | rfl
    · exact h.or_excl n hn
    · simp
  · intro id' hid'
    obtain ⟨n, hn, hc⟩ := h.ready_ok id' hid'
    exact ⟨n, hf1 _ _ hn, hc⟩

/--
connecting two nodes while every node is still waiting (the engine connects only while preparing).

CORRECTED STATEMENT: the hypothesis `hr` was added.  Without it the statement is false
(`Graph.inv_connect_needs_ready` below): if the target is already in the ready set (e.g. after `pushStarting`) and the
new dependency is a hard one, `ready_ok` fails for the result.  The engine only connects before the first
`PushStartingNodes`, when the ready set is empty, so `hr` is discharged by `g.ready = []`; `Graph.connect_ready` shows
that `connect` leaves the ready set alone.
-/
theorem Graph.inv_connect (g g' : Graph ι) (src dst : ι) (d : Dep) (h : g.Inv)
    (hw : ∀ n ∈ g.nodes, n.status = St.waiting ∧ n.res = [])
    (hr : dst ∈ g.ready → d.hard = false)
    (hok : g.connect src dst d = .ok g') : g'.Inv ∧ (∀ n ∈ g'.nodes, n.status = St.waiting ∧ n.res = []) := by
  unfold Graph.connect at hok
  split at hok
  · cases hok
  · cases hok
  rename_i ms n hms hn
  split at hok
  · cases hok
  rename_i hne
  split at hok
  · cases hok
  rename_i hnoedge
  simp only [Except.ok.injEq] at hok
  have hnoedge : ∀ d', (src, dst, d') ∉ g.edges := by
    intro d' hd'
    exact hnoedge (Graph.hasEdge_iff.2 ⟨d', hd'⟩)
  obtain ⟨hnmem, hnid⟩ := Graph.find?_some hn
  obtain ⟨hnw, hnres⟩ := hw n hnmem
  generalize hn'def : ({ n with out := n.out ++ [(src, d)] } : Node ι) = n' at hok
  have hn'id : n'.id = dst := by rw [← hn'def]; exact hnid
  have hn'st : n'.status = St.waiting := by rw [← hn'def]; exact hnw
  have hn'res : n'.res = [] := by rw [← hn'def]; exact hnres
  have hn'out : n'.out = n.out ++ [(src, d)] := by rw [← hn'def]
  have hsrcout : src ∉ keys n.out := by
    intro hk
    obtain ⟨p, hp, hp1⟩ := mem_keys.1 hk
    obtain ⟨d', hd', _⟩ := h.out_edge n hnmem p hp
    rw [hp1, hnid] at hd'
    exact hnoedge d' hd'
  have hE : ∀ e, e ∈ g'.edges ↔ e ∈ g.edges ∨ e = (src, dst, d) := by
    intro e; rw [← hok]; simp [Graph.setNode]
  have hfind_dst : g'.find? dst = some n' := by
    rw [← hok, ← hn'id]
    exact Graph.find?_setNode_self (g := { g with edges := g.edges ++ [(src, dst, d)] }) (hn'id ▸ hn)
  have hfind_ne : ∀ x, x ≠ dst → g'.find? x = g.find? x := by
    intro x hx
    rw [← hok]
    exact Graph.find?_setNode_ne (g := { g with edges := g.edges ++ [(src, dst, d)] }) (hn'id ▸ hx)
  have hhas : ∀ x, g'.has x = g.has x := by
    intro x; rw [← hok]
    exact Graph.has_setNode { g with edges := g.edges ++ [(src, dst, d)] } n' x
  have hmem : ∀ m ∈ g'.nodes, (m ∈ g.nodes ∧ m.id ≠ dst) ∨ m = n' := by
    intro m hm
    rw [← hok] at hm
    have := Graph.mem_setNode (g := { g with edges := g.edges ++ [(src, dst, d)] }) hm
    rwa [hn'id] at this
  have hall : ∀ m ∈ g'.nodes, m.status = St.waiting ∧ m.res = [] := by
    intro m hm
    rcases hmem m hm with ⟨hm, _⟩ | rfl
    · exact hw m hm
    · exact ⟨hn'st, hn'res⟩
  have hfw : ∀ x m, g'.find? x = some m → m.status = St.waiting ∧ m.res = [] :=
    fun x m hm => hall m (Graph.find?_some hm).1
  have hnodup : (g'.nodes.map (·.id)).Nodup := by
    rw [← hok, Graph.setNode_ids]; exact h.nodup
  have hen : ∀ e ∈ g'.edges, g'.has e.1 = true ∧ g'.has e.2.1 = true := by
    intro e he
    rw [hhas, hhas]
    rcases (hE e).1 he with he | rfl
    · exact h.edge_nodes e he
    · exact ⟨Graph.has_iff.2 ⟨ms, hms⟩, Graph.has_iff.2 ⟨n, hn⟩⟩
  refine ⟨?_, hall⟩
  constructor
  · exact hnodup
  · rw [← hok]
    show ((g.edges ++ [(src, dst, d)]).map (fun e => (e.1, e.2.1))).Nodup
    rw [List.map_append, List.nodup_append]
    refine ⟨h.edges_nodup, by simp, ?_⟩
    intro a ha b hb
    simp only [List.map_cons, List.map_nil, List.mem_singleton] at hb
    subst hb
    rintro rfl
    simp only [List.mem_map] at ha
    obtain ⟨⟨x, y, d'⟩, he, heq⟩ := ha
    simp only [Prod.mk.injEq] at heq
    obtain ⟨rfl, rfl⟩ := heq
    exact hnoedge d' he
  · exact hen
  · intro m hm p hp
    rcases hmem m hm with ⟨hm, _⟩ | rfl
    · obtain ⟨d', hd', hok'⟩ := h.out_edge m hm p hp
      exact ⟨d', (hE _).2 (Or.inl hd'), hok'⟩
    · rw [hn'out] at hp
      rcases List.mem_append.1 hp with hp | hp
      · obtain ⟨d', hd', hok'⟩ := h.out_edge n hnmem p hp
        rw [hn'id, ← hnid]
        exact ⟨d', (hE _).2 (Or.inl hd'), hok'⟩
      · simp only [List.mem_singleton] at hp
        subst hp
        exact ⟨d, (hE _).2 (Or.inr (by rw [hn'id])), Or.inl rfl⟩
  · intro m hm p hp
    rw [(hall m hm).2] at hp
    cases hp
  · intro m hm
    rcases hmem m hm with ⟨hm, _⟩ | rfl
    · exact h.out_nodup m hm
    · rw [hn'out, keys_append, List.nodup_append]
      refine ⟨h.out_nodup n hnmem, by simp [keys], ?_⟩
      intro a ha b hb
      simp only [keys, List.map_cons, List.map_nil, List.mem_singleton] at hb
      subst hb
      rintro rfl
      exact hsrcout ha
  · intro e he m k hm hk hmw
    refine ⟨?_, by rw [(hfw _ _ hk).2]; simp [keys]⟩
    rcases (hE e).1 he with he | rfl
    · -- an old edge
      obtain ⟨hs1, hs2⟩ := h.edge_nodes e he
      obtain ⟨m0, hm0⟩ := Graph.has_iff.1 hs1
      obtain ⟨k0, hk0⟩ := Graph.has_iff.1 hs2
      have hin := (h.src_waiting e he m0 k0 hm0 hk0 (hw m0 (Graph.find?_some hm0).1).1).1
      by_cases hd : e.2.1 = dst
      · rw [hd] at hk hk0
        rw [hfind_dst] at hk; cases hk
        rw [hn] at hk0; cases hk0
        rw [hn'out, keys_append]
        exact List.mem_append_left _ hin
      · rw [hfind_ne _ hd, hk0] at hk; cases hk
        exact hin
    · simp only at hk ⊢
      rw [hfind_dst] at hk; cases hk
      rw [hn'out, keys_append]
      exact List.mem_append_right _ (by simp [keys])
  · intro e he m k hm hk hmr
    rw [(hfw _ _ hm).1] at hmr; cases hmr
  · intro e he m k hm hk hmr
    rw [(hfw _ _ hm).1] at hmr; cases hmr
  · intro e he _ m k hm hk hmr
    rw [(hfw _ _ hm).1] at hmr; cases hmr
  · intro m hm hex hallu
    obtain ⟨e, he, he2, hor⟩ := hex
    obtain ⟨m0, hm0⟩ := Graph.has_iff.1 (hen e he).1
    have := hallu e he he2 hor m0 hm0
    rw [(hfw _ _ hm0).1] at this; cases this
  · intro m hm p hp hobv hex
    exfalso
    rw [(hall m hm).2, List.append_nil] at hp
    obtain ⟨d', hd', rfl⟩ := hex
    rcases hmem m hm with ⟨hm0, hmd⟩ | rfl
    · rcases (hE _).1 hd' with hd' | hd'
      · obtain ⟨q, hq, _⟩ := h.or_obviated m hm0 p (List.mem_append_left _ hp) hobv ⟨_, hd', rfl⟩
        rw [(hw m hm0).2] at hq; cases hq
      · simp only [Prod.mk.injEq] at hd'
        exact hmd hd'.2.1
    · rw [hn'out] at hp
      rcases List.mem_append.1 hp with hp | hp
      · rcases (hE _).1 hd' with hd' | hd'
        · rw [hn'id, ← hnid] at hd'
          obtain ⟨q, hq, _⟩ := h.or_obviated n hnmem p (List.mem_append_left _ hp) hobv ⟨_, hd', rfl⟩
          rw [hnres] at hq; cases hq
        · simp only [Prod.mk.injEq] at hd'
          exact hsrcout (hd'.1 ▸ mem_keys_of_mem hp)
      · simp only [List.mem_singleton] at hp
        subst hp
        rcases (hE _).1 hd' with hd' | hd'
        · rw [hn'id] at hd'
          exact hnoedge _ hd'
        · simp only [Prod.mk.injEq] at hd'
          simp only at hobv
          rw [hobv] at hd'
          exact absurd hd'.2.2 (by decide)
  · intro m hm
    rw [(hall m hm).2]; simp
  · intro m hm hex
    obtain ⟨q, hq, _⟩ := hex
    rw [(hall m hm).2] at hq; cases hq
  · intro id hid
    have hid' : id ∈ g.ready := by rw [← hok] at hid; exact hid
    obtain ⟨k, hk, hc⟩ := h.ready_ok id hid'
    have hsoft : ∀ p ∈ k.out, p.2.hard = false := by
      rcases hc with hc | hc
      · rw [(hw k (Graph.find?_some hk).1).1] at hc; cases hc
      · exact hc
    by_cases hd : id = dst
    · subst hd
      rw [hn] at hk; cases hk
      refine ⟨n', hfind_dst, Or.inr ?_⟩
      intro p hp
      rw [hn'out] at hp
      rcases List.mem_append.1 hp with hp | hp
      · exact hsoft p hp
      · simp only [List.mem_singleton] at hp
        subst hp
        exact hr hid'
    · exact ⟨k, by rw [hfind_ne _ hd]; exact hk, Or.inr hsoft⟩

theorem Graph.connect_ready (g g' : Graph ι) (src dst : ι) (d : Dep) (hok : g.connect src dst d = .ok g') :
    g'.ready = g.ready := by
  unfold Graph.connect at hok
  split at hok
  · cases hok
  · cases hok
  split at hok
  · cases hok
  split at hok
  · cases hok
  simp only [Except.ok.injEq] at hok
  rw [← hok]; rfl

/-- counterexample to the original statement of `inv_connect`: two waiting nodes, node `1` already ready -/
def cexConnect : Graph Nat := ⟨[⟨0, .waiting, [], []⟩, ⟨1, .waiting, [], []⟩], [], [1]⟩

theorem cexConnect_inv : cexConnect.Inv := by
  constructor <;> simp [cexConnect, Graph.find?, keys]

/-- `inv_connect` without a hypothesis on the ready set is false: the target may already be ready -/
theorem Graph.inv_connect_needs_ready :
    ¬ (∀ (g g' : Graph Nat) (src dst : Nat) (d : Dep), g.Inv →
        (∀ n ∈ g.nodes, n.status = St.waiting ∧ n.res = []) → g.connect src dst d = .ok g' →
        g'.Inv ∧ (∀ n ∈ g'.nodes, n.status = St.waiting ∧ n.res = [])) := by
  intro H
  have hc : cexConnect.connect 0 1 .and =
      .ok ⟨[⟨0, .waiting, [], []⟩, ⟨1, .waiting, [(0, .and)], []⟩], [(0, 1, .and)], [1]⟩ := by
    rfl
  obtain ⟨hinv, _⟩ := H _ _ 0 1 .and cexConnect_inv (by simp [cexConnect]) hc
  obtain ⟨n, hn, hcase⟩ := hinv.ready_ok 1 (by simp)
  simp [Graph.find?] at hn
  subst hn
  simp [Dep.hard] at hcase

theorem Graph.inv_clone (g : Graph ι) (h : g.Inv) : g.clone.Inv := by
  obtain ⟨h1,h2,h3,h4,h5,h6,h7,h8,h9,h10,h11,h12,h13,h14,h15⟩ := h
  exact ⟨h1,h2,h3,h4,h5,h6,h7,h8,h9,h10,h11,h12,h13,h14, by simp [Graph.clone]⟩

theorem Graph.inv_pushStarting (g : Graph ι) (h : g.Inv) : g.pushStarting.Inv := by
  have hr : ∀ id ∈ g.pushStarting.ready, ∃ n, g.find? id = some n ∧
      (n.status = St.unres ∨ ∀ p ∈ n.out, p.2.hard = false) := by
    intro id hid
    rcases mem_foldl_insertSet hid with hid | ⟨n, hn, rfl⟩
    · exact h.ready_ok id hid
    · simp only [List.mem_filter, Bool.not_eq_eq_eq_not, Bool.not_true, List.any_eq_false] at hn
      exact ⟨n, Graph.find?_of_mem h.nodup hn.1, Or.inr (by simpa using hn.2)⟩
  obtain ⟨h1,h2,h3,h4,h5,h6,h7,h8,h9,h10,h11,h12,h13,h14,h15⟩ := h
  exact ⟨h1,h2,h3,h4,h5,h6,h7,h8,h9,h10,h11,h12,h13,h14, hr⟩

theorem Graph.inv_popReady (g : Graph ι) (h : g.Inv) : g.popReady.2.Inv := by
  obtain ⟨h1,h2,h3,h4,h5,h6,h7,h8,h9,h10,h11,h12,h13,h14,h15⟩ := h
  exact ⟨h1,h2,h3,h4,h5,h6,h7,h8,h9,h10,h11,h12,h13,h14, by simp [Graph.popReady]⟩

/-- the central lemma: a successful explicit resolution (with all its propagation) preserves the invariant -/
theorem Graph.inv_resolve (g g' : Graph ι) (id : ι) (st : St) (h : g.Inv) (hok : g.resolve id st = .ok g') :
    g'.Inv := by
  unfold Graph.resolve at hok
  split at hok
  · cases hok
  rename_i n hn
  split at hok
  · cases hok
  · split at hok
    · cases hok; exact h
    · cases hok
  · rename_i hw
    split at hok
    · cases hok; exact h
    · rename_i hst
      have ha := h.toAux.setStatus hn hw hst
      rw [List.append_nil] at ha
      exact (ha.propagate _ hok).toInv

/-- statuses only ever leave `waiting`: a successful resolution never changes a non-waiting status -/
theorem Graph.resolve_status_mono (g g' : Graph ι) (id x : ι) (st : St) (n : Node ι)
    (h : g.Inv) (hok : g.resolve id st = .ok g') (hn : g.find? x = some n) (hs : n.status ≠ St.waiting) :
    ∃ n', g'.find? x = some n' ∧ n'.status = n.status := by
  have _ := h
  unfold Graph.resolve at hok
  split at hok
  · cases hok
  rename_i m hm
  split at hok
  · cases hok
  · split at hok
    · cases hok; exact ⟨n, hn, rfl⟩
    · cases hok
  · rename_i hmw
    split at hok
    · cases hok; exact ⟨n, hn, rfl⟩
    · have hmid := (Graph.find?_some hm).2
      have hx : x ≠ id := by
        rintro rfl
        rw [hm] at hn; cases hn
        exact hs hmw
      refine Graph.propagate_status _ hok (n := n) ?_ hs
      rw [Graph.find?_setNode_ne (by simpa [hmid] using hx)]
      exact hn

/-- a successful resolution adds/removes no nodes and no edges -/
theorem Graph.resolve_frame (g g' : Graph ι) (id : ι) (st : St) (hok : g.resolve id st = .ok g') :
    g'.edges = g.edges ∧ g'.nodes.map (·.id) = g.nodes.map (·.id) := by
  unfold Graph.resolve at hok
  split at hok
  · cases hok
  rename_i n hn
  split at hok
  · cases hok
  · split at hok
    · cases hok; exact ⟨rfl, rfl⟩
    · cases hok
  · split at hok
    · cases hok; exact ⟨rfl, rfl⟩
    · obtain ⟨h1, h2⟩ := Graph.propagate_frame _ hok
      exact ⟨h1, h2.trans (Graph.setNode_ids g _)⟩

/-! ## What "ready" means -/

/--
`ready_sound`: a node that is in the ready set and is not unresolvable has
* every `and` predecessor resolved (and recorded in `res`),
* every `completion-and` predecessor settled one way or the other,
* if it has `or` predecessors: a resolved one recorded in `res` with type `or`.
-/
theorem Graph.ready_sound (g : Graph ι) (h : g.Inv) (id : ι) (n : Node ι)
    (hr : id ∈ g.ready) (hn : g.find? id = some n) (hs : n.status ≠ St.unres) :
    (∀ e ∈ g.edges, e.2.1 = id → e.2.2 = Dep.and → ∀ m, g.find? e.1 = some m →
        m.status = St.resolved ∧ e.1 ∈ keys n.res) ∧
    (∀ e ∈ g.edges, e.2.1 = id → e.2.2 = Dep.cand → ∀ m, g.find? e.1 = some m → m.status ≠ St.waiting) ∧
    ((∃ e ∈ g.edges, e.2.1 = id ∧ e.2.2 = Dep.or) →
        ∃ q ∈ n.res, q.2 = Dep.or ∧ ∃ m, g.find? q.1 = some m ∧ m.status = St.resolved) := by
  obtain ⟨hnm, hid⟩ := Graph.find?_some hn
  have hnh : ∀ p ∈ n.out, p.2.hard = false := by
    obtain ⟨n', hn', hc⟩ := h.ready_ok id hr
    rw [hn] at hn'
    cases hn'
    exact hc.resolve_left hs
  -- the entry for an outstanding / resolved edge
  have hout := fun (e : ι × ι × Dep) (he : e ∈ g.edges) (he2 : e.2.1 = id) (hk : e.1 ∈ keys n.out) =>
    entry_type h.edges_nodup (h.out_edge n hnm) he (he2.trans hid.symm) hk
  have hres := fun (e : ι × ι × Dep) (he : e ∈ g.edges) (he2 : e.2.1 = id) (hk : e.1 ∈ keys n.res) =>
    entry_type h.edges_nodup (h.res_edge n hnm) he (he2.trans hid.symm) hk
  have hsrc : ∀ e ∈ g.edges, e.2.1 = id → ∀ m, g.find? e.1 = some m →
      ((m.status = St.waiting ∧ e.1 ∈ keys n.out ∧ e.1 ∉ keys n.res) ∨
       (m.status = St.resolved ∧ e.1 ∉ keys n.out ∧ e.1 ∈ keys n.res) ∨
       (m.status = St.unres ∧ e.1 ∉ keys n.out ∧ e.1 ∉ keys n.res)) := by
    intro e he he2 m hm
    obtain ⟨m', n', hm', hn', hc⟩ := h.src_cases he
    rw [hm] at hm'; cases hm'
    rw [he2, hn] at hn'; cases hn'
    exact hc
  refine ⟨?_, ?_, ?_⟩
  · intro e he he2 hand m hm
    rcases hsrc e he he2 m hm with ⟨_, hk, _⟩ | ⟨h1, _, h3⟩ | ⟨h1, _, _⟩
    · obtain ⟨p, hp, _, hok⟩ := hout e he he2 hk
      rw [hand] at hok
      have := hnh p hp
      rw [entryOk_and hok] at this
      simp [Dep.hard] at this
    · exact ⟨h1, h3⟩
    · exact absurd (h.and_unres e he hand m n hm (he2 ▸ hn) h1) hs
  · intro e he he2 hc m hm hw
    rcases hsrc e he he2 m hm with ⟨_, hk, _⟩ | ⟨h1, _, _⟩ | ⟨h1, _, _⟩
    · obtain ⟨p, hp, _, hok⟩ := hout e he he2 hk
      rw [hc] at hok
      have := hnh p hp
      rw [entryOk_cand hok] at this
      simp [Dep.hard] at this
    · rw [hw] at h1; cases h1
    · rw [hw] at h1; cases h1
  · intro hex
    have hq : ∃ q ∈ n.res, q.2 = Dep.or := by
      -- some member of the group is not unresolvable
      have : ¬ (∀ e ∈ g.edges, e.2.1 = n.id → e.2.2 = Dep.or → ∀ m, g.find? e.1 = some m → m.status = St.unres) := by
        intro hall
        exact hs (h.or_unres n hnm (by rw [hid]; exact hex) hall)
      simp only [Classical.not_forall] at this
      obtain ⟨e, he, he2, hor, m, hm, hmu⟩ := this
      rw [hid] at he2
      rcases hsrc e he he2 m hm with ⟨_, hk, _⟩ | ⟨_, _, hk⟩ | ⟨h1, _, _⟩
      · obtain ⟨p, hp, hpe, hok⟩ := hout e he he2 hk
        rw [hor] at hok
        rcases entryOk_or hok with h2 | h2
        · have := hnh p hp
          rw [h2] at this
          simp [Dep.hard] at this
        · refine h.or_obviated n hnm p (List.mem_append_left _ hp) h2 ⟨Dep.or, ?_, rfl⟩
          rw [hpe, hid, ← he2, ← hor]; exact he
      · obtain ⟨p, hp, hpe, hok⟩ := hres e he he2 hk
        rw [hor] at hok
        rcases entryOk_or hok with h2 | h2
        · exact ⟨p, hp, h2⟩
        · refine h.or_obviated n hnm p (List.mem_append_right _ hp) h2 ⟨Dep.or, ?_, rfl⟩
          rw [hpe, hid, ← he2, ← hor]; exact he
      · exact absurd h1 hmu
    obtain ⟨q, hq, hq2⟩ := hq
    exact ⟨q, hq, hq2, h.res_src_resolved hnm hq⟩

/-- an entry in `res` always names a resolved node (what `resolveOptionalExpression` relies on) -/
theorem Graph.res_resolved (g : Graph ι) (h : g.Inv) (n : Node ι) (hn : n ∈ g.nodes) (p : ι × Dep) (hp : p ∈ n.res) :
    ∃ m, g.find? p.1 = some m ∧ m.status = St.resolved := by
  exact h.res_src_resolved hn hp

/-! ## Why the field `or_excl` was added to `Graph.Inv`

The fields as originally listed are not inductive under `resolve`: `cexOr` below satisfies all of them, but resolving
its node `1` appends a second entry of type `or` to the `res` list of node `2`, which breaks `or_unique`.  (The state is
not reachable: when `0` was resolved, the entry of `1` would have been obviated; `or_excl` records exactly that.) -/

/-- the invariant as originally stated (without `or_excl`) -/
structure Graph.InvOrig {ι : Type} [DecidableEq ι] (g : Graph ι) : Prop where
  nodup : (g.nodes.map (·.id)).Nodup
  edges_nodup : (g.edges.map (fun e => (e.1, e.2.1))).Nodup
  edge_nodes : ∀ e ∈ g.edges, g.has e.1 = true ∧ g.has e.2.1 = true
  out_edge : ∀ n ∈ g.nodes, ∀ p ∈ n.out, ∃ d, (p.1, n.id, d) ∈ g.edges ∧ entryOk p.2 d
  res_edge : ∀ n ∈ g.nodes, ∀ p ∈ n.res, ∃ d, (p.1, n.id, d) ∈ g.edges ∧ entryOk p.2 d
  out_nodup : ∀ n ∈ g.nodes, (keys n.out).Nodup
  src_waiting : ∀ e ∈ g.edges, ∀ m n, g.find? e.1 = some m → g.find? e.2.1 = some n →
      m.status = St.waiting → e.1 ∈ keys n.out ∧ e.1 ∉ keys n.res
  src_resolved : ∀ e ∈ g.edges, ∀ m n, g.find? e.1 = some m → g.find? e.2.1 = some n →
      m.status = St.resolved → e.1 ∉ keys n.out ∧ e.1 ∈ keys n.res
  src_unres : ∀ e ∈ g.edges, ∀ m n, g.find? e.1 = some m → g.find? e.2.1 = some n →
      m.status = St.unres → e.1 ∉ keys n.out ∧ e.1 ∉ keys n.res
  and_unres : ∀ e ∈ g.edges, e.2.2 = Dep.and → ∀ m n, g.find? e.1 = some m → g.find? e.2.1 = some n →
      m.status = St.unres → n.status = St.unres
  or_unres : ∀ n ∈ g.nodes, (∃ e ∈ g.edges, e.2.1 = n.id ∧ e.2.2 = Dep.or) →
      (∀ e ∈ g.edges, e.2.1 = n.id → e.2.2 = Dep.or → ∀ m, g.find? e.1 = some m → m.status = St.unres) →
      n.status = St.unres
  or_obviated : ∀ n ∈ g.nodes, ∀ p ∈ n.out ++ n.res, p.2 = Dep.obv →
      (∃ d, (p.1, n.id, d) ∈ g.edges ∧ d = Dep.or) → ∃ q ∈ n.res, q.2 = Dep.or
  or_unique : ∀ n ∈ g.nodes, (n.res.filter (fun p => p.2 = Dep.or)).length ≤ 1
  ready_ok : ∀ id ∈ g.ready, ∃ n, g.find? id = some n ∧ (n.status = St.unres ∨ ∀ p ∈ n.out, p.2.hard = false)

def cexOr : Graph Nat :=
  ⟨[⟨0, .resolved, [], []⟩, ⟨1, .waiting, [], []⟩, ⟨2, .waiting, [(1, .or)], [(0, .or)]⟩],
   [(0, 2, .or), (1, 2, .or)], []⟩

theorem cexOr_invOrig : cexOr.InvOrig := by
  constructor <;> simp [cexOr, Graph.find?, Graph.has, keys, entryOk]

theorem cexOr_resolve : cexOr.resolve 1 .resolved = .ok
    ⟨[⟨0, .resolved, [], []⟩, ⟨1, .resolved, [], []⟩, ⟨2, .waiting, [], [(0, .or), (1, .or)]⟩],
     [(0, 2, .or), (1, 2, .or)], [2]⟩ := by rfl

theorem Graph.invOrig_not_inductive :
    ¬ (∀ (g g' : Graph Nat) (id : Nat) (st : St), g.InvOrig → g.resolve id st = .ok g' → g'.InvOrig) := by
  intro H
  have := (H _ _ _ _ cexOr_invOrig cexOr_resolve).or_unique ⟨2, .waiting, [], [(0, .or), (1, .or)]⟩ (by simp)
  simp at this

end Arca.Model
