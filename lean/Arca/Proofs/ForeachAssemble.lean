/-
Helper lemmas for C13: the result arrays of a completed pool, the output assembly, and the "run exactly once with its
own item" bookkeeping.
-/
import Arca.Proofs.ForeachProgress

namespace Arca.Model.ForeachPool

variable {α β : Type}

/-! ### the index map of a slice -/

theorem mem_indexedFrom {γ : Type} (l : List (Option γ)) (k i : Nat) (v : γ) :
    (i, v) ∈ indexedFrom k l ↔ k ≤ i ∧ l[i - k]? = some (some v) := by
  induction l generalizing k with
  | nil => simp [indexedFrom]
  | cons x l ih =>
    cases x with
    | none =>
      simp only [indexedFrom, ih]
      constructor
      · rintro ⟨h1, h2⟩
        refine ⟨by omega, ?_⟩
        have : i - k = (i - (k + 1)) + 1 := by omega
        rw [this, List.getElem?_cons_succ]; exact h2
      · rintro ⟨h1, h2⟩
        by_cases hik : i = k
        · subst hik; simp at h2
        · have : i - k = (i - (k + 1)) + 1 := by omega
          rw [this, List.getElem?_cons_succ] at h2
          exact ⟨by omega, h2⟩
    | some w =>
      simp only [indexedFrom, List.mem_cons, ih, Prod.mk.injEq]
      constructor
      · rintro (⟨h1, h2⟩ | ⟨h1, h2⟩)
        · subst h1 h2; simp
        · refine ⟨by omega, ?_⟩
          have : i - k = (i - (k + 1)) + 1 := by omega
          rw [this, List.getElem?_cons_succ]; exact h2
      · rintro ⟨h1, h2⟩
        by_cases hik : i = k
        · subst hik
          simp at h2
          left; exact ⟨rfl, h2.symm⟩
        · right
          have : i - k = (i - (k + 1)) + 1 := by omega
          rw [this, List.getElem?_cons_succ] at h2
          exact ⟨by omega, h2⟩

theorem mem_indexed {γ : Type} (l : List (Option γ)) (i : Nat) (v : γ) :
    (i, v) ∈ indexed l ↔ l[i]? = some (some v) := by
  simp [indexed, mem_indexedFrom]

theorem indexedFrom_lb {γ : Type} (l : List (Option γ)) (k : Nat) : ∀ e ∈ indexedFrom k l, k ≤ e.1 := by
  intro e he
  have := (mem_indexedFrom l k e.1 e.2).mp he
  exact this.1

/-- keys strictly ascending: every index occurs at most once (it is a map) and the representation is canonical -/
theorem indexedFrom_sorted {γ : Type} (l : List (Option γ)) (k : Nat) :
    (indexedFrom k l).Pairwise (fun a b => a.1 < b.1) := by
  induction l generalizing k with
  | nil => simp [indexedFrom]
  | cons x l ih =>
    cases x with
    | none => simpa [indexedFrom] using ih (k + 1)
    | some w =>
      simp only [indexedFrom, List.pairwise_cons]
      refine ⟨?_, ih (k + 1)⟩
      intro e he
      have := indexedFrom_lb l (k + 1) e he
      omega

theorem indexed_sorted {γ : Type} (l : List (Option γ)) : (indexed l).Pairwise (fun a b => a.1 < b.1) :=
  indexedFrom_sorted l 0

/-! ### outcomes -/

theorem outcomes_getElem? (P : Pool α β) (i : Nat) : P.outcomes[i]? = (P.xs[i]?).map (P.exec i) := by
  simp [Pool.outcomes, List.getElem?_mapIdx]

theorem outcomes_length (P : Pool α β) : P.outcomes.length = P.n := by
  simp [Pool.outcomes, Pool.n]

theorem any_failMsg (l : List (ItemOutcome β)) :
    (l.map ItemOutcome.failMsg).any Option.isSome = !(l.all ItemOutcome.isOk) := by
  induction l with
  | nil => rfl
  | cons o l ih =>
    cases o <;> simp [ItemOutcome.failMsg, ItemOutcome.isOk, ih]

theorem failMsg_none_iff (o : ItemOutcome β) : o.failMsg = none ↔ o.isOk = true := by
  cases o <;> simp [ItemOutcome.failMsg, ItemOutcome.isOk]

theorem okVal_some_iff (o : ItemOutcome β) (v : β) : o.okVal = some v ↔ o = .ok v := by
  cases o <;> simp [ItemOutcome.okVal]

theorem assembleOf_map (l : List (ItemOutcome β)) :
    assembleOf (l.map ItemOutcome.okVal) (l.map ItemOutcome.failMsg) = expectedOf l := by
  simp only [assembleOf, expectedOf, any_failMsg]
  cases h : l.all ItemOutcome.isOk <;> simp

/-! ### what the declarative output says, for any list of per-item outcomes -/

theorem expectedOf_success {l : List (ItemOutcome β)} {d : List (Option β)} (h : expectedOf l = .success d) :
    l.all ItemOutcome.isOk = true ∧ d = l.map ItemOutcome.okVal := by
  simp only [expectedOf] at h
  split at h
  · rename_i hall
    cases h; exact ⟨hall, rfl⟩
  · cases h

theorem expectedOf_failure {l : List (ItemOutcome β)} {d : List (Nat × β)} {e : List (Nat × String)}
    (h : expectedOf l = .failure d e) :
    l.all ItemOutcome.isOk = false ∧ d = indexed (l.map ItemOutcome.okVal) ∧ e = indexed (l.map ItemOutcome.failMsg) := by
  simp only [expectedOf] at h
  split at h
  · cases h
  · rename_i hall
    cases h; exact ⟨by simpa using hall, rfl, rfl⟩

theorem mem_errors_iff (l : List (ItemOutcome β)) (i : Nat) (m : String) :
    (i, m) ∈ indexed (l.map ItemOutcome.failMsg) ↔ ∃ o, l[i]? = some o ∧ o.failMsg = some m := by
  rw [mem_indexed, List.getElem?_map]
  cases hx : l[i]? <;> simp

theorem mem_data_iff (l : List (ItemOutcome β)) (i : Nat) (v : β) :
    (i, v) ∈ indexed (l.map ItemOutcome.okVal) ↔ l[i]? = some (.ok v) := by
  rw [mem_indexed, List.getElem?_map]
  cases hx : l[i]? <;> simp [okVal_some_iff]

/-- every index of the list is a key of exactly one of the two maps, and the maps have no other keys -/
theorem keys_partition (l : List (ItemOutcome β)) (i : Nat) :
    (i < l.length ↔ ((∃ m, (i, m) ∈ indexed (l.map ItemOutcome.failMsg)) ∨
                      (∃ v, (i, v) ∈ indexed (l.map ItemOutcome.okVal)))) ∧
    ¬ ((∃ m, (i, m) ∈ indexed (l.map ItemOutcome.failMsg)) ∧ (∃ v, (i, v) ∈ indexed (l.map ItemOutcome.okVal))) := by
  constructor
  · constructor
    · intro hi
      have hx : l[i]? = some l[i] := List.getElem?_eq_getElem hi
      cases ho : l[i] with
      | ok v => exact Or.inr ⟨v, (mem_data_iff l i v).mpr (by rw [hx, ho])⟩
      | otherOutput id v => exact Or.inl ⟨_, (mem_errors_iff l i _).mpr ⟨_, hx, by rw [ho]; rfl⟩⟩
      | err m => exact Or.inl ⟨_, (mem_errors_iff l i _).mpr ⟨_, hx, by rw [ho]; rfl⟩⟩
    · rintro (⟨m, hm⟩ | ⟨v, hv⟩)
      · obtain ⟨o, ho, _⟩ := (mem_errors_iff l i m).mp hm
        exact (List.getElem?_eq_some_iff.mp ho).1
      · have ho := (mem_data_iff l i v).mp hv
        exact (List.getElem?_eq_some_iff.mp ho).1
  · rintro ⟨⟨m, hm⟩, ⟨v, hv⟩⟩
    obtain ⟨o, ho, hmsg⟩ := (mem_errors_iff l i m).mp hm
    have hv' := (mem_data_iff l i v).mp hv
    rw [ho] at hv'; cases hv'
    simp [ItemOutcome.failMsg] at hmsg

/-! ### the arrays of a completed pool -/

theorem effOutcomes_getElem? (P : Pool α β) (s : PoolState α β) (i : Nat) :
    (effOutcomes P s)[i]? =
      (P.xs[i]?).map (fun a => if s.phase[i]? = some .aborted then .err ItemOutcome.abortMsg else P.exec i a) := by
  simp [effOutcomes, List.getElem?_mapIdx]

theorem effOutcomes_length (P : Pool α β) (s : PoolState α β) : (effOutcomes P s).length = P.xs.length := by
  simp [effOutcomes]

theorem allExecuted_phase {s : PoolState α β} (h : allExecuted s = true) {i : Nat} (hi : i < s.phase.length) :
    s.phase[i]? = some .done := by
  simp only [allExecuted, List.all_eq_true] at h
  have := h (s.phase[i]) (List.getElem_mem hi)
  rw [List.getElem?_eq_getElem hi]
  simpa using this

theorem allDone_phase {s : PoolState α β} (h : allDone s = true) {i : Nat} (hi : i < s.phase.length) :
    s.phase[i]? = some .done ∨ s.phase[i]? = some .aborted := by
  simp only [allDone, List.all_eq_true] at h
  have := h (s.phase[i]) (List.getElem_mem hi)
  rw [List.getElem?_eq_getElem hi]
  cases hph : s.phase[i] <;> simp [hph, isFinal] at this ⊢

/-- when `wg.Wait()` returns — cancelled or not — the two arrays hold exactly the effective outcome of every item -/
theorem final_arrays {P : Pool α β} {s : PoolState α β} (hI : Inv P s) (hd : allDone s = true) :
    s.outputs = (effOutcomes P s).map ItemOutcome.okVal ∧ s.errors = (effOutcomes P s).map ItemOutcome.failMsg := by
  have key : ∀ j, j < P.n →
      s.outputs[j]? = Option.map ItemOutcome.okVal (effOutcomes P s)[j]? ∧
      s.errors[j]? = Option.map ItemOutcome.failMsg (effOutcomes P s)[j]? := by
    intro j hj
    have hx : P.xs[j]? = some (P.xs[j]'hj) := List.getElem?_eq_getElem hj
    rw [effOutcomes_getElem?, hx]
    rcases allDone_phase hd (i := j) (by rw [hI.lenPhase]; exact hj) with hph | hph
    · obtain ⟨h1, h2⟩ := hI.doneRes j _ hx hph
      simp [hph, h1, h2]
    · obtain ⟨h1, h2⟩ := hI.abortedRes j hph
      simp [hph, h1, h2, ItemOutcome.okVal, ItemOutcome.failMsg]
  constructor
  · apply List.ext_getElem?
    intro j
    rw [List.getElem?_map]
    by_cases hj : j < P.n
    · exact (key j hj).1
    · have h1 : s.outputs[j]? = none := List.getElem?_eq_none (by rw [hI.lenOut]; omega)
      have h2 : (effOutcomes P s)[j]? = none :=
        List.getElem?_eq_none (by rw [effOutcomes_length]; simp only [Pool.n] at hj; omega)
      rw [h1, h2]; rfl
  · apply List.ext_getElem?
    intro j
    rw [List.getElem?_map]
    by_cases hj : j < P.n
    · exact (key j hj).2
    · have h1 : s.errors[j]? = none := List.getElem?_eq_none (by rw [hI.lenErr]; omega)
      have h2 : (effOutcomes P s)[j]? = none :=
        List.getElem?_eq_none (by rw [effOutcomes_length]; simp only [Pool.n] at hj; omega)
      rw [h1, h2]; rfl

/-- without cancellation nothing is aborted: when `wg.Wait()` returns every item went through `Execute` -/
theorem allExecuted_of_allDone {P : Pool α β} {s : PoolState α β} (hI : Inv P s) (hc : s.cancelled = false)
    (hd : allDone s = true) : allExecuted s = true := by
  have hab := hI.noAbort hc
  simp only [allExecuted, allDone, List.all_eq_true] at hd ⊢
  intro ph hm
  have hna := (List.countP_eq_zero.mp hab) ph hm
  have hf := hd ph hm
  cases ph <;> simp [isFinal] at hf hna ⊢

/-- if nothing was aborted the effective outcomes are the outcomes of the items -/
theorem effOutcomes_of_allExecuted {P : Pool α β} {s : PoolState α β} (hI : Inv P s) (hall : allExecuted s = true) :
    effOutcomes P s = P.outcomes := by
  apply List.ext_getElem?
  intro j
  rw [effOutcomes_getElem?, outcomes_getElem?]
  cases hx : P.xs[j]? with
  | none => rfl
  | some a =>
    have hj : j < s.phase.length := by
      rw [hI.lenPhase]; exact (List.getElem?_eq_some_iff.mp hx).1
    simp [allExecuted_phase hall hj]

/-- the assembled output of ANY completed pool (closed or not) is the declarative output of its effective outcomes -/
theorem assemble_done {P : Pool α β} {s : PoolState α β} (hI : Inv P s) (hd : allDone s = true) :
    assemble s = expectedOf (effOutcomes P s) := by
  obtain ⟨ho, he⟩ := final_arrays hI hd
  rw [assemble, ho, he, assembleOf_map]

theorem assemble_complete {P : Pool α β} {s : PoolState α β} (hI : Inv P s) (hc : s.cancelled = false)
    (hd : allDone s = true) : assemble s = expected P := by
  rw [assemble_done hI hd, effOutcomes_of_allExecuted hI (allExecuted_of_allDone hI hc hd), expected]

/-! ### each item is executed at most once, with its own item as input -/

def execCount (s : PoolState α β) (i : Nat) : Nat := s.started.countP (fun e => e.1 == i)

structure RunInv (P : Pool α β) (s : PoolState α β) : Prop where
  ownInput : ∀ e ∈ s.started, P.xs[e.1]? = some e.2
  once : ∀ i, execCount s i = if s.phase[i]? = some .running ∨ s.phase[i]? = some .done then 1 else 0

theorem runInv_init (P : Pool α β) : RunInv P (init P) := by
  refine ⟨by simp [init], ?_⟩
  intro i
  simp only [execCount, init, List.countP_nil, List.getElem?_replicate]
  split <;> simp

theorem runInv_step {P : Pool α β} {s s' : PoolState α β} (hR : RunInv P s) {t : Tr} (h : step P s t = some s') :
    RunInv P s' := by
  cases t with
  | acquire i =>
    simp only [step] at h
    split at h
    · cases h
    · rename_i a ha
      split at h
      · rename_i hok
        cases h
        obtain ⟨hph, _⟩ := hok
        obtain ⟨hip, hph'⟩ := List.getElem?_eq_some_iff.mp hph
        refine ⟨?_, ?_⟩
        · intro e he
          rcases List.mem_append.mp he with h1 | h1
          · exact hR.ownInput e h1
          · simp at h1; subst h1; exact ha
        · intro j
          have := hR.once j
          simp only [execCount, List.countP_append, List.countP_cons, List.countP_nil, List.getElem?_set] at this ⊢
          by_cases hij : i = j
          · subst hij
            simp [hip, hph'] at this ⊢
            omega
          · have hne : (i == j) = false := by simpa using hij
            simp only [hij, if_false, hne]
            simpa using this
      · cases h
  | finish i =>
    simp only [step] at h
    split at h
    · cases h
    · split at h
      · rename_i hok
        cases h
        obtain ⟨hph, _⟩ := hok
        obtain ⟨hip, hph'⟩ := List.getElem?_eq_some_iff.mp hph
        refine ⟨by simpa using hR.ownInput, ?_⟩
        intro j
        have := hR.once j
        simp only [execCount, store_started, store_phase, List.getElem?_set] at this ⊢
        by_cases hij : i = j
        · subst hij
          simp [hip, hph'] at this ⊢
          exact this
        · simp only [hij, if_false]
          exact this
      · cases h
  | cancel =>
    simp only [step] at h
    split at h
    · cases h
    · cases h; exact ⟨hR.ownInput, hR.once⟩
  | abort i =>
    simp only [step] at h
    split at h
    · rename_i hok
      cases h
      obtain ⟨hph, _⟩ := hok
      obtain ⟨hip, hph'⟩ := List.getElem?_eq_some_iff.mp hph
      refine ⟨hR.ownInput, ?_⟩
      intro j
      have := hR.once j
      simp only [execCount, List.getElem?_set] at this ⊢
      by_cases hij : i = j
      · subst hij
        simp [hip, hph'] at this ⊢
        exact this
      · simp only [hij, if_false]
        exact this
    · cases h

theorem runInv_runSched {P : Pool α β} {s s' : PoolState α β} (hR : RunInv P s) {sched : List Tr}
    (h : runSched P s sched = some s') : RunInv P s' := by
  induction sched generalizing s with
  | nil => simp [runSched] at h; subst h; exact hR
  | cons t ts ih =>
    simp only [runSched] at h
    split at h
    · cases h
    · rename_i s1 h1
      exact ih (runInv_step hR h1) h

end Arca.Model.ForeachPool
