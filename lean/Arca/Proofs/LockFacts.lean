/-
The lock-balance checker (`Arca.Model.LockBalance`, sound by `Arca.Proofs.LockBalance.balanced_sound`) applied to the
facts regenerated from /repo on every run:

* `Arca.Gen.Locks.lockFunctions` — EVERY function of the run-loop and provider packages that calls `X.Lock()` (computed
  from the source, not a list of names), with its mutex expressions and its control skeleton in split form;
* `Arca.Gen.Skel.*` — the skeletons of the pinned functions: the split form re-joins to exactly these token lists.

All facts are decided by kernel evaluation (`decide +kernel`) of the checker on the regenerated token lists: a change of
the source that leaves a mutex locked on some path to a return, unlocks it twice, registers the deferred unlock after an
early return, or moves the lock / unlock pair into a new helper that does so, makes `all_locks_released_on_every_path`
false on the next run.
-/
import Arca.Proofs.LockBalance
import Arca.Gen.Locks
import Arca.Gen.Skel

namespace Arca.Proofs.LockFacts
open Arca.Model.LockBalance

/-- the skeleton (split form) of a function of `lockFunctions`; `[]` if it is not listed -/
def toksOf (name : String) : List SplitTok :=
  match Arca.Gen.Locks.lockFunctions.find? (fun f => f.1 == name) with
  | some f => f.2.2.2
  | none => []

/-- all (function, mutex, skeleton) triples: one per mutex expression a function locks -/
def lockPairs : List (String × String × List SplitTok) :=
  Arca.Gen.Locks.lockFunctions.flatMap (fun f => f.2.2.1.map (fun m => (f.1, m, f.2.2.2)))

/-- the ONE pair that is not balanced in the current source: `Execute` takes the run lock `l.lock` before the loop that
    starts the steps and returns from inside that loop, when `runnableStep.Start` fails, without releasing it (and before
    `defer l.terminateAllSteps()` is registered).  `l` is the state of this run only, so no later run is affected; the
    handlers of the steps started so far would block on it.  (C05 treats the same `return`: `start_cannot_fail`.) -/
def knownUnbalanced : List (String × String) :=
  [("workflow_workflow_executableWorkflow_Execute", "l.lock")]

/-! ### the split form is the skeleton -/

theorem heads_agree : Arca.Gen.Locks.tokenHeads = tokHeads := by decide +kernel

theorem all_well_split : Arca.Gen.Locks.lockFunctions.all (fun f => wellSplit f.2.2.2) = true := by decide +kernel

theorem no_labeled_jumps : Arca.Gen.Locks.labeledJumps = [] := by decide +kernel

theorem execute_tokens :
    (toksOf "workflow_workflow_executableWorkflow_Execute").map join = Arca.Gen.Skel.workflow_workflow_executableWorkflow_Execute := by
  decide +kernel

theorem run_loop_tokens :
    (toksOf "workflow_workflow_loopState_onStageComplete").map join = Arca.Gen.Skel.workflow_workflow_loopState_onStageComplete ∧
    (toksOf "workflow_workflow_loopState_checkForDeadlocks").map join = Arca.Gen.Skel.workflow_workflow_loopState_checkForDeadlocks := by
  decide +kernel

theorem plugin_provider_tokens :
    (toksOf "step_plugin_provider_runningStep_ProvideStageInput").map join = Arca.Gen.Skel.step_plugin_provider_runningStep_ProvideStageInput ∧
    (toksOf "step_plugin_provider_runningStep_State").map join = Arca.Gen.Skel.step_plugin_provider_runningStep_State ∧
    (toksOf "step_plugin_provider_runningStep_CurrentStage").map join = Arca.Gen.Skel.step_plugin_provider_runningStep_CurrentStage ∧
    (toksOf "step_plugin_provider_runningStep_closeComponents").map join = Arca.Gen.Skel.step_plugin_provider_runningStep_closeComponents ∧
    (toksOf "step_plugin_provider_runningStep_closedEarly").map join = Arca.Gen.Skel.step_plugin_provider_runningStep_closedEarly ∧
    (toksOf "step_plugin_provider_runningStep_completeStep").map join = Arca.Gen.Skel.step_plugin_provider_runningStep_completeStep ∧
    (toksOf "step_plugin_provider_runningStep_deployStage").map join = Arca.Gen.Skel.step_plugin_provider_runningStep_deployStage ∧
    (toksOf "step_plugin_provider_runningStep_enableStage").map join = Arca.Gen.Skel.step_plugin_provider_runningStep_enableStage ∧
    (toksOf "step_plugin_provider_runningStep_runStage").map join = Arca.Gen.Skel.step_plugin_provider_runningStep_runStage ∧
    (toksOf "step_plugin_provider_runningStep_startPlugin").map join = Arca.Gen.Skel.step_plugin_provider_runningStep_startPlugin ∧
    (toksOf "step_plugin_provider_runningStep_startStage").map join = Arca.Gen.Skel.step_plugin_provider_runningStep_startStage ∧
    (toksOf "step_plugin_provider_runningStep_transitionFromFailedStage").map join =
      Arca.Gen.Skel.step_plugin_provider_runningStep_transitionFromFailedStage ∧
    (toksOf "step_plugin_provider_runningStep_transitionStageWithOutput").map join =
      Arca.Gen.Skel.step_plugin_provider_runningStep_transitionStageWithOutput := by
  decide +kernel

theorem foreach_provider_tokens :
    (toksOf "step_foreach_provider_runningStep_ProvideStageInput").map join = Arca.Gen.Skel.step_foreach_provider_runningStep_ProvideStageInput ∧
    (toksOf "step_foreach_provider_runningStep_State").map join = Arca.Gen.Skel.step_foreach_provider_runningStep_State ∧
    (toksOf "step_foreach_provider_runningStep_CurrentStage").map join = Arca.Gen.Skel.step_foreach_provider_runningStep_CurrentStage ∧
    (toksOf "step_foreach_provider_runningStep_Close").map join = Arca.Gen.Skel.step_foreach_provider_runningStep_Close ∧
    (toksOf "step_foreach_provider_runningStep_run").map join = Arca.Gen.Skel.step_foreach_provider_runningStep_run ∧
    (toksOf "step_foreach_provider_runningStep_processInput").map join = Arca.Gen.Skel.step_foreach_provider_runningStep_processInput ∧
    (toksOf "step_foreach_provider_runningStep_executeSubWorkflows").map join =
      Arca.Gen.Skel.step_foreach_provider_runningStep_executeSubWorkflows := by
  decide +kernel

/-! ### verdicts -/

/-- every mutex of every listed function is released on every path to a return — except the one known pair -/
theorem all_locks_released_on_every_path :
    lockPairs.all (fun p => balanced p.2.1 p.2.2 || knownUnbalanced.contains (p.1, p.2.1)) = true := by decide +kernel

/-- not vacuous: every pair really contains a `Lock()` call on its mutex, and the list is not empty -/
theorem every_pair_locks : lockPairs.all (fun p => decide (1 ≤ lockCalls p.2.1 p.2.2)) = true ∧ lockPairs ≠ [] := by
  decide +kernel

/-- the input lock of the prepared workflow in `Execute` (shared by all runs of the workflow): taken once, released on
    every path -/
theorem execute_input_lock_balanced :
    balanced "e.inputLock" (toksOf "workflow_workflow_executableWorkflow_Execute") = true ∧
    lockCalls "e.inputLock" (toksOf "workflow_workflow_executableWorkflow_Execute") = 1 := by decide +kernel

/-- results of the checker for a body that violate balance (entry: free) -/
def unbalancedExits (m : String) (toks : List SplitTok) : Nat :=
  match parse m toks with
  | some b => ((postB b St.free).filter (fun p => !(match p.1 with
      | .fall | .ret => !p.2.bad && p.2.held == false
      | .panic => true
      | _ => false))).length
  | none => 0

/-- the known exception is real and is a single way out: exactly one result of the checker for `Execute` / `l.lock`
    leaves with the run lock held (the `return` in the start loop) -/
theorem execute_run_lock_one_unbalanced_exit :
    balanced "l.lock" (toksOf "workflow_workflow_executableWorkflow_Execute") = false ∧
    unbalancedExits "l.lock" (toksOf "workflow_workflow_executableWorkflow_Execute") = 1 := by decide +kernel

end Arca.Proofs.LockFacts
