/-
Helper lemmas for C12, synchronisation part: the inductive invariant of the plugin provider's skeleton
(`Arca.Model.PluginStep.syncStep`) and what follows from it.
-/
import Arca.Model.PluginStep

namespace Arca.Proofs.PluginSync
open Arca.Model.PluginStep
open Arca.Gen

/-- `run()` has not reached `runStage` yet -/
def earlyPc (p : Pc) : Prop :=
  p = .notStarted ∨ p = .waitingDeploy ∨ p = .deploying ∨ p = .waitingEnable ∨ p = .waitingStart

/-- the inductive invariant -/
structure Inv (s : SyncState) : Prop where
  deploy0 : s.deployAvail = false → s.deployOcc = 0
  deploy1 : s.deployOcc ≤ 1
  enabled0 : s.enabledAvail = false → s.enabledOcc = 0
  enabled1 : s.enabledOcc ≤ 1
  run0 : s.runAvail = false → s.runOcc = 0
  run1 : s.runOcc ≤ 1
  /-- the wait group counts exactly the goroutines that will still call `Done` -/
  wg : s.wg = (if s.pc = .done then 0 else 1) + (if s.atp then 1 else 0)
  sig : s.sigOcc ≤ s.cancelSends
  exec1 : s.execOcc ≤ 1
  execAtp : s.atp = true → s.execOcc = 0
  early : earlyPc s.pc → s.atp = false ∧ s.execOcc = 0
  returned : 0 < s.closeReturned → s.pc = .done ∧ s.atp = false
  late : s.lateNotif = false
  closing : 0 < s.closeWaiting ∨ 0 < s.closeReturned → s.closed = true ∧ s.ctxDone = true
  closedCtx : s.closed = true → s.ctxDone = true
  cancelWaitCtx : s.pc = .cancelWait → s.ctxDone = true
  /-- at most one cancel signal through the (once-only) stop condition and one from `run()` itself -/
  stopBound : s.cancelSends ≤ (if s.stopAvail then 1 else 0) +
    (if s.pc = .cancelWait ∨ s.pc = .finishing ∨ s.pc = .done then 1 else 0)

theorem inv_init : Inv syncInit := by
  constructor <;> simp [syncInit, earlyPc]

/-- unfold one action, split its guards, and discharge every field of the invariant -/
macro "step_tac" s:ident hi:ident hs:ident : tactic => `(tactic| (
  obtain ⟨d0, d1, e0, e1, r0, r1, wg, sg, x1, xa, ea, rt, lt, cl, cc, cw, sb⟩ := $hi
  cases $s:ident
  simp only [syncStep, runMove, cancelStep] at $hs:ident
  repeat' split at $hs:ident
  all_goals (cases $hs:ident)
  all_goals (constructor <;> simp_all [earlyPc] <;> (try omega))))

theorem inv_provideDeploy (h : Bool) (s s' : SyncState) (hi : Inv s)
    (hs : syncStep h s (.provideDeploy) = .next s') : Inv s' := by
  step_tac s hi hs

theorem inv_provideEnabling (h : Bool) (s s' : SyncState) (hi : Inv s)
    (hs : syncStep h s (.provideEnabling) = .next s') : Inv s' := by
  step_tac s hi hs

theorem inv_provideStarting (h : Bool) (s s' : SyncState) (v : Bool) (hi : Inv s)
    (hs : syncStep h s (.provideStarting v) = .next s') : Inv s' := by
  step_tac s hi hs


theorem inv_provideOther (h : Bool) (s s' : SyncState) (hi : Inv s)
    (hs : syncStep h s (.provideOther) = .next s') : Inv s' := by
  step_tac s hi hs

theorem inv_closeCall (h : Bool) (s s' : SyncState) (hi : Inv s)
    (hs : syncStep h s (.closeCall) = .next s') : Inv s' := by
  step_tac s hi hs

theorem inv_forceCloseCall (h : Bool) (s s' : SyncState) (hi : Inv s)
    (hs : syncStep h s (.forceCloseCall) = .next s') : Inv s' := by
  step_tac s hi hs


theorem inv_runBegin (h : Bool) (s s' : SyncState) (hi : Inv s)
    (hs : syncStep h s (.runBegin) = .next s') : Inv s' := by
  step_tac s hi hs

theorem inv_recvDeploy (h : Bool) (s s' : SyncState) (hi : Inv s)
    (hs : syncStep h s (.recvDeploy) = .next s') : Inv s' := by
  step_tac s hi hs

theorem inv_ctxAtDeploy (h : Bool) (s s' : SyncState) (hi : Inv s)
    (hs : syncStep h s (.ctxAtDeploy) = .next s') : Inv s' := by
  step_tac s hi hs

theorem inv_deployOk (h : Bool) (s s' : SyncState) (hi : Inv s)
    (hs : syncStep h s (.deployOk) = .next s') : Inv s' := by
  step_tac s hi hs

theorem inv_deployFail (h : Bool) (s s' : SyncState) (hi : Inv s)
    (hs : syncStep h s (.deployFail) = .next s') : Inv s' := by
  step_tac s hi hs

theorem inv_recvEnabled (h : Bool) (s s' : SyncState) (v : Bool) (hi : Inv s)
    (hs : syncStep h s (.recvEnabled v) = .next s') : Inv s' := by
  step_tac s hi hs

theorem inv_ctxAtEnable (h : Bool) (s s' : SyncState) (hi : Inv s)
    (hs : syncStep h s (.ctxAtEnable) = .next s') : Inv s' := by
  step_tac s hi hs

theorem inv_startOk (h : Bool) (s s' : SyncState) (hi : Inv s)
    (hs : syncStep h s (.startOk) = .next s') : Inv s' := by
  step_tac s hi hs

theorem inv_startFail (h : Bool) (s s' : SyncState) (hi : Inv s)
    (hs : syncStep h s (.startFail) = .next s') : Inv s' := by
  step_tac s hi hs

theorem inv_ctxAtStart (h : Bool) (s s' : SyncState) (hi : Inv s)
    (hs : syncStep h s (.ctxAtStart) = .next s') : Inv s' := by
  step_tac s hi hs



theorem inv_timer (h : Bool) (s s' : SyncState) (hi : Inv s)
    (hs : syncStep h s (.timer) = .next s') : Inv s' := by
  step_tac s hi hs

theorem inv_runExit (h : Bool) (s s' : SyncState) (hi : Inv s)
    (hs : syncStep h s (.runExit) = .next s') : Inv s' := by
  step_tac s hi hs

theorem inv_atpReturn (h : Bool) (s s' : SyncState) (hi : Inv s)
    (hs : syncStep h s (.atpReturn) = .next s') : Inv s' := by
  step_tac s hi hs

theorem inv_drainSignal (h : Bool) (s s' : SyncState) (hi : Inv s)
    (hs : syncStep h s (.drainSignal) = .next s') : Inv s' := by
  step_tac s hi hs

theorem cancelStep_ok_cases (h : Bool) (s t : SyncState) (hc : cancelStep h s = .ok t) :
    t = { s with ctxDone := true } ∨
    t = { s with sigOcc := s.sigOcc + 1, cancelSends := s.cancelSends + 1, ctxDone := true } := by
  unfold cancelStep at hc
  repeat' split at hc
  all_goals (first | (cases hc; simp) | cases hc)

theorem inv_provideCancelled (h : Bool) (s s' : SyncState) (v : Bool) (hi : Inv s)
    (hs : syncStep h s (.provideCancelled v) = .next s') : Inv s' := by
  simp only [syncStep] at hs
  split at hs
  · cases hs
  · rename_i hst
    split at hs
    · cases hs
      obtain ⟨d0, d1, e0, e1, r0, r1, wg, sg, x1, xa, ea, rt, lt, cl, cc, cw, sb⟩ := hi
      cases s
      constructor <;> simp_all <;> (try omega)
    · split at hs
      · cases hs
        rename_i heq
        obtain ⟨d0, d1, e0, e1, r0, r1, wg, sg, x1, xa, ea, rt, lt, cl, cc, cw, sb⟩ := hi
        rcases cancelStep_ok_cases h _ _ heq with ht | ht <;> subst ht <;> cases s <;>
          (constructor <;> simp_all <;> (try omega))
      · cases hs

theorem inv_closeReturn (h : Bool) (s s' : SyncState) (hi : Inv s)
    (hs : syncStep h s (.closeReturn) = .next s') : Inv s' := by
  obtain ⟨d0, d1, e0, e1, r0, r1, wg, sg, x1, xa, ea, rt, lt, cl, cc, cw, sb⟩ := hi
  simp only [syncStep] at hs
  split at hs
  · cases hs
    rename_i hc
    obtain ⟨hw, hz⟩ := hc
    have hcl := cl (Or.inl hw)
    have hpc : s.pc = .done := by
      rw [hz] at wg
      by_cases hd : s.pc = .done
      · exact hd
      · simp [hd] at wg
        omega
    have hatp : s.atp = false := by
      rw [hz, hpc] at wg
      cases hat : s.atp
      · rfl
      · simp [hat] at wg
    constructor <;> simp_all
  · cases hs

theorem inv_recvResult (h : Bool) (s s' : SyncState) (hi : Inv s)
    (hs : syncStep h s (.recvResult) = .next s') : Inv s' := by
  obtain ⟨d0, d1, e0, e1, r0, r1, wg, sg, x1, xa, ea, rt, lt, cl, cc, cw, sb⟩ := hi
  cases s
  simp only [syncStep, runMove] at hs
  split at hs
  · cases hs
    rename_i hc
    obtain ⟨hpc, hx⟩ := hc
    rcases hpc with hpc | hpc <;> (try simp only at hpc) <;> subst hpc <;> constructor <;> simp_all [earlyPc] <;> (try omega)
  · cases hs

theorem inv_ctxAtRun (h : Bool) (s s' : SyncState) (hi : Inv s)
    (hs : syncStep h s (.ctxAtRun) = .next s') : Inv s' := by
  simp only [syncStep, runMove] at hs
  split at hs
  · rename_i hc
    obtain ⟨hpc, hctx⟩ := hc
    split at hs
    · split at hs
      · cases hs
        rename_i t heq
        obtain ⟨d0, d1, e0, e1, r0, r1, wg, sg, x1, xa, ea, rt, lt, cl, cc, cw, sb⟩ := hi
        rcases cancelStep_ok_cases h s t heq with ht | ht <;> subst ht <;> cases s <;> simp only at hpc hctx <;>
          subst hpc <;> (constructor <;> simp_all [earlyPc] <;> (try omega))
      · cases hs
    · cases hs
      obtain ⟨d0, d1, e0, e1, r0, r1, wg, sg, x1, xa, ea, rt, lt, cl, cc, cw, sb⟩ := hi
      cases s
      simp only at hpc hctx
      subst hpc
      constructor <;> simp_all [earlyPc] <;> (try omega)
  · cases hs

theorem inv_step (h : Bool) (s s' : SyncState) (a : Act) (hi : Inv s) (hs : syncStep h s a = .next s') : Inv s' := by
  cases a with
  | provideDeploy => exact inv_provideDeploy h s s' hi hs
  | provideEnabling => exact inv_provideEnabling h s s' hi hs
  | provideStarting v => exact inv_provideStarting h s s' v hi hs
  | provideCancelled v => exact inv_provideCancelled h s s' v hi hs
  | provideOther => exact inv_provideOther h s s' hi hs
  | closeCall => exact inv_closeCall h s s' hi hs
  | forceCloseCall => exact inv_forceCloseCall h s s' hi hs
  | closeReturn => exact inv_closeReturn h s s' hi hs
  | runBegin => exact inv_runBegin h s s' hi hs
  | recvDeploy => exact inv_recvDeploy h s s' hi hs
  | ctxAtDeploy => exact inv_ctxAtDeploy h s s' hi hs
  | deployOk => exact inv_deployOk h s s' hi hs
  | deployFail => exact inv_deployFail h s s' hi hs
  | recvEnabled v => exact inv_recvEnabled h s s' v hi hs
  | ctxAtEnable => exact inv_ctxAtEnable h s s' hi hs
  | startOk => exact inv_startOk h s s' hi hs
  | startFail => exact inv_startFail h s s' hi hs
  | ctxAtStart => exact inv_ctxAtStart h s s' hi hs
  | recvResult => exact inv_recvResult h s s' hi hs
  | ctxAtRun => exact inv_ctxAtRun h s s' hi hs
  | timer => exact inv_timer h s s' hi hs
  | runExit => exact inv_runExit h s s' hi hs
  | atpReturn => exact inv_atpReturn h s s' hi hs
  | drainSignal => exact inv_drainSignal h s s' hi hs


theorem reachable_inv (h : Bool) (s : SyncState) (hr : Reachable h s) : Inv s := by
  induction hr with
  | init => exact inv_init
  | step a _ hs ih => exact inv_step h _ _ a ih hs

theorem reachableFrom_inv (h : Bool) (s t : SyncState) (hi : Inv s) (hr : ReachableFrom h s t) : Inv t := by
  induction hr with
  | refl => exact hi
  | step a _ hs ih => exact inv_step h _ _ a ih hs

/-! ### providing input never blocks -/

theorem provideDeploy_not_blocked (h : Bool) (s : SyncState) : syncStep h s .provideDeploy ≠ .wouldBlock := by
  simp only [syncStep]
  repeat' split
  all_goals simp

theorem provideStarting_not_blocked (h : Bool) (s : SyncState) (v : Bool) :
    syncStep h s (.provideStarting v) ≠ .wouldBlock := by
  simp only [syncStep]
  repeat' split
  all_goals simp

theorem provideEnabling_not_blocked (h : Bool) (s : SyncState) (hi : Inv s) :
    syncStep h s .provideEnabling ≠ .wouldBlock := by
  simp only [syncStep]
  split
  · simp
  · split
    · simp
    · rename_i hav hocc
      have h0 := hi.enabled0 (by simpa using hav)
      exact absurd (by rw [h0]; decide : s.enabledOcc < pluginChan_enabledInput) hocc

theorem cancelStep_not_blocked (h : Bool) (s : SyncState) (hb : s.sigOcc < pluginChan_signalToStep) :
    cancelStep h s ≠ .block := by
  unfold cancelStep
  repeat' split
  all_goals simp_all

/-- never more than two cancel signals are sent, and the channel has room for them -/
theorem sig_room (s : SyncState) (hi : Inv s) : s.sigOcc < pluginChan_signalToStep := by
  have h1 := hi.sig
  have h2 := hi.stopBound
  have h3 : s.cancelSends ≤ 2 := by
    refine Nat.le_trans h2 ?_
    split <;> split <;> omega
  have h4 : 2 < pluginChan_signalToStep := by decide
  omega

theorem provideCancelled_not_blocked (h : Bool) (s : SyncState) (v : Bool) (hi : Inv s) :
    syncStep h s (.provideCancelled v) ≠ .wouldBlock := by
  have hs := sig_room s hi
  simp only [syncStep]
  split
  · simp
  · split
    · simp
    · split
      · simp
      · rename_i heq
        exact absurd heq (cancelStep_not_blocked h _ (by simpa using hs))

/-- no action of the skeleton panics (since 691f1ef `cancelStep` does not touch a missing handler) -/
theorem never_panics (h : Bool) (s : SyncState) (a : Act) (site : String) : syncStep h s a ≠ .panic site := by
  cases a <;> simp only [syncStep, runMove] <;> (repeat' split) <;> simp

/-! ### the once-only flags -/

theorem cancelStep_flags (h : Bool) (s t : SyncState) (hc : cancelStep h s = .ok t) :
    t.deployAvail = s.deployAvail ∧ t.enabledAvail = s.enabledAvail ∧ t.runAvail = s.runAvail ∧ t.closed = s.closed ∧
    t.stopAvail = s.stopAvail := by
  rcases cancelStep_ok_cases h s t hc with rfl | rfl <;> simp

/-- no step ever resets an "input available" flag or the closed flag -/
theorem flags_mono (h : Bool) (s s' : SyncState) (a : Act) (hs : syncStep h s a = .next s') :
    (s.deployAvail = true → s'.deployAvail = true) ∧ (s.enabledAvail = true → s'.enabledAvail = true) ∧
    (s.runAvail = true → s'.runAvail = true) ∧ (s.closed = true → s'.closed = true) ∧
    (s.stopAvail = true → s'.stopAvail = true) := by
  cases a <;> simp only [syncStep, runMove] at hs <;> (repeat' split at hs) <;>
    first
    | (cases hs; simp_all; done)
    | (cases hs; rename_i heq; have := cancelStep_flags h _ _ heq; simp_all; done)
    | (cases hs; done)

theorem flags_mono_star (h : Bool) (s t : SyncState) (hr : ReachableFrom h s t) :
    (s.deployAvail = true → t.deployAvail = true) ∧ (s.enabledAvail = true → t.enabledAvail = true) ∧
    (s.runAvail = true → t.runAvail = true) ∧ (s.closed = true → t.closed = true) ∧
    (s.stopAvail = true → t.stopAvail = true) := by
  induction hr with
  | refl => simp
  | step a _ hs ih =>
    have := flags_mono h _ _ a hs
    refine ⟨fun x => this.1 (ih.1 x), fun x => this.2.1 (ih.2.1 x), fun x => this.2.2.1 (ih.2.2.1 x),
      fun x => this.2.2.2.1 (ih.2.2.2.1 x), fun x => this.2.2.2.2 (ih.2.2.2.2 x)⟩

theorem provideDeploy_sets (h : Bool) (s s' : SyncState) (hs : syncStep h s .provideDeploy = .next s') :
    s'.deployAvail = true := by
  simp only [syncStep] at hs
  repeat' split at hs
  all_goals (cases hs; try rfl)

theorem provideEnabling_sets (h : Bool) (s s' : SyncState) (hs : syncStep h s .provideEnabling = .next s') :
    s'.enabledAvail = true := by
  simp only [syncStep] at hs
  repeat' split at hs
  all_goals (cases hs; try rfl)

theorem provideStarting_sets (h : Bool) (s s' : SyncState) (v : Bool)
    (hs : syncStep h s (.provideStarting v) = .next s') : s'.runAvail = true := by
  simp only [syncStep] at hs
  repeat' split at hs
  all_goals (cases hs; try rfl)

theorem provideCancelled_sets (h : Bool) (s s' : SyncState) (v : Bool)
    (hs : syncStep h s (.provideCancelled v) = .next s') : s'.stopAvail = true := by
  simp only [syncStep] at hs
  repeat' split at hs
  all_goals (first | (cases hs; done) | (cases hs; rfl) |
    (cases hs; rename_i heq; have := (cancelStep_flags h _ _ heq).2.2.2.2; simpa using this))

theorem provideCancelled_refused (h : Bool) (s : SyncState) (v : Bool) (hf : s.stopAvail = true) :
    syncStep h s (.provideCancelled v) = .refused s := by
  simp [syncStep, hf]

theorem provideDeploy_refused (h : Bool) (s : SyncState) (hf : s.deployAvail = true) :
    syncStep h s .provideDeploy = .refused s := by
  simp [syncStep, hf]

theorem provideEnabling_refused (h : Bool) (s : SyncState) (hf : s.enabledAvail = true) :
    syncStep h s .provideEnabling = .refused s := by
  simp [syncStep, hf]

theorem provideStarting_refused (h : Bool) (s : SyncState) (v : Bool) (hf : s.runAvail = true) :
    syncStep h s (.provideStarting v) = .refused s := by
  simp [syncStep, hf]

/-! ### closing -/

theorem closeCall_idem (h : Bool) (s : SyncState) (hi : Inv s) (hc : s.closed = true) :
    syncStep h s .closeCall = .next { s with closeWaiting := s.closeWaiting + 1 } ∧
    syncStep h s .forceCloseCall = .next { s with closeWaiting := s.closeWaiting + 1 } := by
  have hctx := hi.closedCtx hc
  cases s
  simp_all [syncStep]

/-! ### every close call returns: progress and a decreasing measure -/

def preCancelPc (p : Pc) : Prop := earlyPc p ∨ p = .running

/-- the hypothesis under which closing terminates: the context is cancelled and, if `run()` has still to send its own
    cancel signal, there is room for it in `signalToStep` -/
structure Closing (s : SyncState) : Prop where
  inv : Inv s
  ctx : s.ctxDone = true
  room : preCancelPc s.pc → s.sigOcc < pluginChan_signalToStep

/-- a `run()` move from a known pc that keeps `sigOcc` and establishes a pc after the cancel point or keeps room -/
theorem closing_after (h : Bool) (s s' : SyncState) (a : Act) (hc : Closing s) (hstep : syncStep h s a = .next s')
    (hctx' : s'.ctxDone = true) (hroom' : preCancelPc s'.pc → s'.sigOcc < pluginChan_signalToStep) : Closing s' :=
  ⟨inv_step h s s' a hc.inv hstep, hctx', hroom'⟩

theorem closing_progress (h : Bool) (s : SyncState) (hc : Closing s) :
    (s.closeWaiting = 0 ∧ s.wg = 0) ∨
    ∃ a ∈ internalActs, ∃ s', syncStep h s a = .next s' ∧ Closing s' ∧ closeRank s' < closeRank s := by
  have hi := hc.inv
  have hctx := hc.ctx
  have hroom := hc.room
  have hwg := hi.wg
  have hxa := hi.execAtp
  rcases hpc : s.pc with _ | _ | _ | _ | _ | _ | _ | _ | _
  · -- notStarted: the goroutine starts
    have hstep : syncStep h s .runBegin = .next { s with pc := .waitingDeploy, lateNotif := s.lateNotif || decide (0 < s.closeReturned) } := by
      simp [syncStep, runMove, hpc]
    refine Or.inr ⟨_, by decide, _, hstep, closing_after h s _ _ hc hstep (by simpa using hctx) ?_, ?_⟩
    · intro _
      simpa using hroom (by simp [preCancelPc, earlyPc, hpc])
    · simp [closeRank, pcRank, hpc]
  · -- waitingDeploy: `case <-r.ctx.Done()`
    have hstep : syncStep h s .ctxAtDeploy = .next { s with pc := .finishing, lateNotif := s.lateNotif || decide (0 < s.closeReturned) } := by
      simp [syncStep, runMove, hpc, hctx]
    refine Or.inr ⟨_, by decide, _, hstep, closing_after h s _ _ hc hstep (by simpa using hctx) ?_, ?_⟩
    · intro hp
      simp [preCancelPc, earlyPc] at hp
    · simp [closeRank, pcRank, hpc]
  · -- deploying: the deployer returns (E1); the context is done, so startPlugin goes to closedEarly
    have hstep : syncStep h s .deployOk = .next { s with pc := .finishing, lateNotif := s.lateNotif || decide (0 < s.closeReturned) } := by
      simp [syncStep, runMove, hpc, hctx]
    refine Or.inr ⟨_, by decide, _, hstep, closing_after h s _ _ hc hstep (by simpa using hctx) ?_, ?_⟩
    · intro hp
      simp [preCancelPc, earlyPc] at hp
    · simp [closeRank, pcRank, hpc]
  · -- waitingEnable
    have hstep : syncStep h s .ctxAtEnable = .next { s with pc := .finishing, lateNotif := s.lateNotif || decide (0 < s.closeReturned) } := by
      simp [syncStep, runMove, hpc, hctx]
    refine Or.inr ⟨_, by decide, _, hstep, closing_after h s _ _ hc hstep (by simpa using hctx) ?_, ?_⟩
    · intro hp
      simp [preCancelPc, earlyPc] at hp
    · simp [closeRank, pcRank, hpc]
  · -- waitingStart
    have hstep : syncStep h s .ctxAtStart = .next { s with pc := .finishing, lateNotif := s.lateNotif || decide (0 < s.closeReturned) } := by
      simp [syncStep, runMove, hpc, hctx]
    refine Or.inr ⟨_, by decide, _, hstep, closing_after h s _ _ hc hstep (by simpa using hctx) ?_, ?_⟩
    · intro hp
      simp [preCancelPc, earlyPc] at hp
    · simp [closeRank, pcRank, hpc]
  · -- running: `case <-r.ctx.Done()` in runStage
    have hr := hroom (by simp [preCancelPc, hpc])
    cases h with
    | false =>
      have hstep : syncStep false s .ctxAtRun = .next { s with pc := .finishing, closed := true, lateNotif := s.lateNotif || decide (0 < s.closeReturned) } := by
        simp [syncStep, runMove, hpc, hctx]
      refine Or.inr ⟨_, by decide, _, hstep, closing_after false s _ _ hc hstep (by simpa using hctx) ?_, ?_⟩
      · intro hp
        simp [preCancelPc, earlyPc] at hp
      · simp [closeRank, pcRank, hpc]
    | true =>
      by_cases hso : s.sigOpen = true
      · have hstep : syncStep true s .ctxAtRun = .next { s with pc := .cancelWait, sigOcc := s.sigOcc + 1, cancelSends := s.cancelSends + 1, ctxDone := true, lateNotif := s.lateNotif || decide (0 < s.closeReturned) } := by
          simp [syncStep, runMove, cancelStep, hpc, hctx, hso, hr]
        refine Or.inr ⟨_, by decide, _, hstep, closing_after true s _ _ hc hstep (by simp) ?_, ?_⟩
        · intro hp
          simp [preCancelPc, earlyPc] at hp
        · simp [closeRank, pcRank, hpc]
      · have hstep : syncStep true s .ctxAtRun = .next { s with pc := .cancelWait, ctxDone := true, lateNotif := s.lateNotif || decide (0 < s.closeReturned) } := by
          simp [syncStep, runMove, cancelStep, hpc, hctx, hso]
        refine Or.inr ⟨_, by decide, _, hstep, closing_after true s _ _ hc hstep (by simp) ?_, ?_⟩
        · intro hp
          simp [preCancelPc, earlyPc] at hp
        · simp [closeRank, pcRank, hpc]
  · -- cancelWait: the closure timeout fires (E3)
    have hstep : syncStep h s .timer = .next { s with pc := .finishing, closed := true, lateNotif := s.lateNotif || decide (0 < s.closeReturned) } := by
      simp [syncStep, runMove, hpc]
    refine Or.inr ⟨_, by decide, _, hstep, closing_after h s _ _ hc hstep (by simpa using hctx) ?_, ?_⟩
    · intro hp
      simp [preCancelPc, earlyPc] at hp
    · simp [closeRank, pcRank, hpc]
  · -- finishing: the deferred functions run
    have hstep : syncStep h s .runExit = .next { s with pc := .done, ctxDone := true, wg := s.wg - 1, lateNotif := s.lateNotif || decide (0 < s.closeReturned) } := by
      simp [syncStep, runMove, hpc]
    refine Or.inr ⟨_, by decide, _, hstep, closing_after h s _ _ hc hstep (by simp) ?_, ?_⟩
    · intro hp
      simp [preCancelPc, earlyPc] at hp
    · simp [closeRank, pcRank, hpc]
  · -- done
    cases hat : s.atp with
    | true =>
      -- the container was closed by run(): Execute returns (E2)
      have hx0 := hxa hat
      have hstep : syncStep h s .atpReturn = .next { s with atp := false, sigOpen := false, execOcc := s.execOcc + 1, wg := s.wg - 1 } := by
        simp [syncStep, hat, hx0, pluginChan_executionChannel]
      refine Or.inr ⟨_, by decide, _, hstep, closing_after h s _ _ hc hstep (by simpa using hctx) ?_, ?_⟩
      · intro hp
        simp [preCancelPc, earlyPc, hpc] at hp
      · simp [closeRank, pcRank, hpc, hat]
    | false =>
      have hw0 : s.wg = 0 := by simp [hwg, hpc, hat]
      by_cases hcw : s.closeWaiting = 0
      · exact Or.inl ⟨hcw, hw0⟩
      · have hpos : 0 < s.closeWaiting := Nat.pos_of_ne_zero hcw
        have hstep : syncStep h s .closeReturn = .next { s with closeWaiting := s.closeWaiting - 1, closeReturned := s.closeReturned + 1 } := by
          simp [syncStep, hpos, hw0]
        refine Or.inr ⟨_, by decide, _, hstep, closing_after h s _ _ hc hstep (by simpa using hctx) ?_, ?_⟩
        · intro hp
          simp [preCancelPc, earlyPc, hpc] at hp
        · simp [closeRank, pcRank, hpc, hat]
          omega

/-- every schedule of internal moves is finite: each of them lowers the measure -/
theorem internal_decreases (h : Bool) (s s' : SyncState) (a : Act) (ha : a ∈ internalActs)
    (hs : syncStep h s a = .next s') (hi : Inv s) : closeRank s' < closeRank s := by
  have hea := hi.early
  simp only [internalActs, List.mem_cons, List.mem_nil_iff, or_false] at ha
  rcases ha with rfl | rfl | rfl | rfl | rfl | rfl | rfl | rfl | rfl | rfl | rfl | rfl | rfl | rfl | rfl | rfl | rfl <;>
    simp only [syncStep, runMove] at hs <;> (repeat' split at hs) <;>
    first
    | (cases hs; done)
    | (cases hs; cases s; simp_all [closeRank, pcRank, earlyPc]; done)
    | (cases hs; cases s; simp_all [closeRank, pcRank, earlyPc]; omega)
    | (cases hs
       rename_i hc
       obtain ⟨hpc | hpc, _⟩ := hc <;> cases s <;> simp_all [closeRank, pcRank, earlyPc] <;> omega)
    | (cases hs
       rename_i heq
       rcases cancelStep_ok_cases h s _ heq with ht | ht <;> subst ht <;> cases s <;>
         simp_all [closeRank, pcRank, earlyPc])

/-- from every state in which closing is under way, internal moves alone lead to a state where no close call is
    waiting and the wait group is at zero -/
theorem closing_terminates (h : Bool) : ∀ (n : Nat) (s : SyncState), closeRank s ≤ n → Closing s →
    ∃ acts s', (∀ a ∈ acts, a ∈ internalActs) ∧ execute h s acts = some s' ∧ s'.closeWaiting = 0 ∧ s'.wg = 0
  | 0, s, hn, hc => by
    rcases closing_progress h s hc with hdone | ⟨a, _, s', _, _, hlt⟩
    · exact ⟨[], s, by simp, rfl, hdone.1, hdone.2⟩
    · omega
  | n + 1, s, hn, hc => by
    rcases closing_progress h s hc with hdone | ⟨a, ha, s', hstep, hc', hlt⟩
    · exact ⟨[], s, by simp, rfl, hdone.1, hdone.2⟩
    · obtain ⟨acts, s'', hall, hex, h1, h2⟩ := closing_terminates h n s' (by omega) hc'
      refine ⟨a :: acts, s'', ?_, ?_, h1, h2⟩
      · intro b hb
        rcases List.mem_cons.mp hb with rfl | hb
        · exact ha
        · exact hall b hb
      · simp [execute, hstep, hex]

end Arca.Proofs.PluginSync
