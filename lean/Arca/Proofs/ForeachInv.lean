/-
Helper lemmas for C13: the invariant of the foreach item pool and its preservation by every transition.
-/
import Arca.Model.ForeachPool

namespace Arca.Model.ForeachPool

variable {α β : Type}

/-! ### list helpers -/

theorem countP_set_of_getElem? {p : Phase → Bool} {l : List Phase} {i : Nat} {a b : Phase} (h : l[i]? = some a) :
    (l.set i b).countP p + (if p a then 1 else 0) = l.countP p + (if p b then 1 else 0) := by
  obtain ⟨hi, ha⟩ := List.getElem?_eq_some_iff.mp h
  rw [List.countP_set hi, ha]
  have pos : p a = true → 0 < l.countP p := fun hp =>
    List.countP_pos_iff.mpr ⟨a, List.mem_of_getElem? h, hp⟩
  by_cases hpa : p a = true
  · have := pos hpa
    simp [hpa]; omega
  · simp [hpa]

theorem set_same_of_getElem? {γ : Type} {l : List γ} {i : Nat} {a : γ} (h : l[i]? = some a) : l.set i a = l := by
  apply List.ext_getElem?
  intro j
  rw [List.getElem?_set]
  by_cases hij : i = j
  · subst hij
    obtain ⟨hi, _⟩ := List.getElem?_eq_some_iff.mp h
    rw [if_pos rfl, if_pos hi, h]
  · simp [hij]

theorem getElem?_set_eq_some {γ : Type} {l : List γ} {i j : Nat} {a b : γ} (h : (l.set i a)[j]? = some b) :
    (i = j ∧ b = a) ∨ (i ≠ j ∧ l[j]? = some b) := by
  rw [List.getElem?_set] at h
  by_cases hij : i = j
  · left
    rw [if_pos hij] at h
    split at h
    · cases h; exact ⟨hij, rfl⟩
    · cases h
  · right
    rw [if_neg hij] at h
    exact ⟨hij, h⟩

theorem exists_index_of_countP_pos {p : Phase → Bool} {l : List Phase} (h : 0 < l.countP p) :
    ∃ (i : Nat) (a : Phase), l[i]? = some a ∧ p a = true := by
  obtain ⟨a, hm, hp⟩ := List.countP_pos_iff.mp h
  obtain ⟨i, hi⟩ := List.getElem?_of_mem hm
  exact ⟨i, a, hi, hp⟩

/-! ### the store -/

theorem store_eq (s : PoolState α β) (i : Nat) (o : ItemOutcome β)
    (ho : s.outputs[i]? = some none) (he : s.errors[i]? = some none) :
    store s i o = { s with outputs := s.outputs.set i o.okVal, errors := s.errors.set i o.failMsg } := by
  cases o <;> simp [store, ItemOutcome.okVal, ItemOutcome.failMsg, set_same_of_getElem? ho, set_same_of_getElem? he]

@[simp] theorem store_phase (s : PoolState α β) (i : Nat) (o : ItemOutcome β) : (store s i o).phase = s.phase := by
  cases o <;> rfl
@[simp] theorem store_sem (s : PoolState α β) (i : Nat) (o : ItemOutcome β) : (store s i o).sem = s.sem := by
  cases o <;> rfl
@[simp] theorem store_cancelled (s : PoolState α β) (i : Nat) (o : ItemOutcome β) :
    (store s i o).cancelled = s.cancelled := by
  cases o <;> rfl
@[simp] theorem store_started (s : PoolState α β) (i : Nat) (o : ItemOutcome β) :
    (store s i o).started = s.started := by
  cases o <;> rfl

/-! ### the invariant -/

structure Inv (P : Pool α β) (s : PoolState α β) : Prop where
  lenPhase : s.phase.length = P.n
  lenOut : s.outputs.length = P.n
  lenErr : s.errors.length = P.n
  /-- a channel never holds more than its capacity -/
  semLe : s.sem ≤ P.p
  /-- a finished item left exactly its own result in its own slot -/
  doneRes : ∀ i a, P.xs[i]? = some a → s.phase[i]? = some .done →
    s.outputs[i]? = some (P.exec i a).okVal ∧ s.errors[i]? = some (P.exec i a).failMsg
  /-- an aborted item is recorded as an error of its own index -/
  abortedRes : ∀ (i : Nat), s.phase[i]? = some Phase.aborted →
    s.outputs[i]? = some none ∧ s.errors[i]? = some (some ItemOutcome.abortMsg)
  /-- nothing wrote into the slots of items that are still pending or running -/
  liveRes : ∀ i, i < P.n → (s.phase[i]? = some .pending ∨ s.phase[i]? = some .running) →
    s.outputs[i]? = some none ∧ s.errors[i]? = some none
  /-- the semaphore counts exactly the running items — also after cancellation -/
  semRunning : running s = s.sem
  /-- while the context is alive nothing is aborted -/
  noAbort : s.cancelled = false → s.phase.countP (fun ph => ph == .aborted) = 0

theorem inv_init (P : Pool α β) : Inv P (init P) := by
  refine ⟨by simp [init], by simp [init], by simp [init], by simp [init], ?_, ?_, ?_, ?_, ?_⟩
  · intro i a _ h
    simp [init, List.getElem?_replicate] at h
  · intro i h
    simp [init, List.getElem?_replicate] at h
  · intro i hi _
    simp [init, hi]
  · simp [init, running, List.countP_replicate, isRunning]
  · intro _
    simp [init, List.countP_replicate]

theorem lt_of_phase {P : Pool α β} {s : PoolState α β} (hI : Inv P s) {i : Nat} {ph : Phase}
    (h : s.phase[i]? = some ph) : i < P.n := by
  obtain ⟨hi, _⟩ := List.getElem?_eq_some_iff.mp h
  rw [← hI.lenPhase]; exact hi

theorem live_of_set {l : List Phase} {i j : Nat} {a : Phase} (hij : i ≠ j)
    (h : (l.set i a)[j]? = some .pending ∨ (l.set i a)[j]? = some .running) :
    l[j]? = some .pending ∨ l[j]? = some .running := by
  simpa [List.getElem?_set, hij] using h

theorem inv_acquire {P : Pool α β} {s : PoolState α β} (hI : Inv P s) {i : Nat} {a : α}
    (hok : acquireOk P s i) :
    Inv P { s with phase := s.phase.set i .running, sem := s.sem + 1, started := s.started ++ [(i, a)] } := by
  obtain ⟨hph, hsem⟩ := hok
  have h1 := countP_set_of_getElem? (p := isRunning) (b := .running) hph
  have h2 := countP_set_of_getElem? (p := fun ph => ph == .aborted) (b := .running) hph
  simp [isRunning] at h1 h2
  refine ⟨by simp [hI.lenPhase], hI.lenOut, hI.lenErr, by simp; omega, ?_, ?_, ?_, ?_, ?_⟩
  · intro j b hb hd
    rcases getElem?_set_eq_some hd with ⟨_, hx⟩ | ⟨_, hd'⟩
    · cases hx
    · exact hI.doneRes j b hb hd'
  · intro j hd
    rcases getElem?_set_eq_some hd with ⟨_, hx⟩ | ⟨_, hd'⟩
    · cases hx
    · exact hI.abortedRes j hd'
  · intro j hj hl
    by_cases hij : i = j
    · subst hij
      exact hI.liveRes i hj (Or.inl hph)
    · exact hI.liveRes j hj (live_of_set hij hl)
  · have hr := hI.semRunning
    simp only [running] at hr ⊢
    omega
  · intro hc
    have ha := hI.noAbort hc
    simp only at ha ⊢
    omega

theorem inv_finish {P : Pool α β} {s : PoolState α β} (hI : Inv P s) {i : Nat} {a : α} (ha : P.xs[i]? = some a)
    (hok : finishOk s i) :
    Inv P { store s i (P.exec i a) with
      phase := (store s i (P.exec i a)).phase.set i .done
      sem := (store s i (P.exec i a)).sem - 1 } := by
  obtain ⟨hph, hrel⟩ := hok
  have hi : i < P.n := lt_of_phase hI hph
  obtain ⟨ho, he⟩ := hI.liveRes i hi (Or.inr hph)
  rw [store_eq s i _ ho he]
  have hio : i < s.outputs.length := by rw [hI.lenOut]; exact hi
  have hie : i < s.errors.length := by rw [hI.lenErr]; exact hi
  have hip : i < s.phase.length := by rw [hI.lenPhase]; exact hi
  have h1 := countP_set_of_getElem? (p := isRunning) (b := .done) hph
  have h2 := countP_set_of_getElem? (p := fun ph => ph == .aborted) (b := .done) hph
  simp [isRunning] at h1 h2
  refine ⟨by simp [hI.lenPhase], by simp [hI.lenOut], by simp [hI.lenErr], ?_, ?_, ?_, ?_, ?_, ?_⟩
  · have := hI.semLe
    simp only; omega
  · intro j b hb hd
    simp only [List.getElem?_set] at hd ⊢
    by_cases hij : i = j
    · subst hij
      rw [ha] at hb; cases hb
      simp [hio, hie]
    · simp only [hij, if_false] at hd ⊢
      exact hI.doneRes j b hb hd
  · intro j hd
    simp only [List.getElem?_set] at hd ⊢
    by_cases hij : i = j
    · subst hij; simp [hip] at hd
    · simp only [hij, if_false] at hd ⊢
      exact hI.abortedRes j hd
  · intro j hj hl
    simp only [List.getElem?_set] at hl ⊢
    by_cases hij : i = j
    · subst hij; simp [hip] at hl
    · simp only [hij, if_false] at hl ⊢
      exact hI.liveRes j hj hl
  · have hr := hI.semRunning
    simp only [running] at hr ⊢
    omega
  · intro hc
    have hab := hI.noAbort hc
    simp only at hab ⊢
    omega

theorem inv_cancel {P : Pool α β} {s : PoolState α β} (hI : Inv P s) : Inv P { s with cancelled := true } := by
  refine ⟨hI.lenPhase, hI.lenOut, hI.lenErr, hI.semLe, hI.doneRes, hI.abortedRes, hI.liveRes, hI.semRunning, ?_⟩
  intro h; simp at h

theorem inv_abort {P : Pool α β} {s : PoolState α β} (hI : Inv P s) {i : Nat} (hok : abortOk s i) :
    Inv P { s with phase := s.phase.set i .aborted, errors := s.errors.set i (some ItemOutcome.abortMsg) } := by
  obtain ⟨hph, hc⟩ := hok
  have hi : i < P.n := lt_of_phase hI hph
  obtain ⟨ho, _⟩ := hI.liveRes i hi (Or.inl hph)
  have hie : i < s.errors.length := by rw [hI.lenErr]; exact hi
  have hip : i < s.phase.length := by rw [hI.lenPhase]; exact hi
  have h1 := countP_set_of_getElem? (p := isRunning) (b := .aborted) hph
  simp [isRunning] at h1
  refine ⟨by simp [hI.lenPhase], hI.lenOut, by simp [hI.lenErr], hI.semLe, ?_, ?_, ?_, ?_, ?_⟩
  · intro j b hb hd
    simp only [List.getElem?_set] at hd ⊢
    by_cases hij : i = j
    · subst hij; simp [hip] at hd
    · simp only [hij, if_false] at hd ⊢
      exact hI.doneRes j b hb hd
  · intro j hd
    simp only [List.getElem?_set] at hd ⊢
    by_cases hij : i = j
    · subst hij; simp [hie, ho]
    · simp only [hij, if_false] at hd ⊢
      exact hI.abortedRes j hd
  · intro j hj hl
    simp only [List.getElem?_set] at hl ⊢
    by_cases hij : i = j
    · subst hij; simp [hip] at hl
    · simp only [hij, if_false] at hl ⊢
      exact hI.liveRes j hj hl
  · have hr := hI.semRunning
    simp only [running] at hr ⊢
    omega
  · intro h; simp [hc] at h

theorem inv_step {P : Pool α β} {s s' : PoolState α β} (hI : Inv P s) {t : Tr} (h : step P s t = some s') :
    Inv P s' := by
  cases t with
  | acquire i =>
    simp only [step] at h
    split at h
    · cases h
    · split at h
      · cases h; exact inv_acquire hI ‹_›
      · cases h
  | finish i =>
    simp only [step] at h
    split at h
    · cases h
    · rename_i a ha
      split at h
      · cases h; exact inv_finish hI ha ‹_›
      · cases h
  | cancel =>
    simp only [step] at h
    split at h
    · cases h
    · cases h; exact inv_cancel hI
  | abort i =>
    simp only [step] at h
    split at h
    · cases h; exact inv_abort hI ‹_›
    · cases h

theorem inv_runSched {P : Pool α β} {s s' : PoolState α β} (hI : Inv P s) {sched : List Tr}
    (h : runSched P s sched = some s') : Inv P s' := by
  induction sched generalizing s with
  | nil => simp [runSched] at h; subst h; exact hI
  | cons t ts ih =>
    simp only [runSched] at h
    split at h
    · cases h
    · rename_i s1 h1
      exact ih (inv_step hI h1) h

theorem inv_reachable {P : Pool α β} {s : PoolState α β} (h : Reachable P s) : Inv P s := by
  obtain ⟨sched, hs⟩ := h
  exact inv_runSched (inv_init P) hs

/-! ### cancellation is monotone, and uncancelled runs contain no cancel / abort -/

theorem cancelled_step {P : Pool α β} {s s' : PoolState α β} {t : Tr} (h : step P s t = some s')
    (hc : s.cancelled = true) : s'.cancelled = true := by
  cases t with
  | acquire i =>
    simp only [step] at h
    split at h
    · cases h
    · split at h
      · cases h; exact hc
      · cases h
  | finish i =>
    simp only [step] at h
    split at h
    · cases h
    · split at h
      · cases h <;> simp [hc]
      · cases h
  | cancel =>
    simp only [step] at h
    split at h
    · cases h
    · cases h
  | abort i =>
    simp only [step] at h
    split at h
    · cases h; exact hc
    · cases h

theorem cancelled_runSched {P : Pool α β} {s s' : PoolState α β} {sched : List Tr}
    (h : runSched P s sched = some s') (hc : s.cancelled = true) : s'.cancelled = true := by
  induction sched generalizing s with
  | nil => simp [runSched] at h; subst h; exact hc
  | cons t ts ih =>
    simp only [runSched] at h
    split at h
    · cases h
    · rename_i s1 h1
      exact ih h (cancelled_step h1 hc)

end Arca.Model.ForeachPool
