/-
Helper lemmas for C09: the inductive invariant of the plugin provider's state model (`Arca.Model.PluginState`): which
`r.state` / `r.currentStage` another goroutine can observe at which point of `run()`.
-/
import Arca.Model.PluginState

namespace Arca.Proofs.PluginState
open Arca.Model.PluginState

/-- what the raw state, the stage, the input flags / channels and the loop-side record look like at each program point
    of `run()` -/
def inv (s : St) : Bool :=
  let dEq := s.deployOcc == s.deployAvail     -- deploy input not consumed yet
  let eEq := s.enabledOcc == s.enabledAvail   -- enabling input not consumed yet
  let rEq := s.runOcc == s.runAvail           -- run input not consumed yet
  let rep (x : Stage) := s.reportedStage == some x
  let runFacts := if s.early then s.runAvail && !s.runOcc else rEq
  -- an input flag that is not set means an empty channel
  (s.deployAvail || !s.deployOcc) && (s.enabledAvail || !s.enabledOcc) && (s.runAvail || !s.runOcc) &&
  (match s.pc with
   | .dLock => s.state == .starting && s.stage == .deploy && dEq && eEq && rEq && s.reportedStage == none && !s.completed
   | .dCb => s.state == .running && s.stage == .deploy && dEq && eEq && rEq && s.reportedStage == none && !s.completed
   | .dCbRet => s.state == .running && s.stage == .deploy && dEq && eEq && rEq && rep .deploy && !s.completed
   | .dTry => s.state == .running && s.stage == .deploy && dEq && eEq && rEq && rep .deploy && !s.completed
   | .dSetWaiting => s.state == .running && s.stage == .deploy && dEq && eEq && rEq && rep .deploy && !s.completed
   | .dWait => (s.state == .waiting || (s.state == .running && s.deployAvail)) && s.stage == .deploy && dEq && eEq && rEq &&
       rep .deploy && !s.completed
   | .dGotEarly => s.state == .running && s.stage == .deploy && s.deployAvail && eEq && rEq && rep .deploy && !s.completed
   | .dGotLate => (s.state == .waiting || s.state == .running) && s.stage == .deploy && s.deployAvail && eEq && rEq &&
       rep .deploy && !s.completed
   | .dDeploying => s.state == .running && s.stage == .deploy && eEq && rEq && rep .deploy && !s.completed
   | .spCheck => s.state == .running && s.stage == .deploy && eEq && rEq && rep .deploy && !s.completed
   | .eLock => s.state == .running && s.stage == .deploy && eEq && rEq && rep .deploy && !s.completed
   | .eCb => s.state == .waiting && s.stage == .enabling && eEq && rEq && rep .deploy && !s.completed
   | .eCbRet => s.state == .waiting && s.stage == .enabling && eEq && rEq && rep .enabling && !s.completed
   | .eWait => s.state == .waiting && s.stage == .enabling && eEq && rEq && rep .enabling && !s.completed
   | .eGotTrue => s.state == .waiting && s.stage == .enabling && s.enabledAvail && rEq && rep .enabling && !s.completed
   | .sTry => s.state == .waiting && s.stage == .enabling && s.enabledAvail && rEq && rep .enabling && !s.completed
   | .transLock .starting st => s.state == .waiting && s.stage == .enabling && s.enabledAvail && runFacts &&
       st == (if s.early then .running else .waiting) && rep .enabling && !s.completed
   | .transLock .disabled st => s.state == .waiting && s.stage == .enabling && s.enabledAvail && st == .running &&
       rep .enabling && !s.completed
   | .transLock .running st => s.state == .running && s.stage == .starting && st == .running && rep .starting && !s.completed
   | .transLock .outputs st => s.state == .running && s.stage == .running && st == .running && rep .running && !s.completed
   | .transLock .crashed st => s.state == .running && s.stage == .running && st == .running && rep .running && !s.completed
   | .transLock .deployFailed st => s.state == .running && s.stage == .deploy && st == .running && rep .deploy && !s.completed
   | .transLock .closed st => s.state == .running && s.stage == .deploy && st == .running && rep .deploy && !s.completed
   | .transLock .deploy _ => false
   | .transLock .enabling _ => false
   | .transCb .starting => s.stage == .starting && s.state == (if s.early then .running else .waiting) && runFacts &&
       rep .enabling && !s.completed
   | .transCb .disabled => s.state == .running && s.stage == .disabled && rep .enabling && !s.completed
   | .transCb .running => s.state == .running && s.stage == .running && rep .starting && !s.completed
   | .transCb .outputs => s.state == .running && s.stage == .outputs && rep .running && !s.completed
   | .transCb .crashed => s.state == .running && s.stage == .crashed && rep .running && !s.completed
   | .transCb .deployFailed => s.state == .running && s.stage == .deployFailed && rep .deploy && !s.completed
   | .transCb .closed => s.state == .running && s.stage == .closed && rep .deploy && !s.completed
   | .transCb .deploy => false
   | .transCb .enabling => false
   | .transCbRet .starting => s.stage == .starting && s.state == (if s.early then .running else .waiting) && runFacts &&
       rep .starting && !s.completed
   | .transCbRet .deploy => false
   | .transCbRet .enabling => false
   | .transCbRet tgt => s.state == .running && s.stage == tgt && rep tgt && !s.completed
   | .sCheck => s.state == .waiting && s.stage == .starting && !s.early && rEq && rep .starting && !s.completed
   | .sWait => s.state == .waiting && s.stage == .starting && !s.early && rEq && rep .starting && !s.completed
   | .sGotLate => s.state == .waiting && s.stage == .starting && !s.early && s.runAvail && rep .starting && !s.completed
   | .sSchema => s.state == .running && s.stage == .starting && rep .starting && !s.completed
   | .rWait => s.state == .running && s.stage == .running && rep .running && !s.completed
   | .failedLock .closed =>
       (s.state == .waiting || (s.state == .running && s.stage == .deploy && s.deployAvail)) &&
       (s.stage == .deploy || s.stage == .enabling || s.stage == .starting) &&
       s.ctxDone && s.reportedStage == some s.stage && !s.completed
   | .failedLock .crashed => s.state == .running && s.stage == .starting && !s.completed
   | .failedLock _ => false
   | .failedCb tgt => s.state == .running && s.stage == tgt && (tgt == .closed || tgt == .crashed) && !s.completed
   | .complLock tgt => s.state == .running && s.stage == tgt && !s.completed
   | .complCb tgt => s.state == .finished && s.stage == tgt && !s.completed
   | .complCbRet tgt => s.state == .finished && s.stage == tgt && s.completed
   | .tailFail => s.state == .finished && s.completed
   | .tailClose => s.state == .finished && s.completed
   | .done => s.state == .finished && s.completed)

theorem inv_init : inv init = true := by decide

/-- closure under one action: fix the action and the program point, compute, discharge -/
macro "close_tac" hi:ident hs:ident pc:ident stv:ident ev:ident : tactic => `(tactic| (
  rcases $pc:ident with _|_|_|_|_|_|_|_|_|_|_|_|_|_|_|_|_|_|_|_|_|⟨tgt,st⟩|⟨tgt⟩|⟨tgt⟩|⟨tgt⟩|⟨tgt⟩|⟨tgt⟩|⟨tgt⟩|⟨tgt⟩|_|_|_
  all_goals (try cases tgt)
  all_goals (try cases st)
  all_goals (simp [step, afterTrans] at $hs:ident)
  all_goals (try (repeat' split at $hs:ident))
  all_goals (try (obtain ⟨_, $hs:ident⟩ := $hs:ident))
  all_goals (try subst $hs:ident)
  all_goals (simp_all [inv])
  all_goals (try (cases $stv:ident <;> simp_all))
  all_goals (try (cases $ev:ident <;> simp_all))))

theorem inv_provideDeploy (s s' : St) (hi : inv s = true) (hs : step s (.provideDeploy) = some s') : inv s' = true := by
  rcases s with ⟨pc, state, stage, dA, eA, rA, dO, eO, eV, rO, early, ctx, rep, compl⟩
  close_tac hi hs pc state early

theorem inv_provideEnabling (s s' : St) (b : Bool) (hi : inv s = true) (hs : step s (.provideEnabling b) = some s') : inv s' = true := by
  rcases s with ⟨pc, state, stage, dA, eA, rA, dO, eO, eV, rO, early, ctx, rep, compl⟩
  close_tac hi hs pc state early

theorem inv_provideStarting (s s' : St) (hi : inv s = true) (hs : step s (.provideStarting) = some s') : inv s' = true := by
  rcases s with ⟨pc, state, stage, dA, eA, rA, dO, eO, eV, rO, early, ctx, rep, compl⟩
  close_tac hi hs pc state early

theorem inv_cancel (s s' : St) (hi : inv s = true) (hs : step s (.cancel) = some s') : inv s' = true := by
  rcases s with ⟨pc, state, stage, dA, eA, rA, dO, eO, eV, rO, early, ctx, rep, compl⟩
  close_tac hi hs pc state early

theorem inv_internal (s s' : St) (hi : inv s = true) (hs : step s (.internal) = some s') : inv s' = true := by
  rcases s with ⟨pc, state, stage, dA, eA, rA, dO, eO, eV, rO, early, ctx, rep, compl⟩
  close_tac hi hs pc state early

theorem inv_deliver (s s' : St) (hi : inv s = true) (hs : step s (.deliver) = some s') : inv s' = true := by
  rcases s with ⟨pc, state, stage, dA, eA, rA, dO, eO, eV, rO, early, ctx, rep, compl⟩
  close_tac hi hs pc state early

theorem inv_deliverFailure (s s' : St) (hi : inv s = true) (hs : step s (.deliverFailure) = some s') : inv s' = true := by
  rcases s with ⟨pc, state, stage, dA, eA, rA, dO, eO, eV, rO, early, ctx, rep, compl⟩
  close_tac hi hs pc state early

theorem inv_recv (s s' : St) (hi : inv s = true) (hs : step s (.recv) = some s') : inv s' = true := by
  rcases s with ⟨pc, state, stage, dA, eA, rA, dO, eO, eV, rO, early, ctx, rep, compl⟩
  close_tac hi hs pc state early

theorem inv_ctx (s s' : St) (hi : inv s = true) (hs : step s (.ctx) = some s') : inv s' = true := by
  rcases s with ⟨pc, state, stage, dA, eA, rA, dO, eO, eV, rO, early, ctx, rep, compl⟩
  close_tac hi hs pc state early

theorem inv_deployOk (s s' : St) (hi : inv s = true) (hs : step s (.deployOk) = some s') : inv s' = true := by
  rcases s with ⟨pc, state, stage, dA, eA, rA, dO, eO, eV, rO, early, ctx, rep, compl⟩
  close_tac hi hs pc state early

theorem inv_deployFail (s s' : St) (hi : inv s = true) (hs : step s (.deployFail) = some s') : inv s' = true := by
  rcases s with ⟨pc, state, stage, dA, eA, rA, dO, eO, eV, rO, early, ctx, rep, compl⟩
  close_tac hi hs pc state early

theorem inv_startOk (s s' : St) (hi : inv s = true) (hs : step s (.startOk) = some s') : inv s' = true := by
  rcases s with ⟨pc, state, stage, dA, eA, rA, dO, eO, eV, rO, early, ctx, rep, compl⟩
  close_tac hi hs pc state early

theorem inv_startFail (s s' : St) (hi : inv s = true) (hs : step s (.startFail) = some s') : inv s' = true := by
  rcases s with ⟨pc, state, stage, dA, eA, rA, dO, eO, eV, rO, early, ctx, rep, compl⟩
  close_tac hi hs pc state early

theorem inv_resultOk (s s' : St) (hi : inv s = true) (hs : step s (.resultOk) = some s') : inv s' = true := by
  rcases s with ⟨pc, state, stage, dA, eA, rA, dO, eO, eV, rO, early, ctx, rep, compl⟩
  close_tac hi hs pc state early

theorem inv_resultErr (s s' : St) (hi : inv s = true) (hs : step s (.resultErr) = some s') : inv s' = true := by
  rcases s with ⟨pc, state, stage, dA, eA, rA, dO, eO, eV, rO, early, ctx, rep, compl⟩
  close_tac hi hs pc state early

theorem inv_step (s s' : St) (a : Act) (hi : inv s = true) (hs : step s a = some s') : inv s' = true := by
  cases a with
  | provideDeploy => exact inv_provideDeploy s s' hi hs
  | provideEnabling b => exact inv_provideEnabling s s' b hi hs
  | provideStarting => exact inv_provideStarting s s' hi hs
  | cancel => exact inv_cancel s s' hi hs
  | internal => exact inv_internal s s' hi hs
  | deliver => exact inv_deliver s s' hi hs
  | deliverFailure => exact inv_deliverFailure s s' hi hs
  | recv => exact inv_recv s s' hi hs
  | ctx => exact inv_ctx s s' hi hs
  | deployOk => exact inv_deployOk s s' hi hs
  | deployFail => exact inv_deployFail s s' hi hs
  | startOk => exact inv_startOk s s' hi hs
  | startFail => exact inv_startFail s s' hi hs
  | resultOk => exact inv_resultOk s s' hi hs
  | resultErr => exact inv_resultErr s s' hi hs

theorem reachable_inv (s : St) (hr : Reachable s) : inv s = true := by
  induction hr with
  | init => exact inv_init
  | step a _ hs ih => exact inv_step _ _ a ih hs

/-! ### the poll model -/

theorem fires_take (r : Nat) : ∀ (polls : List (List RState)), detectorFires r polls = true →
    (polls.take (r + 1)).length = r + 1 ∧ (polls.take (r + 1)).all idle = true := by
  induction r with
  | zero =>
    intro polls h
    cases polls with
    | nil => simp [detectorFires] at h
    | cons p rest => simp [detectorFires] at h; simp [h]
  | succ r ih =>
    intro polls h
    cases polls with
    | nil => simp [detectorFires] at h
    | cons p rest =>
      simp only [detectorFires, Bool.and_eq_true] at h
      obtain ⟨h1, h2⟩ := ih rest h.2
      refine ⟨by simp [List.take, h1], ?_⟩
      simp only [List.take, List.all_cons, Bool.and_eq_true]
      exact ⟨h.1, h2⟩

theorem busy_poll_stops (r : Nat) : ∀ (polls : List (List RState)) (i : Nat) (p : List RState), i ≤ r →
    polls[i]? = some p → idle p = false → detectorFires r polls = false := by
  induction r with
  | zero =>
    intro polls i p hi hp hidle
    have : i = 0 := by omega
    subst this
    cases polls with
    | nil => simp at hp
    | cons q rest => simp at hp; subst hp; simp [detectorFires, hidle]
  | succ r ih =>
    intro polls i p hi hp hidle
    cases polls with
    | nil => simp at hp
    | cons q rest =>
      cases i with
      | zero => simp at hp; subst hp; simp [detectorFires, hidle]
      | succ j =>
        simp at hp
        simp [detectorFires, ih rest j p (by omega) hp hidle]

/-! ### consequences -/

/-- unfold everything the detector-side definitions are made of -/
macro "unfold_defs" : tactic => `(tactic| simp [Quiescent, Settled, progressActs, step, afterTrans, InWindow, inDeployRace,
  inEnableWindow, inStartWindow, inCompletionWindow, inClosingWindow, inFailureTail, countsAs, reportedState,
  currentStageInputAvailable, Refined, owesCheck, checkingReportPending] at *)

/-- the RAW `waiting_for_input` or `finished` is observed either in a quiescent state or in one of the listed windows -/
theorem raw_classified (s : St) (hi : inv s = true) (hw : s.state = .waiting ∨ s.state = .finished) :
    Quiescent s = true ∨ InWindow s = true := by
  rcases s with ⟨pc, state, stage, dA, eA, rA, dO, eO, eV, rO, early, ctx, rep, compl⟩
  rcases pc with _|_|_|_|_|_|_|_|_|_|_|_|_|_|_|_|_|_|_|_|_|⟨tgt,st⟩|⟨tgt⟩|⟨tgt⟩|⟨tgt⟩|⟨tgt⟩|⟨tgt⟩|⟨tgt⟩|⟨tgt⟩|_|_|_
  all_goals (try cases tgt)
  all_goals (try cases st)
  all_goals (simp [inv] at hi)
  all_goals (simp [Quiescent, progressActs, step, afterTrans, InWindow, inDeployRace, inEnableWindow, inStartWindow,
    inCompletionWindow, inClosingWindow])
  all_goals (try (rcases hw with hw | hw <;> simp_all))
  all_goals (try (cases dO <;> cases ctx <;> simp_all))
  all_goals (try (cases eO <;> cases ctx <;> simp_all))
  all_goals (try (cases rO <;> cases ctx <;> simp_all))

/-- the shape of the quiescent states -/
theorem quiescent_shape (s : St) (hi : inv s = true) (hq : Quiescent s = true) :
    (s.pc = .dWait ∧ s.deployOcc = false ∧ s.ctxDone = false) ∨ (s.pc = .eWait ∧ s.enabledOcc = false ∧ s.ctxDone = false) ∨
    (s.pc = .sWait ∧ s.runOcc = false ∧ s.ctxDone = false) ∨ s.pc = .done := by
  rcases s with ⟨pc, state, stage, dA, eA, rA, dO, eO, eV, rO, early, ctx, rep, compl⟩
  rcases pc with _|_|_|_|_|_|_|_|_|_|_|_|_|_|_|_|_|_|_|_|_|⟨tgt,st⟩|⟨tgt⟩|⟨tgt⟩|⟨tgt⟩|⟨tgt⟩|⟨tgt⟩|⟨tgt⟩|⟨tgt⟩|_|_|_
  all_goals (try cases tgt)
  all_goals (try cases st)
  all_goals (simp [Quiescent, progressActs, step, afterTrans] at hq)
  all_goals (try (split at hq <;> simp at hq))
  all_goals (try simp_all)
  all_goals (simp [inv] at hi)

/-- stage `deploy`, raw state `waiting_for_input`, input provided: only in the deploy race or while being closed -/
theorem deploy_waiting_provided (s : St) (hi : inv s = true) (hst : s.stage = .deploy) (hw : s.state = .waiting)
    (ha : s.deployAvail = true) : inDeployRace s = true ∨ s.pc = .failedLock .closed := by
  rcases s with ⟨pc, state, stage, dA, eA, rA, dO, eO, eV, rO, early, ctx, rep, compl⟩
  rcases pc with _|_|_|_|_|_|_|_|_|_|_|_|_|_|_|_|_|_|_|_|_|⟨tgt,st⟩|⟨tgt⟩|⟨tgt⟩|⟨tgt⟩|⟨tgt⟩|⟨tgt⟩|⟨tgt⟩|⟨tgt⟩|_|_|_
  all_goals (try cases tgt)
  all_goals (try cases st)
  all_goals (simp [inv] at hi)
  all_goals (simp [inDeployRace])
  all_goals (simp_all)

set_option maxRecDepth 4000

/-- counted as `waiting`, context not cancelled: parked on an empty channel, or about to park silently -/
theorem counts_waiting_settled (s : St) (hi : inv s = true) (hc : countsAs s = .waiting) (hctx : s.ctxDone = false) :
    Settled s = true := by
  rcases s with ⟨pc, state, stage, dA, eA, rA, dO, eO, eV, rO, early, ctx, rep, compl⟩
  rcases pc with _|_|_|_|_|_|_|_|_|_|_|_|_|_|_|_|_|_|_|_|_|⟨tgt,st⟩|⟨tgt⟩|⟨tgt⟩|⟨tgt⟩|⟨tgt⟩|⟨tgt⟩|⟨tgt⟩|⟨tgt⟩|_|_|_
  all_goals (try cases tgt)
  all_goals (try cases st)
  all_goals (simp [inv] at hi)
  all_goals (try (simp_all [Quiescent, Settled, progressActs, step, afterTrans, countsAs, reportedState, currentStageInputAvailable, inFailureTail, Refined, owesCheck, checkingReportPending]; done))
  all_goals (try (cases dA <;> simp_all [Quiescent, Settled, progressActs, step, afterTrans, countsAs, reportedState, currentStageInputAvailable, inFailureTail, Refined, owesCheck, checkingReportPending]; done))
  all_goals (try (cases eA <;> simp_all [Quiescent, Settled, progressActs, step, afterTrans, countsAs, reportedState, currentStageInputAvailable, inFailureTail, Refined, owesCheck, checkingReportPending]; done))
  all_goals (try (cases rA <;> simp_all [Quiescent, Settled, progressActs, step, afterTrans, countsAs, reportedState, currentStageInputAvailable, inFailureTail, Refined, owesCheck, checkingReportPending]; done))
  all_goals (try (cases early <;> cases rA <;> simp_all [Quiescent, Settled, progressActs, step, afterTrans, countsAs, reportedState, currentStageInputAvailable, inFailureTail, Refined, owesCheck, checkingReportPending]; done))
  all_goals (try (cases dO <;> cases ctx <;> simp_all [Quiescent, Settled, progressActs, step, afterTrans, countsAs, reportedState, currentStageInputAvailable, inFailureTail, Refined, owesCheck, checkingReportPending]; done))
  all_goals (try (cases eO <;> cases ctx <;> simp_all [Quiescent, Settled, progressActs, step, afterTrans, countsAs, reportedState, currentStageInputAvailable, inFailureTail, Refined, owesCheck, checkingReportPending]; done))
  all_goals (try (cases rO <;> cases ctx <;> cases early <;> simp_all [Quiescent, Settled, progressActs, step, afterTrans, countsAs, reportedState, currentStageInputAvailable, inFailureTail, Refined, owesCheck, checkingReportPending]; done))
  all_goals (try (cases state <;> cases dA <;> cases dO <;> cases ctx <;> simp_all [Quiescent, Settled, progressActs, step, afterTrans, countsAs, reportedState, currentStageInputAvailable, inFailureTail, Refined, owesCheck, checkingReportPending]; done))
  all_goals (try (cases state <;> cases stage <;> cases dA <;> cases eA <;> cases rA <;> simp_all [Quiescent, Settled, progressActs, step, afterTrans, countsAs, reportedState, currentStageInputAvailable, inFailureTail, Refined, owesCheck, checkingReportPending]; done))

/-- counted as `finished`: nothing but the deferred closes is left, unless the failure notifications are still to come -/
theorem counts_finished_settled (s : St) (hi : inv s = true) (hc : countsAs s = .finished) (hft : inFailureTail s = false) :
    Settled s = true := by
  rcases s with ⟨pc, state, stage, dA, eA, rA, dO, eO, eV, rO, early, ctx, rep, compl⟩
  rcases pc with _|_|_|_|_|_|_|_|_|_|_|_|_|_|_|_|_|_|_|_|_|⟨tgt,st⟩|⟨tgt⟩|⟨tgt⟩|⟨tgt⟩|⟨tgt⟩|⟨tgt⟩|⟨tgt⟩|⟨tgt⟩|_|_|_
  all_goals (try cases tgt)
  all_goals (try cases st)
  all_goals (simp [inv] at hi)
  all_goals (try (simp_all [Quiescent, Settled, progressActs, step, afterTrans, countsAs, reportedState, currentStageInputAvailable, inFailureTail, Refined, owesCheck, checkingReportPending]; done))
  all_goals (try (cases dA <;> simp_all [Quiescent, Settled, progressActs, step, afterTrans, countsAs, reportedState, currentStageInputAvailable, inFailureTail, Refined, owesCheck, checkingReportPending]; done))
  all_goals (try (cases eA <;> simp_all [Quiescent, Settled, progressActs, step, afterTrans, countsAs, reportedState, currentStageInputAvailable, inFailureTail, Refined, owesCheck, checkingReportPending]; done))
  all_goals (try (cases rA <;> simp_all [Quiescent, Settled, progressActs, step, afterTrans, countsAs, reportedState, currentStageInputAvailable, inFailureTail, Refined, owesCheck, checkingReportPending]; done))
  all_goals (try (cases early <;> cases rA <;> simp_all [Quiescent, Settled, progressActs, step, afterTrans, countsAs, reportedState, currentStageInputAvailable, inFailureTail, Refined, owesCheck, checkingReportPending]; done))
  all_goals (try (cases dO <;> cases ctx <;> simp_all [Quiescent, Settled, progressActs, step, afterTrans, countsAs, reportedState, currentStageInputAvailable, inFailureTail, Refined, owesCheck, checkingReportPending]; done))
  all_goals (try (cases eO <;> cases ctx <;> simp_all [Quiescent, Settled, progressActs, step, afterTrans, countsAs, reportedState, currentStageInputAvailable, inFailureTail, Refined, owesCheck, checkingReportPending]; done))
  all_goals (try (cases rO <;> cases ctx <;> cases early <;> simp_all [Quiescent, Settled, progressActs, step, afterTrans, countsAs, reportedState, currentStageInputAvailable, inFailureTail, Refined, owesCheck, checkingReportPending]; done))
  all_goals (try (cases state <;> cases dA <;> cases dO <;> cases ctx <;> simp_all [Quiescent, Settled, progressActs, step, afterTrans, countsAs, reportedState, currentStageInputAvailable, inFailureTail, Refined, owesCheck, checkingReportPending]; done))
  all_goals (try (cases state <;> cases stage <;> cases dA <;> cases eA <;> cases rA <;> simp_all [Quiescent, Settled, progressActs, step, afterTrans, countsAs, reportedState, currentStageInputAvailable, inFailureTail, Refined, owesCheck, checkingReportPending]; done))

/-- wherever the refinement turns a raw `waiting_for_input` / `finished` into `running`, a checking report is owed -/
theorem refined_owes (s : St) (hi : inv s = true) (hr : Refined s = true) : owesCheck s = true := by
  rcases s with ⟨pc, state, stage, dA, eA, rA, dO, eO, eV, rO, early, ctx, rep, compl⟩
  rcases pc with _|_|_|_|_|_|_|_|_|_|_|_|_|_|_|_|_|_|_|_|_|⟨tgt,st⟩|⟨tgt⟩|⟨tgt⟩|⟨tgt⟩|⟨tgt⟩|⟨tgt⟩|⟨tgt⟩|⟨tgt⟩|_|_|_
  all_goals (try cases tgt)
  all_goals (try cases st)
  all_goals (simp [inv] at hi)
  all_goals (try (simp_all [Quiescent, Settled, progressActs, step, afterTrans, countsAs, reportedState, currentStageInputAvailable, inFailureTail, Refined, owesCheck, checkingReportPending]; done))
  all_goals (try (cases dA <;> simp_all [Quiescent, Settled, progressActs, step, afterTrans, countsAs, reportedState, currentStageInputAvailable, inFailureTail, Refined, owesCheck, checkingReportPending]; done))
  all_goals (try (cases eA <;> simp_all [Quiescent, Settled, progressActs, step, afterTrans, countsAs, reportedState, currentStageInputAvailable, inFailureTail, Refined, owesCheck, checkingReportPending]; done))
  all_goals (try (cases rA <;> simp_all [Quiescent, Settled, progressActs, step, afterTrans, countsAs, reportedState, currentStageInputAvailable, inFailureTail, Refined, owesCheck, checkingReportPending]; done))
  all_goals (try (cases early <;> cases rA <;> simp_all [Quiescent, Settled, progressActs, step, afterTrans, countsAs, reportedState, currentStageInputAvailable, inFailureTail, Refined, owesCheck, checkingReportPending]; done))
  all_goals (try (cases dO <;> cases ctx <;> simp_all [Quiescent, Settled, progressActs, step, afterTrans, countsAs, reportedState, currentStageInputAvailable, inFailureTail, Refined, owesCheck, checkingReportPending]; done))
  all_goals (try (cases eO <;> cases ctx <;> simp_all [Quiescent, Settled, progressActs, step, afterTrans, countsAs, reportedState, currentStageInputAvailable, inFailureTail, Refined, owesCheck, checkingReportPending]; done))
  all_goals (try (cases rO <;> cases ctx <;> cases early <;> simp_all [Quiescent, Settled, progressActs, step, afterTrans, countsAs, reportedState, currentStageInputAvailable, inFailureTail, Refined, owesCheck, checkingReportPending]; done))
  all_goals (try (cases state <;> cases dA <;> cases dO <;> cases ctx <;> simp_all [Quiescent, Settled, progressActs, step, afterTrans, countsAs, reportedState, currentStageInputAvailable, inFailureTail, Refined, owesCheck, checkingReportPending]; done))
  all_goals (try (cases state <;> cases stage <;> cases dA <;> cases eA <;> cases rA <;> simp_all [Quiescent, Settled, progressActs, step, afterTrans, countsAs, reportedState, currentStageInputAvailable, inFailureTail, Refined, owesCheck, checkingReportPending]; done))

/-- a step that owes a check is never quiescent -/
theorem owes_not_quiescent (s : St) (hi : inv s = true) (ho : owesCheck s = true) : Quiescent s = false := by
  rcases s with ⟨pc, state, stage, dA, eA, rA, dO, eO, eV, rO, early, ctx, rep, compl⟩
  rcases pc with _|_|_|_|_|_|_|_|_|_|_|_|_|_|_|_|_|_|_|_|_|⟨tgt,st⟩|⟨tgt⟩|⟨tgt⟩|⟨tgt⟩|⟨tgt⟩|⟨tgt⟩|⟨tgt⟩|⟨tgt⟩|_|_|_
  all_goals (try cases tgt)
  all_goals (try cases st)
  all_goals (simp [inv] at hi)
  all_goals (try (simp_all [Quiescent, Settled, progressActs, step, afterTrans, countsAs, reportedState, currentStageInputAvailable, inFailureTail, Refined, owesCheck, checkingReportPending]; done))
  all_goals (try (cases dA <;> simp_all [Quiescent, Settled, progressActs, step, afterTrans, countsAs, reportedState, currentStageInputAvailable, inFailureTail, Refined, owesCheck, checkingReportPending]; done))
  all_goals (try (cases eA <;> simp_all [Quiescent, Settled, progressActs, step, afterTrans, countsAs, reportedState, currentStageInputAvailable, inFailureTail, Refined, owesCheck, checkingReportPending]; done))
  all_goals (try (cases rA <;> simp_all [Quiescent, Settled, progressActs, step, afterTrans, countsAs, reportedState, currentStageInputAvailable, inFailureTail, Refined, owesCheck, checkingReportPending]; done))
  all_goals (try (cases early <;> cases rA <;> simp_all [Quiescent, Settled, progressActs, step, afterTrans, countsAs, reportedState, currentStageInputAvailable, inFailureTail, Refined, owesCheck, checkingReportPending]; done))
  all_goals (try (cases dO <;> cases ctx <;> simp_all [Quiescent, Settled, progressActs, step, afterTrans, countsAs, reportedState, currentStageInputAvailable, inFailureTail, Refined, owesCheck, checkingReportPending]; done))
  all_goals (try (cases eO <;> cases ctx <;> simp_all [Quiescent, Settled, progressActs, step, afterTrans, countsAs, reportedState, currentStageInputAvailable, inFailureTail, Refined, owesCheck, checkingReportPending]; done))
  all_goals (try (cases rO <;> cases ctx <;> cases early <;> simp_all [Quiescent, Settled, progressActs, step, afterTrans, countsAs, reportedState, currentStageInputAvailable, inFailureTail, Refined, owesCheck, checkingReportPending]; done))
  all_goals (try (cases state <;> cases dA <;> cases dO <;> cases ctx <;> simp_all [Quiescent, Settled, progressActs, step, afterTrans, countsAs, reportedState, currentStageInputAvailable, inFailureTail, Refined, owesCheck, checkingReportPending]; done))
  all_goals (try (cases state <;> cases stage <;> cases dA <;> cases eA <;> cases rA <;> simp_all [Quiescent, Settled, progressActs, step, afterTrans, countsAs, reportedState, currentStageInputAvailable, inFailureTail, Refined, owesCheck, checkingReportPending]; done))

/-- one action from a state that owes a check: either it is the processing of a checking report, or the check is still
    owed afterwards -/
macro "owes_tac" hs:ident pc:ident ev:ident : tactic => `(tactic| (
  rcases $pc:ident with _|_|_|_|_|_|_|_|_|_|_|_|_|_|_|_|_|_|_|_|_|⟨tgt,st⟩|⟨tgt⟩|⟨tgt⟩|⟨tgt⟩|⟨tgt⟩|⟨tgt⟩|⟨tgt⟩|⟨tgt⟩|_|_|_
  all_goals (try cases tgt)
  all_goals (try cases st)
  all_goals (simp [step, afterTrans] at $hs:ident)
  all_goals (try (repeat' split at $hs:ident))
  all_goals (try (obtain ⟨_, $hs:ident⟩ := $hs:ident))
  all_goals (try subst $hs:ident)
  all_goals (try (simp_all [inv, owesCheck, checkingReportPending]; done))
  all_goals (try (cases $ev:ident <;> simp_all [inv, owesCheck, checkingReportPending]; done))))

theorem owes_provideDeploy (s s' : St) (hi : inv s = true) (ho : owesCheck s = true)
    (hs : step s (.provideDeploy) = some s') : (Act.provideDeploy = Act.deliver ∧ checkingReportPending s = true) ∨ owesCheck s' = true := by
  rcases s with ⟨pc, state, stage, dA, eA, rA, dO, eO, eV, rO, early, ctx, rep, compl⟩
  owes_tac hs pc early

theorem owes_provideEnabling (s s' : St) (b : Bool) (hi : inv s = true) (ho : owesCheck s = true)
    (hs : step s (.provideEnabling b) = some s') : (Act.provideEnabling b = Act.deliver ∧ checkingReportPending s = true) ∨ owesCheck s' = true := by
  rcases s with ⟨pc, state, stage, dA, eA, rA, dO, eO, eV, rO, early, ctx, rep, compl⟩
  owes_tac hs pc early

theorem owes_provideStarting (s s' : St) (hi : inv s = true) (ho : owesCheck s = true)
    (hs : step s (.provideStarting) = some s') : (Act.provideStarting = Act.deliver ∧ checkingReportPending s = true) ∨ owesCheck s' = true := by
  rcases s with ⟨pc, state, stage, dA, eA, rA, dO, eO, eV, rO, early, ctx, rep, compl⟩
  owes_tac hs pc early

theorem owes_cancel (s s' : St) (hi : inv s = true) (ho : owesCheck s = true)
    (hs : step s (.cancel) = some s') : (Act.cancel = Act.deliver ∧ checkingReportPending s = true) ∨ owesCheck s' = true := by
  rcases s with ⟨pc, state, stage, dA, eA, rA, dO, eO, eV, rO, early, ctx, rep, compl⟩
  owes_tac hs pc early

theorem owes_internal (s s' : St) (hi : inv s = true) (ho : owesCheck s = true)
    (hs : step s (.internal) = some s') : (Act.internal = Act.deliver ∧ checkingReportPending s = true) ∨ owesCheck s' = true := by
  rcases s with ⟨pc, state, stage, dA, eA, rA, dO, eO, eV, rO, early, ctx, rep, compl⟩
  owes_tac hs pc early

theorem owes_deliver (s s' : St) (hi : inv s = true) (ho : owesCheck s = true)
    (hs : step s (.deliver) = some s') : (Act.deliver = Act.deliver ∧ checkingReportPending s = true) ∨ owesCheck s' = true := by
  rcases s with ⟨pc, state, stage, dA, eA, rA, dO, eO, eV, rO, early, ctx, rep, compl⟩
  owes_tac hs pc early

theorem owes_deliverFailure (s s' : St) (hi : inv s = true) (ho : owesCheck s = true)
    (hs : step s (.deliverFailure) = some s') : (Act.deliverFailure = Act.deliver ∧ checkingReportPending s = true) ∨ owesCheck s' = true := by
  rcases s with ⟨pc, state, stage, dA, eA, rA, dO, eO, eV, rO, early, ctx, rep, compl⟩
  owes_tac hs pc early

theorem owes_recv (s s' : St) (hi : inv s = true) (ho : owesCheck s = true)
    (hs : step s (.recv) = some s') : (Act.recv = Act.deliver ∧ checkingReportPending s = true) ∨ owesCheck s' = true := by
  rcases s with ⟨pc, state, stage, dA, eA, rA, dO, eO, eV, rO, early, ctx, rep, compl⟩
  owes_tac hs pc early

theorem owes_ctx (s s' : St) (hi : inv s = true) (ho : owesCheck s = true)
    (hs : step s (.ctx) = some s') : (Act.ctx = Act.deliver ∧ checkingReportPending s = true) ∨ owesCheck s' = true := by
  rcases s with ⟨pc, state, stage, dA, eA, rA, dO, eO, eV, rO, early, ctx, rep, compl⟩
  owes_tac hs pc early

theorem owes_deployOk (s s' : St) (hi : inv s = true) (ho : owesCheck s = true)
    (hs : step s (.deployOk) = some s') : (Act.deployOk = Act.deliver ∧ checkingReportPending s = true) ∨ owesCheck s' = true := by
  rcases s with ⟨pc, state, stage, dA, eA, rA, dO, eO, eV, rO, early, ctx, rep, compl⟩
  owes_tac hs pc early

theorem owes_deployFail (s s' : St) (hi : inv s = true) (ho : owesCheck s = true)
    (hs : step s (.deployFail) = some s') : (Act.deployFail = Act.deliver ∧ checkingReportPending s = true) ∨ owesCheck s' = true := by
  rcases s with ⟨pc, state, stage, dA, eA, rA, dO, eO, eV, rO, early, ctx, rep, compl⟩
  owes_tac hs pc early

theorem owes_startOk (s s' : St) (hi : inv s = true) (ho : owesCheck s = true)
    (hs : step s (.startOk) = some s') : (Act.startOk = Act.deliver ∧ checkingReportPending s = true) ∨ owesCheck s' = true := by
  rcases s with ⟨pc, state, stage, dA, eA, rA, dO, eO, eV, rO, early, ctx, rep, compl⟩
  owes_tac hs pc early

theorem owes_startFail (s s' : St) (hi : inv s = true) (ho : owesCheck s = true)
    (hs : step s (.startFail) = some s') : (Act.startFail = Act.deliver ∧ checkingReportPending s = true) ∨ owesCheck s' = true := by
  rcases s with ⟨pc, state, stage, dA, eA, rA, dO, eO, eV, rO, early, ctx, rep, compl⟩
  owes_tac hs pc early

theorem owes_resultOk (s s' : St) (hi : inv s = true) (ho : owesCheck s = true)
    (hs : step s (.resultOk) = some s') : (Act.resultOk = Act.deliver ∧ checkingReportPending s = true) ∨ owesCheck s' = true := by
  rcases s with ⟨pc, state, stage, dA, eA, rA, dO, eO, eV, rO, early, ctx, rep, compl⟩
  owes_tac hs pc early

theorem owes_resultErr (s s' : St) (hi : inv s = true) (ho : owesCheck s = true)
    (hs : step s (.resultErr) = some s') : (Act.resultErr = Act.deliver ∧ checkingReportPending s = true) ∨ owesCheck s' = true := by
  rcases s with ⟨pc, state, stage, dA, eA, rA, dO, eO, eV, rO, early, ctx, rep, compl⟩
  owes_tac hs pc early

theorem owes_step (s s' : St) (a : Act) (hi : inv s = true) (ho : owesCheck s = true) (hs : step s a = some s') :
    (a = Act.deliver ∧ checkingReportPending s = true) ∨ owesCheck s' = true := by
  cases a with
  | provideDeploy => exact owes_provideDeploy s s' hi ho hs
  | provideEnabling b => exact owes_provideEnabling s s' b hi ho hs
  | provideStarting => exact owes_provideStarting s s' hi ho hs
  | cancel => exact owes_cancel s s' hi ho hs
  | internal => exact owes_internal s s' hi ho hs
  | deliver => exact owes_deliver s s' hi ho hs
  | deliverFailure => exact owes_deliverFailure s s' hi ho hs
  | recv => exact owes_recv s s' hi ho hs
  | ctx => exact owes_ctx s s' hi ho hs
  | deployOk => exact owes_deployOk s s' hi ho hs
  | deployFail => exact owes_deployFail s s' hi ho hs
  | startOk => exact owes_startOk s s' hi ho hs
  | startFail => exact owes_startFail s s' hi ho hs
  | resultOk => exact owes_resultOk s s' hi ho hs
  | resultErr => exact owes_resultErr s s' hi ho hs

/-- from a settled state the only moves left are silent local ones, and they lead to settled states -/
theorem settled_step (s s' : St) (a : Act) (hs : Settled s = true) (ha : a ∈ progressActs) (hstep : step s a = some s') :
    a = .internal ∧ Settled s' = true := by
  rcases s with ⟨pc, state, stage, dA, eA, rA, dO, eO, eV, rO, early, ctx, rep, compl⟩
  simp only [progressActs, List.mem_cons, List.mem_nil_iff, or_false] at ha
  rcases pc with _|_|_|_|_|_|_|_|_|_|_|_|_|_|_|_|_|_|_|_|_|⟨tgt,st⟩|⟨tgt⟩|⟨tgt⟩|⟨tgt⟩|⟨tgt⟩|⟨tgt⟩|⟨tgt⟩|⟨tgt⟩|_|_|_
  all_goals (try cases tgt)
  all_goals (rcases ha with rfl | rfl | rfl | rfl | rfl | rfl | rfl | rfl | rfl | rfl | rfl)
  all_goals (simp [step, afterTrans] at hstep)
  all_goals (try (repeat' split at hstep))
  all_goals (try (obtain ⟨_, hstep⟩ := hstep))
  all_goals (try subst hstep)
  all_goals (try (simp_all [Settled, Quiescent, progressActs, step, afterTrans]; done))

/-- counted as `waiting` in stage `deploy`, context not cancelled: parked on the empty channel, input not provided -/
theorem deploy_counts_waiting (s : St) (hi : inv s = true) (hst : s.stage = .deploy) (hc : countsAs s = .waiting)
    (hctx : s.ctxDone = false) : Quiescent s = true ∧ s.deployAvail = false := by
  rcases s with ⟨pc, state, stage, dA, eA, rA, dO, eO, eV, rO, early, ctx, rep, compl⟩
  rcases pc with _|_|_|_|_|_|_|_|_|_|_|_|_|_|_|_|_|_|_|_|_|⟨tgt,st⟩|⟨tgt⟩|⟨tgt⟩|⟨tgt⟩|⟨tgt⟩|⟨tgt⟩|⟨tgt⟩|⟨tgt⟩|_|_|_
  all_goals (try cases tgt)
  all_goals (try cases st)
  all_goals (simp [inv] at hi)
  all_goals (try (simp_all [Quiescent, Settled, progressActs, step, afterTrans, countsAs, reportedState, currentStageInputAvailable, inFailureTail, Refined, owesCheck, checkingReportPending]; done))
  all_goals (try (cases dA <;> simp_all [Quiescent, Settled, progressActs, step, afterTrans, countsAs, reportedState, currentStageInputAvailable, inFailureTail, Refined, owesCheck, checkingReportPending]; done))
  all_goals (try (cases eA <;> simp_all [Quiescent, Settled, progressActs, step, afterTrans, countsAs, reportedState, currentStageInputAvailable, inFailureTail, Refined, owesCheck, checkingReportPending]; done))
  all_goals (try (cases rA <;> simp_all [Quiescent, Settled, progressActs, step, afterTrans, countsAs, reportedState, currentStageInputAvailable, inFailureTail, Refined, owesCheck, checkingReportPending]; done))
  all_goals (try (cases early <;> cases rA <;> simp_all [Quiescent, Settled, progressActs, step, afterTrans, countsAs, reportedState, currentStageInputAvailable, inFailureTail, Refined, owesCheck, checkingReportPending]; done))
  all_goals (try (cases state <;> cases dA <;> cases dO <;> cases ctx <;> simp_all [Quiescent, Settled, progressActs, step, afterTrans, countsAs, reportedState, currentStageInputAvailable, inFailureTail, Refined, owesCheck, checkingReportPending]; done))
  all_goals (try (cases state <;> cases stage <;> cases dA <;> cases eA <;> cases rA <;> simp_all [Quiescent, Settled, progressActs, step, afterTrans, countsAs, reportedState, currentStageInputAvailable, inFailureTail, Refined, owesCheck, checkingReportPending]; done))

/-- counted as `waiting` with the context cancelled: `run()` is on its way to report that it was closed -/
theorem counts_waiting_ctx_owes (s : St) (hi : inv s = true) (hc : countsAs s = .waiting) (hctx : s.ctxDone = true) :
    owesCheck s = true := by
  rcases s with ⟨pc, state, stage, dA, eA, rA, dO, eO, eV, rO, early, ctx, rep, compl⟩
  rcases pc with _|_|_|_|_|_|_|_|_|_|_|_|_|_|_|_|_|_|_|_|_|⟨tgt,st⟩|⟨tgt⟩|⟨tgt⟩|⟨tgt⟩|⟨tgt⟩|⟨tgt⟩|⟨tgt⟩|⟨tgt⟩|_|_|_
  all_goals (try cases tgt)
  all_goals (try cases st)
  all_goals (simp [inv] at hi)
  all_goals (try (simp_all [Quiescent, Settled, progressActs, step, afterTrans, countsAs, reportedState, currentStageInputAvailable, inFailureTail, Refined, owesCheck, checkingReportPending]; done))
  all_goals (try (cases dA <;> simp_all [Quiescent, Settled, progressActs, step, afterTrans, countsAs, reportedState, currentStageInputAvailable, inFailureTail, Refined, owesCheck, checkingReportPending]; done))
  all_goals (try (cases eA <;> simp_all [Quiescent, Settled, progressActs, step, afterTrans, countsAs, reportedState, currentStageInputAvailable, inFailureTail, Refined, owesCheck, checkingReportPending]; done))
  all_goals (try (cases rA <;> simp_all [Quiescent, Settled, progressActs, step, afterTrans, countsAs, reportedState, currentStageInputAvailable, inFailureTail, Refined, owesCheck, checkingReportPending]; done))
  all_goals (try (cases early <;> cases rA <;> simp_all [Quiescent, Settled, progressActs, step, afterTrans, countsAs, reportedState, currentStageInputAvailable, inFailureTail, Refined, owesCheck, checkingReportPending]; done))
  all_goals (try (cases state <;> cases dA <;> cases dO <;> cases ctx <;> simp_all [Quiescent, Settled, progressActs, step, afterTrans, countsAs, reportedState, currentStageInputAvailable, inFailureTail, Refined, owesCheck, checkingReportPending]; done))
  all_goals (try (cases state <;> cases stage <;> cases dA <;> cases eA <;> cases rA <;> simp_all [Quiescent, Settled, progressActs, step, afterTrans, countsAs, reportedState, currentStageInputAvailable, inFailureTail, Refined, owesCheck, checkingReportPending]; done))

end Arca.Proofs.PluginState
