/-
Helper lemmas for C09: the inductive invariant of the plugin provider's state model (`Arca.Model.PluginState`): which
`r.state` / `r.currentStage` another goroutine can observe at which point of `run()`.
-/
import Arca.Model.PluginState
import Arca.Model.PluginStep

namespace Arca.Proofs.PluginState
open Arca.Model.PluginState

set_option maxHeartbeats 4000000
set_option linter.unusedSimpArgs false

/-- the stages the loop has seen finished before the ending's transition report (if it has one) is processed -/
def finPre : Path → List Stage
  | .closedEnable => [.deploy]
  | .closedStart => [.deploy, .enabling]
  | .disabled => [.deploy]
  | .startFailed => [.deploy, .enabling]
  | .runFailed => [.deploy, .enabling, .starting]
  | .ok => [.deploy, .enabling, .starting]
  | _ => []

/-- .. after it -/
def finMid : Path → List Stage
  | .closedAfterDeploy => [.deploy]
  | .deployFailed => [.deploy]
  | .disabled => [.deploy, .enabling]
  | .runFailed => [.deploy, .enabling, .starting, .running]
  | .ok => [.deploy, .enabling, .starting, .running]
  | p => finPre p

def finalStage : Path → Stage
  | .deployFailed => .deployFailed
  | .disabled => .disabled
  | .startFailed => .crashed
  | .runFailed => .crashed
  | .ok => .outputs
  | _ => .closed

/-- .. after the completion -/
def finPost (p : Path) : List Stage := finMid p ++ [finalStage p]

def settledPost (marks : Bool) (p : Path) : List Stage :=
  if marks then allStages.filter (fun x => !(finPost p).contains x) else []

/-- what the raw state, the stage, the input flags / channels, the chosen ending and the loop-side record look like at
    each program point of `run()` -/
def inv (marks : Bool) (s : St) : Bool :=
  let dEq := s.deployOcc == s.deployAvail     -- deploy input not consumed yet
  let eEq := s.enabledOcc == s.enabledAvail   -- enabling input not consumed yet
  let rEq := s.runOcc == s.runAvail           -- run input not consumed yet
  let rep (x : Stage) := s.reportedStage == some x
  let runFacts := if s.early then s.runAvail && !s.runOcc else rEq
  -- an input flag that is not set means an empty channel
  (s.deployAvail || !s.deployOcc) && (s.enabledAvail || !s.enabledOcc) && (s.runAvail || !s.runOcc) &&
  (match s.pc with
   | .dLock => s.state == .starting && s.stage == .deploy && dEq && eEq && rEq && s.reportedStage == none && !s.completed && s.path == .main && s.tailFails == [] && s.settledStages == [] && s.finishedStages == []
   | .dCb => s.state == .running && s.stage == .deploy && dEq && eEq && rEq && s.reportedStage == none && !s.completed && s.path == .main && s.tailFails == [] && s.settledStages == [] && s.finishedStages == []
   | .dCbRet => s.state == .running && s.stage == .deploy && dEq && eEq && rEq && rep .deploy && !s.completed && s.path == .main && s.tailFails == [] && s.settledStages == [] && s.finishedStages == []
   | .dTry => s.state == .running && s.stage == .deploy && dEq && eEq && rEq && rep .deploy && !s.completed && s.path == .main && s.tailFails == [] && s.settledStages == [] && s.finishedStages == []
   | .dSetWaiting => s.state == .running && s.stage == .deploy && dEq && eEq && rEq && rep .deploy && !s.completed && s.path == .main && s.tailFails == [] && s.settledStages == [] && s.finishedStages == []
   | .dWait => (s.state == .waiting || (s.state == .running && s.deployAvail)) && s.stage == .deploy && dEq && eEq && rEq &&
       rep .deploy && !s.completed && s.path == .main && s.tailFails == [] && s.settledStages == [] && s.finishedStages == []
   | .dGotEarly => s.state == .running && s.stage == .deploy && s.deployAvail && eEq && rEq && rep .deploy && !s.completed && s.path == .main && s.tailFails == [] && s.settledStages == [] && s.finishedStages == []
   | .dGotLate => (s.state == .waiting || s.state == .running) && s.stage == .deploy && s.deployAvail && eEq && rEq &&
       rep .deploy && !s.completed && s.path == .main && s.tailFails == [] && s.settledStages == [] && s.finishedStages == []
   | .dDeploying => s.state == .running && s.stage == .deploy && eEq && rEq && rep .deploy && !s.completed && s.path == .main && s.tailFails == [] && s.settledStages == [] && s.finishedStages == []
   | .spCheck => s.state == .running && s.stage == .deploy && eEq && rEq && rep .deploy && !s.completed && s.path == .main && s.tailFails == [] && s.settledStages == [] && s.finishedStages == []
   | .eLock => s.state == .running && s.stage == .deploy && eEq && rEq && rep .deploy && !s.completed && s.path == .main && s.tailFails == [] && s.settledStages == [] && s.finishedStages == []
   | .eCb => s.state == .waiting && s.stage == .enabling && eEq && rEq && rep .deploy && !s.completed && s.path == .main && s.tailFails == [] && s.settledStages == [] && s.finishedStages == []
   | .eCbRet => s.state == .waiting && s.stage == .enabling && eEq && rEq && rep .enabling && !s.completed && s.path == .main && s.tailFails == [] && s.settledStages == [] && s.finishedStages == [.deploy]
   | .eWait => s.state == .waiting && s.stage == .enabling && eEq && rEq && rep .enabling && !s.completed && s.path == .main && s.tailFails == [] && s.settledStages == [] && s.finishedStages == [.deploy]
   | .eGotTrue => s.state == .waiting && s.stage == .enabling && s.enabledAvail && rEq && rep .enabling && !s.completed && s.path == .main && s.tailFails == [] && s.settledStages == [] && s.finishedStages == [.deploy]
   | .sTry => s.state == .waiting && s.stage == .enabling && s.enabledAvail && rEq && rep .enabling && !s.completed && s.path == .main && s.tailFails == [] && s.settledStages == [] && s.finishedStages == [.deploy]
   | .transLock .starting st => s.state == .waiting && s.stage == .enabling && s.enabledAvail && runFacts &&
       st == (if s.early then .running else .waiting) && rep .enabling && !s.completed && s.path == .main && s.tailFails == [] && s.settledStages == [] && s.finishedStages == [.deploy]
   | .transLock .disabled st => s.state == .waiting && s.stage == .enabling && s.enabledAvail && st == .running &&
       rep .enabling && !s.completed && s.path == .disabled && s.tailFails == tailOf s.path && s.finishedStages == finPre s.path && s.settledStages == []
   | .transLock .running st => s.state == .running && s.stage == .starting && st == .running && rep .starting && !s.completed && s.path == .main && s.tailFails == [] && s.settledStages == [] && s.finishedStages == [.deploy, .enabling]
   | .transLock .outputs st => s.state == .running && s.stage == .running && st == .running && rep .running && !s.completed &&
       s.path == .ok && s.tailFails == tailOf s.path && s.finishedStages == finPre s.path && s.settledStages == []
   | .transLock .crashed st => s.state == .running && s.stage == .running && st == .running && rep .running && !s.completed &&
       s.path == .runFailed && s.tailFails == tailOf s.path && s.finishedStages == finPre s.path && s.settledStages == []
   | .transLock .deployFailed st => s.state == .running && s.stage == .deploy && st == .running && rep .deploy && !s.completed &&
       s.path == .deployFailed && s.tailFails == tailOf s.path && s.finishedStages == finPre s.path && s.settledStages == []
   | .transLock .closed st => s.state == .running && s.stage == .deploy && st == .running && rep .deploy && !s.completed &&
       s.path == .closedAfterDeploy && s.tailFails == tailOf s.path && s.finishedStages == finPre s.path && s.settledStages == []
   | .transLock .deploy _ => false
   | .transLock .enabling _ => false
   | .transCb .starting => s.stage == .starting && s.state == (if s.early then .running else .waiting) && runFacts &&
       rep .enabling && !s.completed && s.path == .main && s.tailFails == [] && s.settledStages == [] && s.finishedStages == [.deploy]
   | .transCb .disabled => s.state == .running && s.stage == .disabled && rep .enabling && !s.completed && s.path == .disabled && s.tailFails == tailOf s.path && s.finishedStages == finPre s.path && s.settledStages == []
   | .transCb .running => s.state == .running && s.stage == .running && rep .starting && !s.completed && s.path == .main && s.tailFails == [] && s.settledStages == [] && s.finishedStages == [.deploy, .enabling]
   | .transCb .outputs => s.state == .running && s.stage == .outputs && rep .running && !s.completed && s.path == .ok && s.tailFails == tailOf s.path && s.finishedStages == finPre s.path && s.settledStages == []
   | .transCb .crashed => s.state == .running && s.stage == .crashed && rep .running && !s.completed && s.path == .runFailed && s.tailFails == tailOf s.path && s.finishedStages == finPre s.path && s.settledStages == []
   | .transCb .deployFailed => s.state == .running && s.stage == .deployFailed && rep .deploy && !s.completed &&
       s.path == .deployFailed && s.tailFails == tailOf s.path && s.finishedStages == finPre s.path && s.settledStages == []
   | .transCb .closed => s.state == .running && s.stage == .closed && rep .deploy && !s.completed &&
       s.path == .closedAfterDeploy && s.tailFails == tailOf s.path && s.finishedStages == finPre s.path && s.settledStages == []
   | .transCb .deploy => false
   | .transCb .enabling => false
   | .transCbRet .starting => s.stage == .starting && s.state == (if s.early then .running else .waiting) && runFacts &&
       rep .starting && !s.completed && s.path == .main && s.tailFails == [] && s.settledStages == [] && s.finishedStages == [.deploy, .enabling]
   | .transCbRet .running => s.state == .running && s.stage == .running && rep .running && !s.completed && s.path == .main && s.tailFails == [] && s.settledStages == [] && s.finishedStages == [.deploy, .enabling, .starting]
   | .transCbRet .deploy => false
   | .transCbRet .enabling => false
   | .transCbRet tgt => s.state == .running && s.stage == tgt && rep tgt && !s.completed && s.path != .main &&
       finalStage s.path == tgt && s.path != .closedDeploy && s.path != .closedEnable && s.path != .closedStart &&
       s.path != .startFailed && s.tailFails == tailOf s.path && s.finishedStages == finMid s.path && s.settledStages == []
   | .sCheck => s.state == .waiting && s.stage == .starting && !s.early && rEq && rep .starting && !s.completed && s.path == .main && s.tailFails == [] && s.settledStages == [] && s.finishedStages == [.deploy, .enabling]
   | .sWait => s.state == .waiting && s.stage == .starting && !s.early && rEq && rep .starting && !s.completed && s.path == .main && s.tailFails == [] && s.settledStages == [] && s.finishedStages == [.deploy, .enabling]
   | .sGotLate => s.state == .waiting && s.stage == .starting && !s.early && s.runAvail && rep .starting && !s.completed && s.path == .main && s.tailFails == [] && s.settledStages == [] && s.finishedStages == [.deploy, .enabling]
   | .sSchema => s.state == .running && s.stage == .starting && rep .starting && !s.completed && s.path == .main && s.tailFails == [] && s.settledStages == [] && s.finishedStages == [.deploy, .enabling]
   | .rWait => s.state == .running && s.stage == .running && rep .running && !s.completed && s.path == .main && s.tailFails == [] && s.settledStages == [] && s.finishedStages == [.deploy, .enabling, .starting]
   | .failedLock .closed =>
       (s.state == .waiting || (s.state == .running && s.stage == .deploy && s.deployAvail)) &&
       s.ctxDone && s.reportedStage == some s.stage && !s.completed &&
       ((s.stage == .deploy && s.path == .closedDeploy) || (s.stage == .enabling && s.path == .closedEnable) ||
        (s.stage == .starting && s.path == .closedStart)) && s.tailFails == tailOf s.path && s.finishedStages == finPre s.path && s.settledStages == []
   | .failedLock .crashed => s.state == .running && s.stage == .starting && !s.completed && s.path == .startFailed && s.tailFails == tailOf s.path && s.finishedStages == finPre s.path && s.settledStages == []
   | .failedLock _ => false
   | .failedCb tgt => s.state == .running && s.stage == tgt && !s.completed &&
       (s.path == .closedDeploy || s.path == .closedEnable || s.path == .closedStart || s.path == .startFailed) &&
       finalStage s.path == tgt && s.tailFails == tailOf s.path && s.finishedStages == finMid s.path && s.settledStages == []
   | .complLock tgt => s.state == .running && s.stage == tgt && !s.completed && s.path != .main && finalStage s.path == tgt && s.tailFails == tailOf s.path && s.finishedStages == finMid s.path && s.settledStages == []
   | .complCb tgt => s.state == .finished && s.stage == tgt && !s.completed && s.path != .main && finalStage s.path == tgt && s.tailFails == tailOf s.path && s.finishedStages == finMid s.path && s.settledStages == []
   | .complCbRet tgt => s.state == .finished && s.stage == tgt && s.completed && s.path != .main && finalStage s.path == tgt && s.tailFails == tailOf s.path && s.finishedStages == finPost s.path && s.settledStages == settledPost marks s.path
   | .tailFail => s.state == .finished && s.completed && s.path != .main && s.path != .ok && s.tailFails == tailOf s.path && s.finishedStages == finPost s.path && s.settledStages == settledPost marks s.path
   | .tailClose => s.state == .finished && s.completed && s.path != .main && s.tailFails == tailOf s.path && s.finishedStages == finPost s.path && s.settledStages == settledPost marks s.path
   | .done => s.state == .finished && s.completed && s.path != .main && s.tailFails == tailOf s.path && s.finishedStages == finPost s.path && s.settledStages == settledPost marks s.path)

theorem inv_init (marks : Bool) : inv marks init = true := by cases marks <;> decide

/-- closure under one action: fix the action and the program point, compute, discharge -/
macro "close_tac" hi:ident hs:ident pc:ident stv:ident ev:ident pv:ident mv:ident : tactic => `(tactic| (
  rcases $pc:ident with _|_|_|_|_|_|_|_|_|_|_|_|_|_|_|_|_|_|_|_|_|⟨tgt,st⟩|⟨tgt⟩|⟨tgt⟩|⟨tgt⟩|⟨tgt⟩|⟨tgt⟩|⟨tgt⟩|⟨tgt⟩|_|_|_
  all_goals (try cases tgt)
  all_goals (try cases st)
  all_goals (simp [step, afterTrans, choose] at $hs:ident)
  all_goals (try (repeat' split at $hs:ident))
  all_goals (try (obtain ⟨_, $hs:ident⟩ := $hs:ident))
  all_goals (try subst $hs:ident)
  all_goals (try (simp_all [inv, choose, tailOf, failChain, finPre, finMid, finPost, finalStage, settledPost, allStages, prevOf]; done))
  all_goals (try (split <;> simp_all [inv, choose, tailOf, failChain, finPre, finMid, finPost, finalStage, settledPost, allStages, prevOf]; done))
  all_goals (try (cases $stv:ident <;> simp_all [inv, choose, tailOf, failChain, finPre, finMid, finPost, finalStage, settledPost, allStages, prevOf]; done))
  all_goals (try (cases $ev:ident <;> simp_all [inv, choose, tailOf, failChain, finPre, finMid, finPost, finalStage, settledPost, allStages, prevOf]; done))
  all_goals (try (cases $pv:ident <;> simp_all [inv, choose, tailOf, failChain, finPre, finMid, finPost, finalStage, settledPost, allStages, prevOf]; done))
  all_goals (try (cases $pv:ident <;> cases $mv:ident <;> simp_all [inv, choose, tailOf, failChain, finPre, finMid, finPost, finalStage, settledPost, allStages, prevOf]; done))))

theorem inv_provideDeploy (marks : Bool) (s s' : St) (hi : inv marks s = true) (hs : step marks s (.provideDeploy) = some s') : inv marks s' = true := by
  rcases s with ⟨pc, state, stage, dA, eA, rA, dO, eO, eV, rO, early, ctx, tailF, path, rep, compl, fin, settled⟩
  close_tac hi hs pc state early path marks

theorem inv_provideEnabling (marks : Bool) (s s' : St) (b : Bool) (hi : inv marks s = true) (hs : step marks s (.provideEnabling b) = some s') : inv marks s' = true := by
  rcases s with ⟨pc, state, stage, dA, eA, rA, dO, eO, eV, rO, early, ctx, tailF, path, rep, compl, fin, settled⟩
  close_tac hi hs pc state early path marks

theorem inv_provideStarting (marks : Bool) (s s' : St) (hi : inv marks s = true) (hs : step marks s (.provideStarting) = some s') : inv marks s' = true := by
  rcases s with ⟨pc, state, stage, dA, eA, rA, dO, eO, eV, rO, early, ctx, tailF, path, rep, compl, fin, settled⟩
  close_tac hi hs pc state early path marks

theorem inv_cancel (marks : Bool) (s s' : St) (hi : inv marks s = true) (hs : step marks s (.cancel) = some s') : inv marks s' = true := by
  rcases s with ⟨pc, state, stage, dA, eA, rA, dO, eO, eV, rO, early, ctx, tailF, path, rep, compl, fin, settled⟩
  close_tac hi hs pc state early path marks

theorem inv_internal (marks : Bool) (s s' : St) (hi : inv marks s = true) (hs : step marks s (.internal) = some s') : inv marks s' = true := by
  rcases s with ⟨pc, state, stage, dA, eA, rA, dO, eO, eV, rO, early, ctx, tailF, path, rep, compl, fin, settled⟩
  close_tac hi hs pc state early path marks

theorem inv_deliver (marks : Bool) (s s' : St) (hi : inv marks s = true) (hs : step marks s (.deliver) = some s') : inv marks s' = true := by
  rcases s with ⟨pc, state, stage, dA, eA, rA, dO, eO, eV, rO, early, ctx, tailF, path, rep, compl, fin, settled⟩
  close_tac hi hs pc state early path marks

theorem inv_deliverFailure (marks : Bool) (s s' : St) (hi : inv marks s = true) (hs : step marks s (.deliverFailure) = some s') : inv marks s' = true := by
  rcases s with ⟨pc, state, stage, dA, eA, rA, dO, eO, eV, rO, early, ctx, tailF, path, rep, compl, fin, settled⟩
  close_tac hi hs pc state early path marks

theorem inv_recv (marks : Bool) (s s' : St) (hi : inv marks s = true) (hs : step marks s (.recv) = some s') : inv marks s' = true := by
  rcases s with ⟨pc, state, stage, dA, eA, rA, dO, eO, eV, rO, early, ctx, tailF, path, rep, compl, fin, settled⟩
  close_tac hi hs pc state early path marks

theorem inv_ctx (marks : Bool) (s s' : St) (hi : inv marks s = true) (hs : step marks s (.ctx) = some s') : inv marks s' = true := by
  rcases s with ⟨pc, state, stage, dA, eA, rA, dO, eO, eV, rO, early, ctx, tailF, path, rep, compl, fin, settled⟩
  close_tac hi hs pc state early path marks

theorem inv_deployOk (marks : Bool) (s s' : St) (hi : inv marks s = true) (hs : step marks s (.deployOk) = some s') : inv marks s' = true := by
  rcases s with ⟨pc, state, stage, dA, eA, rA, dO, eO, eV, rO, early, ctx, tailF, path, rep, compl, fin, settled⟩
  close_tac hi hs pc state early path marks

theorem inv_deployFail (marks : Bool) (s s' : St) (hi : inv marks s = true) (hs : step marks s (.deployFail) = some s') : inv marks s' = true := by
  rcases s with ⟨pc, state, stage, dA, eA, rA, dO, eO, eV, rO, early, ctx, tailF, path, rep, compl, fin, settled⟩
  close_tac hi hs pc state early path marks

theorem inv_startOk (marks : Bool) (s s' : St) (hi : inv marks s = true) (hs : step marks s (.startOk) = some s') : inv marks s' = true := by
  rcases s with ⟨pc, state, stage, dA, eA, rA, dO, eO, eV, rO, early, ctx, tailF, path, rep, compl, fin, settled⟩
  close_tac hi hs pc state early path marks

theorem inv_startFail (marks : Bool) (s s' : St) (hi : inv marks s = true) (hs : step marks s (.startFail) = some s') : inv marks s' = true := by
  rcases s with ⟨pc, state, stage, dA, eA, rA, dO, eO, eV, rO, early, ctx, tailF, path, rep, compl, fin, settled⟩
  close_tac hi hs pc state early path marks

theorem inv_resultOk (marks : Bool) (s s' : St) (hi : inv marks s = true) (hs : step marks s (.resultOk) = some s') : inv marks s' = true := by
  rcases s with ⟨pc, state, stage, dA, eA, rA, dO, eO, eV, rO, early, ctx, tailF, path, rep, compl, fin, settled⟩
  close_tac hi hs pc state early path marks

theorem inv_resultErr (marks : Bool) (s s' : St) (hi : inv marks s = true) (hs : step marks s (.resultErr) = some s') : inv marks s' = true := by
  rcases s with ⟨pc, state, stage, dA, eA, rA, dO, eO, eV, rO, early, ctx, tailF, path, rep, compl, fin, settled⟩
  close_tac hi hs pc state early path marks

theorem inv_step (marks : Bool) (s s' : St) (a : Act) (hi : inv marks s = true) (hs : step marks s a = some s') : inv marks s' = true := by
  cases a with
  | provideDeploy => exact inv_provideDeploy marks s s' hi hs
  | provideEnabling b => exact inv_provideEnabling marks s s' b hi hs
  | provideStarting => exact inv_provideStarting marks s s' hi hs
  | cancel => exact inv_cancel marks s s' hi hs
  | internal => exact inv_internal marks s s' hi hs
  | deliver => exact inv_deliver marks s s' hi hs
  | deliverFailure => exact inv_deliverFailure marks s s' hi hs
  | recv => exact inv_recv marks s s' hi hs
  | ctx => exact inv_ctx marks s s' hi hs
  | deployOk => exact inv_deployOk marks s s' hi hs
  | deployFail => exact inv_deployFail marks s s' hi hs
  | startOk => exact inv_startOk marks s s' hi hs
  | startFail => exact inv_startFail marks s s' hi hs
  | resultOk => exact inv_resultOk marks s s' hi hs
  | resultErr => exact inv_resultErr marks s s' hi hs

theorem reachable_inv (marks : Bool) (s : St) (hr : Reachable marks s) : inv marks s = true := by
  induction hr with
  | init => exact inv_init marks
  | step a _ hs ih => exact inv_step marks _ _ a ih hs

/-! ### the poll model -/

theorem fires_take (r : Nat) : ∀ (polls : List (List RState)), detectorFires r polls = true →
    (polls.take (r + 1)).length = r + 1 ∧ (polls.take (r + 1)).all idle = true := by
  induction r with
  | zero =>
    intro polls h
    cases polls with
    | nil => simp [detectorFires] at h
    | cons p rest => simp [detectorFires] at h; simp [h]
  | succ r ih =>
    intro polls h
    cases polls with
    | nil => simp [detectorFires] at h
    | cons p rest =>
      simp only [detectorFires, Bool.and_eq_true] at h
      obtain ⟨h1, h2⟩ := ih rest h.2
      refine ⟨by simp [List.take, h1], ?_⟩
      simp only [List.take, List.all_cons, Bool.and_eq_true]
      exact ⟨h.1, h2⟩

theorem busy_poll_stops (r : Nat) : ∀ (polls : List (List RState)) (i : Nat) (p : List RState), i ≤ r →
    polls[i]? = some p → idle p = false → detectorFires r polls = false := by
  induction r with
  | zero =>
    intro polls i p hi hp hidle
    have : i = 0 := by omega
    subst this
    cases polls with
    | nil => simp at hp
    | cons q rest => simp at hp; subst hp; simp [detectorFires, hidle]
  | succ r ih =>
    intro polls i p hi hp hidle
    cases polls with
    | nil => simp at hp
    | cons q rest =>
      cases i with
      | zero => simp at hp; subst hp; simp [detectorFires, hidle]
      | succ j =>
        simp at hp
        simp [detectorFires, ih rest j p (by omega) hp hidle]

/-! ### consequences -/

/-- unfold everything the detector-side definitions are made of -/
macro "unfold_defs" : tactic => `(tactic| simp [Quiescent, Settled, progressActs, step, afterTrans, InWindow, inDeployRace,
  inEnableWindow, inStartWindow, inCompletionWindow, inClosingWindow, inFailureTail, countsAs, reportedState,
  currentStageInputAvailable, Refined, owesCheck, checkingReportPending] at *)

/-- the RAW `waiting_for_input` or `finished` is observed either in a quiescent state or in one of the listed windows -/
theorem raw_classified (marks : Bool) (s : St) (hi : inv marks s = true) (hw : s.state = .waiting ∨ s.state = .finished) :
    Quiescent s = true ∨ InWindow s = true := by
  rcases s with ⟨pc, state, stage, dA, eA, rA, dO, eO, eV, rO, early, ctx, tailF, path, rep, compl, fin, settled⟩
  rcases pc with _|_|_|_|_|_|_|_|_|_|_|_|_|_|_|_|_|_|_|_|_|⟨tgt,st⟩|⟨tgt⟩|⟨tgt⟩|⟨tgt⟩|⟨tgt⟩|⟨tgt⟩|⟨tgt⟩|⟨tgt⟩|_|_|_
  all_goals (try cases tgt)
  all_goals (try cases st)
  all_goals (simp [inv] at hi)
  all_goals (simp [Quiescent, progressActs, step, afterTrans, choose, InWindow, inDeployRace, inEnableWindow, inStartWindow,
    inCompletionWindow, inClosingWindow])
  all_goals (try (rcases hw with hw | hw <;> simp_all))
  all_goals (try (cases dO <;> cases ctx <;> simp_all))
  all_goals (try (cases eO <;> cases ctx <;> simp_all))
  all_goals (try (cases rO <;> cases ctx <;> simp_all))

/-- the shape of the quiescent states -/
theorem quiescent_shape (marks : Bool) (s : St) (hi : inv marks s = true) (hq : Quiescent s = true) :
    (s.pc = .dWait ∧ s.deployOcc = false ∧ s.ctxDone = false) ∨ (s.pc = .eWait ∧ s.enabledOcc = false ∧ s.ctxDone = false) ∨
    (s.pc = .sWait ∧ s.runOcc = false ∧ s.ctxDone = false) ∨ s.pc = .done := by
  rcases s with ⟨pc, state, stage, dA, eA, rA, dO, eO, eV, rO, early, ctx, tailF, path, rep, compl, fin, settled⟩
  rcases pc with _|_|_|_|_|_|_|_|_|_|_|_|_|_|_|_|_|_|_|_|_|⟨tgt,st⟩|⟨tgt⟩|⟨tgt⟩|⟨tgt⟩|⟨tgt⟩|⟨tgt⟩|⟨tgt⟩|⟨tgt⟩|_|_|_
  all_goals (try cases tgt)
  all_goals (try cases st)
  all_goals (simp [Quiescent, progressActs, step, afterTrans, choose] at hq)
  all_goals (try (split at hq <;> simp at hq))
  all_goals (try simp_all)
  all_goals (simp [inv] at hi)

/-- stage `deploy`, raw state `waiting_for_input`, input provided: only in the deploy race or while being closed -/
theorem deploy_waiting_provided (marks : Bool) (s : St) (hi : inv marks s = true) (hst : s.stage = .deploy) (hw : s.state = .waiting)
    (ha : s.deployAvail = true) : inDeployRace s = true ∨ s.pc = .failedLock .closed := by
  rcases s with ⟨pc, state, stage, dA, eA, rA, dO, eO, eV, rO, early, ctx, tailF, path, rep, compl, fin, settled⟩
  rcases pc with _|_|_|_|_|_|_|_|_|_|_|_|_|_|_|_|_|_|_|_|_|⟨tgt,st⟩|⟨tgt⟩|⟨tgt⟩|⟨tgt⟩|⟨tgt⟩|⟨tgt⟩|⟨tgt⟩|⟨tgt⟩|_|_|_
  all_goals (try cases tgt)
  all_goals (try cases st)
  all_goals (simp [inv] at hi)
  all_goals (simp [inDeployRace])
  all_goals (simp_all)

set_option maxRecDepth 4000

/-- counted as `waiting`: parked on an empty channel, or about to park silently -/
theorem counts_waiting_settled (marks : Bool) (s : St) (hi : inv marks s = true) (hc : countsAs s = .waiting) :
    Settled s = true := by
  rcases s with ⟨pc, state, stage, dA, eA, rA, dO, eO, eV, rO, early, ctx, tailF, path, rep, compl, fin, settled⟩
  rcases pc with _|_|_|_|_|_|_|_|_|_|_|_|_|_|_|_|_|_|_|_|_|⟨tgt,st⟩|⟨tgt⟩|⟨tgt⟩|⟨tgt⟩|⟨tgt⟩|⟨tgt⟩|⟨tgt⟩|⟨tgt⟩|_|_|_
  all_goals (try cases tgt)
  all_goals (try cases st)
  all_goals (simp [inv] at hi)
  all_goals (try (simp_all [Quiescent, Settled, progressActs, step, afterTrans, countsAs, reportedState, currentStageInputAvailable, inFailureTail, Refined, owesCheck, checkingReportPending, choose]; done))
  all_goals (try (cases dA <;> simp_all [Quiescent, Settled, progressActs, step, afterTrans, countsAs, reportedState, currentStageInputAvailable, inFailureTail, Refined, owesCheck, checkingReportPending, choose]; done))
  all_goals (try (cases eA <;> simp_all [Quiescent, Settled, progressActs, step, afterTrans, countsAs, reportedState, currentStageInputAvailable, inFailureTail, Refined, owesCheck, checkingReportPending, choose]; done))
  all_goals (try (cases rA <;> simp_all [Quiescent, Settled, progressActs, step, afterTrans, countsAs, reportedState, currentStageInputAvailable, inFailureTail, Refined, owesCheck, checkingReportPending, choose]; done))
  all_goals (try (cases early <;> cases rA <;> simp_all [Quiescent, Settled, progressActs, step, afterTrans, countsAs, reportedState, currentStageInputAvailable, inFailureTail, Refined, owesCheck, checkingReportPending, choose]; done))
  all_goals (try (cases dO <;> cases ctx <;> simp_all [Quiescent, Settled, progressActs, step, afterTrans, countsAs, reportedState, currentStageInputAvailable, inFailureTail, Refined, owesCheck, checkingReportPending, choose]; done))
  all_goals (try (cases eO <;> cases ctx <;> simp_all [Quiescent, Settled, progressActs, step, afterTrans, countsAs, reportedState, currentStageInputAvailable, inFailureTail, Refined, owesCheck, checkingReportPending, choose]; done))
  all_goals (try (cases rO <;> cases ctx <;> cases early <;> simp_all [Quiescent, Settled, progressActs, step, afterTrans, countsAs, reportedState, currentStageInputAvailable, inFailureTail, Refined, owesCheck, checkingReportPending, choose]; done))
  all_goals (try (cases state <;> cases dA <;> cases dO <;> cases ctx <;> simp_all [Quiescent, Settled, progressActs, step, afterTrans, countsAs, reportedState, currentStageInputAvailable, inFailureTail, Refined, owesCheck, checkingReportPending, choose]; done))
  all_goals (try (cases state <;> cases stage <;> cases dA <;> cases eA <;> cases rA <;> simp_all [Quiescent, Settled, progressActs, step, afterTrans, countsAs, reportedState, currentStageInputAvailable, inFailureTail, Refined, owesCheck, checkingReportPending, choose]; done))

/-- counted as `finished`: nothing but the deferred closes is left, unless the failure notifications are still to come -/
theorem counts_finished_settled (marks : Bool) (s : St) (hi : inv marks s = true) (hc : countsAs s = .finished) (hft : inFailureTail s = false) :
    Settled s = true := by
  rcases s with ⟨pc, state, stage, dA, eA, rA, dO, eO, eV, rO, early, ctx, tailF, path, rep, compl, fin, settled⟩
  rcases pc with _|_|_|_|_|_|_|_|_|_|_|_|_|_|_|_|_|_|_|_|_|⟨tgt,st⟩|⟨tgt⟩|⟨tgt⟩|⟨tgt⟩|⟨tgt⟩|⟨tgt⟩|⟨tgt⟩|⟨tgt⟩|_|_|_
  all_goals (try cases tgt)
  all_goals (try cases st)
  all_goals (simp [inv] at hi)
  all_goals (try (simp_all [Quiescent, Settled, progressActs, step, afterTrans, countsAs, reportedState, currentStageInputAvailable, inFailureTail, Refined, owesCheck, checkingReportPending, choose]; done))
  all_goals (try (cases dA <;> simp_all [Quiescent, Settled, progressActs, step, afterTrans, countsAs, reportedState, currentStageInputAvailable, inFailureTail, Refined, owesCheck, checkingReportPending, choose]; done))
  all_goals (try (cases eA <;> simp_all [Quiescent, Settled, progressActs, step, afterTrans, countsAs, reportedState, currentStageInputAvailable, inFailureTail, Refined, owesCheck, checkingReportPending, choose]; done))
  all_goals (try (cases rA <;> simp_all [Quiescent, Settled, progressActs, step, afterTrans, countsAs, reportedState, currentStageInputAvailable, inFailureTail, Refined, owesCheck, checkingReportPending, choose]; done))
  all_goals (try (cases early <;> cases rA <;> simp_all [Quiescent, Settled, progressActs, step, afterTrans, countsAs, reportedState, currentStageInputAvailable, inFailureTail, Refined, owesCheck, checkingReportPending, choose]; done))
  all_goals (try (cases dO <;> cases ctx <;> simp_all [Quiescent, Settled, progressActs, step, afterTrans, countsAs, reportedState, currentStageInputAvailable, inFailureTail, Refined, owesCheck, checkingReportPending, choose]; done))
  all_goals (try (cases eO <;> cases ctx <;> simp_all [Quiescent, Settled, progressActs, step, afterTrans, countsAs, reportedState, currentStageInputAvailable, inFailureTail, Refined, owesCheck, checkingReportPending, choose]; done))
  all_goals (try (cases rO <;> cases ctx <;> cases early <;> simp_all [Quiescent, Settled, progressActs, step, afterTrans, countsAs, reportedState, currentStageInputAvailable, inFailureTail, Refined, owesCheck, checkingReportPending, choose]; done))
  all_goals (try (cases state <;> cases dA <;> cases dO <;> cases ctx <;> simp_all [Quiescent, Settled, progressActs, step, afterTrans, countsAs, reportedState, currentStageInputAvailable, inFailureTail, Refined, owesCheck, checkingReportPending, choose]; done))
  all_goals (try (cases state <;> cases stage <;> cases dA <;> cases eA <;> cases rA <;> simp_all [Quiescent, Settled, progressActs, step, afterTrans, countsAs, reportedState, currentStageInputAvailable, inFailureTail, Refined, owesCheck, checkingReportPending, choose]; done))

/-- wherever the refinement turns a raw `waiting_for_input` / `finished` into `running`, a checking report is owed -/
theorem refined_owes (marks : Bool) (s : St) (hi : inv marks s = true) (hr : Refined s = true) : owesCheck s = true := by
  rcases s with ⟨pc, state, stage, dA, eA, rA, dO, eO, eV, rO, early, ctx, tailF, path, rep, compl, fin, settled⟩
  rcases pc with _|_|_|_|_|_|_|_|_|_|_|_|_|_|_|_|_|_|_|_|_|⟨tgt,st⟩|⟨tgt⟩|⟨tgt⟩|⟨tgt⟩|⟨tgt⟩|⟨tgt⟩|⟨tgt⟩|⟨tgt⟩|_|_|_
  all_goals (try cases tgt)
  all_goals (try cases st)
  all_goals (simp [inv] at hi)
  all_goals (try (simp_all [Quiescent, Settled, progressActs, step, afterTrans, countsAs, reportedState, currentStageInputAvailable, inFailureTail, Refined, owesCheck, checkingReportPending, choose]; done))
  all_goals (try (cases dA <;> simp_all [Quiescent, Settled, progressActs, step, afterTrans, countsAs, reportedState, currentStageInputAvailable, inFailureTail, Refined, owesCheck, checkingReportPending, choose]; done))
  all_goals (try (cases eA <;> simp_all [Quiescent, Settled, progressActs, step, afterTrans, countsAs, reportedState, currentStageInputAvailable, inFailureTail, Refined, owesCheck, checkingReportPending, choose]; done))
  all_goals (try (cases rA <;> simp_all [Quiescent, Settled, progressActs, step, afterTrans, countsAs, reportedState, currentStageInputAvailable, inFailureTail, Refined, owesCheck, checkingReportPending, choose]; done))
  all_goals (try (cases early <;> cases rA <;> simp_all [Quiescent, Settled, progressActs, step, afterTrans, countsAs, reportedState, currentStageInputAvailable, inFailureTail, Refined, owesCheck, checkingReportPending, choose]; done))
  all_goals (try (cases dO <;> cases ctx <;> simp_all [Quiescent, Settled, progressActs, step, afterTrans, countsAs, reportedState, currentStageInputAvailable, inFailureTail, Refined, owesCheck, checkingReportPending, choose]; done))
  all_goals (try (cases eO <;> cases ctx <;> simp_all [Quiescent, Settled, progressActs, step, afterTrans, countsAs, reportedState, currentStageInputAvailable, inFailureTail, Refined, owesCheck, checkingReportPending, choose]; done))
  all_goals (try (cases rO <;> cases ctx <;> cases early <;> simp_all [Quiescent, Settled, progressActs, step, afterTrans, countsAs, reportedState, currentStageInputAvailable, inFailureTail, Refined, owesCheck, checkingReportPending, choose]; done))
  all_goals (try (cases state <;> cases dA <;> cases dO <;> cases ctx <;> simp_all [Quiescent, Settled, progressActs, step, afterTrans, countsAs, reportedState, currentStageInputAvailable, inFailureTail, Refined, owesCheck, checkingReportPending, choose]; done))
  all_goals (try (cases state <;> cases stage <;> cases dA <;> cases eA <;> cases rA <;> simp_all [Quiescent, Settled, progressActs, step, afterTrans, countsAs, reportedState, currentStageInputAvailable, inFailureTail, Refined, owesCheck, checkingReportPending, choose]; done))

/-- a step that owes a check is never quiescent -/
theorem owes_not_quiescent (marks : Bool) (s : St) (hi : inv marks s = true) (ho : owesCheck s = true) : Quiescent s = false := by
  rcases s with ⟨pc, state, stage, dA, eA, rA, dO, eO, eV, rO, early, ctx, tailF, path, rep, compl, fin, settled⟩
  rcases pc with _|_|_|_|_|_|_|_|_|_|_|_|_|_|_|_|_|_|_|_|_|⟨tgt,st⟩|⟨tgt⟩|⟨tgt⟩|⟨tgt⟩|⟨tgt⟩|⟨tgt⟩|⟨tgt⟩|⟨tgt⟩|_|_|_
  all_goals (try cases tgt)
  all_goals (try cases st)
  all_goals (simp [inv] at hi)
  all_goals (try (simp_all [Quiescent, Settled, progressActs, step, afterTrans, countsAs, reportedState, currentStageInputAvailable, inFailureTail, Refined, owesCheck, checkingReportPending, choose]; done))
  all_goals (try (cases dA <;> simp_all [Quiescent, Settled, progressActs, step, afterTrans, countsAs, reportedState, currentStageInputAvailable, inFailureTail, Refined, owesCheck, checkingReportPending, choose]; done))
  all_goals (try (cases eA <;> simp_all [Quiescent, Settled, progressActs, step, afterTrans, countsAs, reportedState, currentStageInputAvailable, inFailureTail, Refined, owesCheck, checkingReportPending, choose]; done))
  all_goals (try (cases rA <;> simp_all [Quiescent, Settled, progressActs, step, afterTrans, countsAs, reportedState, currentStageInputAvailable, inFailureTail, Refined, owesCheck, checkingReportPending, choose]; done))
  all_goals (try (cases early <;> cases rA <;> simp_all [Quiescent, Settled, progressActs, step, afterTrans, countsAs, reportedState, currentStageInputAvailable, inFailureTail, Refined, owesCheck, checkingReportPending, choose]; done))
  all_goals (try (cases dO <;> cases ctx <;> simp_all [Quiescent, Settled, progressActs, step, afterTrans, countsAs, reportedState, currentStageInputAvailable, inFailureTail, Refined, owesCheck, checkingReportPending, choose]; done))
  all_goals (try (cases eO <;> cases ctx <;> simp_all [Quiescent, Settled, progressActs, step, afterTrans, countsAs, reportedState, currentStageInputAvailable, inFailureTail, Refined, owesCheck, checkingReportPending, choose]; done))
  all_goals (try (cases rO <;> cases ctx <;> cases early <;> simp_all [Quiescent, Settled, progressActs, step, afterTrans, countsAs, reportedState, currentStageInputAvailable, inFailureTail, Refined, owesCheck, checkingReportPending, choose]; done))
  all_goals (try (cases state <;> cases dA <;> cases dO <;> cases ctx <;> simp_all [Quiescent, Settled, progressActs, step, afterTrans, countsAs, reportedState, currentStageInputAvailable, inFailureTail, Refined, owesCheck, checkingReportPending, choose]; done))
  all_goals (try (cases state <;> cases stage <;> cases dA <;> cases eA <;> cases rA <;> simp_all [Quiescent, Settled, progressActs, step, afterTrans, countsAs, reportedState, currentStageInputAvailable, inFailureTail, Refined, owesCheck, checkingReportPending, choose]; done))

/-- one action from a state that owes a check: either it is the processing of a checking report, or the check is still
    owed afterwards -/
macro "owes_tac" hs:ident pc:ident ev:ident : tactic => `(tactic| (
  rcases $pc:ident with _|_|_|_|_|_|_|_|_|_|_|_|_|_|_|_|_|_|_|_|_|⟨tgt,st⟩|⟨tgt⟩|⟨tgt⟩|⟨tgt⟩|⟨tgt⟩|⟨tgt⟩|⟨tgt⟩|⟨tgt⟩|_|_|_
  all_goals (try cases tgt)
  all_goals (try cases st)
  all_goals (simp [step, afterTrans, choose] at $hs:ident)
  all_goals (try (repeat' split at $hs:ident))
  all_goals (try (obtain ⟨_, $hs:ident⟩ := $hs:ident))
  all_goals (try subst $hs:ident)
  all_goals (try (simp_all [inv, owesCheck, checkingReportPending]; done))
  all_goals (try (cases $ev:ident <;> simp_all [inv, owesCheck, checkingReportPending]; done))))

theorem owes_provideDeploy (marks : Bool) (s s' : St) (hi : inv marks s = true) (ho : owesCheck s = true)
    (hs : step marks s (.provideDeploy) = some s') : (Act.provideDeploy = Act.deliver ∧ checkingReportPending s = true) ∨ owesCheck s' = true := by
  rcases s with ⟨pc, state, stage, dA, eA, rA, dO, eO, eV, rO, early, ctx, tailF, path, rep, compl, fin, settled⟩
  owes_tac hs pc early

theorem owes_provideEnabling (marks : Bool) (s s' : St) (b : Bool) (hi : inv marks s = true) (ho : owesCheck s = true)
    (hs : step marks s (.provideEnabling b) = some s') : (Act.provideEnabling b = Act.deliver ∧ checkingReportPending s = true) ∨ owesCheck s' = true := by
  rcases s with ⟨pc, state, stage, dA, eA, rA, dO, eO, eV, rO, early, ctx, tailF, path, rep, compl, fin, settled⟩
  owes_tac hs pc early

theorem owes_provideStarting (marks : Bool) (s s' : St) (hi : inv marks s = true) (ho : owesCheck s = true)
    (hs : step marks s (.provideStarting) = some s') : (Act.provideStarting = Act.deliver ∧ checkingReportPending s = true) ∨ owesCheck s' = true := by
  rcases s with ⟨pc, state, stage, dA, eA, rA, dO, eO, eV, rO, early, ctx, tailF, path, rep, compl, fin, settled⟩
  owes_tac hs pc early

theorem owes_cancel (marks : Bool) (s s' : St) (hi : inv marks s = true) (ho : owesCheck s = true)
    (hs : step marks s (.cancel) = some s') : (Act.cancel = Act.deliver ∧ checkingReportPending s = true) ∨ owesCheck s' = true := by
  rcases s with ⟨pc, state, stage, dA, eA, rA, dO, eO, eV, rO, early, ctx, tailF, path, rep, compl, fin, settled⟩
  owes_tac hs pc early

theorem owes_internal (marks : Bool) (s s' : St) (hi : inv marks s = true) (ho : owesCheck s = true)
    (hs : step marks s (.internal) = some s') : (Act.internal = Act.deliver ∧ checkingReportPending s = true) ∨ owesCheck s' = true := by
  rcases s with ⟨pc, state, stage, dA, eA, rA, dO, eO, eV, rO, early, ctx, tailF, path, rep, compl, fin, settled⟩
  owes_tac hs pc early

theorem owes_deliver (marks : Bool) (s s' : St) (hi : inv marks s = true) (ho : owesCheck s = true)
    (hs : step marks s (.deliver) = some s') : (Act.deliver = Act.deliver ∧ checkingReportPending s = true) ∨ owesCheck s' = true := by
  rcases s with ⟨pc, state, stage, dA, eA, rA, dO, eO, eV, rO, early, ctx, tailF, path, rep, compl, fin, settled⟩
  owes_tac hs pc early

theorem owes_deliverFailure (marks : Bool) (s s' : St) (hi : inv marks s = true) (ho : owesCheck s = true)
    (hs : step marks s (.deliverFailure) = some s') : (Act.deliverFailure = Act.deliver ∧ checkingReportPending s = true) ∨ owesCheck s' = true := by
  rcases s with ⟨pc, state, stage, dA, eA, rA, dO, eO, eV, rO, early, ctx, tailF, path, rep, compl, fin, settled⟩
  owes_tac hs pc early

theorem owes_recv (marks : Bool) (s s' : St) (hi : inv marks s = true) (ho : owesCheck s = true)
    (hs : step marks s (.recv) = some s') : (Act.recv = Act.deliver ∧ checkingReportPending s = true) ∨ owesCheck s' = true := by
  rcases s with ⟨pc, state, stage, dA, eA, rA, dO, eO, eV, rO, early, ctx, tailF, path, rep, compl, fin, settled⟩
  owes_tac hs pc early

theorem owes_ctx (marks : Bool) (s s' : St) (hi : inv marks s = true) (ho : owesCheck s = true)
    (hs : step marks s (.ctx) = some s') : (Act.ctx = Act.deliver ∧ checkingReportPending s = true) ∨ owesCheck s' = true := by
  rcases s with ⟨pc, state, stage, dA, eA, rA, dO, eO, eV, rO, early, ctx, tailF, path, rep, compl, fin, settled⟩
  owes_tac hs pc early

theorem owes_deployOk (marks : Bool) (s s' : St) (hi : inv marks s = true) (ho : owesCheck s = true)
    (hs : step marks s (.deployOk) = some s') : (Act.deployOk = Act.deliver ∧ checkingReportPending s = true) ∨ owesCheck s' = true := by
  rcases s with ⟨pc, state, stage, dA, eA, rA, dO, eO, eV, rO, early, ctx, tailF, path, rep, compl, fin, settled⟩
  owes_tac hs pc early

theorem owes_deployFail (marks : Bool) (s s' : St) (hi : inv marks s = true) (ho : owesCheck s = true)
    (hs : step marks s (.deployFail) = some s') : (Act.deployFail = Act.deliver ∧ checkingReportPending s = true) ∨ owesCheck s' = true := by
  rcases s with ⟨pc, state, stage, dA, eA, rA, dO, eO, eV, rO, early, ctx, tailF, path, rep, compl, fin, settled⟩
  owes_tac hs pc early

theorem owes_startOk (marks : Bool) (s s' : St) (hi : inv marks s = true) (ho : owesCheck s = true)
    (hs : step marks s (.startOk) = some s') : (Act.startOk = Act.deliver ∧ checkingReportPending s = true) ∨ owesCheck s' = true := by
  rcases s with ⟨pc, state, stage, dA, eA, rA, dO, eO, eV, rO, early, ctx, tailF, path, rep, compl, fin, settled⟩
  owes_tac hs pc early

theorem owes_startFail (marks : Bool) (s s' : St) (hi : inv marks s = true) (ho : owesCheck s = true)
    (hs : step marks s (.startFail) = some s') : (Act.startFail = Act.deliver ∧ checkingReportPending s = true) ∨ owesCheck s' = true := by
  rcases s with ⟨pc, state, stage, dA, eA, rA, dO, eO, eV, rO, early, ctx, tailF, path, rep, compl, fin, settled⟩
  owes_tac hs pc early

theorem owes_resultOk (marks : Bool) (s s' : St) (hi : inv marks s = true) (ho : owesCheck s = true)
    (hs : step marks s (.resultOk) = some s') : (Act.resultOk = Act.deliver ∧ checkingReportPending s = true) ∨ owesCheck s' = true := by
  rcases s with ⟨pc, state, stage, dA, eA, rA, dO, eO, eV, rO, early, ctx, tailF, path, rep, compl, fin, settled⟩
  owes_tac hs pc early

theorem owes_resultErr (marks : Bool) (s s' : St) (hi : inv marks s = true) (ho : owesCheck s = true)
    (hs : step marks s (.resultErr) = some s') : (Act.resultErr = Act.deliver ∧ checkingReportPending s = true) ∨ owesCheck s' = true := by
  rcases s with ⟨pc, state, stage, dA, eA, rA, dO, eO, eV, rO, early, ctx, tailF, path, rep, compl, fin, settled⟩
  owes_tac hs pc early

theorem owes_step (marks : Bool) (s s' : St) (a : Act) (hi : inv marks s = true) (ho : owesCheck s = true) (hs : step marks s a = some s') :
    (a = Act.deliver ∧ checkingReportPending s = true) ∨ owesCheck s' = true := by
  cases a with
  | provideDeploy => exact owes_provideDeploy marks s s' hi ho hs
  | provideEnabling b => exact owes_provideEnabling marks s s' b hi ho hs
  | provideStarting => exact owes_provideStarting marks s s' hi ho hs
  | cancel => exact owes_cancel marks s s' hi ho hs
  | internal => exact owes_internal marks s s' hi ho hs
  | deliver => exact owes_deliver marks s s' hi ho hs
  | deliverFailure => exact owes_deliverFailure marks s s' hi ho hs
  | recv => exact owes_recv marks s s' hi ho hs
  | ctx => exact owes_ctx marks s s' hi ho hs
  | deployOk => exact owes_deployOk marks s s' hi ho hs
  | deployFail => exact owes_deployFail marks s s' hi ho hs
  | startOk => exact owes_startOk marks s s' hi ho hs
  | startFail => exact owes_startFail marks s s' hi ho hs
  | resultOk => exact owes_resultOk marks s s' hi ho hs
  | resultErr => exact owes_resultErr marks s s' hi ho hs

/-- from a settled state the only moves left are silent local ones, and they lead to settled states -/
theorem settled_step (marks : Bool) (s s' : St) (a : Act) (hs : Settled s = true) (ha : a ∈ progressActs) (hstep : step marks s a = some s') :
    a = .internal ∧ Settled s' = true := by
  rcases s with ⟨pc, state, stage, dA, eA, rA, dO, eO, eV, rO, early, ctx, tailF, path, rep, compl, fin, settled⟩
  simp only [progressActs, List.mem_cons, List.mem_nil_iff, or_false] at ha
  rcases pc with _|_|_|_|_|_|_|_|_|_|_|_|_|_|_|_|_|_|_|_|_|⟨tgt,st⟩|⟨tgt⟩|⟨tgt⟩|⟨tgt⟩|⟨tgt⟩|⟨tgt⟩|⟨tgt⟩|⟨tgt⟩|_|_|_
  all_goals (try cases tgt)
  all_goals (rcases ha with rfl | rfl | rfl | rfl | rfl | rfl | rfl | rfl | rfl | rfl | rfl)
  all_goals (simp [step, afterTrans, choose] at hstep)
  all_goals (try (repeat' split at hstep))
  all_goals (try (obtain ⟨_, hstep⟩ := hstep))
  all_goals (try subst hstep)
  all_goals (try (simp_all [Settled, Quiescent, progressActs, step, afterTrans, choose]; done))

/-- counted as `waiting` in stage `deploy`, context not cancelled: parked on the empty channel, input not provided -/
theorem deploy_counts_waiting (marks : Bool) (s : St) (hi : inv marks s = true) (hst : s.stage = .deploy) (hc : countsAs s = .waiting) :
    Quiescent s = true ∧ s.deployAvail = false ∧ s.ctxDone = false := by
  rcases s with ⟨pc, state, stage, dA, eA, rA, dO, eO, eV, rO, early, ctx, tailF, path, rep, compl, fin, settled⟩
  rcases pc with _|_|_|_|_|_|_|_|_|_|_|_|_|_|_|_|_|_|_|_|_|⟨tgt,st⟩|⟨tgt⟩|⟨tgt⟩|⟨tgt⟩|⟨tgt⟩|⟨tgt⟩|⟨tgt⟩|⟨tgt⟩|_|_|_
  all_goals (try cases tgt)
  all_goals (try cases st)
  all_goals (simp [inv] at hi)
  all_goals (try (simp_all [Quiescent, Settled, progressActs, step, afterTrans, countsAs, reportedState, currentStageInputAvailable, inFailureTail, Refined, owesCheck, checkingReportPending, choose]; done))
  all_goals (try (cases dA <;> simp_all [Quiescent, Settled, progressActs, step, afterTrans, countsAs, reportedState, currentStageInputAvailable, inFailureTail, Refined, owesCheck, checkingReportPending, choose]; done))
  all_goals (try (cases eA <;> simp_all [Quiescent, Settled, progressActs, step, afterTrans, countsAs, reportedState, currentStageInputAvailable, inFailureTail, Refined, owesCheck, checkingReportPending, choose]; done))
  all_goals (try (cases rA <;> simp_all [Quiescent, Settled, progressActs, step, afterTrans, countsAs, reportedState, currentStageInputAvailable, inFailureTail, Refined, owesCheck, checkingReportPending, choose]; done))
  all_goals (try (cases early <;> cases rA <;> simp_all [Quiescent, Settled, progressActs, step, afterTrans, countsAs, reportedState, currentStageInputAvailable, inFailureTail, Refined, owesCheck, checkingReportPending, choose]; done))
  all_goals (try (cases state <;> cases dA <;> cases dO <;> cases ctx <;> simp_all [Quiescent, Settled, progressActs, step, afterTrans, countsAs, reportedState, currentStageInputAvailable, inFailureTail, Refined, owesCheck, checkingReportPending, choose]; done))
  all_goals (try (cases state <;> cases stage <;> cases dA <;> cases eA <;> cases rA <;> simp_all [Quiescent, Settled, progressActs, step, afterTrans, countsAs, reportedState, currentStageInputAvailable, inFailureTail, Refined, owesCheck, checkingReportPending, choose]; done))

/-- raw `waiting_for_input` with the context cancelled: counted as running, and `run()` is on its way to report that
    it was closed -/
theorem raw_waiting_ctx_owes (marks : Bool) (s : St) (hi : inv marks s = true) (hw : s.state = .waiting) (hctx : s.ctxDone = true) :
    countsAs s = .running ∧ owesCheck s = true := by
  rcases s with ⟨pc, state, stage, dA, eA, rA, dO, eO, eV, rO, early, ctx, tailF, path, rep, compl, fin, settled⟩
  rcases pc with _|_|_|_|_|_|_|_|_|_|_|_|_|_|_|_|_|_|_|_|_|⟨tgt,st⟩|⟨tgt⟩|⟨tgt⟩|⟨tgt⟩|⟨tgt⟩|⟨tgt⟩|⟨tgt⟩|⟨tgt⟩|_|_|_
  all_goals (try cases tgt)
  all_goals (try cases st)
  all_goals (simp [inv] at hi)
  all_goals (try (simp_all [Quiescent, Settled, progressActs, step, afterTrans, countsAs, reportedState, currentStageInputAvailable, inFailureTail, Refined, owesCheck, checkingReportPending, choose]; done))
  all_goals (try (cases dA <;> simp_all [Quiescent, Settled, progressActs, step, afterTrans, countsAs, reportedState, currentStageInputAvailable, inFailureTail, Refined, owesCheck, checkingReportPending, choose]; done))
  all_goals (try (cases eA <;> simp_all [Quiescent, Settled, progressActs, step, afterTrans, countsAs, reportedState, currentStageInputAvailable, inFailureTail, Refined, owesCheck, checkingReportPending, choose]; done))
  all_goals (try (cases rA <;> simp_all [Quiescent, Settled, progressActs, step, afterTrans, countsAs, reportedState, currentStageInputAvailable, inFailureTail, Refined, owesCheck, checkingReportPending, choose]; done))
  all_goals (try (cases early <;> cases rA <;> simp_all [Quiescent, Settled, progressActs, step, afterTrans, countsAs, reportedState, currentStageInputAvailable, inFailureTail, Refined, owesCheck, checkingReportPending, choose]; done))
  all_goals (try (cases state <;> cases dA <;> cases dO <;> cases ctx <;> simp_all [Quiescent, Settled, progressActs, step, afterTrans, countsAs, reportedState, currentStageInputAvailable, inFailureTail, Refined, owesCheck, checkingReportPending, choose]; done))
  all_goals (try (cases state <;> cases stage <;> cases dA <;> cases eA <;> cases rA <;> simp_all [Quiescent, Settled, progressActs, step, afterTrans, countsAs, reportedState, currentStageInputAvailable, inFailureTail, Refined, owesCheck, checkingReportPending, choose]; done))

/-! ### the failure tail -/

/-- with the marking (`marks = true`): counted as `finished` ⇒ harmless -/
theorem counts_finished_harmless' (marks : Bool) (hm : marks = true) (s : St) (hi : inv marks s = true) (hc : countsAs s = .finished) : Harmless s = true := by
  rcases s with ⟨pc, state, stage, dA, eA, rA, dO, eO, eV, rO, early, ctx, tailF, path, rep, compl, fin, settled⟩
  rcases pc with _|_|_|_|_|_|_|_|_|_|_|_|_|_|_|_|_|_|_|_|_|⟨tgt,st⟩|⟨tgt⟩|⟨tgt⟩|⟨tgt⟩|⟨tgt⟩|⟨tgt⟩|⟨tgt⟩|⟨tgt⟩|_|_|_
  all_goals (try cases tgt)
  all_goals (try cases st)
  all_goals (simp [inv] at hi)
  all_goals (try (simp_all [countsAs, reportedState, currentStageInputAvailable]; done))
  all_goals (try (cases dA <;> cases eA <;> cases rA <;> cases ctx <;> simp_all [countsAs, reportedState, currentStageInputAvailable]; done))
  all_goals (try (rcases hi with ⟨_, ⟨⟨⟨⟨⟨⟨⟨⟨⟨⟨hst | hst, _⟩, _⟩, _⟩, _⟩, _⟩, _⟩, _⟩, _⟩, _⟩, _⟩⟩ <;> cases dA <;> cases ctx <;> simp_all [countsAs, reportedState, currentStageInputAvailable]; done))
  all_goals (subst hm)
  all_goals (obtain ⟨_, ⟨⟨⟨_, htail⟩, hfin⟩, hset⟩⟩ := hi)
  all_goals (subst htail hfin hset)
  all_goals (cases path)
  all_goals (try (simp_all [Quiescent, Settled, Harmless, progressActs, step, afterTrans, inFailureTail, choose, tailOf, failChain, finPre, finMid, finPost, finalStage, settledPost, allStages]; done))

theorem counts_finished_harmless (s : St) (hi : inv true s = true) (hc : countsAs s = .finished) : Harmless s = true :=
  counts_finished_harmless' true rfl s hi hc

/-- from a harmless state the step only makes silent local moves and failure notifications about settled stages; the
    loop-side record does not change and the state stays harmless -/
theorem harmless_step (marks : Bool) (s s' : St) (a : Act) (hh : Harmless s = true) (ha : a ∈ progressActs)
    (hstep : step marks s a = some s') :
    (a = .internal ∨ a = .deliverFailure) ∧ Harmless s' = true ∧ loopView s' = loopView s := by
  rcases s with ⟨pc, state, stage, dA, eA, rA, dO, eO, eV, rO, early, ctx, tailF, path, rep, compl, fin, settled⟩
  simp only [progressActs, List.mem_cons, List.mem_nil_iff, or_false] at ha
  rcases pc with _|_|_|_|_|_|_|_|_|_|_|_|_|_|_|_|_|_|_|_|_|⟨tgt,st⟩|⟨tgt⟩|⟨tgt⟩|⟨tgt⟩|⟨tgt⟩|⟨tgt⟩|⟨tgt⟩|⟨tgt⟩|_|_|_
  all_goals (try cases tgt)
  all_goals (rcases ha with rfl | rfl | rfl | rfl | rfl | rfl | rfl | rfl | rfl | rfl | rfl)
  all_goals (simp [step, afterTrans, choose] at hstep)
  all_goals (try (repeat' split at hstep))
  all_goals (try (obtain ⟨_, hstep⟩ := hstep))
  all_goals (try subst hstep)
  all_goals (try (simp_all [Quiescent, Settled, Harmless, progressActs, step, afterTrans, countsAs, reportedState, currentStageInputAvailable, inFailureTail, choose, tailOf, failChain, finPre, finMid, finPost, finalStage, settledPost, allStages, loopView]; done))

/-- `failChain` is the fall-through chain of `markStageFailures` as extracted from the source -/
def stageName : Stage → String
  | .deploy => "deploy" | .deployFailed => "deploy_failed" | .enabling => "enabling" | .disabled => "disabled"
  | .starting => "starting" | .running => "running" | .outputs => "outputs" | .crashed => "crashed" | .closed => "closed"

theorem failChain_matches_source :
    ∀ x ∈ [Stage.enabling, .disabled, .starting, .running, .outputs],
      Arca.Model.PluginStep.chainFrom Arca.Gen.pluginFailChain (stageName x) = some ((failChain x).map stageName) := by
  decide

end Arca.Proofs.PluginState
