/-
Helper lemmas for C09: the inductive invariant of the plugin provider's state model (`Arca.Model.PluginState`): which
`r.state` / `r.currentStage` another goroutine can observe at which point of `run()`.
-/
import Arca.Model.PluginState

namespace Arca.Proofs.PluginState
open Arca.Model.PluginState

/-- what `State()`, `CurrentStage()` and the deploy channel look like at each program point of `run()` -/
def inv (s : St) : Bool :=
  -- an input flag that is not set means an empty channel
  (s.deployAvail || !s.deployOcc) && (s.enabledAvail || !s.enabledOcc) && (s.runAvail || !s.runOcc) &&
  (match s.pc with
   | .dLock => s.state == .starting && s.stage == .deploy && s.deployOcc == s.deployAvail
   | .dCb => s.state == .running && s.stage == .deploy && s.deployOcc == s.deployAvail
   | .dTry => s.state == .running && s.stage == .deploy && s.deployOcc == s.deployAvail
   | .dSetWaiting => s.state == .running && s.stage == .deploy && s.deployOcc == s.deployAvail
   | .dWait => (s.state == .waiting || (s.state == .running && s.deployAvail)) && s.stage == .deploy &&
       s.deployOcc == s.deployAvail
   | .dGotEarly => s.state == .running && s.stage == .deploy && s.deployAvail
   | .dGotLate => (s.state == .waiting || s.state == .running) && s.stage == .deploy && s.deployAvail
   | .dDeploying => s.state == .running && s.stage == .deploy
   | .spCheck => s.state == .running && s.stage == .deploy
   | .eLock => s.state == .running && s.stage == .deploy
   | .eCb => s.state == .waiting && s.stage == .enabling
   | .eWait => s.state == .waiting && s.stage == .enabling
   | .eGotTrue => s.state == .waiting && s.stage == .enabling
   | .sTry => s.state == .waiting && s.stage == .enabling
   | .transLock .starting st => s.state == .waiting && s.stage == .enabling && st == (if s.early then .running else .waiting)
   | .transLock .disabled st => s.state == .waiting && s.stage == .enabling && st == .running
   | .transLock .running st => s.state == .running && s.stage == .starting && st == .running
   | .transLock .outputs st => s.state == .running && s.stage == .running && st == .running
   | .transLock .crashed st => s.state == .running && s.stage == .running && st == .running
   | .transLock .deployFailed st => s.state == .running && s.stage == .deploy && st == .running
   | .transLock .closed st => s.state == .running && s.stage == .deploy && st == .running
   | .transLock .deploy _ => false
   | .transLock .enabling _ => false
   | .transCb .starting => s.stage == .starting && s.state == (if s.early then .running else .waiting)
   | .transCb .deploy => false
   | .transCb .enabling => false
   | .transCb tgt => s.state == .running && s.stage == tgt
   | .sCheck => s.state == .waiting && s.stage == .starting && !s.early
   | .sWait => s.state == .waiting && s.stage == .starting && !s.early
   | .sGotLate => s.state == .waiting && s.stage == .starting && !s.early
   | .sSchema => s.state == .running && s.stage == .starting
   | .rWait => s.state == .running && s.stage == .running
   | .failedLock .closed =>
       (s.state == .waiting || (s.state == .running && s.stage == .deploy && s.deployAvail)) &&
       (s.stage == .deploy || s.stage == .enabling || s.stage == .starting)
   | .failedLock .crashed => s.state == .running && s.stage == .starting
   | .failedLock _ => false
   | .failedCb tgt => s.state == .running && s.stage == tgt && (tgt == .closed || tgt == .crashed)
   | .complLock tgt => s.state == .running && s.stage == tgt
   | .complCb tgt => s.state == .finished && s.stage == tgt
   | .tail => s.state == .finished
   | .done => s.state == .finished)

theorem inv_init : inv init = true := by decide

/-- closure under one action: fix the action and the program point, compute, discharge -/
macro "close_tac" hi:ident hs:ident pc:ident stv:ident : tactic => `(tactic| (
  rcases $pc:ident with _|_|_|_|_|_|_|_|_|_|_|_|_|_|_|_|_|_|_|⟨tgt,st⟩|⟨tgt⟩|⟨tgt⟩|⟨tgt⟩|⟨tgt⟩|⟨tgt⟩|_|_
  all_goals (try cases tgt)
  all_goals (try cases st)
  all_goals (simp [step, afterTrans] at $hs:ident)
  all_goals (try (repeat' split at $hs:ident))
  all_goals (try (obtain ⟨_, $hs:ident⟩ := $hs:ident))
  all_goals (try subst $hs:ident)
  all_goals (simp_all [inv])
  all_goals (try (cases $stv:ident <;> simp_all))))

theorem inv_provideDeploy (s s' : St) (hi : inv s = true) (hs : step s (.provideDeploy) = some s') : inv s' = true := by
  rcases s with ⟨pc, state, stage, dA, eA, rA, dO, eO, eV, rO, early, ctx⟩
  close_tac hi hs pc state

theorem inv_provideEnabling (s s' : St) (b : Bool) (hi : inv s = true) (hs : step s (.provideEnabling b) = some s') : inv s' = true := by
  rcases s with ⟨pc, state, stage, dA, eA, rA, dO, eO, eV, rO, early, ctx⟩
  close_tac hi hs pc state

theorem inv_provideStarting (s s' : St) (hi : inv s = true) (hs : step s (.provideStarting) = some s') : inv s' = true := by
  rcases s with ⟨pc, state, stage, dA, eA, rA, dO, eO, eV, rO, early, ctx⟩
  close_tac hi hs pc state

theorem inv_cancel (s s' : St) (hi : inv s = true) (hs : step s (.cancel) = some s') : inv s' = true := by
  rcases s with ⟨pc, state, stage, dA, eA, rA, dO, eO, eV, rO, early, ctx⟩
  close_tac hi hs pc state

theorem inv_internal (s s' : St) (hi : inv s = true) (hs : step s (.internal) = some s') : inv s' = true := by
  rcases s with ⟨pc, state, stage, dA, eA, rA, dO, eO, eV, rO, early, ctx⟩
  close_tac hi hs pc state

theorem inv_recv (s s' : St) (hi : inv s = true) (hs : step s (.recv) = some s') : inv s' = true := by
  rcases s with ⟨pc, state, stage, dA, eA, rA, dO, eO, eV, rO, early, ctx⟩
  close_tac hi hs pc state

theorem inv_ctx (s s' : St) (hi : inv s = true) (hs : step s (.ctx) = some s') : inv s' = true := by
  rcases s with ⟨pc, state, stage, dA, eA, rA, dO, eO, eV, rO, early, ctx⟩
  close_tac hi hs pc state

theorem inv_deployOk (s s' : St) (hi : inv s = true) (hs : step s (.deployOk) = some s') : inv s' = true := by
  rcases s with ⟨pc, state, stage, dA, eA, rA, dO, eO, eV, rO, early, ctx⟩
  close_tac hi hs pc state

theorem inv_deployFail (s s' : St) (hi : inv s = true) (hs : step s (.deployFail) = some s') : inv s' = true := by
  rcases s with ⟨pc, state, stage, dA, eA, rA, dO, eO, eV, rO, early, ctx⟩
  close_tac hi hs pc state

theorem inv_startOk (s s' : St) (hi : inv s = true) (hs : step s (.startOk) = some s') : inv s' = true := by
  rcases s with ⟨pc, state, stage, dA, eA, rA, dO, eO, eV, rO, early, ctx⟩
  close_tac hi hs pc state

theorem inv_startFail (s s' : St) (hi : inv s = true) (hs : step s (.startFail) = some s') : inv s' = true := by
  rcases s with ⟨pc, state, stage, dA, eA, rA, dO, eO, eV, rO, early, ctx⟩
  close_tac hi hs pc state

theorem inv_resultOk (s s' : St) (hi : inv s = true) (hs : step s (.resultOk) = some s') : inv s' = true := by
  rcases s with ⟨pc, state, stage, dA, eA, rA, dO, eO, eV, rO, early, ctx⟩
  close_tac hi hs pc state

theorem inv_resultErr (s s' : St) (hi : inv s = true) (hs : step s (.resultErr) = some s') : inv s' = true := by
  rcases s with ⟨pc, state, stage, dA, eA, rA, dO, eO, eV, rO, early, ctx⟩
  close_tac hi hs pc state

theorem inv_step (s s' : St) (a : Act) (hi : inv s = true) (hs : step s a = some s') : inv s' = true := by
  cases a with
  | provideDeploy => exact inv_provideDeploy s s' hi hs
  | provideEnabling b => exact inv_provideEnabling s s' b hi hs
  | provideStarting => exact inv_provideStarting s s' hi hs
  | cancel => exact inv_cancel s s' hi hs
  | internal => exact inv_internal s s' hi hs
  | recv => exact inv_recv s s' hi hs
  | ctx => exact inv_ctx s s' hi hs
  | deployOk => exact inv_deployOk s s' hi hs
  | deployFail => exact inv_deployFail s s' hi hs
  | startOk => exact inv_startOk s s' hi hs
  | startFail => exact inv_startFail s s' hi hs
  | resultOk => exact inv_resultOk s s' hi hs
  | resultErr => exact inv_resultErr s s' hi hs

theorem reachable_inv (s : St) (hr : Reachable s) : inv s = true := by
  induction hr with
  | init => exact inv_init
  | step a _ hs ih => exact inv_step _ _ a ih hs

/-! ### consequences -/

/-- `waiting_for_input` or `finished` is observed either in a quiescent state or in one of the listed windows -/
theorem classified (s : St) (hi : inv s = true) (hw : s.state = .waiting ∨ s.state = .finished) :
    Quiescent s = true ∨ InWindow s = true := by
  rcases s with ⟨pc, state, stage, dA, eA, rA, dO, eO, eV, rO, early, ctx⟩
  rcases pc with _|_|_|_|_|_|_|_|_|_|_|_|_|_|_|_|_|_|_|⟨tgt,st⟩|⟨tgt⟩|⟨tgt⟩|⟨tgt⟩|⟨tgt⟩|⟨tgt⟩|_|_
  all_goals (try cases tgt)
  all_goals (try cases st)
  all_goals (simp [inv] at hi)
  all_goals (simp [Quiescent, progressActs, step, afterTrans, InWindow, inDeployRace, inEnableWindow, inStartWindow,
    inCompletionWindow, inClosingWindow])
  all_goals (try (rcases hw with hw | hw <;> simp_all))
  all_goals (try (cases dO <;> cases ctx <;> simp_all))
  all_goals (try (cases eO <;> cases ctx <;> simp_all))
  all_goals (try (cases rO <;> cases ctx <;> simp_all))

/-- the shape of the quiescent states -/
theorem quiescent_shape (s : St) (hi : inv s = true) (hq : Quiescent s = true) :
    (s.pc = .dWait ∧ s.deployOcc = false ∧ s.ctxDone = false) ∨ (s.pc = .eWait ∧ s.enabledOcc = false ∧ s.ctxDone = false) ∨
    (s.pc = .sWait ∧ s.runOcc = false ∧ s.ctxDone = false) ∨ s.pc = .done := by
  rcases s with ⟨pc, state, stage, dA, eA, rA, dO, eO, eV, rO, early, ctx⟩
  rcases pc with _|_|_|_|_|_|_|_|_|_|_|_|_|_|_|_|_|_|_|⟨tgt,st⟩|⟨tgt⟩|⟨tgt⟩|⟨tgt⟩|⟨tgt⟩|⟨tgt⟩|_|_
  all_goals (try cases tgt)
  all_goals (simp [Quiescent, progressActs, step, afterTrans] at hq)
  all_goals (try (split at hq <;> simp at hq))
  all_goals (try simp_all)
  all_goals (simp [inv] at hi)

/-- stage `deploy`, state `waiting_for_input`, input provided: only in the deploy race or while being closed -/
theorem deploy_waiting_provided (s : St) (hi : inv s = true) (hst : s.stage = .deploy) (hw : s.state = .waiting)
    (ha : s.deployAvail = true) : inDeployRace s = true ∨ s.pc = .failedLock .closed := by
  rcases s with ⟨pc, state, stage, dA, eA, rA, dO, eO, eV, rO, early, ctx⟩
  rcases pc with _|_|_|_|_|_|_|_|_|_|_|_|_|_|_|_|_|_|_|⟨tgt,st⟩|⟨tgt⟩|⟨tgt⟩|⟨tgt⟩|⟨tgt⟩|⟨tgt⟩|_|_
  all_goals (try cases tgt)
  all_goals (try cases st)
  all_goals (simp [inv] at hi)
  all_goals (simp [inDeployRace])
  all_goals (simp_all)

/-! ### the poll model -/

theorem fires_take (r : Nat) : ∀ (polls : List (List RState)), detectorFires r polls = true →
    (polls.take (r + 1)).length = r + 1 ∧ (polls.take (r + 1)).all idle = true := by
  induction r with
  | zero =>
    intro polls h
    cases polls with
    | nil => simp [detectorFires] at h
    | cons p rest => simp [detectorFires] at h; simp [h]
  | succ r ih =>
    intro polls h
    cases polls with
    | nil => simp [detectorFires] at h
    | cons p rest =>
      simp only [detectorFires, Bool.and_eq_true] at h
      obtain ⟨h1, h2⟩ := ih rest h.2
      refine ⟨by simp [List.take, h1], ?_⟩
      simp only [List.take, List.all_cons, Bool.and_eq_true]
      exact ⟨h.1, h2⟩

theorem busy_poll_stops (r : Nat) : ∀ (polls : List (List RState)) (i : Nat) (p : List RState), i ≤ r →
    polls[i]? = some p → idle p = false → detectorFires r polls = false := by
  induction r with
  | zero =>
    intro polls i p hi hp hidle
    have : i = 0 := by omega
    subst this
    cases polls with
    | nil => simp at hp
    | cons q rest => simp at hp; subst hp; simp [detectorFires, hidle]
  | succ r ih =>
    intro polls i p hi hp hidle
    cases polls with
    | nil => simp at hp
    | cons q rest =>
      cases i with
      | zero => simp at hp; subst hp; simp [detectorFires, hidle]
      | succ j =>
        simp at hp
        simp [detectorFires, ih rest j p (by omega) hp hidle]

end Arca.Proofs.PluginState
