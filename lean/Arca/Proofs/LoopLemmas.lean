/-
Reusable induction principle for the run-loop model: every function of `RunLoop.lean` that transforms an
`R = LoopState × List Action` does so by a finite sequence of *primitive steps* (`Step`).  An invariant of the loop
therefore only has to be checked against the dozen constructors of `Step`; `Reach.preserves` lifts it to
`processNode`, `notifySteps`, `onStageCompleteBody`, ..., `react`.
-/
import Arca.Model.RunLoop

namespace Arca.Model

/-- The primitive transformations of (state, accumulated actions) that the loop is made of. -/
inductive Step (P : Prepared) : R → R → Prop
  | setDag (r : R) (g : Graph String) : Step P r ({ r.1 with dag := g }, r.2)
  | setData (r : R) (d : Val) : Step P r ({ r.1 with data := d }, r.2)
  | setFinished (r : R) (f : List (String × String)) : Step P r ({ r.1 with finished := f }, r.2)
  | drain (r : R) : Step P r ({ r.1 with errs := 0 }, r.2)
  | provide (r : R) (a b : String) (v : Val) : Step P r (emit r (.provide a b v))
  | skipped (r : R) (o : String) (v : Val) : r.1.outputDone = true → Step P r (emit r (.outputSkipped o v))
  | spawn (r : R) (n : Nat) : Step P r (emit r (.spawnDetector n))
  | die (r : R) (site : PanicSite) : Step P r (die r (.panic site))
  | sendErr (r : R) (k : ErrKind) : k ≠ .noMoreOutputs → Step P r (sendErr P.errCap r k)
  | cancel (r : R) : Step P r (doCancel r)
  | dropWaiting (r : R) (id : String) :
      Step P r ({ r.1 with waitingOutputs := r.1.waitingOutputs.filter (· ≠ id) }, r.2)
  | noMoreOut (r : R) (id : String) :
      r.1.waitingOutputs.contains id = true →
      (r.1.waitingOutputs.filter (· ≠ id)).isEmpty = true →
      Step P r (Arca.Model.sendErr P.errCap
        ({ r.1 with waitingOutputs := r.1.waitingOutputs.filter (· ≠ id) }, r.2) .noMoreOutputs)
  | output (r : R) (o : String) (v : Val) :
      r.1.outputDone = false →
      Step P r ({ r.1 with outputDone := true, result := some (o, v) }, r.2 ++ [.output o v])

/-- reflexive-transitive closure of `Step` -/
inductive Reach (P : Prepared) : R → R → Prop
  | refl (r : R) : Reach P r r
  | tail {a b c : R} : Reach P a b → Step P b c → Reach P a c

namespace Reach

variable {P : Prepared}

theorem single {a b : R} (h : Step P a b) : Reach P a b := .tail (.refl a) h

theorem trans {a b c : R} (h1 : Reach P a b) (h2 : Reach P b c) : Reach P a c := by
  induction h2 with
  | refl => exact h1
  | tail _ s ih => exact .tail ih s

theorem head {a b c : R} (s : Step P a b) (h : Reach P b c) : Reach P a c := trans (single s) h

/-- the induction principle: a predicate preserved by every primitive step is preserved along `Reach` -/
theorem preserves {Q : R → Prop} (hstep : ∀ a b, Step P a b → Q a → Q b) {a b : R}
    (h : Reach P a b) (ha : Q a) : Q b := by
  induction h with
  | refl => exact ha
  | tail _ s ih => exact hstep _ _ s ih

end Reach

/-! ### every function of the loop is a sequence of primitive steps -/

variable {P : Prepared}

theorem processNode_reach (fns : Fns) (notify : R → R) (hn : ∀ r, Reach P r (notify r))
    (r : R) (id : String) (st : St) : Reach P r (processNode P fns notify r id st).1 := by
  unfold processNode
  repeat' split
  all_goals try exact .refl _
  all_goals try exact .single (.die _ _)
  all_goals try exact .single (.provide _ _ _ _)
  all_goals try exact .head (.setDag r _) (hn _)
  all_goals try exact (Reach.single (.sendErr r _ (by decide))).tail (.cancel _)
  · -- an unresolvable output node leaves the waiting set
    rename_i hc
    dsimp only
    split
    · rename_i he
      refine (Reach.single (.noMoreOut r id ?_ he.1)).tail (.cancel _)
      simpa using hc
    · exact .single (.dropWaiting r id)
  · -- a second output: skipped
    rename_i hd
    dsimp only
    split
    · exact (Reach.single (.skipped r _ _ hd)).tail (.setDag _ _)
    · exact .single (.skipped r _ _ hd)
  · -- the first output
    rename_i hd
    have hd' : r.1.outputDone = false := by simpa using hd
    dsimp only
    split
    · exact (Reach.single (.output r _ _ hd')).tail (.setDag _ _)
    · exact .single (.output r _ _ hd')

theorem processNodes_reach (fns : Fns) (notify : R → R) (hn : ∀ r, Reach P r (notify r))
    (l : List (String × St)) : ∀ r : R, Reach P r (processNodes P fns notify r l) := by
  induction l with
  | nil => intro r; exact .refl r
  | cons x rest ih =>
    intro r
    obtain ⟨id, st⟩ := x
    unfold processNodes
    have h1 := processNode_reach fns notify hn r id st
    dsimp only
    split
    · exact h1
    · exact h1.trans (ih _)

theorem notifySteps_reach (fns : Fns) (ord : Order) (f : Nat) :
    ∀ r : R, Reach P r (notifySteps P fns ord f r) := by
  induction f with
  | zero => intro r; exact .refl r
  | succ f ih =>
    intro r
    unfold notifySteps
    split
    · exact .refl r
    · exact .head (.setDag r _) (processNodes_reach fns _ ih _ _)

theorem markOutputsUnres_reach (step stage : String) (skip : Option String) (r : R) :
    Reach P r (markOutputsUnres P step stage skip r) := by
  unfold markOutputsUnres
  generalize P.outputsOf step stage = l
  induction l generalizing r with
  | nil => exact .refl r
  | cons o rest ih =>
    rw [List.foldl_cons]
    refine Reach.trans ?_ (ih _)
    repeat' split
    all_goals first | exact .refl _ | exact .single (.die _ _) | exact .single (.setDag _ _)

theorem markStageUnres_reach (step stage : String) (r : R) :
    Reach P r (markStageUnres step stage r) := by
  unfold markStageUnres
  repeat' split
  all_goals first | exact .refl _ | exact .single (.die _ _) | exact .single (.setDag _ _)

theorem markRemainingOne_reach (step : String) (r : R) (stage : String) :
    Reach P r (markRemainingOne P step r stage) := by
  unfold markRemainingOne
  split
  · exact .refl _
  · exact (markOutputsUnres_reach _ _ none r).trans (markStageUnres_reach _ _ _)

theorem markRemaining_reach (step : String) (r : R) : Reach P r (markRemaining P step r) := by
  unfold markRemaining
  generalize P.stagesOf step = l
  induction l generalizing r with
  | nil => exact .refl r
  | cons x rest ih =>
    rw [List.foldl_cons]
    exact (markRemainingOne_reach step r x).trans (ih _)

theorem checkDeadlock_reach (retries : Nat) (busy : Bool) (r : R) :
    Reach P r (checkDeadlock P retries busy r) := by
  unfold checkDeadlock
  repeat' split
  all_goals first
    | exact .refl _
    | exact .single (.spawn _ _)
    | exact (Reach.single (.sendErr r _ (by decide))).tail (.cancel _)

theorem Reach.of_setDag {r c : R} {g : Graph String}
    (h : Reach P ({ r.1 with dag := g }, r.2) c) : Reach P r c := .head (.setDag r g) h

theorem Reach.of_setData {r c : R} {d : Val}
    (h : Reach P ({ r.1 with data := d }, r.2) c) : Reach P r c := .head (.setData r d) h

theorem Reach.sendErr_cancel (r : R) (k : ErrKind) (hk : k ≠ .noMoreOutputs) :
    Reach P r (doCancel (sendErr P.errCap r k)) :=
  (Reach.single (.sendErr r k hk)).tail (.cancel _)

theorem Reach.of_setFinished {r c : R} {f : List (String × String)}
    (h : Reach P ({ r.1 with finished := f }, r.2) c) : Reach P r c := .head (.setFinished r f) h

theorem finishStage_reach (fns : Fns) (ord : Order) (step : String) (complete : Bool) (r : R) :
    Reach P r (finishStage P fns ord step complete r) := by
  unfold finishStage
  split
  · exact (markRemaining_reach step r).trans (notifySteps_reach fns ord _ _)
  · exact notifySteps_reach fns ord _ _

theorem onStageCompleteBody_reach (fns : Fns) (ord : Order) (step prev : String)
    (out : Option (String × Val)) (complete : Bool) (r : R) :
    Reach P r (onStageCompleteBody P fns ord step prev out complete r) := by
  unfold onStageCompleteBody
  dsimp only
  split
  · exact .sendErr_cancel _ _ (by decide)
  split
  · exact .single (.die _ _)
  · exact .single (.die _ _)
  · exact .sendErr_cancel _ _ (by decide)
  apply Reach.of_setDag
  apply Reach.of_setFinished
  split
  · exact finishStage_reach fns ord _ _ _
  split
  · exact .sendErr_cancel _ _ (by decide)
  split
  · exact .single (.die _ _)
  · exact .single (.die _ _)
  · exact .sendErr_cancel _ _ (by decide)
  split
  · exact .of_setDag (markOutputsUnres_reach _ _ _ _)
  · exact .of_setDag ((markOutputsUnres_reach _ _ _ _).trans (.of_setData (finishStage_reach fns ord _ _ _)))

theorem react_reach (fns : Fns) (ord : Order) (s : LoopState) (e : Event) :
    Reach P (s, []) (react P fns ord s e) := by
  unfold react
  split
  · exact .refl _
  split
  · dsimp only
    apply Reach.of_setData
    apply Reach.of_setDag
    split
    · exact .refl _
    split
    · exact .refl _
    · apply Reach.of_setDag
      exact notifySteps_reach fns ord _ _
  · split
    · exact .refl _
    · exact (onStageCompleteBody_reach fns ord _ _ _ _ _).trans (checkDeadlock_reach _ _ _)
  · exact (onStageCompleteBody_reach fns ord _ _ _ _ _).trans (checkDeadlock_reach _ _ _)
  · dsimp only
    split
    · exact (markOutputsUnres_reach _ _ none (s, [])).trans (markStageUnres_reach _ _ _)
    · exact ((markOutputsUnres_reach _ _ none (s, [])).trans (markStageUnres_reach _ _ _)).trans
        (notifySteps_reach fns ord _ _)
  · split
    · exact .refl _
    · exact checkDeadlock_reach _ _ _
  · exact .single (.drain (s, []))

end Arca.Model
