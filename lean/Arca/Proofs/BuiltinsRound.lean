/-
Helper lemmas for C18: `encodeNat` is exact below 2^53, hence intToFloat / floor / ceil / round are exact integer
arithmetic on the scaled value.
-/
import Arca.Proofs.BuiltinsFloat

set_option exponentiation.threshold 4096

namespace Arca.Proofs.Builtins
open Arca.Model Arca.Model.Builtins

theorem encodeNat_fields {n : Nat} (h0 : 0 < n) (h53 : n < 2 ^ 53) :
    encodeNat n < 2 ^ 63 ∧ fExp (encodeNat n) = 1023 + Nat.log2 n ∧ Nat.log2 n ≤ 52 ∧
      2 ^ 52 + fMant (encodeNat n) = n * 2 ^ (52 - Nat.log2 n) := by
  have hne : n ≠ 0 := by omega
  have hl : Nat.log2 n < 53 := (Nat.log2_lt hne).2 h53
  have hlo : 2 ^ Nat.log2 n ≤ n := Nat.log2_self_le hne
  have hhi : n < 2 ^ (Nat.log2 n + 1) := Nat.lt_log2_self
  have hl52 : Nat.log2 n ≤ 52 := by omega
  unfold encodeNat
  simp only [hne, if_false, hl52, if_true]
  generalize Nat.log2 n = l at *
  have hk : 2 ^ l * 2 ^ (52 - l) = 2 ^ 52 := by rw [← Nat.pow_add]; congr 1; omega
  have hk1 : 2 ^ (l + 1) * 2 ^ (52 - l) = 2 ^ 53 := by rw [← Nat.pow_add]; congr 1; omega
  have hA1 : 2 ^ 52 ≤ n * 2 ^ (52 - l) := by rw [← hk]; exact Nat.mul_le_mul_right _ hlo
  have hA2 : n * 2 ^ (52 - l) < 2 ^ 53 := by
    rw [← hk1]; exact Nat.mul_lt_mul_of_pos_right hhi (Nat.pow_pos (by decide))
  generalize n * 2 ^ (52 - l) = A at *
  unfold fExp fMant
  refine ⟨?_, ?_, ?_, ?_⟩
  · omega
  · omega
  · trivial
  · omega

theorem scaledAbs_encodeNat {n : Nat} (h53 : n < 2 ^ 53) :
    scaledAbs (encodeNat n) = n * unit ∧ encodeNat n < 2 ^ 63 ∧ fExp (encodeNat n) < 2047 := by
  by_cases h0 : n = 0
  · subst h0; decide +kernel
  · obtain ⟨h1, h2, h3, h4⟩ := encodeNat_fields (Nat.pos_of_ne_zero h0) h53
    refine ⟨?_, h1, by omega⟩
    unfold scaledAbs
    have : fExp (encodeNat n) ≠ 0 := by omega
    simp only [this, if_false]
    rw [h4, h2, Nat.mul_assoc, ← Nat.pow_add]
    unfold unit
    congr 2; omega

theorem fields_lt63 {b : Nat} (h : b < 2 ^ 63) : fSign b = false := by
  unfold fSign
  have : b / 2 ^ 63 = 0 := by omega
  simp [this]

theorem fields_withSign_true {b : Nat} (h : b < 2 ^ 63) :
    fSign (withSign true b) = true ∧ fExp (withSign true b) = fExp b ∧ fMant (withSign true b) = fMant b := by
  unfold withSign fSign fExp fMant
  simp only [if_true]
  refine ⟨?_, by omega, by omega⟩
  have : (b + 2 ^ 63) / 2 ^ 63 % 2 = 1 := by omega
  rw [this]; rfl

theorem scaledAbs_withSign {b : Nat} (s : Bool) (h : b < 2 ^ 63) :
    scaledAbs (withSign s b) = scaledAbs b ∧ fSign (withSign s b) = s ∧ fExp (withSign s b) = fExp b := by
  cases s
  · simp [withSign, fields_lt63 h]
  · obtain ⟨h1, h2, h3⟩ := fields_withSign_true h
    refine ⟨?_, h1, h2⟩
    unfold scaledAbs; rw [h2, h3]

/-- the double built from sign `s` and an integer magnitude below 2^53 has exactly that value -/
theorem scaled_signed_encode (s : Bool) {n : Nat} (h53 : n < 2 ^ 53) :
    scaled (withSign s (encodeNat n)) = (if s then -((n * unit : Nat) : Int) else ((n * unit : Nat) : Int)) ∧
    scaledAbs (withSign s (encodeNat n)) = n * unit ∧
    fSign (withSign s (encodeNat n)) = s ∧ isNaN (withSign s (encodeNat n)) = false := by
  obtain ⟨h1, h2, h3⟩ := scaledAbs_encodeNat h53
  obtain ⟨g1, g2, g3⟩ := scaledAbs_withSign s h2
  refine ⟨?_, by rw [g1, h1], g2, ?_⟩
  · unfold scaled; rw [g2, g1, h1]
  · unfold isNaN; rw [g3]
    have : (fExp (encodeNat n) == 2047) = false := by
      cases h : (fExp (encodeNat n) == 2047)
      · rfl
      · have := (beq_iff_eq).1 h; omega
    simp [this]

/-! ### intToFloat -/

theorem intToFloat_exact_aux (i : Int) (h : i.natAbs < 2 ^ 53) :
    scaled (intToFloat i) = i * (unit : Int) ∧ isNaN (intToFloat i) = false := by
  unfold intToFloat
  obtain ⟨h1, _, _, h4⟩ := scaled_signed_encode (decide (i < 0)) h
  refine ⟨?_, h4⟩
  rw [h1]
  by_cases hneg : i < 0
  · simp only [hneg, decide_true, if_true]
    have : (i.natAbs : Int) = -i := by omega
    rw [Int.natCast_mul, this, Int.neg_mul, Int.neg_neg]
  · simp only [hneg, decide_false, Bool.false_eq_true, if_false]
    have : (i.natAbs : Int) = i := by omega
    rw [Int.natCast_mul, this]

theorem floatToInt_intToFloat_aux (i : Int) (h : i.natAbs < 2 ^ 53) : floatToInt (intToFloat i) = some i := by
  unfold intToFloat
  obtain ⟨_, h2, h3, h4⟩ := scaled_signed_encode (decide (i < 0)) h
  rw [floatToInt_eq h4, h3]
  have ht : truncAbs (withSign (decide (i < 0)) (encodeNat i.natAbs)) = i.natAbs := by
    unfold truncAbs; rw [h2]; exact Nat.mul_div_cancel _ unit_pos
  rw [ht]
  have hlt : ¬ i.natAbs ≥ 2 ^ 63 := by omega
  by_cases hneg : i < 0
  · simp only [hneg, decide_true, if_true, hlt, if_false]; congr 1; omega
  · simp only [hneg, decide_false, Bool.false_eq_true, if_false, hlt]; congr 1; omega

/-! ### floor / ceil / round / abs -/

/-- below exponent 52 the truncated magnitude is below 2^52 -/
theorem truncAbs_small {b : Nat} (h : fExp b < 1075) : scaledAbs b / unit < 2 ^ 52 := by
  apply (Nat.div_lt_iff_lt_mul unit_pos).2
  unfold scaledAbs
  have hm : fMant b < 2 ^ 52 := by unfold fMant; omega
  split
  · calc fMant b < 2 ^ 52 := hm
      _ ≤ 2 ^ 52 * unit := Nat.le_mul_of_pos_right _ unit_pos
  · have he : fExp b - 1 ≤ 1073 := by omega
    have h1 : 2 ^ (fExp b - 1) ≤ 2 ^ 1073 := Nat.pow_le_pow_right (by decide) he
    have h2 : 2 ^ 52 + fMant b < 2 ^ 53 := by omega
    calc (2 ^ 52 + fMant b) * 2 ^ (fExp b - 1) ≤ (2 ^ 52 + fMant b) * 2 ^ 1073 := Nat.mul_le_mul_left _ h1
      _ < 2 ^ 53 * 2 ^ 1073 := Nat.mul_lt_mul_of_pos_right h2 (Nat.pow_pos (by decide))
      _ = 2 ^ 52 * unit := by unfold unit; decide +kernel

/-- at exponent 52 and above a finite double is an integer -/
theorem integral_big {b : Nat} (h : fExp b ≥ 1075) : unit ∣ scaledAbs b := by
  unfold scaledAbs
  have : fExp b ≠ 0 := by omega
  simp only [this, if_false]
  apply Nat.dvd_mul_left_of_dvd
  unfold unit
  exact Nat.pow_dvd_pow 2 (by omega)

theorem divmod_split (n k : Nat) : n = n / k * k + n % k := by
  rw [Nat.mul_comm]; exact (Nat.div_add_mod n k).symm

theorem floor_spec_aux (b : Nat) (h : fExp b < 1075) :
    ∃ k : Int, scaled (floorBits b) = k * (unit : Int) ∧ k * (unit : Int) ≤ scaled b ∧ scaled b < (k + 1) * (unit : Int) := by
  have hq := truncAbs_small h
  have hs := divmod_split (scaledAbs b) unit
  have hr : scaledAbs b % unit < unit := Nat.mod_lt _ unit_pos
  unfold floorBits
  simp only [show ¬ fExp b ≥ 1075 by omega, if_false]
  generalize hqd : scaledAbs b / unit = q at *
  generalize hrd : scaledAbs b % unit = r at *
  cases hsg : fSign b
  · simp only [Bool.false_eq_true, if_false]
    have := (scaled_signed_encode false (n := q) (by omega)).1
    simp only [withSign, Bool.false_eq_true, if_false] at this
    refine ⟨(q : Int), ?_, ?_, ?_⟩
    · rw [this, Int.natCast_mul]
    · rw [scaled_of_pos hsg, hs, ← Int.natCast_mul]; exact_mod_cast Nat.le_add_right _ _
    · rw [scaled_of_pos hsg, hs, Int.add_mul, Int.one_mul, ← Int.natCast_mul]
      exact_mod_cast Nat.add_lt_add_left hr _
  · simp only [if_true]
    by_cases hr0 : r = 0
    · simp only [hr0, if_true]
      have := (scaled_signed_encode true (n := q) (by omega)).1
      simp only [if_true] at this
      refine ⟨-(q : Int), ?_, ?_, ?_⟩
      · rw [this, Int.natCast_mul, Int.neg_mul]
      · rw [scaled_of_neg hsg, hs, hr0, Int.neg_mul, ← Int.natCast_mul]; simp
      · rw [scaled_of_neg hsg, hs, hr0, Int.add_mul, Int.neg_mul, Int.one_mul, ← Int.natCast_mul]
        have : (0 : Int) < (unit : Int) := by exact_mod_cast unit_pos
        simp only [Nat.add_zero]
        omega
    · simp only [hr0, if_false]
      have := (scaled_signed_encode true (n := q + 1) (by omega)).1
      simp only [if_true] at this
      refine ⟨-((q + 1 : Nat) : Int), ?_, ?_, ?_⟩
      · rw [this, Int.natCast_mul, Int.neg_mul]
      · rw [scaled_of_neg hsg, Int.neg_mul, ← Int.natCast_mul]
        have : scaledAbs b ≤ (q + 1) * unit := by rw [Nat.add_mul, Nat.one_mul]; omega
        have : ((scaledAbs b : Nat) : Int) ≤ (((q + 1) * unit : Nat) : Int) := by exact_mod_cast this
        omega
      · rw [scaled_of_neg hsg]
        have e : (-((q + 1 : Nat) : Int) + 1) * (unit : Int) = -((q * unit : Nat) : Int) := by
          rw [Int.natCast_mul]
          have : -((q + 1 : Nat) : Int) + 1 = -(q : Int) := by omega
          rw [this, Int.neg_mul]
        rw [e]
        have : q * unit < scaledAbs b := by omega
        have : ((q * unit : Nat) : Int) < ((scaledAbs b : Nat) : Int) := by exact_mod_cast this
        omega

theorem ceil_spec_aux (b : Nat) (h : fExp b < 1075) :
    ∃ k : Int, scaled (ceilBits b) = k * (unit : Int) ∧ (k - 1) * (unit : Int) < scaled b ∧ scaled b ≤ k * (unit : Int) := by
  have hq := truncAbs_small h
  have hs := divmod_split (scaledAbs b) unit
  have hr : scaledAbs b % unit < unit := Nat.mod_lt _ unit_pos
  have hup : (0 : Int) < (unit : Int) := by exact_mod_cast unit_pos
  unfold ceilBits
  simp only [show ¬ fExp b ≥ 1075 by omega, if_false]
  generalize hqd : scaledAbs b / unit = q at *
  generalize hrd : scaledAbs b % unit = r at *
  cases hsg : fSign b
  · simp only [Bool.false_eq_true, if_false]
    by_cases hr0 : r = 0
    · simp only [hr0, if_true]
      have := (scaled_signed_encode false (n := q) (by omega)).1
      simp only [withSign, Bool.false_eq_true, if_false] at this
      refine ⟨(q : Int), ?_, ?_, ?_⟩
      · rw [this, Int.natCast_mul]
      · rw [scaled_of_pos hsg, hs, hr0, Int.sub_mul, Int.one_mul, ← Int.natCast_mul]
        simp only [Nat.add_zero]; omega
      · rw [scaled_of_pos hsg, hs, hr0, ← Int.natCast_mul]; simp
    · simp only [hr0, if_false]
      have := (scaled_signed_encode false (n := q + 1) (by omega)).1
      simp only [withSign, Bool.false_eq_true, if_false] at this
      refine ⟨((q + 1 : Nat) : Int), ?_, ?_, ?_⟩
      · rw [this, Int.natCast_mul]
      · have e : (((q + 1 : Nat) : Int) - 1) * (unit : Int) = ((q * unit : Nat) : Int) := by
          rw [Int.natCast_mul]
          have : ((q + 1 : Nat) : Int) - 1 = (q : Int) := by omega
          rw [this]
        rw [e, scaled_of_pos hsg]
        have : q * unit < scaledAbs b := by omega
        exact_mod_cast this
      · rw [scaled_of_pos hsg, ← Int.natCast_mul]
        have : scaledAbs b ≤ (q + 1) * unit := by rw [Nat.add_mul, Nat.one_mul]; omega
        exact_mod_cast this
  · simp only [if_true]
    have := (scaled_signed_encode true (n := q) (by omega)).1
    simp only [if_true] at this
    refine ⟨-(q : Int), ?_, ?_, ?_⟩
    · rw [this, Int.natCast_mul, Int.neg_mul]
    · rw [scaled_of_neg hsg]
      have e : (-(q : Int) - 1) * (unit : Int) = -(((q + 1) * unit : Nat) : Int) := by
        rw [Int.natCast_mul]
        have : -(q : Int) - 1 = -((q + 1 : Nat) : Int) := by omega
        rw [this, Int.neg_mul]
      rw [e]
      have : scaledAbs b < (q + 1) * unit := by rw [Nat.add_mul, Nat.one_mul]; omega
      have : ((scaledAbs b : Nat) : Int) < (((q + 1) * unit : Nat) : Int) := by exact_mod_cast this
      omega
    · rw [scaled_of_neg hsg, Int.neg_mul, ← Int.natCast_mul]
      have : q * unit ≤ scaledAbs b := by omega
      have : ((q * unit : Nat) : Int) ≤ ((scaledAbs b : Nat) : Int) := by exact_mod_cast this
      omega

theorem round_spec_aux (b : Nat) (h : fExp b < 1075) :
    ∃ n : Nat, scaledAbs (roundBits b) = n * unit ∧ fSign (roundBits b) = fSign b ∧
      n * unit ≤ scaledAbs b + unit / 2 ∧ scaledAbs b + unit / 2 < (n + 1) * unit := by
  have hq := truncAbs_small h
  have hb := div_bounds (scaledAbs b + unit / 2) unit unit_pos
  unfold roundBits
  simp only [show ¬ fExp b ≥ 1075 by omega, if_false]
  have hn : (scaledAbs b + unit / 2) / unit < 2 ^ 53 := by
    apply (Nat.div_lt_iff_lt_mul unit_pos).2
    have h1 : scaledAbs b < 2 ^ 52 * unit := (Nat.div_lt_iff_lt_mul unit_pos).1 hq
    have h2 : unit / 2 < unit := Nat.div_lt_self unit_pos (by decide)
    have h3 : 2 ^ 53 * unit = 2 ^ 52 * unit + 2 ^ 52 * unit := by
      rw [← Nat.add_mul]
    have h4 : unit ≤ 2 ^ 52 * unit := Nat.le_mul_of_pos_left _ (by decide)
    omega
  obtain ⟨_, g2, g3, _⟩ := scaled_signed_encode (fSign b) hn
  exact ⟨_, g2, g3, hb.1, hb.2⟩

theorem abs_spec_aux (b : Nat) (hb : b < 2 ^ 64) :
    fSign (absBits b) = false ∧ fExp (absBits b) = fExp b ∧ fMant (absBits b) = fMant b ∧
      scaledAbs (absBits b) = scaledAbs b := by
  unfold absBits
  cases hs : fSign b
  · simp [hs]
  · simp only [if_true]
    have h63 : 2 ^ 63 ≤ b := by
      unfold fSign at hs
      have : b / 2 ^ 63 % 2 = 1 := by simpa using hs
      omega
    have e1 : fExp (b - 2 ^ 63) = fExp b := by unfold fExp; omega
    have e2 : fMant (b - 2 ^ 63) = fMant b := by unfold fMant; omega
    refine ⟨fields_lt63 (by omega), e1, e2, ?_⟩
    unfold scaledAbs; rw [e1, e2]

end Arca.Proofs.Builtins
