/-
Helper lemmas for C10 / C16, part 4: for an accepted workflow the rendered ids are injective on the declared nodes, so
a tolerated duplicate connection has the dependency type the reference asked for — the last piece of "the graph has
exactly the declared edges, with exactly the declared types".
-/
import Arca.Model.Prepare
import Arca.Proofs.PrepareFold
import Arca.Proofs.PrepareOps
import Arca.Proofs.PrepareWf

set_option linter.unusedSectionVars false
set_option linter.unusedVariables false

namespace Arca.Model
open Arca.Gen (StageRow pluginStages foreachStages)

/-! ### every edge operation connects nodes that are created by node operations -/

/-- the node a site lives in (resp. the group node of an option) is created by an operation of the workflow -/
theorem site_holder_node {po : List String} {wf : Wf} {σ : Site} (hσ : σ ∈ wf.allSites) :
    match σ with
    | .val cur _ _ => Op.node cur ∈ wf.ops po
    | .opt g _ => Op.node g ∈ wf.ops po := by
  obtain ⟨ra, hra, hσ'⟩ := mem_allSites.1 hσ
  have hroot : Op.node ra.1 ∈ wf.ops po := by
    apply mem_ops.2
    refine Or.inl (mem_headOps.2 ?_)
    rcases mem_roots.1 hra with ⟨s, hs, row, hrow, f, hf, ha, h1⟩ | ⟨o, ho, rfl⟩
    · rw [h1]
      exact Or.inr (Or.inr (Or.inl ⟨s, hs, row, hrow, mem_rowNodeOps.2 (Or.inl rfl)⟩))
    · exact Or.inr (Or.inr (Or.inr (Or.inr (Or.inr ⟨o, ho, rfl⟩))))
  have hL : ∀ τ, τ ∈ sites ra.1 [] ra.2 → τ ∈ wf.allSites := fun τ hτ => mem_allSites.2 ⟨ra, hra, hτ⟩
  have hc := sites_coord ra.1 [] ra.2 σ hσ'
  cases σ with
  | val cur path v =>
    rcases hc with rfl | ⟨g, k, rfl, hopt⟩
    · exact hroot
    · exact mem_ops.2 (Or.inr ⟨_, hL _ hopt, by simp [siteOps, optionHead]⟩)
  | opt g k =>
    obtain ⟨c, p, d, opts, rfl, hone, hne⟩ := hc
    refine mem_ops.2 (Or.inr ⟨_, hL _ hone, ?_⟩)
    have : opts.isEmpty = false := by
      cases opts with
      | nil => exact absurd rfl hne
      | cons _ _ => rfl
    simp [siteOps, this]

/-- the target of an edge operation of a site: the node the site lives in, or a group / option node the site creates -/
theorem siteOps_edge_target {R : Resolver} {σ : Site} {a b : NodeId} {d : Dep} {tol : Bool}
    (h : Op.edge a b d tol ∈ siteOps R σ) :
    (match σ with
      | .val cur _ _ => b = cur
      | .opt g _ => b = g) ∨ (b.isGroupLike ∧ Op.node b ∈ siteOps R σ) := by
  have refcase : ∀ {c e}, Op.edge a b d tol ∈ opsRefs R c e → b = c := by
    intro c e h
    obtain ⟨p, hp, ⟨a', h1, h2⟩ | ⟨r, h1, h2⟩⟩ := mem_opsRefs.1 h
    · cases h2; rfl
    · cases h2
  cases σ with
  | opt g k =>
    simp only [siteOps, optionHead, List.mem_cons, List.mem_nil_iff, or_false] at h
    rcases h with h | h
    · cases h
    · cases h; exact Or.inl rfl
  | val cur path v =>
    cases v with
    | lit _ => simp [siteOps] at h
    | list _ => simp [siteOps] at h
    | map _ => simp [siteOps] at h
    | expr e =>
      simp only [siteOps] at h
      exact Or.inl (refcase h)
    | optional w e =>
      simp only [siteOps, List.mem_append, List.mem_cons, List.mem_nil_iff, or_false] at h
      rcases h with (h | h) | h
      · cases h
      · cases h; exact Or.inl rfl
      · have := refcase h
        subst this
        exact Or.inr ⟨trivial, by simp [siteOps]⟩
    | oneof dsc opts =>
      simp only [siteOps] at h
      split at h
      · simp at h
      · simp only [List.mem_cons, List.mem_nil_iff, or_false] at h
        rcases h with h | h
        · cases h
        · cases h; exact Or.inl rfl
    | ordisabled e =>
      simp only [siteOps] at h
      split at h
      · simp at h
      · rename_i s hs
        simp only [optionHead, List.mem_append, List.mem_cons, List.mem_nil_iff, or_false] at h
        rcases h with ((((h | h) | (h | h)) | h) | (h | h)) | h
        · cases h
        · cases h; exact Or.inl rfl
        · cases h
        · cases h; exact Or.inr ⟨trivial, by simp [siteOps, hs]⟩
        · have := refcase h
          subst this
          exact Or.inr ⟨trivial, by simp [siteOps, hs, optionHead]⟩
        · cases h
        · cases h; exact Or.inr ⟨trivial, by simp [siteOps, hs]⟩
        · have := refcase h
          subst this
          exact Or.inr ⟨trivial, by simp [siteOps, hs, optionHead]⟩

theorem ops_edge_endpoints {po : List String} {wf : Wf} {a b : NodeId} {d : Dep} {tol : Bool}
    (h : Op.edge a b d tol ∈ wf.ops po) : Op.node a ∈ wf.ops po ∧ Op.node b ∈ wf.ops po := by
  rcases mem_ops.1 h with hh | ⟨σ, hσ, hs⟩
  · have hhead := mem_headOps.1 hh
    rcases hhead with ⟨_, h1⟩ | h1 | ⟨s, hs, row, hrow, h1⟩ | ⟨s, hs, row, hrow, nd, hnd, h1⟩ | ⟨_, h1⟩ | ⟨o, ho, h1⟩
    · cases h1
    · cases h1
    · rcases mem_rowNodeOps.1 h1 with h2 | ⟨o, ho, h2 | h2⟩
      · cases h2
      · cases h2
      · cases h2
        constructor
        · exact mem_ops.2 (Or.inl (mem_headOps.2 (Or.inr (Or.inr (Or.inl
            ⟨s, hs, row, hrow, mem_rowNodeOps.2 (Or.inl rfl)⟩)))))
        · exact mem_ops.2 (Or.inl (mem_headOps.2 (Or.inr (Or.inr (Or.inl
            ⟨s, hs, row, hrow, mem_rowNodeOps.2 (Or.inr ⟨o, ho, Or.inl rfl⟩)⟩)))))
    · cases h1
      obtain ⟨row', hrow', hid⟩ := next_is_row s.kind row hrow nd hnd
      constructor
      · exact mem_ops.2 (Or.inl (mem_headOps.2 (Or.inr (Or.inr (Or.inl
          ⟨s, hs, row, hrow, mem_rowNodeOps.2 (Or.inl rfl)⟩)))))
      · rw [← hid]
        exact mem_ops.2 (Or.inl (mem_headOps.2 (Or.inr (Or.inr (Or.inl
          ⟨s, hs, row', hrow', mem_rowNodeOps.2 (Or.inl rfl)⟩)))))
    · cases h1
    · cases h1
  · constructor
    · rcases siteOps_edge_class hs with ⟨_, _, p, hp⟩ | ⟨_, _, hn⟩
      · exact mem_ops.2 (Or.inl (resolve_node hp))
      · exact mem_ops.2 (Or.inr ⟨σ, hσ, hn⟩)
    · have hh := site_holder_node (po := po) hσ
      rcases siteOps_edge_target hs with ht | ⟨_, hn⟩
      · cases σ with
        | val cur path v => simp only at ht hh; rw [ht]; exact hh
        | opt g k => simp only at ht hh; rw [ht]; exact hh
      · exact mem_ops.2 (Or.inr ⟨σ, hσ, hn⟩)

/-! ### accepted workflows have distinct step ids -/

theorem nodup_flatMap_inj {α β : Type} {f : α → List β} {l : List α} (h : (l.flatMap f).Nodup) {a b : α} {x : β}
    (ha : a ∈ l) (hb : b ∈ l) (hxa : x ∈ f a) (hxb : x ∈ f b) : a = b := by
  induction l with
  | nil => cases ha
  | cons c l ih =>
    simp only [List.flatMap_cons] at h
    obtain ⟨h1, h2, h3⟩ := List.nodup_append.1 h
    rcases List.mem_cons.1 ha with rfl | ha' <;> rcases List.mem_cons.1 hb with rfl | hb'
    · rfl
    · exact absurd rfl (h3 x hxa x (List.mem_flatMap.2 ⟨b, hb', hxb⟩))
    · exact absurd rfl (h3 x hxb x (List.mem_flatMap.2 ⟨a, ha', hxa⟩))
    · exact ih h2 ha' hb'

theorem nodup_of_nodup_map {α β : Type} {f : α → β} {l : List α} (h : (l.map f).Nodup) : l.Nodup := by
  induction l with
  | nil => exact List.nodup_nil
  | cons a l ih =>
    simp only [List.map_cons, List.nodup_cons, List.mem_map, not_exists, not_and] at h
    exact List.nodup_cons.2 ⟨fun hm => h.1 a hm rfl, ih h.2⟩

theorem nodeIds_flatMap {α : Type} (l : List α) (f : α → List Op) :
    nodeIds (l.flatMap f) = l.flatMap (fun x => nodeIds (f x)) := by
  induction l with
  | nil => rfl
  | cons a l ih => simp only [List.flatMap_cons, nodeIds_append, ih]

/-- two steps of an accepted workflow with the same id are the same step -/
theorem steps_id_inj {po : List String} {wf : Wf} {g : Graph String} (hrun : runOps Graph.empty (wf.ops po) = .ok g)
    {s s' : Step} (hs : s ∈ wf.steps) (hs' : s' ∈ wf.steps) (hid : s.id = s'.id) : s = s' := by
  have hnd : (nodeIds (wf.ops po)).Nodup := nodup_of_nodup_map (runOps_nodup hrun)
  unfold Wf.ops at hnd
  simp only [nodeIds_append, nodeIds_flatMap] at hnd
  have h1 : (wf.steps.flatMap (fun x => nodeIds (stepNodeOps po x))).Nodup := by
    have := (List.nodup_append.1 hnd).1
    have := (List.nodup_append.1 this).1
    have := (List.nodup_append.1 this).1
    exact (List.nodup_append.1 this).2.1
  obtain ⟨row, hrow, hr⟩ := enabling_row s.kind
  obtain ⟨row', hrow', hr'⟩ := enabling_row s'.kind
  have m1 : NodeId.stage s.id "enabling" ∈ nodeIds (stepNodeOps po s) := by
    apply mem_nodeIds.2
    unfold stepNodeOps
    exact List.mem_flatMap.2 ⟨row, hrow, mem_rowNodeOps.2 (Or.inl (by rw [hr]))⟩
  have m2 : NodeId.stage s.id "enabling" ∈ nodeIds (stepNodeOps po s') := by
    apply mem_nodeIds.2
    unfold stepNodeOps
    exact List.mem_flatMap.2 ⟨row', hrow', mem_rowNodeOps.2 (Or.inl (by rw [hr', hid]))⟩
  exact nodup_flatMap_inj h1 hs hs' m1 m2

/-! ### tolerated duplicates have the right type -/

/-- the holder of a reference: a group / option node, a workflow output, or a stage that takes input fields -/
theorem tol_edge_target {po : List String} {wf : Wf} {a b : NodeId} {d : Dep}
    (h : Op.edge a b d true ∈ wf.ops po) :
    d = .and ∧ a.isRef ∧
    (b.isGroupLike ∨ (∃ x, b = .wfout x) ∨
      ∃ s ∈ wf.steps, ∃ row ∈ rowsOf s.kind, row.inputFields ≠ [] ∧ b = .stage s.id row.id) := by
  rcases mem_ops.1 h with hh | ⟨σ, hσ, hs⟩
  · exact absurd (edge_mem_headOps.1 hh).1 (by simp)
  · rcases siteOps_edge_class hs with ⟨_, hd, p, hp⟩ | ⟨ht, _, _⟩
    · refine ⟨hd, resolve_isRef hp, ?_⟩
      rcases siteOps_edge_target hs with ht | ⟨hg, _⟩
      · cases σ with
        | opt g k =>
          -- the only edge of an `opt` site is strict
          simp only [siteOps, optionHead, List.mem_cons, List.mem_nil_iff, or_false] at hs
          rcases hs with hs | hs <;> cases hs
        | val cur path v =>
          simp only at ht
          subst ht
          obtain ⟨ra, hra, hσ'⟩ := mem_allSites.1 hσ
          rcases sites_coord ra.1 [] ra.2 _ hσ' with hc | ⟨g, k, hc, _⟩
          · rcases mem_roots.1 hra with ⟨s, hs', row, hrow, f, hf, ha, h1⟩ | ⟨o, ho, rfl⟩
            · refine Or.inr (Or.inr ⟨s, hs', row, hrow, ?_, by rw [hc, h1]⟩)
              intro he; rw [he] at hf; cases hf
            · exact Or.inr (Or.inl ⟨o.1, hc⟩)
          · rw [hc]; exact Or.inl trivial
      · exact Or.inl hg
    · cases ht

/-- In the graph of an accepted workflow, the edge between the endpoints of a reference is a plain `and` dependency —
also when the connection already existed and the duplicate was tolerated. -/
theorem tol_edge_type {po : List String} {wf : Wf} {g : Graph String} (hrun : runOps Graph.empty (wf.ops po) = .ok g)
    {a b : NodeId} {d d' : Dep} (h : Op.edge a b d true ∈ wf.ops po) (he : (a.render, b.render, d') ∈ g.edges) :
    d' = .and := by
  obtain ⟨hd, href, htgt⟩ := tol_edge_target h
  rcases runOps_edges_sound hrun _ he with h0 | ⟨a', b', d'', tol', hop', heq⟩
  · simp [Graph.empty] at h0
  simp only [Prod.mk.injEq] at heq
  obtain ⟨hra, hrb, rfl⟩ := heq
  obtain ⟨na, nb⟩ := ops_edge_endpoints h
  obtain ⟨na', nb'⟩ := ops_edge_endpoints hop'
  have ea : a = a' := render_inj_of_run hrun na na' hra
  have eb : b = b' := render_inj_of_run hrun nb nb' hrb
  subst ea; subst eb
  cases tol' with
  | true => exact (tol_edge_target hop').1
  | false =>
    rcases mem_ops.1 hop' with hh | ⟨σ, hσ, hs⟩
    · rcases (edge_mem_headOps.1 hh).2 with hso | hlc
      · unfold Wf.stageOutS at hso
        simp only [List.mem_flatMap, List.mem_map] at hso
        obtain ⟨s, _, row, _, o, _, h1⟩ := hso
        cases h1; rfl
      · unfold Wf.lifecycleS at hlc
        simp only [List.mem_flatMap, List.mem_map] at hlc
        obtain ⟨s, hs, row, hrow, nd, hnd, h1⟩ := hlc
        simp only [Prod.mk.injEq] at h1
        obtain ⟨h1a, h1b, h1c⟩ := h1
        rw [← h1c]
        -- `b` is a stage node: it must be a stage that takes input fields
        rcases htgt with hg | ⟨x, hx⟩ | ⟨s', hs', row', hrow', hne, hb⟩
        · rw [← h1b] at hg; cases hg
        · rw [← h1b] at hx; cases hx
        · rw [← h1b] at hb
          simp only [NodeId.stage.injEq] at hb
          obtain ⟨hid, hrid⟩ := hb
          have hss : s = s' := steps_id_inj hrun hs hs' hid
          subst hss
          cases hdec : decide (nd.2 = Dep.and) with
          | true => exact of_decide_eq_true hdec
          | false =>
            have hne' : nd.2 ≠ Dep.and := of_decide_eq_false hdec
            exact absurd (soft_next_no_fields s.kind row hrow nd hnd hne' row' hrow' hrid.symm) hne
    · rcases siteOps_edge_class hs with ⟨ht, _, _⟩ | ⟨_, hgl, _⟩
      · cases ht
      · -- a group / option node is never the source of a reference
        cases a <;> simp [NodeId.isRef, NodeId.isGroupLike] at href hgl

/-! ### `prepare` unfolded -/

theorem prepare_ok {po : List String} {wf : Wf} {g : Graph String} {items : List (String × Item)}
    (h : prepare po wf = .ok (g, items)) :
    runOps Graph.empty (wf.ops po) = .ok g ∧ g.hasCycles = false ∧ items = wf.items po := by
  unfold prepare build at h
  split at h
  · cases h
  · rename_i g' hb
    split at h
    · cases h
    · rename_i hc
      simp only [Except.ok.injEq, Prod.mk.injEq] at h
      obtain ⟨rfl, rfl⟩ := h
      exact ⟨hb, by simpa using hc, rfl⟩

/-! ### the expressions of a site -/

/-- the expressions a site contains (for `!ordisabled`: the given one and the generated `disabled` one) -/
def Site.exprs : Site → List Expr
  | .val _ _ (.expr e) => [e]
  | .val _ _ (.optional _ e) => [e]
  | .val _ _ (.ordisabled e) =>
    match orDisabledStep e with
    | none => [e]
    | some s => [disabledExpr s, e]
  | .val _ _ (.lit _) => []
  | .val _ _ (.list _) => []
  | .val _ _ (.map _) => []
  | .val _ _ (.oneof _ _) => []
  | .opt _ _ => []

/-- every dependency of every expression of a site shows up among the site's operations: as an edge from the node
it resolves to, or as the failure it resolves to -/
theorem site_expr_ops {R : Resolver} {σ : Site} {e : Expr} (he : e ∈ σ.exprs) {p : List String} (hp : p ∈ Expr.deps e) :
    (∃ a c, R p = .ok a ∧ Op.edge a c .and true ∈ siteOps R σ) ∨ (∃ r, Op.fail r ∈ siteOps R σ) := by
  have key : ∀ c, (∃ a, R p = .ok a ∧ Op.edge a c .and true ∈ opsRefs R c e) ∨ (∃ r, Op.fail r ∈ opsRefs R c e) := by
    intro c
    cases h : R p with
    | ok a => exact Or.inl ⟨a, rfl, mem_opsRefs.2 ⟨p, hp, Or.inl ⟨a, h, rfl⟩⟩⟩
    | error r => exact Or.inr ⟨r, mem_opsRefs.2 ⟨p, hp, Or.inr ⟨r, h, rfl⟩⟩⟩
  cases σ with
  | opt g k => simp [Site.exprs] at he
  | val cur path v =>
    cases v with
    | lit _ => simp [Site.exprs] at he
    | list _ => simp [Site.exprs] at he
    | map _ => simp [Site.exprs] at he
    | oneof _ _ => simp [Site.exprs] at he
    | expr e' =>
      simp only [Site.exprs, List.mem_cons, List.mem_nil_iff, or_false] at he
      subst he
      rcases key cur with ⟨a, h1, h2⟩ | ⟨r, h2⟩
      · exact Or.inl ⟨a, cur, h1, by simpa [siteOps] using h2⟩
      · exact Or.inr ⟨r, by simpa [siteOps] using h2⟩
    | optional w e' =>
      simp only [Site.exprs, List.mem_cons, List.mem_nil_iff, or_false] at he
      subst he
      rcases key (.group cur path) with ⟨a, h1, h2⟩ | ⟨r, h2⟩
      · exact Or.inl ⟨a, _, h1, by simp only [siteOps, List.mem_append]; exact Or.inr h2⟩
      · exact Or.inr ⟨r, by simp only [siteOps, List.mem_append]; exact Or.inr h2⟩
    | ordisabled e' =>
      simp only [Site.exprs] at he
      cases hs : orDisabledStep e' with
      | none => exact Or.inr ⟨.badOrDisabled, by simp [siteOps, hs]⟩
      | some s =>
        simp only [hs, List.mem_cons, List.mem_nil_iff, or_false] at he
        rcases he with rfl | rfl
        · rcases key (.option (.group cur path) "disabled") with ⟨a, h1, h2⟩ | ⟨r, h2⟩
          · exact Or.inl ⟨a, _, h1, by
              simp only [siteOps, hs, List.mem_append]; exact Or.inl (Or.inl (Or.inr h2))⟩
          · exact Or.inr ⟨r, by
              simp only [siteOps, hs, List.mem_append]; exact Or.inl (Or.inl (Or.inr h2))⟩
        · rcases key (.option (.group cur path) "enabled") with ⟨a, h1, h2⟩ | ⟨r, h2⟩
          · exact Or.inl ⟨a, _, h1, by simp only [siteOps, hs, List.mem_append]; exact Or.inr h2⟩
          · exact Or.inr ⟨r, by simp only [siteOps, hs, List.mem_append]; exact Or.inr h2⟩

end Arca.Model
