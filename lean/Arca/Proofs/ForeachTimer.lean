/-
Helper lemmas for the timer extension of the foreach pool and for the close of a loop whose queued items are parked.
-/
import Arca.Model.ForeachTimer
import Arca.Proofs.ForeachProgress

namespace Arca.Model.ForeachPool

variable {α β : Type}

theorem runSchedT_untick {P : Pool α β} {s s' : PoolState α β} {l : List TrT} (h : runSchedT P s l = some s') :
    runSched P s (untick l) = some s' := by
  induction l generalizing s with
  | nil => simpa [runSchedT, untick, runSched] using h
  | cons t ts ih =>
    cases t with
    | pool t =>
      simp only [runSchedT, stepT] at h
      simp only [untick, runSched]
      split at h
      · cases h
      · rename_i s1 h1
        rw [h1]
        exact ih h
    | tick i =>
      simp only [runSchedT, stepT] at h
      simp only [untick]
      split at h
      · cases h
      · rename_i s1 h1
        split at h1
        · cases h1
          exact ih h
        · cases h1

/-- no transition creates a queued item -/
theorem pendingCount_step {P : Pool α β} {s s' : PoolState α β} {t : Tr} (h : step P s t = some s') :
    pendingCount s' ≤ pendingCount s := by
  cases t with
  | acquire i =>
    simp only [step] at h
    split at h
    · cases h
    · split at h
      · rename_i hok
        cases h
        have h2 := countP_set_of_getElem? (p := isPending) (b := .running) hok.1
        simp [isPending] at h2
        simp only [pendingCount]
        omega
      · cases h
  | finish i =>
    simp only [step] at h
    split at h
    · cases h
    · split at h
      · rename_i hok
        cases h
        have h2 := countP_set_of_getElem? (p := isPending) (b := .done) hok.1
        simp [isPending] at h2
        simp only [pendingCount, store_phase]
        omega
      · cases h
  | cancel =>
    simp only [step] at h
    split at h
    · cases h
    · cases h
      simp [pendingCount]
  | abort i =>
    simp only [step] at h
    split at h
    · rename_i hok
      cases h
      have h2 := countP_set_of_getElem? (p := isPending) (b := .aborted) hok.1
      simp [isPending] at h2
      simp only [pendingCount]
      omega
    · cases h

/-- with nothing queued, `acquire` is not enabled -/
theorem no_acquire_of_no_pending {P : Pool α β} {s s' : PoolState α β} {i : Nat} (hq : pendingCount s = 0)
    (h : step P s (.acquire i) = some s') : False := by
  simp only [step] at h
  split at h
  · cases h
  · split at h
    · rename_i hok
      have hpos : 0 < s.phase.countP isPending :=
        List.countP_pos_iff.mpr ⟨.pending, List.mem_of_getElem? hok.1, rfl⟩
      simp only [pendingCount] at hq
      omega
    · cases h

theorem no_acquire_runSched {P : Pool α β} {s s' : PoolState α β} {rest : List Tr} (hq : pendingCount s = 0)
    (h : runSched P s rest = some s') : ∀ i, Tr.acquire i ∉ rest := by
  induction rest generalizing s with
  | nil => intro i hi; cases hi
  | cons t ts ih =>
    simp only [runSched] at h
    split at h
    · cases h
    · rename_i s1 h1
      have hq1 : pendingCount s1 = 0 := by
        have := pendingCount_step h1
        omega
      intro i hi
      rcases List.mem_cons.mp hi with heq | hmem
      · subst heq
        exact no_acquire_of_no_pending hq h1
      · exact ih hq1 h i hmem

end Arca.Model.ForeachPool
