/-
Invariants of the gate transition system `Arca.Model.Gate` (C04, provider part): for every interleaving of the callers of
`ProvideStageInput` / `Close` with `run()`, whatever decisions are plugged in.
-/
import Arca.Model.PluginGate

namespace Arca.Model.Gate
open Arca.Model

/-- `run()` has passed the enable gate with `enabled = true` -/
def passed : Pc → Bool
  | .w2 | .w3 | .parkedStart | .executing => true
  | _ => false

/-- program points from which the starting stage has not been announced yet -/
def beforeAnnounce : Pc → Bool
  | .w0 | .parkedDeploy | .deploying | .w1 | .parkedEnable | .w2 => true
  | _ => false

structure Inv (c : Cfg) (s : GState) : Prop where
  /-- the bool in the channel is the decision on the accepted raw value -/
  chan : s.enabledCh = none ∨ ∃ i, s.given = some i ∧ s.enabledCh = some (c.enabledDec.eval i)
  /-- past the gate only with a raw value on which the decision is true -/
  pass : passed s.pc = true → ∃ i, s.given = some i ∧ c.enabledDec.eval i = true
  /-- the disabled end only with a raw value on which the decision is false -/
  dis : s.pc = .disabledEnd → ∃ i, s.given = some i ∧ c.enabledDec.eval i = false
  /-- a second enabling input is refused once one is in the channel or was consumed -/
  avail : (s.enabledCh.isSome = true ∨ passed s.pc = true ∨ s.pc = .disabledEnd) → s.enabledAvail = true
  /-- a goroutine never stays parked once the context is cancelled -/
  parked : (s.pc = .parkedDeploy ∨ s.pc = .parkedEnable ∨ s.pc = .parkedStart) → s.ctxDone = false
  /-- an early stop leaves only the closed / failed ends open -/
  early : s.stoppedEarly = true →
    s.ctxDone = true ∧ (s.pc = .w0 ∨ s.pc = .deploying ∨ s.pc = .closedEnd ∨ s.pc = .deployFailedEnd)
  /-- the starting stage is announced by the non-blocking receive only -/
  ann : beforeAnnounce s.pc = true → s.announced = false
  /-- the ghost flag implies a cancelled context -/
  sba : s.stoppedBeforeAnnounce = true → s.ctxDone = true
  /-- an early stop that came before the announcement of the starting stage: that stage is never announced -/
  sea : s.stoppedEarly = true → s.stoppedBeforeAnnounce = true → s.announced = false

theorem inv_init (c : Cfg) : Inv c init := by
  constructor <;> simp [init, passed, beforeAnnounce]

set_option maxHeartbeats 1600000 in
theorem inv_step (c : Cfg) (s s' : GState) (a : GAct) (h : Inv c s) (hs : step c s a = some s') : Inv c s' := by
  obtain ⟨pc, dch, dav, ech, eav, rch, rav, sav, ctx, given, ann, se, sba⟩ := s
  obtain ⟨h1, h2, h3, h4, h5, h6, h7, h8, h9⟩ := h
  simp only at h1 h2 h3 h4 h5 h6 h7 h8 h9
  cases a <;> cases pc <;> simp [step, cancelCtx, passed, beforeAnnounce] at hs h1 h2 h3 h4 h5 h6 h7 h8 h9 ⊢ <;>
    (try (repeat' split at hs)) <;>
    (try (simp at hs)) <;>
    (first
      | (subst hs; constructor <;> simp_all [passed, beforeAnnounce])
      | (obtain ⟨hA, rfl⟩ := hs; constructor <;> simp_all [passed, beforeAnnounce])
      | (obtain ⟨hA, hB, rfl⟩ := hs; constructor <;> simp_all [passed, beforeAnnounce])
      | skip) <;>
    (try (intro hse hx; rcases hx with hx | hx <;> first | exact h9 hse hx | exact hx))

theorem inv_reach (c : Cfg) (s : GState) (h : Reach c s) : Inv c s := by
  induction h with
  | init => exact inv_init c
  | step a _ hs ih => exact inv_step c _ _ a ih hs

end Arca.Model.Gate
