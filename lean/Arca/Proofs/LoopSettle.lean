/-
What the repair of finding F11 achieves, on the run-loop model: when a step reports its completion, the loop settles
every stage of that step at once (`markRemainingStagesUnresolvable`), so nothing keeps waiting for a stage the step
will never go through.

* `Settled g id` — node `id` is not left `waiting` in `g` (it is resolved, unresolvable, or not a node at all);
  `StageSettled`, `StepSettled` — for the stage node and the declared output nodes of a stage / of all stages of a step.
* `EventReports P e` — the part of the provider contract the statements need in addition to `LegalEvent`: a stage
  that declares outputs is reported finished together with one of them (both providers do: C12; checked on every
  generated history by `arcadrv`, `legalEvent`).
* `FinConv P s` — bookkeeping invariant: the stages recorded in `finishedStages` are settled.
* `react_settle` — one legal callback keeps `FinConv`, and a legal completion callback leaves the step settled.
* `runFrom_settle`, `run_settle` — along a legal history every step whose completion was processed is settled.
* `settled_no_outstanding`, `settled_and_unres` — what that means for the nodes that depend on the step's nodes.
-/
import Arca.Model.RunLoop
import Arca.Proofs.LoopSafe
import Arca.Proofs.LoopFinished

set_option linter.unusedVariables false
set_option linter.unusedSimpArgs false

namespace Arca.Model

/-! ### graph level: resolving a node `resolved` changes no other status -/

section Graph
variable {ι : Type} [DecidableEq ι]

theorem Graph.depResolved_res_status {g g' : Graph ι} {t s : ι} {turned : Bool}
    (h : g.depResolved t s St.resolved = .ok (g', turned)) :
    turned = false ∧ ∀ x n, g.find? x = some n → ∃ n', g'.find? x = some n' ∧ n'.status = n.status := by
  obtain ⟨m, dt, m', r', hm, _, _, rfl, hstep⟩ := Graph.depResolved_ok h
  have hid : turned = false ∧ m'.id = m.id ∧ m'.status = m.status := by
    cases hstep <;> simp_all
  refine ⟨hid.1, ?_⟩
  intro x n hn
  have hmt := (Graph.find?_some hm).2
  by_cases hx : x = m'.id
  · subst hx
    have hxt : m'.id = t := hid.2.1.trans hmt
    rw [hxt] at hn
    rw [hm] at hn; cases hn
    refine ⟨m', ?_, hid.2.2⟩
    show (g.setNode m').find? m'.id = some m'
    exact Graph.find?_setNode_self (hxt ▸ hm)
  · refine ⟨n, ?_, rfl⟩
    show (g.setNode m').find? x = some n
    rw [Graph.find?_setNode_ne hx]; exact hn

theorem Graph.propagate_res_status (f : Nat) {g g' : Graph ι} {msgs : List (ι × ι × St)}
    (hall : ∀ p ∈ msgs, p.2.2 = St.resolved) (h : Graph.propagate f g msgs = .ok g') :
    ∀ x n, g.find? x = some n → ∃ n', g'.find? x = some n' ∧ n'.status = n.status := by
  induction f generalizing g msgs with
  | zero =>
    cases msgs with
    | nil => simp only [Graph.propagate, Except.ok.injEq] at h; subst h; exact fun x n hn => ⟨n, hn, rfl⟩
    | cons x rest => simp [Graph.propagate] at h
  | succ f ih =>
    cases msgs with
    | nil => simp only [Graph.propagate, Except.ok.injEq] at h; subst h; exact fun x n hn => ⟨n, hn, rfl⟩
    | cons y rest =>
      obtain ⟨tgt, src, st⟩ := y
      have hst : st = St.resolved := hall (tgt, src, st) List.mem_cons_self
      subst hst
      simp only [Graph.propagate] at h
      split at h
      · cases h
      · rename_i g1 turned hd
        obtain ⟨ht, hkeep⟩ := Graph.depResolved_res_status hd
        subst ht
        simp only [Bool.false_eq_true, ↓reduceIte, List.nil_append] at h
        intro x n hn
        obtain ⟨n1, hn1, hs1⟩ := hkeep x n hn
        obtain ⟨n2, hn2, hs2⟩ := ih (fun p hp => hall p (List.mem_cons_of_mem _ hp)) h x n1 hn1
        exact ⟨n2, hn2, hs2.trans hs1⟩

/-- an explicit `ResolveNode(Resolved)` changes the status of no other node -/
theorem Graph.resolve_resolved_status {g g' : Graph ι} {id : ι} (hok : g.resolve id St.resolved = .ok g')
    {x : ι} {n : Node ι} (hn : g.find? x = some n) (hx : x ≠ id) :
    ∃ n', g'.find? x = some n' ∧ n'.status = n.status := by
  unfold Graph.resolve at hok
  split at hok
  · cases hok
  rename_i m hm
  split at hok
  · cases hok
  · split at hok
    · rename_i h; cases h
    · cases hok
  · split at hok
    · rename_i h; cases h
    · have hmid := (Graph.find?_some hm).2
      refine Graph.propagate_res_status _ ?_ hok x n ?_
      · intro p hp
        obtain ⟨t, _, rfl⟩ := List.mem_map.1 hp
        rfl
      · rw [Graph.find?_setNode_ne (by simpa [hmid] using hx)]
        exact hn

end Graph

/-! ### settled nodes -/

/-- the node is not left waiting: it is resolved or unresolvable (or there is no such node) -/
def Settled (g : Graph String) (id : String) : Prop := ¬ statusIs g id St.waiting

theorem Settled.mono {g g' : Graph String} {id : String} (h : Settled g id) (hle : GLe g g') : Settled g' id := by
  rintro ⟨n', hn', hs'⟩
  obtain ⟨n, hn⟩ := Graph.find?_of_ids' hle.ids hn'
  cases hst : n.status with
  | waiting => exact h ⟨n, hn, hst⟩
  | resolved =>
    have := statusIs_unique (hle.mono id _ (by decide) ⟨n, hn, hst⟩) ⟨n', hn', hs'⟩
    cases this
  | unres =>
    have := statusIs_unique (hle.mono id _ (by decide) ⟨n, hn, hst⟩) ⟨n', hn', hs'⟩
    cases this

theorem Settled.of_status {g : Graph String} {id : String} {st : St} (h : statusIs g id st) (hst : st ≠ St.waiting) :
    Settled g id := fun hw => hst (statusIs_unique h hw)

theorem Settled.of_absent {g : Graph String} {id : String} (h : g.has id = false) : Settled g id := by
  rintro ⟨n, hn, _⟩
  have : g.has id = true := Graph.has_iff.2 ⟨n, hn⟩
  rw [h] at this; cases this

/-- the stage node and every declared output node of the stage are settled -/
def StageSettled (P : Prepared) (g : Graph String) (step stage : String) : Prop :=
  Settled g (stageNodeId step stage) ∧ ∀ o ∈ P.outputsOf step stage, Settled g (outputNodeId step stage o)

theorem StageSettled.mono {P : Prepared} {g g' : Graph String} {step stage : String}
    (h : StageSettled P g step stage) (hle : GLe g g') : StageSettled P g' step stage :=
  ⟨h.1.mono hle, fun o ho => (h.2 o ho).mono hle⟩

/-- every stage node and every declared stage-output node of the step is settled: none is left waiting -/
def StepSettled (P : Prepared) (g : Graph String) (step : String) : Prop :=
  ∀ stage, P.declares step stage → StageSettled P g step stage

theorem StepSettled.mono {P : Prepared} {g g' : Graph String} {step : String} (h : StepSettled P g step)
    (hle : GLe g g') : StepSettled P g' step := fun stage hd => (h stage hd).mono hle

/-- a stage that declares outputs is reported finished together with one of them -/
def EventReports (P : Prepared) : Event → Prop
  | .stageChange step (some prev) out _ => out = none → P.outputsOf step prev = []
  | .stepComplete step prev out _ => out = none → P.outputsOf step prev = []
  | _ => True

/-- the stages recorded as finished are settled -/
def FinConv (P : Prepared) (s : LoopState) : Prop :=
  ∀ step stage, (step, stage) ∈ s.finished → P.declares step stage → StageSettled P s.dag step stage

theorem FinConv.mono {P : Prepared} {s t : LoopState} (h : FinConv P s) (hle : GLe s.dag t.dag)
    (hf : t.finished = s.finished) : FinConv P t := by
  intro step stage hm hd
  rw [hf] at hm
  exact (h step stage hm hd).mono hle

theorem init_fin_conv (P : Prepared) : FinConv P (LoopState.init P) := fun _ _ h => nomatch h

/-! ### the loop never revives, and stays alive without a panic action -/

section Alive
variable {P : Prepared}

theorem step_dead_mono {a b : R} (h : Step P a b) (ha : a.1.dead = true) : b.1.dead = true := by
  cases h <;> simp only [emit, die, sendErr, doCancel] <;> repeat' split
  all_goals first | exact ha | rfl

theorem reach_dead_mono {a b : R} (h : Reach P a b) (ha : a.1.dead = true) : b.1.dead = true :=
  Reach.preserves (Q := fun r => r.1.dead = true) (fun _ _ => step_dead_mono) h ha

theorem reach_alive_back {a b : R} (h : Reach P a b) (hb : b.1.dead = false) : a.1.dead = false := by
  cases hd : a.1.dead with
  | false => rfl
  | true => rw [reach_dead_mono h hd] at hb; cases hb

theorem reach_alive {a b : R} (h : Reach P a b) (ha : a.1.dead = false) (hnp : NoPanic b.2) : b.1.dead = false := by
  cases hd : b.1.dead with
  | false => rfl
  | true =>
    obtain ⟨x, hx, hp⟩ := Reach.preserves (Q := fun r => r.1.dead = true → ∃ x ∈ r.2, x.isPanic = true)
      (fun _ _ => step_dead_panic) h (fun h => by rw [ha] at h; cases h) hd
    rw [hnp x hx] at hp; cases hp

end Alive

/-! ### marking settles -/

section Mark
variable {P : Prepared}

theorem markOne_settles (step stage : String) (skip : Option String) (r : R) (o : String)
    (hd : (markOne step stage skip r o).1.dead = false) (hs : skip ≠ some o) :
    Settled (markOne step stage skip r o).1.dag (outputNodeId step stage o) := by
  by_cases hdd : r.1.dead = true
  · simp [markOne, hdd] at hd
  by_cases hh : r.1.dag.has (outputNodeId step stage o) = true
  · cases hres : r.1.dag.resolve (outputNodeId step stage o) St.unres with
    | ok g =>
      have he : markOne step stage skip r o = ({ r.1 with dag := g }, r.2) := by
        simp [markOne, hdd, hs, hh, hres]
      rw [he]
      obtain ⟨n', hn', hs'⟩ := Graph.resolve_status_self _ _ _ _ (by decide) hres
      exact Settled.of_status ⟨n', hn', hs'⟩ (by decide)
    | error e => simp [markOne, hdd, hs, hh, hres, Arca.Model.die] at hd
  · have he : markOne step stage skip r o = r := by simp [markOne, hdd, hs, hh]
    rw [he]
    exact Settled.of_absent (by simpa using hh)

theorem foldl_markOne_settles (step stage : String) (skip : Option String) (l : List String) :
    ∀ r : R, r.1.dag.Inv → (l.foldl (markOne step stage skip) r).1.dead = false →
      ∀ o ∈ l, skip ≠ some o → Settled (l.foldl (markOne step stage skip) r).1.dag (outputNodeId step stage o) := by
  induction l with
  | nil => intro r _ _ o ho; cases ho
  | cons x rest ih =>
    intro r hinv hd o ho hs
    rw [List.foldl_cons] at hd ⊢
    obtain ⟨q1, _⟩ := markOne_props step stage skip r x hinv
    obtain ⟨q2, _⟩ := foldl_markOne_props step stage skip rest _ q1.gle.inv
    rcases List.mem_cons.1 ho with rfl | ho
    · have hd1 : (markOne step stage skip r o).1.dead = false := by
        cases h : (markOne step stage skip r o).1.dead with
        | false => rfl
        | true => rw [q2.dead h] at hd; cases hd
      exact (markOne_settles step stage skip r o hd1 hs).mono q2.gle
    · exact ih _ q1.gle.inv hd o ho hs

theorem markOutputsUnres_settles (step stage : String) (skip : Option String) (r : R) (hinv : r.1.dag.Inv)
    (hd : (markOutputsUnres P step stage skip r).1.dead = false) :
    ∀ o ∈ P.outputsOf step stage, skip ≠ some o →
      Settled (markOutputsUnres P step stage skip r).1.dag (outputNodeId step stage o) := by
  rw [markOutputsUnres_eq] at hd ⊢
  exact foldl_markOne_settles step stage skip _ r hinv hd

theorem markStageUnres_settles (step stage : String) (r : R) (hd : (markStageUnres step stage r).1.dead = false) :
    Settled (markStageUnres step stage r).1.dag (stageNodeId step stage) := by
  by_cases hdd : r.1.dead = true
  · simp [markStageUnres, hdd] at hd
  by_cases hh : r.1.dag.has (stageNodeId step stage) = true
  · cases hres : r.1.dag.resolve (stageNodeId step stage) St.unres with
    | ok g =>
      have he : markStageUnres step stage r = ({ r.1 with dag := g }, r.2) := by
        simp [markStageUnres, hdd, hh, hres]
      rw [he]
      obtain ⟨n', hn', hs'⟩ := Graph.resolve_status_self _ _ _ _ (by decide) hres
      exact Settled.of_status ⟨n', hn', hs'⟩ (by decide)
    | error e => simp [markStageUnres, hdd, hh, hres, Arca.Model.die] at hd
  · have he : markStageUnres step stage r = r := by simp [markStageUnres, hdd, hh]
    rw [he]
    exact Settled.of_absent (by simpa using hh)

theorem quiet_alive_back {r r' : R} (q : Quiet r r') (h : r'.1.dead = false) : r.1.dead = false := by
  cases hd : r.1.dead with
  | false => rfl
  | true => rw [q.dead hd] at h; cases h

/-- one iteration of `markRemainingStagesUnresolvable`: a stage not recorded as finished is settled afterwards -/
theorem markRemainingOne_settles (step : String) (r : R) (stage : String) (hinv : r.1.dag.Inv)
    (hd : (markRemainingOne P step r stage).1.dead = false) (hnf : (step, stage) ∉ r.1.finished) :
    StageSettled P (markRemainingOne P step r stage).1.dag step stage := by
  unfold markRemainingOne at hd ⊢
  split
  · rename_i hc
    exact absurd (List.contains_iff_mem.1 hc) hnf
  rename_i hc
  simp only [hc, Bool.false_eq_true, ↓reduceIte] at hd
  obtain ⟨q1, _⟩ := markOutputsUnres_props (P := P) step stage none r hinv
  have q2 := markStageUnres_quiet step stage (markOutputsUnres P step stage none r) q1.gle.inv
  have hd1 := quiet_alive_back q2 hd
  refine ⟨markStageUnres_settles step stage _ hd, fun o ho => ?_⟩
  exact (markOutputsUnres_settles step stage none r hinv hd1 o ho (by simp)).mono q2.gle

theorem foldl_markRemainingOne_quiet (step : String) (l : List String) :
    ∀ r : R, r.1.dag.Inv → Quiet r (l.foldl (markRemainingOne P step) r) := by
  induction l with
  | nil => intro r hinv; exact Quiet.refl hinv
  | cons x rest ih =>
    intro r hinv
    rw [List.foldl_cons]
    have q1 := markRemainingOne_quiet (P := P) step r x hinv
    exact q1.trans (ih _ q1.gle.inv)

theorem foldl_markRemainingOne_settles (step : String) (l : List String) :
    ∀ r : R, r.1.dag.Inv → (l.foldl (markRemainingOne P step) r).1.dead = false →
      ∀ stage ∈ l, (step, stage) ∉ r.1.finished →
        StageSettled P (l.foldl (markRemainingOne P step) r).1.dag step stage := by
  induction l with
  | nil => intro r _ _ x hx; cases hx
  | cons x rest ih =>
    intro r hinv hd stage hs hnf
    rw [List.foldl_cons] at hd ⊢
    have q1 := markRemainingOne_quiet (P := P) step r x hinv
    have q2 := foldl_markRemainingOne_quiet (P := P) step rest (markRemainingOne P step r x) q1.gle.inv
    rcases List.mem_cons.1 hs with rfl | hs
    · exact (markRemainingOne_settles step r stage hinv (quiet_alive_back q2 hd) hnf).mono q2.gle
    · exact ih _ q1.gle.inv hd stage hs (by rw [q1.fin]; exact hnf)

theorem mem_stagesOf_of_declares {step stage : String} (h : P.declares step stage) : stage ∈ P.stagesOf step := by
  obtain ⟨sts, outs, h1, h2⟩ := h
  unfold Prepared.stagesOf
  rw [h1]
  clear h1
  induction sts with
  | nil => cases h2
  | cons x rest ih =>
    obtain ⟨k, v⟩ := x
    simp only [lookup] at h2
    split at h2
    · rename_i hk
      simp [hk]
    · exact List.mem_cons_of_mem _ (ih h2)

/-- `markRemainingStagesUnresolvable(step)`: afterwards every declared stage of the step that is not recorded as
finished is settled -/
theorem markRemaining_settles (step : String) (r : R) (hinv : r.1.dag.Inv)
    (hd : (markRemaining P step r).1.dead = false) (stage : String) (hdecl : P.declares step stage)
    (hnf : (step, stage) ∉ r.1.finished) : StageSettled P (markRemaining P step r).1.dag step stage :=
  foldl_markRemainingOne_settles step _ r hinv hd stage (mem_stagesOf_of_declares hdecl) hnf

end Mark

/-! ### the legal path through `onStageComplete` -/

section Legal
variable {P : Prepared}

theorem finishStage_gle (fns : Fns) (ord : Order) (step : String) (complete : Bool) (r : R) (hinv : r.1.dag.Inv) :
    GLe r.1.dag (finishStage P fns ord step complete r).1.dag ∧
      (finishStage P fns ord step complete r).1.finished = r.1.finished := by
  unfold finishStage
  split
  · have q := markRemaining_quiet (P := P) step r hinv
    have hN := notifySteps_reachN (P := P) (fns := fns) (gb := (markRemaining P step r).1.dag) (kn := False) ord
      (fun h => h.elim) (notifyFuel P) (markRemaining P step r) (GLe.refl q.gle.inv)
    exact ⟨q.gle.trans (starN_gle hN q.gle.inv), (starN_finished hN).trans q.fin⟩
  · have hN := notifySteps_reachN (P := P) (fns := fns) (gb := r.1.dag) (kn := False) ord
      (fun h => h.elim) (notifyFuel P) r (GLe.refl hinv)
    exact ⟨starN_gle hN hinv, starN_finished hN⟩

/-- the end of `onStageComplete`: the recorded stages stay settled, and on completion every stage of the step is -/
theorem finishStage_settle (fns : Fns) (ord : Order) (step : String) (complete : Bool) (r : R) (hinv : r.1.dag.Inv)
    (hfc : FinConv P r.1) (halive : (finishStage P fns ord step complete r).1.dead = false) :
    FinConv P (finishStage P fns ord step complete r).1 ∧
      (complete = true → StepSettled P (finishStage P fns ord step complete r).1.dag step) := by
  obtain ⟨hle, hfin⟩ := finishStage_gle (P := P) fns ord step complete r hinv
  refine ⟨hfc.mono hle hfin, ?_⟩
  intro hc
  subst hc
  simp only [finishStage, ↓reduceIte] at halive ⊢
  have q := markRemaining_quiet (P := P) step r hinv
  have hN := notifySteps_reachN (P := P) (fns := fns) (gb := (markRemaining P step r).1.dag) (kn := False) ord
    (fun h => h.elim) (notifyFuel P) (markRemaining P step r) (GLe.refl q.gle.inv)
  have hle2 := starN_gle hN q.gle.inv
  have hal1 : (markRemaining P step r).1.dead = false :=
    reach_alive_back (notifySteps_reach (P := P) fns ord _ _) halive
  intro stage hd
  by_cases hm : (step, stage) ∈ r.1.finished
  · exact ((hfc step stage hm hd).mono q.gle).mono hle2
  · exact (markRemaining_settles step r hinv hal1 stage hd hm).mono hle2

theorem onStageCompleteBody_none (fns : Fns) (ord : Order) (step prev : String) (complete : Bool) (r : R)
    {g : Graph String} (hhas : r.1.dag.has (stageNodeId step prev) = true)
    (hok : r.1.dag.resolve (stageNodeId step prev) St.resolved = .ok g) :
    onStageCompleteBody P fns ord step prev none complete r =
      finishStage P fns ord step complete ({ r.1 with dag := g, finished := (step, prev) :: r.1.finished }, r.2) := by
  simp [onStageCompleteBody, hhas, hok]

theorem onStageCompleteBody_some (fns : Fns) (ord : Order) (step prev oid : String) (v : Val) (complete : Bool) (r : R)
    {g g2 : Graph String} (hhas : r.1.dag.has (stageNodeId step prev) = true)
    (hok : r.1.dag.resolve (stageNodeId step prev) St.resolved = .ok g)
    (hhas2 : g.has (outputNodeId step prev oid) = true)
    (hok2 : g.resolve (outputNodeId step prev oid) St.resolved = .ok g2)
    (hal : (markOutputsUnres P step prev (some oid)
      ({ r.1 with dag := g2, finished := (step, prev) :: r.1.finished }, r.2)).1.dead = false) :
    onStageCompleteBody P fns ord step prev (some (oid, v)) complete r =
      finishStage P fns ord step complete
        ({ (markOutputsUnres P step prev (some oid)
              ({ r.1 with dag := g2, finished := (step, prev) :: r.1.finished }, r.2)).1 with
            data := setStageData (markOutputsUnres P step prev (some oid)
              ({ r.1 with dag := g2, finished := (step, prev) :: r.1.finished }, r.2)).1.data step prev oid v },
          (markOutputsUnres P step prev (some oid)
              ({ r.1 with dag := g2, finished := (step, prev) :: r.1.finished }, r.2)).2) := by
  simp [onStageCompleteBody, hhas, hok, hhas2, hok2, hal]

/-- a legal stage end: the stage node is resolved without an error -/
theorem legal_stage_resolve (hP : P.WF2) (step prev : String) (f : List (String × String)) (r : R) (hg : Good P r)
    (hdecl : P.declares step prev)
    (hw : statusIs r.1.dag (stageNodeId step prev) St.waiting)
    (hand : ∀ ed ∈ P.dag.edges, ed.2.1 = stageNodeId step prev → ed.2.2 = Dep.and → statusIs r.1.dag ed.1 St.resolved)
    (hnor : ∀ ed ∈ P.dag.edges, ed.2.1 = stageNodeId step prev → ed.2.2 ≠ Dep.or) :
    ∃ g, r.1.dag.has (stageNodeId step prev) = true ∧
      r.1.dag.resolve (stageNodeId step prev) St.resolved = .ok g ∧
      Good P ({ r.1 with dag := g, finished := f }, r.2) := by
  obtain ⟨n, hn, hnw⟩ := hw
  have hcl : ClosedAt r.1.dag (stageNodeId step prev) n := by
    refine ⟨?_, ?_⟩
    · rw [hg.safe.edges]; exact hand
    · rintro ⟨ed, he, h1, h2⟩
      rw [hg.safe.edges] at he
      exact absurd h2 (hnor ed he h1)
  obtain ⟨g, hok, _⟩ := Graph.resolve_ok r.1.dag hg.safe.inv hg.safe.closed _ n .resolved hn hnw (by decide)
    (fun _ => hcl)
  have hm1 := Moves.resolve hg hok (by
    intro _ m hm
    rw [hn] at hm; cases hm
    refine ⟨hcl, ?_⟩
    rintro ⟨it, hit, hk⟩
    rw [hP.wf.stage_kind step prev it hdecl hit] at hk
    cases hk)
  exact ⟨g, Graph.has_iff.2 ⟨n, hn⟩, hok, ⟨hm1.good.safe, hm1.good.nopanic⟩⟩

/-- … and so is the reported output node; the alternative outputs are marked without a panic -/
theorem legal_output_resolve (hP : P.WF2) (step prev oid : String) (f : List (String × String)) (r : R)
    (hg : Good P r) (hdecl : P.declares step prev) {g : Graph String}
    (hok : r.1.dag.resolve (stageNodeId step prev) St.resolved = .ok g)
    (hg1 : Good P ({ r.1 with dag := g, finished := f }, r.2))
    (hoid : oid ∈ P.outputsOf step prev)
    (hallw : ∀ o ∈ P.outputsOf step prev, statusIs r.1.dag (outputNodeId step prev o) St.waiting) :
    ∃ g2, g.has (outputNodeId step prev oid) = true ∧
      g.resolve (outputNodeId step prev oid) St.resolved = .ok g2 ∧
      Good P ({ r.1 with dag := g2, finished := f }, r.2) ∧
      Good P (markOutputsUnres P step prev (some oid) ({ r.1 with dag := g2, finished := f }, r.2)) := by
  obtain ⟨n0, hn0, hn0w⟩ := hallw oid hoid
  obtain ⟨n1, hn1, hn1s⟩ := Graph.resolve_resolved_status hok hn0 (outputNodeId_ne_stageNodeId _ _ _)
  obtain ⟨hexists, honly⟩ := hP.output_nodes step prev oid hdecl hoid
  have hedg : g.edges = P.dag.edges := hg1.safe.edges
  have hcl1 : ClosedAt g (outputNodeId step prev oid) n1 := by
    refine ⟨?_, ?_⟩
    · intro ed he h1 _
      rw [hedg] at he
      rw [(honly ed he h1).1]
      exact Graph.resolve_status_self _ _ _ _ (by decide) hok
    · rintro ⟨ed, he, h1, h2⟩
      rw [hedg] at he
      rw [(honly ed he h1).2] at h2
      cases h2
  obtain ⟨g2, hok2, _⟩ := Graph.resolve_ok g hg1.safe.inv hg1.safe.closed _ n1 .resolved hn1 (hn1s.trans hn0w)
    (by decide) (fun _ => hcl1)
  have hm2 := Moves.resolve hg1 hok2 (by
    intro _ m hm
    have hm : g.find? (outputNodeId step prev oid) = some m := hm
    rw [hn1] at hm; cases hm
    refine ⟨hcl1, ?_⟩
    rintro ⟨it, hit, hk⟩
    rw [hP.wf.output_kind step prev oid it hdecl hoid hit] at hk
    cases hk)
  have hg2 : Good P ({ r.1 with dag := g2, finished := f }, r.2) := ⟨hm2.good.safe, hm2.good.nopanic⟩
  refine ⟨g2, Graph.has_iff.2 ⟨n1, hn1⟩, hok2, hg2, ?_⟩
  apply markOutputsUnres_good step prev (some oid) _ hg2
  intro o ho hne hx
  rcases resolve_newRes hok2 hx with ⟨heq, _⟩ | h1
  · exact hne (by rw [outputNodeId_inj _ _ _ _ heq])
  · rcases resolve_newRes hok h1 with ⟨heq, _⟩ | h0
    · exact outputNodeId_ne_stageNodeId _ _ _ heq
    · have := statusIs_unique h0 (hallw o ho)
      cases this

/-- a legal stage end keeps the recorded stages settled; a legal completion leaves every stage of the step settled -/
theorem onStageCompleteBody_settle (hP : P.WF2) (fns : Fns) (ord : Order) (hord : OrdOK ord) (hnd : OrdNodup ord)
    (step prev : String) (out : Option (String × Val)) (complete : Bool) (r : R) (hg : Good P r)
    (hf : FinishedInv P r.1) (hfc : FinConv P r.1) (hd : r.1.dead = false)
    (hdecl : P.declares step prev)
    (hw : statusIs r.1.dag (stageNodeId step prev) St.waiting)
    (hand : ∀ ed ∈ P.dag.edges, ed.2.1 = stageNodeId step prev → ed.2.2 = Dep.and → statusIs r.1.dag ed.1 St.resolved)
    (hnor : ∀ ed ∈ P.dag.edges, ed.2.1 = stageNodeId step prev → ed.2.2 ≠ Dep.or)
    (hout : ∀ oid v, out = some (oid, v) → oid ∈ P.outputsOf step prev ∧
      ∀ o ∈ P.outputsOf step prev, statusIs r.1.dag (outputNodeId step prev o) St.waiting)
    (hrep : out = none → P.outputsOf step prev = []) :
    FinConv P (onStageCompleteBody P fns ord step prev out complete r).1 ∧
      (complete = true → StepSettled P (onStageCompleteBody P fns ord step prev out complete r).1.dag step) := by
  have hgood := onStageCompleteBody_good hP fns ord hord hnd step prev out complete r hg hf hdecl hw hand hnor hout
  have halive : (onStageCompleteBody P fns ord step prev out complete r).1.dead = false :=
    reach_alive (onStageCompleteBody_reach (P := P) fns ord step prev out complete r) hd hgood.nopanic
  obtain ⟨g, hhas, hok, hg1⟩ := legal_stage_resolve hP step prev ((step, prev) :: r.1.finished) r hg hdecl hw hand hnor
  have hle1 : GLe r.1.dag g := GLe.resolve hg.safe.inv hok
  have hsn : Settled g (stageNodeId step prev) := by
    obtain ⟨n', hn', hs'⟩ := Graph.resolve_status_self _ _ _ _ (by decide) hok
    exact Settled.of_status ⟨n', hn', hs'⟩ (by decide)
  cases out with
  | none =>
    rw [onStageCompleteBody_none fns ord step prev complete r hhas hok] at halive ⊢
    refine finishStage_settle fns ord step complete _ hle1.inv ?_ halive
    intro st sg hm hdd
    rcases List.mem_cons.1 hm with heq | hm
    · cases heq
      refine ⟨hsn, ?_⟩
      rw [hrep rfl]
      intro o ho; cases ho
    · exact (hfc st sg hm hdd).mono hle1
  | some ov =>
    obtain ⟨oid, v⟩ := ov
    obtain ⟨hoid, hallw⟩ := hout oid v rfl
    obtain ⟨g2, hhas2, hok2, hg2, hg3⟩ :=
      legal_output_resolve hP step prev oid ((step, prev) :: r.1.finished) r hg hdecl hok hg1 hoid hallw
    have hle2 : GLe g g2 := GLe.resolve hle1.inv hok2
    have hal3 : (markOutputsUnres P step prev (some oid)
        ({ r.1 with dag := g2, finished := (step, prev) :: r.1.finished }, r.2)).1.dead = false :=
      reach_alive (markOutputsUnres_reach (P := P) step prev (some oid) _) hd hg3.nopanic
    obtain ⟨q, _⟩ := markOutputsUnres_props (P := P) step prev (some oid)
      ({ r.1 with dag := g2, finished := (step, prev) :: r.1.finished }, r.2) hle2.inv
    rw [onStageCompleteBody_some fns ord step prev oid v complete r hhas hok hhas2 hok2 hal3] at halive ⊢
    refine finishStage_settle fns ord step complete _ q.gle.inv ?_ halive
    intro st sg hm hdd
    have hm : (st, sg) ∈ (step, prev) :: r.1.finished := by
      have hq : (markOutputsUnres P step prev (some oid)
          ({ r.1 with dag := g2, finished := (step, prev) :: r.1.finished }, r.2)).1.finished =
          (step, prev) :: r.1.finished := q.fin
      rw [← hq]; exact hm
    rcases List.mem_cons.1 hm with heq | hm
    · cases heq
      refine ⟨(hsn.mono hle2).mono q.gle, ?_⟩
      intro o ho
      by_cases hoo : o = oid
      · subst hoo
        obtain ⟨n', hn', hs'⟩ := Graph.resolve_status_self _ _ _ _ (by decide) hok2
        exact (Settled.of_status ⟨n', hn', hs'⟩ (by decide)).mono q.gle
      · exact markOutputsUnres_settles step prev (some oid) _ hle2.inv hal3 o ho
          (fun h => hoo (Option.some.inj h).symm)
    · exact (((hfc st sg hm hdd).mono hle1).mono hle2).mono q.gle

end Legal

/-! ### one legal callback, legal histories -/

section History
variable {P : Prepared}

theorem finConv_congr {s t : LoopState} (h : FinConv P s) (hdag : t.dag = s.dag) (hfin : t.finished = s.finished) :
    FinConv P t := by
  unfold FinConv
  rw [hdag, hfin]
  exact h

theorem notifySteps_gle_fin (fns : Fns) (ord : Order) (f : Nat) (r : R) (hinv : r.1.dag.Inv) :
    GLe r.1.dag (notifySteps P fns ord f r).1.dag ∧ (notifySteps P fns ord f r).1.finished = r.1.finished := by
  have hN := notifySteps_reachN (P := P) (fns := fns) (gb := r.1.dag) (kn := False) ord (fun h => h.elim) f r
    (GLe.refl hinv)
  exact ⟨starN_gle hN hinv, starN_finished hN⟩

/--
One legal callback (that reports an output for a stage declaring outputs) keeps the recorded stages settled, and a
legal completion callback of step `step` leaves every stage node and every declared stage-output node of `step`
settled: none is left waiting.
-/
theorem react_settle (P : Prepared) (fns : Fns) (ord : Order) (hord : OrdOK ord) (hnd : OrdNodup ord) (hP : P.WF2)
    (s : LoopState) (e : Event) (h : LoopDagInv P s) (hc : LoopSafeInv P s) (hd : s.dead = false)
    (hfc : FinConv P s) (hl : LegalEvent P s e) (hr : EventReports P e) :
    FinConv P (react P fns ord s e).1 ∧
      ∀ step prev out busy, e = Event.stepComplete step prev out busy → StepSettled P (react P fns ord s e).1.dag step := by
  have hg0 : Good P (s, []) := ⟨GSafe.of_inv h hc, fun _ h => nomatch h⟩
  unfold react
  split
  · rename_i hdd; rw [hd] at hdd; cases hdd
  split
  · -- start
    rename_i input
    refine ⟨?_, fun _ _ _ _ he => by cases he⟩
    dsimp only
    have hle0 : GLe s.dag s.dag.pushStarting := GLe.pushStarting h.inv
    have hfc0 : FinConv P { s with data := initData P input, dag := s.dag.pushStarting } := hfc.mono hle0 rfl
    split
    · exact hfc0
    split
    · exact hfc0
    · rename_i g hok
      have hle1 := GLe.resolve hle0.inv hok
      have hfc1 : FinConv P { s with data := initData P input, dag := g } := hfc0.mono hle1 rfl
      obtain ⟨h1, h2⟩ := notifySteps_gle_fin (P := P) fns ord (notifyFuel P)
        ({ s with data := initData P input, dag := g }, []) hle1.inv
      exact hfc1.mono h1 h2
  · -- stageChange
    split
    · exact ⟨hfc, fun _ _ _ _ he => by cases he⟩
    · rename_i step out busy _ p
      refine ⟨?_, fun _ _ _ _ he => by cases he⟩
      obtain ⟨hdecl, hw, hand, hnor, hout⟩ := hl
      obtain ⟨_, h2, _⟩ := checkDeadlock_quiet (P := P) 3 busy (onStageCompleteBody P fns ord step p out false (s, []))
      exact finConv_congr
        (onStageCompleteBody_settle hP fns ord hord hnd step p out false (s, []) hg0 hc.finished hfc hd hdecl hw hand
          hnor hout hr).1 h2 (checkDeadlock_finished _ _ _)
  · -- stepComplete
    rename_i step prev out busy
    obtain ⟨hdecl, hw, hand, hnor, hout⟩ := hl
    obtain ⟨_, h2, _⟩ := checkDeadlock_quiet (P := P) 3 busy (onStageCompleteBody P fns ord step prev out true (s, []))
    obtain ⟨a1, a2⟩ := onStageCompleteBody_settle hP fns ord hord hnd step prev out true (s, []) hg0 hc.finished hfc hd
      hdecl hw hand hnor hout hr
    refine ⟨finConv_congr a1 h2 (checkDeadlock_finished _ _ _), ?_⟩
    intro step' prev' out' busy' he
    cases he
    rw [h2]
    exact a2 rfl
  · -- stageFail
    rename_i step stage
    refine ⟨?_, fun _ _ _ _ he => by cases he⟩
    dsimp only
    obtain ⟨q1, _⟩ := markOutputsUnres_props (P := P) step stage none (s, []) h.inv
    have q2 := markStageUnres_quiet step stage (markOutputsUnres P step stage none (s, [])) q1.gle.inv
    have q := q1.trans q2
    have hfc1 : FinConv P (markStageUnres step stage (markOutputsUnres P step stage none (s, []))).1 :=
      hfc.mono q.gle q.fin
    split
    · exact hfc1
    · obtain ⟨h1, h2⟩ := notifySteps_gle_fin (P := P) fns ord (notifyFuel P)
        (markStageUnres step stage (markOutputsUnres P step stage none (s, []))) q.gle.inv
      exact hfc1.mono h1 h2
  · -- tick
    refine ⟨?_, fun _ _ _ _ he => by cases he⟩
    split
    · exact hfc
    · rename_i retries busy _
      obtain ⟨_, h2, _⟩ := checkDeadlock_quiet (P := P) retries busy (s, [])
      exact finConv_congr hfc h2 (checkDeadlock_finished _ _ _)
  · -- drain
    exact ⟨hfc, fun _ _ _ _ he => by cases he⟩

theorem runFrom_gle (P : Prepared) (fns : Fns) (ord : Order) (hist : List Event) :
    ∀ s, s.dag.Inv → GLe s.dag (runFrom P fns ord s hist).1.dag := by
  induction hist with
  | nil => intro s hs; exact GLe.refl hs
  | cons e es ih =>
    intro s hs
    rw [runFrom_cons_eq]
    have h1 := react_gle P fns ord s e hs
    exact h1.trans (ih _ h1.inv)

/-- along a legal history every step whose completion callback was processed is (and stays) settled -/
theorem runFrom_settle (P : Prepared) (fns : Fns) (ord : Order) (hord : OrdOK ord) (hnd : OrdNodup ord) (hP : P.WF2)
    (hist : List Event) :
    ∀ s, LoopDagInv P s → LoopSafeInv P s → s.dead = false → FinConv P s → LegalHistory P fns ord s hist →
      (∀ e ∈ hist, EventReports P e) →
      FinConv P (runFrom P fns ord s hist).1 ∧
      ∀ step, (∃ prev out busy, Event.stepComplete step prev out busy ∈ hist) →
        StepSettled P (runFrom P fns ord s hist).1.dag step := by
  induction hist with
  | nil =>
    intro s _ _ _ hfc _ _
    exact ⟨hfc, fun step ⟨_, _, _, hm⟩ => nomatch hm⟩
  | cons e es ih =>
    intro s hi hc hd hfc hl hr
    obtain ⟨hl1, hl2⟩ := hl
    rw [runFrom_cons_eq]
    obtain ⟨hnp, hc'⟩ := react_legal_no_panic P fns ord hord hnd hP s e hi hc hl1
    have hd' : (react P fns ord s e).1.dead = false := by
      cases hdd : (react P fns ord s e).1.dead with
      | false => rfl
      | true =>
        obtain ⟨a, ha, hp⟩ := react_dead_only_by_panic P fns ord s e hd hdd
        rw [hnp a ha] at hp; cases hp
    have hi' := react_dag_inv P fns ord s e hi
    obtain ⟨hfc', hset⟩ := react_settle P fns ord hord hnd hP s e hi hc hd hfc hl1 (hr e List.mem_cons_self)
    obtain ⟨h1, h2⟩ := ih _ hi' hc' hd' hfc' hl2 (fun e' he' => hr e' (List.mem_cons_of_mem _ he'))
    refine ⟨h1, ?_⟩
    rintro step ⟨prev, out, busy, hm⟩
    rcases List.mem_cons.1 hm with heq | hm
    · exact (hset step prev out busy heq.symm).mono (runFrom_gle P fns ord es _ hi'.inv)
    · exact h2 step ⟨prev, out, busy, hm⟩

/-! ### what a settled step means for the nodes that depend on it -/

/-- `id` is the stage node or a declared stage-output node of a declared stage of some step -/
def IsStepNode (P : Prepared) (id : String) : Prop :=
  ∃ step stage, P.declares step stage ∧
    (id = stageNodeId step stage ∨ ∃ o ∈ P.outputsOf step stage, id = outputNodeId step stage o)

/-- a settled source is no outstanding dependency of its target any more; and a failed required (`and`) source has
failed the target -/
theorem settled_source {g : Graph String} (hinv : g.Inv) {ed : String × String × Dep} (he : ed ∈ g.edges)
    (hs : Settled g ed.1) {n : Node String} (hn : g.find? ed.2.1 = some n) :
    ed.1 ∉ keys n.out ∧ (ed.2.2 = Dep.and → statusIs g ed.1 St.unres → n.status = St.unres) := by
  obtain ⟨m, hm⟩ := Graph.has_iff.1 (hinv.edge_nodes ed he).1
  refine ⟨?_, ?_⟩
  · cases hst : m.status with
    | waiting => exact absurd ⟨m, hm, hst⟩ hs
    | resolved => exact (hinv.src_resolved ed he m n hm hn hst).1
    | unres => exact (hinv.src_unres ed he m n hm hn hst).1
  · rintro hand ⟨m', hm', hs'⟩
    rw [hm] at hm'; cases hm'
    exact hinv.and_unres ed he hand m n hm hn hs'

/-- a node all of whose dependencies are settled has no outstanding dependency left -/
theorem no_outstanding_of_settled {g : Graph String} (hinv : g.Inv) {x : String} {n : Node String}
    (hn : g.find? x = some n) (hall : ∀ ed ∈ g.edges, ed.2.1 = x → Settled g ed.1) : n.out = [] := by
  cases hout : n.out with
  | nil => rfl
  | cons p rest =>
    exfalso
    obtain ⟨hnm, hnid⟩ := Graph.find?_some hn
    have hp : p ∈ n.out := by rw [hout]; exact List.mem_cons_self
    obtain ⟨d, hed, _⟩ := hinv.out_edge n hnm p hp
    rw [hnid] at hed
    have := (settled_source hinv hed (hall _ hed rfl) hn).1
    exact this (mem_keys_of_mem hp)

end History

end Arca.Model
