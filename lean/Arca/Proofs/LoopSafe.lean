/-
C07 (run-loop part): a history of *legal* provider callbacks never makes the run loop panic; and the meaning of the
tagged inputs (C15) as consequences of `resolveIn`'s definition and the graph invariant.

"Legal" is the contract between the providers and the loop that the lifecycle order and the input gating establish
(C12 on the provider side): a stage is reported finished only when every required dependency of its node is resolved
(it was ready), and a stage is reported impossible only if it (and its outputs) was not reported finished.

CHANGED with respect to the first version of the statements (every change is justified by a theorem of
`LoopSafeCex.lean` refuting the statement without it):
* `Prepared.WF2`: new clauses `input_no_deps` (`hist_needs_input_no_deps`, `react_start_breaks_closed`) and `input_kind`
  (`hist_needs_input_kind`);
* `react_legal_no_panic`, `legal_history_never_panics`: new hypothesis `OrdNodup ord` — the processing order does not
  duplicate popped nodes (`hist_needs_OrdNodup`); `ord_of_perm` / `ord_of_sublist` derive it (and `OrdOK`) for
  permutations and sublists;
* `react_legal_no_panic`: the state hypothesis and the second conclusion `ResolvedClosed _` are strengthened to
  `LoopSafeInv P _` = `ResolvedClosed` + duplicate-free ready set (`react_needs_ready_nodup`) + no resolved
  dependency-group node in the ready set (`react_needs_ready_group`) + resolved dependency-group nodes only have soft
  outstanding entries (`react_needs_group_soft`); `init_safe_inv` establishes it for the initial state, so
  `legal_history_never_panics` has no new state hypothesis.
CHANGED with the repair of finding F11 (`onStageComplete` records `finishedStages` and, when called from OnStepComplete,
calls `markRemainingStagesUnresolvable`; counterexamples in `LoopFinishedCex.lean`):
* `Event.stepComplete` is a new event; `LegalEvent` gives it the contract of a stage change with a previous stage;
* `LoopSafeInv` has the new clause `finished : FinishedInv P s` (`react_needs_finished_inv`): a resolved stage /
  stage-output node belongs to a stage recorded in `finishedStages`; true initially (`init_finished_inv`) and kept by
  every callback naming declared stages and outputs (`react_finished_inv`, `LoopFinished.lean`);
* `Prepared.WF2` has the new clause `stage_unamb` (`hist_needs_stage_unamb`): stage node ids are unambiguous.
`ResolvedClosed`, `LegalEvent` (on the old events), `LegalHistory` and the graph-level statements are unchanged (the hypothesis `g.Inv` of
`Graph.resolve_no_fuel_error` turned out to be unnecessary).  The proofs are in `DgraphFuel.lean` (graph level) and
`LoopSafeLemmas.lean` (`notifySteps` never panics from a `GSafe` graph).
-/
import Arca.Model.RunLoop
import Arca.Proofs.DgraphInv
import Arca.Proofs.LoopDag
import Arca.Proofs.LoopInv
import Arca.Proofs.DgraphFuel
import Arca.Proofs.LoopSafeLemmas
import Arca.Proofs.LoopFinished

set_option linter.unusedVariables false

namespace Arca.Model

/-- every resolved node has its required dependencies resolved and, if it has `or` dependencies, one of them resolved:
    resolved nodes never sit downstream of a still-waiting hard dependency -/
def ResolvedClosed (g : Graph String) : Prop :=
  ∀ n ∈ g.nodes, n.status = St.resolved →
    (∀ ed ∈ g.edges, ed.2.1 = n.id → ed.2.2 = Dep.and → statusIs g ed.1 St.resolved) ∧
    ((∃ ed ∈ g.edges, ed.2.1 = n.id ∧ ed.2.2 = Dep.or) → ∃ q ∈ n.res, q.2 = Dep.or)

/-- the provider contract for one callback delivered in state `s` -/
def LegalEvent (P : Prepared) (s : LoopState) : Event → Prop
  | .start _ => NoOutputResolved P s ∧ (∀ n ∈ s.dag.nodes, n.status = St.waiting)
  | .stageChange _ none _ _ => True
  | .stageChange step (some prev) out _ =>
      P.declares step prev ∧
      statusIs s.dag (stageNodeId step prev) St.waiting ∧
      (∀ ed ∈ P.dag.edges, ed.2.1 = stageNodeId step prev → ed.2.2 = Dep.and → statusIs s.dag ed.1 St.resolved) ∧
      (∀ ed ∈ P.dag.edges, ed.2.1 = stageNodeId step prev → ed.2.2 ≠ Dep.or) ∧
      (∀ oid v, out = some (oid, v) → oid ∈ P.outputsOf step prev ∧
          ∀ o ∈ P.outputsOf step prev, statusIs s.dag (outputNodeId step prev o) St.waiting)
  | .stepComplete step prev out _ =>
      -- the same contract as for a stage change: OnStepComplete reports the end of the step's last stage
      P.declares step prev ∧
      statusIs s.dag (stageNodeId step prev) St.waiting ∧
      (∀ ed ∈ P.dag.edges, ed.2.1 = stageNodeId step prev → ed.2.2 = Dep.and → statusIs s.dag ed.1 St.resolved) ∧
      (∀ ed ∈ P.dag.edges, ed.2.1 = stageNodeId step prev → ed.2.2 ≠ Dep.or) ∧
      (∀ oid v, out = some (oid, v) → oid ∈ P.outputsOf step prev ∧
          ∀ o ∈ P.outputsOf step prev, statusIs s.dag (outputNodeId step prev o) St.waiting)
  | .stageFail step stage =>
      P.declares step stage ∧
      ¬ statusIs s.dag (stageNodeId step stage) St.resolved ∧
      ∀ o ∈ P.outputsOf step stage, ¬ statusIs s.dag (outputNodeId step stage o) St.resolved
  | .tick _ _ => True
  | .drain => True

/-- additional well-formedness the panic-freedom argument needs (true of every real prepared workflow; checked by the
    driver): the declared stage-output nodes exist, have exactly one dependency — their stage node, `and` — and items
    of stage nodes carry a map as data -/
structure Prepared.WF2 (P : Prepared) : Prop where
  wf : P.WF
  output_nodes : ∀ step stage o, P.declares step stage → o ∈ P.outputsOf step stage →
      (lookup (outputNodeId step stage o) P.items).isSome = true ∧
      (∀ ed ∈ P.dag.edges, ed.2.1 = outputNodeId step stage o → ed.1 = stageNodeId step stage ∧ ed.2.2 = Dep.and)
  stage_data_map : ∀ id it d, lookup id P.items = some it → it.kind = Kind.stage → it.data = some d →
      ∃ kvs, d = InVal.map kvs
  stage_ids_nonempty : ∀ id it, lookup id P.items = some it → it.kind = Kind.stage → it.step ≠ "" ∧ it.stage ≠ ""
  kinds_handled : ∀ id it, lookup id P.items = some it → it.data.isSome = true → it.kind = Kind.stage ∨ it.kind = Kind.output
  /-- (ADDED) the `input` node has no dependencies: `Execute` resolves it unconditionally, so with a dependency the
  closure of resolved nodes is lost at `start` (`Cex.CE_input_dep`) -/
  input_no_deps : ∀ ed ∈ P.dag.edges, ed.2.1 ≠ "input"
  /-- (ADDED) the item of the `input` node has kind `input`: were it a dependency group, `notifySteps` would try to
  resolve the already resolved node and panic (`Cex.CE_input_group`) -/
  input_kind : ∀ it, lookup "input" P.items = some it → it.kind = Kind.input
  /-- (ADDED with the repair of finding F11) node ids of stage nodes are unambiguous.  When a step completes the loop now
  marks the stage nodes of all stages the step did not go through as unresolvable; with ids such as `steps.a.b.c`
  (= stage `b.c` of step `a` = stage `c` of step `a.b`) that hits a node another step has legally resolved and the
  graph library refuses: `panic markStageNodeUnresolvable` (`SafeCex.hist_needs_stage_unamb`) -/
  stage_unamb : P.StageUnamb

/-! ### graph level -/

/-- fuel never runs out: a successful-or-conflicting propagation uses each edge at most once
(`Graph.resolve_ne_fuel`; the invariant is not even needed) -/
theorem Graph.resolve_no_fuel_error (g : Graph String) (h : g.Inv) (id : String) (st : St) :
    g.resolve id st ≠ .error DgErr.fuel :=
  Graph.resolve_ne_fuel g id st

/-- `ResolvedClosed` is `Graph.RClosed` (the form used by the graph-level lemmas) when node ids are unique -/
theorem resolvedClosed_iff (g : Graph String) (hnd : (g.nodes.map (·.id)).Nodup) : ResolvedClosed g ↔ g.RClosed := by
  constructor
  · intro h x n hn hs
    obtain ⟨hnm, hnid⟩ := Graph.find?_some hn
    subst hnid
    exact h n hnm hs
  · intro h n hnm hs
    exact h n.id n (Graph.find?_of_mem hnd hnm) hs

/-- marking a node that is not `resolved` unresolvable succeeds when resolved nodes are closed under their hard
    dependencies -/
theorem Graph.resolve_unres_ok (g : Graph String) (h : g.Inv) (hc : ResolvedClosed g) (id : String) (n : Node String)
    (hn : g.find? id = some n) (hs : n.status ≠ St.resolved) :
    ∃ g', g.resolve id St.unres = .ok g' ∧ ResolvedClosed g' := by
  obtain ⟨g', hok, hc'⟩ := Graph.resolve_unres_succeeds g h ((resolvedClosed_iff g h.nodup).1 hc) id n hn hs
  exact ⟨g', hok, (resolvedClosed_iff g' (Graph.inv_resolve g g' id _ h hok).nodup).2 hc'⟩

/-- resolving a waiting node whose required dependencies are resolved succeeds and keeps resolved nodes closed -/
theorem Graph.resolve_resolved_ok (g : Graph String) (h : g.Inv) (hc : ResolvedClosed g) (id : String) (n : Node String)
    (hn : g.find? id = some n) (hs : n.status = St.waiting)
    (hand : ∀ ed ∈ g.edges, ed.2.1 = id → ed.2.2 = Dep.and → statusIs g ed.1 St.resolved)
    (hor : (∃ ed ∈ g.edges, ed.2.1 = id ∧ ed.2.2 = Dep.or) → ∃ q ∈ n.res, q.2 = Dep.or) :
    ∃ g', g.resolve id St.resolved = .ok g' ∧ ResolvedClosed g' := by
  obtain ⟨g', hok, hc'⟩ := Graph.resolve_ok g h ((resolvedClosed_iff g h.nodup).1 hc) id n .resolved hn hs (by decide)
    (fun _ => ⟨hand, hor⟩)
  exact ⟨g', hok, (resolvedClosed_iff g' (Graph.inv_resolve g g' id _ h hok).nodup).2 hc'⟩

/-! ### loop level -/

/--
(ADDED) the part of the panic-freedom invariant of a loop state that `LoopDagInv` does not contain.  `ResolvedClosed`
alone is not inductive and not sufficient (`LoopSafeCex.lean`): the ready set must be duplicate free, a resolved
dependency-group node must not sit in the ready set (the loop would resolve it again: `panic groupResolve`), and — to
keep that true — resolved dependency-group nodes only have soft outstanding entries (so that `dependencyResolved`
never puts them back into the ready set).  All four hold of `LoopState.init P` (`init_safe_inv`) and are maintained by
every legal callback (`react_legal_no_panic`).
-/
structure LoopSafeInv (P : Prepared) (s : LoopState) : Prop where
  closed : ResolvedClosed s.dag
  ready_nodup : s.dag.ready.Nodup
  ready_group : ∀ id ∈ s.dag.ready, isGroup P id → ¬ statusIs s.dag id St.resolved
  group_soft : ∀ n ∈ s.dag.nodes, n.status = St.resolved → isGroup P n.id → ∀ p ∈ n.out, p.2.hard = false
  /-- (ADDED with the repair of finding F11) every resolved stage / stage-output node belongs to a stage recorded in
  `finishedStages`: `markRemainingStagesUnresolvable` marks the nodes of all other stages of a completed step, which
  the graph library refuses for a resolved node (`SafeCex.react_needs_finished_inv`) -/
  finished : FinishedInv P s

theorem GSafe.of_inv {P : Prepared} {s : LoopState} (h : LoopDagInv P s) (hc : LoopSafeInv P s) : GSafe P s.dag := by
  refine ⟨h.inv, h.edges, h.ids, (resolvedClosed_iff _ h.inv.nodup).1 hc.closed, hc.ready_nodup, ?_, ?_⟩
  · intro id hid hgr n hn hs
    exact hc.ready_group id hid hgr ⟨n, hn, hs⟩
  · intro id n hn hs hgr
    obtain ⟨hnm, hnid⟩ := Graph.find?_some hn
    subst hnid
    exact hc.group_soft n hnm hs hgr

theorem GSafe.dagInv {P : Prepared} {s : LoopState} (hg : GSafe P s.dag) : LoopDagInv P s :=
  ⟨hg.inv, hg.edges, hg.ids⟩

theorem GSafe.safeInv {P : Prepared} {s : LoopState} (hg : GSafe P s.dag) (hf : FinishedInv P s) : LoopSafeInv P s := by
  refine ⟨(resolvedClosed_iff _ hg.inv.nodup).2 hg.closed, hg.ready_nodup, ?_, ?_, hf⟩
  · rintro id hid hgr ⟨n, hn, hs⟩
    exact hg.ready_group id hid hgr n hn hs
  · intro n hnm hs hgr
    exact hg.group_soft n.id n (Graph.find?_of_mem hg.inv.nodup hnm) hs hgr

/-- a legal callback names a declared stage and a declared output -/
theorem LegalEvent.declared {P : Prepared} {s : LoopState} {e : Event} (h : LegalEvent P s e) : EventDeclared P e := by
  cases e with
  | stageChange step prev out busy =>
    cases prev with
    | none => trivial
    | some p => exact ⟨h.1, fun oid v ho => (h.2.2.2.2 oid v ho).1⟩
  | stepComplete step prev out busy => exact ⟨h.1, fun oid v ho => (h.2.2.2.2 oid v ho).1⟩
  | _ => trivial

theorem Prepared.WF2.notifyWF {P : Prepared} (hP : P.WF2) : P.NotifyWF :=
  ⟨hP.wf.items_nodes, hP.stage_data_map, hP.stage_ids_nonempty, hP.kinds_handled⟩

theorem outputNodeId_inj (a b o o' : String) (h : outputNodeId a b o = outputNodeId a b o') : o = o' := by
  unfold outputNodeId at h
  exact (String.append_right_inj _).1 h

theorem outputNodeId_ne_stageNodeId (a b o : String) : outputNodeId a b o ≠ stageNodeId a b := by
  unfold outputNodeId stageNodeId
  intro h
  have := congrArg String.length h
  simp only [String.length_append] at this
  have h1 : ".".length = 1 := by decide
  omega

section Pre
variable {P : Prepared}

theorem checkDeadlock_good (retries : Nat) (busy : Bool) {r : R} (h : Good P r) :
    Good P (checkDeadlock P retries busy r) := by
  unfold checkDeadlock
  split
  · exact h
  split
  · split
    · exact (Moves.sendErr_cancel (ex := fun _ => False) h _).good
    · exact (Moves.same (ex := fun _ => False) (r' := emit r (.spawnDetector _)) h rfl (h.nopanic.snoc rfl)).good
  · exact h

theorem markOne_good (step stage : String) (skip : Option String) (r : R) (o : String) (hg : Good P r)
    (hns : skip ≠ some o → ¬ statusIs r.1.dag (outputNodeId step stage o) St.resolved) :
    Good P (markOne step stage skip r o) := by
  unfold markOne
  split
  · exact hg
  split
  · exact hg
  split
  · exact hg
  rename_i hskip hhas
  have hhas : r.1.dag.has (outputNodeId step stage o) = true := by simpa using hhas
  obtain ⟨n, hn⟩ := Graph.has_iff.1 hhas
  split
  · rename_i g hok
    exact (Moves.resolve hg hok (fun h => by cases h)).good
  · rename_i e he
    obtain ⟨g', hok, _⟩ := Graph.resolve_unres_succeeds r.1.dag hg.safe.inv hg.safe.closed _ n hn
      (fun hs => hns hskip ⟨n, hn, hs⟩)
    rw [hok] at he; cases he

theorem foldl_markOne_good (step stage : String) (skip : Option String) (l : List String) :
    ∀ r : R, Good P r → (∀ o ∈ l, skip ≠ some o → ¬ statusIs r.1.dag (outputNodeId step stage o) St.resolved) →
      Good P (l.foldl (markOne step stage skip) r) := by
  induction l with
  | nil => intro r hg _; exact hg
  | cons o rest ih =>
    intro r hg hl
    rw [List.foldl_cons]
    have h1 := markOne_good step stage skip r o hg (hl o List.mem_cons_self)
    apply ih _ h1
    intro o' ho' hs hx
    exact hl o' (List.mem_cons_of_mem _ ho') hs ((markOne_props step stage skip r o hg.safe.inv).1.nonew _ hx)

theorem markOutputsUnres_good (step stage : String) (skip : Option String) (r : R) (hg : Good P r)
    (hl : ∀ o ∈ P.outputsOf step stage, skip ≠ some o →
      ¬ statusIs r.1.dag (outputNodeId step stage o) St.resolved) :
    Good P (markOutputsUnres P step stage skip r) := by
  rw [markOutputsUnres_eq]
  exact foldl_markOne_good step stage skip _ r hg hl

theorem markStageUnres_good (step stage : String) (r : R) (hg : Good P r)
    (hns : ¬ statusIs r.1.dag (stageNodeId step stage) St.resolved) :
    Good P (markStageUnres step stage r) := by
  unfold markStageUnres
  split
  · exact hg
  split
  · exact hg
  rename_i hhas
  have hhas : r.1.dag.has (stageNodeId step stage) = true := by simpa using hhas
  obtain ⟨n, hn⟩ := Graph.has_iff.1 hhas
  split
  · rename_i g hok
    exact (Moves.resolve hg hok (fun h => by cases h)).good
  · rename_i e he
    obtain ⟨g', hok, _⟩ := Graph.resolve_unres_succeeds r.1.dag hg.safe.inv hg.safe.closed _ n hn
      (fun hs => hns ⟨n, hn, hs⟩)
    rw [hok] at he; cases he

theorem declares_of_mem_stagesOf {step stage : String} (h : stage ∈ P.stagesOf step) : P.declares step stage := by
  unfold Prepared.stagesOf at h
  split at h
  · cases h
  · rename_i sts hsts
    refine ⟨sts, ?_⟩
    suffices ∃ outs, lookup stage sts = some outs by
      obtain ⟨outs, ho⟩ := this
      exact ⟨outs, hsts, ho⟩
    clear hsts
    induction sts with
    | nil => cases h
    | cons x rest ih =>
      obtain ⟨k, v⟩ := x
      simp only [lookup]
      split
      · exact ⟨v, rfl⟩
      · rename_i hne
        simp only [List.map_cons, List.mem_cons] at h
        rcases h with h | h
        · exact absurd h hne
        · exact ih h

theorem markRemainingOne_good (step : String) (r : R) (stage : String) (hg : Good P r) (hf : FinishedInv P r.1)
    (hd : P.declares step stage) : Good P (markRemainingOne P step r stage) := by
  unfold markRemainingOne
  split
  · exact hg
  rename_i hc
  have hnm : (step, stage) ∉ r.1.finished := by
    intro hm
    exact hc (List.contains_iff_mem.2 hm)
  obtain ⟨h1, h2⟩ := hf step stage hd hnm
  have hg1 : Good P (markOutputsUnres P step stage none r) :=
    markOutputsUnres_good step stage none r hg (fun o ho _ => h2 o ho)
  have hq := (markOutputsUnres_props (P := P) step stage none r hg.safe.inv).1
  exact markStageUnres_good step stage _ hg1 (fun hx => h1 (hq.nonew _ hx))

/-- `markRemainingStagesUnresolvable` never panics when the stages not recorded as finished have no resolved node -/
theorem markRemaining_good (step : String) (r : R) (hg : Good P r) (hf : FinishedInv P r.1) :
    Good P (markRemaining P step r) := by
  unfold markRemaining
  have hall : ∀ x ∈ P.stagesOf step, P.declares step x := fun x hx => declares_of_mem_stagesOf hx
  revert hall
  generalize P.stagesOf step = l
  intro hall
  induction l generalizing r with
  | nil => exact hg
  | cons x rest ih =>
    rw [List.foldl_cons]
    have h1 := markRemainingOne_good step r x hg hf (hall x List.mem_cons_self)
    have q := markRemainingOne_quiet (P := P) step r x hg.safe.inv
    exact ih _ h1 (hf.quiet q) (fun y hy => hall y (List.mem_cons_of_mem _ hy))

theorem finishStage_good (hP : P.WF2) (fns : Fns) (ord : Order) (hord : OrdOK ord) (hnd : OrdNodup ord)
    (step : String) (complete : Bool) (r : R) (hg : Good P r) (hf : FinishedInv P r.1) :
    Good P (finishStage P fns ord step complete r) := by
  have hN := notifySteps_moves hP.notifyWF fns ord hord hnd (notifyFuel P)
  unfold finishStage
  split
  · exact (hN _ (markRemaining_good step r hg hf)).good
  · exact (hN _ hg).good

theorem onStageCompleteBody_good (hP : P.WF2) (fns : Fns) (ord : Order) (hord : OrdOK ord) (hnd : OrdNodup ord)
    (step prev : String) (out : Option (String × Val)) (complete : Bool) (r : R) (hg : Good P r)
    (hf : FinishedInv P r.1)
    (hdecl : P.declares step prev)
    (hw : statusIs r.1.dag (stageNodeId step prev) St.waiting)
    (hand : ∀ ed ∈ P.dag.edges, ed.2.1 = stageNodeId step prev → ed.2.2 = Dep.and → statusIs r.1.dag ed.1 St.resolved)
    (hnor : ∀ ed ∈ P.dag.edges, ed.2.1 = stageNodeId step prev → ed.2.2 ≠ Dep.or)
    (hout : ∀ oid v, out = some (oid, v) → oid ∈ P.outputsOf step prev ∧
      ∀ o ∈ P.outputsOf step prev, statusIs r.1.dag (outputNodeId step prev o) St.waiting) :
    Good P (onStageCompleteBody P fns ord step prev out complete r) := by
  obtain ⟨n, hn, hnw⟩ := hw
  have hcl : ClosedAt r.1.dag (stageNodeId step prev) n := by
    refine ⟨?_, ?_⟩
    · rw [hg.safe.edges]; exact hand
    · rintro ⟨ed, he, h1, h2⟩
      rw [hg.safe.edges] at he
      exact absurd h2 (hnor ed he h1)
  obtain ⟨g', hok, _⟩ := Graph.resolve_ok r.1.dag hg.safe.inv hg.safe.closed _ n .resolved hn hnw (by decide)
    (fun _ => hcl)
  unfold onStageCompleteBody
  dsimp only
  split
  · exact (Moves.sendErr_cancel (ex := fun _ => False) hg _).good
  split
  · rename_i he; rw [hok] at he; cases he
  · rename_i he; rw [hok] at he; cases he
  · exact (Moves.sendErr_cancel (ex := fun _ => False) hg _).good
  rename_i g hokg
  have hm1 := Moves.resolve hg hokg (by
    intro _ m hm
    rw [hn] at hm; cases hm
    refine ⟨hcl, ?_⟩
    rintro ⟨it, hit, hk⟩
    rw [hP.wf.stage_kind step prev it hdecl hit] at hk
    cases hk)
  have hg1 : Good P ({ r.1 with dag := g, finished := (step, prev) :: r.1.finished }, r.2) :=
    ⟨hm1.good.safe, hm1.good.nopanic⟩
  have hf1 : FinOK P g ((step, prev) :: r.1.finished) :=
    FinOK.resolve_stage hP.wf hP.stage_unamb hg.safe.ids hf hdecl hokg
  split
  · exact finishStage_good hP fns ord hord hnd step complete _ hg1 hf1
  rename_i oid v
  obtain ⟨hoid, hallw⟩ := hout oid v rfl
  split
  · exact (Moves.sendErr_cancel (ex := fun _ => False) hg1 _).good
  -- the output node in `g`
  obtain ⟨n0, hn0, hn0w⟩ := hallw oid hoid
  obtain ⟨n1, hn1⟩ := hm1.gle.find hn0
  obtain ⟨hexists, honly⟩ := hP.output_nodes step prev oid hdecl hoid
  have hedg : g.edges = P.dag.edges := hg1.safe.edges
  have hcl1 : ClosedAt g (outputNodeId step prev oid) n1 := by
    refine ⟨?_, ?_⟩
    · intro ed he h1 _
      rw [hedg] at he
      rw [(honly ed he h1).1]
      exact Graph.resolve_status_self _ _ _ _ (by decide) hokg
    · rintro ⟨ed, he, h1, h2⟩
      rw [hedg] at he
      rw [(honly ed he h1).2] at h2
      cases h2
  have hcases := Graph.resolve_resolved_ok_or_set g hg1.safe.inv hg1.safe.closed _ n1 hn1 (fun _ => hcl1)
  split
  · rename_i he
    rcases hcases with ⟨g2, h2, _⟩ | ⟨a, b, c, h2⟩ <;> (rw [h2] at he; cases he)
  · rename_i he
    rcases hcases with ⟨g2, h2, _⟩ | ⟨a, b, c, h2⟩ <;> (rw [h2] at he; cases he)
  · exact (Moves.sendErr_cancel (ex := fun _ => False) hg1 _).good
  rename_i g2 hok2
  have hg2 : Good P ({ r.1 with dag := g2, finished := (step, prev) :: r.1.finished }, r.2) :=
    (Moves.resolve hg1 hok2 (by
      intro _ m hm
      have hm : g.find? (outputNodeId step prev oid) = some m := hm
      rw [hn1] at hm; cases hm
      refine ⟨hcl1, ?_⟩
      rintro ⟨it, hit, hk⟩
      rw [hP.wf.output_kind step prev oid it hdecl hoid hit] at hk
      cases hk)).good
  have hf2 : FinOK P g2 ((step, prev) :: r.1.finished) :=
    FinOK.resolve_output hP.wf hg1.safe.ids hf1 hdecl hoid List.mem_cons_self hok2
  have hq3 := (markOutputsUnres_props (P := P) step prev (some oid)
    ({ r.1 with dag := g2, finished := (step, prev) :: r.1.finished }, r.2) hg2.safe.inv).1
  have hf3 : FinishedInv P (markOutputsUnres P step prev (some oid)
      ({ r.1 with dag := g2, finished := (step, prev) :: r.1.finished }, r.2)).1 :=
    FinishedInv.quiet (r := ({ r.1 with dag := g2, finished := (step, prev) :: r.1.finished }, r.2)) hf2 hq3
  have hg3 : Good P (markOutputsUnres P step prev (some oid)
      ({ r.1 with dag := g2, finished := (step, prev) :: r.1.finished }, r.2)) := by
    apply markOutputsUnres_good step prev (some oid) _ hg2
    intro o ho hne hx
    rcases resolve_newRes hok2 hx with ⟨heq, _⟩ | h1
    · exact hne (by rw [outputNodeId_inj _ _ _ _ heq])
    · rcases resolve_newRes hokg h1 with ⟨heq, _⟩ | h0
      · exact outputNodeId_ne_stageNodeId _ _ _ heq
      · have := statusIs_unique h0 (hallw o ho)
        cases this
  split
  · exact hg3
  · exact finishStage_good hP fns ord hord hnd step complete _ ⟨hg3.safe, hg3.nopanic⟩ hf3

/-- every legal callback keeps `Good` -/
theorem react_good (hP : P.WF2) (fns : Fns) (ord : Order) (hord : OrdOK ord) (hnd : OrdNodup ord)
    (s : LoopState) (e : Event) (hg : GSafe P s.dag) (hf : FinishedInv P s) (hl : LegalEvent P s e) :
    Good P (react P fns ord s e) := by
  have hN := notifySteps_moves hP.notifyWF fns ord hord hnd (notifyFuel P)
  have hg0 : Good P (s, []) := ⟨hg, fun _ h => nomatch h⟩
  unfold react
  split
  · exact hg0
  split
  · -- start
    rename_i input
    obtain ⟨_, hallw⟩ := hl
    dsimp only
    have hgp : GSafe P s.dag.pushStarting := by
      apply hg.pushStarting
      intro x n hn hs
      rw [hallw n (Graph.find?_some hn).1] at hs
      cases hs
    have hg1 : Good P ({ s with data := initData P input, dag := s.dag.pushStarting }, []) :=
      ⟨hgp, fun _ h => nomatch h⟩
    split
    · exact hg1
    split
    · exact hg1
    · rename_i g hok
      have hg2 : Good P ({ s with data := initData P input, dag := g }, []) := by
        refine ⟨hgp.resolve hok ?_, fun _ h => nomatch h⟩
        intro _ n hn
        refine ⟨⟨?_, ?_⟩, ?_⟩
        · intro ed he h1 _
          rw [hgp.edges] at he
          exact absurd h1 (hP.input_no_deps ed he)
        · rintro ⟨ed, he, h1, _⟩
          rw [hgp.edges] at he
          exact absurd h1 (hP.input_no_deps ed he)
        · rintro ⟨it, hit, hk⟩
          rw [hP.input_kind it hit] at hk
          cases hk
      exact (hN _ hg2).good
  · -- stageChange
    split
    · exact hg0
    · rename_i step out busy _ p
      obtain ⟨hdecl, hw, hand, hnor, hout⟩ := hl
      exact checkDeadlock_good 3 busy
        (onStageCompleteBody_good hP fns ord hord hnd step p out false (s, []) hg0 hf hdecl hw hand hnor hout)
  · -- stepComplete
    rename_i step prev out busy
    obtain ⟨hdecl, hw, hand, hnor, hout⟩ := hl
    exact checkDeadlock_good 3 busy
      (onStageCompleteBody_good hP fns ord hord hnd step prev out true (s, []) hg0 hf hdecl hw hand hnor hout)
  · -- stageFail
    rename_i step stage
    obtain ⟨_, hns, hno⟩ := hl
    dsimp only
    have hg1 : Good P (markOutputsUnres P step stage none (s, [])) :=
      markOutputsUnres_good step stage none (s, []) hg0 (fun o ho _ => hno o ho)
    have hq := (markOutputsUnres_props (P := P) step stage none (s, []) hg.inv).1
    have hg2 : Good P (markStageUnres step stage (markOutputsUnres P step stage none (s, []))) :=
      markStageUnres_good step stage _ hg1 (fun hx => hns (hq.nonew _ hx))
    split
    · exact hg2
    · exact (hN _ hg2).good
  · -- tick
    split
    · exact hg0
    · exact checkDeadlock_good _ _ hg0
  · -- drain
    exact ⟨hg, fun _ h => nomatch h⟩

end Pre

/--
a legal callback never makes the loop panic, and keeps the panic-freedom invariant (in particular resolved nodes stay
closed: `LoopSafeInv.closed`).

CHANGED with respect to the first statement (counterexamples in `LoopSafeCex.lean`):
* hypothesis `hnd : OrdNodup ord` added: `OrdOK` allows an order that processes a popped node twice; the second time a
  dependency-group node is resolved the library refuses and the loop panics;
* the state hypothesis `ResolvedClosed s.dag` is strengthened to `LoopSafeInv P s` (and so is the conclusion): a
  duplicate in the ready set, or a resolved dependency-group node in the ready set, make `notifySteps` panic;
* `Prepared.WF2` has the two new clauses `input_no_deps` and `input_kind`.
-/
theorem react_legal_no_panic (P : Prepared) (fns : Fns) (ord : Order) (hord : OrdOK ord) (hnd : OrdNodup ord)
    (hP : P.WF2) (s : LoopState) (e : Event) (h : LoopDagInv P s) (hc : LoopSafeInv P s) (hl : LegalEvent P s e) :
    (∀ a ∈ (react P fns ord s e).2, a.isPanic = false) ∧ LoopSafeInv P (react P fns ord s e).1 := by
  have := react_good hP fns ord hord hnd s e (GSafe.of_inv h hc) hc.finished hl
  exact ⟨this.nopanic,
    this.safe.safeInv (react_finished_inv P fns ord hP.wf hP.stage_unamb s e h hc.finished hl.declared)⟩

/-- the first conclusion as originally stated: resolved nodes stay closed -/
theorem react_legal_closed (P : Prepared) (fns : Fns) (ord : Order) (hord : OrdOK ord) (hnd : OrdNodup ord)
    (hP : P.WF2) (s : LoopState) (e : Event) (h : LoopDagInv P s) (hc : LoopSafeInv P s) (hl : LegalEvent P s e) :
    ResolvedClosed (react P fns ord s e).1.dag :=
  (react_legal_no_panic P fns ord hord hnd hP s e h hc hl).2.closed

/-- the initial state satisfies the panic-freedom invariant -/
theorem init_safe_inv (P : Prepared) (hP : P.WF) : LoopSafeInv P (LoopState.init P) := by
  have hw : ∀ n ∈ (LoopState.init P).dag.nodes, n.status = St.waiting := fun n hn => (hP.fresh n hn).1
  refine ⟨?_, ?_, ?_, ?_, init_finished_inv P hP⟩
  · intro n hn hs
    rw [hw n hn] at hs; cases hs
  · show P.dag.clone.ready.Nodup
    exact List.nodup_nil
  · intro id hid
    exact nomatch hid
  · intro n hn hs
    rw [hw n hn] at hs; cases hs

/-- a history is legal when each event is legal in the state it is delivered in -/
def LegalHistory (P : Prepared) (fns : Fns) (ord : Order) : LoopState → List Event → Prop
  | _, [] => True
  | s, e :: es => LegalEvent P s e ∧ LegalHistory P fns ord (react P fns ord s e).1 es

theorem runFrom_legal_never_panics (P : Prepared) (fns : Fns) (ord : Order) (hord : OrdOK ord) (hnd : OrdNodup ord)
    (hP : P.WF2) (h : List Event) : ∀ s, LoopDagInv P s → LoopSafeInv P s → s.dead = false →
      LegalHistory P fns ord s h →
      (∀ a ∈ (runFrom P fns ord s h).2, a.isPanic = false) ∧ (runFrom P fns ord s h).1.dead = false := by
  induction h with
  | nil => intro s _ _ hd _; exact ⟨(fun _ h => nomatch h), hd⟩
  | cons e es ih =>
    intro s hi hc hd hl
    obtain ⟨hl1, hl2⟩ := hl
    rw [runFrom_cons]
    obtain ⟨hnp, hc'⟩ := react_legal_no_panic P fns ord hord hnd hP s e hi hc hl1
    have hd' : (react P fns ord s e).1.dead = false := by
      cases hdd : (react P fns ord s e).1.dead with
      | false => rfl
      | true =>
        obtain ⟨a, ha, hp⟩ := react_dead_only_by_panic P fns ord s e hd hdd
        rw [hnp a ha] at hp; cases hp
    obtain ⟨h1, h2⟩ := ih _ (react_dag_inv P fns ord s e hi) hc' hd' hl2
    refine ⟨?_, h2⟩
    intro a ha
    rcases List.mem_append.1 ha with ha | ha
    · exact hnp a ha
    · exact h1 a ha

/-- C07, run-loop part: no legal history makes the loop panic or die.
CHANGED: hypothesis `hnd : OrdNodup ord` added (see `react_legal_no_panic`). -/
theorem legal_history_never_panics (P : Prepared) (fns : Fns) (ord : Order) (hord : OrdOK ord) (hnd : OrdNodup ord)
    (hP : P.WF2) (h : List Event) (hl : LegalHistory P fns ord (LoopState.init P) h) :
    (∀ a ∈ (run P fns ord h).2, a.isPanic = false) ∧ (run P fns ord h).1.dead = false :=
  runFrom_legal_never_panics P fns ord hord hnd hP h _ (init_dag_inv P hP.wf) (init_safe_inv P hP.wf) rfl hl

/-! ### C15: what the tags mean, from `resolveIn` -/

/-- an optional field is present exactly when its dependency group is recorded as resolved in the parent node, and then
    carries the value of its expression -/
theorem resolveIn_optional (fns : Fns) (g : Graph String) (data : Val) (w : Bool) (grp par : String) (e : Expr)
    (p : Node String) (hp : g.find? par = some p) :
    resolveIn fns g data (.optional w grp par e) =
      (if p.res.any (fun q => q.1 = grp) then
        (match evalExpr fns data e with
         | .ok v => .ok v
         | .error x => .error (.eval x))
       else .ok Val.null) := by
  rw [resolveIn, hp]
  dsimp only
  split
  · cases evalExpr fns data e <;> rfl
  · rfl

/-- absent optional members (null) are left out of the enclosing map, present ones are kept with their value -/
theorem resolveKvs_member (fns : Fns) (g : Graph String) (data : Val) (kvs : List (String × InVal))
    (out : List (String × Val)) (h : resolveKvs fns g data kvs = .ok out) :
    ∀ k v, (k, v) ∈ out → v ≠ Val.null ∧ ∃ x, (k, x) ∈ kvs ∧ resolveIn fns g data x = .ok v := by
  induction kvs generalizing out with
  | nil =>
    rw [resolveKvs] at h
    cases h
    intro k v hm; cases hm
  | cons kx rest ih =>
    obtain ⟨k0, x0⟩ := kx
    rw [resolveKvs] at h
    split at h
    · cases h
    rename_i v0 hv0
    split at h
    · cases h
    rename_i vs hvs
    have ih' := ih vs hvs
    have hrest : ∀ k v, (k, v) ∈ vs → v ≠ Val.null ∧ ∃ x, (k, x) ∈ (k0, x0) :: rest ∧ resolveIn fns g data x = .ok v := by
      intro k v hm
      obtain ⟨h1, x, hx, h2⟩ := ih' k v hm
      exact ⟨h1, x, List.mem_cons_of_mem _ hx, h2⟩
    split at h
    · cases h
      exact hrest
    · rename_i hnn
      cases h
      intro k v hm
      rcases List.mem_cons.1 hm with hm | hm
      · cases hm
        exact ⟨fun h => hnn h, x0, List.mem_cons_self, hv0⟩
      · exact hrest k v hm

theorem resolveOpt_some (fns : Fns) (g : Graph String) (data : Val) (optId : String) (opts : List (String × InVal))
    (v : Val) (h : resolveOpt fns g data optId opts = .ok (some v)) :
    ∃ x, (optId, x) ∈ opts ∧ resolveIn fns g data x = .ok v := by
  induction opts with
  | nil => rw [resolveOpt] at h; cases h
  | cons kx rest ih =>
    obtain ⟨k0, x0⟩ := kx
    rw [resolveOpt] at h
    split at h
    · rename_i hk
      split at h
      · cases h
      · rename_i v0 hv0
        cases h
        exact ⟨x0, by rw [hk]; exact List.mem_cons_self, hv0⟩
    · obtain ⟨x, hx, h2⟩ := ih h
      exact ⟨x, List.mem_cons_of_mem _ hx, h2⟩

/-- a one-of value is the data of the alternative whose option node was resolved first, plus the discriminator -/
theorem resolveIn_oneof (fns : Fns) (g : Graph String) (data : Val) (disc node : String) (opts : List (String × InVal))
    (v : Val) (h : resolveIn fns g data (.oneof disc node opts) = .ok v) :
    ∃ n dep optId x kvs, g.find? node = some n ∧ (dep, Dep.or) ∈ n.res ∧ optId = stripPrefix (node ++ ".") dep ∧
      (optId, x) ∈ opts ∧ resolveIn fns g data x = .ok (.map kvs) ∧ v = .map (insertKv disc (.str optId) kvs) := by
  rw [resolveIn] at h
  split at h
  · cases h
  rename_i n hn
  split at h
  · cases h
  rename_i dep d hfind
  have hmem := List.mem_of_find?_eq_some hfind
  have hd := List.find?_some hfind
  simp only [decide_eq_true_eq] at hd
  subst hd
  dsimp only at h
  split at h
  · cases h
  · cases h
  · rename_i kvs hopt
    cases h
    obtain ⟨x, hx, h2⟩ := resolveOpt_some _ _ _ _ _ _ hopt
    exact ⟨n, dep, _, x, kvs, hn, hmem, rfl, hx, h2, rfl⟩
  · cases h

/-- in a graph satisfying the invariant, the dependency recorded for a one-of is a resolved node, and an optional
    group recorded in its parent is a resolved node (its source was produced) -/
theorem recorded_dependency_resolved (g : Graph String) (h : g.Inv) (n : Node String) (hn : n ∈ g.nodes)
    (q : String × Dep) (hq : q ∈ n.res) : statusIs g q.1 St.resolved :=
  Graph.res_resolved g h n hn q hq

/-- a wait-optional (completion) dependency is settled whenever its consumer is evaluated: present iff produced.
    (Consequence of `provide_deps_settled`/`output_deps_settled`: the group node of a `cand` edge is resolved or
    unresolvable in the final state of the reaction.) -/
theorem wait_optional_settled (P : Prepared) (fns : Fns) (ord : Order) (hord : OrdOK ord) (s : LoopState) (e : Event)
    (hP : P.WF) (h : LoopDagInv P s) (step stage : String) (v : Val)
    (hp : Action.provide step stage v ∈ (react P fns ord s e).2) :
    ∃ id, (∃ it, lookup id P.items = some it ∧ it.kind = Kind.stage ∧ it.step = step ∧ it.stage = stage) ∧
      ∀ ed ∈ P.dag.edges, ed.2.1 = id → ed.2.2 = Dep.cand →
        statusIs (react P fns ord s e).1.dag ed.1 St.resolved ∨ statusIs (react P fns ord s e).1.dag ed.1 St.unres := by
  obtain ⟨id, it, d, h1, h2, h3, h4, _, _, _, h8⟩ := provide_deps_settled P fns ord hord s e hP h step stage v hp
  exact ⟨id, ⟨it, h1, h2, h3, h4⟩, h8⟩
end Arca.Model
