/-
Basic facts about the list-level helpers of the dependency-graph model (`find?`, `setNode`, `alookup`, `aerase`,
`obviate`, `insertSet`), used by `Arca.Proofs.DgraphInv`.
-/
import Arca.Model.Dgraph

set_option linter.unusedSectionVars false

namespace Arca.Model

variable {ι : Type} [DecidableEq ι]

/-! ## `find?` / `setNode` -/

theorem Graph.find?_some {g : Graph ι} {x : ι} {n : Node ι} (h : g.find? x = some n) :
    n ∈ g.nodes ∧ n.id = x := by
  unfold Graph.find? at h
  have h1 := List.mem_of_find?_eq_some h
  have h2 := List.find?_some h
  simp at h2
  exact ⟨h1, h2⟩

theorem List.find?_id_of_mem {l : List (Node ι)} (hnd : (l.map (·.id)).Nodup) {n : Node ι} (h : n ∈ l) :
    l.find? (fun m => m.id = n.id) = some n := by
  induction l with
  | nil => simp at h
  | cons a l ih =>
    simp only [List.map_cons, List.nodup_cons, List.mem_map, not_exists, not_and] at hnd
    simp only [List.find?_cons]
    by_cases ha : a.id = n.id
    · simp only [ha, decide_true]
      rcases List.mem_cons.1 h with h | h
      · rw [h]
      · exact absurd ha.symm (hnd.1 n h)
    · simp only [ha, decide_false]
      rcases List.mem_cons.1 h with h | h
      · exact absurd (by rw [h]) ha
      · exact ih hnd.2 h

theorem Graph.find?_of_mem {g : Graph ι} (hnd : (g.nodes.map (·.id)).Nodup) {n : Node ι} (h : n ∈ g.nodes) :
    g.find? n.id = some n := List.find?_id_of_mem hnd h

theorem Graph.has_iff {g : Graph ι} {x : ι} : g.has x = true ↔ ∃ n, g.find? x = some n := by
  unfold Graph.has
  cases g.find? x <;> simp

theorem Graph.has_false_iff {g : Graph ι} {x : ι} : g.has x = false ↔ g.find? x = none := by
  unfold Graph.has
  cases g.find? x <;> simp

theorem Graph.setNode_ids (g : Graph ι) (n' : Node ι) :
    (g.setNode n').nodes.map (·.id) = g.nodes.map (·.id) := by
  unfold Graph.setNode
  simp only [List.map_map]
  apply List.map_congr_left
  intro m _
  simp only [Function.comp]
  split <;> simp_all

@[simp] theorem Graph.setNode_edges (g : Graph ι) (n' : Node ι) : (g.setNode n').edges = g.edges := rfl
@[simp] theorem Graph.setNode_ready (g : Graph ι) (n' : Node ι) : (g.setNode n').ready = g.ready := rfl

theorem List.find?_map_setNode (l : List (Node ι)) (n' : Node ι) (x : ι) :
    (l.map (fun m => if m.id = n'.id then n' else m)).find? (fun n => n.id = x) =
      (l.find? (fun n => n.id = x)).map (fun m => if m.id = n'.id then n' else m) := by
  induction l with
  | nil => simp
  | cons a l ih =>
    simp only [List.map_cons, List.find?_cons]
    by_cases h : a.id = n'.id
    · by_cases hx : n'.id = x
      · simp [h, hx]
      · simp [h, hx, ih]
    · by_cases hx : a.id = x
      · subst hx
        simp [h]
      · simp [h, hx, ih]

theorem Graph.find?_setNode (g : Graph ι) (n' : Node ι) (x : ι) :
    (g.setNode n').find? x = (g.find? x).map (fun m => if m.id = n'.id then n' else m) :=
  List.find?_map_setNode g.nodes n' x

theorem Graph.find?_setNode_self {g : Graph ι} {n n' : Node ι} (h : g.find? n'.id = some n) :
    (g.setNode n').find? n'.id = some n' := by
  rw [Graph.find?_setNode, h]
  simp [(Graph.find?_some h).2]

theorem Graph.find?_setNode_ne {g : Graph ι} {n' : Node ι} {x : ι} (h : x ≠ n'.id) :
    (g.setNode n').find? x = g.find? x := by
  rw [Graph.find?_setNode]
  cases hx : g.find? x with
  | none => rfl
  | some m =>
    have := (Graph.find?_some hx).2
    simp only [Option.map_some, Option.some.injEq]
    rw [if_neg]
    intro h'
    exact h (by rw [← this, h'])

theorem Graph.has_setNode (g : Graph ι) (n' : Node ι) (x : ι) : (g.setNode n').has x = g.has x := by
  unfold Graph.has
  rw [Graph.find?_setNode]
  cases g.find? x <;> simp

theorem Graph.setNode_setNode (g : Graph ι) (a b : Node ι) (h : a.id = b.id) :
    (g.setNode a).setNode b = g.setNode b := by
  unfold Graph.setNode
  simp only [List.map_map]
  congr 1
  apply List.map_congr_left
  intro m _
  simp only [Function.comp]
  by_cases hm : m.id = a.id
  · simp [hm, h]
  · have : ¬ m.id = b.id := by rw [← h]; exact hm
    simp [hm, this]

@[simp] theorem Graph.succs_setNode (g : Graph ι) (n' : Node ι) (x : ι) : (g.setNode n').succs x = g.succs x := rfl

theorem Graph.mem_succs {g : Graph ι} {x c : ι} : c ∈ g.succs x ↔ ∃ d, (x, c, d) ∈ g.edges := by
  unfold Graph.succs
  simp only [List.mem_map, List.mem_filter, decide_eq_true_eq]
  constructor
  · rintro ⟨⟨a, b, d⟩, ⟨hm, ha⟩, hb⟩
    simp only at ha hb
    subst ha; subst hb
    exact ⟨d, hm⟩
  · rintro ⟨d, hm⟩
    exact ⟨(x, c, d), ⟨hm, rfl⟩, rfl⟩

theorem Graph.hasEdge_iff {g : Graph ι} {a b : ι} : g.hasEdge a b = true ↔ ∃ d, (a, b, d) ∈ g.edges := by
  unfold Graph.hasEdge
  simp only [List.any_eq_true, decide_eq_true_eq]
  constructor
  · rintro ⟨⟨x, y, d⟩, hm, hx, hy⟩
    simp only at hx hy
    subst hx; subst hy
    exact ⟨d, hm⟩
  · rintro ⟨d, hm⟩
    exact ⟨(a, b, d), hm, rfl, rfl⟩

/-- with at most one edge per ordered pair the recorded type of an edge is determined by its end points -/
theorem edge_type_unique {E : List (ι × ι × Dep)} (hnd : (E.map (fun e => (e.1, e.2.1))).Nodup)
    {a b : ι} {d d' : Dep} (h : (a, b, d) ∈ E) (h' : (a, b, d') ∈ E) : d = d' := by
  induction E with
  | nil => simp at h
  | cons e l ih =>
    simp only [List.map_cons, List.nodup_cons, List.mem_map, not_exists, not_and] at hnd
    rcases List.mem_cons.1 h with h | h <;> rcases List.mem_cons.1 h' with h' | h'
    · rw [← h] at h'; simp at h'; exact h'.symm
    · exact absurd (by rw [← h]) (hnd.1 _ h')
    · exact absurd (by rw [← h']) (hnd.1 _ h)
    · exact ih hnd.2 h h'

/-! ## association lists -/

theorem alookup_some_mem {k : ι} {l : List (ι × Dep)} {d : Dep} (h : alookup k l = some d) : (k, d) ∈ l := by
  induction l with
  | nil => simp [alookup] at h
  | cons p l ih =>
    obtain ⟨k', v⟩ := p
    simp only [alookup] at h
    split at h
    · simp_all
    · exact List.mem_cons_of_mem _ (ih h)

theorem mem_aerase {k : ι} {l : List (ι × Dep)} {p : ι × Dep} : p ∈ aerase k l ↔ p ∈ l ∧ p.1 ≠ k := by
  simp [aerase]

theorem map_fst_aerase (k : ι) (l : List (ι × Dep)) :
    (aerase k l).map (·.1) = (l.map (·.1)).filter (fun a => a ≠ k) := by
  unfold aerase
  rw [List.filter_map]
  rfl

theorem map_fst_obviate (d : Dep) (l : List (ι × Dep)) : (obviate d l).map (·.1) = l.map (·.1) := by
  unfold obviate
  simp only [List.map_map]
  apply List.map_congr_left
  intro p _
  simp only [Function.comp]
  split <;> rfl

theorem mem_obviate {d : Dep} {l : List (ι × Dep)} {p : ι × Dep} :
    p ∈ obviate d l ↔ ∃ q ∈ l, p = (if q.2 = d then (q.1, Dep.obv) else q) := by
  unfold obviate
  simp only [List.mem_map]
  constructor
  · rintro ⟨q, hq, rfl⟩; exact ⟨q, hq, rfl⟩
  · rintro ⟨q, hq, rfl⟩; exact ⟨q, hq, rfl⟩

theorem hasDep_iff {d : Dep} {l : List (ι × Dep)} : hasDep d l = true ↔ ∃ p ∈ l, p.2 = d := by
  simp [hasDep]

theorem hasDep_false_iff {d : Dep} {l : List (ι × Dep)} : hasDep d l = false ↔ ∀ p ∈ l, p.2 ≠ d := by
  simp [hasDep]

theorem mem_insertSet {x y : ι} {l : List ι} : y ∈ insertSet x l ↔ y = x ∨ y ∈ l := by
  unfold insertSet
  split
  · constructor
    · exact Or.inr
    · rintro (rfl | h)
      · assumption
      · exact h
  · simp [or_comm]

end Arca.Model
