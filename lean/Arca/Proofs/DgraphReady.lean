/-
Graph-level facts behind the COMPLETENESS theorems of the run loop (`LoopComplete.lean`, C01 / C03):

* `Graph.Adv g g'` ("advance"): the ready set only grows, and every node that is `waiting` without an outstanding hard
  dependency in `g'` is in the ready set of `g'` or was already such a node in `g`; every node that is unresolvable in
  `g'` is in the ready set of `g'` or was already unresolvable in `g`.  This is the converse of `Graph.Inv.ready_ok`
  ("ready ⇒ no hard dependency outstanding"): nothing that becomes processable is forgotten by `dependencyResolved`.
  `Graph.resolve_adv`: a successful explicit resolution advances the graph (for every node but the resolved one).
* `Graph.resolve_sink`: resolving a waiting node without successors just sets its status.
* `Graph.UJ`: an unresolvable node (other than the explicitly failed ones) has a failed required dependency
  (`and` predecessor unresolvable, or every member of its `or` group unresolvable).
* `acyclic_rank` / `Graph.dag_induction`: `HasCycles = false` yields a rank function decreasing along edges, hence
  induction along the edges of the graph.
* `filter_length_le` / `filter_length_lt`: the counting lemmas behind the fuel argument of `notifySteps`.
-/
import Arca.Model.Dgraph
import Arca.Proofs.DgraphLemmas
import Arca.Proofs.DgraphInv
import Arca.Proofs.DgraphFuel
import Arca.Proofs.LoopDagLemmas

set_option linter.unusedSectionVars false
set_option linter.unusedVariables false
set_option linter.unusedSimpArgs false

namespace Arca.Model

variable {ι : Type} [DecidableEq ι]

/-! ## `depResolved` forgets nothing -/

/-- `Graph.depResolved_ok` with one more fact: when the consumed entry was a hard one and the target is left `waiting`
with only soft outstanding entries, the target was put into the ready set -/
theorem Graph.depResolved_ok_ready {g g' : Graph ι} {t s : ι} {st : St} {turned : Bool}
    (h : g.depResolved t s st = .ok (g', turned)) :
    ∃ n dt n' r', g.find? t = some n ∧ st ≠ .waiting ∧ alookup s n.out = some dt ∧
      g' = { g.setNode n' with ready := r' } ∧ DepStep g n s st dt n' r' turned ∧
      (dt.hard = true → n'.status = St.waiting → allSoft n'.out → n.id ∈ r') := by
  unfold Graph.depResolved at h
  split at h
  · cases h
  rename_i n hn
  split at h
  · cases h
  rename_i hst
  split at h
  · split at h <;> cases h
  rename_i dt hdt
  refine ⟨n, dt, ?_⟩
  simp only [Graph.markReady] at h
  split at h
  · -- soft
    rename_i hh
    simp only [Except.ok.injEq, Prod.mk.injEq] at h
    obtain ⟨rfl, rfl⟩ := h
    have hh' : dt.hard = false := by simpa using hh
    exact ⟨_, g.ready, hn, hst, hdt, rfl, DepStep.soft hh', fun h1 => by rw [hh'] at h1; cases h1⟩
  rename_i hh
  have hh : dt.hard = true := by simpa using hh
  split at h
  · rename_i hc
    obtain ⟨hu, hcand⟩ := hc
    subst hu
    simp only [reduceCtorEq, ↓reduceIte] at h
    split at h
    · rename_i hc2
      have hc2 : dt = .and ∨ (dt = .or ∧ hasDep .or (aerase s n.out) = false) := by
        rcases hc2 with h1 | h1
        · exact Or.inl h1
        · cases dt <;> simp_all [Dep.hard]
      split at h
      · rename_i hs
        simp only [Except.ok.injEq, Prod.mk.injEq] at h
        obtain ⟨rfl, rfl⟩ := h
        refine ⟨_, _, hn, hst, hdt, ?_, DepStep.failW rfl hc2 hs, fun _ h2 => by cases h2⟩
        simp [Graph.setNode]
        intro a _; by_cases ha : a.id = n.id <;> simp [ha]
      · rename_i hs
        simp only [Except.ok.injEq, Prod.mk.injEq] at h
        obtain ⟨rfl, rfl⟩ := h
        refine ⟨_, _, hn, hst, hdt, ?_, DepStep.failU rfl hc2 hs, fun _ h2 => ?_⟩
        · simp [Graph.setNode]
          intro a _; by_cases ha : a.id = n.id <;> simp [ha]
        · simp only at h2
          rw [hs] at h2; cases h2
      · cases h
    · rename_i hc2
      have hc2 : dt = .or ∧ hasDep .or (aerase s n.out) = true := by
        cases dt <;> simp_all [Dep.hard]
      simp only [Except.ok.injEq, Prod.mk.injEq] at h
      obtain ⟨rfl, rfl⟩ := h
      refine ⟨_, _, hn, hst, hdt, rfl, DepStep.orWait rfl hc2.1 hc2.2, fun _ _ h3 => ?_⟩
      exfalso
      obtain ⟨p, hp, hp2⟩ := hasDep_iff.1 hc2.2
      have := h3 p hp
      rw [hp2] at this
      cases this
  · rename_i hc
    have hc : st = .resolved ∨ (st = .unres ∧ dt = .cand) := by
      cases st <;> simp_all
    by_cases hor : dt = .or
    · subst hor
      simp only [↓reduceIte, Bool.or_false] at h
      split at h
      · rename_i hr
        simp only [Except.ok.injEq, Prod.mk.injEq] at h
        obtain ⟨rfl, rfl⟩ := h
        refine ⟨_, _, hn, hst, hdt, ?_, DepStep.okReady (obviate .or (aerase s n.out)) hh hc (by simp) ?_,
          fun _ _ _ => mem_insertSet.2 (Or.inl rfl)⟩
        · simp [Graph.setNode]
          intro a _; by_cases ha : a.id = n.id <;> simp [ha]
        · simp only [Bool.not_eq_eq_eq_not, Bool.not_true, Bool.or_eq_false_iff] at hr
          exact soft_of_no_hard hr.1 hr.2 (fun p hp => obviate_ne (by simp) hp)
      · rename_i hr
        simp only [Except.ok.injEq, Prod.mk.injEq] at h
        obtain ⟨rfl, rfl⟩ := h
        refine ⟨_, _, hn, hst, hdt, ?_, DepStep.okWait (obviate .or (aerase s n.out)) hh hc (by simp),
          fun _ _ h3 => ?_⟩
        · simp [Graph.setNode]
          intro a _; by_cases ha : a.id = n.id <;> simp [ha]
        · exfalso
          simp only [↓reduceIte] at h3
          apply hr
          simp only [Bool.not_eq_eq_eq_not, Bool.not_true, Bool.or_eq_false_iff]
          refine ⟨?_, ?_⟩
          · apply hasDep_false_iff.2
            intro p hp hp2
            have := h3 p hp; rw [hp2] at this; cases this
          · apply hasDep_false_iff.2
            intro p hp hp2
            have := h3 p hp; rw [hp2] at this; cases this
    · simp only [hor, ↓reduceIte] at h
      split at h
      · rename_i hr
        simp only [Except.ok.injEq, Prod.mk.injEq] at h
        obtain ⟨rfl, rfl⟩ := h
        refine ⟨_, _, hn, hst, hdt, ?_, DepStep.okReady (aerase s n.out) hh hc (by simp [hor]) ?_,
          fun _ _ _ => mem_insertSet.2 (Or.inl rfl)⟩
        · simp [Graph.setNode]
          intro a _; by_cases ha : a.id = n.id <;> simp [ha]
        · simp only [Bool.not_eq_eq_eq_not, Bool.not_true, Bool.or_eq_false_iff] at hr
          exact soft_of_no_hard hr.1.1 hr.1.2 (hasDep_false_iff.1 hr.2)
      · rename_i hr
        simp only [Except.ok.injEq, Prod.mk.injEq] at h
        obtain ⟨rfl, rfl⟩ := h
        refine ⟨_, _, hn, hst, hdt, ?_, DepStep.okWait (aerase s n.out) hh hc (by simp [hor]),
          fun _ _ h3 => ?_⟩
        · simp [Graph.setNode]
          intro a _; by_cases ha : a.id = n.id <;> simp [ha]
        · exfalso
          simp only [hor, ↓reduceIte] at h3
          apply hr
          simp only [Bool.not_eq_eq_eq_not, Bool.not_true, Bool.or_eq_false_iff]
          refine ⟨⟨?_, ?_⟩, ?_⟩ <;>
          · apply hasDep_false_iff.2
            intro p hp hp2
            have := h3 p hp; rw [hp2] at this; cases this

/-! ## the graph advances -/

/-- nothing that becomes processable is forgotten: see the header -/
structure Graph.Adv (g g' : Graph ι) : Prop where
  ready : ∀ x ∈ g.ready, x ∈ g'.ready
  node : ∀ x n', g'.find? x = some n' → ∃ n, g.find? x = some n ∧
    (n'.status = St.waiting → allSoft n'.out → x ∈ g'.ready ∨ (n.status = St.waiting ∧ allSoft n.out)) ∧
    (n'.status = St.unres → x ∈ g'.ready ∨ n.status = St.unres)

theorem Graph.Adv.refl (g : Graph ι) : g.Adv g :=
  ⟨fun _ h => h, fun x n' hn => ⟨n', hn, fun h1 h2 => Or.inr ⟨h1, h2⟩, fun h => Or.inr h⟩⟩

theorem Graph.Adv.trans {a b c : Graph ι} (h1 : a.Adv b) (h2 : b.Adv c) : a.Adv c := by
  refine ⟨fun x hx => h2.ready x (h1.ready x hx), ?_⟩
  intro x n2 hn2
  obtain ⟨n1, hn1, hw1, hu1⟩ := h2.node x n2 hn2
  obtain ⟨n0, hn0, hw0, hu0⟩ := h1.node x n1 hn1
  refine ⟨n0, hn0, ?_, ?_⟩
  · intro hw hs
    rcases hw1 hw hs with h | ⟨h3, h4⟩
    · exact Or.inl h
    · rcases hw0 h3 h4 with h | h
      · exact Or.inl (h2.ready x h)
      · exact Or.inr h
  · intro hu
    rcases hu1 hu with h | h
    · exact Or.inl h
    · rcases hu0 h with h | h
      · exact Or.inl (h2.ready x h)
      · exact Or.inr h

/-- an entry with the key `s` of a duplicate-free list is the one `alookup` finds -/
theorem alookup_unique {s : ι} {l : List (ι × Dep)} {dt : Dep} (hnd : (keys l).Nodup) (h : alookup s l = some dt)
    {p : ι × Dep} (hp : p ∈ l) (hp1 : p.1 = s) : p = (s, dt) := by
  induction l with
  | nil => cases hp
  | cons q l ih =>
    obtain ⟨k, v⟩ := q
    simp only [keys, List.map_cons, List.nodup_cons] at hnd
    simp only [alookup] at h
    split at h
    · rename_i hk
      cases h
      rcases List.mem_cons.1 hp with hp | hp
      · rw [hp, hk]
      · exfalso
        apply hnd.1
        rw [← hk, ← hp1]
        exact List.mem_map_of_mem hp
    · rename_i hk
      rcases List.mem_cons.1 hp with hp | hp
      · exfalso
        rw [hp] at hp1
        exact hk hp1.symm
      · exact ih hnd.2 h hp

theorem Graph.depResolved_adv {g g' : Graph ι} {t s : ι} {st : St} {turned : Bool}
    (hnd : ∀ n, g.find? t = some n → (keys n.out).Nodup)
    (h : g.depResolved t s st = .ok (g', turned)) : g.Adv g' := by
  obtain ⟨n, dt, n', r', hn, hst, hdt, rfl, hstep, hready⟩ := Graph.depResolved_ok_ready h
  obtain ⟨hid, _, _, hstatus⟩ := hstep.facts
  have hnid : n.id = t := (Graph.find?_some hn).2
  have hf := Graph.find?_replace hn (hid.trans hnid) r'
  have hrsub : ∀ x ∈ g.ready, x ∈ r' := by
    intro x hx
    rcases hstep.ready_cases with h1 | h1 <;> rw [h1]
    · exact hx
    · exact mem_insertSet.2 (Or.inr hx)
  refine ⟨hrsub, ?_⟩
  intro x m hm
  rw [hf] at hm
  split at hm
  · rename_i hxt
    subst hxt
    cases hm
    refine ⟨n, hn, ?_, ?_⟩
    · intro hw hsoft
      by_cases hh : dt.hard = true
      · left
        have := hready hh hw hsoft
        rw [hnid] at this
        exact this
      · have hh : dt.hard = false := by simpa using hh
        obtain ⟨h1, h2, h3⟩ := hstep.of_soft hh
        right
        refine ⟨h2 ▸ hw, ?_⟩
        intro p hp
        by_cases hps : p.1 = s
        · rw [alookup_unique (hnd n hn) hdt hp hps]
          exact hh
        · apply hsoft
          rw [h1]
          exact mem_aerase.2 ⟨hp, hps⟩
    · intro hu
      rcases hstatus with ⟨_, h2⟩ | ⟨_, _, _⟩
      · right; rw [← h2]; exact hu
      · left
        have : r' = insertSet n.id g.ready := by
          cases hstep <;> simp_all
        rw [this, hnid]
        exact mem_insertSet.2 (Or.inl rfl)
  · exact ⟨m, hm, fun h1 h2 => Or.inr ⟨h1, h2⟩, fun h => Or.inr h⟩

theorem Graph.propagate_adv (f : Nat) {g g' : Graph ι} {msgs : List (ι × ι × St)} (ha : g.Aux msgs)
    (h : Graph.propagate f g msgs = .ok g') : g.Adv g' := by
  induction f generalizing g msgs with
  | zero =>
    cases msgs with
    | nil => simp only [Graph.propagate, Except.ok.injEq] at h; subst h; exact Graph.Adv.refl g
    | cons x rest => simp [Graph.propagate] at h
  | succ f ih =>
    cases msgs with
    | nil => simp only [Graph.propagate, Except.ok.injEq] at h; subst h; exact Graph.Adv.refl g
    | cons y rest =>
      obtain ⟨tgt, src, st⟩ := y
      simp only [Graph.propagate] at h
      split at h
      · cases h
      · rename_i g1 turned hd
        have h1 := Graph.depResolved_adv (fun n hn => (ha.node_ok tgt n hn).out_nodup) hd
        exact h1.trans (ih (ha.depResolved hd) h)

/-- a successful explicit resolution advances the graph, for every node but the resolved one -/
theorem Graph.resolve_adv {g g' : Graph ι} {id : ι} {st : St} (hinv : g.Inv) (hok : g.resolve id st = .ok g') :
    (∀ x ∈ g.ready, x ∈ g'.ready) ∧
    ∀ x n', g'.find? x = some n' → x ≠ id → ∃ n, g.find? x = some n ∧
      (n'.status = St.waiting → allSoft n'.out → x ∈ g'.ready ∨ (n.status = St.waiting ∧ allSoft n.out)) ∧
      (n'.status = St.unres → x ∈ g'.ready ∨ n.status = St.unres) := by
  have hrefl := Graph.Adv.refl g
  unfold Graph.resolve at hok
  split at hok
  · cases hok
  rename_i m hm
  split at hok
  · cases hok
  · split at hok
    · cases hok; exact ⟨hrefl.ready, fun x n' hn _ => hrefl.node x n' hn⟩
    · cases hok
  · rename_i hmw
    split at hok
    · cases hok; exact ⟨hrefl.ready, fun x n' hn _ => hrefl.node x n' hn⟩
    · rename_i hst
      have ha := hinv.toAux.setStatus hm hmw hst
      rw [List.append_nil] at ha
      have hadv := Graph.propagate_adv _ ha hok
      have hmid := (Graph.find?_some hm).2
      refine ⟨fun x hx => hadv.ready x hx, ?_⟩
      intro x n' hn' hx
      obtain ⟨n, hn, h1, h2⟩ := hadv.node x n' hn'
      rw [Graph.find?_setNode_ne (by simpa [hmid] using hx)] at hn
      exact ⟨n, hn, h1, h2⟩

/-- resolving a waiting node that has no successors only sets its status -/
theorem Graph.resolve_sink {g : Graph ι} {id : ι} {st : St} {n : Node ι} (hn : g.find? id = some n)
    (hw : n.status = St.waiting) (hst : st ≠ St.waiting) (hsink : g.succs id = []) :
    g.resolve id st = .ok (g.setNode { n with status := st }) := by
  unfold Graph.resolve
  rw [hn]
  simp only [hw, hst, ↓reduceIte]
  have : (g.setNode { n with status := st }).succs id = [] := hsink
  rw [this]
  rfl

/-- `PushStartingNodes` puts every node without an outstanding hard dependency into the ready set -/
theorem Graph.mem_pushStarting {g : Graph ι} {n : Node ι} (hn : n ∈ g.nodes) (hs : allSoft n.out) :
    n.id ∈ g.pushStarting.ready := by
  unfold Graph.pushStarting
  simp only
  have hmem : n ∈ g.nodes.filter (fun n => !(n.out.any (fun p => p.2.hard))) := by
    rw [List.mem_filter]
    refine ⟨hn, ?_⟩
    simp only [Bool.not_eq_eq_eq_not, Bool.not_true, List.any_eq_false]
    intro p hp
    rw [hs p hp]
    decide
  generalize g.nodes.filter (fun n => !(n.out.any (fun p => p.2.hard))) = l at hmem
  generalize g.ready = r
  induction l generalizing r with
  | nil => cases hmem
  | cons a l ih =>
    rw [List.foldl_cons]
    rcases List.mem_cons.1 hmem with rfl | hmem
    · have hgrow : ∀ (l : List (Node ι)) (r : List ι) (x : ι), x ∈ r → x ∈ l.foldl (fun r n => insertSet n.id r) r := by
        intro l
        induction l with
        | nil => intro r x hx; exact hx
        | cons b l ih2 => intro r x hx; exact ih2 _ x (mem_insertSet.2 (Or.inr hx))
      exact hgrow l _ _ (mem_insertSet.2 (Or.inl rfl))
    · exact ih hmem _

/-! ## counting -/

theorem filter_length_le {α : Type} (l : List α) (p p' : α → Bool) (h : ∀ x ∈ l, p' x = true → p x = true) :
    (l.filter p').length ≤ (l.filter p).length := by
  induction l with
  | nil => exact Nat.le_refl _
  | cons a l ih =>
    have ih' := ih (fun x hx => h x (List.mem_cons_of_mem _ hx))
    have ha := h a List.mem_cons_self
    simp only [List.filter_cons]
    cases hp' : p' a
    · cases hp : p a
      · simpa using ih'
      · simp only [Bool.false_eq_true, ↓reduceIte, List.length_cons]; omega
    · rw [ha hp']
      simp only [↓reduceIte, List.length_cons]; omega

theorem filter_length_lt {α : Type} (l : List α) (p p' : α → Bool) (h : ∀ x ∈ l, p' x = true → p x = true)
    (hx : ∃ x ∈ l, p x = true ∧ p' x = false) : (l.filter p').length < (l.filter p).length := by
  induction l with
  | nil => obtain ⟨x, hx, _⟩ := hx; cases hx
  | cons a l ih =>
    have hle := filter_length_le l p p' (fun x hx => h x (List.mem_cons_of_mem _ hx))
    have ha := h a List.mem_cons_self
    obtain ⟨x, hxm, hpx, hpx'⟩ := hx
    simp only [List.filter_cons]
    rcases List.mem_cons.1 hxm with rfl | hxm
    · rw [hpx, hpx']
      simp only [Bool.false_eq_true, ↓reduceIte, List.length_cons]; omega
    · have ih' := ih (fun x hx => h x (List.mem_cons_of_mem _ hx)) ⟨x, hxm, hpx, hpx'⟩
      cases hp' : p' a
      · cases hp : p a
        · simpa using ih'
        · simp only [Bool.false_eq_true, ↓reduceIte, List.length_cons]; omega
      · rw [ha hp']
        simp only [↓reduceIte, List.length_cons]; omega

/-! ## acyclic graphs: induction along the edges -/

theorem hasCyclesAux_rank (f : Nat) : ∀ (remaining : List ι) (edges : List (ι × ι × Dep)),
    (∀ e ∈ edges, e.1 ∈ remaining ∧ e.2.1 ∈ remaining) →
    Graph.hasCyclesAux f remaining edges = false →
    ∃ rank : ι → Nat, ∀ e ∈ edges, rank e.1 < rank e.2.1 := by
  induction f with
  | zero =>
    intro remaining edges hen h
    simp only [Graph.hasCyclesAux, Bool.not_eq_eq_eq_not, Bool.not_false, List.isEmpty_iff] at h
    subst h
    exact ⟨fun _ => 0, fun e he => nomatch (hen e he).1⟩
  | succ f ih =>
    intro remaining edges hen h
    simp only [Graph.hasCyclesAux] at h
    split at h
    · simp only [Bool.not_eq_eq_eq_not, Bool.not_false, List.isEmpty_iff] at h
      subst h
      exact ⟨fun _ => 0, fun e he => nomatch (hen e he).1⟩
    · generalize hfree : remaining.filter (fun n => !(edges.any (fun e => e.2.1 = n))) = free at h
      have hnotfree : ∀ e ∈ edges, e.2.1 ∉ free := by
        intro e he hm
        rw [← hfree, List.mem_filter] at hm
        have := hm.2
        simp only [Bool.not_eq_eq_eq_not, Bool.not_true, List.any_eq_false, decide_eq_true_eq] at this
        exact this e he rfl
      obtain ⟨rank', hr⟩ := ih _ _ (by
        intro e he
        simp only [List.mem_filter, decide_eq_true_eq] at he ⊢
        exact ⟨⟨(hen e he.1).1, he.2.1⟩, ⟨(hen e he.1).2, he.2.2⟩⟩) h
      refine ⟨fun x => if x ∈ free then 0 else rank' x + 1, ?_⟩
      intro e he
      have h2 := hnotfree e he
      simp only [h2, ↓reduceIte]
      by_cases h1 : e.1 ∈ free
      · simp only [h1, ↓reduceIte]; omega
      · simp only [h1, ↓reduceIte]
        have := hr e (by
          simp only [List.mem_filter, decide_eq_true_eq]
          exact ⟨he, h1, h2⟩)
        omega

/-- `HasCycles = false` yields a rank that increases along every edge -/
theorem Graph.acyclic_rank {g : Graph ι} (hen : ∀ e ∈ g.edges, g.has e.1 = true ∧ g.has e.2.1 = true)
    (hc : g.hasCycles = false) : ∃ rank : ι → Nat, ∀ e ∈ g.edges, rank e.1 < rank e.2.1 := by
  have hmem : ∀ x, g.has x = true → x ∈ g.nodes.map (·.id) := by
    intro x hx
    obtain ⟨n, hn⟩ := Graph.has_iff.1 hx
    obtain ⟨h1, h2⟩ := Graph.find?_some hn
    exact List.mem_map.2 ⟨n, h1, h2⟩
  exact hasCyclesAux_rank _ _ _ (fun e he => ⟨hmem _ (hen e he).1, hmem _ (hen e he).2⟩) hc

/-- induction along the edges of an acyclic graph: a property that holds of a node whenever it holds of all its
predecessors holds of every node -/
theorem Graph.dag_induction {g : Graph ι} (hen : ∀ e ∈ g.edges, g.has e.1 = true ∧ g.has e.2.1 = true)
    (hc : g.hasCycles = false) (Q : ι → Prop) (hstep : ∀ x, (∀ e ∈ g.edges, e.2.1 = x → Q e.1) → Q x) :
    ∀ x, Q x := by
  obtain ⟨rank, hr⟩ := Graph.acyclic_rank hen hc
  have : ∀ k x, rank x < k → Q x := by
    intro k
    induction k with
    | zero => intro x hx; omega
    | succ k ih =>
      intro x hx
      apply hstep
      intro e he hex
      apply ih
      have := hr e he
      rw [hex] at this
      omega
  exact fun x => this (rank x + 1) x (Nat.lt_succ_self _)

/-! ## unresolvable nodes have a failed required dependency -/

/-- node `x` has a failed required dependency: an unresolvable `and` predecessor, or an `or` group all of whose
members are unresolvable -/
def Graph.Just (g : Graph ι) (x : ι) : Prop :=
  (∃ e ∈ g.edges, e.2.1 = x ∧ e.2.2 = Dep.and ∧ ∃ m, g.find? e.1 = some m ∧ m.status = St.unres) ∨
  ((∃ e ∈ g.edges, e.2.1 = x ∧ e.2.2 = Dep.or) ∧
    ∀ e ∈ g.edges, e.2.1 = x → e.2.2 = Dep.or → ∃ m, g.find? e.1 = some m ∧ m.status = St.unres)

/-- every unresolvable node outside `ex` (the nodes that are failed explicitly) has a failed required dependency -/
def Graph.UJ (g : Graph ι) (ex : ι → Prop) : Prop :=
  ∀ x n, g.find? x = some n → ¬ ex x → n.status = St.unres → g.Just x

/-- `Just` only depends on the edges and on which nodes are unresolvable -/
theorem Graph.Just.mono {g g' : Graph ι} {x : ι} (h : g.Just x) (hed : g'.edges = g.edges)
    (hst : ∀ y m, g.find? y = some m → m.status = St.unres → ∃ m', g'.find? y = some m' ∧ m'.status = St.unres) :
    g'.Just x := by
  rcases h with ⟨e, he, h1, h2, m, hm, hs⟩ | ⟨⟨e, he, h1, h2⟩, hall⟩
  · exact Or.inl ⟨e, hed ▸ he, h1, h2, hst _ m hm hs⟩
  · refine Or.inr ⟨⟨e, hed ▸ he, h1, h2⟩, ?_⟩
    intro e' he' h1' h2'
    rw [hed] at he'
    obtain ⟨m, hm, hs⟩ := hall e' he' h1' h2'
    exact hst _ m hm hs

/-- a node that is unresolvable after a successful `depResolved` was so before, or is the target and newly turned -/
theorem Graph.depResolved_unres {g g' : Graph ι} {t s : ι} {st : St} {turned : Bool}
    (h : g.depResolved t s st = .ok (g', turned)) {x : ι} {n' : Node ι} (hn : g'.find? x = some n')
    (hs : n'.status = St.unres) : (∃ n, g.find? x = some n ∧ n.status = St.unres) ∨ (x = t ∧ turned = true) := by
  obtain ⟨m, dt, m', r', hm, _, _, rfl, hstep⟩ := Graph.depResolved_ok h
  obtain ⟨hid, _, _, hstatus⟩ := hstep.facts
  have hmt := (Graph.find?_some hm).2
  rw [Graph.find?_replace hm (hid.trans hmt) r'] at hn
  split at hn
  · rename_i hxt
    cases hn
    rcases hstatus with ⟨_, h2⟩ | ⟨h1, _, _⟩
    · exact Or.inl ⟨m, hxt ▸ hm, h2 ▸ hs⟩
    · exact Or.inr ⟨hxt, h1⟩
  · exact Or.inl ⟨n', hn, hs⟩

/-- the target of a `depResolved` that newly turned unresolvable has a failed required dependency -/
theorem Graph.Aux.depResolved_just {g g1 : Graph ι} {t s : ι} {st : St} {rest : List (ι × ι × St)}
    (h : g.Aux ((t, s, st) :: rest)) (hd : g.depResolved t s st = .ok (g1, true)) : g1.Just t := by
  obtain ⟨n, dt, n', r', hn, hst, hdt, rfl, hstep⟩ := Graph.depResolved_ok hd
  have hs : (s, dt) ∈ n.out := alookup_some_mem hdt
  obtain ⟨hid, _, _, _⟩ := hstep.facts
  have hnid : n.id = t := (Graph.find?_some hn).2
  have hf := Graph.find?_replace hn (hid.trans hnid) r'
  obtain ⟨hstw, ms, hms, hmss⟩ := h.msg_st _ List.mem_cons_self
  simp only at hstw hms hmss
  have hok := h.node_ok t n hn
  -- the case of the step
  have hcase : st = St.unres ∧ (dt = .and ∨ (dt = .or ∧ hasDep .or (aerase s n.out) = false)) ∧
      n.status = St.waiting := by
    cases hstep <;> simp_all
  obtain ⟨rfl, hdtc, hnw⟩ := hcase
  -- a node that is unresolvable in `g` is not `t`, hence still there
  have hkeep : ∀ y m, g.find? y = some m → m.status = St.unres →
      ∃ m', Graph.find? { g.setNode n' with ready := r' } y = some m' ∧ m'.status = St.unres := by
    intro y m hm hmu
    rw [hf]
    split
    · rename_i hyt
      rw [hyt, hn] at hm; cases hm
      rw [hnw] at hmu; cases hmu
    · exact ⟨m, hm, hmu⟩
  obtain ⟨d, hed, hentry⟩ := hok.out_edge _ hs
  simp only at hed hentry
  rw [hnid] at hed
  rcases hdtc with rfl | ⟨rfl, hno⟩
  · have := entryOk_and_left hentry
    subst this
    exact Or.inl ⟨_, hed, rfl, rfl, hkeep s ms hms hmss⟩
  · have := entryOk_or_left hentry
    subst this
    refine Or.inr ⟨⟨_, hed, rfl, rfl⟩, ?_⟩
    intro e he he2 hor
    show ∃ m, Graph.find? { g.setNode n' with ready := r' } e.1 = some m ∧ m.status = St.unres
    have he' : e ∈ g.edges := he
    obtain ⟨m, hm⟩ := Graph.has_iff.1 (h.edge_nodes e he').1
    have hnt : g.find? e.2.1 = some n := he2 ▸ hn
    -- no resolved member of the group is recorded: the entry of `s` still has the type `or`
    have hnores : ∀ q ∈ n.res, q.2 ≠ Dep.or := fun q hq hq2 => hok.or_excl ⟨q, hq, hq2⟩ _ hs rfl
    have hnoobv : ∀ p ∈ n.out ++ n.res, p.1 = e.1 → p.2 ≠ Dep.obv := by
      intro p hp hp1 hp2
      obtain ⟨q, hq, hq2⟩ := hok.or_obviated p hp hp2 ⟨Dep.or, by
        rw [hp1, hnid, ← he2, ← hor]; exact he', rfl⟩
      exact hnores q hq hq2
    suffices hmu : m.status = St.unres from hkeep _ m hm hmu
    by_cases hes : e.1 = s
    · rw [hes, hms] at hm; cases hm; exact hmss
    · by_cases hin : e.1 ∈ keys n.out
      · exfalso
        obtain ⟨p, hp, hp1, hpok⟩ := entry_type h.edges_nodup hok.out_edge he' (he2.trans hnid.symm) hin
        rw [hor] at hpok
        rcases entryOk_or hpok with h2 | h2
        · have := hasDep_false_iff.1 hno p (mem_aerase.2 ⟨hp, by rw [hp1]; exact hes⟩)
          exact this h2
        · exact hnoobv p (List.mem_append_left _ hp) hp1 h2
      · rcases h.e_done e he' m n hm hnt hin with ⟨_, hr⟩ | ⟨hu, _⟩
        · exfalso
          obtain ⟨q, hq, hq1, hqok⟩ := entry_type h.edges_nodup hok.res_edge he' (he2.trans hnid.symm) hr
          rw [hor] at hqok
          rcases entryOk_or hqok with h2 | h2
          · exact hnores q hq h2
          · exact hnoobv q (List.mem_append_right _ hq) hq1 h2
        · exact hu

theorem Graph.depResolved_unres_keep {g g' : Graph ι} {t s : ι} {st : St} {turned : Bool}
    (h : g.depResolved t s st = .ok (g', turned)) (y : ι) (m : Node ι) (hm : g.find? y = some m)
    (hs : m.status = St.unres) : ∃ m', g'.find? y = some m' ∧ m'.status = St.unres := by
  obtain ⟨m', h1, h2⟩ := Graph.depResolved_status h hm (by rw [hs]; decide)
  exact ⟨m', h1, h2.trans hs⟩

theorem Graph.propagate_unres_keep (f : Nat) {g g' : Graph ι} {msgs : List (ι × ι × St)}
    (h : Graph.propagate f g msgs = .ok g') (y : ι) (m : Node ι) (hm : g.find? y = some m)
    (hs : m.status = St.unres) : ∃ m', g'.find? y = some m' ∧ m'.status = St.unres := by
  obtain ⟨m', h1, h2⟩ := Graph.propagate_status f h hm (by rw [hs]; decide)
  exact ⟨m', h1, h2.trans hs⟩

/-- after a propagation, an unresolvable node was unresolvable before or has a failed required dependency -/
theorem Graph.propagate_unres (f : Nat) {g g' : Graph ι} {msgs : List (ι × ι × St)} (ha : g.Aux msgs)
    (h : Graph.propagate f g msgs = .ok g') {x : ι} {n' : Node ι} (hn : g'.find? x = some n')
    (hs : n'.status = St.unres) : (∃ n, g.find? x = some n ∧ n.status = St.unres) ∨ g'.Just x := by
  induction f generalizing g msgs with
  | zero =>
    cases msgs with
    | nil => simp only [Graph.propagate, Except.ok.injEq] at h; subst h; exact Or.inl ⟨n', hn, hs⟩
    | cons x rest => simp [Graph.propagate] at h
  | succ f ih =>
    cases msgs with
    | nil => simp only [Graph.propagate, Except.ok.injEq] at h; subst h; exact Or.inl ⟨n', hn, hs⟩
    | cons y rest =>
      obtain ⟨tgt, src, st⟩ := y
      simp only [Graph.propagate] at h
      split at h
      · cases h
      · rename_i g1 turned hd
        rcases ih (ha.depResolved hd) h with ⟨n1, hn1, hs1⟩ | hj
        · rcases Graph.depResolved_unres hd hn1 hs1 with h0 | ⟨rfl, rfl⟩
          · exact Or.inl h0
          · right
            exact (ha.depResolved_just hd).mono (Graph.propagate_frame _ h).1
              (fun y m hm hmu => Graph.propagate_unres_keep _ h y m hm hmu)
        · exact Or.inr hj

/-- a successful explicit resolution keeps `UJ`, provided a node that is failed explicitly is in `ex` -/
theorem Graph.resolve_uj {g g' : Graph ι} {id : ι} {st : St} {ex : ι → Prop} (hinv : g.Inv) (huj : g.UJ ex)
    (hok : g.resolve id st = .ok g') (hex : st = St.unres → ex id) : g'.UJ ex := by
  have hmono : ∀ y m, g.find? y = some m → m.status = St.unres → ∃ m', g'.find? y = some m' ∧ m'.status = St.unres := by
    intro y m hm hmu
    obtain ⟨m', h1, h2⟩ := Graph.resolve_status_mono g g' id y st m hinv hok hm (by rw [hmu]; decide)
    exact ⟨m', h1, h2.trans hmu⟩
  have hed := (Graph.resolve_frame g g' id st hok).1
  intro x n' hn' hnex hu
  have hold : (∃ n, g.find? x = some n ∧ n.status = St.unres) → g'.Just x := by
    rintro ⟨n, hn, hs⟩
    exact (huj x n hn hnex hs).mono hed hmono
  unfold Graph.resolve at hok
  split at hok
  · cases hok
  rename_i m hm
  split at hok
  · cases hok
  · split at hok
    · cases hok; exact hold ⟨n', hn', hu⟩
    · cases hok
  · rename_i hmw
    split at hok
    · cases hok; exact hold ⟨n', hn', hu⟩
    · rename_i hst
      have ha := hinv.toAux.setStatus hm hmw hst
      rw [List.append_nil] at ha
      have hmid := (Graph.find?_some hm).2
      rcases Graph.propagate_unres _ ha hok hn' hu with ⟨n1, hn1, hs1⟩ | hj
      · by_cases hx : x = id
        · exfalso
          subst hx
          have h1 : (g.setNode { m with status := st }).find? x = some { m with status := st } := by
            have := Graph.find?_setNode_self (g := g) (n := m) (n' := { m with status := st }) (by simpa [hmid] using hm)
            simpa [hmid] using this
          rw [h1] at hn1
          cases hn1
          exact hnex (hex hs1)
        · rw [Graph.find?_setNode_ne (by simpa [hmid] using hx)] at hn1
          exact hold ⟨n1, hn1, hs1⟩
      · exact hj

/-- the converse of `UJ` for `and` edges is part of `Graph.Inv`; here: a resolved node has no failed required
dependency (with resolved nodes closed) -- used to identify the producible outputs -/
theorem Graph.Just.not_resolved {g : Graph ι} (hinv : g.Inv) {x : ι} {n : Node ι} (hn : g.find? x = some n)
    (hj : g.Just x) : n.status = St.unres := by
  obtain ⟨hnm, hnid⟩ := Graph.find?_some hn
  rcases hj with ⟨e, he, h1, h2, m, hm, hs⟩ | ⟨⟨e, he, h1, h2⟩, hall⟩
  · exact hinv.and_unres e he h2 m n hm (h1 ▸ hn) hs
  · refine hinv.or_unres n hnm ⟨e, he, h1.trans hnid.symm, h2⟩ ?_
    intro e' he' h1' h2' m hm
    obtain ⟨m', hm', hs'⟩ := hall e' he' (h1'.trans hnid) h2'
    rw [hm] at hm'; cases hm'
    exact hs'

end Arca.Model
