/-
Graph-level and data-model-level facts used by `LoopDag.lean` that are not part of `DgraphInv.lean`:
* a successful `resolve` never makes a node other than the explicitly resolved one `resolved`
  (propagation only ever turns `waiting` nodes `unres`);
* after a successful `resolve id st` (st ≠ waiting) the node `id` has status `st`;
* node ids computed by the run loop for stage outputs are never `"input"`;
* `lookup`-level facts about `setStageData`.
-/
import Arca.Model.RunLoop
import Arca.Proofs.DgraphInv

set_option linter.unusedSectionVars false

namespace Arca.Model

section Graph
variable {ι : Type} [DecidableEq ι]

/-- `find?` ignores the ready set -/
theorem Graph.find?_ready (g : Graph ι) (r : List ι) (x : ι) :
    ({ g with ready := r } : Graph ι).find? x = g.find? x := rfl

/-- a successful `depResolved` never makes a node `resolved` -/
theorem Graph.depResolved_resolved {g g' : Graph ι} {t s : ι} {st : St} {turned : Bool}
    (h : g.depResolved t s st = .ok (g', turned)) {x : ι} {n' : Node ι} (hn : g'.find? x = some n')
    (hs : n'.status = St.resolved) : ∃ n, g.find? x = some n ∧ n.status = St.resolved := by
  obtain ⟨m, dt, m', r', hm, _, _, rfl, hstep⟩ := Graph.depResolved_ok h
  have hid : m'.id = m.id ∧ (m'.status = m.status ∨ m'.status = St.unres) := by
    cases hstep <;> simp_all
  have hmt := (Graph.find?_some hm).2
  rw [Graph.find?_ready] at hn
  by_cases hx : x = m'.id
  · subst hx
    have hxt : m'.id = t := hid.1.trans hmt
    have h1 : (g.setNode m').find? m'.id = some m' := Graph.find?_setNode_self (hxt ▸ hm)
    rw [h1] at hn
    cases hn
    refine ⟨m, hxt ▸ hm, ?_⟩
    rcases hid.2 with h2 | h2
    · rw [← h2]; exact hs
    · rw [h2] at hs; cases hs
  · rw [Graph.find?_setNode_ne hx] at hn
    exact ⟨n', hn, hs⟩

theorem Graph.propagate_resolved (f : Nat) {g g' : Graph ι} {msgs : List (ι × ι × St)}
    (h : Graph.propagate f g msgs = .ok g') {x : ι} {n' : Node ι} (hn : g'.find? x = some n')
    (hs : n'.status = St.resolved) : ∃ n, g.find? x = some n ∧ n.status = St.resolved := by
  induction f generalizing g msgs with
  | zero =>
    cases msgs with
    | nil => simp only [Graph.propagate, Except.ok.injEq] at h; subst h; exact ⟨n', hn, hs⟩
    | cons x rest => simp [Graph.propagate] at h
  | succ f ih =>
    cases msgs with
    | nil => simp only [Graph.propagate, Except.ok.injEq] at h; subst h; exact ⟨n', hn, hs⟩
    | cons y rest =>
      obtain ⟨tgt, src, st⟩ := y
      simp only [Graph.propagate] at h
      split at h
      · cases h
      · rename_i g1 turned hd
        obtain ⟨n1, hn1, hs1⟩ := ih h
        exact Graph.depResolved_resolved hd hn1 hs1

/-- a successful explicit resolution makes at most the resolved node itself `resolved` -/
theorem Graph.resolve_resolved_only (g g' : Graph ι) (id x : ι) (st : St) (n' : Node ι)
    (hok : g.resolve id st = .ok g') (hn : g'.find? x = some n') (hs : n'.status = St.resolved) :
    (x = id ∧ st = St.resolved) ∨ ∃ n, g.find? x = some n ∧ n.status = St.resolved := by
  unfold Graph.resolve at hok
  split at hok
  · cases hok
  rename_i m hm
  split at hok
  · cases hok
  · split at hok
    · cases hok; exact .inr ⟨n', hn, hs⟩
    · cases hok
  · rename_i hmw
    split at hok
    · cases hok; exact .inr ⟨n', hn, hs⟩
    · have hmid := (Graph.find?_some hm).2
      obtain ⟨n1, hn1, hs1⟩ := Graph.propagate_resolved _ hok hn hs
      by_cases hx : x = id
      · subst hx
        have h1 : (g.setNode { m with status := st }).find? x = some { m with status := st } := by
          have := Graph.find?_setNode_self (g := g) (n := m) (n' := { m with status := st }) (by simpa [hmid] using hm)
          simpa [hmid] using this
        rw [h1] at hn1
        cases hn1
        exact .inl ⟨rfl, hs1⟩
      · rw [Graph.find?_setNode_ne (by simpa [hmid] using hx)] at hn1
        exact .inr ⟨n1, hn1, hs1⟩

/-- after a successful explicit resolution to a settled status, the node has that status -/
theorem Graph.resolve_status_self (g g' : Graph ι) (id : ι) (st : St) (hst : st ≠ St.waiting)
    (hok : g.resolve id st = .ok g') : ∃ n', g'.find? id = some n' ∧ n'.status = st := by
  unfold Graph.resolve at hok
  split at hok
  · cases hok
  rename_i m hm
  split at hok
  · cases hok
  · rename_i hmu
    split at hok
    · rename_i h1; cases hok; exact ⟨m, hm, h1 ▸ hmu⟩
    · cases hok
  · rename_i hmw
    split at hok
    · rename_i h1; exact absurd h1 hst
    · have hmid := (Graph.find?_some hm).2
      have h1 : (g.setNode { m with status := st }).find? id = some { m with status := st } := by
        have := Graph.find?_setNode_self (g := g) (n := m) (n' := { m with status := st }) (by simpa [hmid] using hm)
        simpa [hmid] using this
      obtain ⟨n2, hn2, hs2⟩ := Graph.propagate_status _ hok h1 (by simpa using hst)
      exact ⟨n2, hn2, hs2⟩

/-- a successful explicit resolution only happens on existing nodes that stay -/
theorem Graph.find?_of_ids {g g' : Graph ι} (hids : g'.nodes.map (·.id) = g.nodes.map (·.id)) {x : ι} {n : Node ι}
    (hn : g.find? x = some n) : ∃ n', g'.find? x = some n' := by
  cases h : g'.find? x with
  | some n' => exact ⟨n', rfl⟩
  | none =>
    rw [Graph.find?_none_iff, hids, ← Graph.find?_none_iff] at h
    rw [h] at hn; cases hn

theorem Graph.find?_pushStarting (g : Graph ι) (x : ι) : g.pushStarting.find? x = g.find? x := rfl
theorem Graph.find?_popReady (g : Graph ι) (x : ι) : g.popReady.2.find? x = g.find? x := rfl
theorem Graph.find?_clone (g : Graph ι) (x : ι) : g.clone.find? x = g.find? x := rfl

/-- what `PopReadyNodes` returns: members of the ready set with their current status -/
theorem Graph.mem_popReady {g : Graph ι} {id : ι} {st : St} (h : (id, st) ∈ g.popReady.1) :
    id ∈ g.ready ∧ ∃ n, g.find? id = some n ∧ n.status = st := by
  simp only [Graph.popReady, List.mem_filterMap, Graph.statusOf, Option.map_eq_some_iff] at h
  obtain ⟨a, ha, b, ⟨n, hn, rfl⟩, h2⟩ := h
  cases h2
  exact ⟨ha, n, hn, rfl⟩

end Graph

/-! ### node ids -/

theorem input_ne_outputNodeId (a b c : String) : "input" ≠ outputNodeId a b c := by
  unfold outputNodeId
  intro h
  have := congrArg String.toList h
  simp [String.toList_append] at this

end Arca.Model
