/-
Helper lemmas for C10 / C16, part 2: the structure of the operation sequence `Wf.ops`.

`opsIn` (the recursive walk of `prepareDependencies`) performs, site by site, exactly the operations `siteOps` lists for
the sites that `sites` enumerates (`opsIn_eq`); everything else is case analysis on one site.
-/
import Arca.Model.Prepare
import Arca.Proofs.PrepareFold

set_option linter.unusedSectionVars false
set_option linter.unusedVariables false

namespace Arca.Model
open Arca.Gen (StageRow pluginStages foreachStages)

/-- what `prepareDependencies` does at one site -/
def siteOps (R : Resolver) : Site → List Op
  | .val cur _ (.expr e) => opsRefs R cur e
  | .val cur path (.optional w e) =>
    [.node (.group cur path), .edge (.group cur path) cur (optDep w) false] ++ opsRefs R (.group cur path) e
  | .val cur path (.oneof _ opts) =>
    if opts.isEmpty then [.fail .emptyOneOf]
    else [.node (.group cur path), .edge (.group cur path) cur .and false]
  | .val cur path (.ordisabled e) =>
    match orDisabledStep e with
    | none => [.fail .badOrDisabled]
    | some s =>
      [.node (.group cur path), .edge (.group cur path) cur .and false]
        ++ optionHead (.group cur path) "disabled" ++ opsRefs R (.option (.group cur path) "disabled") (disabledExpr s)
        ++ optionHead (.group cur path) "enabled" ++ opsRefs R (.option (.group cur path) "enabled") e
  | .opt g k => optionHead g k
  | .val _ _ (.lit _) => []
  | .val _ _ (.list _) => []
  | .val _ _ (.map _) => []

mutual
  theorem opsIn_eq (R : Resolver) (cur : NodeId) (path : List String) :
      ∀ a, opsIn R cur path a = (sites cur path a).flatMap (siteOps R)
    | .lit _ => by simp [opsIn, sites, siteOps]
    | .expr _ => by simp [opsIn, sites, siteOps]
    | .optional _ _ => by simp [opsIn, sites, siteOps]
    | .ordisabled e => by
      cases h : orDisabledStep e <;> simp [opsIn, sites, siteOps, h]
    | .list xs => by simp [opsIn, sites, siteOps, opsList_eq R cur path 0 xs]
    | .map kvs => by simp [opsIn, sites, siteOps, opsKvs_eq R cur path kvs]
    | .oneof d opts => by
      simp only [opsIn, sites, siteOps, List.flatMap_cons]
      cases opts with
      | nil => simp [sitesOpts]
      | cons o rest => simp [opsOpts_eq R (.group cur path) (o :: rest)]
  theorem opsList_eq (R : Resolver) (cur : NodeId) (path : List String) (i : Nat) :
      ∀ xs, opsList R cur path i xs = (sitesList cur path i xs).flatMap (siteOps R)
    | [] => by simp [opsList, sitesList]
    | x :: xs => by
      simp only [opsList, sitesList, List.flatMap_append]
      rw [opsIn_eq R cur (path ++ [toString i]) x, opsList_eq R cur path (i + 1) xs]
  theorem opsKvs_eq (R : Resolver) (cur : NodeId) (path : List String) :
      ∀ kvs, opsKvs R cur path kvs = (sitesKvs cur path kvs).flatMap (siteOps R)
    | [] => by simp [opsKvs, sitesKvs]
    | (k, x) :: rest => by
      simp only [opsKvs, sitesKvs, List.flatMap_append]
      rw [opsIn_eq R cur (path ++ [k]) x, opsKvs_eq R cur path rest]
  theorem opsOpts_eq (R : Resolver) (g : NodeId) :
      ∀ opts, opsOpts R g opts = (sitesOpts g opts).flatMap (siteOps R)
    | [] => by simp [opsOpts, sitesOpts]
    | (k, x) :: rest => by
      simp only [opsOpts, sitesOpts, List.flatMap_cons, List.flatMap_append, siteOps]
      rw [opsIn_eq R (.option g k) [] x, opsOpts_eq R g rest, List.append_assoc]
end

/-! ### coordinates of sites -/

/-- where a site of a value rooted at `c0` lives: directly in `c0`, or in an option node whose `opt` site is also
listed; the group of an `opt` site belongs to a listed, non-empty `!oneof` -/
def Coord (c0 : NodeId) (L : Site → Prop) : Site → Prop
  | .val c _ _ => c = c0 ∨ ∃ g k, c = .option g k ∧ L (.opt g k)
  | .opt g _ => ∃ c p d opts, g = .group c p ∧ L (.val c p (.oneof d opts)) ∧ opts ≠ []

/-- the same for the sites below the options of one `!oneof` with group node `g0` -/
def CoordO (g0 : NodeId) (L : Site → Prop) : Site → Prop
  | .val c _ _ => ∃ g k, c = .option g k ∧ L (.opt g k)
  | .opt g _ => g = g0 ∨ ∃ c p d opts, g = .group c p ∧ L (.val c p (.oneof d opts)) ∧ opts ≠ []

theorem Coord.mono {c0 : NodeId} {L L' : Site → Prop} (h : ∀ σ, L σ → L' σ) {σ : Site} (hc : Coord c0 L σ) :
    Coord c0 L' σ := by
  cases σ with
  | val c p a =>
    rcases hc with hc | ⟨g, k, h1, h2⟩
    · exact Or.inl hc
    · exact Or.inr ⟨g, k, h1, h _ h2⟩
  | opt g k =>
    obtain ⟨c, p, d, opts, h1, h2, h3⟩ := hc
    exact ⟨c, p, d, opts, h1, h _ h2, h3⟩

theorem CoordO.mono {g0 : NodeId} {L L' : Site → Prop} (h : ∀ σ, L σ → L' σ) {σ : Site} (hc : CoordO g0 L σ) :
    CoordO g0 L' σ := by
  cases σ with
  | val c p a =>
    obtain ⟨g, k, h1, h2⟩ := hc
    exact ⟨g, k, h1, h _ h2⟩
  | opt g k =>
    rcases hc with hc | ⟨c, p, d, opts, h1, h2, h3⟩
    · exact Or.inl hc
    · exact Or.inr ⟨c, p, d, opts, h1, h _ h2, h3⟩

/-- sites below an option: seen from the holder `c0` of the `!oneof` -/
theorem CoordO.toCoord {c0 : NodeId} {p0 : List String} {d : String} {opts : List (String × AIn)} {L : Site → Prop}
    (hL : L (.val c0 p0 (.oneof d opts))) (hne : opts ≠ []) {σ : Site} (hc : CoordO (.group c0 p0) L σ) :
    Coord c0 L σ := by
  cases σ with
  | val c p a =>
    obtain ⟨g, k, h1, h2⟩ := hc
    exact Or.inr ⟨g, k, h1, h2⟩
  | opt g k =>
    rcases hc with hc | h
    · exact ⟨c0, p0, d, opts, hc, hL, hne⟩
    · exact h

/-- sites of an option value rooted at the option node `.option g k` -/
theorem Coord.toCoordO {g k} {L : Site → Prop} (hL : L (.opt g k)) {σ : Site} (hc : Coord (.option g k) L σ) :
    CoordO g L σ := by
  cases σ with
  | val c p a =>
    rcases hc with hc | h
    · exact ⟨g, k, hc, hL⟩
    · exact h
  | opt g' k' => exact Or.inr hc

mutual
  theorem sites_coord (c0 : NodeId) (p0 : List String) :
      ∀ a, ∀ σ ∈ sites c0 p0 a, Coord c0 (· ∈ sites c0 p0 a) σ
    | .lit _ => by intro σ h; simp [sites] at h; subst h; exact Or.inl rfl
    | .expr _ => by intro σ h; simp [sites] at h; subst h; exact Or.inl rfl
    | .optional _ _ => by intro σ h; simp [sites] at h; subst h; exact Or.inl rfl
    | .ordisabled _ => by intro σ h; simp [sites] at h; subst h; exact Or.inl rfl
    | .list xs => by
      intro σ h
      simp only [sites, List.mem_cons] at h
      rcases h with rfl | h
      · exact Or.inl rfl
      · exact (sitesList_coord c0 p0 0 xs σ h).mono (fun τ hτ => by simp only [sites]; exact List.mem_cons_of_mem _ hτ)
    | .map kvs => by
      intro σ h
      simp only [sites, List.mem_cons] at h
      rcases h with rfl | h
      · exact Or.inl rfl
      · exact (sitesKvs_coord c0 p0 kvs σ h).mono (fun τ hτ => by simp only [sites]; exact List.mem_cons_of_mem _ hτ)
    | .oneof d opts => by
      intro σ h
      simp only [sites, List.mem_cons] at h
      rcases h with rfl | h
      · exact Or.inl rfl
      · have hne : opts ≠ [] := by
          intro he; subst he; simp [sitesOpts] at h
        have h1 := (sitesOpts_coord (.group c0 p0) opts σ h).mono
          (L' := (· ∈ sites c0 p0 (.oneof d opts)))
          (fun τ hτ => by simp only [sites]; exact List.mem_cons_of_mem _ hτ)
        exact CoordO.toCoord (d := d) (opts := opts) (by simp [sites]) hne h1
  theorem sitesList_coord (c0 : NodeId) (p0 : List String) (i : Nat) :
      ∀ xs, ∀ σ ∈ sitesList c0 p0 i xs, Coord c0 (· ∈ sitesList c0 p0 i xs) σ
    | [] => by intro σ h; simp [sitesList] at h
    | x :: xs => by
      intro σ h
      simp only [sitesList, List.mem_append] at h
      rcases h with h | h
      · exact (sites_coord c0 (p0 ++ [toString i]) x σ h).mono
          (fun τ hτ => by simp only [sitesList]; exact List.mem_append_left _ hτ)
      · exact (sitesList_coord c0 p0 (i + 1) xs σ h).mono
          (fun τ hτ => by simp only [sitesList]; exact List.mem_append_right _ hτ)
  theorem sitesKvs_coord (c0 : NodeId) (p0 : List String) :
      ∀ kvs, ∀ σ ∈ sitesKvs c0 p0 kvs, Coord c0 (· ∈ sitesKvs c0 p0 kvs) σ
    | [] => by intro σ h; simp [sitesKvs] at h
    | (k, x) :: rest => by
      intro σ h
      simp only [sitesKvs, List.mem_append] at h
      rcases h with h | h
      · exact (sites_coord c0 (p0 ++ [k]) x σ h).mono
          (fun τ hτ => by simp only [sitesKvs]; exact List.mem_append_left _ hτ)
      · exact (sitesKvs_coord c0 p0 rest σ h).mono
          (fun τ hτ => by simp only [sitesKvs]; exact List.mem_append_right _ hτ)
  theorem sitesOpts_coord (g0 : NodeId) :
      ∀ opts, ∀ σ ∈ sitesOpts g0 opts, CoordO g0 (· ∈ sitesOpts g0 opts) σ
    | [] => by intro σ h; simp [sitesOpts] at h
    | (k, x) :: rest => by
      intro σ h
      simp only [sitesOpts, List.mem_cons, List.mem_append] at h
      rcases h with rfl | h | h
      · exact Or.inl rfl
      · have h1 := (sites_coord (.option g0 k) [] x σ h).mono
          (L' := (· ∈ sitesOpts g0 ((k, x) :: rest)))
          (fun τ hτ => by
            simp only [sitesOpts]
            exact List.mem_cons_of_mem _ (List.mem_append_left _ hτ))
        exact Coord.toCoordO (by simp [sitesOpts]) h1
      · exact (sitesOpts_coord g0 rest σ h).mono
          (fun τ hτ => by
            simp only [sitesOpts]
            exact List.mem_cons_of_mem _ (List.mem_append_right _ hτ))
end

/-! ### one site: operations vs. the declarative `siteEdges` / `siteNodes` -/

theorem mem_opsRefs {R : Resolver} {cur : NodeId} {e : Expr} {op : Op} :
    op ∈ opsRefs R cur e ↔ ∃ p ∈ Expr.deps e,
      (∃ a, R p = .ok a ∧ op = .edge a cur .and true) ∨ (∃ r, R p = .error r ∧ op = .fail r) := by
  unfold opsRefs
  simp only [List.mem_map]
  constructor
  · rintro ⟨p, hp, rfl⟩
    refine ⟨p, hp, ?_⟩
    cases h : R p with
    | ok a => exact Or.inl ⟨a, rfl, rfl⟩
    | error r => exact Or.inr ⟨r, rfl, rfl⟩
  · rintro ⟨p, hp, ⟨a, h1, rfl⟩ | ⟨r, h1, rfl⟩⟩
    · exact ⟨p, hp, by simp [h1]⟩
    · exact ⟨p, hp, by simp [h1]⟩

theorem mem_refEdges {R : Resolver} {cur : NodeId} {e : Expr} {x : Edge} :
    x ∈ refEdges R cur e ↔ ∃ p ∈ Expr.deps e, ∃ a, R p = .ok a ∧ x = (a, cur, Dep.and) := by
  unfold refEdges
  simp only [List.mem_filterMap]
  constructor
  · rintro ⟨p, hp, h⟩
    cases h1 : R p with
    | ok a => simp [h1] at h; exact ⟨p, hp, a, h1, h.symm⟩
    | error r => simp [h1] at h
  · rintro ⟨p, hp, a, h1, rfl⟩
    exact ⟨p, hp, by simp [h1]⟩

theorem edge_mem_opsRefs {R : Resolver} {cur : NodeId} {e : Expr} {a b : NodeId} {d : Dep} {tol : Bool} :
    Op.edge a b d tol ∈ opsRefs R cur e ↔ (a, b, d) ∈ refEdges R cur e ∧ tol = true := by
  rw [mem_opsRefs, mem_refEdges]
  constructor
  · rintro ⟨p, hp, ⟨a', h1, h2⟩ | ⟨r, h1, h2⟩⟩
    · cases h2
      exact ⟨⟨p, hp, a, h1, rfl⟩, rfl⟩
    · cases h2
  · rintro ⟨⟨p, hp, a', h1, h2⟩, rfl⟩
    cases h2
    exact ⟨p, hp, Or.inl ⟨a, h1, rfl⟩⟩

theorem node_not_mem_opsRefs {R : Resolver} {cur : NodeId} {e : Expr} {n : NodeId} : Op.node n ∉ opsRefs R cur e := by
  rw [mem_opsRefs]
  rintro ⟨p, hp, ⟨a', h1, h2⟩ | ⟨r, h1, h2⟩⟩ <;> cases h2

/-- a `NodeId` that a reference can resolve to -/
def NodeId.isRef : NodeId → Prop
  | .input => True
  | .stage _ _ => True
  | .out _ _ _ => True
  | _ => False

/-- a dependency-group node -/
def NodeId.isGroupLike : NodeId → Prop
  | .group _ _ => True
  | .option _ _ => True
  | _ => False

/-- every edge operation of a site is one of the edges the site implies -/
theorem siteOps_edge_sound {R : Resolver} {σ : Site} {a b : NodeId} {d : Dep} {tol : Bool}
    (h : Op.edge a b d tol ∈ siteOps R σ) : (a, b, d) ∈ siteEdges R σ := by
  cases σ with
  | opt g k =>
    simp only [siteOps, optionHead, List.mem_cons, List.mem_nil_iff, or_false] at h
    rcases h with h | h
    · cases h
    · cases h; simp [siteEdges]
  | val cur path v =>
    cases v with
    | lit _ => simp [siteOps] at h
    | list _ => simp [siteOps] at h
    | map _ => simp [siteOps] at h
    | expr e =>
      simp only [siteOps] at h
      simp only [siteEdges]
      exact (edge_mem_opsRefs.1 h).1
    | optional w e =>
      simp only [siteOps, List.mem_append, List.mem_cons, List.mem_nil_iff, or_false] at h
      simp only [siteEdges, List.mem_cons]
      rcases h with (h | h) | h
      · cases h
      · cases h; exact Or.inl rfl
      · exact Or.inr (edge_mem_opsRefs.1 h).1
    | oneof dsc opts =>
      simp only [siteOps] at h
      split at h
      · simp at h
      · simp only [List.mem_cons, List.mem_nil_iff, or_false] at h
        rcases h with h | h
        · cases h
        · cases h; simp [siteEdges]
    | ordisabled e =>
      simp only [siteOps] at h
      simp only [siteEdges]
      split at h
      · simp at h
      · rename_i s hs
        simp only [hs]
        simp only [optionHead, List.mem_append, List.mem_cons, List.mem_nil_iff, or_false] at h
        simp only [List.mem_append, List.mem_cons, List.mem_nil_iff, or_false]
        rcases h with ((((h | h) | (h | h)) | h) | (h | h)) | h
        · cases h
        · cases h; exact Or.inl (Or.inl (Or.inl rfl))
        · cases h
        · cases h; exact Or.inl (Or.inl (Or.inr (Or.inl rfl)))
        · exact Or.inl (Or.inr (edge_mem_opsRefs.1 h).1)
        · cases h
        · cases h; exact Or.inl (Or.inl (Or.inr (Or.inr rfl)))
        · exact Or.inr (edge_mem_opsRefs.1 h).1

/-- conversely, if the site's operations contain no failure, every implied edge is among them -/
theorem siteOps_edge_complete {R : Resolver} {σ : Site} {x : Edge}
    (hnf : ∀ r, Op.fail r ∉ siteOps R σ) (h : x ∈ siteEdges R σ) : ∃ tol, Op.edge x.1 x.2.1 x.2.2 tol ∈ siteOps R σ := by
  obtain ⟨a, b, d⟩ := x
  cases σ with
  | opt g k =>
    simp only [siteEdges, List.mem_cons, List.mem_nil_iff, or_false] at h
    cases h
    exact ⟨false, by simp [siteOps, optionHead]⟩
  | val cur path v =>
    cases v with
    | lit _ => simp [siteEdges] at h
    | list _ => simp [siteEdges] at h
    | map _ => simp [siteEdges] at h
    | expr e =>
      simp only [siteEdges] at h
      exact ⟨true, by simp only [siteOps]; exact edge_mem_opsRefs.2 ⟨h, rfl⟩⟩
    | optional w e =>
      simp only [siteEdges, List.mem_cons] at h
      rcases h with h | h
      · cases h
        exact ⟨false, by simp [siteOps]⟩
      · refine ⟨true, ?_⟩
        simp only [siteOps, List.mem_append]
        exact Or.inr (edge_mem_opsRefs.2 ⟨h, rfl⟩)
    | oneof dsc opts =>
      simp only [siteEdges, List.mem_cons, List.mem_nil_iff, or_false] at h
      cases h
      refine ⟨false, ?_⟩
      simp only [siteOps]
      split
      · rename_i he
        exact absurd (by simp [siteOps, he]) (hnf .emptyOneOf)
      · simp
    | ordisabled e =>
      simp only [siteEdges] at h
      split at h
      · simp at h
      · rename_i s hs
        simp only [List.mem_append, List.mem_cons, List.mem_nil_iff, or_false] at h
        rcases h with ((h | h | h) | h) | h
        · cases h; exact ⟨false, by simp [siteOps, hs]⟩
        · cases h; exact ⟨false, by simp [siteOps, hs, optionHead]⟩
        · cases h; exact ⟨false, by simp [siteOps, hs, optionHead]⟩
        · refine ⟨true, ?_⟩
          simp only [siteOps, hs, List.mem_append]
          exact Or.inl (Or.inl (Or.inr (edge_mem_opsRefs.2 ⟨h, rfl⟩)))
        · refine ⟨true, ?_⟩
          simp only [siteOps, hs, List.mem_append]
          exact Or.inr (edge_mem_opsRefs.2 ⟨h, rfl⟩)

/-- classification of the edge operations of one site: a tolerant `and` edge from a resolved reference, or a strict
edge from a group / option node the same site creates -/
theorem siteOps_edge_class {R : Resolver} {σ : Site} {a b : NodeId} {d : Dep} {tol : Bool}
    (h : Op.edge a b d tol ∈ siteOps R σ) :
    (tol = true ∧ d = .and ∧ ∃ p, R p = .ok a) ∨ (tol = false ∧ a.isGroupLike ∧ Op.node a ∈ siteOps R σ) := by
  have refcase : ∀ {c e}, Op.edge a b d tol ∈ opsRefs R c e → tol = true ∧ d = .and ∧ (∃ p, R p = .ok a) := by
    intro c e h
    obtain ⟨p, hp, ⟨a', h1, h2⟩ | ⟨r, h1, h2⟩⟩ := mem_opsRefs.1 h
    · cases h2; exact ⟨rfl, rfl, p, h1⟩
    · cases h2
  cases σ with
  | opt g k =>
    simp only [siteOps, optionHead, List.mem_cons, List.mem_nil_iff, or_false] at h
    rcases h with h | h
    · cases h
    · cases h
      exact Or.inr ⟨rfl, trivial, by simp [siteOps, optionHead]⟩
  | val cur path v =>
    cases v with
    | lit _ => simp [siteOps] at h
    | list _ => simp [siteOps] at h
    | map _ => simp [siteOps] at h
    | expr e =>
      simp only [siteOps] at h
      exact Or.inl (refcase h)
    | optional w e =>
      simp only [siteOps, List.mem_append, List.mem_cons, List.mem_nil_iff, or_false] at h
      rcases h with (h | h) | h
      · cases h
      · cases h; exact Or.inr ⟨rfl, trivial, by simp [siteOps]⟩
      · exact Or.inl (refcase h)
    | oneof dsc opts =>
      simp only [siteOps] at h
      split at h
      · simp at h
      · rename_i hne
        simp only [List.mem_cons, List.mem_nil_iff, or_false] at h
        rcases h with h | h
        · cases h
        · cases h; exact Or.inr ⟨rfl, trivial, by simp [siteOps, hne]⟩
    | ordisabled e =>
      simp only [siteOps] at h
      split at h
      · simp at h
      · rename_i s hs
        simp only [optionHead, List.mem_append, List.mem_cons, List.mem_nil_iff, or_false] at h
        rcases h with ((((h | h) | (h | h)) | h) | (h | h)) | h
        · cases h
        · cases h; exact Or.inr ⟨rfl, trivial, by simp [siteOps, hs]⟩
        · cases h
        · cases h; exact Or.inr ⟨rfl, trivial, by simp [siteOps, hs, optionHead]⟩
        · exact Or.inl (refcase h)
        · cases h
        · cases h; exact Or.inr ⟨rfl, trivial, by simp [siteOps, hs, optionHead]⟩
        · exact Or.inl (refcase h)

end Arca.Model
