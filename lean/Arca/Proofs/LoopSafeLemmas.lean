/-
The induction behind `react_legal_no_panic` (`LoopSafe.lean`): `notifySteps` never panics from a state that satisfies
the graph part `GSafe` of the panic-freedom invariant, and re-establishes it.

* `GSafe P g`: graph invariant, prepared edges and ids, resolved nodes closed (`Graph.RClosed`), duplicate-free ready
  set, no resolved dependency-group node in the ready set, resolved dependency-group nodes have only soft outstanding
  entries (so they are never made ready again).
* `Entry P g y`: what is known of a node popped from the ready set with a status other than `unres`, as long as it
  waits in the to-do list of `notifySteps`: all-soft outstanding entries, not in the ready set, required dependencies
  resolved, a member of its `or` group recorded, and (dependency-group nodes) still `waiting`.
* `KeepY y g g'`: the part of `Entry` that later graph operations on *other* nodes keep.
* `Moves`: one piece of the loop keeps `Good` (= `GSafe` and no panic action so far), moves the graph forward (`GLe`)
  and keeps every node it is not about.
-/
import Arca.Model.RunLoop
import Arca.Proofs.LoopDag
import Arca.Proofs.LoopInv
import Arca.Proofs.DgraphFuel

set_option linter.unusedSimpArgs false
set_option linter.unusedVariables false

namespace Arca.Model

/-- the processing order does not duplicate what `PopReadyNodes` returned -/
def OrdNodup (ord : Order) : Prop := ∀ l, (l.map Prod.fst).Nodup → ((ord l).map Prod.fst).Nodup

/-- an order that permutes its argument (Go's map iteration, any sort) satisfies both order hypotheses -/
theorem ord_of_perm (ord : Order) (h : ∀ l, (ord l).Perm l) : OrdOK ord ∧ OrdNodup ord := by
  refine ⟨fun l x hx => (h l).mem_iff.1 hx, fun l hl => ?_⟩
  exact ((h l).map Prod.fst).nodup_iff.2 hl

/-- so does an order that selects a sublist -/
theorem ord_of_sublist (ord : Order) (h : ∀ l, (ord l).Sublist l) : OrdOK ord ∧ OrdNodup ord := by
  refine ⟨fun l x hx => (h l).subset hx, fun l hl => ?_⟩
  exact ((h l).map Prod.fst).nodup hl

def isGroup (P : Prepared) (id : String) : Prop := ∃ it, lookup id P.items = some it ∧ it.kind = Kind.group

/-- the graph part of the panic-freedom invariant -/
structure GSafe (P : Prepared) (g : Graph String) : Prop where
  inv : g.Inv
  edges : g.edges = P.dag.edges
  ids : g.nodes.map (·.id) = P.dag.nodes.map (·.id)
  closed : g.RClosed
  ready_nodup : g.ready.Nodup
  ready_group : ∀ id ∈ g.ready, isGroup P id → ∀ n, g.find? id = some n → n.status ≠ St.resolved
  group_soft : ∀ id n, g.find? id = some n → n.status = St.resolved → isGroup P id → allSoft n.out

/-- the closure condition for one node (what `Graph.RClosed` asks of a resolved node) -/
def ClosedAt (g : Graph String) (x : String) (n : Node String) : Prop :=
  (∀ ed ∈ g.edges, ed.2.1 = x → ed.2.2 = Dep.and → statusIs g ed.1 St.resolved) ∧
  ((∃ ed ∈ g.edges, ed.2.1 = x ∧ ed.2.2 = Dep.or) → ∃ q ∈ n.res, q.2 = Dep.or)

theorem Graph.find?_of_ids' {g g' : Graph String} (hids : g'.nodes.map (·.id) = g.nodes.map (·.id)) {x : String}
    {n' : Node String} (hn : g'.find? x = some n') : ∃ n, g.find? x = some n :=
  Graph.find?_of_ids hids.symm hn

/-- an explicit resolution keeps `GSafe`, provided a node that is made `resolved` satisfies the closure condition and,
if it is a dependency-group node, is all-soft and not in the ready set -/
theorem GSafe.resolve {P : Prepared} {g g' : Graph String} {x : String} {st : St} (hg : GSafe P g)
    (hok : g.resolve x st = .ok g')
    (hx : st = St.resolved → ∀ n, g.find? x = some n →
      ClosedAt g x n ∧ (isGroup P x → allSoft n.out ∧ x ∉ g.ready)) : GSafe P g' := by
  obtain ⟨hed, hids⟩ := Graph.resolve_frame g g' x st hok
  obtain ⟨hrn, hkeep⟩ := Graph.resolve_keeps hok
  -- a group node resolved in `g'`: its node in `g` was all-soft, and it was not newly made ready
  have hgrp : ∀ id n', g'.find? id = some n' → n'.status = St.resolved → isGroup P id →
      allSoft n'.out ∧ (id ∈ g'.ready → id ∈ g.ready ∧ (∃ n, g.find? id = some n ∧ n.status = St.resolved)) := by
    intro id n' hn' hs' hgr
    obtain ⟨n, hn⟩ := Graph.find?_of_ids' hids hn'
    obtain ⟨n'', hn'', _, hs⟩ := hkeep id n hn
    have := Graph.find?_unique hn' hn''
    subst this
    rcases Graph.resolve_resolved_only g g' x id st n' hok hn' hs' with ⟨rfl, hst⟩ | ⟨n0, hn0, hs0⟩
    · obtain ⟨_, h2⟩ := hx hst n hn
      obtain ⟨h3, h4⟩ := h2 hgr
      obtain ⟨a, _, c⟩ := hs h3
      exact ⟨a, fun h => absurd (c h) h4⟩
    · rw [hn] at hn0; cases hn0
      obtain ⟨a, _, c⟩ := hs (hg.group_soft id n hn hs0 hgr)
      exact ⟨a, fun h => ⟨c h, n, hn, hs0⟩⟩
  refine ⟨Graph.inv_resolve g g' x st hg.inv hok, hed.trans hg.edges, hids.trans hg.ids, ?_, hrn hg.ready_nodup, ?_, ?_⟩
  · exact Graph.RClosed.resolve hg.inv hg.closed hok (fun hst n hn => (hx hst n hn).1)
  · intro id hid hgr n' hn' hs'
    obtain ⟨_, h2⟩ := hgrp id n' hn' hs' hgr
    obtain ⟨h3, n, hn, hs⟩ := h2 hid
    exact hg.ready_group id h3 hgr n hn hs
  · intro id n' hn' hs' hgr
    exact (hgrp id n' hn' hs' hgr).1

theorem GSafe.popReady {P : Prepared} {g : Graph String} (hg : GSafe P g) : GSafe P g.popReady.2 :=
  ⟨Graph.inv_popReady g hg.inv, hg.edges, hg.ids, hg.closed, List.nodup_nil, (fun _ h => nomatch h), hg.group_soft⟩

theorem nodup_foldl_insertSet (l : List (Node String)) : ∀ r : List String, r.Nodup →
    (l.foldl (fun r n => insertSet n.id r) r).Nodup := by
  induction l with
  | nil => intro r h; exact h
  | cons a l ih => intro r h; exact ih _ (nodup_insertSet h)

/-- `PushStartingNodes` while no node is resolved -/
theorem GSafe.pushStarting {P : Prepared} {g : Graph String} (hg : GSafe P g)
    (hw : ∀ x n, g.find? x = some n → n.status ≠ St.resolved) : GSafe P g.pushStarting :=
  ⟨Graph.inv_pushStarting g hg.inv, hg.edges, hg.ids, hg.closed, nodup_foldl_insertSet _ _ hg.ready_nodup,
    fun id _ _ n hn => hw id n hn, hg.group_soft⟩

/-! ### nodes waiting in the to-do list -/

/-- what later operations on other nodes keep of an all-soft node outside the ready set -/
def KeepY (y : String) (g g' : Graph String) : Prop :=
  ∀ n, g.find? y = some n → allSoft n.out → y ∉ g.ready →
    ∃ n', g'.find? y = some n' ∧ n'.status = n.status ∧ allSoft n'.out ∧ y ∉ g'.ready ∧ ∀ q ∈ n.res, q ∈ n'.res

theorem KeepY.refl (y : String) (g : Graph String) : KeepY y g g :=
  fun n hn hs hr => ⟨n, hn, rfl, hs, hr, fun _ h => h⟩

theorem KeepY.trans {y : String} {a b c : Graph String} (h1 : KeepY y a b) (h2 : KeepY y b c) : KeepY y a c := by
  intro n hn hs hr
  obtain ⟨n1, hn1, a1, a2, a3, a4⟩ := h1 n hn hs hr
  obtain ⟨n2, hn2, b1, b2, b3, b4⟩ := h2 n1 hn1 a2 a3
  exact ⟨n2, hn2, b1.trans a1, b2, b3, fun q hq => b4 q (a4 q hq)⟩

theorem KeepY.of_resolve {g g' : Graph String} {x y : String} {st : St} (hok : g.resolve x st = .ok g')
    (hy : y ≠ x) : KeepY y g g' := by
  intro n hn hsoft hnr
  obtain ⟨n', hn', hr, hs⟩ := (Graph.resolve_keeps hok).2 y n hn
  obtain ⟨a, b, c⟩ := hs hsoft
  exact ⟨n', hn', b hy, a, fun h => hnr (c h), hr⟩

theorem KeepY.popReady (y : String) (g : Graph String) : KeepY y g g.popReady.2 :=
  fun n hn hs _ => ⟨n, hn, rfl, hs, (fun h => nomatch h), fun _ h => h⟩

/-- a node popped from the ready set with a status other than `unres`, while it waits to be processed -/
def Entry (P : Prepared) (g : Graph String) (y : String) : Prop :=
  ∃ n, g.find? y = some n ∧ allSoft n.out ∧ y ∉ g.ready ∧ ClosedAt g y n ∧ (isGroup P y → n.status = St.waiting)

theorem Entry.mono {P : Prepared} {g g' : Graph String} {y : String} (he : Entry P g y) (hk : KeepY y g g')
    (hle : GLe g g') : Entry P g' y := by
  obtain ⟨n, hn, hsoft, hnr, ⟨hand, hor⟩, hgw⟩ := he
  obtain ⟨n', hn', hs, hsoft', hnr', hres⟩ := hk n hn hsoft hnr
  refine ⟨n', hn', hsoft', hnr', ⟨?_, ?_⟩, fun h => hs.trans (hgw h)⟩
  · intro ed he h1 h2
    rw [hle.edges] at he
    exact hle.mono _ _ (by decide) (hand ed he h1 h2)
  · intro hex
    rw [hle.edges] at hex
    obtain ⟨q, hq, hq2⟩ := hor hex
    exact ⟨q, hres q hq, hq2⟩

/-! ### `Good` states and `Moves` -/

def NoPanic (l : List Action) : Prop := ∀ a ∈ l, a.isPanic = false

theorem NoPanic.snoc {l : List Action} {a : Action} (h : NoPanic l) (ha : a.isPanic = false) : NoPanic (l ++ [a]) := by
  intro x hx
  rcases List.mem_append.1 hx with hx | hx
  · exact h x hx
  · simp only [List.mem_singleton] at hx
    subst hx; exact ha

structure Good (P : Prepared) (r : R) : Prop where
  safe : GSafe P r.1.dag
  nopanic : NoPanic r.2

/-- one piece of the loop, from `r` to `r'`: keeps `Good`, moves the graph forward, keeps every node outside `ex` -/
structure Moves (P : Prepared) (ex : String → Prop) (r r' : R) : Prop where
  good : Good P r'
  gle : GLe r.1.dag r'.1.dag
  keep : ∀ y, ¬ ex y → KeepY y r.1.dag r'.1.dag

theorem Moves.refl {P : Prepared} {ex : String → Prop} {r : R} (h : Good P r) : Moves P ex r r :=
  ⟨h, GLe.refl h.safe.inv, fun y _ => KeepY.refl y _⟩

theorem Moves.same {P : Prepared} {ex : String → Prop} {r r' : R} (h : Good P r) (hd : r'.1.dag = r.1.dag)
    (hp : NoPanic r'.2) : Moves P ex r r' := by
  refine ⟨⟨hd ▸ h.safe, hp⟩, ?_, ?_⟩
  · rw [hd]; exact GLe.refl h.safe.inv
  · intro y _; rw [hd]; exact KeepY.refl y _

theorem Moves.trans {P : Prepared} {ex ex1 ex2 : String → Prop} {a b c : R} (h1 : Moves P ex1 a b)
    (h2 : Moves P ex2 b c) (hex : ∀ y, ¬ ex y → ¬ ex1 y ∧ ¬ ex2 y) : Moves P ex a c :=
  ⟨h2.good, h1.gle.trans h2.gle, fun y hy => (h1.keep y (hex y hy).1).trans (h2.keep y (hex y hy).2)⟩

theorem Moves.weaken {P : Prepared} {ex ex1 : String → Prop} {a b : R} (h1 : Moves P ex1 a b)
    (hex : ∀ y, ¬ ex y → ¬ ex1 y) : Moves P ex a b :=
  ⟨h1.good, h1.gle, fun y hy => h1.keep y (hex y hy)⟩

theorem sendErr_dag (cap : Nat) (r : R) (k : ErrKind) : (sendErr cap r k).1.dag = r.1.dag := by
  unfold sendErr
  split
  · rfl
  split <;> rfl

theorem doCancel_dag (r : R) : (doCancel r).1.dag = r.1.dag := by
  unfold doCancel; split <;> rfl

theorem sendErr_nopanic (cap : Nat) {r : R} (k : ErrKind) (h : NoPanic r.2) : NoPanic (sendErr cap r k).2 := by
  unfold sendErr
  split
  · exact h
  split
  · exact h.snoc rfl
  · exact h.snoc rfl

theorem doCancel_nopanic {r : R} (h : NoPanic r.2) : NoPanic (doCancel r).2 := by
  unfold doCancel
  split
  · exact h
  · exact h.snoc rfl

theorem Moves.sendErr_cancel {P : Prepared} {ex : String → Prop} {r : R} (h : Good P r) (k : ErrKind) :
    Moves P ex r (doCancel (sendErr P.errCap r k)) :=
  Moves.same h (by rw [doCancel_dag, sendErr_dag]) (doCancel_nopanic (sendErr_nopanic _ k h.nopanic))

/-- an explicit resolution as a move -/
theorem Moves.resolve {P : Prepared} {r : R} {x : String} {st : St} {g : Graph String} (h : Good P r)
    (hok : r.1.dag.resolve x st = .ok g)
    (hx : st = St.resolved → ∀ n, r.1.dag.find? x = some n →
      ClosedAt r.1.dag x n ∧ (isGroup P x → allSoft n.out ∧ x ∉ r.1.dag.ready)) :
    Moves P (· = x) r ({ r.1 with dag := g }, r.2) :=
  ⟨⟨h.safe.resolve hok hx, h.nopanic⟩, GLe.resolve h.safe.inv hok, fun y hy => KeepY.of_resolve hok hy⟩

/-! ### `notifySteps` -/

/-- the part of the well-formedness of the prepared workflow that `notifySteps` relies on -/
structure Prepared.NotifyWF (P : Prepared) : Prop where
  items_nodes : ∀ n ∈ P.dag.nodes, (lookup n.id P.items).isSome = true
  stage_data_map : ∀ id it d, lookup id P.items = some it → it.kind = Kind.stage → it.data = some d →
      ∃ kvs, d = InVal.map kvs
  stage_ids_nonempty : ∀ id it, lookup id P.items = some it → it.kind = Kind.stage → it.step ≠ "" ∧ it.stage ≠ ""
  kinds_handled : ∀ id it, lookup id P.items = some it → it.data.isSome = true → it.kind = Kind.stage ∨ it.kind = Kind.output

def NotifyOK (P : Prepared) (N : R → R) : Prop := ∀ r, Good P r → Moves P (fun _ => False) r (N r)

theorem resolveIn_map_is_map (fns : Fns) (g : Graph String) (data : Val) (kvs : List (String × InVal)) (v : Val)
    (h : resolveIn fns g data (.map kvs) = .ok v) : ∃ r, v = .map r := by
  rw [resolveIn] at h
  split at h
  · cases h; exact ⟨_, rfl⟩
  · cases h

theorem Entry.resolve_cond {P : Prepared} {g : Graph String} {id : String} (he : Entry P g id) :
    St.resolved = St.resolved → ∀ n, g.find? id = some n →
      ClosedAt g id n ∧ (isGroup P id → allSoft n.out ∧ id ∉ g.ready) := by
  intro _ n hn
  obtain ⟨n0, hn0, hsoft, hnr, hcl, _⟩ := he
  rw [hn] at hn0; cases hn0
  exact ⟨hcl, fun _ => ⟨hsoft, hnr⟩⟩

theorem processNode_moves {P : Prepared} (hW : P.NotifyWF) (fns : Fns) (notify : R → R) (hN : NotifyOK P notify)
    (r : R) (id : String) (st : St) (hg : Good P r) (hit : (lookup id P.items).isSome = true)
    (hent : st ≠ St.unres → Entry P r.1.dag id) :
    Moves P (· = id) r (processNode P fns notify r id st).1 := by
  unfold processNode
  split
  · exact Moves.refl hg
  split
  · rename_i hnone
    rw [hnone] at hit; cases hit
  rename_i item hitem
  split
  · -- unresolvable node
    split
    · split
      · exact Moves.refl hg
      · dsimp only
        split
        · exact Moves.same hg (by rw [doCancel_dag, sendErr_dag]) (doCancel_nopanic (sendErr_nopanic _ _ hg.nopanic))
        · exact Moves.same hg rfl hg.nopanic
    · exact Moves.refl hg
  rename_i hst
  have hent := hent hst
  split
  · -- no data: dependency group
    split
    · rename_i hk
      obtain ⟨n, hn, hsoft, hnr, hcl, hgw⟩ := hent
      have hw := hgw ⟨item, hitem, hk⟩
      obtain ⟨g', hok, _⟩ := Graph.resolve_ok r.1.dag hg.safe.inv hg.safe.closed id n .resolved hn hw (by decide)
        (fun _ => hcl)
      split
      · rename_i e he
        rw [hok] at he; cases he
      · rename_i g hok'
        have h1 := Moves.resolve hg hok' (Entry.resolve_cond ⟨n, hn, hsoft, hnr, hcl, hgw⟩)
        exact h1.trans (hN _ h1.good) (fun y hy => ⟨hy, fun h => h⟩)
    · exact Moves.refl hg
  rename_i inData hdata
  split
  · exact Moves.sendErr_cancel hg _
  rename_i v hv
  split
  · -- stage
    rename_i hk
    split
    · exact Moves.refl hg
    split
    · rename_i hbad
      obtain ⟨h1, h2⟩ := hW.stage_ids_nonempty id item hitem hk
      rcases hbad with h | h
      · exact absurd h h1
      · exact absurd h h2
    split
    · exact Moves.same hg rfl (hg.nopanic.snoc rfl)
    · rename_i hnm
      obtain ⟨kvs, rfl⟩ := hW.stage_data_map id item inData hitem hk hdata
      obtain ⟨m, rfl⟩ := resolveIn_map_is_map _ _ _ _ _ hv
      exact absurd rfl (hnm m)
  · -- output
    rename_i hk
    dsimp only
    by_cases hd : r.1.outputDone = true
    · simp only [hd, ↓reduceIte]
      have h0 : Moves P (· = id) r (emit r (.outputSkipped item.output v)) :=
        Moves.same hg rfl (hg.nopanic.snoc rfl)
      split
      · rename_i g hok
        exact h0.trans (Moves.resolve h0.good hok hent.resolve_cond) (fun y hy => ⟨hy, hy⟩)
      · exact h0
    · simp only [hd, Bool.false_eq_true, ↓reduceIte]
      have h0 : Moves P (· = id) r ({ r.1 with outputDone := true, result := some (item.output, v) },
          r.2 ++ [.output item.output v]) :=
        Moves.same hg rfl (hg.nopanic.snoc rfl)
      split
      · rename_i g hok
        exact h0.trans (Moves.resolve h0.good hok hent.resolve_cond) (fun y hy => ⟨hy, hy⟩)
      · exact h0
  · -- any other kind with data
    rename_i hns hno
    have := hW.kinds_handled id item hitem (by rw [hdata]; rfl)
    rcases this with h | h
    · exact absurd h hns
    · exact absurd h hno

theorem processNodes_moves {P : Prepared} (hW : P.NotifyWF) (fns : Fns) (notify : R → R) (hN : NotifyOK P notify)
    (l : List (String × St)) : ∀ r : R, Good P r → (l.map Prod.fst).Nodup →
      (∀ x ∈ l, (lookup x.1 P.items).isSome = true ∧ (x.2 ≠ St.unres → Entry P r.1.dag x.1)) →
      Moves P (fun y => y ∈ l.map Prod.fst) r (processNodes P fns notify r l) := by
  induction l with
  | nil => intro r hg _ _; exact Moves.refl hg
  | cons x rest ih =>
    intro r hg hnd hl
    obtain ⟨id, st⟩ := x
    simp only [List.map_cons, List.nodup_cons] at hnd
    unfold processNodes
    obtain ⟨hit, hent⟩ := hl (id, st) List.mem_cons_self
    have h1 := processNode_moves hW fns notify hN r id st hg hit hent
    dsimp only
    split
    · refine h1.weaken ?_
      intro y hy hyi
      exact hy (by simp [hyi])
    · refine h1.trans (ih _ h1.good hnd.2 ?_) ?_
      · intro x hx
        obtain ⟨hit', hent'⟩ := hl x (List.mem_cons_of_mem _ hx)
        refine ⟨hit', fun hs => (hent' hs).mono (h1.keep _ ?_) h1.gle⟩
        intro hxi
        apply hnd.1
        rw [← hxi]
        exact List.mem_map_of_mem hx
      · intro y hy
        simp only [List.map_cons, List.mem_cons, not_or] at hy
        exact ⟨hy.1, hy.2⟩

theorem popReady_ids_nodup (g : Graph String) (h : g.ready.Nodup) : (g.popReady.1.map Prod.fst).Nodup := by
  unfold Graph.popReady
  simp only
  have : ∀ l : List String, l.Nodup →
      ((l.filterMap (fun id => (g.statusOf id).map (fun s => (id, s)))).map Prod.fst).Nodup ∧
      ∀ a, a ∈ (l.filterMap (fun id => (g.statusOf id).map (fun s => (id, s)))).map Prod.fst → a ∈ l := by
    intro l
    induction l with
    | nil => intro _; exact ⟨List.nodup_nil, fun _ h => nomatch h⟩
    | cons a l ih =>
      intro hl
      simp only [List.nodup_cons] at hl
      obtain ⟨ih1, ih2⟩ := ih hl.2
      simp only [List.filterMap_cons]
      cases hs : g.statusOf a with
      | none =>
        simp only [Option.map_none]
        exact ⟨ih1, fun b hb => List.mem_cons_of_mem _ (ih2 b hb)⟩
      | some s =>
        simp only [Option.map_some, List.map_cons, List.nodup_cons, List.mem_cons]
        refine ⟨⟨fun hmem => hl.1 (ih2 a hmem), ih1⟩, ?_⟩
        intro b hb
        rcases hb with hb | hb
        · exact Or.inl hb
        · exact Or.inr (ih2 b hb)
  exact (this g.ready h).1

theorem notifySteps_moves {P : Prepared} (hW : P.NotifyWF) (fns : Fns) (ord : Order) (hord : OrdOK ord)
    (hnd : OrdNodup ord) (f : Nat) : NotifyOK P (notifySteps P fns ord f) := by
  induction f with
  | zero => intro r hg; exact Moves.refl hg
  | succ f ih =>
    intro r hg
    unfold notifySteps
    split
    · exact Moves.refl hg
    dsimp only
    have hg0 : Good P ({ r.1 with dag := r.1.dag.popReady.2 }, r.2) := ⟨hg.safe.popReady, hg.nopanic⟩
    have h0 : Moves P (fun _ => False) r ({ r.1 with dag := r.1.dag.popReady.2 }, r.2) :=
      ⟨hg0, GLe.popReady hg.safe.inv, fun y _ => KeepY.popReady y _⟩
    have hmem : ∀ x ∈ ord r.1.dag.popReady.1, x.1 ∈ r.1.dag.ready ∧ ∃ n, r.1.dag.find? x.1 = some n ∧ n.status = x.2 :=
      fun x hx => Graph.mem_popReady (hord _ x hx)
    have h1 := processNodes_moves hW fns (notifySteps P fns ord f) ih (ord r.1.dag.popReady.1)
      ({ r.1 with dag := r.1.dag.popReady.2 }, r.2) hg0 (hnd _ (popReady_ids_nodup _ hg.safe.ready_nodup)) (by
        intro x hx
        obtain ⟨hr, n, hn, hs⟩ := hmem x hx
        obtain ⟨hnm, hnid⟩ := Graph.find?_some hn
        refine ⟨?_, ?_⟩
        · have : n.id ∈ P.dag.nodes.map (·.id) := by
            rw [← hg.safe.ids]; exact List.mem_map_of_mem hnm
          obtain ⟨n0, hn0, hid0⟩ := List.mem_map.1 this
          have := hW.items_nodes n0 hn0
          rw [hid0, hnid] at this
          exact this
        · intro hsu
          have hnu : n.status ≠ St.unres := by rw [hs]; exact hsu
          obtain ⟨hand, _, hor⟩ := Graph.ready_sound r.1.dag hg.safe.inv x.1 n hr hn hnu
          have hsoft : allSoft n.out := by
            obtain ⟨n', hn', hc⟩ := hg.safe.inv.ready_ok x.1 hr
            rw [hn] at hn'; cases hn'
            exact hc.resolve_left hnu
          refine ⟨n, hn, hsoft, (fun h => nomatch h), ⟨?_, ?_⟩, ?_⟩
          · intro ed he h1 h2
            obtain ⟨m, hm⟩ := Graph.has_iff.1 (hg.safe.inv.edge_nodes ed he).1
            exact ⟨m, hm, (hand ed he h1 h2 m hm).1⟩
          · intro hex
            obtain ⟨q, hq, hq2, _⟩ := hor hex
            exact ⟨q, hq, hq2⟩
          · intro hgr
            have := hg.safe.ready_group x.1 hr hgr n hn
            cases hst : n.status with
            | waiting => rfl
            | resolved => exact absurd hst this
            | unres => exact absurd hst hnu)
    refine ⟨h1.good, h0.gle.trans h1.gle, ?_⟩
    intro y _ n hn hsoft hnr
    refine ((h0.keep y (fun h => h)).trans (h1.keep y ?_)) n hn hsoft hnr
    intro hy
    obtain ⟨x, hx, rfl⟩ := List.mem_map.1 hy
    exact hnr (hmem x hx).1

end Arca.Model
