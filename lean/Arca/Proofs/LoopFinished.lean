/-
The bookkeeping of finished stages (`loopState.finishedStages`) and what the run loop does with it when a step reports
its completion (`markRemainingStagesUnresolvable`, repair of finding F11).

* `FinishedInv P s` — the invariant that makes the new marking step safe: a declared stage that is NOT recorded as
  finished has neither its stage node nor any of its declared output nodes `resolved` (so marking them unresolvable
  cannot be refused by the graph library).  Maintained by every callback that names a declared stage / declared
  output (`react_finished_inv`); needs unambiguous node ids (`Prepared.StageUnamb`, `WF.output_unamb`).
* `Settled g id` — the node is not left `waiting`; `StepSettled P g step` — every stage node and every declared
  stage-output node of `step` is settled.  `FinConv P s` — the converse bookkeeping invariant: stages recorded as
  finished have their stage node and their declared outputs settled (while the loop is alive).
-/
import Arca.Model.RunLoop
import Arca.Proofs.LoopDag

set_option linter.unusedVariables false

namespace Arca.Model

/-- node ids of stage nodes are unambiguous: the id the run loop computes for a declared (step, stage) belongs to an
    item of that step and stage.  (Without it an id such as `steps.a.b.c` can be read as step `a`, stage `b.c` by the
    lifecycle of `a` and as step `a.b`, stage `c` by the callback of `a.b`.) -/
def Prepared.StageUnamb (P : Prepared) : Prop :=
  ∀ step stage it, P.declares step stage → lookup (stageNodeId step stage) P.items = some it →
    it.step = step ∧ it.stage = stage

/-- declared stages outside `f` have no `resolved` stage node and no `resolved` declared output node in `g` -/
def FinOK (P : Prepared) (g : Graph String) (f : List (String × String)) : Prop :=
  ∀ step stage, P.declares step stage → (step, stage) ∉ f →
    ¬ statusIs g (stageNodeId step stage) St.resolved ∧
    ∀ o ∈ P.outputsOf step stage, ¬ statusIs g (outputNodeId step stage o) St.resolved

/-- every resolved stage node / stage-output node of a declared stage belongs to a stage recorded as finished -/
def FinishedInv (P : Prepared) (s : LoopState) : Prop := FinOK P s.dag s.finished

/-- no stage node or declared output node of a declared stage is `resolved` in `g'` that was not already in `g` -/
def DeclNoNew (P : Prepared) (g g' : Graph String) : Prop :=
  ∀ step stage, P.declares step stage →
    (statusIs g' (stageNodeId step stage) St.resolved → statusIs g (stageNodeId step stage) St.resolved) ∧
    ∀ o ∈ P.outputsOf step stage,
      statusIs g' (outputNodeId step stage o) St.resolved → statusIs g (outputNodeId step stage o) St.resolved

theorem DeclNoNew.refl (P : Prepared) (g : Graph String) : DeclNoNew P g g :=
  fun _ _ _ => ⟨id, fun _ _ => id⟩

theorem DeclNoNew.trans {P : Prepared} {a b c : Graph String} (h1 : DeclNoNew P a b) (h2 : DeclNoNew P b c) :
    DeclNoNew P a c := fun step stage hd =>
  ⟨fun h => (h1 step stage hd).1 ((h2 step stage hd).1 h),
   fun o ho h => (h1 step stage hd).2 o ho ((h2 step stage hd).2 o ho h)⟩

theorem NoNewRes.decl {P : Prepared} {g g' : Graph String} (h : NoNewRes g g') : DeclNoNew P g g' :=
  fun _ _ _ => ⟨h _, fun _ _ => h _⟩

/-- an explicit resolution of a node that is no stage node / declared output node of a declared stage -/
theorem DeclNoNew.resolve {P : Prepared} {g g' : Graph String} {id : String} {st : St}
    (hok : g.resolve id st = .ok g')
    (hid : ∀ step stage, P.declares step stage →
      id ≠ stageNodeId step stage ∧ ∀ o ∈ P.outputsOf step stage, id ≠ outputNodeId step stage o) :
    DeclNoNew P g g' := by
  intro step stage hd
  refine ⟨fun hx => ?_, fun o ho hx => ?_⟩
  · rcases resolve_newRes hok hx with ⟨heq, _⟩ | h
    · exact absurd heq.symm (hid step stage hd).1
    · exact h
  · rcases resolve_newRes hok hx with ⟨heq, _⟩ | h
    · exact absurd heq.symm ((hid step stage hd).2 o ho)
    · exact h

theorem FinOK.mono {P : Prepared} {g g' : Graph String} {f f' : List (String × String)} (h : FinOK P g f)
    (hn : DeclNoNew P g g') (hf : ∀ x ∈ f, x ∈ f') : FinOK P g' f' := by
  intro step stage hd hnm
  obtain ⟨h1, h2⟩ := h step stage hd (fun hm => hnm (hf _ hm))
  exact ⟨fun hx => h1 ((hn step stage hd).1 hx), fun o ho hx => h2 o ho ((hn step stage hd).2 o ho hx)⟩

/-- a node of the run's graph has an item -/
theorem item_of_node {P : Prepared} (hP : P.WF) {g : Graph String}
    (hids : g.nodes.map (·.id) = P.dag.nodes.map (·.id)) {id : String} {st : St} (h : statusIs g id st) :
    ∃ it, lookup id P.items = some it := by
  obtain ⟨n, hn, _⟩ := h
  obtain ⟨hnm, hnid⟩ := Graph.find?_some hn
  have hmem : n.id ∈ P.dag.nodes.map (·.id) := by
    rw [← hids]; exact List.mem_map_of_mem hnm
  obtain ⟨n0, hn0, hid0⟩ := List.mem_map.1 hmem
  have := hP.items_nodes n0 hn0
  rw [hid0, hnid] at this
  cases hl : lookup id P.items with
  | none => rw [hl] at this; cases this
  | some it => exact ⟨it, rfl⟩

/-- the stage node of a declared stage is resolved and the stage is recorded as finished -/
theorem FinOK.resolve_stage {P : Prepared} (hP : P.WF) (hun : P.StageUnamb) {g g' : Graph String}
    {f : List (String × String)} (hids : g.nodes.map (·.id) = P.dag.nodes.map (·.id)) (h : FinOK P g f)
    {step prev : String} (hdecl : P.declares step prev)
    (hok : g.resolve (stageNodeId step prev) St.resolved = .ok g') : FinOK P g' ((step, prev) :: f) := by
  have hids' : g'.nodes.map (·.id) = P.dag.nodes.map (·.id) := (Graph.resolve_frame g g' _ _ hok).2.trans hids
  intro step' stage' hd' hnm
  have hne : (step', stage') ≠ (step, prev) := fun he => hnm (he ▸ List.mem_cons_self)
  have hnf : (step', stage') ∉ f := fun hm => hnm (List.mem_cons_of_mem _ hm)
  obtain ⟨h1, h2⟩ := h step' stage' hd' hnf
  refine ⟨fun hx => ?_, fun o ho hx => ?_⟩
  · rcases resolve_newRes hok hx with ⟨heq, _⟩ | hold
    · obtain ⟨it, hit⟩ := item_of_node hP hids' hx
      obtain ⟨a1, a2⟩ := hun step' stage' it hd' hit
      obtain ⟨b1, b2⟩ := hun step prev it hdecl (heq ▸ hit)
      exact hne (by rw [← a1, ← a2, b1, b2])
    · exact h1 hold
  · rcases resolve_newRes hok hx with ⟨heq, _⟩ | hold
    · obtain ⟨it, hit⟩ := item_of_node hP hids' hx
      have k1 := hP.output_kind step' stage' o it hd' ho hit
      have k2 := hP.stage_kind step prev it hdecl (heq ▸ hit)
      rw [k1] at k2; cases k2
    · exact h2 o ho hold

/-- a declared output node of a stage already recorded as finished is resolved -/
theorem FinOK.resolve_output {P : Prepared} (hP : P.WF) {g g' : Graph String}
    {f : List (String × String)} (hids : g.nodes.map (·.id) = P.dag.nodes.map (·.id)) (h : FinOK P g f)
    {step prev oid : String} (hdecl : P.declares step prev) (hoid : oid ∈ P.outputsOf step prev)
    (hmem : (step, prev) ∈ f)
    (hok : g.resolve (outputNodeId step prev oid) St.resolved = .ok g') : FinOK P g' f := by
  have hids' : g'.nodes.map (·.id) = P.dag.nodes.map (·.id) := (Graph.resolve_frame g g' _ _ hok).2.trans hids
  intro step' stage' hd' hnf
  obtain ⟨h1, h2⟩ := h step' stage' hd' hnf
  refine ⟨fun hx => ?_, fun o ho hx => ?_⟩
  · rcases resolve_newRes hok hx with ⟨heq, _⟩ | hold
    · obtain ⟨it, hit⟩ := item_of_node hP hids' hx
      have k1 := hP.stage_kind step' stage' it hd' hit
      have k2 := hP.output_kind step prev oid it hdecl hoid (heq ▸ hit)
      rw [k1] at k2; cases k2
    · exact h1 hold
  · rcases resolve_newRes hok hx with ⟨heq, _⟩ | hold
    · obtain ⟨it, hit⟩ := item_of_node hP hids' hx
      have k1 := hP.output_kind step' stage' o it hd' ho hit
      obtain ⟨a1, a2⟩ := hP.output_unamb step' stage' o it hd' ho hit k1
      obtain ⟨b1, b2⟩ := hP.output_unamb step prev oid it hdecl hoid (heq ▸ hit) k1
      exact hnf (by rw [← a1, ← a2, b1, b2]; exact hmem)
    · exact h2 o ho hold

theorem input_ne_stageNodeId (a b : String) : "input" ≠ stageNodeId a b := by
  unfold stageNodeId
  intro h
  have := congrArg String.toList h
  simp [String.toList_append] at this

/-! ### the refined primitive steps of `notifySteps` keep `FinishedInv` -/

section Steps
variable {P : Prepared} {fns : Fns} {gb : Graph String} {kn : Prop}

theorem stepN_declNoNew (hP : P.WF) {a b : R} (h : StepN P fns gb kn a b) : DeclNoNew P a.1.dag b.1.dag := by
  cases h
  case popReady => exact fun _ _ _ => ⟨id, fun _ _ => id⟩
  case resolveItem id it g' hit hk hok =>
    refine DeclNoNew.resolve hok ?_
    intro step stage hd
    refine ⟨fun heq => ?_, fun o ho heq => ?_⟩
    · have := hP.stage_kind step stage it hd (heq ▸ hit)
      rcases hk with hk | hk <;> rw [hk] at this <;> cases this
    · have := hP.output_kind step stage o it hd ho (heq ▸ hit)
      rcases hk with hk | hk <;> rw [hk] at this <;> cases this
  all_goals try simp only [emit, Arca.Model.die, Arca.Model.sendErr, doCancel]
  all_goals repeat' split
  all_goals exact DeclNoNew.refl _ _

theorem starN_declNoNew (hP : P.WF) {a b : R} (h : Star (StepN P fns gb kn) a b) : DeclNoNew P a.1.dag b.1.dag := by
  induction h with
  | refl => exact DeclNoNew.refl _ _
  | tail _ s ih => exact ih.trans (stepN_declNoNew hP s)

/-- `notifySteps` records nothing as finished and resolves no stage / stage-output node of a declared stage -/
theorem notifySteps_fin (hP : P.WF) (ord : Order) (f : Nat) (r : R) (hinv : r.1.dag.Inv) :
    (notifySteps P fns ord f r).1.finished = r.1.finished ∧
      DeclNoNew P r.1.dag (notifySteps P fns ord f r).1.dag := by
  have h := notifySteps_reachN (P := P) (fns := fns) (gb := r.1.dag) (kn := False) ord (fun h => h.elim) f r
    (GLe.refl hinv)
  exact ⟨starN_finished h, starN_declNoNew hP h⟩

theorem FinishedInv.quiet {r r' : R} (h : FinishedInv P r.1) (q : Quiet r r') : FinishedInv P r'.1 :=
  FinOK.mono h q.nonew.decl (fun x hx => by rw [q.fin]; exact hx)

theorem finishStage_fin (hP : P.WF) (ord : Order) (step : String) (complete : Bool) (r : R) (hinv : r.1.dag.Inv)
    (h : FinishedInv P r.1) : FinishedInv P (finishStage P fns ord step complete r).1 := by
  unfold finishStage
  split
  · have q := markRemaining_quiet (P := P) step r hinv
    obtain ⟨h1, h2⟩ := notifySteps_fin (fns := fns) hP ord (notifyFuel P) (markRemaining P step r) q.gle.inv
    exact FinOK.mono (h.quiet q) h2 (fun x hx => by rw [h1]; exact hx)
  · obtain ⟨h1, h2⟩ := notifySteps_fin (fns := fns) hP ord (notifyFuel P) r hinv
    exact FinOK.mono h h2 (fun x hx => by rw [h1]; exact hx)

end Steps

/-! ### every callback that names declared stages and outputs keeps `FinishedInv` -/

section React
variable {P : Prepared}

theorem finishedInv_congr {s t : LoopState} (h : FinishedInv P s) (hdag : t.dag = s.dag)
    (hfin : t.finished = s.finished) : FinishedInv P t := by
  unfold FinishedInv
  rw [hdag, hfin]
  exact h

theorem cancel_sendErr_fin (cap : Nat) (r : R) (k : ErrKind) :
    (doCancel (sendErr cap r k)).1.finished = r.1.finished := by
  simp only [doCancel, Arca.Model.sendErr]
  repeat' split
  all_goals rfl

theorem onStageCompleteBody_fin (hP : P.WF) (hun : P.StageUnamb) (fns : Fns) (ord : Order) (step prev : String)
    (out : Option (String × Val)) (complete : Bool) (s : LoopState) (acts : List Action) (hinv : s.dag.Inv)
    (hids : s.dag.nodes.map (·.id) = P.dag.nodes.map (·.id)) (hf : FinishedInv P s) (hdecl : P.declares step prev)
    (hout : ∀ oid v, out = some (oid, v) → oid ∈ P.outputsOf step prev) :
    FinishedInv P (onStageCompleteBody P fns ord step prev out complete (s, acts)).1 := by
  unfold onStageCompleteBody
  dsimp only
  split
  · exact finishedInv_congr hf (cancel_sendErr_same P.errCap (s, acts) _).1 (cancel_sendErr_fin _ _ _)
  split
  · exact hf
  · exact hf
  · exact finishedInv_congr hf (cancel_sendErr_same P.errCap (s, acts) _).1 (cancel_sendErr_fin _ _ _)
  rename_i g hok
  have hle1 := GLe.resolve hinv hok
  have hids1 : g.nodes.map (·.id) = P.dag.nodes.map (·.id) := hle1.ids.trans hids
  have hf1 : FinOK P g ((step, prev) :: s.finished) := FinOK.resolve_stage hP hun hids hf hdecl hok
  split
  · exact finishStage_fin hP ord step complete ({ s with dag := g, finished := (step, prev) :: s.finished }, acts)
      hle1.inv hf1
  rename_i oid v
  split
  · exact finishedInv_congr (s := { s with dag := g, finished := (step, prev) :: s.finished }) hf1
      (cancel_sendErr_same P.errCap _ _).1 (cancel_sendErr_fin _ _ _)
  split
  · exact hf1
  · exact hf1
  · exact finishedInv_congr (s := { s with dag := g, finished := (step, prev) :: s.finished }) hf1
      (cancel_sendErr_same P.errCap _ _).1 (cancel_sendErr_fin _ _ _)
  rename_i g2 hok2
  have hle2 := GLe.resolve hle1.inv hok2
  have hf2 : FinOK P g2 ((step, prev) :: s.finished) :=
    FinOK.resolve_output hP hids1 hf1 hdecl (hout oid v rfl) List.mem_cons_self hok2
  obtain ⟨q, _⟩ := markOutputsUnres_props (P := P) step prev (some oid)
    ({ s with dag := g2, finished := (step, prev) :: s.finished }, acts) hle2.inv
  have hf3 : FinishedInv P (markOutputsUnres P step prev (some oid)
      ({ s with dag := g2, finished := (step, prev) :: s.finished }, acts)).1 :=
    FinishedInv.quiet (r := ({ s with dag := g2, finished := (step, prev) :: s.finished }, acts)) hf2 q
  split
  · exact hf3
  · exact finishStage_fin hP ord step complete _ q.gle.inv hf3

theorem react_finished_inv (P : Prepared) (fns : Fns) (ord : Order) (hP : P.WF) (hun : P.StageUnamb) (s : LoopState)
    (e : Event) (h : LoopDagInv P s) (hf : FinishedInv P s) (hev : EventDeclared P e) :
    FinishedInv P (react P fns ord s e).1 := by
  unfold react
  split
  · exact hf
  split
  · -- start
    rename_i input
    dsimp only
    have hf0 : FinishedInv P { s with data := initData P input, dag := s.dag.pushStarting } :=
      FinOK.mono hf (fun _ _ _ => ⟨id, fun _ _ => id⟩) (fun _ h => h)
    split
    · exact hf0
    split
    · exact hf0
    · rename_i g hok
      have hle := GLe.resolve (Graph.inv_pushStarting _ h.inv) hok
      have hn : DeclNoNew P s.dag.pushStarting g := by
        refine DeclNoNew.resolve hok ?_
        intro step stage _
        exact ⟨input_ne_stageNodeId _ _, fun o _ => input_ne_outputNodeId _ _ _⟩
      have hf1 : FinishedInv P { s with data := initData P input, dag := g } :=
        FinOK.mono hf0 hn (fun _ h => h)
      obtain ⟨h1, h2⟩ := notifySteps_fin (fns := fns) hP ord (notifyFuel P)
        ({ s with data := initData P input, dag := g }, []) hle.inv
      exact FinOK.mono hf1 h2 (fun x hx => by rw [h1]; exact hx)
  · -- stageChange
    split
    · exact hf
    · rename_i step out busy _ p
      obtain ⟨_, h2, _⟩ := checkDeadlock_quiet (P := P) 3 busy (onStageCompleteBody P fns ord step p out false (s, []))
      exact finishedInv_congr
        (onStageCompleteBody_fin hP hun fns ord step p out false s [] h.inv h.ids hf hev.1 hev.2) h2
        (checkDeadlock_finished _ _ _)
  · -- stepComplete
    rename_i step prev out busy
    obtain ⟨_, h2, _⟩ := checkDeadlock_quiet (P := P) 3 busy (onStageCompleteBody P fns ord step prev out true (s, []))
    exact finishedInv_congr
      (onStageCompleteBody_fin hP hun fns ord step prev out true s [] h.inv h.ids hf hev.1 hev.2) h2
      (checkDeadlock_finished _ _ _)
  · -- stageFail
    rename_i step stage
    dsimp only
    obtain ⟨q1, _⟩ := markOutputsUnres_props (P := P) step stage none (s, []) h.inv
    have q2 := markStageUnres_quiet step stage (markOutputsUnres P step stage none (s, [])) q1.gle.inv
    have q := q1.trans q2
    have hf1 := FinishedInv.quiet (r := (s, [])) hf q
    split
    · exact hf1
    · obtain ⟨h1, h2⟩ := notifySteps_fin (fns := fns) hP ord (notifyFuel P)
        (markStageUnres step stage (markOutputsUnres P step stage none (s, []))) q.gle.inv
      exact FinOK.mono hf1 h2 (fun x hx => by rw [h1]; exact hx)
  · -- tick
    split
    · exact hf
    · rename_i retries busy _
      obtain ⟨_, h2, _⟩ := checkDeadlock_quiet (P := P) retries busy (s, [])
      exact finishedInv_congr hf h2 (checkDeadlock_finished _ _ _)
  · -- drain
    exact hf

/-- the initial state: nothing is resolved -/
theorem init_finished_inv (P : Prepared) (hP : P.WF) : FinishedInv P (LoopState.init P) := by
  intro step stage _ _
  have hw : ∀ id, ¬ statusIs (LoopState.init P).dag id St.resolved := by
    rintro id ⟨n, hn, hs⟩
    have := (hP.fresh n (Graph.find?_some hn).1).1
    rw [this] at hs
    cases hs
  exact ⟨hw _, fun _ _ => hw _⟩

end React

end Arca.Model
