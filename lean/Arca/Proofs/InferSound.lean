/-
Helper lemmas for `Arca.Props.C08Infer`: soundness of the model of `infer.Type` on homogeneous literals.
-/
import Arca.Model.Infer

namespace Arca.Proofs.InferSound
open Arca.Model.Infer

/-- once `foundType` is set, `sliceItemType` never changes it -/
theorem inferItems_found : (rest : Lits) → (f : ITy) → (r : Option ITy) →
    inferItems rest (some f) = some r → r = some f
  | .nil, f, r, h => by
    simp only [inferItems] at h
    cases h; rfl
  | .cons x rest, f, r, h => by
    simp only [inferItems] at h
    split at h
    · cases h
    · split at h
      · exact inferItems_found rest f r h
      · cases h

/-- an inferred type accepts a value only if the value's own inferred type has the same `TypeID()` -/
theorem accepts_tid (t u : ITy) (v : Lit) (ha : accepts t v = true) (hi : infer v = some u) : t.tid = u.tid := by
  cases t <;> cases v <;> simp [accepts] at ha <;> simp only [infer] at hi
  all_goals (try split at hi)
  all_goals (try cases hi)
  all_goals (try simp [ITy.tid])

mutual
  theorem sound_lit : (v : Lit) → (t : ITy) → infer v = some t → wf v = true → homog v = true → accepts t v = true
    | .null, t, hi, _, _ => by simp [infer] at hi
    | .str _, t, hi, _, _ => by simp only [infer] at hi; cases hi; simp [accepts]
    | .int lo hi' i, t, hi, hw, _ => by
      simp only [infer] at hi; cases hi
      simpa [accepts, wf] using hw
    | .float, t, hi, _, _ => by simp only [infer] at hi; cases hi; simp [accepts]
    | .bool _, t, hi, _, _ => by simp only [infer] at hi; cases hi; simp [accepts]
    | .list .nil, t, hi, _, _ => by
      simp only [infer, inferItems] at hi; cases hi; simp [accepts, acceptsAll]
    | .list (.cons x rest), t, hi, hw, hh => by
      simp only [infer, inferItems] at hi
      cases hx : infer x with
      | none => simp [hx] at hi
      | some t0 =>
        simp only [hx] at hi
        cases hr : inferItems rest (some t0) with
        | none => simp [hr] at hi
        | some r =>
          have hr' := inferItems_found rest t0 r hr
          subst hr'
          simp only [hr] at hi
          cases hi
          simp only [wf, wfItems, Bool.and_eq_true] at hw
          simp only [homog, homogItems, hx, Bool.and_eq_true] at hh
          simp only [accepts, acceptsAll, Bool.and_eq_true]
          exact ⟨sound_lit x t0 hx hw.1 hh.1.1, hh.2⟩
    | .obj fs, t, hi, hw, hh => by
      simp only [infer] at hi
      cases hf : inferFields fs with
      | none => simp [hf] at hi
      | some ps =>
        simp only [hf] at hi
        cases hi
        simp only [wf] at hw
        simp only [homog] at hh
        simp only [accepts]
        exact sound_fields fs ps hf hw hh
  theorem sound_fields : (fs : Fields) → (ps : IProps) → inferFields fs = some ps → wfFields fs = true →
      homogFields fs = true → acceptsObj ps fs = true
    | .nil, ps, hf, _, _ => by simp only [inferFields] at hf; cases hf; simp [acceptsObj]
    | .cons k v rest, ps, hf, hw, hh => by
      simp only [inferFields] at hf
      cases hv : infer v with
      | none => simp [hv] at hf
      | some t =>
        simp only [hv] at hf
        cases hr : inferFields rest with
        | none => simp [hr] at hf
        | some ps' =>
          simp only [hr] at hf
          cases hf
          simp only [wfFields, Bool.and_eq_true] at hw
          simp only [homogFields, Bool.and_eq_true] at hh
          simp only [acceptsObj, Bool.and_eq_true, decide_eq_true_eq]
          exact ⟨⟨trivial, sound_lit v t hv hw.1 hh.1⟩, sound_fields rest ps' hr hw.2 hh.2⟩
end

/-- for a homogeneous list, the real TypeID test passes: what `homog` demands implies what `sliceItemType` checks -/
theorem homog_items_same_tid (t : ITy) : (rest : Lits) → acceptsAll t rest = true →
    (∀ r, inferItems rest (some t) = some r → r = some t) := fun rest _ r h => inferItems_found rest t r h

end Arca.Proofs.InferSound
