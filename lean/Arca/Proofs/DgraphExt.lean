/-
The handle layer of `Model/DgraphExt.lean` (what `arcadrv dgraph` runs against the real library) IS the core model
`Model/Dgraph.lean` on every graph that is built with the core operations only.

`HGraph.connect` goes through `Graph.connectOver` (an entry left by a removed connection is overwritten) and
`HGraph.resolve` through `Graph.normRes` (a second resolution entry for one source overwrites the first).  Both deviations
exist only for graphs on which `Remove` / `Disconnect*` were used.  `Graph.Tidy` - every outstanding / resolved entry
belongs to a connection, no source is listed twice as resolved or both as outstanding and resolved - is kept by EVERY core
operation, without side conditions (`Graph.Built.tidy`), and on tidy graphs the handle layer with no removed nodes computes
exactly `Graph.addNode` / `Graph.connect` / `Graph.resolve` (`HGraph.agrees_on_built`).  So the differential check of the
handle layer is a differential check of the core model for all sequences of operations the engine can perform.
-/
import Arca.Proofs.DgraphInv
import Arca.Model.DgraphExt

set_option linter.unusedSectionVars false

namespace Arca.Model

variable {ι : Type} [DecidableEq ι]

/-! ## Tidy graphs -/

def hasE (E : List (ι × ι × Dep)) (a b : ι) : Bool := E.any (fun e => e.1 = a ∧ e.2.1 = b)

theorem Graph.hasEdge_eq (g : Graph ι) (a b : ι) : g.hasEdge a b = hasE g.edges a b := rfl

theorem hasE_append {E E' : List (ι × ι × Dep)} {a b : ι} (h : hasE E a b = true) : hasE (E ++ E') a b = true := by
  unfold hasE at *
  rw [List.any_append, h, Bool.true_or]

structure NodeTidy (E : List (ι × ι × Dep)) (n : Node ι) : Prop where
  out_edge : ∀ p ∈ n.out, hasE E p.1 n.id = true
  res_edge : ∀ p ∈ n.res, hasE E p.1 n.id = true
  res_nodup : (keys n.res).Nodup
  disj : ∀ a ∈ keys n.out, a ∉ keys n.res

/-- every outstanding / resolved entry belongs to a connection; no source is resolved twice or both outstanding and resolved -/
def Graph.Tidy (g : Graph ι) : Prop := ∀ n ∈ g.nodes, NodeTidy g.edges n

theorem NodeTidy.mono {E E' : List (ι × ι × Dep)} {n : Node ι} (h : NodeTidy E n) : NodeTidy (E ++ E') n :=
  ⟨fun p hp => hasE_append (h.out_edge p hp), fun p hp => hasE_append (h.res_edge p hp), h.res_nodup, h.disj⟩

theorem NodeTidy.status {E : List (ι × ι × Dep)} {n : Node ι} (h : NodeTidy E n) (st : St) :
    NodeTidy E { n with status := st } :=
  ⟨h.out_edge, h.res_edge, h.res_nodup, h.disj⟩

theorem Graph.Tidy.setNode {g : Graph ι} (h : g.Tidy) {n' : Node ι} (hn : NodeTidy g.edges n') (r : List ι) :
    ({ g.setNode n' with ready := r } : Graph ι).Tidy := by
  intro m hm
  have hm' : m ∈ (g.setNode n').nodes := hm
  rcases Graph.mem_setNode hm' with ⟨hmem, _⟩ | rfl
  · exact h m hmem
  · exact hn

theorem Graph.Tidy.of_nodes_edges {g g' : Graph ι} (h : g.Tidy) (hn : g'.nodes = g.nodes) (he : g'.edges = g.edges) :
    g'.Tidy := by
  intro m hm
  rw [he]
  exact h m (hn ▸ hm)

/-! ## Every core operation keeps a graph tidy -/

theorem Graph.tidy_empty : (Graph.empty : Graph ι).Tidy := by
  intro n hn
  simp [Graph.empty] at hn

theorem Graph.tidy_addNode {g g' : Graph ι} {id : ι} (h : g.Tidy) (hok : g.addNode id = .ok g') : g'.Tidy := by
  unfold Graph.addNode at hok
  split at hok
  · cases hok
  · simp only [Except.ok.injEq] at hok
    subst hok
    intro m hm
    simp only [List.mem_append, List.mem_singleton] at hm
    rcases hm with hm | rfl
    · exact h m hm
    · exact ⟨by simp, by simp, by simp [keys], by simp [keys]⟩

theorem Graph.tidy_connect {g g' : Graph ι} {src dst : ι} {d : Dep} (h : g.Tidy)
    (hok : g.connect src dst d = .ok g') : g'.Tidy := by
  unfold Graph.connect at hok
  split at hok
  · cases hok
  · cases hok
  rename_i m n hm hn
  split at hok
  · cases hok
  split at hok
  · cases hok
  rename_i hne hedge
  simp only [Except.ok.injEq] at hok
  subst hok
  obtain ⟨hnmem, hnid⟩ := Graph.find?_some hn
  have hnt := h n hnmem
  have hnew : hasE (g.edges ++ [(src, dst, d)]) src dst = true := by
    unfold hasE
    simp
  have hedge' : hasE g.edges src n.id = false := by
    rw [hnid, ← Graph.hasEdge_eq]
    simpa using hedge
  have hsrc : src ∉ keys n.res := by
    intro hs
    obtain ⟨p, hp, rfl⟩ := mem_keys.1 hs
    have := hnt.res_edge p hp
    rw [hedge'] at this
    cases this
  intro k hk
  have hk' : k ∈ (({ g with edges := g.edges ++ [(src, dst, d)] } : Graph ι).setNode
      { n with out := n.out ++ [(src, d)] }).nodes := hk
  rcases Graph.mem_setNode hk' with ⟨hmem, _⟩ | rfl
  · exact (h k hmem).mono
  · refine ⟨?_, fun p hp => hasE_append (hnt.res_edge p hp), hnt.res_nodup, ?_⟩
    · intro p hp
      simp only [List.mem_append, List.mem_singleton] at hp
      rcases hp with hp | rfl
      · exact hasE_append (hnt.out_edge p hp)
      · simpa [hnid] using hnew
    · intro a ha
      simp only [keys_append, List.mem_append] at ha
      rcases ha with ha | ha
      · exact hnt.disj a ha
      · simp only [keys, List.map_cons, List.map_nil, List.mem_singleton] at ha
        subst ha
        exact hsrc

theorem Graph.tidy_pushStarting {g : Graph ι} (h : g.Tidy) : g.pushStarting.Tidy :=
  h.of_nodes_edges rfl rfl

theorem Graph.tidy_popReady {g : Graph ι} (h : g.Tidy) : g.popReady.2.Tidy :=
  h.of_nodes_edges rfl rfl

theorem Graph.tidy_clone {g : Graph ι} (h : g.Tidy) : g.clone.Tidy :=
  h.of_nodes_edges rfl rfl

theorem DepStep.nodeTidy {g : Graph ι} {n n' : Node ι} {s : ι} {st : St} {dt : Dep} {r' : List ι} {turned : Bool}
    (hn : NodeTidy g.edges n) (hs : alookup s n.out = some dt) (h : DepStep g n s st dt n' r' turned) :
    NodeTidy g.edges n' := by
  have hsmem : (s, dt) ∈ n.out := alookup_some_mem hs
  have hskey : s ∈ keys n.out := mem_keys_of_mem hsmem
  have hsres : s ∉ keys n.res := hn.disj s hskey
  -- the resolved list: unchanged or extended by the entry that was outstanding
  have hres : ∀ r2 : List (ι × Dep), (r2 = n.res ∨ r2 = n.res ++ [(s, dt)]) →
      (∀ p ∈ r2, hasE g.edges p.1 n.id = true) ∧ (keys r2).Nodup ∧
      (∀ a, a ∈ keys n.out → a ≠ s → a ∉ keys r2) := by
    intro r2 hr2
    rcases hr2 with rfl | rfl
    · exact ⟨hn.res_edge, hn.res_nodup, fun a ha _ => hn.disj a ha⟩
    · refine ⟨?_, ?_, ?_⟩
      · intro p hp
        simp only [List.mem_append, List.mem_singleton] at hp
        rcases hp with hp | rfl
        · exact hn.res_edge p hp
        · exact hn.out_edge _ hsmem
      · rw [keys_append]
        refine List.nodup_append.2 ⟨hn.res_nodup, by simp [keys], ?_⟩
        intro a ha b hb
        simp only [keys, List.map_cons, List.map_nil, List.mem_singleton] at hb
        subst hb
        rintro rfl
        exact hsres ha
      · intro a ha hne
        rw [keys_append, List.mem_append]
        rintro (h1 | h1)
        · exact hn.disj a ha h1
        · simp only [keys, List.map_cons, List.map_nil, List.mem_singleton] at h1
          exact hne h1
  have hrif : (if st = St.resolved then n.res ++ [(s, dt)] else n.res) = n.res ∨
      (if st = St.resolved then n.res ++ [(s, dt)] else n.res) = n.res ++ [(s, dt)] := by
    split
    · exact Or.inr rfl
    · exact Or.inl rfl
  -- the outstanding list: a sub-list (by keys) of the old one without `s`
  have mk : ∀ (o2 r2 : List (ι × Dep)) (st2 : St), (∀ p ∈ o2, ∃ q ∈ n.out, q.1 = p.1 ∧ p.1 ≠ s) →
      (r2 = n.res ∨ r2 = n.res ++ [(s, dt)]) →
      NodeTidy g.edges ({ n with out := o2, res := r2, status := st2 } : Node ι) := by
    intro o2 r2 st2 ho hr
    obtain ⟨h1, h2, h3⟩ := hres r2 hr
    refine ⟨?_, h1, h2, ?_⟩
    · intro p hp
      obtain ⟨q, hq, hqp, _⟩ := ho p hp
      have := hn.out_edge q hq
      rw [hqp] at this
      exact this
    · intro a ha
      obtain ⟨p, hp, rfl⟩ := mem_keys.1 ha
      obtain ⟨q, hq, hqp, hne⟩ := ho p hp
      exact h3 p.1 (hqp ▸ mem_keys_of_mem hq) hne
  have hae : ∀ p ∈ aerase s n.out, ∃ q ∈ n.out, q.1 = p.1 ∧ p.1 ≠ s := by
    intro p hp
    obtain ⟨h1, h2⟩ := mem_aerase.1 hp
    exact ⟨p, h1, rfl, h2⟩
  have hob : ∀ (d : Dep) (l : List (ι × Dep)), (∀ p ∈ l, ∃ q ∈ n.out, q.1 = p.1 ∧ p.1 ≠ s) →
      ∀ p ∈ obviate d l, ∃ q ∈ n.out, q.1 = p.1 ∧ p.1 ≠ s := by
    intro d l hl p hp
    obtain ⟨q, hq, rfl⟩ := mem_obviate.1 hp
    obtain ⟨q', hq', h1, h2⟩ := hl q hq
    refine ⟨q', hq', ?_, ?_⟩
    · split <;> simpa using h1
    · split <;> simpa using h2
  cases h with
  | soft _ => exact mk _ _ n.status hae hrif
  | failW _ _ _ => exact mk _ _ St.unres (hob _ _ hae) (Or.inl rfl)
  | failU _ _ _ => exact mk _ _ n.status (hob _ _ hae) (Or.inl rfl)
  | orWait _ _ _ => exact mk _ _ n.status hae (Or.inl rfl)
  | okReady o2 _ _ ho2 _ =>
    subst ho2
    refine mk _ _ n.status (hob _ _ ?_) hrif
    split
    · exact hob _ _ hae
    · exact hae
  | okWait o2 _ _ ho2 =>
    subst ho2
    refine mk _ _ n.status ?_ hrif
    split
    · exact hob _ _ hae
    · exact hae

theorem Graph.tidy_depResolved {g g' : Graph ι} {t s : ι} {st : St} {turned : Bool} (h : g.Tidy)
    (hok : g.depResolved t s st = .ok (g', turned)) : g'.Tidy := by
  obtain ⟨n, dt, n', r', hn, _, hdt, rfl, hstep⟩ := Graph.depResolved_ok hok
  exact h.setNode (hstep.nodeTidy (h n (Graph.find?_some hn).1) hdt) r'

theorem Graph.tidy_propagate (f : Nat) {g g' : Graph ι} {msgs : List (ι × ι × St)} (h : g.Tidy)
    (hok : Graph.propagate f g msgs = .ok g') : g'.Tidy := by
  induction f generalizing g msgs with
  | zero =>
    cases msgs with
    | nil => simp only [Graph.propagate, Except.ok.injEq] at hok; subst hok; exact h
    | cons x rest => simp [Graph.propagate] at hok
  | succ f ih =>
    cases msgs with
    | nil => simp only [Graph.propagate, Except.ok.injEq] at hok; subst hok; exact h
    | cons x rest =>
      obtain ⟨tgt, src, st⟩ := x
      simp only [Graph.propagate] at hok
      split at hok
      · cases hok
      · rename_i g1 turned hd
        exact ih (Graph.tidy_depResolved h hd) hok

theorem Graph.tidy_resolve {g g' : Graph ι} {id : ι} {st : St} (h : g.Tidy) (hok : g.resolve id st = .ok g') :
    g'.Tidy := by
  unfold Graph.resolve at hok
  split at hok
  · cases hok
  rename_i n hn
  split at hok
  · cases hok
  · split at hok
    · cases hok; exact h
    · cases hok
  · split at hok
    · cases hok; exact h
    · refine Graph.tidy_propagate _ ?_ hok
      have := h.setNode ((h n (Graph.find?_some hn).1).status st) g.ready
      exact this

/-- the graphs the engine can build: everything reachable from the empty graph with the operations of `Model/Dgraph.lean` -/
inductive Graph.Built : Graph ι → Prop
  | empty : Graph.Built Graph.empty
  | addNode {g g' : Graph ι} {id : ι} : Graph.Built g → g.addNode id = .ok g' → Graph.Built g'
  | connect {g g' : Graph ι} {src dst : ι} {d : Dep} : Graph.Built g → g.connect src dst d = .ok g' → Graph.Built g'
  | pushStarting {g : Graph ι} : Graph.Built g → Graph.Built g.pushStarting
  | popReady {g : Graph ι} : Graph.Built g → Graph.Built g.popReady.2
  | resolve {g g' : Graph ι} {id : ι} {st : St} : Graph.Built g → g.resolve id st = .ok g' → Graph.Built g'
  | clone {g : Graph ι} : Graph.Built g → Graph.Built g.clone

theorem Graph.Built.tidy {g : Graph ι} (h : g.Built) : g.Tidy := by
  induction h with
  | empty => exact Graph.tidy_empty
  | addNode _ hok ih => exact Graph.tidy_addNode ih hok
  | connect _ hok ih => exact Graph.tidy_connect ih hok
  | pushStarting _ ih => exact Graph.tidy_pushStarting ih
  | popReady _ ih => exact Graph.tidy_popReady ih
  | resolve _ hok ih => exact Graph.tidy_resolve ih hok
  | clone _ ih => exact Graph.tidy_clone ih

/-! ## On tidy graphs the handle layer is the core model -/

theorem aerase_eq_self {k : ι} {l : List (ι × Dep)} (h : k ∉ keys l) : aerase k l = l := by
  unfold aerase
  rw [List.filter_eq_self]
  intro p hp
  simp only [ne_eq, decide_eq_true_eq]
  intro hk
  exact h (hk ▸ mem_keys_of_mem hp)

theorem foldl_dedup (l acc : List (ι × Dep)) (h : (keys (acc ++ l)).Nodup) :
    l.foldl (fun acc p => aerase p.1 acc ++ [p]) acc = acc ++ l := by
  induction l generalizing acc with
  | nil => simp
  | cons p l ih =>
    have hp : p.1 ∉ keys acc := by
      intro hmem
      rw [keys_append] at h
      have := (List.nodup_append.1 h).2.2 p.1 hmem p.1 (by simp [keys])
      exact this rfl
    simp only [List.foldl_cons]
    rw [aerase_eq_self hp, ih]
    · simp
    · simpa using h

theorem dedupLast_eq_self {l : List (ι × Dep)} (h : (keys l).Nodup) : dedupLast l = l := by
  unfold dedupLast
  rw [foldl_dedup l [] (by simpa using h)]
  simp

theorem Graph.normRes_eq_self {g : Graph ι} (h : g.Tidy) : g.normRes = g := by
  unfold Graph.normRes
  have : g.nodes.map (fun n => ({ n with res := dedupLast n.res } : Node ι)) = g.nodes := by
    conv => rhs; rw [← List.map_id g.nodes]
    apply List.map_congr_left
    intro n hn
    rw [dedupLast_eq_self (h n hn).res_nodup]
    rfl
  rw [this]

theorem Graph.connectOver_eq_connect {g : Graph ι} (h : g.Tidy) (src dst : ι) (d : Dep) :
    g.connectOver src dst d = g.connect src dst d := by
  unfold Graph.connectOver
  split
  · rfl
  rename_i n hn
  split
  · rfl
  rename_i dt hdt
  -- an outstanding entry for `src` means that the connection exists: both sides refuse
  obtain ⟨hnmem, hnid⟩ := Graph.find?_some hn
  have hedge : g.hasEdge src dst = true := by
    have := (h n hnmem).out_edge _ (alookup_some_mem hdt)
    rw [Graph.hasEdge_eq, ← hnid]
    exact this
  have hid : ({ n with out := aerase src n.out } : Node ι).id = dst := hnid
  have hfind : ∀ x, ((g.setNode { n with out := aerase src n.out }).find? x).isSome = (g.find? x).isSome := by
    intro x
    have := Graph.has_setNode g { n with out := aerase src n.out } x
    simpa [Graph.has] using this
  have hR : g.connect src dst d =
      (match g.find? src with
        | none => .error (.notFound src)
        | some _ => if src = dst then .error (.connectSelf src) else .error (.connectionExists src dst)) := by
    unfold Graph.connect
    rw [hn]
    cases hs : g.find? src with
    | none => rfl
    | some m => simp [hedge]
  have hL : (g.setNode { n with out := aerase src n.out }).connect src dst d =
      (match g.find? src with
        | none => .error (.notFound src)
        | some _ => if src = dst then .error (.connectSelf src) else .error (.connectionExists src dst)) := by
    have hdst : ∃ n2, (g.setNode { n with out := aerase src n.out }).find? dst = some n2 := by
      have := hfind dst
      rw [hn] at this
      exact Option.isSome_iff_exists.1 (by simpa using this)
    obtain ⟨n2, hn2⟩ := hdst
    have hedge2 : (g.setNode { n with out := aerase src n.out }).hasEdge src dst = true := hedge
    unfold Graph.connect
    rw [hn2]
    cases hs : g.find? src with
    | none =>
      have : (g.setNode { n with out := aerase src n.out }).find? src = none := by
        have := hfind src
        rw [hs] at this
        simpa using this
      rw [this]
    | some m =>
      have : ∃ m2, (g.setNode { n with out := aerase src n.out }).find? src = some m2 := by
        have := hfind src
        rw [hs] at this
        exact Option.isSome_iff_exists.1 (by simpa using this)
      obtain ⟨m2, hm2⟩ := this
      rw [hm2]
      simp [hedge2]
  rw [hR]
  rw [hL]
  cases g.find? src with
  | none => rfl
  | some m => by_cases hsd : src = dst <;> simp [hsd]

/-- a graph with no removed nodes -/
def HGraph.ofGraph (g : Graph ι) : HGraph ι := ⟨g, []⟩

/-- the result of a core operation, seen through the handle layer -/
def liftG (x : Except (DgErr ι) (Graph ι)) : Except (HErr ι) (HGraph ι) :=
  match x with
  | .ok g => .ok (HGraph.ofGraph g)
  | .error e => .error (.dg e)

theorem HGraph.addNode_core (g : Graph ι) (id : ι) : (HGraph.ofGraph g).addNode id = liftG (g.addNode id) := by
  unfold HGraph.addNode liftG HGraph.ofGraph
  cases g.addNode id <;> simp

theorem HGraph.connect_core {g : Graph ι} (h : g.Tidy) (src dst : ι) (d : Dep) :
    (HGraph.ofGraph g).connect src dst d = liftG (g.connect src dst d) := by
  unfold HGraph.connect liftG HGraph.ofGraph
  simp only
  rw [Graph.connectOver_eq_connect h]
  cases g.connect src dst d <;> simp

theorem HGraph.resolve_core {g : Graph ι} (h : g.Tidy) (id : ι) (st : St) :
    (HGraph.ofGraph g).resolve id st = liftG (g.resolve id st) := by
  unfold HGraph.resolve liftG HGraph.ofGraph
  simp only
  by_cases hh : g.has id = true
  · simp only [hh, ↓reduceIte]
    cases hr : g.resolve id st with
    | error e => rfl
    | ok g' => simp [Graph.normRes_eq_self (Graph.tidy_resolve h hr)]
  · have hnone : g.find? id = none := Graph.has_false_iff.1 (by simpa using hh)
    have : g.resolve id st = .error (.notFound id) := by
      unfold Graph.resolve
      rw [hnone]
    simp [hh, HGraph.isDead, this]

/--
For every graph the engine can build (core operations only, in any order, with any arguments) the handle layer that
`arcadrv dgraph` compares with the real library computes exactly the core operations - `PushStartingNodes`, `PopReadyNodes`,
`HasReadyNodes`, `HasCycles`, `Clone` are the core functions by definition of the driver.
-/
theorem HGraph.agrees_on_built {g : Graph ι} (hb : g.Built) :
    (∀ id, (HGraph.ofGraph g).addNode id = liftG (g.addNode id)) ∧
    (∀ src dst d, (HGraph.ofGraph g).connect src dst d = liftG (g.connect src dst d)) ∧
    (∀ id st, (HGraph.ofGraph g).resolve id st = liftG (g.resolve id st)) :=
  ⟨HGraph.addNode_core g, HGraph.connect_core hb.tidy, HGraph.resolve_core hb.tidy⟩

/-- non-vacuity: the deviation is real once `Remove` is used (the disagreement the differential check found, seed 103) -/
example :
    let g0 : Graph Nat := ⟨[⟨0, .waiting, [], [(2, .or)]⟩, ⟨2, .waiting, [], []⟩], [], []⟩
    (match g0.connectOver 2 0 .and with
      | .ok g1 => (match g1.resolve 2 .resolved with
        | .ok g2 => (g2.statusOf 0, (g2.find? 0).map (·.res), (g2.normRes.find? 0).map (·.res))
        | .error _ => (none, none, none))
      | .error _ => (none, none, none)) =
    (some St.waiting, some [(2, .or), (2, .and)], some [(2, .and)]) := by decide

end Arca.Model
