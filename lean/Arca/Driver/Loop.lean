/-
`arcadrv loop`: fold `Arca.Model.react` over the history the harness delivered to the real run loop and compare
reaction by reaction (provided stage inputs acts a multiset, final result / error class, panic, stuck).
-/
import Arca.Driver.Codec
import Arca.Driver.WfCheck

open Lean (Json)

namespace Arca.Driver
open Arca.Model

def noFns : Fns := fun fn _ => .error (.unknownFn fn)

def sortedOrder : Order := fun l => (l.toArray.qsort (fun a b => a.1 < b.1)).toList

structure Provide where
  step : String
  stage : String
  input : Val

def providesOf (acts : List Action) : List Provide :=
  acts.filterMap (fun a => match a with
    | .provide s g v => some ⟨s, g, v⟩
    | _ => none)

def sortProvides (l : List Provide) : List Provide :=
  (l.toArray.qsort (fun a b => a.step < b.step || (a.step == b.step && a.stage < b.stage))).toList

def providesEq (a b : List Provide) : Bool :=
  let a := sortProvides a
  let b := sortProvides b
  a.length == b.length && (a.zip b).all (fun p => p.1.step == p.2.step && p.1.stage == p.2.stage && valEq p.1.input p.2.input)

def showProvides (l : List Provide) : Json :=
  .arr ((sortProvides l).map (fun p => Json.arr #[.str p.step, .str p.stage, encVal (canon p.input)])).toArray

def errKindName : ErrKind → String
  | .getStageNode => "getStageNode" | .resolveStageNode => "resolveStageNode" | .getOutputNode => "getOutputNode"
  | .resolveOutputNode => "resolveOutputNode" | .noMoreOutputs => "noMoreOutputs" | .noMoreSteps => "noMoreSteps"
  | .bugSchema => "bug" | .bugProvide => "bug" | .evalFailed => "evalFailed"

/-- error class `Execute` reports for the set of errors sent (getLastError de-duplicates by message) -/
def errClassOf (kinds : List ErrKind) : String :=
  let names := (kinds.map errKindName).eraseDups
  match names with
  | [] => ""
  | [n] => n
  | ns =>
    let parts := ["noMoreOutputs", "noMoreSteps", "bug", "evalFailed"].filter (fun n => ns.contains n)
    if parts.isEmpty then "multiple" else "multiple:" ++ "+".intercalate parts

structure LoopOut where
  /-- number of events that do not satisfy `LegalEvent` in the state they were delivered in (canonical order run) -/
  illegal : Nat := 0
  /-- the completeness theorems on this history: "n/a" (not legal / does not start with `start`), "partial" (legal,
      starts with `start`, not every step completed), "complete" (all hypotheses of `quiescent_run_has_verdict` met) -/
  completeness : String := "n/a"
  verdict : String
  detail : Json := .null
  actions : List Action := []
  final : Option LoopState := none
  candidates : Nat := 1

/-- one hypothesis about the processing orders the real loop used so far -/
structure Cand where
  s : LoopState
  acts : List Action := []
  winners : List (String × Val) := []
  errKinds : List (Nat × ErrKind) := []
  panicked : Bool := false
  stuck : Bool := false
  /-- an evaluation failure made `notifySteps` return early: which of the popped nodes were processed before depends on
      Go's map order, so the provided inputs of that and later reactions are not compared any more -/
  relaxed : Bool := false

def mixStr (seed : Nat) (s : String) : UInt64 := hash (seed, s)

def insertAll {α : Type} (x : α) : List α → List (List α)
  | [] => [[x]]
  | y :: ys => (x :: y :: ys) :: (insertAll x ys).map (y :: ·)

def perms {α : Type} : List α → List (List α)
  | [] => [[]]
  | x :: xs => (perms xs).flatMap (insertAll x)

/-- the processing orders tried for every `PopReadyNodes` result: Go iterates the map in random order -/
def orders (P : Prepared) : List Order :=
  let isGroup (id : String) : Bool := match lookup id P.items with
    | some it => it.kind == .group
    | none => false
  let byKey (key : String → String) : Order := fun l => (l.toArray.qsort (fun a b => key a.1 < key b.1)).toList
  let byHash (seed : Nat) : Order := fun l => (l.toArray.qsort (fun a b => mixStr seed a.1 < mixStr seed b.1)).toList
  -- a group node processed FIRST resolves at once and `notifySteps` recurses into what became ready (e.g. the output
  -- node) before the other popped groups are resolved: one order per group node with that node in front
  let groups := (P.items.filter (fun p => p.2.kind == .group)).map (·.1)
  let first (g : String) (rev : Bool) : Order := fun l =>
    let rest := sortedOrder (l.filter (fun a => a.1 != g))
    l.filter (fun a => a.1 == g) ++ (if rev then rest.reverse else rest)
  -- every relative order of (up to four) dependency-group nodes popped together: which optional / one-of group is
  -- resolved first decides what a consumer that becomes ready in between sees (the other orders keep the groups sorted)
  let groupPerm (p : List Nat) : Order := fun l =>
    let s := sortedOrder l
    let gs := s.filter (fun x => isGroup x.1)
    let rest := s.filter (fun x => !isGroup x.1)
    let head := gs.take 4
    (p.filter (· < head.length)).filterMap (fun i => head[i]?) ++ gs.drop 4 ++ rest
  [ sortedOrder,
    fun l => (sortedOrder l).reverse,
    byKey (fun id => (if isGroup id then "0" else "1") ++ id),
    byKey (fun id => (if isGroup id then "1" else "0") ++ id),
    byHash 1, byHash 2, byHash 3, byHash 4 ]
  ++ (groups.take 12).map (fun g => first g false) ++ (groups.take 12).map (fun g => first g true)
  ++ ((perms [0, 1, 2, 3]).filter (· != [0, 1, 2, 3])).map groupPerm

def stateFingerprint (s : LoopState) : UInt64 :=
  hash (toString (repr s.data), toString (repr (s.dag.nodes.map (fun n => (n.id, n.res.map (·.1), n.out.map (·.1))))),
        toString (repr (s.dag.nodes.map (fun n => toString (repr n.status)))),
        toString (repr s.result), s.dag.ready, s.waitingOutputs, s.outputDone, s.errs, s.cancelled, s.dead)

def stepCand (P : Prepared) (fns : Fns) (ord : Order) (idx : Nat) (c : Cand) (e : Event) : Cand × List Action := Id.run do
  let (s', acts) := react P fns ord c.s e
  let mut c' : Cand := { c with s := s', acts := c.acts ++ acts }
  for a in acts do
    match a with
    | .output id v => c' := { c' with winners := c'.winners ++ [(id, v)] }
    | .outputSkipped id v => if c.s.outputDone then pure () else c' := { c' with winners := c'.winners ++ [(id, v)] }
    | .errorSent k =>
      c' := { c' with errKinds := c'.errKinds ++ [(idx, k)] }
      if k == .evalFailed then c' := { c' with relaxed := true }
    | .errorDropped k => if k == .evalFailed then c' := { c' with relaxed := true }
    | .panic _ => c' := { c' with panicked := true }
    | .stuck => c' := { c' with stuck := true }
    | _ => pure ()
  return (c', acts)

def runLoopCaseWith (c : Json) (errCap : Nat) (fns : Fns) (full : Bool) : LoopOut := Id.run do
  if !(c.getObjVal? "skip" matches .error _) then return { verdict := "skip", detail := .str "harness skipped" }
  if !(getBool c "translatable") then return { verdict := "skip", detail := .str "expression outside the fragment" }
  let some P := decPrepared (getObj c "prepared") errCap | return { verdict := "skip", detail := .str "cannot decode prepared" }
  let wfBad := wfViolations P
  if !wfBad.isEmpty then
    return { verdict := "diff", detail := Json.mkObj [("what", "prepared-workflow-not-well-formed"),
      ("clauses", .arr (wfBad.map Json.str).toArray)] }
  let events := (getArr c "events").map decEvent
  let obsProvides := (getArr c "provides").map (fun p =>
    (getNat p "event", (⟨getStr p "step", getStr p "stage", decVal (getObj p "input")⟩ : Provide)))
  let ords := if full then orders P else [sortedOrder]
  let mut cands : List Cand := [{ s := LoopState.init P }]
  let mut idx := 0
  let mut drainIdx : Option Nat := none
  let mut maxCands := 1
  for e in events do
    let mine := (obsProvides.filter (fun p => p.1 == idx)).map (·.2)
    let mut next : List Cand := []
    let mut seen : List UInt64 := []
    let mut firstModel : List Provide := []
    for cd in cands do
      for ord in ords do
        let (cd', acts) := stepCand P fns ord idx cd e
        let died := cd'.panicked || cd'.stuck
        if firstModel.isEmpty then firstModel := providesOf acts
        if died || cd'.relaxed || providesEq mine (providesOf acts) then
          let fp := hash (stateFingerprint cd'.s, toString (repr (cd'.winners.map (·.2))), cd'.errKinds.length)
          if !(seen.contains fp) && next.length < 24 then
            seen := fp :: seen
            next := next ++ [cd']
    if next.isEmpty then
      return { verdict := "diff", detail := Json.mkObj [("event", idx), ("what", "provides"),
        ("impl", showProvides mine), ("model", showProvides firstModel)], candidates := maxCands }
    if drainIdx.isNone then
      match e with
      | .drain => drainIdx := some idx
      | _ => pure ()
    cands := next
    if cands.length > maxCands then maxCands := cands.length
    idx := idx + 1
  let res := getObj c "result"
  let obsPanic := getBool c "panic"
  let obsStuck := getBool c "stuck"
  let returned := getBool res "returned"
  let obsId := getStr res "output_id"
  let obsCls := getStr res "err_class"
  let cuts : List Nat := match drainIdx with
    | none => [idx]
    | some d => [d, d - 1, d - 2]
  -- a candidate explains the run if it agrees on panic / stuck and on the final result
  let explains (cd : Cand) : Bool :=
    if cd.panicked != obsPanic || cd.stuck != obsStuck then false
    else if cd.panicked || cd.stuck then true
    else
      -- `Execute` reports the errors it drained when it left its wait; the harness notices that point up to two
      -- events late, so the admissible classes are those of the prefixes around the recorded drain position
      let classes := (cuts.map (fun k => errClassOf ((cd.errKinds.filter (fun p => p.1 < k)).map (·.2)))).filter (· != "")
      if returned then
        if obsId != "" then cd.winners.any (fun w => w.1 == obsId && valEq w.2 (decVal (getObj res "data")))
        else classes.contains obsCls
      else cd.winners.isEmpty && classes.isEmpty
  match cands.find? explains with
  | some cd => return { verdict := "ok", actions := cd.acts, final := some cd.s, candidates := maxCands }
  | none =>
    let cd := cands.headD { s := LoopState.init P }
    return { verdict := "diff", detail := Json.mkObj [("what", "result"), ("impl", res),
      ("impl_panic", obsPanic), ("impl_stuck", obsStuck), ("panic_text", getStr c "panic_text"),
      ("model_panic", cd.panicked), ("model_stuck", cd.stuck),
      ("model_winners", .arr (cd.winners.map (fun w => Json.arr #[.str w.1, encVal (canon w.2)])).toArray),
      ("n_cands", cands.length),
      ("all_winners", .arr (cands.map (fun c => Json.arr (c.winners.map (fun w => Json.arr #[.str w.1, encVal (canon w.2)])).toArray)).toArray),
      ("model_err", errClassOf (cd.errKinds.map (·.2)))], actions := cd.acts, final := some cd.s, candidates := maxCands }

/-- how many events of the delivered history violate the provider contract `LegalEvent` (validation that the
    hypothesis of `legal_history_never_panics` is met by the histories the harness generates) -/
def countIllegal (c : Json) (errCap : Nat) (fns : Fns) : Nat := Id.run do
  let some P := decPrepared (getObj c "prepared") errCap | return 0
  let events := (getArr c "events").map decEvent
  let mut s := LoopState.init P
  let mut n := 0
  for e in events do
    -- `legalEventB` (Arca/Model/LoopCheck.lean) is the decision procedure proved sound for `LegalEvent`
    -- (`legalEventB_sound`); `legalEvent` additionally checks `EventReports`
    if !(legalEvent P s e) || !(legalEventB P s e) then n := n + 1
    s := (react P fns sortedOrder s e).1
  return n

/-- the conclusions of the completeness theorems (C01 / C03) on the canonical model run of a delivered history whose
    events are all legal and which starts with `start`: (applicability class, violated conclusions) -/
def checkCompleteness (c : Json) (errCap : Nat) (fns : Fns) : String × List String := Id.run do
  let some P := decPrepared (getObj c "prepared") errCap | return ("n/a", [])
  let events := (getArr c "events").map decEvent
  match events with
  | .start _ :: _ =>
    let (s, acts) := run P fns sortedOrder events
    let complete := quiescentHistory P events
    return (if complete then "complete" else "partial", completenessViolations P s acts complete)
  | _ => return ("n/a", [])

/-- first the canonical processing order alone (cheap); the search over orders only when that does not explain the run -/
def runLoopCase (c : Json) (errCap : Nat) (fns : Fns) : LoopOut :=
  let quick := runLoopCaseWith c errCap fns false
  let out := if quick.verdict == "diff" then runLoopCaseWith c errCap fns true else quick
  if out.verdict == "ok" then
    let illegal := countIllegal c errCap fns
    if illegal == 0 then
      let (cls, bad) := checkCompleteness c errCap fns
      if bad.isEmpty then { out with illegal := 0, completeness := cls }
      else
        let d := Json.mkObj [("what", "completeness-theorem-contradicted"),
          ("conclusions", .arr (bad.map Json.str).toArray), ("class", cls)]
        { out with illegal := 0, completeness := cls, verdict := "diff", detail := d }
    else { out with illegal := illegal }
  else out

end Arca.Driver
