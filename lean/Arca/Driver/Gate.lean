/-
`arcadrv gate`: the model side of the provider-level differential of C04.  For every script the harness ran against the REAL
plugin provider (stage inputs whose `enabled` / `stop_if` values are raw strings, ints, nil - not Go bools), the same script is
run through `Arca.Model.Gate` with the decisions extracted from the source (`Arca.Gen.pluginEnabledDecision`,
`Arca.Gen.pluginStopDecision`); the observed end must be one the model admits.

  Lines of kind "boolread" carry the answer of the REAL `schema.NewBoolSchema().Unserialize` for one spelling; it must be
  what `Arca.Model.boolRead` says (the provider's decision on `enabled` goes through that schema since /repo d308cbb).

  diff  the plugin code ran / the step reported `disabled` although the model does not admit that end, or the step completed
        with an end the model does not admit BEFORE the harness' final ForceClose was called
  ok    otherwise (an end caused by the final ForceClose coming early is not held against anybody)
-/
import Arca.Driver.Codec
import Arca.Model.PluginGate
import Arca.Gen.Decisions

open Lean (Json)

namespace Arca.Driver
open Arca.Model Arca.Model.Gate

def gateCfg : Cfg :=
  { enabledDec := Arca.Gen.pluginEnabledDecision
    enabledRefuse := Arca.Gen.pluginEnabledRefusal
    stopDec := Arca.Gen.pluginStopDecision
    stopOnce := Arca.Gen.pluginStopOnce }

/-- raw value of a script argument: JSON null = nil interface value -/
def gateArg (j : Json) : Option Val :=
  match j with
  | .null => some .null
  | .bool b => some (.bool b)
  | .str s => some (.str s)
  | .num n => some (.int n.mantissa)
  | _ => some (.map [])

def pcName : Pc → String
  | .w0 => "w0"
  | .parkedDeploy => "parked-deploy"
  | .deploying => "deploying"
  | .w1 => "w1"
  | .parkedEnable => "parked-enable"
  | .w2 => "w2"
  | .w3 => "w3"
  | .parkedStart => "parked-start"
  | .executing => "executing"
  | .disabledEnd => "disabled"
  | .closedEnd => "closed"
  | .deployFailedEnd => "deploy-failed"

def gateIntOf (j : Json) (k : String) : Int :=
  match j.getObjVal? k with
  | .ok (.num n) => n.mantissa
  | _ => 0

def gateEntries (acts : List Json) (settleMs : Nat) : List Entry :=
  acts.filterMap fun a =>
    let settled := getNat a "delay_ms" ≥ settleMs && !(getBool a "async")
    let arg := (a.getObjVal? "arg").toOption.getD .null
    match getStr a "op" with
    | "enabling" => some { act := .provideEnabling (gateArg arg), settled := settled }
    | "starting" => some { act := .provideStarting, settled := settled }
    | "cancelled" => some { act := .provideCancelled (gateArg arg), settled := settled }
    | "close" => some { act := .close, settled := settled }
    | "forceclose" => some { act := .close, settled := settled }
    | "deploy" => some { act := .provideDeploy, settled := settled }
    | _ => none     -- the no-op stages

def checkGateCase (c : Json) : String × Json :=
  let cs := getObj c "case"
  let b := getObj cs "behaviour"
  let deployFails := getBool b "deploy_fail"
  let settleMs := getNat c "settle_ms"
  let entries := gateEntries (getArr cs "actions") settleMs ++ [{ act := .close, settled := false }]
  let admitted := outcomes gateCfg deployFails entries [Gate.init]
  let log := (getArr c "plugin_log").filterMap (fun j => match j with | .str s => some s | _ => none)
  let executed := log.any (fun s => s == "exec-start")
  let compl := (getArr c "trace").find? (fun n => getStr n "k" == "complete")
  let complPrev := (compl.map (fun n => getStr n "prev")).getD ""
  let observed : Option Pc :=
    if executed then some .executing
    else match complPrev with
      | "disabled" => some .disabledEnd
      | "closed" => some .closedEnd
      | "deploy_failed" => some .deployFailedEnd
      | "" => none
      | _ => some .executing      -- outputs / crashed without an execution record: the start was attempted
  let finalCall := ((getArr c "calls").find? (fun k => getStr k "op" == "final-forceclose")).map (fun k => gateIntOf k "t_call")
  let completedBeforeFinal := match compl, finalCall with
    | some n, some t => decide (gateIntOf n "t_in" < t)
    | _, _ => false
  let detail := Json.mkObj [("admitted", Json.arr (admitted.map (fun p => Json.str (pcName p))).toArray),
    ("observed", match observed with | some p => Json.str (pcName p) | none => .null),
    ("completed_before_final_close", .bool completedBeforeFinal)]
  match observed with
  | none => ("skip", detail)
  | some p =>
    if admitted.contains p then ("ok", detail)
    else if p == .executing || p == .disabledEnd || completedBeforeFinal then ("diff", detail)
    else ("ok", Json.mkObj [("note", "end caused by the final ForceClose"), ("detail", detail)])

/-- kind "boolread": the real `schema.NewBoolSchema().Unserialize` applied to one value, against `boolRead` -/
def checkBoolRead (c : Json) : String × Json :=
  let arg := (c.getObjVal? "arg").toOption.getD .null
  let model : Option Bool := match gateArg arg with
    | some v => boolRead v
    | none => none
  let impl : Option Bool := if getBool c "ok" then some (getBool c "value") else none
  let show_ (o : Option Bool) : Json := match o with
    | some b => .bool b
    | none => .str "rejected"
  let detail := Json.mkObj [("arg", arg), ("model", show_ model), ("impl", show_ impl)]
  if model == impl then ("ok", detail) else ("diff", detail)

partial def eachLineG (h : IO.FS.Stream) (f : String → IO Unit) : IO Unit := do
  let line ← h.getLine
  if line.isEmpty then return ()
  if line.trimAscii.toString.isEmpty then eachLineG h f else
  f line
  eachLineG h f

def cmdGate (_args : List String) : IO Unit := do
  let stdin ← IO.getStdin
  let stdout ← IO.getStdout
  eachLineG stdin fun line => do
    match Json.parse line with
    | .error e => stdout.putStrLn (Json.mkObj [("verdict", "bad-json"), ("detail", e)]).compress
    | .ok c =>
      if (getStr c "skip") != "" then
        stdout.putStrLn (Json.mkObj [("id", getStr c "id"), ("verdict", "skip"), ("detail", getStr c "skip")]).compress
      else
        let (v, d) := if getStr c "kind" == "boolread" then checkBoolRead c else checkGateCase c
        stdout.putStrLn (Json.mkObj [("id", getStr c "id"), ("verdict", v), ("detail", d)]).compress
    stdout.flush

end Arca.Driver
