/-
JSON codec between the Go harness and the executable model (used only by the `arcadrv` driver; no theorem
depends on it).  Tagged value encoding: null | bool | {"i":"<int>"} | {"f":"<hex>"} | "str" | [..] |
{"m":{..}} | {"g":"Type","m":{..}}.
-/
import Lean.Data.Json
import Arca.Model.Val
import Arca.Model.Dgraph
import Arca.Model.RunLoop

open Lean (Json)

namespace Arca.Driver
open Arca.Model

def hexVal (c : Char) : Nat :=
  if '0' ≤ c ∧ c ≤ '9' then c.toNat - '0'.toNat
  else if 'a' ≤ c ∧ c ≤ 'f' then c.toNat - 'a'.toNat + 10
  else if 'A' ≤ c ∧ c ≤ 'F' then c.toNat - 'A'.toNat + 10
  else 0

def parseHex (s : String) : Nat := s.foldl (fun acc c => acc * 16 + hexVal c) 0

def hexDigit (n : Nat) : Char :=
  if n < 10 then Char.ofNat ('0'.toNat + n) else Char.ofNat ('a'.toNat + (n - 10))

def toHex16 (n : Nat) : String :=
  String.ofList ((List.range 16).reverse.map (fun i => hexDigit ((n >>> (4 * i)) % 16)))

def objFields (j : Json) : List (String × Json) :=
  match j with
  | .obj kvs => kvs.toList
  | _ => []

partial def decVal (j : Json) : Val :=
  match j with
  | .null => .null
  | .bool b => .bool b
  | .str s => .str s
  | .num n => .int n.mantissa   -- only integral numbers are ever sent bare
  | .arr xs => .list (xs.toList.map decVal)
  | .obj _ =>
    let fs := objFields j
    match fs with
    | [("i", .str s)] => .int (s.toInt?.getD 0)
    | [("f", .str s)] => .float (parseHex s)
    | [("m", m)] => .map ((objFields m).map (fun p => (p.1, decVal p.2)))
    | _ =>
      match j.getObjVal? "g", j.getObjVal? "m" with
      | .ok (.str g), .ok m => .gostruct g ((objFields m).map (fun p => (p.1, decVal p.2)))
      | _, _ => .null

def sortKvs {α : Type} (l : List (String × α)) : List (String × α) :=
  (l.toArray.qsort (fun a b => a.1 < b.1)).toList

partial def encVal (v : Val) : Json :=
  match v with
  | .null => .null
  | .bool b => .bool b
  | .int i => Json.mkObj [("i", .str (toString i))]
  | .float b => Json.mkObj [("f", .str (toHex16 b))]
  | .str s => .str s
  | .list xs => .arr (xs.map encVal).toArray
  | .map kvs => Json.mkObj [("m", Json.mkObj ((sortKvs kvs).map (fun p => (p.1, encVal p.2))))]
  | .gostruct g kvs =>
    Json.mkObj [("g", .str g), ("m", Json.mkObj ((sortKvs kvs).map (fun p => (p.1, encVal p.2))))]

/-- canonical form: maps sorted by key (Go maps are unordered) -/
partial def canon (v : Val) : Val :=
  match v with
  | .list xs => .list (xs.map canon)
  | .map kvs => .map (sortKvs (kvs.map (fun p => (p.1, canon p.2))))
  | .gostruct g kvs => .gostruct g (sortKvs (kvs.map (fun p => (p.1, canon p.2))))
  | other => other

def valEq (a b : Val) : Bool := canon a == canon b

def getStr (j : Json) (k : String) : String :=
  match j.getObjVal? k with
  | .ok (.str s) => s
  | _ => ""

def getBool (j : Json) (k : String) : Bool :=
  match j.getObjVal? k with
  | .ok (.bool b) => b
  | _ => false

def getNat (j : Json) (k : String) : Nat :=
  match j.getObjVal? k with
  | .ok (.num n) => n.mantissa.toNat
  | _ => 0

def getArr (j : Json) (k : String) : List Json :=
  match j.getObjVal? k with
  | .ok (.arr xs) => xs.toList
  | _ => []

def getObj (j : Json) (k : String) : Json :=
  match j.getObjVal? k with
  | .ok v => v
  | _ => .null

partial def decExpr (j : Json) : Option Expr :=
  match getStr j "x" with
  | "root" => some .root
  | "dot" => (decExpr (getObj j "e")).map (fun e => .dot e (getStr j "k"))
  | "idx" => (decExpr (getObj j "e")).map (fun e => .idx e (getNat j "i"))
  | "lit" => some (.lit (decVal (getObj j "v")))
  | "call" =>
    let args := (getArr j "args").map decExpr
    if args.all Option.isSome then some (.call (getStr j "fn") (args.filterMap id)) else none
  | _ => none

partial def decInVal (j : Json) : Option InVal :=
  match getStr j "k" with
  | "lit" => some (.lit (decVal (getObj j "v")))
  | "expr" => (decExpr (getObj j "e")).map .expr
  | "list" =>
    let xs := (getArr j "l").map decInVal
    if xs.all Option.isSome then some (.list (xs.filterMap id)) else none
  | "map" =>
    let kvs := (objFields (getObj j "m")).map (fun p => (p.1, decInVal p.2))
    if kvs.all (fun p => p.2.isSome) then some (.map (kvs.filterMap (fun p => p.2.map (fun v => (p.1, v))))) else none
  | "oneof" =>
    let kvs := (objFields (getObj j "opts")).map (fun p => (p.1, decInVal p.2))
    if kvs.all (fun p => p.2.isSome) then
      some (.oneof (getStr j "disc") (getStr j "node") (kvs.filterMap (fun p => p.2.map (fun v => (p.1, v)))))
    else none
  | "optional" =>
    (decExpr (getObj j "e")).map (fun e => .optional (getBool j "wait") (getStr j "group") (getStr j "parent") e)
  | _ => none

def decDep (s : String) : Dep :=
  match s with
  | "and" => .and | "or" => .or | "cand" => .cand | "opt" => .opt | _ => .obv

def decKind (s : String) : Kind :=
  match s with
  | "input" => .input | "stage" => .stage | "stageOutput" => .stageOutput | "output" => .output | _ => .group

def decPair (j : Json) : String × String :=
  match j with
  | .arr #[.str a, .str b] => (a, b)
  | _ => ("", "")

/-- the real prepared DAG as dumped by the harness -/
def decPrepared (j : Json) (errCap : Nat) : Option Prepared :=
  let nodes : List (Node String) := (getArr j "nodes").map (fun n =>
    { id := getStr n "id", status := .waiting,
      out := (getArr n "out").map (fun d => let p := decPair d; (p.1, decDep p.2)), res := [] })
  let edges0 := (getArr j "edges").map decPair
  -- the dependency type of an edge is the one recorded in the target's outstanding list (nothing is resolved yet)
  let edges : List (String × String × Dep) := edges0.map (fun e =>
    let d := match nodes.find? (fun n => n.id = e.2) with
      | some n => (alookup e.1 n.out).getD .and
      | none => .and
    (e.1, e.2, d))
  let itemsJ := objFields (getObj j "items")
  let items : List (String × Option Item) := itemsJ.map (fun p =>
    let d := getObj p.2 "data"
    let data : Option (Option InVal) := if d.isNull then some none else (decInVal d).map some
    let mk (dd : Option InVal) : Item :=
      { kind := decKind (getStr p.2 "kind")
        step := getStr p.2 "step"
        stage := getStr p.2 "stage"
        output := getStr p.2 "output"
        data := dd
        hasSchema := getBool p.2 "hasSchema" }
    (p.1, data.map mk))
  if items.all (fun p => p.2.isSome) then
    let items' := items.filterMap (fun p => p.2.map (fun v => (p.1, v)))
    -- stages: every stage item of a step (also those without outputs, e.g. deploy / running) with the outputs that have
    -- a stage-output node (every declared output has one)
    let outs := items'.filter (fun p => p.2.kind = .stageOutput)
    let stageItems := items'.filter (fun p => p.2.kind = .stage)
    let allSteps := (stageItems.map (fun p => p.2.step)).eraseDups
    let stages := allSteps.map (fun s =>
      let sts := ((stageItems.filter (fun p => p.2.step = s)).map (fun p => p.2.stage)).eraseDups
      (s, sts.map (fun st => (st, (outs.filter (fun p => p.2.step = s ∧ p.2.stage = st)).map (fun p => p.2.output)))))
    some { dag := { nodes := nodes, edges := edges, ready := [] }, items := items', stages := stages, errCap := errCap }
  else none

def decEvent (j : Json) : Event :=
  match getStr j "e" with
  | "start" => .start (decVal (getObj j "input"))
  | "change" =>
    let prev := match j.getObjVal? "prev" with
      | .ok (.str s) => some s
      | _ => none
    let out := match j.getObjVal? "out" with
      | .ok (.arr #[.str id, v]) => some (id, decVal v)
      | _ => none
    -- `"complete": true` = the callback was OnStepComplete (`newStage == nil`); its previous stage is a plain string there
    if getBool j "complete" then .stepComplete (getStr j "step") (prev.getD "") out (getBool j "busy")
    else .stageChange (getStr j "step") prev out (getBool j "busy")
  | "fail" => .stageFail (getStr j "step") (getStr j "stage")
  | "drain" => .drain
  | _ => .tick (getNat j "retries") (getBool j "busy")

end Arca.Driver
