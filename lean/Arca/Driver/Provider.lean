/-
`arcadrv provider`: the model side of the C12 correspondence.  For every case the harness ran against the REAL plugin /
foreach provider:

 (i)   model: the observed notification trace is exactly one of `pluginPaths` / `foreachPaths`, and one of the labels
       carrying that trace names environment choices the script could have produced;
 (ii)  property monitor (independent of the paths): `LifecycleSpec.violations` on the observed trace, strict lifecycle;
 (iii) call outcomes against the synchronisation skeleton: first valid input accepted, later ones refused, nothing blocks;
 (iv)  no notification started after a Close/ForceClose call had returned, the step shows as finished.

Verdict `diff` = the model is wrong about the implementation; `violations` = the implementation breaks the property
(whether or not the model predicts it).
-/
import Arca.Driver.Codec
import Arca.Model.PluginStep

open Lean (Json)

namespace Arca.Driver
open Arca.Model.PluginStep

def optStr (j : Json) (k : String) : Option String :=
  match j.getObjVal? k with
  | .ok (.str s) => some s
  | _ => none

def getInt (j : Json) (k : String) : Int :=
  match j.getObjVal? k with
  | .ok (.num n) => n.mantissa
  | _ => 0

def decNotif (j : Json) : Notif :=
  match getStr j "k" with
  | "change" => .change (optStr j "prev") (optStr j "out") (getStr j "stage")
  | "complete" => .complete ((optStr j "prev").getD "") (optStr j "out")
  | _ => .fail (getStr j "stage")

def showNotif : Notif → Json
  | .change p o s => Json.arr #["change", (p.map Json.str).getD .null, (o.map Json.str).getD .null, .str s]
  | .complete p o => Json.arr #["complete", .str p, (o.map Json.str).getD .null]
  | .fail s => Json.arr #["fail", .str s]

structure PCall where
  op : String
  stage : String
  arg : Json
  valid : Bool
  origin : String
  tCall : Int
  tRet : Int
  returned : Bool
  err : String
  panic : String

def decCall (j : Json) : PCall :=
  { op := getStr j "op"
    stage := getStr j "stage"
    arg := getObj j "arg"
    valid := getBool j "valid"
    origin := getStr j "origin"
    tCall := getInt j "t_call"
    tRet := getInt j "t_ret"
    returned := getBool j "returned"
    err := getStr j "err"
    panic := getStr j "panic" }

def PCall.isClose (c : PCall) : Bool := c.op == "close" || c.op == "forceclose" || c.op == "final-forceclose"

def PCall.isTrueArg (c : PCall) : Bool :=
  match c.arg with
  | .bool true => true
  | _ => false

def PCall.isFalseArg (c : PCall) : Bool :=
  match c.arg with
  | .bool false => true
  | _ => false

structure PCaseView where
  provider : String
  step : String
  outcome : String
  ignoreCancel : Bool
  deployFail : Bool
  deployDelay : Nat
  startMode : String
  deployCfg : String
  deployIgnoreCtx : Bool
  frozen : Bool
  declared : List String
  calls : List PCall
  trace : List Notif
  completeIn : Option Int      -- tick at which OnStepComplete was entered
  notifIns : List Int

def viewOf (c : Json) : PCaseView :=
  let cs := getObj c "case"
  let b := getObj cs "behaviour"
  let env := getObj cs "env"
  let tr := getArr c "trace"
  let compl := tr.find? (fun n => getStr n "k" == "complete")
  { provider := getStr cs "provider"
    step := getStr cs "step"
    outcome := getStr b "outcome"
    ignoreCancel := getBool b "ignore_cancel"
    deployFail := getBool b "deploy_fail"
    deployDelay := getNat b "deploy_delay_ms"
    startMode := getStr env "start_mode"
    deployCfg := getStr env "deploy_cfg"
    deployIgnoreCtx := getBool env "deploy_ignore_ctx"
    frozen := getBool env "frozen"
    declared := (getArr c "declared_outputs").filterMap (fun j => match j with | .str s => some s | _ => none)
    calls := (getArr c "calls").map decCall
    trace := tr.map decNotif
    completeIn := compl.map (fun n => getInt n "t_in")
    notifIns := tr.map (fun n => getInt n "t_in") }

/-- could the context have been cancelled before the completion was reported? -/
def hadCtx (v : PCaseView) : Bool :=
  v.calls.any (fun c =>
    (c.isClose || (c.op == "provide" && c.stage == "cancelled" && !c.arg.isNull && !c.isFalseArg &&
        c.returned && c.err == "")) &&     -- only an ACCEPTED stop condition cancels (the stop input is once-only)
    (match v.completeIn with
     | some t => c.tCall < t
     | none => true))

def disabledGiven (v : PCaseView) : Bool :=
  v.calls.any (fun c => c.op == "provide" && c.stage == "enabling" && c.isFalseArg && c.returned && c.err == "")

/-- output ids the scripted plugin can answer with in this case -/
def feasibleOutputs (v : PCaseView) : List String :=
  (match v.outcome with
   | "success" => ["success"]
   | "alt" => ["alt"]
   | "error" => ["error"]
   | _ => []) ++
  (if hadCtx v && v.step == "op" && !v.ignoreCancel then ["cancelled"] else [])

def dropPrefix (pre s : String) : Option String :=
  let p := pre.toList
  let l := s.toList
  if l.take p.length == p then some (String.ofList (l.drop p.length)) else none

/-- are the environment choices named by a path label compatible with the script? -/
def labelFeasible (v : PCaseView) (label : String) : Bool :=
  let startOk := v.startMode == "ok"
  match label with
  | "closed-waiting-deploy" => hadCtx v
  | "deploy-failed:create" => v.deployCfg == "failcreate"
  | "deploy-failed:deploy" => v.deployFail || (hadCtx v && v.deployDelay > 0 && !v.deployIgnoreCtx)
  | "closed-after-deploy" => hadCtx v
  | "closed-waiting-enable" => hadCtx v
  | "disabled" => disabledGiven v
  | "closed-waiting-start" => hadCtx v
  | "start-failed:read-schema" => v.startMode == "read-schema"
  | "start-failed:step-missing" => v.startMode == "step-missing"
  | "start-failed:input-mismatch" => v.startMode == "input-mismatch"
  | "run-error" => startOk && v.outcome == "crash"
  | "cancel-result-error" => startOk && hadCtx v && v.step == "op" && v.outcome == "crash"
  | "cancel-timeout" => startOk && hadCtx v && v.step == "op"
  | "forced-no-handler" => startOk && hadCtx v && v.step == "opns"
  | other =>
    match dropPrefix "run-ok:" other with
    | some x => startOk && (feasibleOutputs v).contains x
    | none =>
      match dropPrefix "cancel-result-ok:" other with
      | some x => startOk && hadCtx v && v.step == "op" && (feasibleOutputs v).contains x
      | none => false

def foreachLabelFeasible (v : PCaseView) (label : String) : Bool :=
  match label with
  | "closed-waiting-enable" => hadCtx v
  | "disabled" => disabledGiven v
  | "closed-waiting-execute" => hadCtx v
  | "items-ok" => v.outcome == "success" || hadCtx v     -- items aborted by the cancelled context are not counted as failed
  | "items-failed" => v.outcome != "success" || hadCtx v
  | _ => false

def isPrefixOf (a b : List Notif) : Bool := b.take a.length == a

/-- (iii) outcomes of the provide calls for one once-only stage of the plugin provider, against `syncStep` -/
def expectedOutcomes (act : Act) (n : Nat) : List String :=
  let rec go (s : SyncState) : Nat → List String
    | 0 => []
    | k + 1 =>
      match syncStep true s act with
      | .next s' => "" :: go s' k
      | .refused s' => "refused" :: go s' k
      | .invalid s' => "other" :: go s' k
      | .wouldBlock => ["blocked"]
      | .panic _ => ["panic"]
      | .disabled => ["disabled"]
  go syncInit n

/-- the skeleton's state once the step is in stage `running` -/
def runningState (handler : Bool) : Option SyncState :=
  execute handler syncInit [.runBegin, .provideDeploy, .recvDeploy, .deployOk, .provideEnabling, .recvEnabled true,
    .provideStarting true, .startOk]

/-- does the skeleton predict a panic for a truthy stop request while the step runs? -/
def cancelPanicPredicted (handler : Bool) : Bool :=
  match runningState handler with
  | some s => (match syncStep handler s (.provideCancelled true) with
    | .panic _ => true
    | _ => false)
  | none => false

def countStr (l : List String) (x : String) : Nat := (l.filter (· == x)).length

structure Verdict where
  verdict : String
  violations : List String
  detail : List (String × Json)

def lateCount (v : PCaseView) : Nat × Int :=
  let rets := (v.calls.filter (fun c => c.isClose && c.returned && c.panic.isEmpty)).map (·.tRet)
  match rets with
  | [] => (0, -1)
  | r :: rs =>
    let first := rs.foldl (fun a b => if b < a then b else a) r
    ((v.notifIns.filter (fun t => t > first)).length, first)

def checkCase (c : Json) : Verdict := Id.run do
  let v := viewOf c
  let isPlugin := v.provider != "foreach"
  let mut viol : List String := []
  let mut diffs : List String := []
  let mut detail : List (String × Json) := []
  let blocked := v.calls.filter (fun c => !c.returned)
  -- no call of the skeleton blocks any more (provide_never_blocks, provide_cancelled_never_blocks, close_returns):
  -- a blocked call is never predicted
  let floodExplained := false
  -- (i) model: trace is a path, with a feasible label
  let paths := if isPlugin then pluginPaths v.declared else Arca.Model.ForeachStep.foreachPaths
  let matching := paths.filter (fun p => p.2 == v.trace)
  let labels := matching.map (·.1)
  let feasible := labels.filter (fun l => if isPlugin then labelFeasible v l else foreachLabelFeasible v l)
  detail := detail ++ [("labels", Json.arr (labels.map Json.str).toArray),
                       ("feasible", Json.arr (feasible.map Json.str).toArray)]
  if !blocked.isEmpty then
    -- a blocked call (holding the step lock) stops `run()` wherever it is: only a prefix can be expected
    if !(paths.any (fun p => isPrefixOf v.trace p.2)) then diffs := diffs ++ ["trace-not-a-path-prefix"]
    if !floodExplained then diffs := diffs ++ ["blocked-call-not-predicted"]
  else if matching.isEmpty then
    diffs := diffs ++ ["trace-not-a-path"]
  else if feasible.isEmpty then
    diffs := diffs ++ ["path-infeasible-for-script"]
  -- (ii) the property on the trace
  let lv :=
    if isPlugin then LifecycleSpec.violations Arca.Gen.pluginStages pluginEdges v.declared v.trace
    else LifecycleSpec.violations Arca.Gen.foreachStages Arca.Model.ForeachStep.foreachEdges [] v.trace
  if blocked.isEmpty then
    let und := (LifecycleSpec.undeclaredTransitions
      (if isPlugin then pluginEdges else Arca.Model.ForeachStep.foreachEdges) v.trace).eraseDups
    viol := viol ++ (lv.filter (· != "undeclared-transition")).map (fun s => "illegal-trace:" ++ s)
    viol := viol ++ und.map (fun e => "illegal-trace:undeclared-transition:" ++ e.1 ++ "->" ++ e.2)
    if !und.isEmpty then
      detail := detail ++ [("undeclared_transitions", Json.arr (und.map (fun e => Json.str (e.1 ++ "->" ++ e.2))).toArray)]
    -- the model's own prediction of (ii) must agree (same acceptor on the model path = same trace): nothing to compare
  -- (iii) call outcomes
  for c in v.calls do
    if !c.panic.isEmpty then
      viol := viol ++ ["panic:" ++ c.op ++ (if c.stage.isEmpty then "" else ":" ++ c.stage)]
      let predicted :=
        if isPlugin then
          c.op == "provide" && c.stage == "cancelled" && !c.arg.isNull && !c.isFalseArg &&
            cancelPanicPredicted (v.step == "op") && v.trace.any (fun n => match n with
              | .change _ _ "running" => true
              | _ => false)
        else
          -- foreach: the skeleton has no panicking move (foreach_provide_never_blocks)
          false
      if !predicted then diffs := diffs ++ ["panic-not-predicted"]
  for c in blocked do
    if c.isClose then viol := viol ++ ["close-did-not-return"]
    else viol := viol ++ ["provide-blocked:" ++ c.stage]
  let stagesOnce := if isPlugin then ["deploy", "enabling", "starting", "cancelled"] else ["enabling", "execute"]
  for st in stagesOnce do
    let cs := v.calls.filter (fun c => c.op == "provide" && c.stage == st && c.returned && c.panic.isEmpty)
    let validCs := cs.filter (·.valid)
    let invalidCs := cs.filter (fun c => !c.valid)
    let observed := validCs.map (·.err)
    let accepted := countStr observed ""
    if isPlugin then
      let act : Act := match st with
        | "deploy" => .provideDeploy
        | "enabling" => .provideEnabling
        | "cancelled" => .provideCancelled true
        | _ => .provideStarting true
      let expected := expectedOutcomes act validCs.length
      if accepted ≥ 2 then viol := viol ++ ["second-input-accepted:" ++ st]
      if countStr observed "" != countStr expected "" || countStr observed "refused" != countStr expected "refused" then
        if accepted < 2 then diffs := diffs ++ ["provide-outcomes:" ++ st]
      -- an invalid starting input is rejected (class other) unless the flag was already set (then: refused)
      if invalidCs.any (fun c => c.err == "") then diffs := diffs ++ ["invalid-input-accepted:" ++ st]
    else
      -- foreach: once closed, ProvideStageInput returns nil without looking at the input
      let firstCloseCall := ((v.calls.filter (·.isClose)).map (·.tCall)).foldl (fun (a : Option Int) b =>
        match a with
        | none => some b
        | some x => some (if b < x then b else x)) none
      let firstCloseRet := (lateCount v).2
      let definitelyBefore (c : PCall) : Bool := match firstCloseCall with
        | some t => c.tRet < t
        | none => true
      let definitelyAfter (c : PCall) : Bool := firstCloseRet ≥ 0 && c.tCall > firstCloseRet
      if accepted ≥ 2 then
        viol := viol ++ ["second-input-accepted:" ++ st ++
          (if (validCs.filter (fun c => c.err == "" && definitelyBefore c)).length ≥ 2 then "" else ":after-close")]
      if (validCs.filter (fun c => c.err == "" && definitelyBefore c)).length ≥ 2 then
        diffs := diffs ++ ["provide-outcomes:" ++ st]
      if validCs.any (fun c => definitelyAfter c && c.err != "") then diffs := diffs ++ ["provide-after-close-not-ignored:" ++ st]
      if (validCs.filter definitelyBefore).length ≥ 1 && (validCs.filter (fun c => definitelyBefore c && c.err == "")).isEmpty
          && !(validCs.any (fun c => !definitelyBefore c && c.err == "")) then
        diffs := diffs ++ ["first-input-refused:" ++ st]
      if invalidCs.any (fun c => c.err == "" && definitelyBefore c) then diffs := diffs ++ ["invalid-input-accepted:" ++ st]
  for c in v.calls do
    if c.isClose && c.returned && c.err != "" then detail := detail ++ [("close_error", Json.str c.err)]
  -- (iv) nothing after a close returned; finished
  let (late, firstRet) := lateCount v
  if late > 0 then
    viol := viol ++ ["notification-after-close"]
    detail := detail ++ [("late_notifications", Json.num late), ("first_close_ret", Json.num firstRet)]
    diffs := diffs ++ ["late-notification-not-predicted"]   -- proved impossible for both skeletons
  if blocked.isEmpty then
    let compl := (getArr c "trace").find? (fun n => getStr n "k" == "complete")
    match compl with
    | some n =>
      if getStr n "state" != "finished" then viol := viol ++ ["state-not-finished-at-completion"]
    | none => pure ()
    if getStr c "final_state" != "finished" then viol := viol ++ ["state-not-finished"]
    if getInt c "balance" != 0 then viol := viol ++ ["deployment-leak"]
    if getInt c "goroutine_delta" > 0 then viol := viol ++ ["goroutine-leak"]
  return { verdict := if diffs.isEmpty then "ok" else "diff"
           violations := viol.eraseDups
           detail := detail ++ [("diffs", Json.arr (diffs.map Json.str).toArray)] }

partial def eachLineP (h : IO.FS.Stream) (f : String → IO Unit) : IO Unit := do
  let line ← h.getLine
  if line.isEmpty then return ()
  if line.trimAscii.toString.isEmpty then eachLineP h f else
  f line
  eachLineP h f

def cmdProvider (_args : List String) : IO Unit := do
  let stdin ← IO.getStdin
  let stdout ← IO.getStdout
  eachLineP stdin fun line => do
    match Json.parse line with
    | .error e => stdout.putStrLn (Json.mkObj [("verdict", "bad-json"), ("detail", e)]).compress
    | .ok c =>
      if (getStr c "skip") != "" then
        stdout.putStrLn (Json.mkObj [("id", getStr c "id"), ("verdict", "skip"), ("violations", Json.arr #[]),
          ("detail", getStr c "skip")]).compress
      else
        let r := checkCase c
        stdout.putStrLn (Json.mkObj [("id", getStr c "id"), ("verdict", r.verdict),
          ("violations", Json.arr (r.violations.map Json.str).toArray),
          ("detail", Json.mkObj r.detail)]).compress
    stdout.flush

end Arca.Driver
