/-
Executable check of `Prepared.WF` (Arca/Proofs/LoopDag.lean) on a REAL prepared workflow as dumped by the harness.
`P.WF` is the hypothesis of the C02/C03/C04 theorems; here it is validated on every generated case (testing, not proof;
for the Prepare model it is the theorem `prepare_inv` of C10).
-/
import Arca.Model.RunLoop

namespace Arca.Driver
open Arca.Model

def nodupStr (l : List String) : Bool :=
  let sorted := (l.toArray.qsort (· < ·)).toList
  (sorted.zip (sorted.drop 1)).all (fun p => p.1 != p.2)

/-- returns the list of violated clauses (empty = well-formed) -/
def wfViolations (P : Prepared) : List String := Id.run do
  let g := P.dag
  let mut bad : List String := []
  let ids := g.nodes.map (·.id)
  if !nodupStr ids then bad := "inv.nodup" :: bad
  if !nodupStr (g.edges.map (fun e => e.1 ++ "\u0000" ++ e.2.1)) then bad := "inv.edges_nodup" :: bad
  if !(g.edges.all (fun e => ids.contains e.1 && ids.contains e.2.1)) then bad := "inv.edge_nodes" :: bad
  if !(g.nodes.all (fun n => n.status == .waiting && n.res.isEmpty)) then bad := "fresh" :: bad
  if !g.ready.isEmpty then bad := "no_ready" :: bad
  -- every outstanding entry belongs to an edge with the same type, and every edge has its entry (all sources waiting)
  if !(g.nodes.all (fun n => n.out.all (fun p => g.edges.any (fun e => e.1 == p.1 && e.2.1 == n.id && e.2.2 == p.2)))) then
    bad := "inv.out_edge" :: bad
  if !(g.nodes.all (fun n => nodupStr (n.out.map (·.1)))) then bad := "inv.out_nodup" :: bad
  if !(g.edges.all (fun e => match g.find? e.2.1 with
      | some n => n.out.any (fun p => p.1 == e.1)
      | none => false)) then bad := "inv.src_waiting" :: bad
  if !(g.nodes.all (fun n => (lookup n.id P.items).isSome)) then bad := "items_nodes" :: bad
  let declares (step stage : String) : Bool := match lookup step P.stages with
    | some sts => (lookup stage sts).isSome
    | none => false
  for (id, it) in P.items do
    if it.kind == .stage && id != stageNodeId it.step it.stage then bad := ("stage_id:" ++ id) :: bad
    if it.kind == .stageOutput then
      if id != outputNodeId it.step it.stage it.output || !((P.outputsOf it.step it.stage).contains it.output) then
        bad := ("output_id:" ++ id) :: bad
  -- stage_kind / output_kind / output_unamb over the declared (step, stage) pairs
  for (step, sts) in P.stages do
    for (stage, outs) in sts do
      if declares step stage then
        match lookup (stageNodeId step stage) P.items with
        | some it => if it.kind != .stage then bad := ("stage_kind:" ++ step ++ "." ++ stage) :: bad
        | none => pure ()
        for out in outs do
          match lookup (outputNodeId step stage out) P.items with
          | some it =>
            if it.kind != .stageOutput then bad := ("output_kind:" ++ outputNodeId step stage out) :: bad
            else if it.step != step || it.stage != stage then bad := ("output_unamb:" ++ outputNodeId step stage out) :: bad
          | none => pure ()
  -- WF2.stage_unamb (Arca/Proofs/LoopFinished.lean, `Prepared.StageUnamb`): the stage node id of a declared
  -- (step, stage) belongs to an item of that step and stage
  for (step, sts) in P.stages do
    for (stage, _) in sts do
      if declares step stage then
        match lookup (stageNodeId step stage) P.items with
        | some it => if it.step != step || it.stage != stage then bad := ("stage_unamb:" ++ stageNodeId step stage) :: bad
        | none => pure ()
  -- WF2 (Arca/Proofs/LoopSafe.lean): what the panic-freedom theorem additionally assumes
  if g.edges.any (fun e => e.2.1 == "input") then bad := "input_no_deps" :: bad
  match lookup "input" P.items with
  | some it => if it.kind != .input then bad := "input_kind" :: bad
  | none => pure ()
  for (id, it) in P.items do
    if it.kind == .stage then
      if it.step == "" || it.stage == "" then bad := ("stage_ids_nonempty:" ++ id) :: bad
      match it.data with
      | some (.map _) => pure ()
      | some _ => bad := ("stage_data_map:" ++ id) :: bad
      | none => pure ()
    if it.data.isSome && it.kind != .stage && it.kind != .output then bad := ("kinds_handled:" ++ id) :: bad
  for (step, sts) in P.stages do
    for (stage, outs) in sts do
      for o in outs do
        let oid := outputNodeId step stage o
        if (lookup oid P.items).isNone then bad := ("output_nodes.missing:" ++ oid) :: bad
        if !((g.edges.filter (fun e => e.2.1 == oid)).all (fun e => e.1 == stageNodeId step stage && e.2.2 == .and)) then
          bad := ("output_nodes.edges:" ++ oid) :: bad
  return bad.reverse

/-- executable version of `LegalEvent` (Arca/Proofs/LoopSafe.lean): the provider contract for one callback -/
def legalEvent (P : Prepared) (s : LoopState) (e : Event) : Bool :=
  let declares (step stage : String) : Bool := match lookup step P.stages with
    | some sts => (lookup stage sts).isSome
    | none => false
  let st (id : String) : Option St := s.dag.statusOf id
  -- the contract of a reported stage end (the same for OnStageChange and OnStepComplete), plus `EventReports`
  -- (Arca/Proofs/LoopSettle.lean): a stage that declares outputs is reported finished together with one of them
  let stageEnd (step prev : String) (out : Option (String × Val)) : Bool :=
    declares step prev && st (stageNodeId step prev) == some .waiting &&
    (P.dag.edges.filter (fun ed => ed.2.1 == stageNodeId step prev)).all (fun ed =>
      (ed.2.2 != .and || st ed.1 == some .resolved) && ed.2.2 != .or) &&
    (match out with
     | none => (P.outputsOf step prev).isEmpty
     | some (oid, _) => (P.outputsOf step prev).contains oid &&
         (P.outputsOf step prev).all (fun o => st (outputNodeId step prev o) == some .waiting))
  match e with
  | .start _ => s.dag.nodes.all (fun n => n.status == .waiting)
  | .stageChange _ none _ _ => true
  | .stageChange step (some prev) out _ => stageEnd step prev out
  | .stepComplete step prev out _ => stageEnd step prev out
  | .stageFail step stage =>
    declares step stage && st (stageNodeId step stage) != some .resolved &&
    (P.outputsOf step stage).all (fun o => st (outputNodeId step stage o) != some .resolved)
  | .tick _ _ => true
  | .drain => true

end Arca.Driver
