/-
Executable check of `Prepared.WF` (Arca/Proofs/LoopDag.lean) on a REAL prepared workflow as dumped by the harness.
`P.WF` is the hypothesis of the C02/C03/C04 theorems; here it is validated on every generated case (testing, not proof;
for the Prepare model it is the theorem `prepare_inv` of C10).
-/
import Arca.Model.RunLoop
import Arca.Model.LoopCheck

namespace Arca.Driver
open Arca.Model

def nodupStr (l : List String) : Bool :=
  let sorted := (l.toArray.qsort (· < ·)).toList
  (sorted.zip (sorted.drop 1)).all (fun p => p.1 != p.2)

/-- returns the list of violated clauses (empty = well-formed) -/
def wfViolations (P : Prepared) : List String := Id.run do
  let g := P.dag
  let mut bad : List String := []
  let ids := g.nodes.map (·.id)
  if !nodupStr ids then bad := "inv.nodup" :: bad
  if !nodupStr (g.edges.map (fun e => e.1 ++ "\u0000" ++ e.2.1)) then bad := "inv.edges_nodup" :: bad
  if !(g.edges.all (fun e => ids.contains e.1 && ids.contains e.2.1)) then bad := "inv.edge_nodes" :: bad
  if !(g.nodes.all (fun n => n.status == .waiting && n.res.isEmpty)) then bad := "fresh" :: bad
  if !g.ready.isEmpty then bad := "no_ready" :: bad
  -- every outstanding entry belongs to an edge with the same type, and every edge has its entry (all sources waiting)
  if !(g.nodes.all (fun n => n.out.all (fun p => g.edges.any (fun e => e.1 == p.1 && e.2.1 == n.id && e.2.2 == p.2)))) then
    bad := "inv.out_edge" :: bad
  if !(g.nodes.all (fun n => nodupStr (n.out.map (·.1)))) then bad := "inv.out_nodup" :: bad
  if !(g.edges.all (fun e => match g.find? e.2.1 with
      | some n => n.out.any (fun p => p.1 == e.1)
      | none => false)) then bad := "inv.src_waiting" :: bad
  if !(g.nodes.all (fun n => (lookup n.id P.items).isSome)) then bad := "items_nodes" :: bad
  let declares (step stage : String) : Bool := match lookup step P.stages with
    | some sts => (lookup stage sts).isSome
    | none => false
  for (id, it) in P.items do
    if it.kind == .stage && id != stageNodeId it.step it.stage then bad := ("stage_id:" ++ id) :: bad
    if it.kind == .stageOutput then
      if id != outputNodeId it.step it.stage it.output || !((P.outputsOf it.step it.stage).contains it.output) then
        bad := ("output_id:" ++ id) :: bad
  -- stage_kind / output_kind / output_unamb over the declared (step, stage) pairs
  for (step, sts) in P.stages do
    for (stage, outs) in sts do
      if declares step stage then
        match lookup (stageNodeId step stage) P.items with
        | some it => if it.kind != .stage then bad := ("stage_kind:" ++ step ++ "." ++ stage) :: bad
        | none => pure ()
        for out in outs do
          match lookup (outputNodeId step stage out) P.items with
          | some it =>
            if it.kind != .stageOutput then bad := ("output_kind:" ++ outputNodeId step stage out) :: bad
            else if it.step != step || it.stage != stage then bad := ("output_unamb:" ++ outputNodeId step stage out) :: bad
          | none => pure ()
  -- WF2.stage_unamb (Arca/Proofs/LoopFinished.lean, `Prepared.StageUnamb`): the stage node id of a declared
  -- (step, stage) belongs to an item of that step and stage
  for (step, sts) in P.stages do
    for (stage, _) in sts do
      if declares step stage then
        match lookup (stageNodeId step stage) P.items with
        | some it => if it.step != step || it.stage != stage then bad := ("stage_unamb:" ++ stageNodeId step stage) :: bad
        | none => pure ()
  -- WF2 (Arca/Proofs/LoopSafe.lean): what the panic-freedom theorem additionally assumes
  if g.edges.any (fun e => e.2.1 == "input") then bad := "input_no_deps" :: bad
  match lookup "input" P.items with
  | some it => if it.kind != .input then bad := "input_kind" :: bad
  | none => pure ()
  for (id, it) in P.items do
    if it.kind == .stage then
      if it.step == "" || it.stage == "" then bad := ("stage_ids_nonempty:" ++ id) :: bad
      match it.data with
      | some (.map _) => pure ()
      | some _ => bad := ("stage_data_map:" ++ id) :: bad
      | none => pure ()
    if it.data.isSome && it.kind != .stage && it.kind != .output then bad := ("kinds_handled:" ++ id) :: bad
  for (step, sts) in P.stages do
    for (stage, outs) in sts do
      for o in outs do
        let oid := outputNodeId step stage o
        if (lookup oid P.items).isNone then bad := ("output_nodes.missing:" ++ oid) :: bad
        if !((g.edges.filter (fun e => e.2.1 == oid)).all (fun e => e.1 == stageNodeId step stage && e.2.2 == .and)) then
          bad := ("output_nodes.edges:" ++ oid) :: bad
  -- `Prepared.WF3` (Arca/Proofs/LoopComplete.lean; contains `WF2` and `WF`), the well-formedness hypothesis of the
  -- completeness theorems C01 `quiescent_run_has_verdict`, C03 `producible_output_is_returned`,
  -- `no_producible_output_gives_error`: decided clause by clause by `Prepared.wf3Clauses` (Arca/Model/LoopCheck.lean),
  -- whose soundness is a theorem (`Prepared.WF3OK.sound`, Arca/Proofs/LoopCheckSound.lean): no violated clause here
  -- means that `P.WF3` HOLDS of this real prepared workflow
  for c in P.wf3Violated do
    bad := ("wf3:" ++ c) :: bad
  return bad.reverse

/-- executable version of `LegalEvent` (Arca/Proofs/LoopSafe.lean): the provider contract for one callback -/
def legalEvent (P : Prepared) (s : LoopState) (e : Event) : Bool :=
  let declares (step stage : String) : Bool := match lookup step P.stages with
    | some sts => (lookup stage sts).isSome
    | none => false
  let st (id : String) : Option St := s.dag.statusOf id
  -- the contract of a reported stage end (the same for OnStageChange and OnStepComplete), plus `EventReports`
  -- (Arca/Proofs/LoopSettle.lean): a stage that declares outputs is reported finished together with one of them
  let stageEnd (step prev : String) (out : Option (String × Val)) : Bool :=
    declares step prev && st (stageNodeId step prev) == some .waiting &&
    (P.dag.edges.filter (fun ed => ed.2.1 == stageNodeId step prev)).all (fun ed =>
      (ed.2.2 != .and || st ed.1 == some .resolved) && ed.2.2 != .or) &&
    (match out with
     | none => (P.outputsOf step prev).isEmpty
     | some (oid, _) => (P.outputsOf step prev).contains oid &&
         (P.outputsOf step prev).all (fun o => st (outputNodeId step prev o) == some .waiting))
  match e with
  | .start _ => s.dag.nodes.all (fun n => n.status == .waiting)
  | .stageChange _ none _ _ => true
  | .stageChange step (some prev) out _ => stageEnd step prev out
  | .stepComplete step prev out _ => stageEnd step prev out
  | .stageFail step stage =>
    declares step stage && st (stageNodeId step stage) != some .resolved &&
    (P.outputsOf step stage).all (fun o => st (outputNodeId step stage o) != some .resolved)
  | .tick _ _ => true
  | .drain => true

/-! ### the completeness theorems (C01 `quiescent_run_has_verdict`, C03 `producible_output_is_returned`,
`no_producible_output_gives_error`) on a real history -/

/-- the history hypotheses of `quiescent_run_has_verdict`: the history starts with `start` and the completion callback
of every step that declares a stage has been delivered (legality of every event is counted separately: `legalEvent`) -/
def quiescentHistory (P : Prepared) (events : List Event) : Bool :=
  match events with
  | .start _ :: rest =>
    P.stages.all (fun p => p.2.isEmpty || rest.any (fun e => match e with
      | .stepComplete step _ _ _ => step == p.1
      | _ => false))
  | _ => false

def isOutputItem (P : Prepared) (id : String) : Bool :=
  match lookup id P.items with
  | some it => it.kind == .output
  | none => false

/-- executable `Producible` (Arca/Proofs/LoopComplete.lean) -/
def producible (P : Prepared) (g : Graph String) (o : String) : Bool :=
  let into := P.dag.edges.filter (fun ed => ed.2.1 == o)
  into.all (fun ed => ed.2.2 != .and || g.statusOf ed.1 == some .resolved) &&
  (!(into.any (fun ed => ed.2.2 == .or)) || into.any (fun ed => ed.2.2 == .or && g.statusOf ed.1 == some .resolved))

/-- what the three completeness theorems conclude about the canonical model run `(s, acts)` of a legal history that
starts with `start` (`complete` = every step completed); returns the names of the conclusions that do NOT hold (a
non-empty result contradicts a machine-checked theorem: the driver and the theorem would disagree on a definition) -/
def completenessViolations (P : Prepared) (s : LoopState) (acts : List Action) (complete : Bool) : List String := Id.run do
  let mut bad : List String := []
  let isEF (a : Action) : Bool := match a with
    | .errorSent .evalFailed => true
    | .errorDropped .evalFailed => true
    | _ => false
  let isNMO (a : Action) : Bool := match a with
    | .errorSent .noMoreOutputs => true
    | .errorDropped .noMoreOutputs => true
    | _ => false
  let hasOut := acts.any (fun a => match a with
    | .output _ _ => true
    | _ => false)
  let ef := acts.any isEF
  let nmo := (acts.filter isNMO).length
  let outs := (P.items.filter (fun p => p.2.kind == .output)).map (·.1)
  if s.dead then bad := "alive" :: bad
  if complete && !(hasOut && s.result.isSome || nmo > 0 || ef) then bad := "quiescent_run_has_verdict" :: bad
  if !ef then
    if outs.all (fun o => s.dag.statusOf o == some .unres) && !(nmo == 1 && s.result.isNone && !hasOut) then
      bad := "no_producible_output_gives_error" :: bad
    if complete then
      let prod := outs.filter (producible P s.dag)
      if !prod.isEmpty && s.result.isNone then bad := "producible_output_is_returned" :: bad
      if prod.isEmpty && !(nmo == 1 && s.result.isNone) then bad := "nothing_producible_gives_error" :: bad
      match prod, s.result with
      | [o], some (oid, _) =>
        match lookup o P.items with
        | some it => if it.output != oid then bad := "producible_output_is_returned.unique" :: bad
        | none => pure ()
      | _, _ => pure ()
  return bad.reverse

end Arca.Driver
