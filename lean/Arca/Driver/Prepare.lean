/-
`arcadrv prepare`: run `Arca.Model.prepare` on the abstract workflow of every case and compare with what the real
`executor.Prepare` did: verdict class and, when accepted, node ids, edges with dependency types, and items
(kind, step, stage, output, hasSchema, data), all canonically sorted.

Expressions with operators: the harness (`parseExprOps`, cmd_prepare_shapes.go) encodes `l op r` as the call
`{"x":"call","fn":"op","args":[l,r]}` (unary: one argument) on BOTH sides - the generator's abstract workflow and the
expressions found in the real DAG items - so `Expr.deps` yields the dependency paths of both operands, left to right, as
`binaryOperationDependencies` of the expressions library does, and every one of them is an edge the model requires
(`Arca.Props.C10.prepare_every_ref_connected`).  Cases of a sequence (`seq`: several workflows prepared on ONE executor)
are ordinary cases: `verdict` / `dag` are what the shared executor produced, the model knows no executor history.
-/
import Arca.Driver.Codec
import Arca.Model.Prepare

open Lean (Json)

namespace Arca.Driver
open Arca.Model

partial def decAIn (j : Json) : Option AIn :=
  match getStr j "k" with
  | "lit" => match j.getObjVal? "v" with
    | .ok (.str s) => some (.lit s)
    | _ => none
  | "expr" => (decExpr (getObj j "e")).map .expr
  | "optional" => (decExpr (getObj j "e")).map (.optional (getBool j "wait"))
  | "ordisabled" => (decExpr (getObj j "e")).map .ordisabled
  | "list" =>
    let xs := (getArr j "l").map decAIn
    if xs.all Option.isSome then some (.list (xs.filterMap id)) else none
  | "map" =>
    let kvs := (objFields (getObj j "m")).map (fun p => (p.1, decAIn p.2))
    if kvs.all (fun p => p.2.isSome) then some (.map (kvs.filterMap (fun p => p.2.map (fun v => (p.1, v))))) else none
  | "oneof" =>
    let kvs := (objFields (getObj j "opts")).map (fun p => (p.1, decAIn p.2))
    if kvs.all (fun p => p.2.isSome) then
      some (.oneof (getStr j "disc") (kvs.filterMap (fun p => p.2.map (fun v => (p.1, v)))))
    else none
  | _ => none

def decFields (j : Json) : Option (List (String × AIn)) :=
  let kvs := (objFields j).map (fun p => (p.1, decAIn p.2))
  if kvs.all (fun p => p.2.isSome) then some (kvs.filterMap (fun p => p.2.map (fun v => (p.1, v)))) else none

def decPrepStep (j : Json) : Option Step :=
  let kind : Option StepKind := match getStr j "kind" with
    | "plugin" => some .plugin
    | "foreach" => some .foreach
    | _ => none
  match kind, decFields (getObj j "fields") with
  | some k, some fs => some (Step.mk (getStr j "id") k fs)
  | _, _ => none

def decWf (j : Json) : Option Wf :=
  let steps := (getArr j "steps").map decPrepStep
  match decFields (getObj j "outputs") with
  | some outs =>
    if steps.all Option.isSome then
      some (Wf.mk ((getArr j "input_fields").map (fun f => getStr f "name")) (steps.filterMap id) outs)
    else none
  | none => none

/-! canonical comparison of `InVal` (Go maps are unordered) -/

partial def exprStr (e : Expr) : String :=
  match e with
  | .root => "$"
  | .dot e k => exprStr e ++ "." ++ k
  | .idx e i => exprStr e ++ "[" ++ toString i ++ "]"
  | .lit v => "lit(" ++ (encVal (canon v)).compress ++ ")"
  | .call f args => f ++ "(" ++ ",".intercalate (args.map exprStr) ++ ")"

partial def inValJson (v : InVal) : Json :=
  match v with
  | .lit x => Json.mkObj [("lit", encVal (canon x))]
  | .expr e => Json.mkObj [("expr", exprStr e)]
  | .list xs => .arr (xs.map inValJson).toArray
  | .map kvs => Json.mkObj [("map", Json.mkObj ((sortKvs kvs).map (fun p => (p.1, inValJson p.2))))]
  | .oneof d n opts => Json.mkObj [("oneof", d), ("node", n),
      ("opts", Json.mkObj ((sortKvs opts).map (fun p => (p.1, inValJson p.2))))]
  | .optional w g p e => Json.mkObj [("optional", w), ("group", g), ("parent", p), ("e", exprStr e)]

def kindStr : Kind → String
  | .input => "input" | .stage => "stage" | .stageOutput => "stageOutput" | .output => "output" | .group => "group"

def itemJson (it : Item) : Json :=
  Json.mkObj [("kind", kindStr it.kind), ("step", it.step), ("stage", it.stage), ("output", it.output),
    ("hasSchema", it.hasSchema), ("data", match it.data with | some d => inValJson d | none => .null)]

def depStr : Dep → String
  | .and => "and" | .or => "or" | .cand => "cand" | .opt => "opt" | .obv => "obv"

def sortStrs (l : List String) : List String := (l.toArray.qsort (· < ·)).toList

def edgeStr (e : String × String × Dep) : String := e.1 ++ " -> " ++ e.2.1 ++ " [" ++ depStr e.2.2 ++ "]"

def listDiff (a b : List String) : List String := a.filter (fun x => !(b.contains x))

def firstN (l : List String) (n : Nat) : Json := .arr ((l.take n).map Json.str).toArray

structure PrepOut where
  verdict : String
  detail : Json := .null

/-- classes the real code may report although the model accepts: outside the modelled fragment -/
def outsideModel (cls : String) : Bool := cls == "type" || cls == "schema"

def runPrepareCase (c : Json) : PrepOut := Id.run do
  if !(c.getObjVal? "skip" matches .error _) then return { verdict := "skip", detail := .str "harness skipped" }
  let some wf := decWf (getObj c "wf") | return { verdict := "skip", detail := .str "cannot decode wf (expression outside the fragment)" }
  let po := (getArr c "plugin_outputs").filterMap (fun j => match j with | .str s => some s | _ => none)
  let real := getStr c "verdict"
  let realCls := getStr c "err_class"
  let model := prepare po wf
  match model with
  | .error r =>
    let mcls := r.cls
    if real == "accepted" then
      return { verdict := "diff", detail := Json.mkObj [("what", "verdict"), ("impl", "accepted"), ("model", "rejected:" ++ mcls)] }
    else if real == "panic" then
      -- the model has no panic outcome: a panic of the real code is always a disagreement
      return { verdict := "diff", detail := Json.mkObj [("what", "verdict"), ("impl", "panic"), ("model", "rejected:" ++ mcls),
        ("panic", getStr c "err")] }
    else if mcls == realCls then return { verdict := "ok", detail := Json.mkObj [("both", "rejected:" ++ mcls)] }
    else if outsideModel realCls then
      -- the type check of the real code runs before the point where the model rejects
      return { verdict := "ok", detail := Json.mkObj [("both", "rejected"), ("impl_class", realCls), ("model_class", mcls)] }
    else return { verdict := "diff", detail := Json.mkObj [("what", "class"), ("impl", realCls), ("model", mcls), ("err", getStr c "err")] }
  | .ok (g, items) =>
    if real == "panic" then
      return { verdict := "diff", detail := Json.mkObj [("what", "verdict"), ("impl", "panic"), ("model", "accepted")] }
    else if real == "rejected" then
      if outsideModel realCls then
        return { verdict := "ok", detail := Json.mkObj [("model", "accepted"), ("impl", "rejected:" ++ realCls), ("note", "outside the model")] }
      else return { verdict := "diff", detail := Json.mkObj [("what", "verdict"), ("impl", "rejected:" ++ realCls), ("model", "accepted"), ("err", getStr c "err")] }
    else
      if !(getBool c "translatable") then return { verdict := "skip", detail := .str "expression outside the fragment" }
      let some P := decPrepared (getObj c "dag") 0 | return { verdict := "skip", detail := .str "cannot decode dag" }
      -- nodes
      let mNodes := sortStrs (g.nodes.map (·.id))
      let rNodes := sortStrs (P.dag.nodes.map (·.id))
      if mNodes != rNodes then
        return { verdict := "diff", detail := Json.mkObj [("what", "nodes"), ("model_only", firstN (listDiff mNodes rNodes) 6),
          ("impl_only", firstN (listDiff rNodes mNodes) 6)] }
      -- edges with types
      let mEdges := sortStrs (g.edges.map edgeStr)
      let rEdges := sortStrs (P.dag.edges.map edgeStr)
      if mEdges != rEdges then
        return { verdict := "diff", detail := Json.mkObj [("what", "edges"), ("model_only", firstN (listDiff mEdges rEdges) 6),
          ("impl_only", firstN (listDiff rEdges mEdges) 6)] }
      -- outstanding dependency lists of the model graph agree with its edges (sanity of M2's bookkeeping)
      let mOut := sortStrs (g.nodes.flatMap (fun n => n.out.map (fun p => edgeStr (p.1, n.id, p.2))))
      if mOut != mEdges then
        return { verdict := "diff", detail := Json.mkObj [("what", "model out lists differ from model edges")] }
      -- items
      let mItems := sortKvs (items.map (fun p => (p.1, (itemJson p.2).compress)))
      let rItems := sortKvs (P.items.map (fun p => (p.1, (itemJson p.2).compress)))
      if mItems.length != rItems.length then
        return { verdict := "diff", detail := Json.mkObj [("what", "item count"), ("model", mItems.length), ("impl", rItems.length)] }
      for (m, r) in mItems.zip rItems do
        if m.1 != r.1 || m.2 != r.2 then
          return { verdict := "diff", detail := Json.mkObj [("what", "item"), ("model_id", m.1), ("impl_id", r.1),
            ("model", m.2), ("impl", r.2)] }
      return { verdict := "ok", detail := Json.mkObj [("nodes", mNodes.length), ("edges", mEdges.length)] }

partial def eachLinePrep (h : IO.FS.Stream) (f : String → IO Unit) : IO Unit := do
  let line ← h.getLine
  if line.isEmpty then return ()
  if line.trimAscii.toString.isEmpty then eachLinePrep h f else
  f line
  eachLinePrep h f

def cmdPrepare (_args : List String) : IO Unit := do
  let stdin ← IO.getStdin
  let stdout ← IO.getStdout
  eachLinePrep stdin fun line => do
    match Json.parse line with
    | .error e => stdout.putStrLn (Json.mkObj [("verdict", "bad-json"), ("detail", e)]).compress
    | .ok c =>
      let out := runPrepareCase c
      stdout.putStrLn (Json.mkObj [("id", getStr c "id"), ("verdict", out.verdict), ("detail", out.detail)]).compress
    stdout.flush

end Arca.Driver
