/-
`arcadrv foreach`: replay the completion order the real engine exhibited (derived from the plugin-side log of a
`vharness foreach` case) through the pool model `Arca.Model.ForeachPool` and compare the model's assembled step output
with the one the parent workflow returned.

* the per-item outcome is computed from the ITEM (its scripted behaviour + which outputs the sub-workflow declares), never
  from what the engine returned;
* the schedule is `acquire o` at the first exec-start of (a leaf of) top-level item `o` and `finish o` at the exec-end
  after which all its leaves have ended — the plugin handler runs strictly inside [slot taken, slot released], so a
  schedule refused by the model means the real code overlapped more than `parallelism` item runs or ran an item twice;
* nested loops: the outcome of an outer item is the assembled output of the inner pool (canonical sequential schedule —
  by `order_independent` any complete schedule gives the same).
-/
import Arca.Driver.Codec
import Arca.Model.ForeachPool

open Lean (Json)

namespace Arca.Driver
open Arca.Model
open Arca.Model.ForeachPool

structure FeCfg where
  src : String
  declAlt : Bool
  declErr : Bool
  declFailed : Bool
  innerPar : Nat

def feLeafVal (j : Json) : Val :=
  .map [("s", .str (getStr j "key")), ("i", .int (Int.ofNat (getNat j "i")))]

def feLeafOutcome (cfg : FeCfg) (j : Json) : ItemOutcome Val :=
  match getStr j "outcome" with
  | "success" => .ok (.map [("i", .int (Int.ofNat (getNat j "i") + 1)), ("s", .str (getStr j "key" ++ "+" ++ cfg.src))])
  | "alt" => if cfg.declAlt then .otherOutput "alt" .null else .err "no output can be produced"
  | "error" => if cfg.declErr then .otherOutput "error" .null else .err "no output can be produced"
  | _ => .err "step crashed"

def optList (l : List (Option Val)) : Val := .list (l.map (fun o => o.getD .null))

/-- the pool of one loop over leaf items -/
def feLeafPool (cfg : FeCfg) (items : List Json) (p : Nat) : Pool Val Val :=
  let table : List (String × ItemOutcome Val) := items.map (fun j => (getStr j "key", feLeafOutcome cfg j))
  { xs := items.map feLeafVal
    p := p
    exec := fun _ a =>
      match a with
      | .map kvs =>
        match lookup "s" kvs with
        | some (.str k) => (lookup k table).getD (.err "unknown item")
        | _ => .err "malformed item"
      | _ => .err "malformed item" }

def feOuterOutcome (cfg : FeCfg) (j : Json) : ItemOutcome Val :=
  let inner := getArr j "inner"
  let P := feLeafPool cfg inner (max cfg.innerPar 1)
  match runSched P (init P) (seqSched inner.length) with
  | none => .err "inner schedule refused"
  | some s =>
    match assemble s with
    | .success data => .ok (.map [("r", optList data)])
    | .failure _ _ => if cfg.declFailed then .otherOutput "failed" .null else .err "no output can be produced"

def feTopPool (cfg : FeCfg) (nested : Bool) (items : List Json) (p : Nat) : Pool Val Val :=
  if nested then
    let table : List (String × ItemOutcome Val) := items.map (fun j => (getStr j "key", feOuterOutcome cfg j))
    { xs := items.map (fun j => Val.map [("s", .str (getStr j "key"))])
      p := p
      exec := fun _ a =>
        match a with
        | .map kvs =>
          match lookup "s" kvs with
          | some (.str k) => (lookup k table).getD (.err "unknown item")
          | _ => .err "malformed item"
        | _ => .err "malformed item" }
  else feLeafPool cfg items p

/-- leaf key -> top-level index; number of leaves per top-level item -/
def feLeafIndex (nested : Bool) (items : List Json) : List (String × Nat) × List Nat :=
  let idx := items.zipIdx
  if nested then
    (idx.flatMap (fun p => (getArr p.1 "inner").map (fun x => (getStr x "key", p.2))), items.map (fun j => (getArr j "inner").length))
  else
    (idx.map (fun p => (getStr p.1 "key", p.2)), items.map (fun _ => 1))

structure SchedSt where
  acquired : List Nat := []
  ended : List (Nat × Nat) := []   -- top index -> leaves ended so far
  sched : List Tr := []
  unknown : List String := []

def feSchedule (nested : Bool) (items : List Json) (log : List Json) : List Tr × List String :=
  let (index, counts) := feLeafIndex nested items
  -- items without leaves leave no trace: they take and release a slot before anything else
  let empties : List Tr := (counts.zipIdx.filter (fun p => p.1 == 0)).flatMap (fun p => [Tr.acquire p.2, Tr.finish p.2])
  let st := log.foldl (fun (st : SchedSt) e =>
    let ev := getStr e "ev"
    if ev != "exec-start" && ev != "exec-end" then st else
    match lookup (getStr e "run") index with
    | none => { st with unknown := st.unknown ++ [getStr e "run"] }
    | some o =>
      if ev == "exec-start" then
        if nested && st.acquired.contains o then st
        else { st with acquired := o :: st.acquired, sched := st.sched ++ [Tr.acquire o] }
      else
        let k := ((st.ended.find? (fun p => p.1 == o)).map (·.2)).getD 0 + 1
        let ended := (o, k) :: st.ended.filter (fun p => p.1 != o)
        if k == counts.getD o 0 then { st with ended := ended, sched := st.sched ++ [Tr.finish o] }
        else { st with ended := ended }) ({} : SchedSt)
  (empties ++ st.sched, st.unknown)

/-- run a schedule, reporting the position of the first refused transition -/
def feRun (P : Pool Val Val) (sched : List Tr) : Except (Nat × Tr) (PoolState Val Val) := Id.run do
  let mut s := init P
  let mut k := 0
  for t in sched do
    match step P s t with
    | none => return .error (k, t)
    | some s' => s := s'
    k := k + 1
  return .ok s

def showTr : Tr → String
  | .acquire i => s!"acquire {i}"
  | .finish i => s!"finish {i}"
  | .cancel => "cancel"
  | .abort i => s!"abort {i}"

def intKey (k : String) : Option Nat := if k.startsWith "#" then (k.drop 1).toNat? else k.toNat?

def mapKvs (v : Val) : List (String × Val) :=
  match v with
  | .map kvs => kvs
  | _ => []

def sortNat (l : List Nat) : List Nat := (l.toArray.qsort (· < ·)).toList

def showOut (o : StepOutput Val) : Json :=
  match o with
  | .success d => Json.mkObj [("output", "success"), ("data", encVal (canon (optList d)))]
  | .failure d e => Json.mkObj [("output", "failed"),
      ("data", encVal (canon (.map (d.map (fun p => (s!"#{p.1}", p.2)))))), ("error_keys", toString (e.map (·.1)))]

/-- the per-item outcome is outside the pool model; the one known way a scripted-success item fails is the run loop's
    fallback deadlock detector firing under load (property C09), recognisable by its message -/
def detectorHit (errors : List (String × Val)) : Bool :=
  errors.any (fun p => match p.2 with
    | .str m => (m.splitOn "no steps running, no more executable steps").length > 1
    | _ => false)

def outEq : StepOutput Val → StepOutput Val → Bool
  | .success a, .success b => optList a == optList b
  | .failure d e, .failure d' e' =>
    d.map (·.1) == d'.map (·.1) && Val.list (d.map (·.2)) == Val.list (d'.map (·.2)) && e == e'
  | _, _ => false

def runForeachCase (c : Json) : String × Json := Id.run do
  if !(c.getObjVal? "skip" matches .error _) then return ("skip", .str "harness skipped")
  if getStr c "kind" != "foreach" then return ("skip", .str "not a foreach case")
  if getBool c "cancelled" then return ("skip", .str "closed run: which items were interrupted is timing dependent (checked by the monitor: every index accounted for)")
  let res := getObj c "result"
  if !(c.getObjVal? "panic" matches .error _) then return ("diff", Json.mkObj [("what", "panic")])
  if !(getBool res "returned") then return ("diff", Json.mkObj [("what", "Execute did not return; every schedule of the model completes")])
  let nested := getBool c "nested"
  let items := getArr c "items"
  let p := getNat c "parallelism"
  if p == 0 then return ("skip", .str "parallelism 0")
  let cfg : FeCfg := { src := getStr c "src", declAlt := getBool c "decl_alt", declErr := getBool c "decl_err",
                       declFailed := getBool c "decl_failed", innerPar := getNat c "inner_parallelism" }
  let P := feTopPool cfg nested items p
  let (sched, unknown) := feSchedule nested items (getArr c "log")
  if !unknown.isEmpty then
    return ("diff", Json.mkObj [("what", "the plugin ran for items that are not in the list"), ("keys", toString unknown)])
  match feRun P sched with
  | .error (k, t) =>
    return ("diff", Json.mkObj [("what", "the observed schedule is not a schedule of the model (parallelism exceeded or item run twice)"),
      ("position", k), ("transition", showTr t), ("parallelism", p)])
  | .ok s =>
    if !(allDone s) then
      return ("diff", Json.mkObj [("what", "items missing from the plugin log"), ("phases", toString (repr s.phase))])
    let out := assemble s
    -- the replayed schedule and the declarative reading must agree (theorem order_independent, re-checked at run time)
    if !(outEq out (expected P)) then
      return ("diff", Json.mkObj [("what", "model: assemble ≠ expected (contradicts order_independent)")])
    let obsId := getStr res "output_id"
    let data := decVal (getObj res "data")
    match out with
    | .success d =>
      let obs := (lookup "r" (mapKvs data)).getD .null
      if obsId == "success" && valEq obs (optList d) then return ("ok", .null)
      let oe := mapKvs ((lookup "errors" (mapKvs ((lookup "e" (mapKvs data)).getD .null))).getD .null)
      if detectorHit oe then return ("skip", .str "a sub-workflow run was failed by the run loop's fallback deadlock detector (C09)")
      return ("diff", Json.mkObj [("what", "output"), ("model", showOut out), ("impl", res)])
    | .failure d e =>
      let eo := (lookup "e" (mapKvs data)).getD .null
      let od := mapKvs ((lookup "data" (mapKvs eo)).getD .null)
      let oe := mapKvs ((lookup "errors" (mapKvs eo)).getD .null)
      if detectorHit oe then return ("skip", .str "a sub-workflow run was failed by the run loop's fallback deadlock detector (C09)")
      let keysOk := sortNat (oe.filterMap (fun p => intKey p.1)) == e.map (·.1) && oe.length == e.length
      let dataOk := valEq (.map od) (.map (d.map (fun p => (s!"#{p.1}", p.2))))
      if obsId == "failed" && keysOk && dataOk then return ("ok", .null)
      return ("diff", Json.mkObj [("what", "output"), ("model", showOut out), ("impl", res)])

end Arca.Driver
