/-
`arcadrv parse`: the model side of the C11 correspondence streams (`vharness parse -mode tree|fs|bytes`).

tree / bytes cases: the model (`Arca.Model.Yaml`) is run on the node tree gopkg.in/yaml.v3 really produced for the text
(`ynode`; yaml.v3 is the trusted byte → node function) and, for generated trees, also on the abstract tree the text was
rendered from; the outcome classes of `Parse`, `Raw` (with the value) and `FromYAML` up to `yamlBuildExpressions` are
compared with what the real code did.  The part of `FromYAML` after `yamlBuildExpressions` (schema unserialization) is
outside the model: there only "never a panic / timeout" is required.

fs cases: `Arca.Model.SubWf` on the abstraction of the file system against `engine.SubworkflowCache` (class, error kind
up to Go's map iteration order, key set of the merged cache) and against `engine.Parse` with the cache of the CLI and
with an in-memory cache whose copies differ from the context directory (class, error kind up to iteration order).
-/
import Arca.Driver.Codec
import Arca.Model.Yaml
import Arca.Model.SubWf

open Lean (Json)

namespace Arca.Driver
open Arca.Model

namespace ParseDrv
open Arca.Model.Yaml

partial def decY (j : Json) : Option YNode :=
  let all (xs : List (Option YNode)) : Option (List YNode) :=
    if xs.all Option.isSome then some (xs.filterMap id) else none
  match getStr j "t" with
  | "empty" => some .empty
  | "scalar" => some (.scalar (getStr j "tag") (getStr j "v"))
  | "alias" => some (.alias (getStr j "v"))
  | "seq" => (all ((getArr j "items").map decY)).map (.seq (getStr j "tag") (getStr j "v"))
  | "doc" => (all ((getArr j "items").map decY)).map .doc
  | "map" =>
    let es := (getArr j "entries").map (fun e =>
      match e with
      | .arr #[k, v] =>
        match decY k, decY v with
        | some k, some v => some (k, v)
        | _, _ => none
      | _ => none)
    if es.all Option.isSome then some (.map (getStr j "tag") (getStr j "v") (es.filterMap id)) else none
  | _ => none

/-- the abstract tree of a generated case as the root node yaml.v3 hands to `transform`: `Unmarshal` decodes the first
    document of the stream into a document node with one child; an empty stream leaves the zero node -/
def decTop (j : Json) : Option YNode :=
  match getStr j "t" with
  | "empty" => some .empty
  | "docs" =>
    match getArr j "docs" with
    | [] => some .empty
    | d :: _ => (decY d).map (fun x => .doc [x])
  | _ => (decY j).map (fun x => .doc [x])

def boolTable (j : Json) : List (String × Bool) :=
  (objFields j).map (fun p => (p.1, match p.2 with | .bool b => b | _ => false))

def strTable (j : Json) : List (String × String) :=
  (objFields j).filterMap (fun p => match p.2 with | .str s => some (p.1, s) | _ => none)

def envOf (c : Json) : Env :=
  let exprs := boolTable (getObj c "exprs")
  let sp := strTable (getObj c "steppath")
  let panics := (getArr c "expr_panics").filterMap (fun j => match j with | .str s => some s | _ => none)
  { parseExpr := fun s =>
      if panics.contains s then .panics
      else if (Arca.Model.lookup s exprs).getD false then .compiles else .rejected
    stepPath := fun s => Arca.Model.lookup s sp }

def dedupLast (kvs : List (String × Val)) : List (String × Val) :=
  kvs.foldl (fun acc p => Arca.Model.insertKv p.1 p.2 acc) []

partial def rawToVal : RawVal → Val
  | .str s => .str s
  | .seq xs => .list (xs.map rawToVal)
  | .map kvs => .map (dedupLast (kvs.map (fun p => (p.1, rawToVal p.2))))

structure ModelObs where
  parse : String
  raw : String
  rawVal : Option Val
  /-- class of FromYAML up to yamlBuildExpressions: ok | err-yaml | err-build | panic -/
  from_ : String
  site : String := ""
  /-- which error the model reports (for histograms; never compared) -/
  why : String := ""

def runModel (env : Env) (y : YNode) : ModelObs :=
  match transform y with
  | .panic s => { parse := "panic", raw := "n/a", rawVal := none, from_ := "panic", site := s }
  | .err e => { parse := "err", raw := "n/a", rawVal := none, from_ := "err-yaml", why := toString (repr e) }
  | .ok n =>
    let (rc, rv, rs) := match raw n with
      | .ok v => ("ok", some (rawToVal v), "")
      | .panic s => ("panic", none, s)
    let (fc, fs, why) := match buildExpressions env n with
      | .ok _ => ("ok", "", "")
      | .err e => ("err-build", "", toString (repr e))
      | .panic s => ("panic", s, "")
    { parse := "ok", raw := rc, rawVal := rv, from_ := fc, site := if rs != "" then rs else fs, why := why }

def showModel (m : ModelObs) : Json :=
  Json.mkObj [("parse", m.parse), ("raw", m.raw), ("fromyaml_prefix", m.from_), ("site", m.site), ("why", m.why)]

/-- compare the model's classes with the observation; returns the list of disagreements -/
def compareObs (m : ModelObs) (c : Json) (len : Nat) : List String := Id.run do
  let obs := getObj c "observed"
  let oParse := getStr obs "parse"
  let oRaw := getStr obs "raw"
  let oFrom := getStr obs "fromyaml"
  let oErr := getStr obs "fromyaml_err"
  let mut bad : List String := []
  if oParse != m.parse then bad := bad ++ [s!"parse: impl {oParse}, model {m.parse}"]
  if oRaw != m.raw then bad := bad ++ [s!"raw: impl {oRaw}, model {m.raw}"]
  match m.rawVal, c.getObjVal? "raw_value" with
  | some v, .ok j => if !(valEq v (decVal j)) then bad := bad ++ ["raw value differs"]
  | _, _ => pure ()
  -- FromYAML: `if len(data) == 0 { return nil, ErrEmptyWorkflowFile }` comes before everything else
  if len == 0 then
    if !(oFrom == "err" && oErr == "empty") then bad := bad ++ [s!"fromyaml on empty data: impl {oFrom}/{oErr}"]
  else
    match m.from_ with
    | "panic" => if oFrom != "panic" then bad := bad ++ [s!"fromyaml: impl {oFrom}, model panic"]
    | "err-yaml" => if !(oFrom == "err" && oErr == "yaml") then bad := bad ++ [s!"fromyaml: impl {oFrom}/{oErr}, model err/yaml"]
    | "err-build" => if !(oFrom == "err" && oErr == "invalid") then bad := bad ++ [s!"fromyaml: impl {oFrom}/{oErr}, model err/invalid"]
    | _ =>
      -- yamlBuildExpressions succeeded: the rest (schema) is outside the model; it may accept or reject, never crash
      if !(oFrom == "ok" || (oFrom == "err" && oErr == "invalid")) then
        bad := bad ++ [s!"fromyaml: impl {oFrom}/{oErr}, model ok up to yamlBuildExpressions"]
  return bad

def runTreeCase (c : Json) : String × Json := Id.run do
  if !(c.getObjVal? "skip" matches .error _) then return ("skip", .str "harness skipped")
  let env := envOf c
  let obs := getObj c "observed"
  let len := getNat c "len"
  let yv3 := getStr c "yamlv3"
  let anyCrash := [getStr obs "parse", getStr obs "raw", getStr obs "fromyaml"].any (fun s => s == "panic" || s == "timeout")
  let treeJ := getObj c "tree"
  let treeY : Option YNode := if treeJ.isNull then none else decTop treeJ
  if !treeJ.isNull && treeY.isNone then return ("diff", .str "cannot decode the abstract tree")
  let mut notes : List (String × Json) := []
  let mut bad : List String := []
  if yv3 == "panic" || yv3 == "timeout" then
    -- yaml.v3 itself crashed: outside the model, but the engine crashes with it
    return ("diff", Json.mkObj [("what", "yaml.v3 " ++ yv3)])
  if yv3 == "ok" then
    match c.getObjVal? "ynode" with
    | .ok yj =>
      match decY yj with
      | none => return ("diff", Json.mkObj [("what", "yaml.v3 produced a node outside the model's alphabet"), ("ynode", yj)])
      | some y =>
        let m := runModel env y
        notes := notes ++ [("model", showModel m)]
        bad := bad ++ compareObs m c len
        -- renderer self-check and the model on the abstract tree
        match treeY with
        | some t =>
          if !(getBool c "render_ok") then bad := bad ++ ["yaml.v3 did not read back the abstract tree the text was rendered from"]
          let mt := runModel env t
          if mt.parse != m.parse || mt.raw != m.raw || mt.from_ != m.from_ then
            bad := bad ++ [s!"model on the abstract tree ({mt.parse}/{mt.raw}/{mt.from_}) differs from the model on yaml.v3's tree"]
        | none => pure ()
    | .error _ =>
      -- tree too deep to ship: only the crash oracle applies
      if anyCrash then bad := bad ++ ["panic or timeout"]
  else
    -- yaml.v3 rejected the bytes: Parse and FromYAML must report that
    if getStr obs "parse" != "err" then bad := bad ++ [s!"yaml.v3 error but parse is {getStr obs "parse"}"]
    if len == 0 then
      pure ()
    else if !(getStr obs "fromyaml" == "err" && getStr obs "fromyaml_err" == "yaml") then
      bad := bad ++ [s!"yaml.v3 error but fromyaml is {getStr obs "fromyaml"}/{getStr obs "fromyaml_err"}"]
    match treeY with
    | some t =>
      -- only an alias to an unknown anchor makes a rendered tree unreadable; the model rejects every alias as well
      let mt := runModel env t
      if mt.parse != "err" then bad := bad ++ ["yaml.v3 rejected the rendering of a tree the model accepts"]
    | none => pure ()
  if bad.isEmpty then
    return ("ok", Json.mkObj notes)
  else
    return ("diff", Json.mkObj (notes ++ [("disagreements", Json.arr (bad.map Json.str).toArray)]))

end ParseDrv

namespace FsDrv
open Arca.Model.SubWf

def decField (j : Json) : Option Field :=
  if !(getBool j "present") then none
  else if getBool j "is_str" then some (.str (getStr j "s")) else some .other

def decStep (j : Json) : Step :=
  if !(getBool j "is_map") then .notMap else .map (decField (getObj j "kind")) (decField (getObj j "workflow"))

def decFile (j : Json) : FileContent :=
  if !(getBool j "valid") then .invalid else .wf ((getArr j "steps").map decStep)

def errName : Err → String
  | .noWorkflowFile => "noroot" | .missing => "missing" | .invalid => "invalid" | .cycle => "cycle"

/-- every failure (an error kind) some iteration order of the Go maps could hit first in the discovery (driver-side
    only; the proven model is `subworkflowCache`, which follows the list order).  The supplied paths are followed before
    anything is loaded: if one of them fails, the loader is not reached. -/
partial def failKinds (norm : String → String) (fs : FS) (sup : Supplied) (steps : List Step) (chain : List String) :
    List String :=
  let paths := stepWorkflowPaths steps
  let supKinds := paths.flatMap (fun p =>
    match supLookup sup p with
    | none => []
    | some c =>
      if chain.contains p then ["cycle"]
      else match c with
        | .invalid => ["invalid"]
        | .wf sub => failKinds norm fs sup sub (chain ++ [p]))
  if !supKinds.isEmpty then supKinds else
  let rest := paths.filter (fun p => (supLookup sup p).isNone)
  if rest.isEmpty then []
  else if !(allPresent norm fs rest) then ["missing"]
  else rest.flatMap (fun p =>
    if chain.contains (norm p) then ["cycle"]
    else match lookup fs (norm p) with
      | none => ["missing"]
      | some .invalid => ["invalid"]
      | some (.wf sub) => failKinds norm fs sup sub (chain ++ [norm p]))

/-- the same for `checkSubworkflowCycles` -/
partial def checkFailKinds (ctx : FS) (steps : List Step) (chain : List String) : List String :=
  (stepWorkflowPaths steps).flatMap (fun p =>
    if chain.contains p then ["cycle"]
    else match lookup ctx p with
      | none => []
      | some .invalid => ["invalid"]
      | some (.wf sub) => checkFailKinds ctx sub (chain ++ [p]))

/-- the failure kinds `engine.Parse` may report for the caller's cache `files`, in any iteration order -/
def parseFailKinds (norm : String → String) (fs files : FS) (root : String) : List String :=
  match lookup files root with
  | none => ["noroot"]
  | some .invalid => ["invalid"]
  | some (.wf steps) =>
    let adm := (failKinds norm fs (some files) steps []).eraseDups
    if !adm.isEmpty then adm else
    match subworkflowCache norm fs (some files) steps [] [] with
    | .ok keys => (checkFailKinds (mergedContents norm fs files keys) steps []).eraseDups
    | _ => []

def sortDedup (l : List String) : List String :=
  (l.eraseDups.toArray.qsort (· < ·)).toList

def strArr (l : List String) : Json := .arr (l.map Json.str).toArray

def strMapOf (j : Json) : List (String × String) :=
  (objFields j).filterMap (fun p => match p.2 with | .str s => some (p.1, s) | _ => none)

/-- ok | panic | the error kind -/
def outcomeName {α : Type} : Outcome α → String
  | .ok _ => "ok"
  | .error e => errName e
  | .panic _ => "panic"

/-- what the implementation did, in the same vocabulary -/
def observedName (o : Json) : String :=
  match getStr o "class" with
  | "err" => getStr o "err_kind"
  | c => c

/-- the name of a file of the context directory as the Go code holds it in the chain: its absolute path.  (A cache key
    is the string written in the workflow; only an absolute key can coincide with such a name.) -/
def fsName (n : String) : String := if n.startsWith "<dir>" then n else "<dir>/" ++ n

def runFsCase (c : Json) : String × Json := Id.run do
  if !(c.getObjVal? "skip" matches .error _) then return ("skip", .str "harness skipped")
  let root := getStr c "root"
  let absOf : List (String × FileContent) := (objFields (getObj c "observed_abs")).map (fun p => (p.1, decFile p.2))
  let fs : FS := absOf.map (fun p => (fsName p.1, p.2))
  let normT : List (String × String) := (objFields (getObj c "norm")).filterMap (fun p =>
    match p.2 with
    | .str s => some (p.1, s)
    | _ => none)
  let norm : String → String := fun p => fsName ((Arca.Model.lookup p normT).getD p)
  let mut bad : List String := []
  -- the model has no file on which FromYAML panics (compileExpression recovers the expression parser's panics)
  for p in objFields (getObj c "observed_abs") do
    if getBool p.2 "panics" then bad := bad ++ [s!"FromYAML panicked on file {p.1}: outside the model"]
  if !(getBool c "abs_ok") then bad := bad ++ ["FromYAML does not see the files the way the generator intended (abstraction mismatch)"]
  -- (2) SubworkflowCache alone (no supplied files)
  let oSub := observedName (getObj c "subcache")
  let (mSub, mFiles, adm) : String × List String × List String :=
    match lookup fs (fsName root) with
    | none => ("noroot", [], ["noroot"])
    | some .invalid => ("invalid", [], ["invalid"])
    | some (.wf steps) =>
      let adm := (failKinds norm fs none steps []).eraseDups
      match subworkflowCacheTop norm fs steps with
      | .ok files => ("ok", sortDedup files, adm)
      | r => (outcomeName r, [], adm)
  if mSub == "ok" then
    if !adm.isEmpty then bad := bad ++ [s!"model ok but some iteration order fails with {adm}"]
    if oSub != "ok" then bad := bad ++ [s!"SubworkflowCache: impl {oSub}, model ok"]
    else
      let oFiles := (getArr (getObj c "subcache") "files").filterMap (fun j => match j with | .str s => some s | _ => none)
      if sortDedup oFiles != mFiles then bad := bad ++ [s!"merged cache: impl {oFiles}, model {mFiles}"]
  else
    if !(adm.contains mSub) then bad := bad ++ [s!"model outcome {mSub} is not among the admissible ones {adm}"]
    if !(adm.contains oSub) then bad := bad ++ [s!"SubworkflowCache: impl {oSub}, admissible {adm} (model, list order: {mSub})"]
  -- (1) engine.Parse with the cache of the CLI (the root alone, as it is on disk), (3) with an in-memory cache that
  -- holds every file, some with the text of another one; the caller's cache is what discovery is handed as `supplied`
  let cliCache := contextCache norm fs root
  let swapped := strMapOf (getObj (getObj c "parse_mem") "swapped")
  let memCache : FS := absOf.map (fun p =>
    (p.1, ((Arca.Model.lookup p.1 swapped).bind (fun src => lookup absOf src)).getD p.2))
  let mut parses : List (String × FS × Json) := [("Parse", cliCache, getObj c "parse")]
  if !(getObj c "parse_mem").isNull then parses := parses ++ [("Parse(memory)", memCache, getObj c "parse_mem")]
  let mut notes : List (String × Json) := []
  for (what, files, obs) in parses do
    let oParse := observedName obs
    let mParse := parseFiles norm fs files root
    let admP := parseFailKinds norm fs files root
    notes := notes ++ [(what, Json.mkObj [("outcome", outcomeName mParse), ("admissible", strArr admP)])]
    match mParse with
    | .ok keys =>
      -- preparation (outside this model) may still reject the workflow, but not for a missing file or a cycle
      if !admP.isEmpty then bad := bad ++ [s!"{what}: model ok but some iteration order fails with {admP}"]
      if !(oParse == "ok" || oParse == "later" || oParse == "invalid") then bad := bad ++ [s!"{what}: impl {oParse}, model ok"]
      if !(keys.contains root) then bad := bad ++ [s!"{what}: model: root not in the merged cache"]
    | _ =>
      if !(admP.contains (outcomeName mParse)) then
        bad := bad ++ [s!"{what}: model outcome {outcomeName mParse} is not among the admissible ones {admP}"]
      if !(admP.contains oParse) then
        bad := bad ++ [s!"{what}: impl {oParse}, admissible {admP} (model, list order: {outcomeName mParse})"]
  let detail := [("model", Json.mkObj ([("outcome", Json.str mSub), ("files", strArr mFiles), ("admissible", strArr adm)] ++ notes))]
  if bad.isEmpty then return ("ok", Json.mkObj detail)
  else return ("diff", Json.mkObj (detail ++ [("disagreements", strArr bad)]))

end FsDrv

partial def parseEachLine (h : IO.FS.Stream) (f : String → IO Unit) : IO Unit := do
  let line ← h.getLine
  if line.isEmpty then return ()
  if line.trimAscii.toString.isEmpty then parseEachLine h f else
  f line
  parseEachLine h f

def cmdParse (_args : List String) : IO Unit := do
  let stdin ← IO.getStdin
  let stdout ← IO.getStdout
  parseEachLine stdin fun line => do
    match Json.parse line with
    | .error e => stdout.putStrLn (Json.mkObj [("verdict", "bad-json"), ("detail", e)]).compress
    | .ok c =>
      let (verdict, detail) :=
        match getStr c "kind" with
        | "parse-tree" => ParseDrv.runTreeCase c
        | "parse-bytes" => ParseDrv.runTreeCase c
        | "parse-fs" => FsDrv.runFsCase c
        | "harness-error" => ("skip", Json.str "harness error")
        | k => ("skip", Json.str ("unknown case kind " ++ k))
      stdout.putStrLn (Json.mkObj [("id", getStr c "id"), ("verdict", verdict), ("detail", detail)]).compress
    stdout.flush

end Arca.Driver
