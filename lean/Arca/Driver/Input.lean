/-
`arcadrv input`: compare what the real `Execute` did with a generated input document (stream of `vharness input`) with
`Arca.Model.executeInput` / `Arca.Model.executePrologue`.

verdict "diff":
* the model accepts the document and the real run refused it, or the other way round;
* both accept, but the returned `$.input` or what a plugin received differs from the model's normalised value;
* the real run ended in anything but `success` / error class `invalidInput` (panic, time-out, other error);
* the number of deployments contradicts the model's prologue (a refused input with deployments; an accepted one where
  the number of deployments differs from the number of steps).
verdict "skip": prepare failed in the harness, or the document contains float text outside the modelled class.
-/
import Arca.Driver.Codec
import Arca.Model.Ty

open Lean (Json)

namespace Arca.Driver.Input
open Arca.Model Arca.Driver

def optNat (j : Json) (k : String) : Option Nat :=
  match decVal (getObj j k) with
  | .int i => some i.toNat
  | _ => none

def optInt (j : Json) (k : String) : Option Int :=
  match decVal (getObj j k) with
  | .int i => some i
  | _ => none

def decPat (j : Json) : Option Pat :=
  match getStr j "k" with
  | "pre" => some (.pre (getStr j "p"))
  | "all" =>
    let cls : CharCls := match getStr j "cls" with
      | "lower" => .lower | "digit" => .digit | "alnum" => .alnum | _ => .word
    some (.all cls (getBool j "ne"))
  | _ => none

mutual
  partial def decTy (j : Json) : Ty :=
    match getStr j "t" with
    | "str" => .str (optNat j "min") (optNat j "max") (decPat (getObj j "pat"))
    | "int" => .int (optInt j "min") (optInt j "max")
    | "bool" => .bool
    | "float" => .float
    | "list" => .list (decTy (getObj j "item")) (optNat j "min") (optNat j "max")
    | "map" => .map (decTy (getObj j "val"))
    | _ => .obj (decProps (getArr j "props"))
  partial def decProps (ps : List Json) : Props :=
    match ps with
    | [] => .nil
    | p :: rest =>
      let d : Option Val := if getBool p "has_default" then some (decVal (getObj p "default")) else none
      .cons (getStr p "name") (getBool p "req") d (decTy (getObj p "ty")) (decProps rest)
end

def navigate (v : Val) : List String → Option Val
  | [] => some v
  | k :: rest => match v with
    | .map kvs => (lookup k kvs).bind (fun x => navigate x rest)
    | _ => none

def strList (j : Json) : List String :=
  match j with
  | .arr xs => xs.toList.filterMap (fun x => match x with | .str s => some s | _ => none)
  | _ => []

/-- the `OpInput` struct the scripted plugin logs, as the harness encodes it (nil pointers are null, a nil slice is []) -/
def opInputOf (fields : List (String × Val)) : Val :=
  let get (k : String) : Val := (lookup k fields).getD .null
  let l : Val := match lookup "l" fields with
    | some (.list xs) => .list xs
    | _ => .list []
  .gostruct "OpInput" [("b", get "b"), ("i", get "i"), ("l", l), ("s", get "s")]

/-- what step `st` must have received, given the normalised input `w` -/
def expectedSeen (w : Val) (st : Json) : Option Val :=
  match st.getObjVal? "whole" with
  | .ok (.arr p) =>
    match navigate w (strList (.arr p)) with
    | some (.map kvs) => some (opInputOf kvs)
    | _ => none
  | _ =>
    let refs := objFields (getObj st "refs")
    let vals := refs.map (fun r => (r.1, navigate w (strList r.2)))
    if vals.all (fun p => p.2.isSome) then some (opInputOf (vals.filterMap (fun p => p.2.map (fun v => (p.1, v)))))
    else none

structure InputVerdict where
  verdict : String
  detail : Json := .null

def errName : TyErr → String
  | .wrongType => "wrongType" | .constraint => "constraint" | .unknownField => "unknownField"
  | .missingRequired => "missingRequired" | .unmodelled => "unmodelled"

def runInputCase (c : Json) : InputVerdict :=
  if getStr c "kind" != "input" then { verdict := "skip", detail := "not an input case" } else
  match c.getObjVal? "skip" with
  | .ok r => { verdict := "skip", detail := r }
  | .error _ =>
  let ty := decTy (getObj c "ty")
  let doc := decVal (getObj c "doc")
  let steps := getArr c "steps"
  let res := getObj c "result"
  let outId := getStr res "output_id"
  let cls := getStr res "err_class"
  let realValid : Option Bool :=
    if (c.getObjVal? "panic").isOk || !getBool res "returned" then none
    else if outId == "success" && cls == "" then some true
    else if outId == "" && cls == "invalidInput" then some false
    else none
  let model := executeInput ty doc
  let prologue := executePrologue ty doc steps.length
  let starts := (prologue.filter PrologueAction.isStart).length
  let mk (why : String) (extra : List (String × Json)) : InputVerdict :=
    { verdict := "diff", detail := Json.mkObj ([("why", Json.str why), ("violation_kind", Json.str (getStr c "violation_kind")),
        ("expect_valid", Json.bool (getBool c "expect_valid"))] ++ extra) }
  match model with
  | .error .unmodelled => { verdict := "skip", detail := "float text outside the modelled class" }
  | _ =>
  match realValid with
  | none => mk "the real run ended in neither success nor invalidInput" [("result", res), ("panic", getObj c "panic")]
  | some rv =>
  match model with
  | .error e =>
    if rv then mk "model: refused, real: accepted" [("model_error", errName e), ("result", res)]
    else if getNat c "deploys_settled" != 0 || getNat c "deploys_at_return" != 0 then
      mk "refused input, but plugins were deployed" [("deploys", getObj c "deploys_settled")]
    else if starts != 0 then mk "model prologue starts steps on a refused input" []
    else { verdict := "ok", detail := Json.mkObj [("valid", false), ("model_error", errName e)] }
  | .ok w =>
    if !rv then mk "model: accepted, real: refused" [("model", encVal (canon w)), ("err", getObj res "err")] else
    let realInput := match decVal (getObj res "data") with
      | .map kvs => lookup "input" kvs
      | _ => none
    match realInput with
    | none => mk "the returned output has no `input` field" [("result", res)]
    | some ri =>
      if !valEq ri w then mk "returned $.input differs from the normalised input" [("model", encVal (canon w)), ("real", encVal (canon ri))] else
      let seen : List (String × Val) := (getArr c "seen").map (fun s => (getStr s "src", decVal (getObj s "data")))
      let bad := steps.filterMap (fun st =>
        let id := getStr st "id"
        match expectedSeen w st, lookup id seen with
        | some e, some s => if valEq e s then none else some (Json.mkObj [("step", id), ("model", encVal (canon e)), ("real", encVal (canon s))])
        | none, _ => some (Json.mkObj [("step", id), ("why", "reference does not resolve in the normalised input")])
        | _, none => some (Json.mkObj [("step", id), ("why", "plugin was not executed")]))
      if !bad.isEmpty then mk "a plugin received something else than the normalised input" [("steps", .arr bad.toArray)]
      else if getNat c "deploys_settled" != starts then
        mk "number of deployments differs from the number of started steps" [("deploys", getObj c "deploys_settled"), ("starts", starts)]
      else { verdict := "ok", detail := Json.mkObj [("valid", true)] }

partial def inputLoop (stdin stdout : IO.FS.Stream) : IO Unit := do
  let line ← stdin.getLine
  if line.isEmpty then return ()
  if line.trimAscii.toString.isEmpty then inputLoop stdin stdout else
  match Json.parse line with
  | .error e => stdout.putStrLn (Json.mkObj [("verdict", "bad-json"), ("detail", e)]).compress
  | .ok c =>
    let out := runInputCase c
    stdout.putStrLn (Json.mkObj [("id", getStr c "id"), ("verdict", out.verdict), ("detail", out.detail)]).compress
  stdout.flush
  inputLoop stdin stdout

end Arca.Driver.Input

namespace Arca.Driver

def cmdInput (_args : List String) : IO Unit := do
  Input.inputLoop (← IO.getStdin) (← IO.getStdout)

end Arca.Driver
