/-
`arcadrv infer`: compare what the real `infer.Type` inferred for a generated literal, and what the real `Unserialize` of the
inferred schema said about that literal (stream of `vharness infer`), with `Arca.Model.Infer.infer` / `accepts`.

verdict "diff": inference succeeds on one side only, the inferred types differ (canonical text), or — when no cross-kind leaf
conversion is involved (`leafConsistent`) — the acceptance verdicts differ; also a panic or a second inference that differs.
verdict "ok" otherwise; the reply carries `model_accepts`, `homog`, `compared_accept` for the monitor.
-/
import Arca.Driver.Codec
import Arca.Model.Infer

open Lean (Json)

namespace Arca.Driver
open Arca.Model.Infer

mutual
  partial def decLit (j : Json) : Option Lit :=
    match getStr j "t" with
    | "nil" => some .null
    | "str" => some (.str (getStr j "s"))
    | "int" =>
      match kindRange (getStr j "k"), (getStr j "i").toInt? with
      | some (lo, hi), some i => some (.int lo hi i)
      | _, _ => none
    | "float" => some .float
    | "bool" => some (.bool (getBool j "b"))
    | "list" => (decLitItems (getArr j "xs")).map .list
    | "obj" => (decLitFields (sortKvs (objFields (getObj j "fs")))).map .obj
    | _ => none
  partial def decLitItems : List Json → Option Lits
    | [] => some .nil
    | x :: rest =>
      match decLit x, decLitItems rest with
      | some a, some b => some (.cons a b)
      | _, _ => none
  partial def decLitFields : List (String × Json) → Option Fields
    | [] => some .nil
    | (k, x) :: rest =>
      match decLit x, decLitFields rest with
      | some a, some b => some (.cons k a b)
      | _, _ => none
end

def runInferCase (c : Json) : String × Json :=
  if getStr c "kind" != "infer" then ("skip", "not an infer case") else
  match c.getObjVal? "panic" with
  | .ok p => ("diff", Json.mkObj [("why", "the real inference / validation panicked"), ("panic", p)])
  | .error _ =>
  if getBool c "timeout" then ("diff", Json.mkObj [("why", "timeout")]) else
  if getBool c "nondeterministic" then ("diff", Json.mkObj [("why", "two inferences of the same value differ")]) else
  match decLit (getObj c "lit") with
  | none => ("skip", "literal outside the line protocol")
  | some v =>
    if !wf v then ("skip", "ill-formed literal (integer outside its kind)") else
    let realErr := (c.getObjVal? "infer_err").isOk
    match infer v, realErr with
    | none, true => ("ok", Json.mkObj [("inferred", false)])
    | none, false => ("diff", Json.mkObj [("why", "the model refuses the literal, the code infers a type"), ("real", getStr c "ty")])
    | some t, true => ("diff", Json.mkObj [("why", "the code refuses the literal, the model infers a type"), ("model", t.render),
        ("real_err", getStr c "infer_err")])
    | some t, false =>
      if t.render != getStr c "ty" then
        ("diff", Json.mkObj [("why", "inferred types differ"), ("model", t.render), ("real", getStr c "ty")])
      else
        let scopeModel := decide (t.tid = .obj)
        if scopeModel != getBool c "scope_ok" then
          ("diff", Json.mkObj [("why", "Scope: root-object verdicts differ"), ("model", scopeModel), ("real", getBool c "scope_ok")])
        else
        let h := homog v
        let a := accepts t v
        let info := [("inferred", Json.bool true), ("homog", Json.bool h), ("model_accepts", Json.bool a), ("ty", Json.str t.render)]
        if h && !a then
          ("diff", Json.mkObj (("why", "model inconsistent with its own theorem") :: info))
        else if !leafConsistent t v then
          ("ok", Json.mkObj (("compared_accept", Json.bool false) :: info))
        else if a != getBool c "accepted" then
          ("diff", Json.mkObj (("why", "acceptance verdicts differ") :: ("real_accepted", Json.bool (getBool c "accepted")) ::
            ("real_err", Json.str (getStr c "accept_err")) :: info))
        else
          ("ok", Json.mkObj (("compared_accept", Json.bool true) :: info))

partial def inferLoop (stdin stdout : IO.FS.Stream) : IO Unit := do
  let line ← stdin.getLine
  if line.isEmpty then return ()
  if line.trimAscii.toString.isEmpty then inferLoop stdin stdout else
  match Json.parse line with
  | .error e => stdout.putStrLn (Json.mkObj [("verdict", "bad-json"), ("detail", e)]).compress
  | .ok c =>
    let (verdict, detail) := runInferCase c
    stdout.putStrLn (Json.mkObj [("id", getStr c "id"), ("verdict", verdict), ("detail", detail)]).compress
  stdout.flush
  inferLoop stdin stdout

def cmdInfer (_args : List String) : IO Unit := do
  inferLoop (← IO.getStdin) (← IO.getStdout)

end Arca.Driver
