/-
`arcadrv builtins`: compare what the real built-in functions returned (stream of `vharness builtins`) with
`Arca.Model.Builtins.callBuiltin`.

verdict "diff": the model's result differs from the real one (values by bit pattern, error vs ok), the real call
panicked, or — for the functions that are not modelled value-exactly — the real result violates the shape contract.
verdict "skip": outside the model (environment-dependent function, invalid UTF-8, non-ASCII input of toLower/toUpper,
arguments outside the declared schema of a function without value model).
-/
import Arca.Driver.Codec
import Arca.Model.Builtins

open Lean (Json)

namespace Arca.Driver
open Arca.Model
open Arca.Model.Builtins

/-- does the tagged value contain a `{"b": "<hex>"}` string (bytes that are not valid UTF-8)? -/
partial def hasBytes (j : Json) : Bool :=
  match j with
  | .arr xs => xs.any hasBytes
  | .obj _ =>
    match objFields j with
    | [("b", .str _)] => true
    | [("m", m)] => (objFields m).any (fun p => hasBytes p.2)
    | _ => false
  | _ => false

structure BuiltinVerdict where
  verdict : String
  detail : Json := .null

def resultJson (r : BuiltinResult) : Json :=
  match r with
  | .ok v => Json.mkObj [("ok", encVal (canon v))]
  | .err => Json.mkObj [("err", true)]
  | .notModelled => Json.mkObj [("notModelled", true)]
  | .badArgs => Json.mkObj [("badArgs", true)]

def strAllAscii (s : String) : Bool := s.toList.all isAscii

def runBuiltinCase (c : Json) : BuiltinVerdict :=
  if getStr c "kind" != "builtin" then { verdict := "skip", detail := "not a builtin case" } else
  let fn := getStr c "fn"
  let res := getObj c "result"
  match res.getObjVal? "panic" with
  | .ok p =>
    -- arguments outside the declared parameter schema (e.g. a verb that does not match the declared pattern) are not
    -- subject to the property: recorded, not a disagreement
    if getBool c "in_schema" then
      { verdict := "diff", detail := Json.mkObj [("fn", fn), ("why", "the real call panicked"), ("panic", p)] }
    else
      { verdict := "skip", detail := Json.mkObj [("fn", fn), ("why", "panic for arguments outside the declared schema"), ("panic", p)] }
  | .error _ =>
  match c.getObjVal? "skip" with
  | .ok r => { verdict := "skip", detail := r }
  | .error _ =>
  match c.getObjVal? "skip_model" with
  | .ok r => { verdict := "skip", detail := r }
  | .error _ =>
  let argsJ := getArr c "args"
  if argsJ.any hasBytes || hasBytes res then { verdict := "skip", detail := "invalid UTF-8: outside the model" } else
  let args := argsJ.map decVal
  let realOk : Option Val := match res.getObjVal? "ok" with
    | .ok v => some (decVal v)
    | .error _ => none
  let realErr : Bool := getBool res "err"
  if realOk.isNone && !realErr then { verdict := "diff", detail := Json.mkObj [("fn", fn), ("why", "unreadable result"), ("result", res)] } else
  let model := callBuiltin fn args
  let mismatch (why : String) : BuiltinVerdict :=
    { verdict := "diff", detail := Json.mkObj [("fn", fn), ("why", why), ("model", resultJson model), ("real", res), ("args", .arr argsJ.toArray)] }
  match model with
  | .badArgs => mismatch "the model does not know this function / argument shape"
  | .err => if realErr then { verdict := "ok" } else mismatch "model: error, real: value"
  | .ok v =>
    let asciiOnly := match fn, args with
      | "toLower", [.str s] => strAllAscii s
      | "toUpper", [.str s] => strAllAscii s
      | _, _ => true
    if !asciiOnly then { verdict := "skip", detail := "non-ASCII input: case mapping is a model parameter" } else
    match realOk with
    | some r => if valEq v r then { verdict := "ok" } else mismatch "values differ"
    | none => mismatch "model: value, real: error"
  | .notModelled =>
    let inSchema := getBool c "in_schema"
    match fn, args, realOk with
    | "floatToString", [.float b], some (.str s) =>
      if floatToStringShape b s && floatToStringPattern s then { verdict := "ok", detail := "shape" } else mismatch "shape contract of floatToString violated"
    | "floatToString", _, _ => mismatch "floatToString did not return a string"
    | "floatToFormattedString", [.float b, _, _], some (.str s) =>
      if !inSchema then { verdict := "skip", detail := "arguments outside the declared schema" }
      else if formattedShape b s then { verdict := "ok", detail := "shape" } else mismatch "shape contract of floatToFormattedString violated"
    | "floatToFormattedString", _, _ =>
      if !inSchema then { verdict := "skip", detail := "arguments outside the declared schema" }
      else mismatch "floatToFormattedString did not return a string"
    | "stringToFloat", [.str s], some (.float b) =>
      if stringToFloatShape s (some b) then { verdict := "ok", detail := "shape" } else mismatch "shape contract of stringToFloat violated"
    | "stringToFloat", [.str s], none =>
      if stringToFloatShape s none then { verdict := "ok", detail := "shape" } else mismatch "stringToFloat rejected a plain decimal"
    | _, _, _ => { verdict := "skip", detail := "not modelled" }

partial def builtinsLoop (stdin stdout : IO.FS.Stream) : IO Unit := do
  let line ← stdin.getLine
  if line.isEmpty then return ()
  if line.trimAscii.toString.isEmpty then builtinsLoop stdin stdout else
  match Json.parse line with
  | .error e => stdout.putStrLn (Json.mkObj [("verdict", "bad-json"), ("detail", e)]).compress
  | .ok c =>
    let out := runBuiltinCase c
    stdout.putStrLn (Json.mkObj [("id", getStr c "id"), ("verdict", out.verdict), ("detail", out.detail)]).compress
  stdout.flush
  builtinsLoop stdin stdout

def cmdBuiltins (_args : List String) : IO Unit := do
  builtinsLoop (← IO.getStdin) (← IO.getStdout)

end Arca.Driver
