/-
`arcadrv dgraph`: the model side of the correspondence check of `Arca.Model.Dgraph` against the real go.arcalot.io/dgraph.

Every line is one operation sequence the harness (`vharness dgraph`, cmd_dgraph.go) ran against the REAL library, with what
the library returned and an observation of the whole graph after every operation.  The same sequence is run on the model -
`Graph.addNode / connect / pushStarting / popReady / hasReady / resolve / hasCycles / clone` of Model/Dgraph.lean, through the
thin handle layer of Model/DgraphExt.lean (which adds `Remove` / `Disconnect*` / `ListNodesWithoutInboundConnections`, the part of
the library the engine never calls) - and compared operation by operation:

  * the return class (ok | err:<class> | panic:<class>; classes, never messages),
  * the value of `PopReadyNodes` / `HasCycles` / `HasReadyNodes`,
  * the observation of the graph the operation ran on and of one more graph of the sequence (Clone independence).

Canonicalisation (the model deliberately abstracts Go's map iteration order): the library's maps - nodes, outstanding and
resolved dependencies, inbound / outbound connections, the ready set, the result of PopReadyNodes - are rendered sorted by key on
the Go side; the association lists of the model are sorted the same way here before rendering.  Nothing else is normalised.

A graph on which the harness labelled an operation "poison" is not followed any further (the harness does not use it either);
the label must be justified in the model, otherwise the verdict is `diff`:
  propagation-error           ResolveNode on a waiting node failed while notifying the dependents: the model has the same error
                              (class compared) and no state; the real state depends on Go's map order
  removed-node-in-ready-set   Remove of a node that sits in the ready set (the model agrees that it does)

verdict ok / diff (first differing operation, both sides in `detail`) / skip (the harness could not run the case).
-/
import Arca.Driver.Codec
import Arca.Model.DgraphExt

open Lean (Json)

namespace Arca.Driver
open Arca.Model

namespace Dg

def stCode : St → String
  | .waiting => "w"
  | .resolved => "r"
  | .unres => "u"

def decSt (s : String) : St :=
  match s with
  | "r" => .resolved
  | "u" => .unres
  | _ => .waiting

def depCode : Dep → String
  | .and => "and"
  | .or => "or"
  | .cand => "cand"
  | .opt => "opt"
  | .obv => "obv"

def sortStrs (l : List String) : List String := (l.toArray.qsort (fun a b => a < b)).toList

def commas (l : List String) : String := ",".intercalate l

/-- a dependency map, sorted by key (Go side: sort.Strings on the keys) -/
def depList (l : List (String × Dep)) : String :=
  commas ((sortKvs l).map (fun p => p.1 ++ "/" ++ depCode p.2))

def renderNode (g : Graph String) (n : Node String) : String :=
  n.id ++ ":" ++ stCode n.status ++ ";o=" ++ depList n.out ++ ";r=" ++ depList n.res
    ++ ";i=" ++ commas (sortStrs (g.preds n.id)) ++ ";t=" ++ commas (sortStrs (g.succs n.id))

def renderDead (n : Node String) : String :=
  n.id ++ ":" ++ stCode n.status ++ ";o=" ++ depList n.out ++ ";r=" ++ depList n.res ++ ";i=deleted;t=deleted"

def renderReady (l : List (String × St)) : String :=
  commas (sortStrs (l.map (fun p => p.1 ++ ":" ++ stCode p.2)))

def bit (b : Bool) : String := if b then "1" else "0"

def sortNodes (l : List (Node String)) : List (Node String) := (l.toArray.qsort (fun a b => a.id < b.id)).toList

/-- the observation string of cmd_dgraph.go `observe` -/
def render (h : HGraph String) : String :=
  "n=" ++ "|".intercalate ((sortNodes h.g.nodes).map (renderNode h.g))
    ++ "#d=" ++ "|".intercalate ((sortNodes h.dead).map renderDead)
    ++ "#rdy=" ++ renderReady h.g.popReady.1
    ++ "#noin=" ++ commas (sortStrs h.g.noInbound)
    ++ "#cyc=" ++ bit h.g.hasCycles ++ "#has=" ++ bit h.g.hasReady

def dgClass : DgErr String → String
  | .notFound _ => "err:notFound"
  | .alreadyExists _ => "err:alreadyExists"
  | .connectSelf _ => "err:connectSelf"
  | .connectionExists _ _ => "err:connectionExists"
  | .alreadySet _ _ _ => "err:alreadySet"
  | .panicDupResolution _ _ => "panic:dupResolution"
  | .panicNoConnection _ _ => "panic:noConnection"
  | .notifiedOfWaiting _ _ => "err:notifiedOfWaiting"
  | .fuel => "model:fuel"

def hClass : HErr String → String
  | .dg e => dgClass e
  | .deleted _ => "err:deleted"
  | .noConnection _ _ => "err:noConnection"

/-- what the model says about one operation: return class, the value (pop / cyc / has) and the new state (none = error) -/
structure Out where
  ret : String
  val : String := ""
  st : Option (HGraph String)
  cloned : Option (HGraph String) := none

def ofExcept (h : HGraph String) (x : Except (HErr String) (HGraph String)) : Out :=
  match x with
  | .ok h' => { ret := "ok", st := some h' }
  | .error e => { ret := hClass e, st := some h }   -- a returned error leaves the graph as it was (checked by the observation)

def runOp (h : HGraph String) (op : Json) : Out :=
  match getStr op "o" with
  | "add" => ofExcept h (h.addNode (getStr op "id"))
  | "con" => ofExcept h (h.connect (getStr op "from") (getStr op "to") (decDep (getStr op "d")))
  | "push" => { ret := "ok", st := some { h with g := h.g.pushStarting } }
  | "pop" =>
    let (l, g) := h.g.popReady
    { ret := "ok", val := renderReady l, st := some { h with g := g } }
  | "has" => { ret := "ok", val := bit h.g.hasReady, st := some h }
  | "cyc" => { ret := "ok", val := bit h.g.hasCycles, st := some h }
  | "get" => { ret := if h.g.has (getStr op "id") then "ok" else "err:notFound", st := some h }
  | "res" => ofExcept h (h.resolve (getStr op "id") (decSt (getStr op "st")))
  | "clone" => { ret := "ok", st := some h, cloned := some h.clone }
  | "rm" => ofExcept h (h.remove (getStr op "id"))
  | "dis" => ofExcept h (h.disconnect (getStr op "from") (getStr op "to") (getStr op "via" == "in"))
  | o => { ret := "model:unknown-op:" ++ o, st := some h }

def implVal (op : Json) : String :=
  match getStr op "o" with
  | "pop" => getStr op "popped"
  | "has" => bit (getBool op "val")
  | "cyc" => bit (getBool op "val")
  | _ => ""

def mkDiff (i : Nat) (op : Json) (what : String) (impl model : String) : String × Json :=
  ("diff", Json.mkObj [("op_index", i), ("op", op.setObjVal! "obs" Json.null |>.setObjVal! "obs2" Json.null),
    ("what", what), ("impl", impl), ("model", model)])

/-- is the harness' "poison" label what the model sees as well? -/
def poisonJustified (h : HGraph String) (op : Json) (o : Out) : Bool :=
  match getStr op "poison" with
  | "propagation-error" =>
    getStr op "o" == "res" && h.g.statusOf (getStr op "id") == some St.waiting && o.ret != "ok"
  | "removed-node-in-ready-set" =>
    getStr op "o" == "rm" && h.g.ready.contains (getStr op "id") && o.ret == "ok"
  | _ => false

partial def runOps (graphs : Array (Option (HGraph String))) (i : Nat) (ops : List Json) (nPoison : Nat) : String × Json :=
  match ops with
  | [] => ("ok", Json.mkObj [("ops", i), ("poisoned_graphs", nPoison)])
  | op :: rest =>
    let gi := getNat op "g"
    match graphs[gi]? with
    | none => mkDiff i op "graph index" (toString gi) "no such graph"
    | some none => mkDiff i op "operation on an abandoned graph" (toString gi) "abandoned"
    | some (some h) =>
      let o := runOp h op
      let implRet := getStr op "ret"
      if implRet != o.ret then mkDiff i op "return class" implRet o.ret
      else if implVal op != o.val then mkDiff i op "returned value" (implVal op) o.val
      else if getStr op "poison" != "" then
        if poisonJustified h op o then runOps (graphs.set! gi none) (i + 1) rest (nPoison + 1)
        else mkDiff i op "unjustified poison label" (getStr op "poison") (o.ret)
      else
        match o.st with
        | none => mkDiff i op "model has no state" "" ""
        | some h' =>
          let obs := render h'
          if getStr op "obs" != obs then mkDiff i op "observation" (getStr op "obs") obs
          else
            let graphs := graphs.set! gi (some h')
            let graphs := match o.cloned with
              | some c => graphs.push (some c)
              | none => graphs
            if getStr op "o" == "clone" && getNat op "to" + 1 != graphs.size then
              mkDiff i op "clone index" (toString (getNat op "to")) (toString (graphs.size - 1))
            else
            match op.getObjVal? "obs2" with
            | .ok o2 =>
              match graphs[getNat o2 "g"]? with
              | some (some h2) =>
                if getStr o2 "s" != render h2 then
                  mkDiff i op ("observation of graph " ++ toString (getNat o2 "g") ++ " (not the one operated on)")
                    (getStr o2 "s") (render h2)
                else runOps graphs (i + 1) rest nPoison
              | _ => mkDiff i op "second observation of an unknown / abandoned graph" (toString (getNat o2 "g")) ""
            | .error _ => runOps graphs (i + 1) rest nPoison

def checkCase (c : Json) : String × Json :=
  runOps #[some HGraph.empty] 0 (getArr c "ops") 0

end Dg

partial def eachLineDg (h : IO.FS.Stream) (f : String → IO Unit) : IO Unit := do
  let line ← h.getLine
  if line.isEmpty then return ()
  if line.trimAscii.toString.isEmpty then eachLineDg h f else
  f line
  eachLineDg h f

def cmdDgraph (_args : List String) : IO Unit := do
  let stdin ← IO.getStdin
  let stdout ← IO.getStdout
  eachLineDg stdin fun line => do
    match Json.parse line with
    | .error e => stdout.putStrLn (Json.mkObj [("verdict", "bad-json"), ("detail", e)]).compress
    | .ok c =>
      if (getStr c "skip") != "" then
        stdout.putStrLn (Json.mkObj [("id", getStr c "id"), ("verdict", "skip"), ("detail", getStr c "skip")]).compress
      else
        let (v, d) := Dg.checkCase c
        stdout.putStrLn (Json.mkObj [("id", getStr c "id"), ("verdict", v), ("detail", d)]).compress
    stdout.flush

end Arca.Driver
