/-
`arcadrv engineapi`: replay the cases of `vharness engineapi` through `Arca.Model.EngineApi`.

For every variant of a case (one call of the real engine entry point) the model is instantiated with
  * the file cache the harness built (keys -> content digests, root directory as given): for the in-memory variants all
    the files, some of them, or only the referring ones — `Parse` hands this cache to the sub-workflow discovery, which
    takes the files it holds from there and loads only the others,
  * `abs` = what `filepath.Abs` returned for that root directory in that working directory,
  * the disk = the files of the generated tree (nothing for the variants whose root directory does not exist),
  * `fromYAML` = what the generated files denote (version, referenced sub-workflows, output ids, explicit schema table),
  * `prepareSteps`/`execute` = the outcome of the DIRECT run (converter + Prepare + Execute) on the same contents,
and `runWorkflow` must predict what the engine returned: error vs output, the class of a file-stage error, output id,
data, error flag, and the CLI exit code for the Parse+Run variants.  Independently the observed error flag is compared
with `classify`.  The `merge` probes are replayed through `mergeFileCaches`.

verdict "diff": some prediction differs.  verdict "skip": the tree calls `readFile` (its result depends on the process
working directory — finding F14 — which the model does not contain); flags and merge probes are still checked.
-/
import Arca.Driver.Codec
import Arca.Model.EngineApi

open Lean (Json)

namespace Arca.Driver
open Arca.Model.EngineApi

structure ApiVerdict where
  verdict : String
  detail : Json := .null

def apiGetInt (j : Json) (k : String) : Int :=
  match j.getObjVal? k with
  | .ok (.num n) => n.mantissa
  | _ => 0

def strList (j : Json) (k : String) : List String :=
  (getArr j k).filterMap (fun x => match x with | .str s => some s | _ => none)

def strMap (j : Json) : List (String × String) :=
  (objFields j).filterMap (fun p => match p.2 with | .str s => some (p.1, s) | _ => none)

/-- what a generated file denotes -/
def apiDecWf (j : Json) : Wf :=
  let decl := getObj j "declared"
  { version := getStr j "version"
    refs := strList j "refs"
    outputs := strList j "outputs"
    declared := if decl.isNull then none else
      some ((objFields decl).map (fun p => (p.1, match p.2 with | .bool b => b | _ => false))) }

def apiErrName : Err → String
  | .noWorkflowFile => "noWorkflowFile"
  | .yaml => "yaml"
  | .readError => "readError"
  | .selfReference => "selfReference"
  | .tooDeep => "tooDeep"
  | .rootMismatch => "rootMismatch"
  | .unsupportedVersion => "unsupportedVersion"
  | .missingOutputSchema => "missingOutputSchema"
  | .prepare => "prepare"
  | .inputDecode => "inputDecode"
  | .execute => "execute"
  | .noOutputSchema => "noOutputSchema"

/-- error classes the harness reports by name (the others are compared as "an error") -/
def namedClass (e : Err) : Bool :=
  match e with
  | .noWorkflowFile | .readError | .rootMismatch | .unsupportedVersion | .missingOutputSchema | .selfReference => true
  | _ => false

def stripPrefix (pre s : String) : Option String :=
  if s.startsWith pre then some (s.drop pre.length).toString else none

abbrev ApiEnv := Env Json Unit Json

def hasErr (res : Json) : Bool := getStr res "err" != ""

/-- the direct run whose root text and sub-workflow contents are the ones `Prepare` is given -/
def pickBaseline (baselines : List (String × Json)) (rootDigest : String) (ctx : List (String × String)) : Option Json :=
  let fits := baselines.filter (fun b =>
    getStr b.2 "root" == rootDigest &&
    (strMap (getObj b.2 "sub")).all (fun kd => Arca.Model.EngineApi.lookup kd.1 ctx == some kd.2))
  let best := fits.foldl (fun acc b =>
    match acc with
    | none => some b
    | some a => if (strMap (getObj b.2 "sub")).length > (strMap (getObj a.2 "sub")).length then some b else some a) none
  best.map (fun b => getObj b.2 "result")

def mkEnv (case_ v : Json) (rootDigest : String) : ApiEnv :=
  let contents := objFields (getObj case_ "contents")
  let disk := strMap (getObj case_ "disk")
  let rootGiven := getStr v "root_given"
  let rootAbs := getStr v "root_abs"
  let baselines := objFields (getObj case_ "baselines")
  { fromYAML := fun d => (Arca.Model.EngineApi.lookup d contents).map apiDecWf
    abs := fun s => if s == rootGiven then rootAbs else s
    isAbs := fun s => s.startsWith "/"
    join := fun a b => a ++ "/" ++ b
    readFile := fun p =>
      if getStr v "disk" != "tree" then none else
      match stripPrefix (rootAbs ++ "/") p with
      | some rel => Arca.Model.EngineApi.lookup rel disk
      | none => none
    prepareSteps := fun _ ctx =>
      match pickBaseline baselines rootDigest ctx with
      | none => none
      | some res =>
        if hasErr res && getStr res "stage" != "run" && getStr res "err_class" != "missingOutputSchema" then none
        else some res
    decodeInput := fun _ => some ()
    execute := fun res _ => if hasErr res then none else some (getStr res "output_id", getObj res "data") }

def variantCache (v : Json) : FileCache :=
  let keys := strMap (getObj v "keys")
  let root := if getStr v "api" == "context" then getStr v "root_abs" else getStr v "root_given"
  { rootDir := root
    files := keys.map (fun kd => (kd.1, { id := kd.1, absPath := kd.1, content := kd.2 })) }

def modelFuel : Nat := 12

def checkVariant (case_ v : Json) (rootWf : Option Wf) (usesReadFile : Bool) : List Json :=
  let name := getStr v "name"
  let obs := getObj v "result"
  let cache := variantCache v
  let fileName := getStr v "file_name"
  let rootDigest := ((getFile (defaultName fileName) cache.files).map (·.content)).getD ""
  let env := mkEnv case_ v rootDigest
  let bad (why : String) (extra : List (String × Json)) : Json :=
    Json.mkObj ([("variant", Json.str name), ("why", Json.str why), ("observed", obs)] ++ extra)
  -- (1) the observed flag against `classify`, independent of the model run
  let flagIssues : List Json :=
    if hasErr obs then
      (if !getBool obs "error_flag" || getStr obs "output_id" != "" then [bad "an error return must be (\"\", nil, true, err)" []] else [])
    else
      match rootWf with
      | none => []
      | some wf =>
        let id := getStr obs "output_id"
        if getBool obs "error_flag" != classify (declaredFlag wf id) id then
          [bad "error flag differs from classify(declared, id)" [("expected", Json.bool (classify (declaredFlag wf id) id))]]
        else []
  if getStr obs "panic" != "" || getBool obs "timeout" then flagIssues ++ [bad "the entry point panicked or did not return" []] else
  if usesReadFile then flagIssues else
  -- (2) the model's prediction
  let r := runWorkflow env modelFuel cache fileName (getStr case_ "input_yaml")
  let predicted : Json := Json.mkObj [("output_id", r.outputID), ("data", r.data.getD .null), ("error_flag", r.isError),
    ("err", match r.err with | some e => Json.str (apiErrName e) | none => .null)]
  let mism (why : String) : List Json := [bad why [("model", predicted)]]
  let runIssues : List Json :=
    match r.err with
    | some .tooDeep => mism "model fuel exhausted"
    | some e =>
      if !hasErr obs then mism "model: error, engine: output"
      else if namedClass e && getStr obs "err_class" != apiErrName e then mism "error class differs"
      else if !namedClass e && ["noWorkflowFile", "readError", "rootMismatch", "unsupportedVersion", "missingOutputSchema",
          "selfReference"].contains (getStr obs "err_class") then mism "error class differs"
      else []
    | none =>
      if hasErr obs then mism "model: output, engine: error"
      else if getStr obs "output_id" != r.outputID then mism "output id differs"
      else if (getObj obs "data").compress != (r.data.getD .null).compress then mism "output data differs"
      else if getBool obs "error_flag" != r.isError then mism "error flag differs"
      else []
  -- (3) the CLI exit code (Parse + Run variants)
  let exitIssues : List Json :=
    if !getBool v "split" then [] else
    let outcome : CliOutcome :=
      match parse env modelFuel cache fileName with
      | .error _ => .parseFailed
      | .ok _ => match r.err with
        | some _ => .runFailed
        | none => .output r.isError
    if getStr obs "stage" == "cache" then [] else
    if apiGetInt v "exit_code" != Int.ofNat (exitCode outcome) then
      [bad "exit code differs" [("model_exit", Json.num (exitCode outcome))]] else []
  flagIssues ++ runIssues ++ exitIssues

def decCache (j : Json) : Option FileCache :=
  if getBool j "nil" then none else
  some { rootDir := getStr j "root"
         files := (strMap (getObj j "files")).map (fun kd => (kd.1, { id := kd.1, absPath := kd.1, content := kd.2 })) }

def checkMerge (p : Json) : List Json :=
  let cs := (getArr p "caches").map decCache
  let res := getObj p "result"
  let obsErr := getStr res "err" != ""
  let absTbl := strMap (getObj p "abs")
  let absOf : String → String := fun s => (Arca.Model.EngineApi.lookup s absTbl).getD s
  match mergeFileCaches absOf cs with
  | .error e =>
    if obsErr && getStr res "err" == apiErrName e then [] else
      [Json.mkObj [("merge", p), ("why", "model: error"), ("model", apiErrName e)]]
  | .ok m =>
    if obsErr then [Json.mkObj [("merge", p), ("why", "model: ok, MergeFileCaches: error")]] else
    let want := sortKvs (strMap (getObj res "files"))
    let got := sortKvs m.contents
    -- keys are unique in a Go map; the association list of the model may keep one entry per key only as well
    if want != got then [Json.mkObj [("merge", p), ("why", "merged key -> content map differs"),
        ("model", Json.mkObj (got.map (fun kv => (kv.1, Json.str kv.2))))]]
    else if getStr res "root" != m.rootDir then [Json.mkObj [("merge", p), ("why", "merged root directory differs"), ("model", m.rootDir)]]
    else []

def runEngineApiCase (c : Json) : ApiVerdict :=
  if getStr c "kind" != "engineapi" then { verdict := "skip", detail := "not an engineapi case" } else
  match c.getObjVal? "skip" with
  | .ok r => { verdict := "skip", detail := r }
  | .error _ =>
  let usesReadFile := getBool c "uses_readfile"
  let contents := objFields (getObj c "contents")
  let rootDigest := getStr (getObj (getObj c "baselines") "direct") "root"
  let rootWf := (Arca.Model.EngineApi.lookup rootDigest contents).map apiDecWf
  let issues := ((getArr c "variants").map (fun v => checkVariant c v rootWf usesReadFile)).foldl (· ++ ·) []
  let issues := issues ++ ((getArr c "merge").map checkMerge).foldl (· ++ ·) []
  if !issues.isEmpty then { verdict := "diff", detail := Json.arr (issues.take 4).toArray }
  else if usesReadFile then
    { verdict := "skip", detail := "the tree calls readFile: evaluation depends on the working directory (F14), outside the model; flags and merges agree" }
  else { verdict := "ok" }

partial def engineApiLoop (stdin stdout : IO.FS.Stream) : IO Unit := do
  let line ← stdin.getLine
  if line.isEmpty then return ()
  if line.trimAscii.toString.isEmpty then engineApiLoop stdin stdout else
  match Json.parse line with
  | .error e => stdout.putStrLn (Json.mkObj [("verdict", "bad-json"), ("detail", e)]).compress
  | .ok c =>
    if getStr c "kind" == "begin" then pure () else
    let out := runEngineApiCase c
    stdout.putStrLn (Json.mkObj [("id", getStr c "id"), ("verdict", out.verdict), ("detail", out.detail)]).compress
  stdout.flush
  engineApiLoop stdin stdout

def cmdEngineApi (_args : List String) : IO Unit := do
  engineApiLoop (← IO.getStdin) (← IO.getStdout)

end Arca.Driver
