/-
C05 — nothing is left running or deployed after a run or a parse returns.

The proof part here is about the *regenerated control skeletons* of the functions that own the clean-up: ordering facts
checked by the kernel on the token lists extracted from the current source (they survive harmless edits and break on the
re-orderings that matter).  The wait-group discipline of the plugin provider (ForceClose returns only after `run()` and
the ATP goroutine are done) is modelled in C12.  Goroutine liveness and the deploy/close balance are *observed* on every
generated run, cancelled run and probe failure mode of the real engine: partial, see DESIGN.md C05.
-/
import Arca.Model.SkelUtil
import Arca.Gen.Skel

namespace Arca.Props.C05
open Arca.Model.Skel Arca.Gen.Skel

/-- `Execute`: the deferred `terminateAllSteps` is registered after the loop that starts the steps and before the first
    blocking wait (`select`), so every exit path after the start loop closes every started step -/
theorem run_closes_all :
    adjacent (isTok "defer{") (isTok "call:l.terminateAllSteps()") workflow_workflow_executableWorkflow_Execute = true ∧
    firstBefore (startsWith "call:runnableStep.Start(") (isTok "call:l.terminateAllSteps()")
      workflow_workflow_executableWorkflow_Execute = true ∧
    firstBefore (isTok "call:l.terminateAllSteps()") (isTok "select{") workflow_workflow_executableWorkflow_Execute = true := by
  decide +kernel

/-- `terminateAllSteps` force-closes every running step -/
theorem terminate_force_closes :
    has (isTok "range(l.runningSteps){") workflow_workflow_loopState_terminateAllSteps = true ∧
    has (isTok "call:runningStep.ForceClose()") workflow_workflow_loopState_terminateAllSteps = true := by
  decide +kernel

/-- plugin `ForceClose` / `Close`: both return only after waiting for the step's goroutines (`wg.Wait`), on the first and
    on every later call -/
theorem forceclose_waits :
    count (isTok "call:r.wg.Wait()") step_plugin_provider_runningStep_ForceClose = 2 ∧
    firstBefore (isTok "call:r.forceClose()") (isTok "return") (step_plugin_provider_runningStep_ForceClose.drop 5) = true ∧
    count (isTok "call:r.wg.Wait()") step_plugin_provider_runningStep_Close = 2 ∧
    count (isTok "call:r.wg.Wait()") step_foreach_provider_runningStep_Close = 2 := by
  decide +kernel

/-- plugin provider: the wait group is incremented BEFORE the goroutine is started, and `run()` releases it last -/
theorem plugin_run_registered_before_start :
    firstBefore (isTok "call:s.wg.Add(1)") (isTok "go{") step_plugin_provider_runnableStep_Start = true ∧
    adjacent (isTok "call:r.cancel()") (isTok "call:r.wg.Done()") step_plugin_provider_runningStep_run = true := by
  decide +kernel

/-- plugin `run()`: the deployed container is closed by a deferred function on every path after a successful
    deployment (`startPlugin` returned a connection) -/
theorem plugin_run_closes_container :
    firstBefore (isTok "call:r.startPlugin()") (isTok "call:r.postDeployment(pluginConnection)")
      step_plugin_provider_runningStep_run = true ∧
    count (isTok "defer{") step_plugin_provider_runningStep_run = 2 := by
  decide +kernel

/-- the schema probe (`LoadSchema`) closes its temporary deployment on the success path and on both failure paths after
    a successful `Deploy` (three `Close` calls of the connector: ReadSchema failed, client shut-down failed, normal) -/
theorem probe_closes :
    firstBefore (isTok "call:applicableLocalDeployer.Deploy(ctx,pluginSource)") (isTok "call:pluginConnector.Close()")
      step_plugin_provider_pluginProvider_LoadSchema = true ∧
    count (isTok "call:pluginConnector.Close()") step_plugin_provider_pluginProvider_LoadSchema = 3 := by
  decide +kernel

/-- the foreach provider registers `run()` with the wait group BEFORE the goroutine is started (it used to do so
    inside `run()`, so that a `Close` winning the race returned before `run()` had begun: finding F10e, fixed) -/
theorem foreach_run_registered_before_start :
    firstBefore (isTok "call:rs.wg.Add(1)") (isTok "go{") step_foreach_provider_runnableStep_Start = true ∧
    has (startsWith "call:r.wg.Add(") step_foreach_provider_runningStep_run = false := by
  decide +kernel

end Arca.Props.C05
