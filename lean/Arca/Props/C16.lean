/-
C16 — preparation is insensitive to ordering and naming.

Property theorems only (helper lemmas: Arca/Proofs/PreparePerm.lean, PrepareRename.lean).

Determinism ("preparing the same text repeatedly gives the same result") holds for the model by construction: `prepare`
is a function.  What the theorems add is that the *result does not depend on the order* in which steps and outputs are
listed (Go iterates maps in random order), and that consistently renaming steps only renames the graph.

Proved in full: reordering steps and outputs gives the same verdict (`prepare_step_perm_verdict`) and, when accepted,
the same nodes and the same typed edges (`prepare_step_perm`); the operation sequence of a reordered workflow is a
permutation of the original one; the operation sequence of a renamed workflow is the renamed operation sequence, and
the graph of the renamed workflow is the ρ-image of the declared edge set of the original.
Not proved (`_partial` below): that renaming preserves *acceptance* (needs the id alphabet of the workflow schema: no
`.` in step ids); see the statement for what exactly is missing.
-/
import Arca.Proofs.PreparePerm
import Arca.Proofs.PrepareRename
import Arca.Proofs.PrepareOrder2

namespace Arca.Props.C16
open Arca.Model

/-- Reordering steps and outputs: the same operations are performed, in another order. -/
theorem prepare_step_perm_ops (po : List String) (wf wf' : Wf) (h : wf.Reordered wf')
    (g : Graph String) (items : List (String × Item)) (hacc : prepare po wf = .ok (g, items)) :
    (wf.ops po).Perm (wf'.ops po) :=
  ops_perm h (fun _ hs _ hs' hid => steps_id_inj (prepare_ok hacc).1 hs hs' hid)

/-- Reordering steps and outputs changes neither the node set nor the (typed) edge set of an accepted workflow:
the two node-id lists and the two edge lists are permutations of each other. -/
theorem prepare_step_perm (po : List String) (wf wf' : Wf) (h : wf.Reordered wf')
    (g g' : Graph String) (items items' : List (String × Item))
    (h1 : prepare po wf = .ok (g, items)) (h2 : prepare po wf' = .ok (g', items')) :
    (g.nodes.map (·.id)).Perm (g'.nodes.map (·.id)) ∧ g.edges.Perm g'.edges ∧
      (∀ id, id ∈ g.nodes.map (·.id) ↔ id ∈ g'.nodes.map (·.id)) ∧ (∀ e, e ∈ g.edges ↔ e ∈ g'.edges) := by
  obtain ⟨hrun, _, _⟩ := prepare_ok h1
  obtain ⟨hrun', _, _⟩ := prepare_ok h2
  have hperm := prepare_step_perm_ops po wf wf' h g items h1
  have hn : (g.nodes.map (·.id)).Perm (g'.nodes.map (·.id)) := by
    have e1 := runOps_ids hrun
    have e2 := runOps_ids hrun'
    simp only [Graph.empty, List.map_nil, List.nil_append] at e1 e2
    rw [e1, e2]
    exact (nodeIds_perm hperm).map _
  have he : ∀ e, e ∈ g.edges ↔ e ∈ g'.edges := by
    intro e
    rw [edges_iff_ops hrun, edges_iff_ops hrun']
    constructor
    · rintro ⟨a, b, d, tol, hop, rfl⟩
      exact ⟨a, b, d, tol, hperm.mem_iff.1 hop, rfl⟩
    · rintro ⟨a, b, d, tol, hop, rfl⟩
      exact ⟨a, b, d, tol, hperm.mem_iff.2 hop, rfl⟩
  exact ⟨hn, perm_of_nodup_of_mem_iff (edges_nodup_of_run hrun) (edges_nodup_of_run hrun') he,
    fun id => hn.mem_iff, he⟩

/-- A reference that fails to resolve (or any other failure that is not a graph-operation error) rejects every
reordering of the workflow. -/
theorem prepare_step_perm_fail (po : List String) (wf wf' : Wf) (h : wf.Reordered wf') (hu : wf.UniqueIds)
    (hf : ∃ r, Op.fail r ∈ wf.ops po) : ∃ r', prepare po wf' = .error r' := by
  obtain ⟨r, hr⟩ := hf
  cases hp : prepare po wf' with
  | error r' => exact ⟨r', rfl⟩
  | ok gi =>
    obtain ⟨g', items'⟩ := gi
    exact absurd ((ops_perm h hu).mem_iff.1 hr) (runOps_nofail (prepare_ok hp).1 r)

/-- If the operation sequences of both orderings run through, the final cycle check gives the same answer
(`HasCycles` does not depend on the order of the node and edge lists). -/
theorem prepare_step_perm_cycle (po : List String) (wf wf' : Wf) (h : wf.Reordered wf')
    (g g' : Graph String) (hb : build po wf = .ok g) (hb' : build po wf' = .ok g') :
    g.hasCycles = g'.hasCycles := by
  have hu : wf.UniqueIds := fun _ hs _ hs' hid => steps_id_inj hb hs hs' hid
  have hperm := ops_perm (po := po) h hu
  have hn : (g.nodes.map (·.id)).Perm (g'.nodes.map (·.id)) := by
    have e1 := runOps_ids hb
    have e2 := runOps_ids hb'
    simp only [Graph.empty, List.map_nil, List.nil_append] at e1 e2
    rw [e1, e2]
    exact (nodeIds_perm hperm).map _
  have he : g.edges.Perm g'.edges := by
    apply perm_of_nodup_of_mem_iff (edges_nodup_of_run hb) (edges_nodup_of_run hb')
    intro e
    rw [edges_iff_ops hb, edges_iff_ops hb']
    constructor
    · rintro ⟨a, b, d, tol, hop, rfl⟩
      exact ⟨a, b, d, tol, hperm.mem_iff.1 hop, rfl⟩
    · rintro ⟨a, b, d, tol, hop, rfl⟩
      exact ⟨a, b, d, tol, hperm.mem_iff.2 hop, rfl⟩
  unfold Graph.hasCycles
  have hl : g.nodes.length = g'.nodes.length := by
    have := hn.length_eq
    simpa using this
  rw [hl]
  exact hasCyclesAux_perm _ hn he

/-- Reordering steps and outputs never changes the verdict: the reordered workflow is accepted iff the original is.
(Every graph-operation error — id collision, self connection, duplicate strict connection — and every reference
failure occurs in one ordering iff it occurs in the other: `build_reordered`; the cycle check: `prepare_step_perm_cycle`.) -/
theorem prepare_step_perm_verdict (po : List String) (wf wf' : Wf) (h : wf.Reordered wf') :
    (∃ r, prepare po wf = .ok r) ↔ (∃ r', prepare po wf' = .ok r') := by
  have key : ∀ (w w' : Wf), w.Reordered w' → (∃ r, prepare po w = .ok r) → ∃ r', prepare po w' = .ok r' := by
    intro w w' hw hacc
    obtain ⟨⟨g, items⟩, hp⟩ := hacc
    obtain ⟨hrun, hc, _⟩ := prepare_ok hp
    obtain ⟨g', hb'⟩ := build_reordered (po := po) hw (g := g) hrun
    have hc' : g'.hasCycles = false := by
      rw [← prepare_step_perm_cycle po w w' hw g g' hrun hb']
      exact hc
    refine ⟨(g', w'.items po), ?_⟩
    unfold prepare
    rw [hb']
    simp [hc']
  exact ⟨key wf wf' h, key wf' wf h.symm⟩

/-- Consistently renaming steps (ids and the step segment of every reference) by an injective map: exactly the renamed
operations are performed, in the same order. -/
theorem prepare_rename_ops (ρ : String → String) (hρ : ∀ a b, ρ a = ρ b → a = b) (po : List String) (wf : Wf) :
    (wf.rename ρ).ops po = (wf.ops po).map (Op.rename ρ) :=
  ops_rename hρ po wf

/-- ... hence the graph of the renamed workflow is the ρ-image of the graph of the original: both are renderings of
the same structured node list and the same declared edge set, one through `render ∘ rename ρ`, one through `render`.
Nothing but the names changes. -/
theorem prepare_rename (ρ : String → String) (hρ : ∀ a b, ρ a = ρ b → a = b) (po : List String) (wf : Wf)
    (g g' : Graph String) (items items' : List (String × Item))
    (h1 : prepare po wf = .ok (g, items)) (h2 : prepare po (wf.rename ρ) = .ok (g', items')) :
    g.nodes.map (·.id) = (nodeIds (wf.ops po)).map NodeId.render ∧
    g'.nodes.map (·.id) = (nodeIds (wf.ops po)).map (fun n => (n.rename ρ).render) ∧
    (∀ e, e ∈ g.edges ↔ ∃ x ∈ wf.declaredS po, e = renderEdge x) ∧
    (∀ e', e' ∈ g'.edges ↔ ∃ x ∈ wf.declaredS po, e' = renderEdge (Edge.rename ρ x)) := by
  obtain ⟨hrun, _, _⟩ := prepare_ok h1
  obtain ⟨hrun', _, _⟩ := prepare_ok h2
  have hops := ops_rename hρ po wf
  refine ⟨?_, ?_, fun e => edges_iff_declared hrun, ?_⟩
  · have e1 := runOps_ids hrun
    simpa [Graph.empty] using e1
  · have e2 := runOps_ids hrun'
    simp only [Graph.empty, List.map_nil, List.nil_append] at e2
    rw [e2, hops]
    have : nodeIds ((wf.ops po).map (Op.rename ρ)) = (nodeIds (wf.ops po)).map (NodeId.rename ρ) := by
      unfold nodeIds
      induction wf.ops po with
      | nil => rfl
      | cons op rest ih =>
        cases op <;> simp [Op.rename, ih]
    rw [this, List.map_map]
    rfl
  · intro e'
    rw [edges_iff_ops hrun', hops]
    constructor
    · rintro ⟨a', b', d, tol, hop, rfl⟩
      obtain ⟨op, hop', heq⟩ := List.mem_map.1 hop
      cases op with
      | node n => simp [Op.rename] at heq
      | fail r => simp [Op.rename] at heq
      | edge a b d0 t0 =>
        simp only [Op.rename, Op.edge.injEq] at heq
        obtain ⟨rfl, rfl, rfl, rfl⟩ := heq
        exact ⟨(a, b, d0), (declared_iff_ops (runOps_nofail hrun)).2 ⟨t0, hop'⟩, rfl⟩
    · rintro ⟨⟨a, b, d⟩, hx, rfl⟩
      obtain ⟨tol, hop⟩ := (declared_iff_ops (runOps_nofail hrun)).1 hx
      exact ⟨a.rename ρ, b.rename ρ, d, tol, List.mem_map.2 ⟨_, hop, rfl⟩, rfl⟩

/-- Verdict under renaming, partial: a failure that is not a graph-operation error (dangling / invalid reference,
`$`, bad `!ordisabled`, empty `!oneof`) occurs in the renamed workflow iff it occurs in the original.
Missing for "`prepare (ρ wf)` is accepted iff `prepare wf` is": that collisions of *rendered* ids are invariant under
renaming, which needs the id alphabet the workflow schema enforces (no `.` in step ids) — a statement about strings
that is validated by the differential (renamed copies of every accepted workflow) but not proved. -/
theorem prepare_rename_fail_partial (ρ : String → String) (hρ : ∀ a b, ρ a = ρ b → a = b) (po : List String) (wf : Wf) :
    (∃ r, Op.fail r ∈ wf.ops po) ↔ (∃ r, Op.fail r ∈ (wf.rename ρ).ops po) := by
  rw [ops_rename hρ po wf]
  constructor
  · rintro ⟨r, hr⟩
    exact ⟨r, List.mem_map.2 ⟨_, hr, rfl⟩⟩
  · rintro ⟨r, hr⟩
    obtain ⟨op, hop, heq⟩ := List.mem_map.1 hr
    cases op with
    | node n => simp [Op.rename] at heq
    | edge a b d t => simp [Op.rename] at heq
    | fail r' => exact ⟨r', hop⟩

/-! ### the order in which the keys of an object (and the options of a `!oneof`) are visited

Go walks every object of a stage input / workflow output with `reflect.MapKeys` (random order).  The operations performed
for an object are the concatenation of the operations of its entries, so another key order performs the same operations
in another order (`object_key_order_ops`, for an object at ANY position: a step's input map, a nested map, an option of a
`!oneof`, a workflow output); every `ConnectDependency` of a reference is idempotent (tolerated duplicate) and no
operation of one entry can make an operation of a sibling entry fail or be skipped.  For the object of a workflow output
the statement is lifted to the whole workflow: same operations, hence (both accepted) the same nodes and typed edges.
Not proved: that acceptance itself is invariant under key order (validated by the differential: permuted renderings of
every accepted workflow, 4 preparations of every text). -/

theorem opsKvs_flatMap (R : Resolver) (cur : NodeId) (path : List String) :
    ∀ kvs, opsKvs R cur path kvs = kvs.flatMap (fun kx => opsIn R cur (path ++ [kx.1]) kx.2)
  | [] => by simp [opsKvs]
  | (k, x) :: rest => by simp [opsKvs, opsKvs_flatMap R cur path rest]

theorem opsOpts_flatMap (R : Resolver) (g : NodeId) :
    ∀ opts, opsOpts R g opts = opts.flatMap (fun kx => optionHead g kx.1 ++ opsIn R (.option g kx.1) [] kx.2)
  | [] => by simp [opsOpts]
  | (k, x) :: rest => by simp [opsOpts, opsOpts_flatMap R g rest]

theorem object_key_order_ops (R : Resolver) (cur : NodeId) (path : List String) {kvs kvs' : List (String × AIn)}
    (h : kvs.Perm kvs') : (opsIn R cur path (.map kvs)).Perm (opsIn R cur path (.map kvs')) := by
  simp only [opsIn, opsKvs_flatMap]
  exact h.flatMap_right _

theorem oneof_option_order_ops (R : Resolver) (cur : NodeId) (path : List String) (d : String)
    {opts opts' : List (String × AIn)} (h : opts.Perm opts') :
    (opsIn R cur path (.oneof d opts)).Perm (opsIn R cur path (.oneof d opts')) := by
  have he : opts.isEmpty = opts'.isEmpty := isEmpty_perm h
  simp only [opsIn, opsOpts_flatMap, he]
  split
  · exact List.Perm.refl _
  · exact (h.flatMap_right _).append_left _

theorem prepare_ops_perm_same_graph (po : List String) (wf wf' : Wf) (hperm : (wf.ops po).Perm (wf'.ops po))
    (g g' : Graph String) (items items' : List (String × Item))
    (h1 : prepare po wf = .ok (g, items)) (h2 : prepare po wf' = .ok (g', items')) :
    (g.nodes.map (·.id)).Perm (g'.nodes.map (·.id)) ∧ g.edges.Perm g'.edges ∧ (∀ e, e ∈ g.edges ↔ e ∈ g'.edges) := by
  obtain ⟨hrun, _, _⟩ := prepare_ok h1
  obtain ⟨hrun', _, _⟩ := prepare_ok h2
  have hn : (g.nodes.map (·.id)).Perm (g'.nodes.map (·.id)) := by
    have e1 := runOps_ids hrun
    have e2 := runOps_ids hrun'
    simp only [Graph.empty, List.map_nil, List.nil_append] at e1 e2
    rw [e1, e2]
    exact (nodeIds_perm hperm).map _
  have he : ∀ e, e ∈ g.edges ↔ e ∈ g'.edges := by
    intro e
    rw [edges_iff_ops hrun, edges_iff_ops hrun']
    constructor
    · rintro ⟨a, b, d, tol, hop, rfl⟩
      exact ⟨a, b, d, tol, hperm.mem_iff.1 hop, rfl⟩
    · rintro ⟨a, b, d, tol, hop, rfl⟩
      exact ⟨a, b, d, tol, hperm.mem_iff.2 hop, rfl⟩
  exact ⟨hn, perm_of_nodup_of_mem_iff (edges_nodup_of_run hrun) (edges_nodup_of_run hrun') he, he⟩

/-- `wf` with the keys of the object of output `x` listed in another order -/
def withOutputKeys (wf : Wf) (pre post : List (String × AIn)) (x : String) (kvs : List (String × AIn)) : Wf :=
  { wf with outputs := pre ++ (x, .map kvs) :: post }

theorem output_key_order_ops (po : List String) (wf : Wf) (pre post : List (String × AIn)) (x : String)
    {kvs kvs' : List (String × AIn)} (h : kvs.Perm kvs') :
    ((withOutputKeys wf pre post x kvs).ops po).Perm ((withOutputKeys wf pre post x kvs').ops po) := by
  have hres : (withOutputKeys wf pre post x kvs).resolve po = (withOutputKeys wf pre post x kvs').resolve po := rfl
  have e : ∀ k : List (String × AIn), (pre ++ (x, AIn.map k) :: post).isEmpty = false := by
    intro k
    cases pre <;> rfl
  unfold Wf.ops
  rw [hres]
  simp only [withOutputKeys, e, List.flatMap_append, List.flatMap_cons, outputOps]
  refine List.Perm.append_left _ (List.Perm.append_left _ ?_)
  exact List.Perm.cons _ (List.Perm.append_right _ (object_key_order_ops _ _ _ h))

/-- Listing the keys of the object of a workflow output in another order changes neither the node set nor the typed
edge set of an accepted workflow. -/
theorem prepare_output_key_order (po : List String) (wf : Wf) (pre post : List (String × AIn)) (x : String)
    {kvs kvs' : List (String × AIn)} (h : kvs.Perm kvs') (g g' : Graph String) (items items' : List (String × Item))
    (h1 : prepare po (withOutputKeys wf pre post x kvs) = .ok (g, items))
    (h2 : prepare po (withOutputKeys wf pre post x kvs') = .ok (g', items')) :
    (g.nodes.map (·.id)).Perm (g'.nodes.map (·.id)) ∧ g.edges.Perm g'.edges ∧ (∀ e, e ∈ g.edges ↔ e ∈ g'.edges) :=
  prepare_ops_perm_same_graph po _ _ (output_key_order_ops po wf pre post x h) g g' items items' h1 h2

/-! ### non-vacuity -/

def po : List String := ["alt", "cancelled", "error", "success"]

def ref (s : String) (rest : List String) : Expr := rest.foldl Expr.dot (.dot (.dot .root "steps") s)

def demo : Wf :=
  { inputFields := ["name"]
    steps := [ { id := "a", kind := .plugin, fields := [("input", .map [("s", .expr (.dot (.dot .root "input") "name"))])] },
               { id := "b", kind := .plugin,
                 fields := [("input", .map [("s", .optional true (ref "a" ["outputs", "success", "s"]))])] } ]
    outputs := [("success", .map [("r", .oneof "which"
        [("ok", .map [("v", .expr (ref "b" ["outputs", "success", "s"]))]),
         ("bad", .map [("v", .expr (ref "b" ["outputs", "error", "reason"]))])])]),
                ("failure", .map [("e", .expr (ref "a" ["crashed", "error"]))])] }

def demoSwapped : Wf := { demo with steps := demo.steps.reverse, outputs := demo.outputs.reverse }

example : demo.Reordered demoSwapped :=
  ⟨rfl, (List.reverse_perm _).symm, (List.reverse_perm _).symm⟩

def sizeOf' (r : Except Reject (Graph String × List (String × Item))) : Nat × Nat :=
  match r with
  | .ok (g, _) => (g.nodes.length, g.edges.length)
  | .error _ => (0, 0)

example : sizeOf' (prepare po demo) = (47, 63) ∧ sizeOf' (prepare po demoSwapped) = (47, 63) := by decide +kernel

def swapAB (s : String) : String := if s = "a" then "x1" else if s = "b" then "x2" else s

/-- the renamed workflow is accepted as well, and refers to the renamed steps -/
example : sizeOf' (prepare po (demo.rename swapAB)) = (47, 63)
    ∧ ("steps.x1.outputs.success", "steps.x2.starting.s", Dep.and) ∈ impliedEdges po (demo.rename swapAB) := by
  decide +kernel

/-! ### non-vacuity for the shapes with several references / tags / loop steps -/

def plus (l r : Expr) : Expr := .call "+" [l, r]

def abExpr : Expr :=
  plus (plus (ref "a" ["outputs", "success", "s"]) (.call "boolToString" [ref "a" ["outputs", "success", "b"]]))
    (ref "b" ["outputs", "success", "s"])

def multiKvs : List (String × AIn) :=
  [("xw", .optional true (ref "a" ["outputs", "success", "s"])),
   ("xo", .optional false (ref "a" ["outputs", "success", "i"])),
   ("m0", .expr (ref "a" ["outputs", "success", "s"])),
   ("m1", .expr abExpr),
   ("loop0", .expr (ref "la" ["outputs", "success", "data"])),
   ("loop1", .expr (ref "lb" ["outputs", "success", "data"]))]

/-- two plugin steps, two loop steps (different sub-workflow files are not part of the graph), an output object with a
`!wait-optional`, a `!soft-optional` and a plain reference to the same source, a three-reference expression whose
first producer is already connected, and the data of both loops -/
def demoMulti : Wf :=
  { inputFields := ["name"]
    steps := [ { id := "a", kind := .plugin, fields := [("input", .map [])] },
               { id := "b", kind := .plugin, fields := [("input", .map [("s", .expr (ref "a" ["outputs", "success", "s"]))])] },
               { id := "la", kind := .foreach,
                 fields := [("items", .list [.map [("name", .expr (ref "a" ["outputs", "success", "s"]))]])] },
               { id := "lb", kind := .foreach,
                 fields := [("items", .list [.map [("name", .lit "x"), ("n", .expr (ref "b" ["outputs", "success", "i"]))]])] } ]
    outputs := [("success", .map multiKvs)] }

example : demoMulti = withOutputKeys demoMulti [] [] "success" multiKvs := rfl

/-- the same text with the keys of the output object in reverse order and the steps in reverse order -/
def demoMultiSwapped : Wf :=
  { withOutputKeys demoMulti [] [] "success" multiKvs.reverse with steps := demoMulti.steps.reverse }

example : sizeOf' (prepare po demoMulti) = (66, 87) ∧ sizeOf' (prepare po demoMultiSwapped) = (66, 87) := by decide +kernel

/-- whichever key is visited first, `b` is connected to the output, and both tagged fields keep their own group -/
example : ("steps.b.outputs.success", "outputs.success", Dep.and) ∈ impliedEdges po demoMultiSwapped
    ∧ ("outputs.success.xw", "outputs.success", Dep.cand) ∈ impliedEdges po demoMultiSwapped
    ∧ ("outputs.success.xo", "outputs.success", Dep.opt) ∈ impliedEdges po demoMultiSwapped
    ∧ ("steps.lb.outputs.success", "outputs.success", Dep.and) ∈ impliedEdges po demoMultiSwapped := by decide +kernel

end Arca.Props.C16
