/-
C13 — a loop step returns per-item results in item order within its parallelism.

Property theorems only (helper lemmas live in Arca/Proofs/Foreach*.lean).  Everything is stated over the pool model of
`executeSubWorkflows` + the output assembly of `processInput` (Arca/Model/ForeachPool.lean) and quantifies over EVERY
item list `P.xs` (any length, also empty), every parallelism `P.p ≥ 1`, every per-item outcome `P.exec` and EVERY
schedule (= interleaving of the item goroutines, including `cancel` = closing the step at any point).  The model follows
the code after fix 26900e2: an aborted item never touches the semaphore and is recorded as an error of its index.

What is proved: the pool part of the property.  That `P.exec i a` (= `r.workflow.Execute(r.ctx, item)`) depends only on
the item (runs on a fresh run state and does not see the other items) is property C14 and is validated here by the
whole-engine runs of `vharness foreach`, not proved.
-/
import Arca.Proofs.ForeachAssemble
import Arca.Proofs.ForeachTimer
import Arca.Model.SkelUtil
import Arca.Gen.Consts
import Arca.Gen.Skel

namespace Arca.Props.C13
open Arca.Model.ForeachPool

variable {α β : Type}

/-- `parallelism_bound`.  In EVERY reachable state — also while the step is being closed — the number of items inside
    `Execute` equals the semaphore occupancy, which never exceeds `parallelism`: never more than `parallelism`
    sub-workflows run at a time. -/
theorem parallelism_bound (P : Pool α β) (sched : List Tr) (s : PoolState α β)
    (h : runSched P (init P) sched = some s) :
    running s = s.sem ∧ s.sem ≤ P.p ∧ running s ≤ P.p := by
  have hI := inv_reachable ⟨sched, h⟩
  exact ⟨hI.semRunning, hI.semLe, by rw [hI.semRunning]; exact hI.semLe⟩

/-- the bound holds in every intermediate state of a schedule, not only at its end -/
theorem parallelism_bound_prefix (P : Pool α β) (pre rest : List Tr) (s1 s : PoolState α β)
    (h1 : runSched P (init P) pre = some s1) (_h : runSched P (init P) (pre ++ rest) = some s) : running s1 ≤ P.p :=
  (parallelism_bound P pre s1 h1).2.2

/-- `all_items_finish` (1): every schedule is finite — at most `2·n + 1` transitions can ever be taken
    (acquire + finish per item, one cancel). -/
theorem schedule_bounded (P : Pool α β) (sched : List Tr) (s : PoolState α β)
    (h : runSched P (init P) sched = some s) : sched.length ≤ 2 * P.n + 1 := by
  have := measure_runSched h
  rw [measure_init] at this
  omega

/-- `all_items_finish` (2): the pool never deadlocks.  In a reachable state in which no item goroutine can move
    (cancel is not an item move), `wg.Wait()` has returned: every maximal schedule ends with all items finished. -/
theorem maximal_schedule_complete (P : Pool α β) (hp : 1 ≤ P.p) (sched : List Tr) (s : PoolState α β)
    (h : runSched P (init P) sched = some s)
    (hmax : ∀ t s', t ≠ Tr.cancel → step P s t ≠ some s') : allDone s = true := by
  cases hd : allDone s
  · obtain ⟨t, s', hne, hs⟩ := progress hp (inv_reachable ⟨sched, h⟩) hd
    exact absurd hs (hmax t s' hne)
  · rfl

/-- `all_items_finish` (3): every reachable state can be completed — there is a continuation without cancellation after
    which all items are finished; if the context was alive it still is and every item went through `Execute`. -/
theorem all_items_finish (P : Pool α β) (hp : 1 ≤ P.p) (sched : List Tr) (s : PoolState α β)
    (h : runSched P (init P) sched = some s) :
    ∃ rest s', (∀ t ∈ rest, t ≠ Tr.cancel) ∧ runSched P (init P) (sched ++ rest) = some s' ∧ allDone s' = true ∧
      (s.cancelled = false → s'.cancelled = false ∧ allExecuted s' = true) := by
  have hI := inv_reachable ⟨sched, h⟩
  obtain ⟨rest, s', hnc, hrun, hd⟩ := exists_completion hp (measure s) s (Nat.le_refl _) hI
  refine ⟨rest, s', hnc, by rw [runSched_append h]; exact hrun, hd, fun hc => ?_⟩
  have hc' := uncancelled_runSched hrun hc hnc
  exact ⟨hc', allExecuted_of_allDone (inv_runSched hI hrun) hc' hd⟩

/-- `order_independent`.  The assembled step output of a completed, uncancelled pool is the declarative `expected P`,
    a function of the items and their outcomes only: any two complete schedules give the same output. -/
theorem order_independent (P : Pool α β) (sched₁ sched₂ : List Tr) (s₁ s₂ : PoolState α β)
    (h₁ : runSched P (init P) sched₁ = some s₁) (c₁ : s₁.cancelled = false) (d₁ : allDone s₁ = true)
    (h₂ : runSched P (init P) sched₂ = some s₂) (c₂ : s₂.cancelled = false) (d₂ : allDone s₂ = true) :
    assemble s₁ = expected P ∧ assemble s₁ = assemble s₂ := by
  have e₁ := assemble_complete (inv_reachable ⟨sched₁, h₁⟩) c₁ d₁
  have e₂ := assemble_complete (inv_reachable ⟨sched₂, h₂⟩) c₂ d₂
  exact ⟨e₁, by rw [e₁, e₂]⟩

/-- `loop_success_shape`.  If every item's sub-workflow run ends in `success` with data `vals i xᵢ`, then whatever the
    schedule (completion order) the step output is `outputs.success` whose `data` lists exactly those values in item
    order, one per item. -/
theorem loop_success_shape (P : Pool α β) (vals : Nat → α → β)
    (hok : ∀ i a, P.xs[i]? = some a → P.exec i a = .ok (vals i a))
    (sched : List Tr) (s : PoolState α β) (h : runSched P (init P) sched = some s)
    (hc : s.cancelled = false) (hd : allDone s = true) :
    assemble s = .success (P.xs.mapIdx (fun i a => some (vals i a))) ∧
      (P.xs.mapIdx (fun i a => some (vals i a))).length = P.xs.length := by
  refine ⟨?_, by simp⟩
  rw [assemble_complete (inv_reachable ⟨sched, h⟩) hc hd]
  have hall : P.outcomes.all ItemOutcome.isOk = true := by
    rw [List.all_eq_true]
    intro o ho
    obtain ⟨i, hi⟩ := List.getElem?_of_mem ho
    rw [outcomes_getElem?] at hi
    cases hx : P.xs[i]? with
    | none => simp [hx] at hi
    | some a =>
      simp [hx, hok i a hx] at hi
      subst hi; rfl
  have hmap : P.outcomes.map ItemOutcome.okVal = P.xs.mapIdx (fun i a => some (vals i a)) := by
    apply List.ext_getElem?
    intro i
    rw [List.getElem?_map, outcomes_getElem?, List.getElem?_mapIdx]
    cases hx : P.xs[i]? with
    | none => rfl
    | some a => simp [hok i a hx, ItemOutcome.okVal]
  simp [expected, expectedOf, hall, hmap]

/-- `loop_failure_exact`.  If some item fails (error return or an output other than `success`), then whatever the
    schedule the step output is `failed.error` whose `errors` map has exactly the failing indexes as keys (each with that
    item's message) and whose `data` map has exactly the other indexes as keys (each with that item's output); both maps
    have every key once (ascending), and every item index is in exactly one of them. -/
theorem loop_failure_exact (P : Pool α β)
    (hfail : ∃ i a, P.xs[i]? = some a ∧ (P.exec i a).isOk = false)
    (sched : List Tr) (s : PoolState α β) (h : runSched P (init P) sched = some s)
    (hc : s.cancelled = false) (hd : allDone s = true) :
    ∃ data errors, assemble s = .failure data errors ∧
      (∀ i m, (i, m) ∈ errors ↔ ∃ a, P.xs[i]? = some a ∧ (P.exec i a).failMsg = some m) ∧
      (∀ i v, (i, v) ∈ data ↔ ∃ a, P.xs[i]? = some a ∧ P.exec i a = .ok v) ∧
      errors.Pairwise (fun x y => x.1 < y.1) ∧ data.Pairwise (fun x y => x.1 < y.1) ∧
      (∀ i, i < P.xs.length → ((∃ m, (i, m) ∈ errors) ↔ ¬ ∃ v, (i, v) ∈ data)) := by
  have hE : ∀ i m, (i, m) ∈ indexed (P.outcomes.map ItemOutcome.failMsg) ↔
      ∃ a, P.xs[i]? = some a ∧ (P.exec i a).failMsg = some m := by
    intro i m
    rw [mem_indexed, List.getElem?_map, outcomes_getElem?]
    cases hx : P.xs[i]? <;> simp
  have hD : ∀ i v, (i, v) ∈ indexed (P.outcomes.map ItemOutcome.okVal) ↔
      ∃ a, P.xs[i]? = some a ∧ P.exec i a = .ok v := by
    intro i v
    rw [mem_indexed, List.getElem?_map, outcomes_getElem?]
    cases hx : P.xs[i]? <;> simp [okVal_some_iff]
  refine ⟨indexed (P.outcomes.map ItemOutcome.okVal), indexed (P.outcomes.map ItemOutcome.failMsg), ?_, hE, hD,
    indexed_sorted _, indexed_sorted _, ?_⟩
  · rw [assemble_complete (inv_reachable ⟨sched, h⟩) hc hd]
    have hall : P.outcomes.all ItemOutcome.isOk = false := by
      obtain ⟨i, a, hx, hno⟩ := hfail
      rw [List.all_eq_false]
      refine ⟨P.exec i a, ?_, by simp [hno]⟩
      apply List.mem_of_getElem? (i := i)
      rw [outcomes_getElem?, hx]; rfl
    simp [expected, expectedOf, hall]
  · intro i hi
    have hx : P.xs[i]? = some (P.xs[i]) := List.getElem?_eq_getElem hi
    constructor
    · rintro ⟨m, hm⟩ ⟨v, hv⟩
      obtain ⟨a, ha, hmsg⟩ := (hE i m).mp hm
      obtain ⟨b, hb, hokv⟩ := (hD i v).mp hv
      rw [ha] at hb; cases hb
      rw [hokv] at hmsg; simp [ItemOutcome.failMsg] at hmsg
    · intro hno
      cases ho : P.exec i (P.xs[i]) with
      | ok v => exact absurd ⟨v, (hD i v).mpr ⟨_, hx, ho⟩⟩ hno
      | otherOutput id v => exact ⟨_, (hE i _).mpr ⟨_, hx, by rw [ho]; rfl⟩⟩
      | err m => exact ⟨_, (hE i _).mpr ⟨_, hx, by rw [ho]; rfl⟩⟩

/-- `each_item_runs_once`.  Every `Execute` call ever made was given the item of its own index; no item is executed
    twice under any schedule, and in a completed uncancelled pool every item was executed exactly once. -/
theorem each_item_runs_once (P : Pool α β) (sched : List Tr) (s : PoolState α β)
    (h : runSched P (init P) sched = some s) :
    (∀ e ∈ s.started, P.xs[e.1]? = some e.2) ∧ (∀ i, execCount s i ≤ 1) ∧
      (s.cancelled = false → allDone s = true → ∀ i, i < P.xs.length → execCount s i = 1) := by
  have hR := runInv_runSched (runInv_init P) h
  have hI := inv_reachable ⟨sched, h⟩
  refine ⟨hR.ownInput, fun i => ?_, fun hc hd i hi => ?_⟩
  · rw [hR.once i]; split <;> omega
  · have hall := allExecuted_of_allDone hI hc hd
    have hph := allExecuted_phase hall (i := i) (by rw [hI.lenPhase]; exact hi)
    rw [hR.once i]; simp [hph]

/-- `abort_release_harmless`.  An item that leaves through the `ctx.Done()` arm (possible only once the context is
    cancelled) never touches the semaphore: occupancy and the number of running items are unchanged (its deferred function
    releases a slot only if `slotAcquired`), and the pool can still be completed. -/
theorem abort_release_harmless (P : Pool α β) (hp : 1 ≤ P.p) (sched : List Tr) (s s' : PoolState α β) (i : Nat)
    (h : runSched P (init P) sched = some s) (hs : step P s (.abort i) = some s') :
    s.cancelled = true ∧ s'.sem = s.sem ∧ running s' = running s ∧
      ∃ rest s'', runSched P s' rest = some s'' ∧ allDone s'' = true := by
  have hI := inv_reachable ⟨sched, h⟩
  have hI' := inv_step hI hs
  obtain ⟨rest, s'', _, hrun, hd⟩ := exists_completion hp (measure s') s' (Nat.le_refl _) hI'
  have hsem : s'.sem = s.sem ∧ s.cancelled = true := by
    simp only [step] at hs
    split at hs
    · rename_i hok; cases hs; exact ⟨rfl, hok.2⟩
    · cases hs
  refine ⟨hsem.2, hsem.1, ?_, rest, s'', hrun, hd⟩
  rw [hI'.semRunning, hI.semRunning, hsem.1]

/-- `aborted_items_are_reported_as_errors`.  In every reachable state an item that left through the `ctx.Done()` arm has
    no output and the error entry "aborted before execution because the step was closed" under its own index. -/
theorem aborted_items_are_reported_as_errors (P : Pool α β) (sched : List Tr) (s : PoolState α β)
    (h : runSched P (init P) sched = some s) (i : Nat) (hi : s.phase[i]? = some .aborted) :
    s.outputs[i]? = some none ∧ s.errors[i]? = some (some ItemOutcome.abortMsg) :=
  (inv_reachable ⟨sched, h⟩).abortedRes i hi

/-- `closed_pool_accounts_for_every_item`.  For EVERY complete schedule, the step being closed at any point or not:
    the output is the declarative output of the effective per-item outcomes (aborted = failed);
    `success` is reported only if every item was executed and succeeded, and then lists all of them in order;
    a `failure` mentions every index in exactly one of `errors` / `data` (keys ascending, no others), every aborted
    index is in `errors`, and `data` holds only results of items that really executed with `success`. -/
theorem closed_pool_accounts_for_every_item (P : Pool α β) (sched : List Tr) (s : PoolState α β)
    (h : runSched P (init P) sched = some s) (hd : allDone s = true) :
    assemble s = expectedOf (effOutcomes P s) ∧
    (∀ d, assemble s = .success d →
      allExecuted s = true ∧ P.outcomes.all ItemOutcome.isOk = true ∧ d = P.outcomes.map ItemOutcome.okVal ∧
        d.length = P.xs.length) ∧
    (∀ d e, assemble s = .failure d e →
      (∀ i, (i < P.xs.length ↔ ((∃ m, (i, m) ∈ e) ∨ (∃ v, (i, v) ∈ d))) ∧ ¬ ((∃ m, (i, m) ∈ e) ∧ (∃ v, (i, v) ∈ d))) ∧
      e.Pairwise (fun x y => x.1 < y.1) ∧ d.Pairwise (fun x y => x.1 < y.1) ∧
      (∀ i : Nat, s.phase[i]? = some .aborted → (i, ItemOutcome.abortMsg) ∈ e) ∧
      (∀ i v, (i, v) ∈ d → ∃ a, P.xs[i]? = some a ∧ s.phase[i]? = some .done ∧ P.exec i a = .ok v)) := by
  have hI := inv_reachable ⟨sched, h⟩
  have hA := assemble_done hI hd
  refine ⟨hA, ?_, ?_⟩
  · intro d hs
    rw [hA] at hs
    obtain ⟨hall, hdat⟩ := expectedOf_success hs
    -- an aborted item is an `err`, so with every effective outcome ok nothing was aborted
    have hex : allExecuted s = true := by
      simp only [allExecuted, List.all_eq_true]
      intro ph hm
      obtain ⟨i, hi⟩ := List.getElem?_of_mem hm
      have hlt : i < P.xs.length := lt_of_phase hI hi
      rcases allDone_phase hd (i := i) (List.getElem?_eq_some_iff.mp hi).1 with hph | hph
      · rw [hi] at hph; cases hph; simp
      · have he : (effOutcomes P s)[i]? = some (.err ItemOutcome.abortMsg) := by
          rw [effOutcomes_getElem?, List.getElem?_eq_getElem hlt]; simp [hph]
        have := (List.all_eq_true.mp hall) _ (List.mem_of_getElem? he)
        simp [ItemOutcome.isOk] at this
    have heq := effOutcomes_of_allExecuted hI hex
    rw [heq] at hall hdat
    exact ⟨hex, hall, hdat, by rw [hdat, List.length_map, outcomes_length]; rfl⟩
  · intro d e hs
    rw [hA] at hs
    obtain ⟨_, hdat, herr⟩ := expectedOf_failure hs
    subst hdat herr
    refine ⟨fun i => ?_, indexed_sorted _, indexed_sorted _, ?_, ?_⟩
    · have := keys_partition (effOutcomes P s) i
      rw [effOutcomes_length] at this
      exact this
    · intro i hph
      have hlt : i < P.xs.length := lt_of_phase hI hph
      refine (mem_errors_iff _ i _).mpr ⟨.err ItemOutcome.abortMsg, ?_, rfl⟩
      rw [effOutcomes_getElem?, List.getElem?_eq_getElem hlt]; simp [hph]
    · intro i v hv
      have ho := (mem_data_iff _ i v).mp hv
      rw [effOutcomes_getElem?] at ho
      cases hx : P.xs[i]? with
      | none => simp [hx] at ho
      | some a =>
        have hlt : i < s.phase.length := by
          rw [hI.lenPhase]; exact (List.getElem?_eq_some_iff.mp hx).1
        rcases allDone_phase hd (i := i) hlt with hph | hph
        · simp [hx, hph] at ho
          exact ⟨a, rfl, hph, ho⟩
        · simp [hx, hph] at ho

/-! ### time: the pool has no timer; what a timer may and must not do; closing a loop with a queue -/

/-- `foreach_pool_has_no_timer` (regenerated fact).  The pool model above has no notion of time: an item waits for a slot
    or for the close, nothing else.  That is a fact about `internal/step/foreach/provider.go`, extracted on every run: no
    time constant and no timer call (`time.NewTimer/After/AfterFunc/Sleep/NewTicker/Tick/Since/Until`, `Reset`,
    `context.WithTimeout/WithDeadline`) anywhere in the provider.  A new timer is a changed fact; what it may do is
    `parallelism_bound_with_timer`, and the long-queue cases of the foreach stream keep items queued for longer than every
    duration found here. -/
theorem foreach_pool_has_no_timer : Arca.Gen.foreachTimers = [] := by decide

/-- `queued_items_wait_for_slot_or_close_only` (regenerated fact).  `executeSubWorkflows` contains ONE select; its arms are
    exactly the semaphore send (`Tr.acquire`, first arm: no `default` arm precedes it) and the receive from
    `r.ctx.Done()` (`Tr.abort`): a queued item can leave the queue in no other way (no timer arm), and it does watch the
    close. -/
theorem queued_items_wait_for_slot_or_close_only :
    Arca.Gen.Skel.step_foreach_provider_runningStep_executeSubWorkflows.filter
        (fun t => Arca.Model.Skel.startsWith "comm(" t || Arca.Model.Skel.startsWith "select" t) =
      ["select{", "comm(sem <- struct{}{}):", "comm(<-r.ctx.Done()):"] ∧
    Arca.Model.Skel.adjacent (Arca.Model.Skel.isTok "select{") (Arca.Model.Skel.isTok "comm(sem <- struct{}{}):")
      Arca.Gen.Skel.step_foreach_provider_runningStep_executeSubWorkflows = true := by decide

/-- `timer_schedule_is_pool_schedule`.  If the timer arm of a queued item leaves the item queued (`stepT`), every
    schedule with timer events is a schedule of the pool without them, ending in the same state: all theorems above carry
    over, however often and whenever timers fire. -/
theorem timer_schedule_is_pool_schedule (P : Pool α β) (l : List TrT) (s : PoolState α β)
    (h : runSchedT P (init P) l = some s) : runSched P (init P) (untick l) = some s :=
  runSchedT_untick h

/-- `parallelism_bound_with_timer`.  Never more than `parallelism` sub-workflows at a time, for every interleaving of item
    goroutines, closes and timer events. -/
theorem parallelism_bound_with_timer (P : Pool α β) (l : List TrT) (s : PoolState α β)
    (h : runSchedT P (init P) l = some s) : running s = s.sem ∧ s.sem ≤ P.p ∧ running s ≤ P.p :=
  parallelism_bound P (untick l) s (runSchedT_untick h)

/-- `timer_start_without_slot_breaks_bound` (counterexample, kernel-checked).  A timer arm after which the item EXECUTES
    without having taken a slot breaks the bound as soon as one item has been queued long enough for its timer to fire:
    parallelism 1, item 0 holds the slot, the timer of the queued item 1 fires, two items run. -/
theorem timer_start_without_slot_breaks_bound :
    ∃ (P : Pool Nat Nat) (s₁ s₂ : PoolState Nat Nat), runSched P (init P) [.acquire 0] = some s₁ ∧
      tickWithoutSlot P s₁ 1 = some s₂ ∧ P.p < running s₂ :=
  ⟨{ xs := [10, 20, 30], p := 1, exec := fun _ a => .ok (a + 1) },
   _, _, rfl, rfl, by decide⟩

/-- `close_parked_no_new_start`.  Once the close has reached every queued item (nothing is pending any more: every item
    goroutine parked in its select was woken on the `ctx.Done()` arm, which is what the Go runtime does when the channel
    is closed while the semaphore is full), NO item run begins any more, whatever the schedule. -/
theorem close_parked_no_new_start (P : Pool α β) (sched rest : List Tr) (s₁ s₂ : PoolState α β)
    (_h₁ : runSched P (init P) sched = some s₁) (hq : pendingCount s₁ = 0)
    (h₂ : runSched P s₁ rest = some s₂) : ∀ i, Tr.acquire i ∉ rest :=
  no_acquire_runSched hq h₂

/-- `close_parked_work_bounded_by_parallelism`.  ... and what is left to do after the close is bounded by the items that
    held a slot, i.e. by `parallelism` — it does not grow with the number of queued items (the return bound of C06). -/
theorem close_parked_work_bounded_by_parallelism (P : Pool α β) (sched rest : List Tr) (s₁ s₂ : PoolState α β)
    (h₁ : runSched P (init P) sched = some s₁) (hc : s₁.cancelled = true) (hq : pendingCount s₁ = 0)
    (h₂ : runSched P s₁ rest = some s₂) : rest.length ≤ running s₁ ∧ running s₁ ≤ P.p := by
  have hm := measure_runSched h₂
  have hb := (parallelism_bound P sched s₁ h₁).2.2
  simp only [Arca.Model.ForeachPool.measure, hq, hc] at hm
  exact ⟨by simp at hm; omega, hb⟩

/-! ### non-vacuity and the concrete schedules -/

/-- three items, parallelism 2, the middle one fails -/
def demo : Pool Nat Nat :=
  { xs := [10, 20, 30]
    p := 2
    exec := fun _ a => if a = 20 then .err "boom" else .ok (a + 1) }

/-- items finish OUT OF ORDER: 1 before 2 before 0 -/
def demoSched : List Tr :=
  [.acquire 0, .acquire 1, .finish 1, .acquire 2, .finish 2, .finish 0]

example : (runSched demo (init demo) demoSched).map assemble = some (.failure [(0, 11), (2, 31)] [(1, "boom")]) := by
  decide
example : (runSched demo (init demo) (seqSched 3)).map assemble = some (.failure [(0, 11), (2, 31)] [(1, "boom")]) := by
  decide
example : expected demo = .failure [(0, 11), (2, 31)] [(1, "boom")] := by decide
/-- the third acquire is refused while two items run (the bound is enforced by the model, not assumed) -/
example : runSched demo (init demo) [.acquire 0, .acquire 1, .acquire 2] = none := by decide
example : (runSched demo (init demo) demoSched).map (fun s => (allDone s, s.cancelled, s.started)) =
    some (true, false, [(0, 10), (1, 20), (2, 30)]) := by decide

def demoOk : Pool Nat Nat := { demo with exec := fun _ a => .ok (a + 1) }

example : (runSched demoOk (init demoOk) demoSched).map assemble = some (.success [some 11, some 21, some 31]) := by
  decide
/-- an output other than `success` is a failure of that item, its data is not listed -/
example : expected ({ demo with exec := fun i a => if i = 0 then .otherOutput "alt" a else .ok a } : Pool Nat Nat) =
    .failure [(1, 20), (2, 30)] [(0, "subworkflow finished with output 'alt' instead of 'success'")] := by decide
/-- the empty list succeeds with an empty list -/
example : (runSched ({ demo with xs := [] } : Pool Nat Nat) (init { demo with xs := [] }) []).map
    (fun s => (allDone s, assemble s)) = some (true, .success []) := by decide

/-! closing: the schedules that used to break the property (findings of the first round, fixed in /repo by 26900e2) -/

/-- parallelism 1, item 0 holds the slot, the step is closed, item 1 leaves: the slot stays taken, item 2 cannot start
    next to item 0 (before the fix item 1's deferred select could free item 0's slot) -/
example : runSched ({ demoOk with p := 1 } : Pool Nat Nat) (init { demoOk with p := 1 })
    [.acquire 0, .cancel, .abort 1, .acquire 2] = none := by decide

/-- item 0 succeeds, the step is closed, items 1 and 2 never run: the step reports a failure that accounts for every
    index (before the fix: `success` with data `[11, nil, nil]`) -/
example : (runSched demoOk (init demoOk) [.acquire 0, .finish 0, .cancel, .abort 1, .abort 2]).map
    (fun s => (allDone s, s.cancelled, assemble s)) =
    some (true, true, .failure [(0, 11)] [(1, ItemOutcome.abortMsg), (2, ItemOutcome.abortMsg)]) := by decide

example : (runSched demo (init demo) [.acquire 0, .acquire 1, .finish 1, .finish 0, .cancel, .abort 2]).map
    (fun s => (allDone s, assemble s)) =
    some (true, .failure [(0, 11)] [(1, "boom"), (2, ItemOutcome.abortMsg)]) := by decide

/-- Go picks among ready select arms at random: an item may still START after the close as long as a slot is free -/
example : (runSched demoOk (init demoOk) [.cancel, .acquire 2, .acquire 0, .abort 1, .finish 0, .finish 2]).map
    (fun s => (allDone s, running s, assemble s)) =
    some (true, 0, .failure [(0, 11), (2, 31)] [(1, ItemOutcome.abortMsg)]) := by decide

/-! timers and the close of a loop with a queue -/

/-- non-vacuity: such a closed state exists and still has work left (item 0 runs), while items 1, 2 were queued -/
example : (runSched demoOk (init demoOk) [.acquire 0, .acquire 1, .cancel, .abort 2]).map
    (fun s => (s.cancelled, pendingCount s, running s)) = some (true, 0, 2) := by decide
/-- the timer of a queued item may fire any number of times -/
example : (runSchedT ({ demoOk with p := 1 } : Pool Nat Nat) (init { demoOk with p := 1 })
    [.pool (.acquire 0), .tick 1, .tick 2, .tick 1, .pool (.finish 0), .pool (.acquire 1)]).map
    (fun s => (running s, s.sem)) = some (1, 1) := by decide
/-- ... but not for an item that is not queued -/
example : runSchedT demoOk (init demoOk) [.pool (.acquire 0), .tick 0] = none := by decide

end Arca.Props.C13
