/-
C20 — the engine API classifies results and resolves files consistently.

Property theorems only (helper lemmas: Arca/Proofs/EngineApi.lean, Arca/Proofs/EngineApiParse.lean,
Arca/Proofs/EngineApiSupplied.lean).  The model is
`Arca.Model.EngineApi`: `Parse` / `RunWorkflow` / `Run` of engine.go, the file cache of loadfile/loadfile.go, stage 6 of
`Executor.Prepare` (output schemas) and the CLI's exit codes.  Everything outside the entry point — the YAML converter,
the file system, stages 1-5 of `Prepare`, `Execute` — is a parameter `env : Env P I D`; every theorem holds for every
such environment, every file cache, every file name and input, and every amount of fuel.

What is NOT proved here and why:
* that the real `Prepare`/`Execute` are functions of the workflow text and context only: the built-in `readFile`
  resolves relative paths against the process working directory (finding F14, see `cwd_call_sites_pinned`); the
  independence from the working directory is therefore stated for the entry point (`abs` is applied to the root
  directory only) and checked on the real code by the `engineapi` stream;
* `engine_equals_direct` holds for every cache for which `Parse` gets past its file stage and its check for reference
  cycles (`Prepare` is a total function here; the real one never returns on a reference cycle, which is why `Parse`
  checks the contents it is going to prepare: `parse_rejects_cycles_in_used_files`, `prepared_contents_acyclic`).
  Since the fix of finding F15 (`MergeFileCaches` compares root directories with `sameDirectory`) the file stage no
  longer depends on how the root directory is spelled: `any_root_accepted`, `relative_root_accepted` (hypothesis:
  `filepath.Abs` is idempotent, a property of the real function).  Since `Parse` hands the caller's cache to the
  sub-workflow discovery, the files the caller supplies are not read from disk: `supplied_cache_ignores_disk`,
  `engine_equals_direct_supplied`, `engine_equals_direct_supplied_acyclic`; the former behaviour is
  `memory_cache_needed_disk` (the model with `passSupplied = false`).
-/
import Arca.Proofs.EngineApiSupplied
import Arca.Gen.EngineApi
import Arca.Gen.Unknown
import Arca.Expected.EngineApi

namespace Arca.Props.C20
open Arca.Model.EngineApi Arca.Proofs.EngineApi

section
variable {P I D : Type}

/-! ### classification -/

/-- A result without error carries exactly the flag the workflow declares for the chosen output or, when the schema is
    inferred, the flag `outputID = "error"`; and the chosen output is one of the workflow's outputs. -/
theorem error_flag_exact (env : Env P I D) (fuel : Nat) (files : FileCache) (name input : String)
    (wf : Wf) (p : P) (hp : parse env fuel files name = .ok (wf, p))
    (hok : (runWorkflow env fuel files name input).err = none) :
    (runWorkflow env fuel files name input).isError =
      classify (declaredFlag wf (runWorkflow env fuel files name input).outputID) (runWorkflow env fuel files name input).outputID ∧
    ((runWorkflow env fuel files name input).isError =
      match declaredFlag wf (runWorkflow env fuel files name input).outputID with
      | some b => b
      | none => decide ((runWorkflow env fuel files name input).outputID = "error")) ∧
    wf.outputs.contains (runWorkflow env fuel files name input).outputID = true := by
  have hrw : runWorkflow env fuel files name input = run env wf p input := by simp [runWorkflow, hp]
  rw [hrw] at hok ⊢
  obtain ⟨i, id, d, _, _, hc, hr⟩ := run_ok env wf p input hok
  rw [hr]
  refine ⟨rfl, ?_, hc⟩
  unfold classify
  cases declaredFlag wf id with
  | some b => rfl
  | none =>
    simp only
    by_cases h : id = "error" <;> simp [h]

/-- With an explicit output schema the prepared workflow has a declared flag for every output (stage 6 of Prepare
    rejects the workflow otherwise), so the flag of a result never falls back to the name of the output. -/
theorem error_flag_declared (env : Env P I D) (wf : Wf) (ctx : List (String × String)) (p : P) (tbl : List (String × Bool))
    (hd : wf.declared = some tbl) (hp : prepare env wf ctx = .ok p) (id : String) (hid : id ∈ wf.outputs) :
    ∃ b, declaredFlag wf id = some b ∧ classify (declaredFlag wf id) id = b := by
  unfold prepare at hp
  cases hs : env.prepareSteps wf ctx with
  | none => simp [hs] at hp
  | some p' =>
    simp only [hs] at hp
    by_cases hc : schemaComplete wf = true
    · unfold schemaComplete at hc
      simp only [hd, List.all_eq_true] at hc
      have := hc id hid
      unfold declaredFlag
      simp only [hd]
      cases hl : lookup id tbl with
      | none => simp [hl] at this
      | some b => exact ⟨b, rfl, rfl⟩
    · simp [hc] at hp

/-- Every error return of `RunWorkflow` is `("", nil, true, err)`. -/
theorem error_flag_on_error (env : Env P I D) (fuel : Nat) (files : FileCache) (name input : String) (e : Err)
    (h : (runWorkflow env fuel files name input).err = some e) :
    runWorkflow env fuel files name input = errResult e ∧
    (runWorkflow env fuel files name input).isError = true ∧ (runWorkflow env fuel files name input).outputID = "" ∧
    (runWorkflow env fuel files name input).data.isNone = true := by
  have key : runWorkflow env fuel files name input = errResult e := by
    unfold runWorkflow at h ⊢
    cases hp : parse env fuel files name with
    | error e' =>
      simp only [hp, errResult, Option.some.injEq] at h
      subst h
      rfl
    | ok wp =>
      obtain ⟨wf, p⟩ := wp
      simp only [hp] at h ⊢
      exact run_err env wf p input e h
  rw [key]
  exact ⟨rfl, rfl, rfl, rfl⟩

/-- A workflow that does not parse is reported as an error result carrying the parse error. -/
theorem runWorkflow_parse_error_is_error (env : Env P I D) (fuel : Nat) (files : FileCache) (name input : String) (e : Err)
    (h : parse env fuel files name = .error e) :
    runWorkflow env fuel files name input = errResult e ∧
    (runWorkflow env fuel files name input).isError = true ∧ (runWorkflow env fuel files name input).err = some e := by
  simp [runWorkflow, h, errResult]

/-! ### file name -/

/-- The empty file name means "workflow.yaml": both spellings give the same result, for every cache and input. -/
theorem default_file_name (env : Env P I D) (fuel : Nat) (files : FileCache) (input : String) :
    runWorkflow env fuel files "" input = runWorkflow env fuel files "workflow.yaml" input := by
  simp [runWorkflow, parse, parseWith, parseFilesWith, defaultName]

/-- A cache without the workflow file is `ErrNoWorkflowFile`, whatever else it contains. -/
theorem missing_workflow_file (env : Env P I D) (fuel : Nat) (files : FileCache) (name input : String)
    (h : getFile (defaultName name) files.files = none) :
    (runWorkflow env fuel files name input).err = some .noWorkflowFile := by
  simp [runWorkflow, parse, parseWith, parseFilesWith, h, errResult]

/-! ### engine path = direct path -/

/-- Once the file stage of `Parse` has produced the workflow `wf` and the merged cache `m`, the contents of `m` have
    passed the check for reference cycles and the version is supported, `RunWorkflow` is: prepare `wf` on the contents
    of `m`, execute, classify — i.e. the direct path on the merged cache. -/
theorem engine_equals_direct (env : Env P I D) (fuel : Nat) (files : FileCache) (name input : String)
    (wf : Wf) (m : FileCache) (hf : parseFiles env fuel files name = .ok (wf, m))
    (hc : checkCycles env.fromYAML fuel wf m.contents [] = .ok ())
    (hv : supportedVersion wf.version = true) :
    runWorkflow env fuel files name input = direct env wf m.contents input := by
  have hf' : parseFilesWith env true fuel files name = .ok (wf, m) := hf
  simp only [runWorkflow, parse, parseWith, hf', hc, hv, if_true, direct]
  cases prepare env wf m.contents <;> rfl

/-- Besides the check for reference cycles the only thing the engine front end adds to the direct path is the version
    check. -/
theorem unsupported_version_rejected (env : Env P I D) (fuel : Nat) (files : FileCache) (name input : String)
    (wf : Wf) (m : FileCache) (hf : parseFiles env fuel files name = .ok (wf, m))
    (hc : checkCycles env.fromYAML fuel wf m.contents [] = .ok ())
    (hv : supportedVersion wf.version = false) :
    (runWorkflow env fuel files name input).err = some .unsupportedVersion := by
  have hf' : parseFilesWith env true fuel files name = .ok (wf, m) := hf
  simp [runWorkflow, parse, parseWith, hf', hc, hv, errResult]

/-- In the merged cache the caller's own entries win over the copies discovered on disk: every key of the caller's
    cache keeps its entry (so a workflow without foreach steps sees exactly the caller's cache). -/
theorem caller_copy_wins (env : Env P I D) (passSupplied : Bool) (fuel : Nat) (files : FileCache) (name : String) (wf : Wf)
    (m : FileCache) (hf : parseFilesWith env passSupplied fuel files name = .ok (wf, m)) (k : String) (v : CtxFile)
    (hk : getFile k files.files = some v) : getFile k m.files = some v := by
  unfold parseFilesWith at hf
  split at hf
  · cases hf
  · split at hf
    · cases hf
    · split at hf
      · cases hf
      · cases hf
        exact hk
      · rename_i sc _
        split at hf
        · cases hf
        · rename_i m' hm
          cases hf
          have := mergeFrom_getFile _ k _ _ _ hm
          rw [this]
          simp [lastWins, hk]

/-! ### reference cycles in the files that are going to be used -/

/-- If the contents `Parse` is going to prepare — the discovered files overridden by the caller's — contain a reference
    cycle (by key) that is reachable from the root workflow, `Parse` returns an error: the cycle, or a file that does not
    convert, or the model's fuel; never a result of `Prepare`, which would not return on such contents.  The proof uses
    the check `Parse` runs on the merged contents only, not how discovery found them: it holds whether or not discovery
    is handed the caller's cache (a caller-supplied cyclic copy over an acyclic copy on disk, which discovery did not
    follow before it was, see `cyclic_copy_over_acyclic_disk_copy`). -/
theorem parse_rejects_cycles_in_used_files (env : Env P I D) (passSupplied : Bool) (fuel : Nat) (files : FileCache)
    (name : String) (wf : Wf) (m : FileCache) (hf : parseFilesWith env passSupplied fuel files name = .ok (wf, m))
    (q : String) (hq : KeyReach env.fromYAML (fun k => lookup k m.contents) wf q)
    (hcyc : OnCycle env.fromYAML (fun k => lookup k m.contents) q) :
    ∃ e, parseWith env passSupplied fuel files name = .error e ∧ FollowErr e := by
  cases hc : checkCycles env.fromYAML fuel wf m.contents [] with
  | ok u => exact absurd hcyc (checkCycles_sound env.fromYAML m.contents fuel wf [] hc q hq).2
  | error e =>
    refine ⟨e, ?_, checkCycles_error_kind env.fromYAML m.contents fuel wf [] e hc⟩
    simp only [parseWith, hf, hc]

/-- The same, read from the other side: whatever `Parse` hands to `Prepare` has no reference cycle that is reachable
    from the root workflow. -/
theorem prepared_contents_acyclic (env : Env P I D) (passSupplied : Bool) (fuel : Nat) (files : FileCache) (name : String)
    (wf : Wf) (p : P) (hp : parseWith env passSupplied fuel files name = .ok (wf, p)) :
    ∃ m, parseFilesWith env passSupplied fuel files name = .ok (wf, m) ∧ prepare env wf m.contents = .ok p ∧
      ∀ q, KeyReach env.fromYAML (fun k => lookup k m.contents) wf q →
        ¬ OnCycle env.fromYAML (fun k => lookup k m.contents) q := by
  unfold parseWith at hp
  split at hp
  · cases hp
  · rename_i wf' m hf
    split at hp
    · cases hp
    · rename_i hc
      split at hp
      · split at hp
        · cases hp
        · rename_i p' hprep
          cases hp
          exact ⟨m, hf, hprep, fun q hq => (checkCycles_sound env.fromYAML m.contents fuel wf [] hc q hq).2⟩
      · cases hp

/-! ### files the caller supplies -/

/-- For a cache that supplies every (transitively) referenced file, the file stage of `Parse` is the check for reference
    cycles on the contents of that cache and, if it finds none, returns the caller's cache unchanged.  Nothing is read
    from disk: the right-hand side mentions neither the file system nor `filepath.Abs` nor the root directory. -/
theorem parseFiles_supplied (env : Env P I D) (fuel : Nat) (files : FileCache) (name : String) (cf : CtxFile) (wf : Wf)
    (hc : getFile (defaultName name) files.files = some cf) (hy : env.fromYAML cf.content = some wf)
    (hsup : SuppliesAll env.fromYAML files wf) :
    parseFiles env fuel files name =
      match checkCycles env.fromYAML fuel wf files.contents [] with
      | .ok () => .ok (wf, files)
      | .error e => .error e := by
  simp only [parseFiles, parseFilesWith, hc, hy, if_true,
    supplied_discovery_is_cycle_check env files files.rootDir fuel wf [] hsup]
  cases checkCycles env.fromYAML fuel wf files.contents [] with
  | error e => rfl
  | ok u => cases u; rfl

/-- … and `RunWorkflow` is: check the supplied contents for reference cycles, check the version, then the direct path
    on the caller's own cache. -/
theorem runWorkflow_supplied (env : Env P I D) (fuel : Nat) (files : FileCache) (name input : String) (cf : CtxFile) (wf : Wf)
    (hc : getFile (defaultName name) files.files = some cf) (hy : env.fromYAML cf.content = some wf)
    (hsup : SuppliesAll env.fromYAML files wf) :
    runWorkflow env fuel files name input =
      match checkCycles env.fromYAML fuel wf files.contents [] with
      | .error e => errResult e
      | .ok () => if supportedVersion wf.version then direct env wf files.contents input else errResult .unsupportedVersion := by
  have hpf : parseFilesWith env true fuel files name = _ := parseFiles_supplied env fuel files name cf wf hc hy hsup
  simp only [runWorkflow, parse, parseWith, hpf]
  cases hck : checkCycles env.fromYAML fuel wf files.contents [] with
  | error e => rfl
  | ok u =>
    cases u
    simp only [hck]
    by_cases hv : supportedVersion wf.version = true
    · simp only [hv, if_true, direct]
      cases prepare env wf files.contents <;> rfl
    · simp only [hv]
      rfl

/-- The strengthening of the former `engine_equals_direct_partial` (which needed a workflow without foreach steps): for a
    cache that supplies every transitively referenced file and passes the check for reference cycles, the engine result
    is the direct result on the caller's own cache — the files need not be on disk, the root directory need not exist. -/
theorem engine_equals_direct_supplied (env : Env P I D) (fuel : Nat) (files : FileCache) (name input : String)
    (cf : CtxFile) (wf : Wf) (hc : getFile (defaultName name) files.files = some cf)
    (hy : env.fromYAML cf.content = some wf) (hsup : SuppliesAll env.fromYAML files wf)
    (hcyc : checkCycles env.fromYAML fuel wf files.contents [] = .ok ())
    (hv : supportedVersion wf.version = true) :
    runWorkflow env fuel files name input = direct env wf files.contents input := by
  rw [runWorkflow_supplied env fuel files name input cf wf hc hy hsup, hcyc]
  simp [hv]

/-- … and when the check fails, its error (a cycle, a file that does not convert, the model's fuel) is the result. -/
theorem supplied_cycle_reported (env : Env P I D) (fuel : Nat) (files : FileCache) (name input : String)
    (cf : CtxFile) (wf : Wf) (hc : getFile (defaultName name) files.files = some cf)
    (hy : env.fromYAML cf.content = some wf) (hsup : SuppliesAll env.fromYAML files wf) (e : Err)
    (hcyc : checkCycles env.fromYAML fuel wf files.contents [] = .error e) :
    runWorkflow env fuel files name input = errResult e ∧ FollowErr e := by
  rw [runWorkflow_supplied env fuel files name input cf wf hc hy hsup, hcyc]
  exact ⟨rfl, checkCycles_error_kind env.fromYAML files.contents fuel wf [] e hcyc⟩

/-- The same without reference to the check: when the supplied files convert and some `rank` decreases along every
    reference between them (no cycle), and the fuel of the model exceeds the ranks, engine = direct. -/
theorem engine_equals_direct_supplied_acyclic (env : Env P I D) (fuel : Nat) (files : FileCache) (name input : String)
    (cf : CtxFile) (wf : Wf) (hc : getFile (defaultName name) files.files = some cf)
    (hy : env.fromYAML cf.content = some wf) (hsup : SuppliesAll env.fromYAML files wf)
    (rank : String → Nat) (hr : Ranked env.fromYAML (fun k => lookup k files.contents) rank wf)
    (n : Nat) (hn : ∀ r ∈ wf.refs, rank r < n) (hfuel : n < fuel)
    (hv : supportedVersion wf.version = true) :
    runWorkflow env fuel files name input = direct env wf files.contents input :=
  engine_equals_direct_supplied env fuel files name input cf wf hc hy hsup
    (checkCycles_complete env.fromYAML files.contents rank fuel wf [] n hr hn hfuel (fun p hp => by cases hp)) hv

/-- For a cache that supplies every transitively referenced file the result does not depend on the file system, on
    `filepath.Abs` (the working directory) or on the path functions: `Parse` does not read the disk at all. -/
theorem supplied_cache_ignores_disk (env : Env P I D) (fuel : Nat) (files : FileCache) (name input : String)
    (cf : CtxFile) (wf : Wf) (hc : getFile (defaultName name) files.files = some cf)
    (hy : env.fromYAML cf.content = some wf) (hsup : SuppliesAll env.fromYAML files wf)
    (readFile' : String → Option String) (abs' : String → String) (isAbs' : String → Bool) (join' : String → String → String) :
    runWorkflow { env with readFile := readFile', abs := abs', isAbs := isAbs', join := join' } fuel files name input =
      runWorkflow env fuel files name input := by
  rw [runWorkflow_supplied env fuel files name input cf wf hc hy hsup,
    runWorkflow_supplied { env with readFile := readFile', abs := abs', isAbs := isAbs', join := join' } fuel files name input
      cf wf hc hy hsup]
  rfl

/-- `engine_equals_direct` for a workflow without foreach steps: no file stage hypothesis is needed, the engine result
    is the direct result on the caller's own cache (whatever its root directory is). -/
theorem engine_equals_direct_partial (env : Env P I D) (fuel : Nat) (files : FileCache) (name input : String)
    (cf : CtxFile) (wf : Wf) (hc : getFile (defaultName name) files.files = some cf)
    (hy : env.fromYAML cf.content = some wf) (hr : wf.refs = []) (hv : supportedVersion wf.version = true) :
    runWorkflow env (fuel + 1) files name input = direct env wf files.contents input := by
  apply engine_equals_direct_supplied env (fuel + 1) files name input cf wf hc hy _ _ hv
  · intro q hq
    cases hq with
    | direct h => rw [hr] at h; cases h
    | trans h _ _ _ => rw [hr] at h; cases h
  · simp [checkCycles, hr]

/-- Before `Parse` handed the caller's cache to the discovery (the model with `passSupplied = false`), every referenced
    file was read from disk even when the caller supplied it: a cache for a directory that is not on disk failed with a
    read error although direct preparation of the same files succeeds (the former finding
    `C20:memory-cache-needs-disk`). -/
theorem memory_cache_needed_disk (env : Env P I D) (fuel : Nat) (files : FileCache) (name : String)
    (cf : CtxFile) (wf : Wf) (hc : getFile (defaultName name) files.files = some cf)
    (hy : env.fromYAML cf.content = some wf) (hrefs : wf.refs ≠ []) (hdisk : ∀ p, env.readFile p = none) :
    parseWith env false (fuel + 1) files name = .error .readError := by
  simp [parseWith, parseFilesWith, hc, hy,
    subworkflowCache_without_supplied_reads_disk env fuel wf files.rootDir [] [] hrefs hdisk]

/-! ### working directory -/

/-- The entry point consults the working directory (`filepath.Abs`) for the root directory of the caller's cache and for
    its absolute spelling only (discovery: `filepath.Abs(rootDir)`; final merge: `sameDirectory(abs root, root)`): two
    working directories that resolve these two paths alike give the same result — in particular every working
    directory when the root directory is absolute, as it always is for a cache made by `NewFileCacheUsingContext`.
    A relative root directory means "relative to the working directory", by intent.  (`Prepare`/`Execute` are parameters
    here: the built-in `readFile` breaks this for the real code, finding F14, see `cwd_call_sites_pinned`.) -/
theorem cwd_independent (env : Env P I D) (f g : String → String) (fuel : Nat) (files : FileCache) (name input : String)
    (h : f files.rootDir = g files.rootDir) (h' : f (f files.rootDir) = g (f files.rootDir)) :
    runWorkflow (withAbs env f) fuel files name input = runWorkflow (withAbs env g) fuel files name input := by
  have hsub : ∀ wf, subworkflowCache (withAbs env f) fuel wf files.rootDir [] [] (some files) =
      subworkflowCache (withAbs env g) fuel wf files.rootDir [] [] (some files) := fun wf =>
    subworkflowCache_withAbs env f g files.rootDir h (some files) fuel wf [] [] (sorted_nil _)
  have hmerge : ∀ wf sc, subworkflowCache (withAbs env g) fuel wf files.rootDir [] [] (some files) = .ok (some sc) →
      mergeFileCaches f [some sc, some files] = mergeFileCaches g [some sc, some files] := by
    intro wf sc hs
    have hroot : RootOk (g files.rootDir) [] sc :=
      subworkflowCache_root (withAbs env g) files.rootDir (some files) fuel wf [] [] sc (sorted_nil _) hs
    simp only [mergeFileCaches, mergeFrom]
    rw [mergeStep_pass (Or.inl rfl), mergeStep_pass (Or.inl rfl)]
    rcases hroot with hroot | ⟨hroot, _⟩
    · have hsame : sameDirectory f sc.rootDir files.rootDir = sameDirectory g sc.rootDir files.rootDir := by
        unfold sameDirectory
        rw [hroot, ← h, h', h]
      simp only [mergeStep, hsame]
    · simp [mergeStep, hroot]
  have hpf : parseFilesWith (withAbs env f) true fuel files name = parseFilesWith (withAbs env g) true fuel files name := by
    cases hg : getFile (defaultName name) files.files with
    | none => simp [parseFilesWith, hg]
    | some cf =>
      have hyaml : (withAbs env f).fromYAML cf.content = (withAbs env g).fromYAML cf.content := rfl
      cases hy : (withAbs env g).fromYAML cf.content with
      | none => simp [parseFilesWith, hg, hyaml, hy]
      | some wf =>
        cases hs : subworkflowCache (withAbs env g) fuel wf files.rootDir [] [] (some files) with
        | error e => simp [parseFilesWith, hg, hyaml, hy, hsub, hs]
        | ok o =>
          cases o with
          | none => simp only [parseFilesWith, hg, hyaml, hy, hsub, hs, if_true]
          | some sc =>
            have hm : mergeFileCaches (withAbs env f).abs [some sc, some files] =
                mergeFileCaches (withAbs env g).abs [some sc, some files] := hmerge wf sc hs
            simp only [parseFilesWith, hg, hyaml, hy, hsub, hs, if_true, hm]
  simp only [runWorkflow, parse, parseWith, hpf]
  rfl

/-! ### MergeFileCaches -/

/-- Last writer wins: the merged entry of a key is the entry of the last cache in the argument list that has the key. -/
theorem merge_last_wins (abs : String → String) (cs : List (Option FileCache)) (m : FileCache)
    (h : mergeFileCaches abs cs = .ok m) (k : String) :
    getFile k m.files = lastWins k cs := by
  have := mergeFrom_getFile abs k cs _ m h
  rw [this]
  cases lastWins k cs <;> rfl

/-- PARTIAL (the hypothesis `Agree` is needed, see `merge_order_dependent_without_agreement`): when the caches agree
    on the content of every key two of them share, the merged key -> content map does not depend on the order of the
    caches. -/
theorem merge_order_independent_partial (abs : String → String) (cs cs' : List (Option FileCache)) (m m' : FileCache)
    (hp : cs.Perm cs') (ha : Agree cs)
    (h : mergeFileCaches abs cs = .ok m) (h' : mergeFileCaches abs cs' = .ok m') (k : String) :
    (getFile k m.files).map (·.content) = (getFile k m'.files).map (·.content) := by
  rw [merge_last_wins abs cs m h, merge_last_wins abs cs' m' h']
  exact lastWins_content_perm hp ha

/-- the counterexample pair: the in-memory and the on-disk copy of one sub-workflow -/
def cexMemory : FileCache :=
  { rootDir := "/ctx"
    files := [("sub.yaml", { id := "sub.yaml", absPath := "/ctx/sub.yaml", content := "memory" })] }

def cexDisk : FileCache :=
  { rootDir := "/ctx"
    files := [("sub.yaml", { id := "sub.yaml", absPath := "/ctx/sub.yaml", content := "disk" })] }

/-- the content a merge gives to a key (`none`: the merge failed or the key is absent) -/
def mergedContent (cs : List (Option FileCache)) (k : String) : Option String :=
  match mergeFileCaches id cs with
  | .ok m => (getFile k m.files).map (·.content)
  | .error _ => none

/-- Without agreement the order decides (last writer wins): the same two caches, two orders, two contents — and the
    pair indeed violates the hypothesis of `merge_order_independent_partial`. -/
theorem merge_order_dependent_without_agreement :
    mergedContent [some cexMemory, some cexDisk] "sub.yaml" = some "disk" ∧
    mergedContent [some cexDisk, some cexMemory] "sub.yaml" = some "memory" ∧
    ¬ Agree [some cexMemory, some cexDisk] := by
  refine ⟨by decide +kernel, by decide +kernel, fun h => ?_⟩
  have := h cexMemory cexDisk "sub.yaml" _ _ (by simp) (by simp) rfl rfl
  revert this
  decide +kernel

/-- Caches loaded by `NewFileCacheUsingContext` + `LoadContext` from the same file system and root directory — the
    caches `SubworkflowCache` merges — agree on every shared key: the hypothesis of `merge_order_independent_partial`
    holds for them, so the order in which Go iterates its maps during discovery does not matter. -/
theorem loaded_caches_agree (env : Env P I D) (rootDir : String) (paths₁ paths₂ : List String) (c₁ c₂ : FileCache)
    (h₁ : loadCache env rootDir paths₁ = .ok c₁) (h₂ : loadCache env rootDir paths₂ = .ok c₂)
    (k : String) (v₁ v₂ : CtxFile) (g₁ : getFile k c₁.files = some v₁) (g₂ : getFile k c₂.files = some v₂) :
    v₁.content = v₂.content ∧ v₁.absPath = v₂.absPath := by
  obtain ⟨_, s₁⟩ := loadCache_spec env rootDir paths₁ c₁ h₁
  obtain ⟨_, s₂⟩ := loadCache_spec env rootDir paths₂ c₂ h₂
  obtain ⟨a₁, r₁⟩ := s₁ k v₁ g₁
  obtain ⟨a₂, r₂⟩ := s₂ k v₂ g₂
  refine ⟨?_, a₁.trans a₂.symm⟩
  rw [r₁] at r₂
  exact Option.some.inj r₂

/-- Caches with non-empty root directories that denote different directories (different `filepath.Abs`) never merge,
    wherever the two stand in the list. -/
theorem merge_root_mismatch_rejected (abs : String → String) (cs : List (Option FileCache)) (c₁ c₂ : FileCache)
    (hne : ∀ c, some c ∈ cs → c.rootDir ≠ "") (h₁ : some c₁ ∈ cs) (h₂ : some c₂ ∈ cs)
    (hd : abs c₁.rootDir ≠ abs c₂.rootDir) : mergeFileCaches abs cs = .error .rootMismatch := by
  cases h : mergeFileCaches abs cs with
  | error e => rw [mergeFrom_error abs cs _ e h]
  | ok m =>
    have := (mergeFrom_roots abs cs _ m hne h).1
    exact absurd ((this c₁ h₁).trans (this c₂ h₂).symm) hd

/-- The hypothesis "non-empty" of `merge_root_mismatch_rejected` is needed: an empty root directory resets the
    comparison, so two different directories merge when an empty root that `filepath.Abs` resolves to the first one
    (the working directory) stands between them.  (Not reachable through `Parse`: discovery only merges caches with one
    absolute root, and the caller's cache comes last.) -/
theorem merge_empty_root_bridges_directories :
    ∃ m, mergeFileCaches (fun s => if s = "" then "/ctx" else s)
      [some { rootDir := "/ctx", files := [] }, some { rootDir := "", files := [] }, some { rootDir := "/other", files := [] }] = .ok m ∧
      m.rootDir = "/other" :=
  ⟨{ rootDir := "/other", files := [] }, by decide +kernel, rfl⟩

/-- Caches whose root directories all denote one directory (same `filepath.Abs`: the same string, a relative and the
    absolute spelling, with or without trailing separator) always merge, in every order. -/
theorem merge_same_directory_ok (abs : String → String) (a : String) (cs : List (Option FileCache))
    (h : ∀ c, some c ∈ cs → abs c.rootDir = a) :
    ∃ m, mergeFileCaches abs cs = .ok m ∧ (m.rootDir = "" ∨ abs m.rootDir = a) :=
  mergeFrom_same_dir abs a cs _ (Or.inl rfl) h

/-- Caches that all carry the same root directory string always merge, in every order. -/
theorem merge_same_root_ok (abs : String → String) (r : String) (cs : List (Option FileCache))
    (h : ∀ c, some c ∈ cs → c.rootDir = r) :
    ∃ m, mergeFileCaches abs cs = .ok m ∧ (m.rootDir = "" ∨ abs m.rootDir = abs r) :=
  merge_same_directory_ok abs (abs r) cs (fun c hc => by rw [h c hc])

/-- An empty root directory in first position always merges; in second position it merges exactly when
    `filepath.Abs("")` — the working directory — is the directory of the first cache.  Success of a merge is therefore
    still order dependent for empty roots, but no longer rejects `NewFileCache("", …)` used from inside the context
    directory. -/
theorem merge_empty_root_order_dependent (abs : String → String) (r : String) (fs fs' : Files) (hr : r ≠ "") :
    (∃ m, mergeFileCaches abs [some { rootDir := "", files := fs }, some { rootDir := r, files := fs' }] = .ok m) ∧
    ((∃ m, mergeFileCaches abs [some { rootDir := r, files := fs' }, some { rootDir := "", files := fs }] = .ok m) ↔
      abs r = abs "") := by
  constructor
  · exact ⟨{ rootDir := r, files := putAll fs' (putAll fs []) }, by simp [mergeFileCaches, mergeFrom, mergeStep]⟩
  · constructor
    · rintro ⟨m, hm⟩
      simp only [mergeFileCaches, mergeFrom] at hm
      rw [mergeStep_pass (Or.inl rfl)] at hm
      simp only at hm
      cases hs : mergeStep abs { rootDir := r, files := putAll fs' [] } { rootDir := "", files := fs } with
      | error e => rw [hs] at hm; cases hm
      | ok acc =>
        rcases (mergeStep_ok hs).1 with h0 | h1
        · exact absurd h0 hr
        · exact sameDirectory_abs h1
    · intro ha
      refine ⟨{ rootDir := "", files := putAll fs (putAll fs' []) }, ?_⟩
      simp only [mergeFileCaches, mergeFrom]
      rw [mergeStep_pass (Or.inl rfl)]
      simp only
      rw [mergeStep_pass (Or.inr ((sameDirectory_iff abs _ _).mpr (Or.inr ha)))]

/-! ### root directory spelling (finding F15, fixed) -/

/-- Whatever the spelling of the caller's root directory (relative, trailing separator, empty, absolute), the final merge
    of `Parse` succeeds: the file stage succeeds whenever discovery does, the merged cache keeps the caller's root and
    contains the discovered files overridden by the caller's own entries. -/
theorem any_root_accepted (env : Env P I D) (fuel : Nat) (files : FileCache) (name : String)
    (cf : CtxFile) (wf : Wf) (sc : FileCache) (hidem : AbsIdempotent env)
    (hc : getFile (defaultName name) files.files = some cf) (hy : env.fromYAML cf.content = some wf)
    (hs : subworkflowCache env fuel wf files.rootDir [] [] (some files) = .ok (some sc)) :
    parseFiles env fuel files name =
      .ok (wf, { rootDir := files.rootDir, files := putAll files.files (putAll sc.files []) }) := by
  have hroot := subworkflowCache_root env files.rootDir (some files) fuel wf [] [] sc (sorted_nil _) hs
  have hm : mergeFileCaches env.abs [some sc, some files] =
      .ok { rootDir := files.rootDir, files := putAll files.files (putAll sc.files []) } := by
    simp only [mergeFileCaches, mergeFrom]
    rw [mergeStep_pass (Or.inl rfl)]
    simp only
    rcases hroot with hroot | ⟨hroot, _⟩
    · rw [mergeStep_pass (Or.inr ((sameDirectory_iff env.abs _ _).mpr (Or.inr (by
        show env.abs sc.rootDir = env.abs files.rootDir
        rw [hroot, hidem]))))]
    · simp [mergeStep, hroot]
  simp [parseFiles, parseFilesWith, hc, hy, hs, hm]

/-- F15 fixed, in the model: a cache whose root directory is any spelling of a directory gives the same result as the
    cache with the canonical absolute spelling of that directory. -/
theorem relative_root_accepted (env : Env P I D) (fuel : Nat) (files : FileCache) (name input : String)
    (hidem : AbsIdempotent env) :
    runWorkflow env fuel files name input =
      runWorkflow env fuel { rootDir := env.abs files.rootDir, files := files.files } name input := by
  have hcongr : ∀ wf, subworkflowCache env fuel wf files.rootDir [] [] (some files) =
      subworkflowCache env fuel wf (env.abs files.rootDir) [] []
        (some { rootDir := env.abs files.rootDir, files := files.files }) := fun wf => by
    rw [subworkflowCache_root_congr env files.rootDir (env.abs files.rootDir) (hidem files.rootDir).symm (some files) fuel]
    exact subworkflowCache_supplied_congr env files { rootDir := env.abs files.rootDir, files := files.files } rfl
      (env.abs files.rootDir) fuel wf [] []
  cases hg : getFile (defaultName name) files.files with
  | none => simp [runWorkflow, parse, parseWith, parseFilesWith, hg]
  | some cf =>
    cases hy : env.fromYAML cf.content with
    | none => simp [runWorkflow, parse, parseWith, parseFilesWith, hg, hy]
    | some wf =>
      cases hs : subworkflowCache env fuel wf files.rootDir [] [] (some files) with
      | error e =>
        have hs' := hs
        rw [hcongr] at hs'
        simp [runWorkflow, parse, parseWith, parseFilesWith, hg, hy, hs, hs']
      | ok o =>
        cases o with
        | none =>
          have hs' := hs
          rw [hcongr] at hs'
          simp [runWorkflow, parse, parseWith, parseFilesWith, hg, hy, hs, hs', FileCache.contents]
        | some sc =>
          have hs' := hs
          rw [hcongr] at hs'
          have p₁ : parseFilesWith env true fuel files name = _ :=
            any_root_accepted env fuel files name cf wf sc hidem hg hy hs
          have p₂ : parseFilesWith env true fuel { rootDir := env.abs files.rootDir, files := files.files } name = _ :=
            any_root_accepted env fuel { rootDir := env.abs files.rootDir, files := files.files } name cf wf sc
              hidem hg hy hs'
          simp only [runWorkflow, parse, parseWith, p₁, p₂, FileCache.contents]

end

/-! ### exit codes -/

/-- The CLI's exit code: 0 exactly for a non-error output, 2 exactly for an error output, 1 exactly when the workflow
    does not parse, 3 exactly when the run fails. -/
theorem exit_code_map (o : CliOutcome) :
    (exitCode o = 0 ↔ o = .output false) ∧ (exitCode o = 2 ↔ o = .output true) ∧
    (exitCode o = 1 ↔ o = .parseFailed) ∧ (exitCode o = 3 ↔ o = .runFailed) := by
  cases o with
  | parseFailed => decide
  | runFailed => decide
  | output b => cases b <;> decide

/-! ### the tie to the source -/

/-- the default file name of `Parse` is the one of the model -/
theorem default_file_name_pinned :
    Arca.Gen.EngineApi.defaultWorkflowFileName = Arca.Expected.EngineApi.defaultWorkflowFileName ∧
    defaultName "" = Arca.Gen.EngineApi.defaultWorkflowFileName := by decide +kernel

/-- the supported versions of engine.go are the ones of the model -/
theorem supported_versions_pinned :
    Arca.Gen.EngineApi.supportedVersions = Arca.Expected.EngineApi.supportedVersions ∧
    supportedVersions = Arca.Gen.EngineApi.supportedVersions := by decide +kernel

/-- `infer.OutputSchema` still infers the error flag as `outputID == "error"` and returns an explicit schema unchanged -/
theorem inferred_error_flag_pinned :
    Arca.Gen.EngineApi.inferredErrorFlag = Arca.Expected.EngineApi.inferredErrorFlag ∧
    Arca.Gen.EngineApi.explicitSchemaKept = true := by decide +kernel

/-- The only `filepath.Abs` / `os.Getwd` / `os.Chdir` sites of engine.go, loadfile.go and the built-in functions are
    `NewFileCacheUsingContext(rootDir)` and the two calls of `sameDirectory(dir1, dir2)` — both modelled by `Env.abs`,
    applied to root directories only, so the working directory matters only through the meaning of a relative root
    directory (`cwd_independent`) — and the built-in `readFile(filePath)`: finding F14. -/
theorem cwd_call_sites_pinned : Arca.Gen.EngineApi.cwdCallSites = Arca.Expected.EngineApi.cwdCallSites := by decide +kernel

/-- `sameDirectory` and the rejection condition of `MergeFileCaches` are the ones `sameDirectory` / `mergeStep` of the
    model were written against -/
theorem same_directory_pinned :
    Arca.Gen.EngineApi.sameDirectoryBody = Arca.Expected.EngineApi.sameDirectoryBody ∧
    Arca.Gen.EngineApi.mergeRejectCondition = Arca.Expected.EngineApi.mergeRejectCondition := by decide +kernel

/-- exit-code constants and the condition -> constant table of the CLI are the ones of the model -/
theorem exit_codes_pinned :
    Arca.Gen.EngineApi.exitCodes = Arca.Expected.EngineApi.exitCodes ∧
    Arca.Gen.EngineApi.exitCodeTable = Arca.Expected.EngineApi.exitCodeTable ∧
    Arca.Gen.EngineApi.mainExitArgs = Arca.Expected.EngineApi.mainExitArgs ∧
    Arca.Gen.EngineApi.mainFileCacheCalls = Arca.Expected.EngineApi.mainFileCacheCalls ∧
    lookup "ExitCodeOK" Arca.Gen.EngineApi.exitCodes = some exitCodeOK ∧
    lookup "ExitCodeInvalidData" Arca.Gen.EngineApi.exitCodes = some exitCodeInvalidData ∧
    lookup "ExitCodeWorkflowErrorOutput" Arca.Gen.EngineApi.exitCodes = some exitCodeWorkflowErrorOutput ∧
    lookup "ExitCodeWorkflowFailed" Arca.Gen.EngineApi.exitCodes = some exitCodeWorkflowFailed := by decide +kernel

/-- the extractor recognised every construct it looked at -/
theorem engineapi_extractor_complete :
    (Arca.Gen.unknown.filter (fun s => s.startsWith "engineapi:")) = [] := by decide +kernel

/-! ### non-vacuity -/

/-- a two-file tree: workflow.yaml with one foreach step over sub.yaml; output ids `success` and `error`, no explicit
    schema; the prepared workflow is the list of context keys, execution returns the output named by the input -/
def demoRoot : Wf :=
  { version := "v0.2.0"
    refs := ["sub.yaml"]
    outputs := ["success", "error"]
    declared := none }

def demoSub : Wf :=
  { version := "v0.2.0"
    refs := []
    outputs := ["success"]
    declared := none }

def demoEnv (absOf : String → String) : Env (List String) String String :=
  { fromYAML := fun c => if c = "ROOT" then some demoRoot else if c = "SUB" then some demoSub else none
    abs := absOf
    isAbs := fun s => s.startsWith "/"
    join := fun a b => a ++ "/" ++ b
    readFile := fun p => if p = "/ctx/sub.yaml" then some "SUB" else none
    prepareSteps := fun wf ctx => if wf.refs.all (fun r => (lookup r ctx).isSome) then some (ctx.map (·.1)) else none
    decodeInput := fun s => some s
    execute := fun _ i => some (i, "data") }

def cliAbs (s : String) : String := if s = "ctx" then "/ctx" else s

def demoCache (root : String) : FileCache :=
  { rootDir := root
    files := [("workflow.yaml", { id := "workflow.yaml", absPath := "workflow.yaml", content := "ROOT" })] }

-- absolute root: the run reaches the output named by the input; `error` is flagged, `success` is not
example : ((runWorkflow (demoEnv cliAbs) 5 (demoCache "/ctx") "" "success").outputID,
    (runWorkflow (demoEnv cliAbs) 5 (demoCache "/ctx") "" "success").isError,
    (runWorkflow (demoEnv cliAbs) 5 (demoCache "/ctx") "" "success").err) = ("success", false, none) := by decide +kernel
example : ((runWorkflow (demoEnv cliAbs) 5 (demoCache "/ctx") "" "error").outputID,
    (runWorkflow (demoEnv cliAbs) 5 (demoCache "/ctx") "" "error").isError,
    (runWorkflow (demoEnv cliAbs) 5 (demoCache "/ctx") "" "error").err) = ("error", true, none) := by decide +kernel
-- the hypotheses of error_flag_exact / engine_equals_direct are satisfiable
example : (match parseFiles (demoEnv cliAbs) 5 (demoCache "/ctx") "" with
    | .ok (wf, m) => wf == demoRoot && m.rootDir == "/ctx" && (getFile "sub.yaml" m.files).isSome
    | .error _ => false) = true := by decide +kernel
-- the former F15 witness: the same directory given as "ctx" (filepath.Abs = "/ctx") is now accepted like "/ctx"
example : ((runWorkflow (demoEnv cliAbs) 5 (demoCache "ctx") "" "success").outputID,
    (runWorkflow (demoEnv cliAbs) 5 (demoCache "ctx") "" "success").err) = ("success", none) ∧
    (runWorkflow (demoEnv cliAbs) 5 (demoCache "/ctx") "" "success").err = none := by decide +kernel
-- the hypothesis of any_root_accepted / relative_root_accepted is satisfiable
example : AbsIdempotent (demoEnv cliAbs) := by
  intro s
  show cliAbs (cliAbs s) = cliAbs s
  unfold cliAbs
  by_cases h : s = "ctx" <;> simp [h]
-- genuinely different directories are still rejected
example : mergeFileCaches cliAbs [some (demoCache "/ctx"), some (demoCache "/elsewhere")] = .error .rootMismatch := by decide +kernel
-- an output the workflow does not declare is the "bug:" error; an unreadable sub-workflow is a read error
example : (runWorkflow (demoEnv cliAbs) 5 (demoCache "/ctx") "" "nope").err = some .noOutputSchema := by decide +kernel
example : (runWorkflow (demoEnv cliAbs) 5 (demoCache "/elsewhere") "" "success").err = some .readError := by decide +kernel
example : (runWorkflow (demoEnv cliAbs) 5 (demoCache "/ctx") "other.yaml" "success").err = some .noWorkflowFile := by decide +kernel
-- fuel 1 is not enough for a tree of depth 1 (the leaf needs its own call): explicit outcome, not a default
example : (runWorkflow (demoEnv cliAbs) 1 (demoCache "/ctx") "" "success").err = some .tooDeep := by decide +kernel
-- explicit schema: the declared flag wins over the name
example : classify (declaredFlag { demoRoot with declared := some [("success", true), ("error", false)] } "error") "error" = false ∧
    classify (declaredFlag { demoRoot with declared := some [("success", true), ("error", false)] } "success") "success" = true := by decide +kernel
-- a partial explicit schema is rejected by stage 6 of Prepare
example : schemaComplete { demoRoot with declared := some [("success", true)] } = false := by decide +kernel
-- Agree is satisfiable by distinct caches and fails for the counterexample pair
example : Agree [some (demoCache "/ctx"), none, some (demoCache "/ctx")] := by
  intro c₁ c₂ k v₁ v₂ h₁ h₂ g₁ g₂
  simp at h₁ h₂
  subst h₁ h₂
  rw [g₁] at g₂
  cases g₂
  rfl

/-! #### files the caller supplies, reference cycles -/

def demoMid : Wf :=
  { version := "v0.2.0"
    refs := ["leaf.yaml"]
    outputs := ["success"]
    declared := none }

/-- a sub-workflow that references the key `sub.yaml`: stored under that key it references itself -/
def demoCyc : Wf :=
  { version := "v0.2.0"
    refs := ["sub.yaml"]
    outputs := ["success"]
    declared := none }

def demoRoot2 : Wf :=
  { version := "v0.2.0"
    refs := ["sub.yaml", "other.yaml"]
    outputs := ["success", "error"]
    declared := none }

/-- like `demoEnv`, with more file contents and the disk given as a table absolute path -> content -/
def demoEnv2 (disk : List (String × String)) : Env (List String) String String :=
  { fromYAML := fun c =>
      if c = "ROOT" then some demoRoot else if c = "ROOT2" then some demoRoot2 else if c = "SUB" then some demoSub
      else if c = "MID" then some demoMid else if c = "CYC" then some demoCyc else none
    abs := cliAbs
    isAbs := fun s => s.startsWith "/"
    join := fun a b => a ++ "/" ++ b
    readFile := fun p => lookup p disk
    prepareSteps := fun wf ctx => if wf.refs.all (fun r => (lookup r ctx).isSome) then some (ctx.map (·.1)) else none
    decodeInput := fun s => some s
    execute := fun _ i => some (i, "data") }

/-- `loadfile.NewFileCache(root, {"workflow.yaml": rootText, subs…})` -/
def memCache (root rootText : String) (subs : List (String × String)) : FileCache :=
  { rootDir := root
    files := (("workflow.yaml", rootText) :: subs).map (fun kc => (kc.1, { id := kc.1, absPath := kc.1, content := kc.2 })) }

def resultTriple (r : Result String) : String × Bool × Option Err := (r.outputID, r.isError, r.err)

-- every file supplied, nothing on disk (the directory does not exist): the run succeeds and equals the direct path …
example : resultTriple (runWorkflow (demoEnv2 []) 5 (memCache "/absent" "ROOT" [("sub.yaml", "SUB")]) "" "success") =
      ("success", false, none) ∧
    resultTriple (direct (demoEnv2 []) demoRoot (memCache "/absent" "ROOT" [("sub.yaml", "SUB")]).contents "success") =
      ("success", false, none) := by decide +kernel
-- … while the discovery that is not handed the caller's cache fails reading the file (the former finding)
example : (match parseWith (demoEnv2 []) false 5 (memCache "/absent" "ROOT" [("sub.yaml", "SUB")]) "" with
    | .error .readError => true
    | _ => false) = true := by decide +kernel
-- the hypotheses of engine_equals_direct_supplied / _acyclic / supplied_cache_ignores_disk are satisfiable
example : SuppliesAll (demoEnv2 []).fromYAML (memCache "/absent" "ROOT" [("sub.yaml", "SUB")]) demoRoot := by
  intro q hq
  cases hq with
  | direct h =>
    simp only [demoRoot, List.mem_singleton] at h
    subst h
    exact ⟨_, rfl⟩
  | trans h hl hw hr =>
    simp only [demoRoot, List.mem_singleton] at h
    subst h
    have hc : (lookup "sub.yaml" (memCache "/absent" "ROOT" [("sub.yaml", "SUB")]).contents) = some "SUB" := by decide +kernel
    simp only [hc, Option.some.injEq] at hl
    subst hl
    have hs : (demoEnv2 []).fromYAML "SUB" = some demoSub := by decide +kernel
    rw [hs] at hw
    cases hw
    cases hr with
    | direct h' => simp [demoSub] at h'
    | trans h' _ _ _ => simp [demoSub] at h'
example : checkCycles (demoEnv2 []).fromYAML 5 demoRoot (memCache "/absent" "ROOT" [("sub.yaml", "SUB")]).contents [] = .ok () := by
  decide +kernel
-- a supplied sub-workflow that references a file that is only on disk: followed, loaded, merged
example : resultTriple (runWorkflow (demoEnv2 [("/ctx/leaf.yaml", "SUB")]) 5 (memCache "/ctx" "ROOT" [("sub.yaml", "MID")]) "" "success") =
      ("success", false, none) ∧
    (match parseFiles (demoEnv2 [("/ctx/leaf.yaml", "SUB")]) 5 (memCache "/ctx" "ROOT" [("sub.yaml", "MID")]) "" with
      | .ok (_, m) => (getFile "leaf.yaml" m.files).isSome && ((getFile "sub.yaml" m.files).map (·.content) == some "MID")
      | .error _ => false) = true := by decide +kernel
-- … and without the file on disk it is the read error
example : (runWorkflow (demoEnv2 []) 5 (memCache "/ctx" "ROOT" [("sub.yaml", "MID")]) "" "success").err = some .readError := by
  decide +kernel
-- some sub-workflows supplied, the others on disk; also with a relative spelling of the root directory
example : resultTriple (runWorkflow (demoEnv2 [("/ctx/other.yaml", "SUB")]) 5 (memCache "/ctx" "ROOT2" [("sub.yaml", "SUB")]) "" "success") =
      ("success", false, none) ∧
    resultTriple (runWorkflow (demoEnv2 [("/ctx/other.yaml", "SUB")]) 5 (memCache "ctx" "ROOT2" [("sub.yaml", "SUB")]) "" "success") =
      ("success", false, none) := by decide +kernel

/-- the caller's cyclic copy of `sub.yaml` over an acyclic copy on disk -/
def cyclicCopy : FileCache := memCache "/ctx" "ROOT" [("sub.yaml", "CYC")]

def acyclicDisk : List (String × String) := [("/ctx/sub.yaml", "SUB")]

/-- the merged cache: the copy loaded from disk overridden by the caller's -/
def cyclicMerged : FileCache :=
  { rootDir := "/ctx"
    files := [("sub.yaml", { id := "sub.yaml", absPath := "sub.yaml", content := "CYC" }),
              ("workflow.yaml", { id := "workflow.yaml", absPath := "workflow.yaml", content := "ROOT" })] }

/-- A caller-supplied cyclic copy of a sub-workflow over an acyclic copy on disk.  The discovery that is not handed the
    caller's cache follows the disk copy and gets past the file stage; the contents that would be prepared are the
    caller's and cyclic; the check on the merged contents reports it.  The discovery that is handed the caller's cache
    reports the cycle itself.  Either way `Parse` returns the self-reference error — `Prepare` is not reached. -/
theorem cyclic_copy_over_acyclic_disk_copy :
    parseFilesWith (demoEnv2 acyclicDisk) false 5 cyclicCopy "" = .ok (demoRoot, cyclicMerged) ∧
    (match parseWith (demoEnv2 acyclicDisk) false 5 cyclicCopy "" with
      | .error .selfReference => true
      | _ => false) = true ∧
    (match parseWith (demoEnv2 acyclicDisk) true 5 cyclicCopy "" with
      | .error .selfReference => true
      | _ => false) = true := by decide +kernel

-- the hypotheses of parse_rejects_cycles_in_used_files are satisfiable (by exactly that input)
example : ∃ wf m q, parseFilesWith (demoEnv2 acyclicDisk) false 5 cyclicCopy "" = .ok (wf, m) ∧
    KeyReach (demoEnv2 acyclicDisk).fromYAML (fun k => lookup k m.contents) wf q ∧
    OnCycle (demoEnv2 acyclicDisk).fromYAML (fun k => lookup k m.contents) q :=
  ⟨demoRoot, cyclicMerged, "sub.yaml", cyclic_copy_over_acyclic_disk_copy.1, .direct (by decide),
    "CYC", demoCyc, by decide +kernel, by decide +kernel, .direct (by decide)⟩

end Arca.Props.C20
