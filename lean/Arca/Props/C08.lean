/-
C08 — accepted workflows are type-sound: every value matches its declared schema.

This file holds the STATIC part for the engine-generated outputs (fact class G9): what the plugin and foreach providers
produce when they complete a stage on their own (crashed, deploy_failed, closed, disabled, enabling, starting and the
foreach outputs) conforms to the object schema they declare for that stage output.  The theorems are stated over the
tables REGENERATED from the source on every run (`Arca.Gen.declaredRows`, `Arca.Gen.producedRows`), so renaming a
produced key, dropping a required one, changing a Go field's json tag or type, or changing the declared schema breaks
`generated_outputs_conform` itself (the defects it catches existed: foreach produced `messages` where `errors` is
declared; `crashed.error` / `deploy_failed.error` were stored as Go structs).

Modelled: objects at the level of property names, required flags and the head constructor of each property type against
the static kind of the Go expression that produces the value (helper lemmas: Arca/Proofs/Outputs.lean).
Modelling assumption: a struct-shaped output reaches the data model as the map of its JSON fields.  This is what
`workflow.serializedOutput` does; `Arca.Model.serializedOutput` mirrors it and the pin
`Arca.Pins.workflow_workflow__serializedOutput` (restated below) ties the mirror to the source.
Not modelled (validated only dynamically, `vharness typed`, with the real `Unserialize`): element types of lists and
maps (`list<*>`, `map<int,string>`), outputs whose data comes from the plugin or the sub-workflows (`*` rows), stage
inputs and the returned workflow output.
-/
import Arca.Proofs.Outputs
import Arca.Gen.Outputs
import Arca.Expected.Outputs
import Arca.Pins.workflow_workflow__serializedOutput
import Arca.Props.C08Infer

namespace Arca.Props.C08
open Arca.Model Arca.Proofs.Outputs

/-! ### the tie to the source -/

/-- the declared output objects extracted on this run are the hand-reviewed ones -/
theorem declared_outputs_pinned : Arca.Gen.declaredRows = Arca.Expected.declaredRows := by rfl

/-- the producing sites (function, stage, output id, shape) extracted on this run are the hand-reviewed ones -/
theorem produced_outputs_pinned : Arca.Gen.producedRows = Arca.Expected.producedRows := by rfl

/-- `completeStep` / `transitionStageWithOutput` of both providers forward their output parameters unchanged and report
    the stage held before the update -/
theorem output_helpers_pinned : Arca.Gen.outputHelpers = Arca.Expected.outputHelpers := by rfl

/-- the run loop's `serializedOutput` has the control skeleton `Arca.Model.serializedOutput` was written against -/
theorem serializedOutput_pinned :
    Arca.Gen.Skel.workflow_workflow__serializedOutput = Arca.Expected.Skel.workflow_workflow__serializedOutput :=
  Arca.Pins.workflow_workflow__serializedOutput

/-- what the model of `serializedOutput` does: a Go struct becomes the map of its fields, anything else is kept -/
theorem serializedOutput_model (n : String) (kvs : List (String × Val)) :
    serializedOutput (.gostruct n kvs) = .map kvs ∧ serializedOutput (.map kvs) = .map kvs := ⟨rfl, rfl⟩

/-! ### the property over the regenerated tables -/

/-- Every site where a provider completes a stage with an output of its own making produces a shape that conforms to
    the object declared for exactly that provider, stage and output id: every produced key is a declared property of a
    compatible kind and every required property is always produced.  Rows whose data comes from the plugin are excused
    here (`dynamic_outputs_are_plugin_declared`) and validated dynamically. -/
theorem generated_outputs_conform :
    ∀ r ∈ Arca.Gen.producedRows, r.shape.isDynamic = true ∨
      ∃ d ∈ Arca.Gen.declaredRows, d.provider = r.provider ∧ d.stage = r.stage ∧ d.output = r.output ∧
        conformsShape d.props r.shape = true := by
  rw [← all_rowConforms_iff]
  decide

/-- a site that passes plugin data on does so in a stage whose outputs are the plugin's own (`stepSchema.Outputs()`) -/
theorem dynamic_outputs_are_plugin_declared :
    Arca.Gen.producedRows.all (dynamicRowDeclared Arca.Gen.declaredRows) = true := by decide

/-- each declared engine-generated output has at least one producing site: the list of exceptions is empty -/
theorem every_declared_engine_output_is_produced_somewhere :
    unproduced Arca.Gen.declaredRows Arca.Gen.producedRows = [] := by decide

/-- no site produces an output id that the stage does not declare: the list of exceptions is empty -/
theorem every_produced_output_is_declared :
    undeclared Arca.Gen.declaredRows Arca.Gen.producedRows = [] := by decide

/-- The same at the level of values: whatever value a non-dynamic site hands to the stage-change handler (a map for a map
    literal, a Go struct for a struct literal), what the run loop stores for it is accepted by the declared object. -/
theorem generated_values_accepted :
    ∀ r ∈ Arca.Gen.producedRows, r.shape.isDynamic = false → ∀ v : Val, v.hasShape r.shape = true →
      ∃ d ∈ Arca.Gen.declaredRows, d.provider = r.provider ∧ d.stage = r.stage ∧ d.output = r.output ∧
        objectAccepts d.props (serializedOutput v) = true := by
  intro r hr hdyn v hv
  rcases generated_outputs_conform r hr with h | ⟨d, hd, hp, hs, ho, hc⟩
  · simp [hdyn] at h
  · exact ⟨d, hd, hp, hs, ho, produced_value_accepted hc hv⟩

/-! ### the check has teeth: the defects it was written for -/

/-- the declared properties of foreach `failed.error` -/
def foreachErrorProps : List Prop' := [
  { name := "data", kind := .map, ty := "map<int,*>", required := true },
  { name := "errors", kind := .map, ty := "map<int,string>", required := true }]

/-- F4 (fixed by 6058e27): a site producing the key `messages` where `errors` is declared does not conform -/
theorem messages_key_does_not_conform :
    conformsShape foreachErrorProps (.mapLit [
      { key := "data", kind := .map, src := "dataMap", always := true },
      { key := "messages", kind := .map, src := "errors", always := true }]) = false := by decide

/-- dropping a required key does not conform either -/
theorem missing_required_key_does_not_conform :
    conformsShape foreachErrorProps (.mapLit [
      { key := "data", kind := .map, src := "dataMap", always := true }]) = false := by decide

/-- a value of the wrong kind does not conform -/
theorem wrong_kind_does_not_conform :
    conformsShape [{ name := "enabled", kind := .bool, ty := "bool", required := true }] (.mapLit [
      { key := "enabled", kind := .string, src := "\"true\"", always := true }]) = false := by decide

/-- F3 (fixed by 12879a4): without `serializedOutput` a struct-shaped output is not accepted by its object schema,
    with it it is -/
theorem struct_output_needs_serialization :
    let declared : List Prop' := [{ name := "output", kind := .string, ty := "string", required := true }]
    let v : Val := .gostruct "Crashed" [("output", .str "boom")]
    objectAccepts declared v = false ∧ objectAccepts declared (serializedOutput v) = true := by decide

/-! ### non-vacuity -/

example : Arca.Gen.producedRows.length = 15 ∧ (Arca.Gen.producedRows.filter (fun r => !r.shape.isDynamic)).length = 14 := by decide
example : Arca.Gen.declaredRows.length = 12 ∧ (Arca.Gen.declaredRows.filter (fun d => !d.dynamic)).length = 11 := by decide
example : (Val.map [("cancelled", .bool false), ("close_requested", .bool true)]).hasShape
    (.mapLit [{ key := "cancelled", kind := .bool, src := "", always := true },
              { key := "close_requested", kind := .bool, src := "", always := true }]) = true := by decide

end Arca.Props.C08
