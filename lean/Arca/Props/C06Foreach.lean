/-
C06 on loop steps — cancelling a run whose foreach step has MANY more items than `parallelism`.

`foreach.Close` (called by `terminateAllSteps`) cancels the step's context and waits for the item goroutines.  The bound
of C06 ("grace period plus the steps' closure timeouts") does not mention the number of items, so what is left to do
after the close must not grow with the queue.  Stated over the pool model of `executeSubWorkflows`
(Arca/Model/ForeachPool.lean); the statements are those of Arca/Props/C13.lean, listed here as obligations of C06.

Tie: `queued_items_watch_the_close` is a regenerated fact (the select of a queued item has the `<-r.ctx.Done()` arm); that
a goroutine PARKED in that select is woken on the close arm when the context is cancelled while the semaphore is full is
Go runtime semantics (trusted, DESIGN.md section 11); the monitor `mon_c06_foreach` (lib/props_c13.py) checks on cancelled
runs of the real engine that no queued item begins after the cancel and that the return bound holds with 60..200 queued
items.
-/
import Arca.Props.C13

namespace Arca.Props.C06
open Arca.Model.ForeachPool

variable {α β : Type}

/-- a queued item waits for a slot or for the close, nothing else — and it does watch the close -/
theorem queued_items_watch_the_close :
    Arca.Gen.Skel.step_foreach_provider_runningStep_executeSubWorkflows.filter
        (fun t => Arca.Model.Skel.startsWith "comm(" t || Arca.Model.Skel.startsWith "select" t) =
      ["select{", "comm(sem <- struct{}{}):", "comm(<-r.ctx.Done()):"] :=
  Arca.Props.C13.queued_items_wait_for_slot_or_close_only.1

/-- once the close has reached the queued items, no item run begins any more -/
theorem foreach_close_starts_nothing (P : Pool α β) (sched rest : List Tr) (s₁ s₂ : PoolState α β)
    (h₁ : runSched P (init P) sched = some s₁) (hq : pendingCount s₁ = 0)
    (h₂ : runSched P s₁ rest = some s₂) : ∀ i, Tr.acquire i ∉ rest :=
  Arca.Props.C13.close_parked_no_new_start P sched rest s₁ s₂ h₁ hq h₂

/-- ... and the work left after the close is bounded by `parallelism`, whatever the number of items -/
theorem foreach_close_work_bounded (P : Pool α β) (sched rest : List Tr) (s₁ s₂ : PoolState α β)
    (h₁ : runSched P (init P) sched = some s₁) (hc : s₁.cancelled = true) (hq : pendingCount s₁ = 0)
    (h₂ : runSched P s₁ rest = some s₂) : rest.length ≤ running s₁ ∧ running s₁ ≤ P.p :=
  Arca.Props.C13.close_parked_work_bounded_by_parallelism P sched rest s₁ s₂ h₁ hc hq h₂

/-- 100 items, parallelism 1, closed while item 0 runs: one transition is left, not 100 -/
example : ∀ (P : Pool Nat Nat) (sched rest : List Tr) (s₁ s₂ : PoolState Nat Nat), P.p = 1 →
    runSched P (init P) sched = some s₁ → s₁.cancelled = true → pendingCount s₁ = 0 →
    runSched P s₁ rest = some s₂ → rest.length ≤ 1 := by
  intro P sched rest s₁ s₂ hp h₁ hc hq h₂
  have := foreach_close_work_bounded P sched rest s₁ s₂ h₁ hc hq h₂
  omega

end Arca.Props.C06
