/-
C12 — a plugin step reports a consistent life story under every interleaving.

Property theorems only (helper lemmas live in Arca/Proofs/Plugin*.lean).  Two layers:

* trace layer: every path of `run()` (`pluginPaths`, `foreachPaths`: all notification sequences the provider can emit,
  built from the source's helper functions and the regenerated `markStageFailures` chain) against `LifecycleSpec`,
  the executable statement of "each stage finished at most once, never finished and impossible, outputs declared,
  exactly one completion, only failures afterwards, transitions declared";
* synchronisation layer: the skeleton `syncStep` (flags, channels with the capacities of `Arca.Gen.Consts`, the closed
  atomic, the wait group, the coarse pc of `run()`, the ATP goroutine) for "closing is idempotent, returns, nothing is
  notified afterwards, a second input is refused, providing input never blocks".

Where the unchanged code violates a clause, the NEGATION is proved with a concrete witness (`…_counterexample`) and
the positive statement is kept under the hypothesis that excludes the witness (`…_partial`).  That the model is the
code is the job of the correspondence stream `provider` (trace = one of the paths, call outcomes = skeleton).
-/
import Arca.Proofs.PluginTraces
import Arca.Proofs.PluginSync
import Arca.Proofs.PluginForeach

namespace Arca.Props.C12
open Arca.Gen

section Plugin
open Arca.Model.PluginStep

/-! ## Plugin provider — notification traces -/

/-- Every trace the plugin provider can emit is a legal life story, for ANY list of output ids the plugin declares —
    with the lifecycle's transition relation widened by the one undeclared transition `deploy -> enabling`
    (`pluginUndeclaredEdges`).  See `plugin_traces_legal_counterexample` for the strict lifecycle. -/
theorem plugin_traces_legal_partial (outs : List String) :
    ∀ p ∈ pluginPaths outs, pluginAcceptsRelaxed outs p.2 = true :=
  Arca.Proofs.PluginTraces.all_paths_accepted outs

/-- the same for the concrete output list of the scripted plugin used by the correspondence harness, by evaluation -/
theorem plugin_traces_legal_scripted :
    ∀ p ∈ pluginPaths Arca.Proofs.PluginTraces.scriptedOuts,
      pluginAcceptsRelaxed Arca.Proofs.PluginTraces.scriptedOuts p.2 = true :=
  Arca.Proofs.PluginTraces.scripted_paths_accepted

/-- Against the lifecycle exactly as declared the property is FALSE: `enableStage()` announces `deploy -> enabling`,
    which is not among `deployingLifecycleStage.NextStages` (`starting`, `deploy_failed`, `closed`).  Witness: the path
    of a disabled step, for any plugin. -/
theorem plugin_traces_legal_counterexample (outs : List String) :
    ∃ p ∈ pluginPaths outs, pluginAccepts outs p.2 = false :=
  ⟨_, Arca.Proofs.PluginTraces.disabled_mem outs, Arca.Proofs.PluginTraces.strict_rejects_disabled outs⟩

/-- `deploy -> enabling` is the ONLY transition that is announced without being declared -/
theorem plugin_only_undeclared_transition (outs : List String) :
    ∀ p ∈ pluginPaths outs, ∀ e ∈ LifecycleSpec.transitions p.2, e ∈ pluginEdges ∨ e = ("deploy", "enabling") := by
  intro p hp e he
  have hacc := plugin_traces_legal_partial outs p hp
  have hall := ((Arca.Proofs.PluginTraces.accepts_iff _ _ _ _).mp hacc).2.2.2.2.2.2
  have hmem := List.all_eq_true.mp hall e he
  have hin : e ∈ pluginEdges ++ pluginUndeclaredEdges := List.contains_iff_mem.mp hmem
  rcases List.mem_append.mp hin with h | h
  · exact Or.inl h
  · right
    simpa [pluginUndeclaredEdges] using h

/-- exactly one completion is reported on every path -/
theorem plugin_exactly_one_completion (outs : List String) :
    ∀ p ∈ pluginPaths outs, (p.2.filter LifecycleSpec.isComplete).length = 1 := by
  intro p hp
  have hacc := plugin_traces_legal_partial outs p hp
  have h4 := ((Arca.Proofs.PluginTraces.accepts_iff _ _ _ _).mp hacc).2.2.2.1
  simpa using h4

/-- after the completion only stage failures are reported, and no stage is both finished and impossible -/
theorem plugin_nothing_but_failures_after_completion (outs : List String) :
    ∀ p ∈ pluginPaths outs,
      (LifecycleSpec.afterComplete p.2).all LifecycleSpec.isFail = true ∧
      LifecycleSpec.noDup (LifecycleSpec.finishedStages p.2) = true ∧
      (LifecycleSpec.finishedStages p.2).all (fun s => !(LifecycleSpec.failedStages p.2).contains s) = true := by
  intro p hp
  have hacc := (Arca.Proofs.PluginTraces.accepts_iff _ _ _ _).mp (plugin_traces_legal_partial outs p hp)
  exact ⟨hacc.2.2.2.2.1, hacc.1, hacc.2.1⟩

/-- `markStageFailures` is only ever entered at a case the (regenerated) switch has: no path hits `panic("unknown
    StageID")` -/
theorem plugin_mark_stage_failures_defined :
    ∀ first ∈ ["enabling", "starting", "running", "outputs"], (chainFrom pluginFailChain first).isSome = true := by
  decide

/-! ## Plugin provider — synchronisation skeleton -/

/-- Providing deploy, enabling or starting input never blocks, in any reachable state, with or without cancel handler. -/
theorem provide_never_blocks (handler : Bool) (s : SyncState) (hr : Reachable handler s) :
    syncStep handler s .provideDeploy ≠ .wouldBlock ∧
    syncStep handler s .provideEnabling ≠ .wouldBlock ∧
    ∀ valid, syncStep handler s (.provideStarting valid) ≠ .wouldBlock :=
  ⟨Arca.Proofs.PluginSync.provideDeploy_not_blocked handler s,
   Arca.Proofs.PluginSync.provideEnabling_not_blocked handler s (Arca.Proofs.PluginSync.reachable_inv handler s hr),
   Arca.Proofs.PluginSync.provideStarting_not_blocked handler s⟩

/-- A stop request (`cancelled` input) never blocks: the stop condition is accepted once (`stopInputAvailable`), so at
    most one cancel signal is sent through it and one by `run()` itself, and `signalToStep` (capacity read from the
    source) has room for both. -/
theorem provide_cancelled_never_blocks (handler : Bool) (s : SyncState) (hr : Reachable handler s) (truthy : Bool) :
    syncStep handler s (.provideCancelled truthy) ≠ .wouldBlock :=
  Arca.Proofs.PluginSync.provideCancelled_not_blocked handler s truthy
    (Arca.Proofs.PluginSync.reachable_inv handler s hr)

/-- the invariant behind it: never more than two cancel signals, never more waiting in the channel than were sent -/
theorem cancel_signals_bounded (handler : Bool) (s : SyncState) (hr : Reachable handler s) :
    s.cancelSends ≤ 2 ∧ s.sigOcc ≤ s.cancelSends ∧ s.sigOcc < pluginChan_signalToStep := by
  have hi := Arca.Proofs.PluginSync.reachable_inv handler s hr
  refine ⟨?_, hi.sig, Arca.Proofs.PluginSync.sig_room s hi⟩
  refine Nat.le_trans hi.stopBound ?_
  split <;> split <;> omega

/-- the execution that fills `signalToStep`: deploy, enable, start, then ten stop requests nobody drains -/
def cancelFlood : List Act :=
  [.runBegin, .provideDeploy, .recvDeploy, .deployOk, .provideEnabling, .recvEnabled true, .provideStarting true, .startOk] ++
  List.replicate pluginChan_signalToStep (.provideCancelled true)

/-- WITHOUT the once-only flag (the provider before the stop-once repair, modelled by forgetting `stopAvail` before
    every action) the clause is FALSE: each stop request sends on `signalToStep` with a plain blocking send while
    `r.lock` is held; when the ATP client does not drain the channel the eleventh blocks. -/
theorem provide_cancelled_may_block_counterexample :
    ∃ s, executeForgetting true syncInit cancelFlood = some s ∧
      syncStep true (forgetStop s) (.provideCancelled true) = .wouldBlock := by
  refine ⟨_, rfl, ?_⟩
  decide

/-- No call into the step and no move of its goroutines panics; in particular a stop request against a step WITHOUT
    cancel signal handler (which used to dereference the nil handler in `cancelStep`, fixed in 691f1ef) only cancels
    the context. -/
theorem provide_cancelled_never_panics (handler : Bool) (s : SyncState) (a : Act) (site : String) :
    syncStep handler s a ≠ .panic site :=
  Arca.Proofs.PluginSync.never_panics handler s a site

/-- what the stop request does instead, once the step runs: the context is cancelled, nothing is sent -/
theorem provide_cancelled_without_handler_cancels_context :
    ∃ s s', execute false syncInit
        [.runBegin, .provideDeploy, .recvDeploy, .deployOk, .provideEnabling, .recvEnabled true, .provideStarting true, .startOk]
        = some s ∧
      syncStep false s (.provideCancelled true) = .next s' ∧ s'.ctxDone = true ∧ s'.cancelSends = 0 := by
  refine ⟨_, _, rfl, rfl, ?_, ?_⟩ <;> decide

/-- Once an input was accepted, every later attempt to provide it is refused — in every state reachable afterwards. -/
theorem second_input_refused (handler : Bool) (s s1 s2 : SyncState) (_hr : Reachable handler s) :
    (syncStep handler s .provideDeploy = .next s1 → ReachableFrom handler s1 s2 →
      syncStep handler s2 .provideDeploy = .refused s2) ∧
    (syncStep handler s .provideEnabling = .next s1 → ReachableFrom handler s1 s2 →
      syncStep handler s2 .provideEnabling = .refused s2) ∧
    (∀ v v', syncStep handler s (.provideStarting v) = .next s1 → ReachableFrom handler s1 s2 →
      syncStep handler s2 (.provideStarting v') = .refused s2) ∧
    (∀ v v', syncStep handler s (.provideCancelled v) = .next s1 → ReachableFrom handler s1 s2 →
      syncStep handler s2 (.provideCancelled v') = .refused s2) := by
  refine ⟨?_, ?_, ?_, ?_⟩
  · intro h1 h2
    exact Arca.Proofs.PluginSync.provideDeploy_refused handler s2
      ((Arca.Proofs.PluginSync.flags_mono_star handler s1 s2 h2).1
        (Arca.Proofs.PluginSync.provideDeploy_sets handler s s1 h1))
  · intro h1 h2
    exact Arca.Proofs.PluginSync.provideEnabling_refused handler s2
      ((Arca.Proofs.PluginSync.flags_mono_star handler s1 s2 h2).2.1
        (Arca.Proofs.PluginSync.provideEnabling_sets handler s s1 h1))
  · intro v v' h1 h2
    exact Arca.Proofs.PluginSync.provideStarting_refused handler s2 v'
      ((Arca.Proofs.PluginSync.flags_mono_star handler s1 s2 h2).2.2.1
        (Arca.Proofs.PluginSync.provideStarting_sets handler s s1 v h1))
  · intro v v' h1 h2
    exact Arca.Proofs.PluginSync.provideCancelled_refused handler s2 v'
      ((Arca.Proofs.PluginSync.flags_mono_star handler s1 s2 h2).2.2.2.2
        (Arca.Proofs.PluginSync.provideCancelled_sets handler s s1 v h1))

/-- Closing is idempotent: a Close or ForceClose that finds the step closed changes nothing and only waits. -/
theorem close_idempotent (handler : Bool) (s : SyncState) (hr : Reachable handler s) (hc : s.closed = true) :
    syncStep handler s .closeCall = .next { s with closeWaiting := s.closeWaiting + 1 } ∧
    syncStep handler s .forceCloseCall = .next { s with closeWaiting := s.closeWaiting + 1 } :=
  Arca.Proofs.PluginSync.closeCall_idem handler s (Arca.Proofs.PluginSync.reachable_inv handler s hr) hc

/-- Closing may be requested at any moment: the call is enabled in every state, and it never blocks before the wait. -/
theorem close_always_possible (handler : Bool) (s : SyncState) :
    (∃ s', syncStep handler s .closeCall = .next s') ∧ (∃ s', syncStep handler s .forceCloseCall = .next s') :=
  ⟨⟨_, rfl⟩, ⟨_, rfl⟩⟩

/-- A close call returns only when the wait group is at zero, which (invariant
    `wg = [run() not done] + [ATP goroutine alive]`) means `run()` has made its last move: no notification starts after
    any Close/ForceClose call has returned. -/
theorem no_notification_after_close_returns (handler : Bool) (s : SyncState) (hr : Reachable handler s) :
    s.lateNotif = false ∧ (0 < s.closeReturned → s.pc = .done ∧ s.atp = false) :=
  ⟨(Arca.Proofs.PluginSync.reachable_inv handler s hr).late, (Arca.Proofs.PluginSync.reachable_inv handler s hr).returned⟩

/-- the wait-group invariant itself -/
theorem wait_group_counts_goroutines (handler : Bool) (s : SyncState) (hr : Reachable handler s) :
    s.wg = (if s.pc = .done then 0 else 1) + (if s.atp then 1 else 0) :=
  (Arca.Proofs.PluginSync.reachable_inv handler s hr).wg

/-- Closing always returns (E1: the deployer returns, E2: `Execute` returns once the container was closed, E3: the
    closure timer fires — these are the moves `deployOk`, `atpReturn`, `timer`): from every reachable state in which
    the context is cancelled, the internal moves alone — no further
    call from outside — reach a state where no caller waits and the wait group is zero; and EVERY internal move lowers
    a natural-number measure, so every schedule of them is finite. -/
theorem close_returns (handler : Bool) (s : SyncState) (hr : Reachable handler s) (hctx : s.ctxDone = true) :
    (∃ acts s', (∀ a ∈ acts, a ∈ internalActs) ∧ execute handler s acts = some s' ∧ s'.closeWaiting = 0 ∧ s'.wg = 0) ∧
    (∀ a ∈ internalActs, ∀ s', syncStep handler s a = .next s' → closeRank s' < closeRank s) := by
  have hi := Arca.Proofs.PluginSync.reachable_inv handler s hr
  refine ⟨?_, ?_⟩
  · exact Arca.Proofs.PluginSync.closing_terminates handler (closeRank s) s (Nat.le_refl _) ⟨hi, hctx, fun _ => Arca.Proofs.PluginSync.sig_room s hi⟩
  · intro a ha s' hs
    exact Arca.Proofs.PluginSync.internal_decreases handler s s' a ha hs hi

/-- a close request puts the step into exactly that situation -/
theorem close_cancels_context (handler : Bool) (s s' : SyncState) :
    (syncStep handler s .closeCall = .next s' → s'.ctxDone = true ∧ s'.closed = true) ∧
    (syncStep handler s .forceCloseCall = .next s' → s'.ctxDone = true ∧ s'.closed = true) := by
  constructor <;> intro h <;> simp only [syncStep] at h <;> cases h <;> simp

end Plugin

/-! ## Foreach provider -/

section Foreach
open Arca.Model.ForeachStep

/-- FULL STRENGTH: every trace the foreach provider can emit is a legal life story against its lifecycle exactly as
    declared (since `closed` is declared as a next stage of `execute`). -/
theorem foreach_traces_legal : ∀ p ∈ foreachPaths, foreachAccepts p.2 = true :=
  Arca.Proofs.PluginTraces.foreach_paths_accepted

/-- every transition the foreach provider makes is declared -/
theorem foreach_all_transitions_declared :
    ∀ p ∈ foreachPaths, ∀ e ∈ Arca.Model.PluginStep.LifecycleSpec.transitions p.2, e ∈ foreachEdges := by
  decide

/-- Against the OLD lifecycle table (literal copy `foreachStagesBeforeExecuteClosed`) the property was false: closed
    while waiting for the items the step goes `execute -> closed` (`runOnInput` -> `closedEarly`), and `closed` was
    declared as a next stage of `enabling` only. -/
theorem foreach_traces_legal_counterexample_old_lifecycle :
    ∃ p ∈ foreachPaths, foreachAcceptsBeforeExecuteClosed p.2 = false :=
  ⟨("closed-waiting-execute", fpath [enterExecute, closedEarly "outputs" true]), by decide,
   Arca.Proofs.PluginTraces.foreach_old_lifecycle_rejects_closed_waiting_execute⟩

/-- the repair is exactly that one edge, with a completion dependency (an unresolvable `execute` never makes `closed`
    unresolvable) -/
theorem foreach_lifecycle_differs_by_execute_closed :
    Arca.Gen.foreachStages = foreachStagesBeforeExecuteClosed.map (fun r =>
      if r.id = "execute" then { r with next := ("closed", Arca.Model.Dep.cand) :: r.next } else r) :=
  Arca.Proofs.PluginTraces.foreach_lifecycle_change

/-- exactly one completion is reported on EVERY path of the foreach `run()` (F10b fixed in 2e2fefe) -/
theorem foreach_exactly_one_completion :
    ∀ p ∈ foreachPaths, (p.2.filter Arca.Model.PluginStep.LifecycleSpec.isComplete).length = 1 := by
  decide

/-- the same on the skeleton: whenever `run()` has ended it has reported exactly one completion, never more before -/
theorem foreach_run_ends_with_one_completion (s : SyncState) (hr : Reachable s) :
    s.completions ≤ 1 ∧ (s.pc = .done → s.completions = 1) := by
  have h := (Arca.Proofs.PluginForeach.reachable_inv s hr).compl
  constructor
  · rw [h]; split <;> decide
  · intro hd
    rw [h, hd]
    decide

/-- Providing input to the foreach step never blocks and never sends on a closed channel: `Close` closes
    `executeInput` under `r.lock` (c9cdc4d), which a provider holds from its `closed` check to its send. -/
theorem foreach_provide_never_blocks (s : SyncState) (hr : Reachable s) :
    (syncStep s .provideEnabling ≠ .wouldBlock ∧ syncStep s .provideExecuteSend ≠ .wouldBlock ∧
      ∀ v, syncStep s (.provideExecuteBegin v) ≠ .wouldBlock) ∧
    (∀ a site, syncStep s a ≠ .panic site) := by
  have hi := Arca.Proofs.PluginForeach.reachable_inv s hr
  refine ⟨⟨?_, ?_, ?_⟩, ?_⟩
  · simp only [syncStep]
    repeat' split
    all_goals first | simp | skip
    rename_i _ _ hav hocc
    have h0 := hi.enabled0 (by simpa using hav)
    exact absurd (by rw [h0]; decide : s.enabledOcc < foreachChan_enabledInput) hocc
  · simp only [syncStep]
    repeat' split
    all_goals first | simp | skip
    rename_i hp _ hocc
    have h0 := (hi.pending (by simpa using hp)).1
    exact absurd (by rw [h0]; decide : s.execOcc < foreachChan_executeInput) hocc
  · intro v
    simp only [syncStep]
    repeat' split
    all_goals simp
  · intro a site
    cases a <;> simp only [syncStep, runMove] <;> (repeat' split) <;> (try simp)
    -- provideExecuteSend with the channel closed: excluded by the invariant
    rename_i hp hcl
    have h2 := (hi.pending (by simpa using hp)).2.2
    simp [h2] at hcl

/-- the close of `executeInput` waits for a provider that is between its check and its send -/
theorem foreach_close_waits_for_pending_provider (s : SyncState) (hp : s.provPending = true) :
    syncStep s .closeReturnFirst = .disabled := by
  simp [syncStep, hp]

/-- No notification starts after a Close/ForceClose call has returned, and the wait group counts `run()` from the
    moment `Start` returns (`rs.wg.Add(1)` before `go rs.run()`, c9cdc4d) — in EVERY reachable state. -/
theorem foreach_no_notification_after_close_returns (s : SyncState) (hr : Reachable s) :
    s.lateNotif = false ∧ (0 < s.closeReturned → s.pc = .done) ∧ s.wg = (if s.pc = .done then 0 else 1) :=
  ⟨(Arca.Proofs.PluginForeach.reachable_inv s hr).late, (Arca.Proofs.PluginForeach.reachable_inv s hr).returned,
   (Arca.Proofs.PluginForeach.reachable_inv s hr).wg⟩

/-- a Close right after Start cannot return before `run()` has run -/
theorem foreach_close_right_after_start_waits :
    ∃ s, execute syncInit [.closeCall] = some s ∧ syncStep s .closeReturnFirst = .disabled := by
  refine ⟨_, rfl, ?_⟩
  decide

/-- closing is idempotent -/
theorem foreach_close_idempotent (s : SyncState) (hc : s.closed = true) :
    syncStep s .closeCall = .next { s with closeWaiting := s.closeWaiting + 1 } := by
  simp [syncStep, hc]

/-- while the step is not closed a second enabling / execute input is refused … -/
theorem foreach_second_input_refused_partial (s : SyncState) (hnc : s.closed = false) (hl : s.provPending = false) :
    (s.enabledAvail = true → syncStep s .provideEnabling = .refused s) ∧
    (s.execAvail = true → syncStep s (.provideExecuteBegin true) = .refused s) := by
  constructor <;> intro h <;> simp [syncStep, hnc, hl, h]

/-- … once it is closed every input — first, second, valid or not — is dropped with a nil error -/
theorem foreach_input_after_close_ignored_counterexample (s : SyncState) (hc : s.closed = true)
    (hl : s.provPending = false) (v : Bool) :
    syncStep s .provideEnabling = .ignored s ∧ syncStep s (.provideExecuteBegin v) = .ignored s := by
  constructor <;> simp [syncStep, hc, hl]

end Foreach

/-! ## non-vacuity -/

section NonVacuity
open Arca.Model.PluginStep

/-- the skeleton does run a step to completion and lets a close call return -/
example : (execute true syncInit
    [.runBegin, .provideDeploy, .recvDeploy, .deployOk, .provideEnabling, .recvEnabled true, .provideStarting true, .startOk,
     .atpReturn, .recvResult, .runExit, .closeCall, .closeReturn]).map (fun s => (s.pc, s.wg, s.closeReturned, s.lateNotif))
    = some (.done, 0, 1, false) := by decide

/-- the strict acceptor does accept something (a step closed before it was deployed) and rejects a double completion -/
example : pluginAccepts [] (path [deployStageEntry, closedEarly "enabling" true]) = true := by decide
example : pluginAcceptsRelaxed ["success"]
    (path (upToRunning ++ [runResultOk "success", completeStep "outputs" (some "success")])) = false := by decide
example : pluginAcceptsRelaxed ["success"] (path (upToRunning ++ [runResultOk "nope"])) = false := by decide

end NonVacuity

end Arca.Props.C12
