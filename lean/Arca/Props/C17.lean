/-
C17 — no data races in the engine on any explored schedule.

Property theorems only (trace model and `lockset_sound`: Arca/Model/Lockset.lean).

What is proved
* `lockset_sound` (re-exported below): in every well-formed trace two accesses of one location by different threads, both
  made while holding one common mutex, are ordered by happens-before.  Generic, once and for all.
* `engine_access_table_safe`: over the access table regenerated from the source on every run (`Arca.Gen.accessTable`, fact
  class G10: every read / write of a field of `loopState`, plugin `runningStep`, foreach `runningStep` — and of local
  variables shared with goroutine literals — with the lock state the extractor computed): every access, outside the
  constructor literal, of a datum that is written after construction is made with the owning mutex held — except the
  entries of the hand-written allowlist `Arca.Expected.accessExceptions` and the one named exclusion `knownRace_cancelled`.
  Removing a Lock around such an access, or adding an unlocked access, makes the kernel reject this theorem.
* `lockedOnEntry_consistent`, `locked_is_held_or_entry`: "the caller holds the lock" is never taken from a comment; the
  assignment emitted by the extractor is re-checked here to be a fixpoint of the extracted call graph (every call site of
  such a function is inside a locked region or inside another such function, none is a `go` statement, the function is not
  reachable from outside its file), and every row's `locked` flag is `held locally ∨ (caller's lock not released ∧ entered
  locked)`.
* `engine_locked_accesses_ordered`: the composition — in any well-formed trace that conforms to the table, two accesses
  of the same mutable datum whose rows are neither excepted nor the known race are ordered by happens-before.

What is NOT proved (validated dynamically only, by the race-detector build of the harness, stream `racesuite`)
* the allowlisted accesses: each relies on an ordering the trace model does not contain (one goroutine only, `go`
  statement, WaitGroup) — see the justification strings in Arca/Expected/Access.lean;
* `knownRace_cancelled`: the read of `r.cancelled` in plugin `closedEarly` without the step lock, while
  `provideCancelledInput` writes it under the lock on another goroutine: suspected genuine race (finding F10d).  It is NOT
  allowlisted: it is excluded by name so that the statement stays visible;
* that a real execution *conforms* to the table (`Conforms`): the extractor's lock-state scan is intra-procedural and
  syntactic.  Not tracked: aliases of field contents kept in local variables (e.g. the inner maps of `l.data`), the internal
  state of objects reached through a field by a method call (dgraph graph, logger, ATP client: they have their own locks),
  atomics / channels / wait groups / contexts (counted as synchronising operations, never as plain accesses), safe
  publication of the immutable fields (constructor literal before `go x.run()` / before the pointer is returned);
* package-level state: `objectIDRandom` in internal/infer/infer.go (`Arca.Gen.packageVarUses`) is used without
  synchronisation at Prepare time; overlapping preparations are outside this property's quantifier (note, not a finding).
-/
import Arca.Model.Lockset
import Arca.Gen.Access
import Arca.Gen.Unknown
import Arca.Expected.Access
import Arca.Gen.Frame

namespace Arca.Props.C17
open Arca.Gen Arca.Expected Arca.Model.Lockset

/-! ### the generic part -/

/-- re-export: two accesses under one common mutex are ordered (Arca.Model.Lockset.lockset_sound) -/
theorem lockset_sound (tr : Trace) (hw : WF tr) (i j : Nat) (hij : i < j) (t₁ t₂ : Tid) (x : Loc) (m : Mid)
    (e₁ e₂ : Ev) (hi : tr[i]? = some e₁) (hj : tr[j]? = some e₂)
    (ha₁ : e₁.accesses t₁ x) (ha₂ : e₂.accesses t₂ x) (hne : t₁ ≠ t₂)
    (hl₁ : holdsAt tr i t₁ m) (hl₂ : holdsAt tr j t₂ m) : HB tr i j :=
  Arca.Model.Lockset.lockset_sound tr hw i j hij t₁ t₂ x m e₁ e₂ hi hj ha₁ ha₂ hne hl₁ hl₂

/-- a location all of whose accesses are made under one mutex has no data race -/
theorem lockset_discipline_race_free (tr : Trace) (hw : WF tr) (x : Loc) (m : Mid)
    (hd : ∀ i t e, tr[i]? = some e → e.accesses t x → holdsAt tr i t m) :
    ∀ i j, ¬ (Race tr i j ∧ ∃ t e, tr[i]? = some e ∧ e.accesses t x) :=
  Arca.Model.Lockset.lockset_discipline_race_free tr hw x m hd

/-! ### the access table of the engine -/

/-- plain data: a field that is not a mutex / atomic / channel / wait group / context and not immutable after construction,
    or a local variable shared with a goroutine literal -/
def isData (r : AccessRow) : Bool := r.kind == "plain" || r.kind == "local"

/-- the datum (file, field) is written somewhere outside the constructor literal -/
def mutated (tbl : List AccessRow) (file field : String) : Bool :=
  tbl.any fun r => r.file == file && r.field == field && r.write && !r.ctor

/-- the row is covered by an allowlist entry (same file, function, field and direction) -/
def excepted (exc : List AccessException) (r : AccessRow) : Bool :=
  exc.any fun e => e.file == r.file && e.func == r.func && e.field == r.field && e.write == r.write

/-- F10d: plugin `closedEarly` reads `r.cancelled` without the step lock.  Suspected genuine race; not allowlisted. -/
def knownRace_cancelled (r : AccessRow) : Bool :=
  r.file == pluginFile && r.func == "runningStep.closedEarly" && r.field == "cancelled" && !r.write

def rowSafe (tbl : List AccessRow) (exc : List AccessException) (r : AccessRow) : Bool :=
  !isData r || r.ctor || !mutated tbl r.file r.field || r.locked || excepted exc r || knownRace_cancelled r

def tableSafe (tbl : List AccessRow) (exc : List AccessException) : Bool := tbl.all (rowSafe tbl exc)

theorem tableSafe_checked : tableSafe accessTable accessExceptions = true := by decide +kernel

/-- Every read and every write, outside the constructor literal, of engine data that is written after construction is
    made with the owning mutex held — or is allowlisted (dynamic validation only) — or is the known race F10d. -/
theorem engine_access_table_safe :
    ∀ r ∈ accessTable, isData r = true → r.ctor = false → mutated accessTable r.file r.field = true →
      r.locked = true ∨ excepted accessExceptions r = true ∨ knownRace_cancelled r = true := by
  intro r hr hd hc hm
  have h := List.all_eq_true.mp tableSafe_checked r hr
  simp only [rowSafe, hd, hc, hm, Bool.not_true, Bool.false_or, Bool.or_eq_true] at h
  rcases h with (h | h) | h
  · exact Or.inl h
  · exact Or.inr (Or.inl h)
  · exact Or.inr (Or.inr h)

/-! ### "the caller holds the lock" is computed, and the computation is checked here -/

def entryLocked (file fn : String) : Bool :=
  lockedOnEntry.any fun (f, g, b) => f == file && g == fn && b

/-- the function can be entered from outside the call graph of its file: exported method or method of another type,
    referenced from a sibling file or as a method value, callback literal, goroutine literal -/
def externallyReachable (file fn : String) : Bool :=
  funcInfo.any fun (f, g, root, ext, _) => f == file && g == fn && (ext || root == "callback" || root == "go-literal")

def siteOk (c : CallSite) : Bool :=
  !c.viaGo && (c.held || (c.inherit && entryLocked c.file c.caller))

def entryConsistent : Bool :=
  lockedOnEntry.all fun (f, g, b) =>
    !b || (!externallyReachable f g
            && callSites.any (fun c => c.file == f && c.callee == g)
            && callSites.all (fun c => !(c.file == f && c.callee == g) || siteOk c))

/-- every function marked "entered with the lock held" has a call site, is not reachable from outside, and each of its
    call sites is in a locked region or in a function that is itself entered with the lock held; none is a `go` statement -/
theorem lockedOnEntry_consistent : entryConsistent = true := by decide +kernel

/-- a row counts as locked exactly when the lock was taken locally, or the function was entered with it and has not
    released it -/
theorem locked_is_held_or_entry :
    (accessTable.all fun r => r.locked == (r.held || (r.inherit && entryLocked r.file r.func))) = true := by
  decide +kernel

/-- a function whose comment promises "the caller holds the lock" but which is also called without it -/
def contractGap_reportError (file fn : String) : Bool := file == wfFile && fn == "loopState.reportError"

/-- the lock contracts written in comments ("must have the step mutex locked", "lock should be acquired by the caller",
    "called with the run lock held") agree with the computed call graph — except `reportError`, which Execute also calls
    without the run lock (it only touches a channel and the immutable logger) -/
theorem lock_contracts_respected :
    (funcInfo.all fun (f, g, _, _, contract) => !contract || entryLocked f g || contractGap_reportError f g) = true := by
  decide +kernel

/-- the extractor met no statement or expression shape it does not know in the three files -/
theorem access_shapes_recognised : (Arca.Gen.unknown.all fun s => !s.startsWith "access:") = true := by decide +kernel

/-! ### composition: conforming executions have no race on the lock-protected data -/

/-- The (trusted, dynamically validated) tie between an execution and the table, for one object with mutex `m`:
    `row i = some r` says that event `i` of the trace was produced by the statement of table row `r`; then the event is an
    access of the location of that row's datum, and if the row is `locked` the executing thread holds `m` at that moment. -/
structure Conforms (tr : Trace) (m : Mid) (loc : String → String → Loc) (row : Nat → Option AccessRow) : Prop where
  inTable : ∀ i r, row i = some r → r ∈ accessTable
  isAccess : ∀ i r, row i = some r →
    ∃ t e, tr[i]? = some e ∧ e.accesses t (loc r.file r.field) ∧ (r.locked = true → holdsAt tr i t m)

/-- a row to which the lock discipline applies without exception -/
def disciplined (r : AccessRow) : Prop :=
  isData r = true ∧ r.ctor = false ∧ mutated accessTable r.file r.field = true ∧
    excepted accessExceptions r = false ∧ knownRace_cancelled r = false

theorem disciplined_locked {r : AccessRow} (hr : r ∈ accessTable) (h : disciplined r) : r.locked = true := by
  obtain ⟨hd, hc, hm, hx, hk⟩ := h
  rcases engine_access_table_safe r hr hd hc hm with h | h | h
  · exact h
  · rw [hx] at h; cases h
  · rw [hk] at h; cases h

/-- In a well-formed trace that conforms to the table, two accesses of the same mutable datum of one object whose rows are
    neither allowlisted nor the known race are ordered by happens-before: no data race between them. -/
theorem engine_locked_accesses_ordered (tr : Trace) (hw : WF tr) (m : Mid) (loc : String → String → Loc)
    (row : Nat → Option AccessRow) (hc : Conforms tr m loc row)
    (i j : Nat) (hij : i ≠ j) (r₁ r₂ : AccessRow) (h₁ : row i = some r₁) (h₂ : row j = some r₂)
    (hfile : r₁.file = r₂.file) (hfield : r₁.field = r₂.field)
    (hd₁ : disciplined r₁) (hd₂ : disciplined r₂) : HB tr i j ∨ HB tr j i := by
  obtain ⟨t₁, e₁, hi, ha₁, hl₁⟩ := hc.isAccess i r₁ h₁
  obtain ⟨t₂, e₂, hj, ha₂, hl₂⟩ := hc.isAccess j r₂ h₂
  have hk₁ := hl₁ (disciplined_locked (hc.inTable i r₁ h₁) hd₁)
  have hk₂ := hl₂ (disciplined_locked (hc.inTable j r₂ h₂) hd₂)
  rw [← hfile, ← hfield] at ha₂
  exact locked_accesses_ordered tr hw i j hij t₁ t₂ _ m e₁ e₂ hi hj ha₁ ha₂ hk₁ hk₂

/-! ### non-vacuity -/

-- the discipline applies to something: fields of all three structures are mutated after construction
example : mutated accessTable wfFile "outputDone" = true ∧ mutated accessTable pluginFile "state" = true ∧
    mutated accessTable foreachFile "currentState" = true := by
  decide +kernel

-- an unlocked read of `state` added to the table (a dropped lock, a new unlocked access) is rejected
example : tableSafe (⟨pluginFile, "runningStep.State", "r", "state", "read", false, false, true, false, "plain", 784, false, false⟩
    :: accessTable) accessExceptions = false := by decide +kernel

-- the same row with the lock held is accepted
example : tableSafe (⟨pluginFile, "runningStep.State", "r", "state", "read", false, true, true, true, "plain", 784, false, false⟩
    :: accessTable) accessExceptions = true := by decide +kernel

-- the allowlist is needed: without it the table is rejected
example : tableSafe accessTable [] = false := by decide +kernel

-- the known race is not hidden by the allowlist
example : accessExceptions.all (fun e => !(e.file == pluginFile && e.field == "cancelled")) = true := by decide

-- some functions really are entered with the lock held, and the fixpoint is not the trivial all-false assignment
example : entryLocked wfFile "loopState.notifySteps" = true ∧ entryLocked pluginFile "runningStep.cancelStep" = true ∧
    entryLocked pluginFile "runningStep.closedEarly" = false := by decide +kernel

/-- Objects outside the access table that overlapping runs share: the one-of / optional expression objects of internal/infer
    stored in the prepared workflow's DAG items.  The run loop calls their methods under the per-run lock only, so they must
    be read-only: no method assigns through its receiver (regenerated from internal/infer on every run). -/
theorem shared_expression_objects_are_read_only : Arca.Gen.sharedExprReceiverWrites = [] := by decide

end Arca.Props.C17
