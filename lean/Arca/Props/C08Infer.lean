/-
C08 — the returned workflow output conforms to the workflow's output schema, for outputs whose schema is INFERRED
(`internal/infer/infer.go`, anchor "output schema inference"; `handleOutput` re-validates the returned data with that schema and
reports "bug: output schema cannot unserialize output data" when it does not fit).

Model: `Arca.Model.Infer` (literal data; see its header for the fragment), tied to the source by the pins of
`infer.Type` / `sliceType` / `sliceItemType` / `objectType` / `mapType` / `Scope` / `OutputSchema` and by the differential
`vharness infer | arcadrv infer` (the real `infer.Type` and the real `Unserialize` of the inferred schema on generated typed
literals, compared with `infer` / `accepts`).

The full-strength statement — "the schema inferred from a value accepts that value" — is FALSE of the model and of the code
(`inferred_schema_can_reject_its_own_value`, replayed against the real engine: known finding C08:inferred-list-item-type-from-first-item):
`sliceItemType` takes the item type of a list from its first item and compares only `TypeID()` for the others.  What is proved is
the statement under the decidable hypothesis `homog` (every list's first-item type accepts the other items), which is exactly the
condition the code does not check.
-/
import Arca.Proofs.InferSound
import Arca.Proofs.InferComplete
import Arca.Proofs.InferCompared

namespace Arca.Props.C08Infer
open Arca.Model.Infer Arca.Proofs.InferSound

/-- the schema inferred for a homogeneous literal accepts the literal: `handleOutput` cannot report its 'bug:' error for it.
    `_partial`: the hypothesis `homog` is missing from the property (see `inferred_schema_can_reject_its_own_value`). -/
theorem inferred_schema_accepts_homogeneous_value_partial (v : Lit) (t : ITy)
    (hi : infer v = some t) (hw : wf v = true) (hh : homog v = true) : accepts t v = true :=
  sound_lit v t hi hw hh

/-- every field of an object literal gets a property of its own, in order, typed by its own value: objects as such are never the
    source of a mismatch (no homogeneity is needed ACROSS fields, only inside the lists below them) -/
theorem inferred_object_accepts_fields_partial (fs : Fields) (ps : IProps)
    (hi : inferFields fs = some ps) (hw : wfFields fs = true) (hh : homogFields fs = true) : acceptsObj ps fs = true :=
  sound_fields fs ps hi hw hh

/-- `foundType` is the type of the FIRST item whatever follows: the later items never refine it -/
theorem list_item_type_is_first_items (x : Lit) (rest : Lits) (t0 t : ITy)
    (hx : infer x = some t0) (hl : infer (.list (.cons x rest)) = some t) : t = .list t0 := by
  simp only [infer, inferItems, hx] at hl
  cases hr : inferItems rest (some t0) with
  | none => simp [hr] at hl
  | some r =>
    have := inferItems_found rest t0 r hr
    subst this
    simp only [hr] at hl
    cases hl; rfl

/-- what the real check (`foundType.TypeID() != types[i].TypeID()`) does guarantee: a value the item type accepts has the
    same TypeID — the converse is what fails -/
theorem accepted_item_has_same_type_id (t u : ITy) (v : Lit) (ha : accepts t v = true) (hi : infer v = some u) :
    t.tid = u.tid := accepts_tid t u v ha hi

/-- the witness: `[{a: 1}, {b: "x"}]` (any two objects with different key sets) -/
def witness : Lit :=
  .list (.cons (.obj (.cons "a" (.int (-9223372036854775808) 9223372036854775807 1) .nil))
        (.cons (.obj (.cons "b" (.str "x") .nil)) .nil))

/-- COUNTEREXAMPLE to the full-strength statement: inference succeeds, the value is well-formed, no cross-kind conversion is
    involved, and the inferred schema rejects the value it was inferred from. -/
theorem inferred_schema_can_reject_its_own_value :
    ∃ v t, infer v = some t ∧ wf v = true ∧ leafConsistent t v = true ∧ accepts t v = false ∧ homog v = false :=
  ⟨witness, .list (.obj (.cons "a" (.int (-9223372036854775808) 9223372036854775807) .nil)), by
    refine ⟨?_, ?_, ?_, ?_, ?_⟩ <;> simp [witness, infer, inferItems, inferFields, ITy.tid, wf, wfItems, wfFields,
      leafConsistent, leafConsistentAll, leafConsistentObj, accepts, acceptsAll, acceptsObj, homog, homogItems, homogFields]⟩

/-- the same for nested lists: `[[1], [{}]]` -/
theorem inferred_schema_can_reject_nested_list :
    ∃ v t, infer v = some t ∧ accepts t v = false :=
  ⟨.list (.cons (.list (.cons (.bool true) .nil)) (.cons (.list (.cons (.obj .nil) .nil)) .nil)), .list (.list .bool), by
    refine ⟨?_, ?_⟩ <;> simp [infer, inferItems, inferFields, ITy.tid, accepts, acceptsAll]⟩

/-- non-vacuity: a non-trivial literal (list of two objects with the same keys, each holding a list) meets every hypothesis of
    `inferred_schema_accepts_homogeneous_value_partial` -/
def sample : Lit :=
  .list (.cons (.obj (.cons "k" (.list (.cons (.str "p") .nil)) (.cons "n" (.int 0 255 7) .nil)))
        (.cons (.obj (.cons "k" (.list .nil) (.cons "n" (.int 0 255 255) .nil))) .nil))

example : (infer sample).isSome = true ∧ wf sample = true ∧ homog sample = true := by
  refine ⟨?_, ?_, ?_⟩ <;> simp [sample, infer, inferItems, inferFields, ITy.tid, wf, wfItems, wfFields,
    accepts, acceptsAll, acceptsObj, homog, homogItems, homogFields]

/-- COMPLETENESS of the refusal: `infer.Type` returns an error for exactly the literals that hold a nil or a list with items of
    different `TypeID()` (`typable`, a decidable predicate on the value alone) — every other literal gets a schema.  Together with
    `inferred_schema_accepts_homogeneous_value_partial`: a typable, homogeneous, well-formed output value can never produce the
    `bug:` error of `handleOutput`. -/
theorem inference_refuses_exactly_the_untypable (v : Lit) : (infer v).isSome = typable v :=
  Arca.Proofs.InferComplete.infer_isSome v

/-- the two theorems combined, without mentioning the inferred type -/
theorem typable_homogeneous_value_is_accepted (v : Lit) (ht : typable v = true) (hw : wf v = true) (hh : homog v = true) :
    ∃ t, infer v = some t ∧ accepts t v = true := by
  have h := inference_refuses_exactly_the_untypable v
  rw [ht] at h
  cases hi : infer v with
  | none => rw [hi] at h; cases h
  | some t => exact ⟨t, rfl, sound_lit v t hi hw hh⟩

example : typable sample = true := by
  simp [sample, typable, typableItems, typableFields, litTid]

/-- the correspondence check never skips the acceptance verdict of a literal the soundness theorem speaks about: a well-formed
    homogeneous literal is `leafConsistent` with its inferred type (the driver's condition for comparing the real `Unserialize`
    verdict with `accepts`), and more generally whatever the model accepts is compared -/
theorem homogeneous_values_are_compared (v : Lit) (t : ITy) (hi : infer v = some t) (hw : wf v = true) (hh : homog v = true) :
    leafConsistent t v = true :=
  Arca.Proofs.InferCompared.homog_is_compared v t hi hw hh

theorem accepted_values_are_compared (t : ITy) (v : Lit) (h : accepts t v = true) : leafConsistent t v = true :=
  Arca.Proofs.InferCompared.lc_of_accepts t v h

/-- the ranges attached to the Go integer kinds are non-empty (the whole table) -/
theorem kind_ranges_ordered :
    (["int8", "int16", "int32", "int64", "int", "uint8", "uint16", "uint32", "uint64", "uint"].all
      (fun k => match kindRange k with | some (lo, hi) => decide (lo ≤ hi) | none => false)) = true := by
  decide

end Arca.Props.C08Infer
