/-
C10 — preparation builds exactly the dependency graph the workflow text implies.

Property theorems only (helper lemmas: Arca/Proofs/Prepare*.lean).  All statements quantify over every abstract
workflow `wf` (any number of steps, any nesting of lists / maps / `!oneof` / `!ordisabled` / optional tags) and every set
`po` of outputs the plugin step declares; the lifecycles are the tables generated from /repo (`Arca.Gen.Lifecycle`).

`prepare po wf = .ok (g, items)` is "the workflow is accepted with dependency graph `g`"; `g` is a graph over the Go
string ids, built by the same sequence of `AddNode` / `ConnectDependency` calls as `executor.Prepare` performs.

Not covered here (differential only): type compatibility of stage inputs with the step's schema, fields inside typed
outputs, the provider schema of a step.
-/
import Arca.Proofs.PrepareExact

namespace Arca.Props.C10
open Arca.Model

/-- Soundness: every edge of the graph of an accepted workflow is the ordering of a step's own stages, a stage →
output edge, or the dependency some reference in the text requires — with exactly that dependency type. -/
theorem prepare_edges_sound (po : List String) (wf : Wf) (g : Graph String) (items : List (String × Item))
    (h : prepare po wf = .ok (g, items)) :
    ∀ e ∈ g.edges, e ∈ lifecycleEdges wf ∨ e ∈ stageOutEdges po wf ∨ e ∈ impliedEdges po wf := by
  obtain ⟨hrun, _, _⟩ := prepare_ok h
  intro e he
  rcases runOps_edges_sound hrun e he with h0 | ⟨a, b, d, tol, hop, rfl⟩
  · simp [Graph.empty] at h0
  · rcases ops_edge_sound hop with h1 | h1 | h1
    · exact Or.inr (Or.inl (List.mem_map.2 ⟨(a, b, d), h1, rfl⟩))
    · exact Or.inl (List.mem_map.2 ⟨(a, b, d), h1, rfl⟩)
    · exact Or.inr (Or.inr (List.mem_map.2 ⟨(a, b, d), h1, rfl⟩))

/-- Completeness: every lifecycle edge, every stage → output edge and every dependency a reference requires is an edge
of the graph, with the dependency type its tag requires (required = `and`, one-of = `or` below an `and` group,
`!wait-optional` = completion-and, `!soft-optional` = optional). -/
theorem prepare_edges_complete (po : List String) (wf : Wf) (g : Graph String) (items : List (String × Item))
    (h : prepare po wf = .ok (g, items)) :
    ∀ e, (e ∈ lifecycleEdges wf ∨ e ∈ stageOutEdges po wf ∨ e ∈ impliedEdges po wf) → e ∈ g.edges := by
  obtain ⟨hrun, _, _⟩ := prepare_ok h
  intro e he
  have hS : ∃ x : Edge, (x ∈ wf.stageOutS po ∨ x ∈ wf.lifecycleS ∨ x ∈ wf.impliedS po) ∧ renderEdge x = e := by
    rcases he with he | he | he
    · obtain ⟨x, hx, rfl⟩ := List.mem_map.1 he
      exact ⟨x, Or.inr (Or.inl hx), rfl⟩
    · obtain ⟨x, hx, rfl⟩ := List.mem_map.1 he
      exact ⟨x, Or.inl hx, rfl⟩
    · obtain ⟨x, hx, rfl⟩ := List.mem_map.1 he
      exact ⟨x, Or.inr (Or.inr hx), rfl⟩
  obtain ⟨⟨a, b, d⟩, hx, rfl⟩ := hS
  obtain ⟨tol, hop⟩ := ops_edge_complete (runOps_nofail hrun) hx
  obtain ⟨d', hd', htol⟩ := runOps_edges_complete hrun a b d tol hop
  cases tol with
  | false =>
    rw [htol rfl] at hd'
    exact hd'
  | true =>
    have h1 : d' = .and := tol_edge_type hrun hop hd'
    have h2 : d = .and := (tol_edge_target hop).1
    rw [h1, ← h2] at hd'
    exact hd'

/-- The dependency graph of an accepted workflow contains a dependency for every reference (of the kind its tag
requires) plus the ordering of each step's own stages (and stage → output), and nothing else. -/
theorem prepare_edges_sound_complete (po : List String) (wf : Wf) (g : Graph String) (items : List (String × Item))
    (h : prepare po wf = .ok (g, items)) :
    ∀ e, e ∈ g.edges ↔ (e ∈ lifecycleEdges wf ∨ e ∈ stageOutEdges po wf ∨ e ∈ impliedEdges po wf) :=
  fun e => ⟨prepare_edges_sound po wf g items h e, prepare_edges_complete po wf g items h e⟩

/-- An accepted workflow is acyclic (`HasCycles` of the dgraph model; Kahn elimination as in the Go code). -/
theorem prepare_acyclic (po : List String) (wf : Wf) (g : Graph String) (items : List (String × Item))
    (h : prepare po wf = .ok (g, items)) : g.hasCycles = false :=
  (prepare_ok h).2.1

/-- A workflow whose operation sequence runs through but leaves a cyclic graph is rejected, as a cycle. -/
theorem prepare_rejects_cycle (po : List String) (wf : Wf) (g : Graph String)
    (hb : build po wf = .ok g) (hc : g.hasCycles = true) : prepare po wf = .error .cycle := by
  unfold prepare
  rw [hb]
  simp [hc]

/-- In an accepted workflow every reference (every dependency path of every expression at every site, including the
generated `disabled` alternative of `!ordisabled`) names an existing workflow input field or declared step stage /
stage output, and the node it names is a node of the graph. -/
theorem prepare_refs_exist (po : List String) (wf : Wf) (g : Graph String) (items : List (String × Item))
    (h : prepare po wf = .ok (g, items)) :
    ∀ σ ∈ wf.allSites, ∀ e ∈ σ.exprs, ∀ p ∈ Expr.deps e,
      ∃ a, wf.resolve po p = .ok a ∧ a.isRef ∧ g.has a.render = true := by
  obtain ⟨hrun, _, _⟩ := prepare_ok h
  intro σ hσ e he p hp
  rcases site_expr_ops (R := wf.resolve po) he hp with ⟨a, c, h1, h2⟩ | ⟨r, h2⟩
  · have hop : Op.edge a c .and true ∈ wf.ops po := mem_ops.2 (Or.inr ⟨σ, hσ, h2⟩)
    exact ⟨a, h1, resolve_isRef h1, (runOps_endpoints hrun a c .and true hop).1⟩
  · exact absurd (mem_ops.2 (Or.inr ⟨σ, hσ, h2⟩)) (runOps_nofail hrun r)

/-- Dangling workflows are rejected: if some reference does not resolve, preparation fails. -/
theorem prepare_rejects_dangling (po : List String) (wf : Wf)
    (hd : ∃ σ ∈ wf.allSites, ∃ e ∈ σ.exprs, ∃ p ∈ Expr.deps e, ∃ r, wf.resolve po p = .error r) :
    ∃ r, prepare po wf = .error r := by
  obtain ⟨σ, hσ, e, he, p, hp, r, hr⟩ := hd
  cases h : prepare po wf with
  | error r' => exact ⟨r', rfl⟩
  | ok gi =>
    obtain ⟨g, items⟩ := gi
    obtain ⟨a, ha, _⟩ := prepare_refs_exist po wf g items h σ hσ e he p hp
    rw [hr] at ha
    cases ha

/-- An expression that is only the data root `$` (anywhere: a stage input, a workflow output, below a tag) is rejected.
(Before /repo commit 1ef90ac `prepareExprDependencies` indexed `dependency[1]` of the one-element path and panicked.) -/
theorem prepare_rejects_root_ref (po : List String) (wf : Wf)
    (h : ∃ σ ∈ wf.allSites, Expr.root ∈ σ.exprs) : ∃ r, prepare po wf = .error r := by
  obtain ⟨σ, hσ, he⟩ := h
  exact prepare_rejects_dangling po wf
    ⟨σ, hσ, .root, he, [], by simp [Expr.deps], .rootRef, by simp [Wf.resolve]⟩

/-- `prepare` has no panic outcome: it accepts, or rejects with an ordinary error class.  (The model mirrors every
statement of `executor.Prepare` that can fail; since the `len(dependency) < 2` guard none of them is a Go panic.) -/
theorem prepare_never_panics (po : List String) (wf : Wf) :
    (∃ g items, prepare po wf = .ok (g, items)) ∨ (∃ r, prepare po wf = .error r ∧ r.cls ≠ "panic") := by
  cases h : prepare po wf with
  | ok gi => exact Or.inl ⟨gi.1, gi.2, rfl⟩
  | error r =>
    refine Or.inr ⟨r, rfl, ?_⟩
    cases r with
    | graph e => cases e <;> simp [Reject.cls]
    | _ => simp [Reject.cls]

/-- The graph of an accepted workflow satisfies the dgraph invariant (unique ids, one edge per pair between existing
nodes, outstanding-dependency lists in step with the edges), all nodes are waiting, nothing is resolved or ready. -/
theorem prepare_inv (po : List String) (wf : Wf) (g : Graph String) (items : List (String × Item))
    (h : prepare po wf = .ok (g, items)) :
    g.Inv ∧ (∀ n ∈ g.nodes, n.status = St.waiting ∧ n.res = []) ∧ g.ready = [] := by
  obtain ⟨hrun, _, _⟩ := prepare_ok h
  have hf := runOps_fresh fresh_empty hrun
  exact ⟨hf.inv, hf.waiting, hf.ready⟩

/-- The nodes are exactly the ones the operation sequence declares: rendered ids pairwise distinct (no two structured
nodes share a Go id in an accepted workflow). -/
theorem prepare_nodes_exact (po : List String) (wf : Wf) (g : Graph String) (items : List (String × Item))
    (h : prepare po wf = .ok (g, items)) :
    g.nodes.map (·.id) = (nodeIds (wf.ops po)).map NodeId.render ∧ ((nodeIds (wf.ops po)).map NodeId.render).Nodup := by
  obtain ⟨hrun, _, _⟩ := prepare_ok h
  refine ⟨?_, runOps_nodup hrun⟩
  have := runOps_ids hrun
  simpa [Graph.empty] using this

/-! ### non-vacuity -/

def po : List String := ["alt", "cancelled", "error", "success"]

def ref (s : String) (rest : List String) : Expr := rest.foldl Expr.dot (.dot (.dot .root "steps") s)

/-- two plugin steps; `b` takes an optional (`!wait-optional`) input from `a`; the output is a `!oneof` over `b` -/
def demo : Wf :=
  { inputFields := ["name"]
    steps := [ { id := "a", kind := .plugin, fields := [("input", .map [("s", .expr (.dot (.dot .root "input") "name"))])] },
               { id := "b", kind := .plugin,
                 fields := [("input", .map [("s", .optional true (ref "a" ["outputs", "success", "s"]))])] } ]
    outputs := [("success", .map [("r", .oneof "which"
        [("ok", .map [("v", .expr (ref "b" ["outputs", "success", "s"]))]),
         ("bad", .map [("v", .expr (ref "b" ["outputs", "error", "reason"]))])])])] }

/-- the same with a back-edge: `a` now waits for `b` -/
def demoCyclic : Wf :=
  { demo with steps := [ { id := "a", kind := .plugin,
                           fields := [("input", .map [("s", .expr (ref "b" ["outputs", "success", "s"]))])] },
                         { id := "b", kind := .plugin,
                           fields := [("input", .map [("s", .optional true (ref "a" ["outputs", "success", "s"]))])] } ] }

/-- a reference to a step that does not exist -/
def demoDangling : Wf :=
  { demo with outputs := [("success", .map [("r", .expr (ref "ghost" ["outputs", "success", "s"]))])] }

/-- the output is the whole data root -/
def demoRootRef : Wf :=
  { demo with outputs := [("success", .map [("r", .expr .root)])] }

def verdictOf (r : Except Reject (Graph String × List (String × Item))) : String :=
  match r with
  | .ok (g, _) => "accepted:" ++ toString g.nodes.length ++ ":" ++ toString g.edges.length
  | .error e => "rejected:" ++ e.cls

example : verdictOf (prepare po demo) = "accepted:46:62" := by decide +kernel
example : verdictOf (prepare po demoCyclic) = "rejected:cycle" := by decide +kernel
example : verdictOf (prepare po demoDangling) = "rejected:dangling" := by decide +kernel
example : verdictOf (prepare po demoRootRef) = "rejected:dangling" := by decide +kernel

/-- the optional input of `b` hangs off a group node with a completion-and edge; the group requires `a`'s output -/
example : ("steps.b.starting.s", "steps.b.starting", Dep.cand) ∈ impliedEdges po demo
    ∧ ("steps.a.outputs.success", "steps.b.starting.s", Dep.and) ∈ impliedEdges po demo
    ∧ ("outputs.success.r.ok", "outputs.success.r", Dep.or) ∈ impliedEdges po demo := by decide +kernel

end Arca.Props.C10
