/-
C10 — preparation builds exactly the dependency graph the workflow text implies.

Property theorems only (helper lemmas: Arca/Proofs/Prepare*.lean).  All statements quantify over every abstract
workflow `wf` (any number of steps, any nesting of lists / maps / `!oneof` / `!ordisabled` / optional tags) and every set
`po` of outputs the plugin step declares; the lifecycles are the tables generated from /repo (`Arca.Gen.Lifecycle`).

`prepare po wf = .ok (g, items)` is "the workflow is accepted with dependency graph `g`"; `g` is a graph over the Go
string ids, built by the same sequence of `AddNode` / `ConnectDependency` calls as `executor.Prepare` performs.

Not covered here (differential only): type compatibility of stage inputs with the step's schema, fields inside typed
outputs, the provider schema of a step.
-/
import Arca.Proofs.PrepareExact

namespace Arca.Props.C10
open Arca.Model

/-- Soundness: every edge of the graph of an accepted workflow is the ordering of a step's own stages, a stage →
output edge, or the dependency some reference in the text requires — with exactly that dependency type. -/
theorem prepare_edges_sound (po : List String) (wf : Wf) (g : Graph String) (items : List (String × Item))
    (h : prepare po wf = .ok (g, items)) :
    ∀ e ∈ g.edges, e ∈ lifecycleEdges wf ∨ e ∈ stageOutEdges po wf ∨ e ∈ impliedEdges po wf := by
  obtain ⟨hrun, _, _⟩ := prepare_ok h
  intro e he
  rcases runOps_edges_sound hrun e he with h0 | ⟨a, b, d, tol, hop, rfl⟩
  · simp [Graph.empty] at h0
  · rcases ops_edge_sound hop with h1 | h1 | h1
    · exact Or.inr (Or.inl (List.mem_map.2 ⟨(a, b, d), h1, rfl⟩))
    · exact Or.inl (List.mem_map.2 ⟨(a, b, d), h1, rfl⟩)
    · exact Or.inr (Or.inr (List.mem_map.2 ⟨(a, b, d), h1, rfl⟩))

/-- Completeness: every lifecycle edge, every stage → output edge and every dependency a reference requires is an edge
of the graph, with the dependency type its tag requires (required = `and`, one-of = `or` below an `and` group,
`!wait-optional` = completion-and, `!soft-optional` = optional). -/
theorem prepare_edges_complete (po : List String) (wf : Wf) (g : Graph String) (items : List (String × Item))
    (h : prepare po wf = .ok (g, items)) :
    ∀ e, (e ∈ lifecycleEdges wf ∨ e ∈ stageOutEdges po wf ∨ e ∈ impliedEdges po wf) → e ∈ g.edges := by
  obtain ⟨hrun, _, _⟩ := prepare_ok h
  intro e he
  have hS : ∃ x : Edge, (x ∈ wf.stageOutS po ∨ x ∈ wf.lifecycleS ∨ x ∈ wf.impliedS po) ∧ renderEdge x = e := by
    rcases he with he | he | he
    · obtain ⟨x, hx, rfl⟩ := List.mem_map.1 he
      exact ⟨x, Or.inr (Or.inl hx), rfl⟩
    · obtain ⟨x, hx, rfl⟩ := List.mem_map.1 he
      exact ⟨x, Or.inl hx, rfl⟩
    · obtain ⟨x, hx, rfl⟩ := List.mem_map.1 he
      exact ⟨x, Or.inr (Or.inr hx), rfl⟩
  obtain ⟨⟨a, b, d⟩, hx, rfl⟩ := hS
  obtain ⟨tol, hop⟩ := ops_edge_complete (runOps_nofail hrun) hx
  obtain ⟨d', hd', htol⟩ := runOps_edges_complete hrun a b d tol hop
  cases tol with
  | false =>
    rw [htol rfl] at hd'
    exact hd'
  | true =>
    have h1 : d' = .and := tol_edge_type hrun hop hd'
    have h2 : d = .and := (tol_edge_target hop).1
    rw [h1, ← h2] at hd'
    exact hd'

/-- The dependency graph of an accepted workflow contains a dependency for every reference (of the kind its tag
requires) plus the ordering of each step's own stages (and stage → output), and nothing else. -/
theorem prepare_edges_sound_complete (po : List String) (wf : Wf) (g : Graph String) (items : List (String × Item))
    (h : prepare po wf = .ok (g, items)) :
    ∀ e, e ∈ g.edges ↔ (e ∈ lifecycleEdges wf ∨ e ∈ stageOutEdges po wf ∨ e ∈ impliedEdges po wf) :=
  fun e => ⟨prepare_edges_sound po wf g items h e, prepare_edges_complete po wf g items h e⟩

/-- An accepted workflow is acyclic (`HasCycles` of the dgraph model; Kahn elimination as in the Go code). -/
theorem prepare_acyclic (po : List String) (wf : Wf) (g : Graph String) (items : List (String × Item))
    (h : prepare po wf = .ok (g, items)) : g.hasCycles = false :=
  (prepare_ok h).2.1

/-- A workflow whose operation sequence runs through but leaves a cyclic graph is rejected, as a cycle. -/
theorem prepare_rejects_cycle (po : List String) (wf : Wf) (g : Graph String)
    (hb : build po wf = .ok g) (hc : g.hasCycles = true) : prepare po wf = .error .cycle := by
  unfold prepare
  rw [hb]
  simp [hc]

/-- In an accepted workflow every reference (every dependency path of every expression at every site, including the
generated `disabled` alternative of `!ordisabled`) names an existing workflow input field or declared step stage /
stage output, and the node it names is a node of the graph. -/
theorem prepare_refs_exist (po : List String) (wf : Wf) (g : Graph String) (items : List (String × Item))
    (h : prepare po wf = .ok (g, items)) :
    ∀ σ ∈ wf.allSites, ∀ e ∈ σ.exprs, ∀ p ∈ Expr.deps e,
      ∃ a, wf.resolve po p = .ok a ∧ a.isRef ∧ g.has a.render = true := by
  obtain ⟨hrun, _, _⟩ := prepare_ok h
  intro σ hσ e he p hp
  rcases site_expr_ops (R := wf.resolve po) he hp with ⟨a, c, h1, h2⟩ | ⟨r, h2⟩
  · have hop : Op.edge a c .and true ∈ wf.ops po := mem_ops.2 (Or.inr ⟨σ, hσ, h2⟩)
    exact ⟨a, h1, resolve_isRef h1, (runOps_endpoints hrun a c .and true hop).1⟩
  · exact absurd (mem_ops.2 (Or.inr ⟨σ, hσ, h2⟩)) (runOps_nofail hrun r)

/-- Dangling workflows are rejected: if some reference does not resolve, preparation fails. -/
theorem prepare_rejects_dangling (po : List String) (wf : Wf)
    (hd : ∃ σ ∈ wf.allSites, ∃ e ∈ σ.exprs, ∃ p ∈ Expr.deps e, ∃ r, wf.resolve po p = .error r) :
    ∃ r, prepare po wf = .error r := by
  obtain ⟨σ, hσ, e, he, p, hp, r, hr⟩ := hd
  cases h : prepare po wf with
  | error r' => exact ⟨r', rfl⟩
  | ok gi =>
    obtain ⟨g, items⟩ := gi
    obtain ⟨a, ha, _⟩ := prepare_refs_exist po wf g items h σ hσ e he p hp
    rw [hr] at ha
    cases ha

/-- An expression that is only the data root `$` (anywhere: a stage input, a workflow output, below a tag) is rejected.
(Before /repo commit 1ef90ac `prepareExprDependencies` indexed `dependency[1]` of the one-element path and panicked.) -/
theorem prepare_rejects_root_ref (po : List String) (wf : Wf)
    (h : ∃ σ ∈ wf.allSites, Expr.root ∈ σ.exprs) : ∃ r, prepare po wf = .error r := by
  obtain ⟨σ, hσ, he⟩ := h
  exact prepare_rejects_dangling po wf
    ⟨σ, hσ, .root, he, [], by simp [Expr.deps], .rootRef, by simp [Wf.resolve]⟩

/-- `prepare` has no panic outcome: it accepts, or rejects with an ordinary error class.  (The model mirrors every
statement of `executor.Prepare` that can fail; since the `len(dependency) < 2` guard none of them is a Go panic.) -/
theorem prepare_never_panics (po : List String) (wf : Wf) :
    (∃ g items, prepare po wf = .ok (g, items)) ∨ (∃ r, prepare po wf = .error r ∧ r.cls ≠ "panic") := by
  cases h : prepare po wf with
  | ok gi => exact Or.inl ⟨gi.1, gi.2, rfl⟩
  | error r =>
    refine Or.inr ⟨r, rfl, ?_⟩
    cases r with
    | graph e => cases e <;> simp [Reject.cls]
    | _ => simp [Reject.cls]

/-- The graph of an accepted workflow satisfies the dgraph invariant (unique ids, one edge per pair between existing
nodes, outstanding-dependency lists in step with the edges), all nodes are waiting, nothing is resolved or ready. -/
theorem prepare_inv (po : List String) (wf : Wf) (g : Graph String) (items : List (String × Item))
    (h : prepare po wf = .ok (g, items)) :
    g.Inv ∧ (∀ n ∈ g.nodes, n.status = St.waiting ∧ n.res = []) ∧ g.ready = [] := by
  obtain ⟨hrun, _, _⟩ := prepare_ok h
  have hf := runOps_fresh fresh_empty hrun
  exact ⟨hf.inv, hf.waiting, hf.ready⟩

/-- The nodes are exactly the ones the operation sequence declares: rendered ids pairwise distinct (no two structured
nodes share a Go id in an accepted workflow). -/
theorem prepare_nodes_exact (po : List String) (wf : Wf) (g : Graph String) (items : List (String × Item))
    (h : prepare po wf = .ok (g, items)) :
    g.nodes.map (·.id) = (nodeIds (wf.ops po)).map NodeId.render ∧ ((nodeIds (wf.ops po)).map NodeId.render).Nodup := by
  obtain ⟨hrun, _, _⟩ := prepare_ok h
  refine ⟨?_, runOps_nodup hrun⟩
  have := runOps_ids hrun
  simpa [Graph.empty] using this

/-! ### several references in one expression; several tagged fields on one source

The operation sequence connects the consumer to the producer of EVERY dependency path of an expression with a tolerated
(idempotent) `ConnectDependency`: a dependency whose producer the node is already connected to - by an earlier expression
of the same node, or by an earlier path of the same expression - is skipped, and the walk goes on with the next one. -/

/-- Every reference of a plain expression gets its `and` edge - whichever other expression of the same node, or earlier
reference of the same expression, already connected the node to some producer: the statement quantifies over every
dependency path `p` of `e` separately, with no hypothesis about the others. -/
theorem prepare_every_ref_connected (po : List String) (wf : Wf) (g : Graph String) (items : List (String × Item))
    (h : prepare po wf = .ok (g, items)) (cur : NodeId) (path : List String) (e : Expr)
    (hσ : Site.val cur path (.expr e) ∈ wf.allSites) :
    ∀ p ∈ Expr.deps e, ∃ a, wf.resolve po p = .ok a ∧ (a.render, cur.render, Dep.and) ∈ g.edges := by
  intro p hp
  obtain ⟨a, ha, _, _⟩ := prepare_refs_exist po wf g items h _ hσ e (by simp [Site.exprs]) p hp
  refine ⟨a, ha, prepare_edges_complete po wf g items h _ (Or.inr (Or.inr ?_))⟩
  refine List.mem_map.2 ⟨(a, cur, Dep.and), ?_, rfl⟩
  refine List.mem_flatMap.2 ⟨_, hσ, ?_⟩
  simp only [siteEdges]
  exact mem_refEdges.2 ⟨p, hp, a, ha, rfl⟩

/-- Two references of one expression that lead to the SAME producer node (two fields of one stage output) do not stop
the walk: a third reference to another producer is connected as well. -/
theorem prepare_duplicate_ref_does_not_stop (po : List String) (wf : Wf) (g : Graph String) (items : List (String × Item))
    (h : prepare po wf = .ok (g, items)) (cur : NodeId) (path : List String) (e : Expr)
    (hσ : Site.val cur path (.expr e) ∈ wf.allSites) (p₁ p₂ p₃ : List String) (a b : NodeId)
    (h₁ : p₁ ∈ Expr.deps e) (_h₂ : p₂ ∈ Expr.deps e) (h₃ : p₃ ∈ Expr.deps e)
    (r₁ : wf.resolve po p₁ = .ok a) (_r₂ : wf.resolve po p₂ = .ok a) (r₃ : wf.resolve po p₃ = .ok b) :
    (a.render, cur.render, Dep.and) ∈ g.edges ∧ (b.render, cur.render, Dep.and) ∈ g.edges := by
  obtain ⟨a', ha', e1⟩ := prepare_every_ref_connected po wf g items h cur path e hσ p₁ h₁
  obtain ⟨b', hb', e3⟩ := prepare_every_ref_connected po wf g items h cur path e hσ p₃ h₃
  rw [r₁] at ha'
  rw [r₃] at hb'
  cases ha'
  cases hb'
  exact ⟨e1, e3⟩

/-- An optional field (`!wait-optional` / `!soft-optional`) hangs off its OWN group node: the holder depends on the group
with the kind the tag requires (completion-and / optional) and the group requires every source of the expression. -/
theorem prepare_optional_edges (po : List String) (wf : Wf) (g : Graph String) (items : List (String × Item))
    (h : prepare po wf = .ok (g, items)) (cur : NodeId) (path : List String) (w : Bool) (e : Expr)
    (hσ : Site.val cur path (.optional w e) ∈ wf.allSites) :
    ((NodeId.group cur path).render, cur.render, optDep w) ∈ g.edges ∧
    ∀ p ∈ Expr.deps e, ∃ a, wf.resolve po p = .ok a ∧ (a.render, (NodeId.group cur path).render, Dep.and) ∈ g.edges := by
  have key : ∀ x : Edge, x ∈ siteEdges (wf.resolve po) (.val cur path (.optional w e)) → renderEdge x ∈ g.edges := by
    intro x hx
    refine prepare_edges_complete po wf g items h _ (Or.inr (Or.inr ?_))
    exact List.mem_map.2 ⟨x, List.mem_flatMap.2 ⟨_, hσ, hx⟩, rfl⟩
  refine ⟨key (.group cur path, cur, optDep w) (by simp [siteEdges]), ?_⟩
  intro p hp
  obtain ⟨a, ha, _, _⟩ := prepare_refs_exist po wf g items h _ hσ e (by simp [Site.exprs]) p hp
  refine ⟨a, ha, key (a, .group cur path, Dep.and) ?_⟩
  simp only [siteEdges, List.mem_cons]
  exact Or.inr (mem_refEdges.2 ⟨p, hp, a, ha, rfl⟩)

/-- Several tagged fields of ONE object (different paths below the same holder) - on the same source or not - get
DISTINCT group nodes, also as Go string ids, and both are nodes of the graph. -/
theorem prepare_tagged_fields_distinct_groups (po : List String) (wf : Wf) (g : Graph String) (items : List (String × Item))
    (h : prepare po wf = .ok (g, items)) (cur : NodeId) (p₁ p₂ : List String) (w₁ w₂ : Bool) (e₁ e₂ : Expr)
    (h₁ : Site.val cur p₁ (.optional w₁ e₁) ∈ wf.allSites) (h₂ : Site.val cur p₂ (.optional w₂ e₂) ∈ wf.allSites)
    (hne : p₁ ≠ p₂) :
    (NodeId.group cur p₁).render ≠ (NodeId.group cur p₂).render ∧
    g.has (NodeId.group cur p₁).render = true ∧ g.has (NodeId.group cur p₂).render = true := by
  obtain ⟨hrun, _, _⟩ := prepare_ok h
  have n₁ : Op.node (.group cur p₁) ∈ wf.ops po := mem_ops.2 (Or.inr ⟨_, h₁, by simp [siteOps]⟩)
  have n₂ : Op.node (.group cur p₂) ∈ wf.ops po := mem_ops.2 (Or.inr ⟨_, h₂, by simp [siteOps]⟩)
  have ids := runOps_ids hrun
  simp only [Graph.empty, List.map_nil, List.nil_append] at ids
  refine ⟨?_, ?_, ?_⟩
  · intro heq
    have := render_inj_of_run hrun n₁ n₂ heq
    simp only [NodeId.group.injEq, true_and] at this
    exact hne this
  · rw [Graph.has_iff_mem_ids, ids]
    exact List.mem_map.2 ⟨_, mem_nodeIds.2 n₁, rfl⟩
  · rw [Graph.has_iff_mem_ids, ids]
    exact List.mem_map.2 ⟨_, mem_nodeIds.2 n₂, rfl⟩

/-- A `!wait-optional` and a `!soft-optional` field of one object that read the same source: the holder has a
completion-and dependency on one group and an optional dependency on ANOTHER group, and each group requires the source.
(One edge per node pair: a direct holder <- source edge could carry only one of the two kinds.) -/
theorem prepare_wait_and_soft_on_same_source (po : List String) (wf : Wf) (g : Graph String) (items : List (String × Item))
    (h : prepare po wf = .ok (g, items)) (cur : NodeId) (pw ps : List String) (ew es : Expr)
    (hw : Site.val cur pw (.optional true ew) ∈ wf.allSites) (hs : Site.val cur ps (.optional false es) ∈ wf.allSites)
    (hne : pw ≠ ps) (p q : List String) (hp : p ∈ Expr.deps ew) (hq : q ∈ Expr.deps es) (src : NodeId)
    (rp : wf.resolve po p = .ok src) (rq : wf.resolve po q = .ok src) :
    (NodeId.group cur pw).render ≠ (NodeId.group cur ps).render ∧
    ((NodeId.group cur pw).render, cur.render, Dep.cand) ∈ g.edges ∧
    ((NodeId.group cur ps).render, cur.render, Dep.opt) ∈ g.edges ∧
    (src.render, (NodeId.group cur pw).render, Dep.and) ∈ g.edges ∧
    (src.render, (NodeId.group cur ps).render, Dep.and) ∈ g.edges := by
  obtain ⟨e1, r1⟩ := prepare_optional_edges po wf g items h cur pw true ew hw
  obtain ⟨e2, r2⟩ := prepare_optional_edges po wf g items h cur ps false es hs
  obtain ⟨a, ha, ea⟩ := r1 p hp
  obtain ⟨b, hb, eb⟩ := r2 q hq
  rw [rp] at ha
  rw [rq] at hb
  cases ha
  cases hb
  exact ⟨(prepare_tagged_fields_distinct_groups po wf g items h cur pw ps true false ew es hw hs hne).1,
    by simpa [optDep] using e1, by simpa [optDep] using e2, ea, eb⟩

/-! ### non-vacuity -/

def po : List String := ["alt", "cancelled", "error", "success"]

def ref (s : String) (rest : List String) : Expr := rest.foldl Expr.dot (.dot (.dot .root "steps") s)

/-- two plugin steps; `b` takes an optional (`!wait-optional`) input from `a`; the output is a `!oneof` over `b` -/
def demo : Wf :=
  { inputFields := ["name"]
    steps := [ { id := "a", kind := .plugin, fields := [("input", .map [("s", .expr (.dot (.dot .root "input") "name"))])] },
               { id := "b", kind := .plugin,
                 fields := [("input", .map [("s", .optional true (ref "a" ["outputs", "success", "s"]))])] } ]
    outputs := [("success", .map [("r", .oneof "which"
        [("ok", .map [("v", .expr (ref "b" ["outputs", "success", "s"]))]),
         ("bad", .map [("v", .expr (ref "b" ["outputs", "error", "reason"]))])])])] }

/-- the same with a back-edge: `a` now waits for `b` -/
def demoCyclic : Wf :=
  { demo with steps := [ { id := "a", kind := .plugin,
                           fields := [("input", .map [("s", .expr (ref "b" ["outputs", "success", "s"]))])] },
                         { id := "b", kind := .plugin,
                           fields := [("input", .map [("s", .optional true (ref "a" ["outputs", "success", "s"]))])] } ] }

/-- a reference to a step that does not exist -/
def demoDangling : Wf :=
  { demo with outputs := [("success", .map [("r", .expr (ref "ghost" ["outputs", "success", "s"]))])] }

/-- the output is the whole data root -/
def demoRootRef : Wf :=
  { demo with outputs := [("success", .map [("r", .expr .root)])] }

def verdictOf (r : Except Reject (Graph String × List (String × Item))) : String :=
  match r with
  | .ok (g, _) => "accepted:" ++ toString g.nodes.length ++ ":" ++ toString g.edges.length
  | .error e => "rejected:" ++ e.cls

example : verdictOf (prepare po demo) = "accepted:46:62" := by decide +kernel
example : verdictOf (prepare po demoCyclic) = "rejected:cycle" := by decide +kernel
example : verdictOf (prepare po demoDangling) = "rejected:dangling" := by decide +kernel
example : verdictOf (prepare po demoRootRef) = "rejected:dangling" := by decide +kernel

/-- the optional input of `b` hangs off a group node with a completion-and edge; the group requires `a`'s output -/
example : ("steps.b.starting.s", "steps.b.starting", Dep.cand) ∈ impliedEdges po demo
    ∧ ("steps.a.outputs.success", "steps.b.starting.s", Dep.and) ∈ impliedEdges po demo
    ∧ ("outputs.success.r.ok", "outputs.success.r", Dep.or) ∈ impliedEdges po demo := by decide +kernel

/-! ### non-vacuity for expressions with several references, mixed optional tags and several loop steps

A binary operation `l op r` of the expression language is the call `op(l, r)` of the model (`Expr.deps` of a call = the
dependencies of its arguments, left to right, as `binaryOperationDependencies` computes them). -/

def plus (l r : Expr) : Expr := .call "+" [l, r]

/-- `$.steps.a.outputs.success.s + boolToString($.steps.a.outputs.success.b) + $.steps.b.outputs.success.s`:
two paths into `a`'s output (one DAG node), then `b` -/
def abExpr : Expr :=
  plus (plus (ref "a" ["outputs", "success", "s"]) (.call "boolToString" [ref "a" ["outputs", "success", "b"]]))
    (ref "b" ["outputs", "success", "s"])

example : Expr.deps abExpr = [["steps", "a", "outputs", "success", "s"], ["steps", "a", "outputs", "success", "b"],
    ["steps", "b", "outputs", "success", "s"]] := by decide

/-- three plugin steps and two loop steps over different sub-workflow files (the file is not part of the graph);
`c` reads `a` in one input key and `a + a + b` in another; the output holds a `!wait-optional`, a `!soft-optional` and a
plain reference to `a`, a two-source optional and the data of both loops -/
def demoMulti : Wf :=
  { inputFields := ["name"]
    steps := [ { id := "a", kind := .plugin, fields := [("input", .map [("s", .expr (.dot (.dot .root "input") "name"))])] },
               { id := "b", kind := .plugin, fields := [("input", .map [])] },
               { id := "c", kind := .plugin,
                 fields := [("input", .map [("i", .expr (ref "a" ["outputs", "success", "i"])), ("s", .expr abExpr)]),
                            ("wait_for", .list [.expr (ref "a" ["outputs", "success", "s"]),
                                                .expr (plus (ref "a" ["outputs", "success", "s"]) (ref "b" ["outputs", "success", "s"]))])] },
               { id := "la", kind := .foreach,
                 fields := [("items", .list [.map [("name", .expr (ref "a" ["outputs", "success", "s"]))]])] },
               { id := "lb", kind := .foreach,
                 fields := [("items", .list [.map [("name", .lit "x"), ("n", .expr (ref "b" ["outputs", "success", "i"]))]])] } ]
    outputs := [("success", .map [
        ("xw", .optional true (ref "a" ["outputs", "success", "s"])),
        ("xo", .optional false (ref "a" ["outputs", "success", "i"])),
        ("xp", .expr (ref "a" ["outputs", "success", "b"])),
        ("mo", .optional true abExpr),
        ("loop0", .expr (ref "la" ["outputs", "success", "data"])),
        ("loop1", .optional true (ref "lb" ["outputs", "success", "data"]))])] }

/-- the same with the back-edge hidden behind an already connected producer: `a` reads `b` and then `c` -/
def demoHiddenCycle : Wf :=
  { demoMulti with steps := demoMulti.steps.map (fun s =>
      if s.id = "a" then { s with fields := [("input", .map [("l", .list [
          .expr (ref "b" ["outputs", "success", "s"]),
          .expr (plus (ref "b" ["outputs", "success", "s"]) (ref "c" ["outputs", "success", "s"]))])])] } else s) }

example : verdictOf (prepare po demoMulti) = "accepted:88:119" := by decide +kernel
example : verdictOf (prepare po demoHiddenCycle) = "rejected:cycle" := by decide +kernel

/-- `c` is connected to `b` although its other input key (and the earlier references of the same expression) had
already connected it to `a`; so is its wait_for list; the two-source optional group requires both sources -/
example : ("steps.a.outputs.success", "steps.c.starting", Dep.and) ∈ impliedEdges po demoMulti
    ∧ ("steps.b.outputs.success", "steps.c.starting", Dep.and) ∈ impliedEdges po demoMulti
    ∧ ("steps.a.outputs.success", "outputs.success.mo", Dep.and) ∈ impliedEdges po demoMulti
    ∧ ("steps.b.outputs.success", "outputs.success.mo", Dep.and) ∈ impliedEdges po demoMulti := by decide +kernel

/-- wait-optional, soft-optional and plain reference to the same source in one object: two group nodes with their own
edge kinds plus the direct `and` edge of the plain reference -/
example : ("outputs.success.xw", "outputs.success", Dep.cand) ∈ impliedEdges po demoMulti
    ∧ ("outputs.success.xo", "outputs.success", Dep.opt) ∈ impliedEdges po demoMulti
    ∧ ("steps.a.outputs.success", "outputs.success.xw", Dep.and) ∈ impliedEdges po demoMulti
    ∧ ("steps.a.outputs.success", "outputs.success.xo", Dep.and) ∈ impliedEdges po demoMulti
    ∧ ("steps.a.outputs.success", "outputs.success", Dep.and) ∈ impliedEdges po demoMulti := by decide +kernel

/-- without the plain reference the holder has NO direct edge from the source, of any kind -/
def demoMixedOnly : Wf :=
  { demoMulti with outputs := [("success", .map [
        ("xw", .optional true (ref "a" ["outputs", "success", "s"])),
        ("xo", .optional false (ref "a" ["outputs", "success", "i"]))])] }

example : ∀ d : Dep, ("steps.a.outputs.success", "outputs.success", d) ∉ impliedEdges po demoMixedOnly
      ∧ ("steps.a.outputs.success", "outputs.success", d) ∉ lifecycleEdges demoMixedOnly
      ∧ ("steps.a.outputs.success", "outputs.success", d) ∉ stageOutEdges po demoMixedOnly := by
  intro d
  cases d <;> decide +kernel

/-- both loop steps feed the output; each loop's data comes from its own step -/
example : ("steps.la.outputs.success", "outputs.success", Dep.and) ∈ impliedEdges po demoMulti
    ∧ ("steps.lb.outputs.success", "outputs.success.loop1", Dep.and) ∈ impliedEdges po demoMulti
    ∧ ("steps.a.outputs.success", "steps.la.execute", Dep.and) ∈ impliedEdges po demoMulti
    ∧ ("steps.b.outputs.success", "steps.lb.execute", Dep.and) ∈ impliedEdges po demoMulti := by decide +kernel

end Arca.Props.C10
