/-
C19 — invalid input starts nothing; steps see the schema-normalised input.

Property theorems only (helper lemmas: Arca/Proofs/TyLemmas.lean, TyNorm.lean, TySkel.lean).  All statements quantify
over ALL schemas of the fragment `Arca.Model.Ty` (any nesting depth, any number of properties) and ALL input values.

What is proved
* about the model of the schema (`normalise`, `valid`, `conforms`): acceptance = validity, results conform (typed, all
  required and defaulted properties present), conforming values are fixed points, hence idempotence, and the
  `Unserialize`/`Serialize` pair of `Execute` stores exactly the normalised value;
* about the model of `Execute`'s prologue: an invalid input yields `[validate, returnError]` — no step is started;
* about the real `Execute` (regenerated skeleton `Arca.Gen.Skel`): the validation call precedes every token that
  mentions `runnableStep.Start`, is immediately followed by the error check with `return`, and the start loop exists.
  These three are decided on the token list regenerated from the source on every run, independently of the pinned
  `Expected` snapshot.

What is NOT proved here: that pluginsdk's schema code computes `normalise` (a dependency, outside /repo: validated by the
differential `vharness input | arcadrv input` on generated schemas and documents, trusted otherwise); float text
outside the dyadic-decimal class (`TyErr.unmodelled`: the model gives no verdict, the theorems count it as refused);
`well-formed` (`Ty.wf`: property names of an object are distinct) is a hypothesis wherever the order of an association
list could matter — Go maps guarantee it.
-/
import Arca.Proofs.TyNorm
import Arca.Proofs.TySkel
import Arca.Model.RunLoop
import Arca.Gen.Skel
import Arca.Proofs.LockFacts
import Arca.Model.Yaml

namespace Arca.Props.C19
open Arca.Model Arca.Proofs.Ty

/-! ### the schema model -/

/-- normalisation succeeds exactly on the valid values -/
theorem normalise_valid (t : Ty) (v : Val) : (∃ w, normalise t v = .ok w) ↔ valid t v = true := by
  rw [← normalise_isOk]
  cases normalise t v <;> simp [tyOk]

/-- a normalised value conforms to the schema in the strict sense (every scalar has the declared type and satisfies its
    constraints, objects list exactly their declared properties in declaration order), it is itself valid, and every
    property that is required or has a default is present in a normalised object -/
theorem normalised_conforms (t : Ty) (hwf : t.wf = true) (v w : Val) (h : normalise t v = .ok w) :
    conforms t w = true ∧ valid t w = true ∧
    (∀ ps out, t = .obj ps → w = .map out →
      ∀ row ∈ ps.toList, (row.2.1 = true ∨ row.2.2.1.isSome = true) → (lookup row.1 out).isSome = true) := by
  have hc := normalised_conforms_aux t hwf v w h
  refine ⟨hc, ?_, ?_⟩
  · exact (normalise_valid t w).mp ⟨w, conforms_fixed t hwf w hc⟩
  · intro ps out ht hw row hrow hpres
    subst ht hw
    -- the normalised object is a fixed point: read the presence off `normProps`
    have hfix := conforms_fixed (.obj ps) hwf (.map out) hc
    simp only [normalise] at hfix
    split at hfix
    · split at hfix
      · rename_i out' hn
        cases hfix
        exact normProps_present ps out out hn row hrow hpres
      · cases hfix
    · cases hfix

/-- normalising a normalised value changes nothing -/
theorem normalise_idempotent (t : Ty) (hwf : t.wf = true) (v w : Val) (h : normalise t v = .ok w) :
    normalise t w = .ok w :=
  conforms_fixed t hwf w (normalised_conforms_aux t hwf v w h)

/-- the same in monadic form: `normalise t (normalise t v) = normalise t v` -/
theorem normalise_idempotent_bind (t : Ty) (hwf : t.wf = true) (v : Val) :
    (normalise t v >>= normalise t) = normalise t v := by
  cases h : normalise t v with
  | error e => rfl
  | ok w => exact normalise_idempotent t hwf v w h

/-- `Execute` stores the normalised input: re-serialising the unserialised value neither fails nor changes it -/
theorem input_normalised_once (t : Ty) (hwf : t.wf = true) (v : Val) : executeInput t v = normalise t v := by
  unfold executeInput
  cases h : normalise t v with
  | error e => rfl
  | ok w => simp [serialise, normalised_conforms_aux t hwf v w h]

/-- every reference `$.input` of a run evaluates against that one stored value, whichever step or output asks -/
theorem input_reference_same_for_all (P : Prepared) (w : Val) :
    (initData P w).getKey "input" = .ok w := by
  simp [initData, Val.getKey, lookup]

/-! ### the prologue of `Execute` -/

/-- invalid input: `Execute` validates, returns the error, and starts no step — for any number of steps -/
theorem invalid_input_no_start (t : Ty) (v : Val) (nSteps : Nat) (h : valid t v = false) :
    executePrologue t v nSteps = [.validate, .returnError] ∧
    ∀ a ∈ executePrologue t v nSteps, a.isStart = false := by
  have hn : tyOk (normalise t v) = false := by rw [normalise_isOk]; exact h
  have he : ∃ e, executeInput t v = .error e := by
    unfold executeInput
    cases hh : normalise t v with
    | error e => exact ⟨e, rfl⟩
    | ok w => simp [hh, tyOk] at hn
  obtain ⟨e, he⟩ := he
  have hp : executePrologue t v nSteps = [.validate, .returnError] := by simp [executePrologue, he]
  refine ⟨hp, ?_⟩
  rw [hp]
  intro a ha
  simp at ha
  rcases ha with rfl | rfl <;> rfl

/-- valid input: after the validation every step is started, and nothing is returned from the prologue -/
theorem valid_input_starts_every_step (t : Ty) (hwf : t.wf = true) (v : Val) (nSteps : Nat) (h : valid t v = true) :
    executePrologue t v nSteps = .validate :: (List.range nSteps).map .startStep := by
  obtain ⟨w, hw⟩ := (normalise_valid t v).mpr h
  simp [executePrologue, input_normalised_once t hwf v, hw]

/-! ### the tie to the real `Execute` (regenerated skeleton) -/

/-- in the current source, `e.input.Unserialize(serializedInput)` occurs before the first token that mentions
    `runnableStep.Start`: moving the validation behind the start loop breaks this obligation (also after a re-snapshot
    of the `Expected` pins) -/
theorem validation_before_start :
    occursBefore "call:e.input.Unserialize(serializedInput)" mentionsStart
      Arca.Gen.Skel.workflow_workflow_executableWorkflow_Execute = true := by decide

/-- the validation is immediately followed by the error check that returns: the failure branch cannot fall through
    into the start loop -/
theorem validation_guarded :
    (after "call:e.input.Unserialize(serializedInput)" Arca.Gen.Skel.workflow_workflow_executableWorkflow_Execute).take 4
      = ["if(err != nil){", "call:e.inputLock.Unlock()", "return", "}"] := by decide

/-- non-vacuity of `validation_before_start`: the start call is there (after the validation) -/
theorem start_loop_present :
    (after "call:e.input.Unserialize(serializedInput)"
      Arca.Gen.Skel.workflow_workflow_executableWorkflow_Execute).any mentionsStart = true := by decide

/-- unfolded reading of `validation_before_start` -/
theorem validation_before_start_spelled :
    ∃ pre post, Arca.Gen.Skel.workflow_workflow_executableWorkflow_Execute =
        pre ++ "call:e.input.Unserialize(serializedInput)" :: post ∧ ∀ t ∈ pre, mentionsStart t = false :=
  occursBefore_sound _ _ _ validation_before_start

/-! ### the front end: the input FILE is read as text, and that reading is what `Execute` receives

`engineWorkflow.Run` decodes the input file with the engine's own YAML layer (`Arca.Model.Yaml`, differential `parse-tree` of
C11) and hands `Raw()` of the tree to `Execute`.  In that layer a scalar is its TEXT whatever YAML type its spelling suggests
(`007`, `1e1`, `true`, `2024-01-01`, `~`): the declared schema, not the YAML spelling, decides the type, so a document is
refused / accepted / normalised identically whether it reaches `Execute` as a file or as the same texts in a Go value
(correspondence: the `run_leg` of the `input` stream). -/

/-- a scalar of the input file is delivered as its text, whatever its tag and whatever it looks like -/
theorem input_file_scalar_is_its_text (tag v : String) (cs : List Arca.Model.Yaml.Node) :
    Arca.Model.Yaml.raw (.mk .str tag cs v) = .ok (.str v) := by
  simp [Arca.Model.Yaml.raw]

/-- in the current source `Run` decodes with the engine's YAML layer, takes `Raw()` and passes exactly that to `Execute`,
    with only the error check in between (no other decoder, no conversion step) -/
theorem run_passes_the_text_reading_to_execute :
    Arca.Gen.Skel.engine_engineWorkflow_Run.take 6 =
      ["call:yaml.New().Parse(input)", "if(err != nil){", "return", "}", "call:decodedInput.Raw()",
       "call:e.workflow.Execute(ctx,decodedInput.Raw(..))"] := by decide

/-! ### a refused input leaves the prepared workflow usable: the input lock is released on every path

`Execute` validates the input under `e.inputLock`, a mutex of the PREPARED workflow (shared by all its runs).  If the path
that refuses the input returned with the mutex held, the refusal itself would still be correct, but every later
`Execute` of the prepared workflow would neither refuse nor run its input.  The statement is about the regenerated
skeleton of `Execute` (`Arca.Gen.Skel`, split form `Arca.Gen.Locks`): the lock-balance checker accepts it, and by its
soundness theorem every syntactic path through `Execute` that does not end in a panic locks the mutex only while free,
unlocks it only while held, and returns with it free. -/

open Arca.Model.LockBalance in
/-- every path of `Execute` to a `return` — the one that refuses the input included — releases the input lock -/
theorem input_lock_released_on_every_path :
    ∃ b, parse "e.inputLock" (Arca.Proofs.LockFacts.toksOf "workflow_workflow_executableWorkflow_Execute") = some b ∧
      ∀ n p, p ∈ pathsB n b → p.2 ≠ .panic → p.2.exits = true ∧ wellBalanced false p.1 := by
  obtain ⟨b, hb, hpaths, _⟩ := Arca.Proofs.LockBalance.balanced_sound "e.inputLock" _ Arca.Proofs.LockFacts.execute_input_lock_balanced.1
  exact ⟨b, hb, hpaths⟩

open Arca.Model.LockBalance in
/-- not vacuous: `Execute` locks `e.inputLock` exactly once, and the token list the checker read IS the regenerated
    skeleton of `Execute` (every token split into a known head and its rest) -/
theorem input_lock_taken_once_in_execute :
    lockCalls "e.inputLock" (Arca.Proofs.LockFacts.toksOf "workflow_workflow_executableWorkflow_Execute") = 1 ∧
    (Arca.Proofs.LockFacts.toksOf "workflow_workflow_executableWorkflow_Execute").map join =
      Arca.Gen.Skel.workflow_workflow_executableWorkflow_Execute ∧
    wellSplit (Arca.Proofs.LockFacts.toksOf "workflow_workflow_executableWorkflow_Execute") = true := by
  refine ⟨Arca.Proofs.LockFacts.execute_input_lock_balanced.2, Arca.Proofs.LockFacts.execute_tokens, ?_⟩
  decide +kernel

/-- the same for every function of the run loop and the providers that takes a lock (a helper into which the validation
    is moved is covered without being named): see `Arca.Props.C14.every_lock_released_on_every_path` -/
theorem every_lock_released : Arca.Proofs.LockFacts.lockPairs.all
    (fun p => Arca.Model.LockBalance.balanced p.2.1 p.2.2 || Arca.Proofs.LockFacts.knownUnbalanced.contains (p.1, p.2.1)) = true :=
  Arca.Proofs.LockFacts.all_locks_released_on_every_path

/-! ### non-vacuity -/

def demoTy : Ty :=
  .obj (.cons "n" false (some (.int 7)) (.int (some 0) (some 20))
       (.cons "flag" true none .bool
       (.cons "tags" false none (.list (.str (some 1) none (some (.all .lower true))) none (some 3)) .nil)))

def okIs (r : Except TyErr Val) (w : Val) : Bool :=
  match r with
  | .ok x => x == w
  | .error _ => false

example : demoTy.wf = true := by decide

/-- strings become typed values and the default is filled in -/
example : okIs (executeInput demoTy (.map [("flag", .str "Yes"), ("tags", .list [.str "ab"])]))
    (.map [("n", .int 7), ("flag", .bool true), ("tags", .list [.str "ab"])]) = true := by decide

example : okIs (executeInput demoTy (.map [("flag", .bool false), ("n", .str "012")]))
    (.map [("n", .int 12), ("flag", .bool false)]) = true := by decide

/-- invalid in one way each: missing required field, out of range, pattern mismatch, unknown field, null -/
example : valid demoTy (.map [("n", .int 3)]) = false := by decide
example : valid demoTy (.map [("flag", .bool true), ("n", .int 21)]) = false := by decide
example : valid demoTy (.map [("flag", .bool true), ("tags", .list [.str "aB"])]) = false := by decide
example : valid demoTy (.map [("flag", .bool true), ("extra", .int 1)]) = false := by decide
example : valid demoTy .null = false := by decide

example : executePrologue demoTy (.map [("n", .int 3)]) 3 = [.validate, .returnError] := by decide
example : executePrologue demoTy (.map [("flag", .int 1)]) 2 = [.validate, .startStep 0, .startStep 1] := by decide

end Arca.Props.C19
