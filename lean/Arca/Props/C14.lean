/-
C14 — a prepared workflow can be run again and concurrently with identical results.

Property theorems only.  The argument has three parts.

1. FRAME (facts regenerated from /repo/workflow on every run, `Arca.Gen.Frame`, extractor `extract/frame.go`): in the
   functions reachable from `executableWorkflow.Execute` no statement writes a field of the prepared workflow `e`
   (`run_frame`), none writes through anything but the per-run loop state or locations made in the same function
   (`run_frame_other`: no write into DAG items, expression objects, parameters), every `loopState` field that the loop
   writes is on the explicit list of mutable fields (`written_fields_are_listed`), and every mutable field is initialised
   from a fresh allocation, a literal or `e.dag.Clone()` (`run_state_fresh`).  The remaining channel through which one
   run could reach another are METHOD CALLS on shared objects; they are enumerated (`shared_calls_enumerated`) — that
   those methods do not mutate their receivers is NOT visible in package workflow.  It is an assumption, checked
   dynamically by `vharness rerun` (isolated-first-run oracle) and by the race detector build.
   FINDING (race detector, see the C14 report): the assumption is false for `e.input.Unserialize` — pluginsdk's
   `ObjectSchema.GetDefaults` fills a cache lazily and without synchronisation, so the first overlapping runs that
   omit an input field race on it.  Repaired in /repo by commit 7a544b4 (`fix:`): `Execute` now makes these two calls
   under `e.inputLock` (the two lock calls appear in `shared_calls_enumerated`), and the plugin provider computes the
   defaults of the step schemas when it loads them.
2. CLONE (`clone_independent`): `Graph.clone` of the dgraph model keeps nodes, edges and statuses and empties the ready
   set.  That an operation on the clone leaves the original unchanged is trivially true in a functional model (there is
   no aliasing to lose): the statement is recorded for what it is.  For the real `dgraph.Clone()` it is part of the
   dynamic check (a second run on an uncloned DAG fails at once: mutation `dag: e.dag` crashes the re-run stream).
3. FUNCTION (`execute_is_function_of_inputs`): the model's run is a function of (prepared workflow, functions, order,
   history) — by construction: `LoopState.init P` builds the state of every run from `P` alone, and `P` is a value.
   This says that the MODEL has no hidden channel between runs; it says nothing about the real code beyond parts 1–2
   and the differential.
-/
import Arca.Model.RunLoop
import Arca.Gen.Frame
import Arca.Proofs.LockFacts

namespace Arca.Props.C14
open Arca.Model

/-! ### 1. frame -/

/-- no statement reachable from `Execute` writes a field of the prepared workflow (or through an alias / range variable
    of one) -/
theorem run_frame : Arca.Gen.executableWorkflowWrites = [] := by decide

/-- no heap write reachable from `Execute` goes anywhere but into the loop state or a location made in the same
    function: DAG items, expression objects (`OneOfExpression`, `OptionalExpression`) and parameters are only read -/
theorem run_frame_other : Arca.Gen.otherHeapWrites = [] := by decide

/-- the `loopState` fields that a run mutates (by assignment, map update, delete, send, close — or, for `dag`,
    `context`/`cancel`, through their methods) -/
def mutableFields : List String :=
  ["dag", "data", "runningSteps", "reportedStages", "completedSteps", "finishedStages", "outputDataChannel", "outputDone",
   "waitingOutputs", "recentErrors", "context", "cancel", "lock"]

/-- initialiser kinds that cannot be shared with another run -/
def freshKinds : List String :=
  ["fresh:make", "fresh:literal", "fresh:context.WithCancel", "clone", "literal"]

def lookupS (k : String) : List (String × String) → Option String
  | [] => none
  | (k', v) :: rest => if k = k' then some v else lookupS k rest

def freshlyInitialised (f : String) : Bool :=
  match lookupS f Arca.Gen.loopStateInitKind with
  | some k => freshKinds.contains k
  | none => false

/-- every mutable field of the loop state starts from a fresh allocation, a literal or a clone -/
theorem run_state_fresh : mutableFields.all freshlyInitialised = true := by decide

/-- every field the loop writes (as extracted from the current source) is on the list above -/
theorem written_fields_are_listed :
    Arca.Gen.loopStateWrites.all (fun w => mutableFields.contains w.2) = true := by decide

/-- the fields that ARE shared with the prepared workflow are never written by the loop -/
theorem shared_fields_not_written :
    (Arca.Gen.loopStateInitKind.filter (fun p => !freshKinds.contains p.2)).all
      (fun p => Arca.Gen.loopStateWrites.all (fun w => w.2 != p.1)) = true := by decide

/-- the DAG handed to the run is the clone, and it is the only use of `Clone` needed: the literal says so -/
theorem dag_is_cloned : lookupS "dag" Arca.Gen.loopStateInit = some "e.dag.Clone()" := by decide

/-- the calls made through shared objects are exactly these; each is an assumption "does not mutate its receiver /
    argument" that package workflow cannot discharge (see the file comment for the one found false) -/
theorem shared_calls_enumerated :
    Arca.Gen.executableWorkflowSharedCalls =
      [("executableWorkflow.Execute", "e.dag.Clone"),
       ("executableWorkflow.Execute", "e.dag.ListNodes"),
       ("executableWorkflow.Execute", "e.input.Serialize"),
       ("executableWorkflow.Execute", "e.input.Unserialize"),
       ("executableWorkflow.Execute", "e.inputLock.Lock"),
       ("executableWorkflow.Execute", "e.inputLock.Unlock"),
       ("executableWorkflow.Execute", "runnableStep.Start (range:e.runnableSteps)"),
       ("executableWorkflow.Execute", "runnableStep.Start(..e.stepRunData[stepID]..)"),
       ("executableWorkflow.handleOutput", "outputSchema.Unserialize (alias:e.outputSchema)"),
       ("loopState.resolveExpressions", "expr.Evaluate(..l.callableFunctions..)"),
       ("loopState.resolveExpressions", "expr.Evaluate(..l.workflowContext..)"),
       ("loopState.resolveOptionalExpression", "expr.Expr.Evaluate(..l.callableFunctions..)"),
       ("loopState.resolveOptionalExpression", "expr.Expr.Evaluate(..l.workflowContext..)")] := by decide

/-- the expression objects of internal/infer (one-of, optional), which live in the prepared workflow's DAG items and are
    shared by all runs, are never written through their own methods (`String`, `Type`, `Dependencies`, ...): no lazily
    cached field, no counter.  The run loop calls these methods (also as arguments of log calls) under the PER-RUN lock only. -/
theorem shared_expression_objects_not_written_by_their_methods : Arca.Gen.sharedExprReceiverWrites = [] := by decide

/-- the analysis looked at the run loop: the functions that mutate the loop state are in the analysed set -/
theorem frame_covers_run_loop :
    (["executableWorkflow.Execute", "executableWorkflow.handleOutput", "loopState.onStageComplete", "loopState.notifySteps",
      "loopState.markOutputsUnresolvable", "loopState.markStageNodeUnresolvable",
      "loopState.markRemainingStagesUnresolvable", "loopState.checkForDeadlocks",
      "loopState.resolveExpressions", "loopState.resolveOneOfExpression", "loopState.resolveOptionalExpression",
      "loopState.terminateAllSteps", "loopState.reportError", "loopState.getLastError"].all
        (fun f => Arca.Gen.frameFunctions.contains f)) = true := by decide

/-! ### 1b. what a run acquires from the prepared workflow it gives back — on every path

The frame facts above say that no run WRITES a field of the prepared workflow.  The mutexes are the exception by design:
`e.inputLock` is state of the prepared workflow that every run changes and must change back.  A run that returns on some
path with the mutex held (e.g. the path that refuses an invalid input) leaves the prepared workflow different from what
an isolated first run finds: every later run blocks.  `Arca.Gen.Locks.lockFunctions` lists — from the source, on every
run — EVERY function of the run loop and the providers that calls `Lock()`; the lock-balance checker
(`Arca.Model.LockBalance`, sound w.r.t. the path semantics of the skeleton language by
`Arca.Proofs.LockBalance.balanced_sound`) is evaluated on each of them by the kernel. -/

open Arca.Model.LockBalance in
/-- soundness of the checker, restated: an accepted token list is followed completely, and every syntactic path through
    the body (and through every function literal of it that runs elsewhere) that does not end in a panic passes
    well-balanced lock events and ends with the mutex free -/
theorem lock_balance_sound (m : String) (toks : List SplitTok) (h : balanced m toks = true) :
    ∃ b, parse m toks = some b ∧
      (∀ n p, p ∈ pathsB n b → p.2 ≠ .panic → p.2.exits = true ∧ wellBalanced false p.1) ∧
      (∀ l ∈ litsB b, ∀ n p, p ∈ pathsB n l → p.2 ≠ .panic → p.2.exits = true ∧ wellBalanced false p.1) :=
  Arca.Proofs.LockBalance.balanced_sound m toks h

/-- every mutex locked by any function of the run loop / providers is released on every path to a return; the single
    exception is listed by name (`knownUnbalanced`: the run lock on the launch-failure return of `Execute`, per-run state) -/
theorem every_lock_released_on_every_path :
    Arca.Proofs.LockFacts.lockPairs.all
      (fun p => Arca.Model.LockBalance.balanced p.2.1 p.2.2 || Arca.Proofs.LockFacts.knownUnbalanced.contains (p.1, p.2.1)) = true :=
  Arca.Proofs.LockFacts.all_locks_released_on_every_path

/-- in particular the lock of the PREPARED workflow: `Execute` takes `e.inputLock` once and releases it on every path -/
theorem input_lock_balanced_in_execute :
    Arca.Model.LockBalance.balanced "e.inputLock" (Arca.Proofs.LockFacts.toksOf "workflow_workflow_executableWorkflow_Execute") = true ∧
    Arca.Model.LockBalance.lockCalls "e.inputLock" (Arca.Proofs.LockFacts.toksOf "workflow_workflow_executableWorkflow_Execute") = 1 :=
  Arca.Proofs.LockFacts.execute_input_lock_balanced

/-- the facts are about the source: non-empty, every pair contains its `Lock()` call, no labelled jump (a label is not
    part of a token), every token has a known head, and the heads are the ones the checker reads -/
theorem lock_facts_meaningful :
    (Arca.Proofs.LockFacts.lockPairs.all (fun p => decide (1 ≤ Arca.Model.LockBalance.lockCalls p.2.1 p.2.2)) = true ∧
      Arca.Proofs.LockFacts.lockPairs ≠ []) ∧
    Arca.Gen.Locks.labeledJumps = [] ∧
    Arca.Gen.Locks.lockFunctions.all (fun f => Arca.Model.LockBalance.wellSplit f.2.2.2) = true ∧
    Arca.Gen.Locks.tokenHeads = Arca.Model.LockBalance.tokHeads :=
  ⟨Arca.Proofs.LockFacts.every_pair_locks, Arca.Proofs.LockFacts.no_labeled_jumps, Arca.Proofs.LockFacts.all_well_split,
   Arca.Proofs.LockFacts.heads_agree⟩

/-- the token lists the checker read are the regenerated skeletons (`Arca.Gen.Skel`) of the pinned functions -/
theorem lock_facts_are_the_skeletons :
    (Arca.Proofs.LockFacts.toksOf "workflow_workflow_executableWorkflow_Execute").map Arca.Model.LockBalance.join =
      Arca.Gen.Skel.workflow_workflow_executableWorkflow_Execute ∧
    (Arca.Proofs.LockFacts.toksOf "workflow_workflow_loopState_onStageComplete").map Arca.Model.LockBalance.join =
      Arca.Gen.Skel.workflow_workflow_loopState_onStageComplete ∧
    (Arca.Proofs.LockFacts.toksOf "step_plugin_provider_runningStep_ProvideStageInput").map Arca.Model.LockBalance.join =
      Arca.Gen.Skel.step_plugin_provider_runningStep_ProvideStageInput ∧
    (Arca.Proofs.LockFacts.toksOf "step_foreach_provider_runningStep_ProvideStageInput").map Arca.Model.LockBalance.join =
      Arca.Gen.Skel.step_foreach_provider_runningStep_ProvideStageInput :=
  ⟨Arca.Proofs.LockFacts.execute_tokens, Arca.Proofs.LockFacts.run_loop_tokens.1, Arca.Proofs.LockFacts.plugin_provider_tokens.1,
   Arca.Proofs.LockFacts.foreach_provider_tokens.1⟩

/-- the known exception is exactly one way out of `Execute` with the per-run lock held -/
theorem run_lock_exception_is_one_exit :
    Arca.Model.LockBalance.balanced "l.lock" (Arca.Proofs.LockFacts.toksOf "workflow_workflow_executableWorkflow_Execute") = false ∧
    Arca.Proofs.LockFacts.unbalancedExits "l.lock" (Arca.Proofs.LockFacts.toksOf "workflow_workflow_executableWorkflow_Execute") = 1 :=
  Arca.Proofs.LockFacts.execute_run_lock_one_unbalanced_exit

/-! ### 2. clone -/

/-- `Clone()` keeps nodes (ids, statuses, outstanding and resolved dependencies) and edges, and starts with an empty
    ready set; and — trivially, in a functional model — whatever is computed from the clone, the original is the value it
    was -/
theorem clone_independent {ι : Type} [DecidableEq ι] (g : Graph ι) :
    g.clone.nodes = g.nodes ∧ g.clone.edges = g.edges ∧ g.clone.ready = [] ∧
    (∀ id, g.clone.statusOf id = g.statusOf id) ∧
    (∀ {α : Type} (op : Graph ι → α), (op g.clone, g).2 = g) := by
  refine ⟨rfl, rfl, rfl, fun _ => rfl, fun _ => rfl⟩

/-- cloning twice gives equal, independent starting points: two runs start from the same graph -/
theorem clone_clone {ι : Type} [DecidableEq ι] (g : Graph ι) : g.clone.clone = g.clone := rfl

/-! ### 3. the model's run is a function of its inputs -/

/-- every run starts from a state built from the prepared workflow alone -/
theorem run_starts_from_prepared (P : Prepared) :
    (LoopState.init P).dag = P.dag.clone ∧ (LoopState.init P).data = .map [] ∧
    (LoopState.init P).outputDone = false ∧ (LoopState.init P).errs = 0 ∧ (LoopState.init P).cancelled = false ∧
    (LoopState.init P).result = none ∧ (LoopState.init P).finished = [] :=
  ⟨rfl, rfl, rfl, rfl, rfl, rfl, rfl⟩

/-- equal (prepared workflow, functions, order, history) give equal results.  By construction: `run` is a Lean function
    and `Prepared` is a value, so there is no state through which an earlier or overlapping run could be seen. -/
theorem execute_is_function_of_inputs (P P' : Prepared) (fns fns' : Fns) (ord ord' : Order) (h h' : List Event)
    (hP : P = P') (hf : fns = fns') (ho : ord = ord') (hh : h = h') :
    run P fns ord h = run P' fns' ord' h' := by
  subst hP hf ho hh; rfl

/-- a sequence of runs of one prepared workflow: run `k` returns what it returns alone, whatever ran before it
    (failed, cancelled or successful), since nothing of the earlier runs is an argument of `run` -/
theorem later_run_unaffected (P : Prepared) (fns : Fns) (earlier : List (Order × List Event)) (ord : Order) (h : List Event) :
    ((earlier ++ [(ord, h)]).map (fun r => run P fns r.1 r.2)).getLast? = some (run P fns ord h) := by
  simp

end Arca.Props.C14
