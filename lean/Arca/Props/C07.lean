/-
C07 — run-time evaluation and step failures surface as errors, never as a crash (run-loop part).

`legal_history_never_panics`: for every prepared workflow satisfying the (decidable, run-time checked) well-formedness
`WF2`, every function table, every processing order that permutes the ready sets, and every history of callbacks that
respects the provider contract `LegalEvent` (a stage is reported finished only when its required dependencies are
resolved, and reported impossible only if it was not reported finished — what the providers guarantee, C12), NO
reaction of the run loop panics and the loop stays alive.  Expression evaluation cannot panic the loop at all: a failing
evaluation is reported through the error channel (`eval_failure_is_reported`).  The corrections the proof forced on the
hand-written hypotheses are each backed by a kernel-checked counterexample (Arca/Proofs/LoopSafeCex.lean).
-/
import Arca.Proofs.LoopSafe
import Arca.Proofs.LoopSafeCex
import Arca.Proofs.LoopInv

namespace Arca.Props.C07
open Arca.Model

theorem legal_history_never_panics (P : Prepared) (fns : Fns) (ord : Order) (hord : OrdOK ord) (hnd : OrdNodup ord)
    (hP : P.WF2) (h : List Event) (hl : LegalHistory P fns ord (LoopState.init P) h) :
    (∀ a ∈ (run P fns ord h).2, a.isPanic = false) ∧ (run P fns ord h).1.dead = false :=
  Arca.Model.legal_history_never_panics P fns ord hord hnd hP h hl

/-- one legal callback in a safe state: no panic, and the safety invariant is kept -/
theorem legal_callback_never_panics (P : Prepared) (fns : Fns) (ord : Order) (hord : OrdOK ord) (hnd : OrdNodup ord)
    (hP : P.WF2) (s : LoopState) (e : Event) (h : LoopDagInv P s) (hc : LoopSafeInv P s) (hl : LegalEvent P s e) :
    (∀ a ∈ (react P fns ord s e).2, a.isPanic = false) ∧ LoopSafeInv P (react P fns ord s e).1 :=
  react_legal_no_panic P fns ord hord hnd hP s e h hc hl

/-- graph level: marking a node that is not resolved unresolvable always succeeds (no "already set" conflict
    downstream) when resolved nodes are closed under their hard dependencies -/
theorem mark_unresolvable_succeeds (g : Graph String) (h : g.Inv) (hc : ResolvedClosed g) (id : String) (n : Node String)
    (hn : g.find? id = some n) (hs : n.status ≠ St.resolved) :
    ∃ g', g.resolve id St.unres = .ok g' ∧ ResolvedClosed g' :=
  Graph.resolve_unres_ok g h hc id n hn hs

/-- the propagation fuel of the graph model is never exhausted (termination of `resolve` is not assumed) -/
theorem propagation_fuel_suffices (g : Graph String) (h : g.Inv) (id : String) (st : St) :
    g.resolve id st ≠ .error DgErr.fuel :=
  Graph.resolve_no_fuel_error g h id st

/-- the loop dies only through an explicit panic action -/
theorem dead_only_by_panic (P : Prepared) (fns : Fns) (ord : Order) (s : LoopState) (e : Event)
    (hs : s.dead = false) (hd : (react P fns ord s e).1.dead = true) :
    ∃ a ∈ (react P fns ord s e).2, a.isPanic = true :=
  react_dead_only_by_panic P fns ord s e hs hd

/-- non-vacuity: `WF2` is satisfiable by a workflow with a dependency-group node -/
example : SafeCex.PC.WF2 := SafeCex.PC_wf2

end Arca.Props.C07
