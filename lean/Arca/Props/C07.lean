/-
C07 — run-time evaluation and step failures surface as errors, never as a crash (run-loop part).

`legal_history_never_panics`: for every prepared workflow satisfying the (decidable, run-time checked) well-formedness
`WF2`, every function table, every processing order that permutes the ready sets, and every history of callbacks that
respects the provider contract `LegalEvent` (a stage is reported finished only when its required dependencies are
resolved, and reported impossible only if it was not reported finished — what the providers guarantee, C12), NO
reaction of the run loop panics and the loop stays alive.  Expression evaluation cannot panic the loop at all: a failing
evaluation is reported through the error channel (`eval_failure_is_reported`).  The corrections the proof forced on the
hand-written hypotheses are each backed by a kernel-checked counterexample (Arca/Proofs/LoopSafeCex.lean).

Since the repair of finding F11 the completion callback (`Event.stepComplete`, OnStepComplete) marks every stage the step
did not go through as unresolvable (`markRemainingStagesUnresolvable`).  The statements are the same; the contract of
the new event is the one of a stage change; two hypotheses became necessary and are backed by counterexamples
(Arca/Proofs/LoopFinishedCex.lean, restated below): the state invariant has the clause `LoopSafeInv.finished` (resolved
stage / stage-output nodes belong to stages recorded in `finishedStages`), and `WF2` has `stage_unamb` (stage node ids
are unambiguous; decidable, checked on every real prepared workflow by `arcadrv`).
-/
import Arca.Proofs.LoopSafe
import Arca.Proofs.LoopSafeCex
import Arca.Proofs.LoopFinishedCex
import Arca.Proofs.LoopInv
import Arca.Gen.Recover
import Arca.Gen.Skel
import Arca.Proofs.TySkel
import Arca.Gen.Sinks
import Arca.Gen.Lifecycle
import Arca.Gen.Builtins
import Arca.Expected.C07

namespace Arca.Props.C07
open Arca.Model

theorem legal_history_never_panics (P : Prepared) (fns : Fns) (ord : Order) (hord : OrdOK ord) (hnd : OrdNodup ord)
    (hP : P.WF2) (h : List Event) (hl : LegalHistory P fns ord (LoopState.init P) h) :
    (∀ a ∈ (run P fns ord h).2, a.isPanic = false) ∧ (run P fns ord h).1.dead = false :=
  Arca.Model.legal_history_never_panics P fns ord hord hnd hP h hl

/-- one legal callback in a safe state: no panic, and the safety invariant is kept -/
theorem legal_callback_never_panics (P : Prepared) (fns : Fns) (ord : Order) (hord : OrdOK ord) (hnd : OrdNodup ord)
    (hP : P.WF2) (s : LoopState) (e : Event) (h : LoopDagInv P s) (hc : LoopSafeInv P s) (hl : LegalEvent P s e) :
    (∀ a ∈ (react P fns ord s e).2, a.isPanic = false) ∧ LoopSafeInv P (react P fns ord s e).1 :=
  react_legal_no_panic P fns ord hord hnd hP s e h hc hl

/-- graph level: marking a node that is not resolved unresolvable always succeeds (no "already set" conflict
    downstream) when resolved nodes are closed under their hard dependencies -/
theorem mark_unresolvable_succeeds (g : Graph String) (h : g.Inv) (hc : ResolvedClosed g) (id : String) (n : Node String)
    (hn : g.find? id = some n) (hs : n.status ≠ St.resolved) :
    ∃ g', g.resolve id St.unres = .ok g' ∧ ResolvedClosed g' :=
  Graph.resolve_unres_ok g h hc id n hn hs

/-- the propagation fuel of the graph model is never exhausted (termination of `resolve` is not assumed) -/
theorem propagation_fuel_suffices (g : Graph String) (h : g.Inv) (id : String) (st : St) :
    g.resolve id st ≠ .error DgErr.fuel :=
  Graph.resolve_no_fuel_error g h id st

/-- the loop dies only through an explicit panic action -/
theorem dead_only_by_panic (P : Prepared) (fns : Fns) (ord : Order) (s : LoopState) (e : Event)
    (hs : s.dead = false) (hd : (react P fns ord s e).1.dead = true) :
    ∃ a ∈ (react P fns ord s e).2, a.isPanic = true :=
  react_dead_only_by_panic P fns ord s e hs hd

/-- why `LoopSafeInv` has the clause `finished` now: with the state invariant as it was before the repair of F11 a legal
    completion callback can panic (the loop marks a resolved stage node it does not find in `finishedStages`) -/
theorem completion_needs_finished_bookkeeping :
    ¬ (∀ (P : Prepared) (fns : Fns) (ord : Order), OrdOK ord → OrdNodup ord → P.WF2 → ∀ (s : LoopState) (e : Event),
        LoopDagInv P s → ResolvedClosed s.dag → s.dag.ready.Nodup →
        (∀ id ∈ s.dag.ready, isGroup P id → ¬ statusIs s.dag id St.resolved) →
        (∀ n ∈ s.dag.nodes, n.status = St.resolved → isGroup P n.id → ∀ p ∈ n.out, p.2.hard = false) →
        LegalEvent P s e →
        (∀ a ∈ (react P fns ord s e).2, a.isPanic = false) ∧ ResolvedClosed (react P fns ord s e).1.dag) :=
  SafeCex.react_needs_finished_inv

/-- why `WF2` has the clause `stage_unamb` now: with `WF2` as it was before the repair of F11 (`SafeCex.WF2Prev`) a legal
    history makes the loop panic when a stage node id can be read as a stage of two different steps -/
theorem completion_needs_unambiguous_stage_ids :
    ¬ (∀ (P : Prepared) (fns : Fns) (ord : Order), OrdOK ord → OrdNodup ord → SafeCex.WF2Prev P → ∀ h : List Event,
        LegalHistory P fns ord (LoopState.init P) h →
        (∀ a ∈ (run P fns ord h).2, a.isPanic = false) ∧ (run P fns ord h).1.dead = false) :=
  SafeCex.hist_needs_stage_unamb

/-- non-vacuity: `WF2` is satisfiable by a workflow with a dependency-group node -/
example : SafeCex.PC.WF2 := SafeCex.PC_wf2

/-! ## The tie of "evaluation faults become errors" to the source

The model's `eval_failure_is_reported` covers every outcome of an evaluation that RETURNS.  A Go panic during evaluation is
turned into a returned error by the deferred recover handler of `resolveExpressions`; that step is outside the model and is
tied to the code here, over the regenerated tables `Arca.Gen.recoverSites / recoverAsserts / runAsserts / builtinSinks`:

* the handler exists, and nothing inside a recover handler (anywhere in the engine library) asserts a type on the recovered
  value without comma-ok - `recover()` returns whatever was passed to `panic`, which for reflect misuse is a plain string,
  so `r.(error)` would itself panic inside the handler, on a goroutine nobody recovers;
* the unchecked type assertions of the run loop are the ones justified in Arca/Expected/C07.lean;
* what recover cannot catch ("fatal error: out of memory") is kept away by range checks inside the built-ins: every integer
  parameter that reaches a library call as a size-like argument is guarded by a check on that parameter ALONE. -/

/-- No type assertion without comma-ok inside a deferred recover handler or on a value produced by `recover()`, in any
    non-test file of the engine library. -/
theorem no_unchecked_assertion_on_recovered_value :
    Arca.Gen.recoverAsserts.filter (fun a => !a.2.2.2.2) = [] := by decide

/-- `resolveExpressions` (every frame of the recursion) defers a recover handler. -/
theorem resolveExpressions_recovers :
    ("workflow/workflow.go", "loopState.resolveExpressions") ∈ Arca.Gen.recoverSites := by decide

/-! ### defaults of the input section are decoded while the workflow is prepared (fix 2d63d83)

The SDK decodes the default values of an object schema on first use and PANICS on one it cannot decode; for the input
section of a workflow that first use was the first run.  In the current source `Prepare` decodes them (on copies, under
`recover`) before anything else looks at the input scope, and a failure leaves `processInput` through the error return. -/

/-- `processInput` validates the defaults right after the scope was unserialized, and the failure branch returns -/
theorem input_defaults_validated_when_prepared :
    (Arca.Proofs.Ty.after "call:validateDefaults(typedInput)" Arca.Gen.Skel.workflow_executor_executor_processInput).take 3
      = ["if(err != nil){", "return", "}"] := by decide

/-- `Prepare` processes the input section before it loads any step -/
theorem input_processed_before_steps :
    Arca.Proofs.Ty.occursBefore "call:e.processInput(workflow)" (fun t => t == "call:e.processSteps(workflow,dag,workflowContext)")
      Arca.Gen.Skel.workflow_executor_executor_Prepare = true := by decide

/-- the validation runs under a recover handler (a default the SDK cannot decode becomes an error, not a crash) and decodes
    the defaults of every object of the scope -/
theorem validateDefaults_recovers_and_decodes :
    ("workflow/executor.go", "validateDefaults") ∈ Arca.Gen.recoverSites ∧
    "call:recover()" ∈ Arca.Gen.Skel.workflow_executor__validateDefaults ∧
    (Arca.Proofs.Ty.after "range(scope.Objects()){" Arca.Gen.Skel.workflow_executor__validateDefaults).take 1
      = ["call:schema.NewObjectSchema(object.ID(), object.Properties()).GetDefaults()"] := by decide

/-- The recover handlers of the engine library are the two that were reviewed. -/
theorem recover_sites_pinned : Arca.Gen.recoverSites = Arca.Expected.C07.recoverSites := by rfl

/-- The unchecked type assertions of workflow/workflow.go are exactly the reviewed ones (all on containers the run loop
    allocated itself, none on run-time data). -/
theorem run_loop_unchecked_assertions_pinned :
    Arca.Gen.runUncheckedAsserts = Arca.Expected.C07.runUncheckedAsserts := by decide

/-- The integer parameters of built-in handlers that flow into library calls are the reviewed ones. -/
theorem builtin_sinks_pinned : Arca.Gen.builtinSinks = Arca.Expected.C07.builtinSinks := by rfl

/-- Every integer parameter of a built-in that reaches a library call is either a plain value there or range-checked, before
    the call, by a condition that mentions no other parameter or local variable (so it holds for every value of the other
    arguments). -/
theorem numeric_sink_arguments_guarded :
    ∀ r ∈ Arca.Gen.builtinSinks, (r.2.1, r.2.2.1) ∈ Arca.Expected.C07.valueSinks ∨ r.2.2.2.2.2 ≠ [] := by decide

/-- floatToFormattedString: the precision handed to strconv.FormatFloat is checked against exactly the declared parameter
    range `[-1, maxFormatPrecision]`, whatever the format is, and that bound is small (the up-front allocation of FormatFloat
    is `precision + 4` bytes). -/
theorem format_float_precision_guarded_for_every_format :
    (∃ r ∈ Arca.Gen.builtinSinks, r.1 = "floatToFormattedString" ∧ r.2.1 = "strconv.FormatFloat" ∧ r.2.2.1 = 2 ∧
        r.2.2.2.1 = "precision" ∧ r.2.2.2.2.2 = ["precision < -1 || precision > maxFormatPrecision"]) ∧
    (∃ b ∈ Arca.Gen.builtins, b.id = "floatToFormattedString" ∧
        b.params[2]? = some "int[schema.PointerTo[int64](-1),schema.PointerTo[int64](maxFormatPrecision)]") ∧
    (∃ c ∈ Arca.Gen.builtinGuardBounds, c.1 = "maxFormatPrecision" ∧ c.2 ≤ 1000000) := by
  refine ⟨?_, ?_, ?_⟩ <;> decide

/-- Every input field of every lifecycle stage of both step kinds is a position at which the `evalpos` stream places
    faulty expressions. -/
theorem positions_cover_lifecycle_inputs :
    ∀ row ∈ Arca.Gen.pluginStages ++ Arca.Gen.foreachStages, ∀ f ∈ row.inputFields,
      f ∈ Arca.Expected.C07.coveredInputFields := by decide

/-- non-vacuity of the tables: there is a recover site, there are run-loop assertions, there is a guarded sink -/
example : Arca.Gen.recoverSites ≠ [] ∧ Arca.Gen.runUncheckedAsserts ≠ [] ∧ Arca.Gen.builtinSinks ≠ [] := by decide

/-- … and by a step with two stages, on which a history with a completion callback is legal and fine -/
example : SafeCex.PG.WF2 := SafeCex.PG_wf2
example : SafeCex.hasPanic (run SafeCex.PG SafeCex.fns0 id [.start .null, .stageChange "a" (some "s") none false,
    .stepComplete "a" "t" none false]).2 = false := SafeCex.PG_run_fine

end Arca.Props.C07
