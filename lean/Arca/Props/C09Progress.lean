/-
C09 — what counts as progress for the fallback deadlock detector, read from the REGENERATED control skeletons
(`Arca.Gen.Skel.*`: token lists extracted from the current source on every run).

The property says that the engine reports "no step can make progress" only when that is really so, for every placement
of delays including a delay at a goroutine start and a delay between being handed an input and picking it up.  Two facts of
the source carry that for the windows in which a step has not yet executed / not yet consumed anything:

* a step whose goroutine has been launched but has not run yet is in state `starting` (the state `Start` creates it in);
  `checkForDeadlocks` reaches its report only through a guard that requires `counters.starting == 0` AND
  `counters.running == 0` (`starting_counts_as_progress`); in the model of the polling a single poll that sees a
  `starting` step stops the detector (`starting_step_stops_detector`), however long that goroutine is held;
* the foreach provider hands the items over (`send:r.executeInput`) in the same critical section in which it moves a step
  that is waiting in its execute stage to `running` (`foreach_items_handed_over_as_running`): from the moment the items
  have been provided the step never answers `waiting_for_input`, however slow `run()` is to receive them and however long
  the sub-workflows take.

The schedule sweeps (`vharness sched`, goroutine-start points and foreach workflows with real durations) exhibit the
failing runs when one of these facts is edited away; these theorems name the fact.
-/
import Arca.Model.SkelUtil
import Arca.Proofs.PluginState
import Arca.Gen.Skel

namespace Arca.Props.C09
open Arca.Model.Skel Arca.Gen.Skel Arca.Model.PluginState

/-- `p` occurs somewhere in `l` (character lists: reduces in the kernel) -/
def infixOf (p : List Char) : List Char → Bool
  | [] => p.isEmpty
  | c :: t => p.isPrefixOf (c :: t) || infixOf p t

/-- the token mentions the text `s` -/
def mentions (s : String) : String → Bool := fun t => infixOf s.toList t.toList

/-- the report of `ErrNoMorePossibleSteps` -/
def isNoMoreStepsReport : String → Bool := startsWith "call:l.reportError(&ErrNoMorePossibleSteps"

/-- the tokens of `checkForDeadlocks` in front of its report -/
def beforeReport : List String :=
  workflow_workflow_loopState_checkForDeadlocks.takeWhile (fun t => !isNoMoreStepsReport t)

/-- `checkForDeadlocks` reports "no more possible steps" only behind a purely conjunctive guard that requires that no step
    is `starting` and that no step is `running`: a step in state `starting` counts as progress.  (No block is closed and
    no `else` is entered in front of the report, so every `if(` in front of it encloses it.) -/
theorem starting_counts_as_progress :
    has isNoMoreStepsReport workflow_workflow_loopState_checkForDeadlocks = true ∧
    (beforeReport.filter (startsWith "if(")).all (fun g => !mentions "||" g) = true ∧
    has (fun g => startsWith "if(" g && mentions "counters.starting == 0" g && mentions "counters.running == 0" g)
      beforeReport = true ∧
    has (startsWith "}") beforeReport = false ∧ has (startsWith "else") beforeReport = false := by
  decide +kernel

/-- a poll that sees a `starting` step is not idle -/
theorem idle_false_of_starting (p : List RState) (h : RState.starting ∈ p) : idle p = false := by
  induction p with
  | nil => cases h
  | cons x xs ih =>
    simp only [idle, List.all_cons] at ih ⊢
    rcases List.mem_cons.mp h with hx | hx
    · subst hx
      simp
    · rw [ih hx]
      simp

/-- a goroutine held at its very start: the step is `starting` for as long as the hold lasts, and one poll among the
    `retries + 1` that sees it stops the detector -/
theorem starting_step_stops_detector (polls : List (List RState)) (i : Nat) (p : List RState)
    (hi : i ≤ Arca.Gen.detectorRetries) (hp : polls[i]? = some p) (hs : RState.starting ∈ p) :
    detectorFires Arca.Gen.detectorRetries polls = false :=
  Arca.Proofs.PluginState.busy_poll_stops _ polls i p hi hp (idle_false_of_starting p hs)

/-- the foreach provider's `ProvideStageInput`: the whole handler is one critical section of the step lock (locked first,
    unlocked only by the deferred call); in the execute arm a step that is waiting for its items is moved to `running`
    before the items are put on the channel. -/
theorem foreach_items_handed_over_as_running :
    firstBefore (isTok "call:r.lock.Lock()") (startsWith "switch(") step_foreach_provider_runningStep_ProvideStageInput = true ∧
    adjacent (isTok "defer{") (isTok "call:r.lock.Unlock()") step_foreach_provider_runningStep_ProvideStageInput = true ∧
    count (isTok "call:r.lock.Unlock()") step_foreach_provider_runningStep_ProvideStageInput = 1 ∧
    adjacent
      (fun g => startsWith "if(" g && mentions "r.currentState == step.RunningStepStateWaitingForInput" g &&
        mentions "r.currentStage == StageIDExecute" g && !mentions "||" g)
      (isTok "set:r.currentState=step.RunningStepStateRunning") step_foreach_provider_runningStep_ProvideStageInput = true ∧
    firstBefore (isTok "set:r.currentState=step.RunningStepStateRunning") (isTok "send:r.executeInput")
      step_foreach_provider_runningStep_ProvideStageInput = true ∧
    firstBefore (isTok "case(string(StageIDExecute)):") (isTok "set:r.currentState=step.RunningStepStateRunning")
      step_foreach_provider_runningStep_ProvideStageInput = true ∧
    firstBefore (isTok "send:r.executeInput") (isTok "case(string(StageIDOutputs)):")
      step_foreach_provider_runningStep_ProvideStageInput = true := by
  decide +kernel

/-- `run()` of the foreach provider does not write `waiting_for_input` once the sub-workflows are under way: `processInput`
    runs them first and the only state it writes afterwards is `running` / `finished` -/
theorem foreach_loop_never_waits_while_working :
    firstBefore (startsWith "call:r.executeSubWorkflows(") (startsWith "set:r.currentState=")
      step_foreach_provider_runningStep_processInput = true ∧
    has (isTok "set:r.currentState=step.RunningStepStateWaitingForInput") step_foreach_provider_runningStep_processInput = false ∧
    has (isTok "set:r.currentState=step.RunningStepStateWaitingForInput") step_foreach_provider_runningStep_runOnInput = false := by
  decide +kernel

/-! ## non-vacuity -/

example : mentions "counters.starting == 0" "if(counters.starting == 0 && counters.running == 0){" = true := by decide
example : mentions "counters.starting == 0" "if(counters.running == 0 && !hasReadyNodes){" = false := by decide
/-- four idle polls fire the detector; the same polls with a `starting` step in the third do not -/
example : detectorFires Arca.Gen.detectorRetries [[.waiting], [.finished], [.waiting], [.waiting]] = true := by decide
example : detectorFires Arca.Gen.detectorRetries [[.waiting], [.finished], [.waiting, .starting], [.waiting]] = false := by decide

end Arca.Props.C09
