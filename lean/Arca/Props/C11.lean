/-
C11 — parsing any files yields a workflow or an error, never a crash or endless loop.

Property theorems only (helper lemmas: Arca/Proofs/YamlLemmas.lean, Arca/Proofs/YamlSubWf.lean).

Scope.  The model starts at the node tree gopkg.in/yaml.v3 produces (`YNode`); yaml.v3 (bytes → nodes),
`expressions.New` (`Env.parseExpr`: accepts, rejects or panics), the regular expression of `!ordisabled` (`Env.stepPath`), path normalisation
(`norm`) and the schema unserialization that follows `yamlBuildExpressions` in `FromYAML` are parameters / outside the
model; they are exercised by the correspondence streams (`vharness parse -mode tree|fs|bytes`).  All theorems quantify
over every node tree, every environment and every finite file system.
-/
import Arca.Proofs.YamlLemmas
import Arca.Proofs.YamlSubWf
import Arca.Gen.Asserts
import Arca.Expected.Asserts

namespace Arca.Props.C11
open Arca.Model.Yaml Arca.Model.SubWf

/-! ## the YAML layer -/

/-
FULL STATEMENT (false over the whole node alphabet):

  theorem transform_never_panics (t : YNode) : ∀ s, transform t ≠ .panic s

`transform` evaluates `n.Content[0]` for a document node without checking `len(n.Content)`; the tree `YNode.doc []`
makes it index out of range (`transform_panics_on_empty_document` below).  gopkg.in/yaml.v3 never produces such a node
(`parser.document()` always appends exactly one child, and `Parse` is the only caller of `transform`), so no byte
string triggers it — the differential streams confirm this — but the guarantee lives in yaml.v3, not in the engine.
The hypothesis `docsOk` of the partial version says exactly that: every document node that `transform` can reach has
a child.
-/
theorem transform_never_panics_partial (t : YNode) (h : t.docsOk = true) : ∀ s, transform t ≠ .panic s := by
  intro s hs
  have := transform_no_panic t h
  simp [hs, Out.isPanic] at this

/-- the counterexample that makes the hypothesis necessary -/
theorem transform_panics_on_empty_document : (transform (.doc [])).isPanic = true := rfl

/-- what `yaml.Unmarshal(data, &n)` leaves in `n`: the zero node for an empty stream, otherwise a document node with
    exactly one child that contains no further document nodes -/
def fromYamlV3 : YNode → Bool
  | .empty => true
  | .doc [c] => c.docsOk
  | _ => false

/-- `yaml.New().Parse(data)` never panics on anything yaml.v3 hands over -/
theorem parse_never_panics (t : YNode) (h : fromYamlV3 t = true) : ∀ s, parse t ≠ .panic s := by
  apply transform_never_panics_partial
  match t, h with
  | .empty, _ => rfl
  | .doc [c], h => simpa [fromYamlV3, YNode.docsOk] using h

/-- `Raw()` (how input files are decoded, `engineWorkflow.Run`) returns a value for every node a successful
    `transform` produced — in particular `n.contents[i].Raw().(string)` cannot fail and no index is out of range. -/
theorem raw_never_panics (t : YNode) (n : Node) (h : transform t = .ok n) : ∃ v, raw n = .ok v :=
  raw_wf n (transform_wf t n h)

/-- On a transformed map node `MapKeys` and `MapKey` are total, and every key `MapKeys` lists is found by `MapKey`
    (so the discarded `found` result in `yamlBuildExpressions` / `buildOneOfExpressions` never hides a nil node). -/
theorem mapKey_total_on_transformed (t : YNode) (n : Node) (h : transform t = .ok n) (hmap : n.typeID = .map) :
    (∃ ks, mapKeys n = .ok ks ∧ ∀ key ∈ ks, ∃ m, mapKey n key = .ok (some m)) ∧
    (∀ key, ∃ r, mapKey n key = .ok r) := by
  have hwf := transform_wf t n h
  obtain ⟨ks, hks⟩ := mapKeys_wf hwf hmap
  refine ⟨⟨ks, hks, fun key hk => ?_⟩, fun key => ?_⟩
  · obtain ⟨m, hm, _⟩ := mapKey_of_mapKeys hwf hmap hks key hk
    exact ⟨m, hm⟩
  · obtain ⟨r, hr, _⟩ := mapKey_wf key hwf hmap
    exact ⟨r, hr⟩

/-- `yamlBuildExpressions` (with `buildExpression`, `buildOneOfExpressions`, `buildResultOrDisabledExpression`,
    `buildOptionalExpression`, `compileExpression`) never panics on a node a successful `transform` produced, whatever
    the expression parser does — accept, reject or panic — and whatever the regular expression answers.
    (Before commit 55d02b1 this needed the hypothesis that `expressions.New` does not panic: v0.4.6 dereferences a nil
    token for texts ending in a binary operator, e.g. `a: !expr '1 +'`; found by the tree stream, seed 3.) -/
theorem buildExpressions_never_panics (env : Env) (t : YNode) (n : Node) (h : transform t = .ok n) :
    ∀ s, buildExpressions env n ≠ .panic s := by
  intro s hs
  have := build_no_panic env n (transform_wf t n h)
  simp [buildExpressions] at hs
  simp [hs, Out.isPanic] at this

/-- an environment in which the expression parser panics on the witness text, as `expressions.New("1 +")` does -/
def panickingEnv : Env :=
  { parseExpr := fun s => if s == "1 +" then .panics else .rejected
    stepPath := fun _ => none }

/-- a panic of the expression parser is reported as the ordinary "failed to compile expression" error:
    the document `!expr '1 +'` transforms fine and `yamlBuildExpressions` returns that error -/
theorem expression_parser_panic_is_reported_as_error :
    ∃ n, transform (.doc [.scalar "!expr" "1 +"]) = .ok n ∧ buildExpressions panickingEnv n = .err .exprCompile :=
  ⟨_, rfl, by simp [buildExpressions, build, Node.tag, buildExpression, compileExpression, Node.typeID, Node.value,
    panickingEnv]⟩

/-- the same for every environment and every text, in `buildExpression` -/
theorem buildExpression_recovers (env : Env) (tag text : String) (h : env.parseExpr text = .panics) :
    buildExpression env (.mk .str tag [] text) = .err .exprCompile := by
  simp [buildExpression, Node.typeID, Node.value, compileExpression_of_panics env text h]

/-- `FromYAML` up to and including `yamlBuildExpressions`, and `Parse` + `Raw`, as one statement about what yaml.v3
    hands over -/
theorem parse_path_never_panics (env : Env) (t : YNode) (h : fromYamlV3 t = true) :
    (∀ s, fromYamlPrefix env t ≠ .panic s) ∧ (∀ s, parseRaw t ≠ .panic s) := by
  have hp := parse_never_panics t h
  simp only [parse] at hp
  constructor
  · intro s hs
    unfold fromYamlPrefix at hs
    cases ht : transform t with
    | panic s' => exact hp s' ht
    | err e => simp [ht] at hs
    | ok n =>
      simp only [ht] at hs
      cases hb : build env n with
      | panic s' => exact buildExpressions_never_panics env t n ht s' hb
      | err e => simp [hb] at hs
      | ok v => simp [hb] at hs
  · intro s hs
    unfold parseRaw at hs
    cases ht : transform t with
    | panic s' => exact hp s' ht
    | err e => simp [ht] at hs
    | ok n =>
      obtain ⟨v, hv⟩ := raw_never_panics t n ht
      simp [ht, hv] at hs

/-! ## sub-workflow discovery -/

/-- The termination argument Lean accepted for `subworkflowCache` (no fuel): following a reference to a file that
    exists and is not in the chain strictly decreases the number of files outside the chain. -/
theorem chain_measure_decreases (fs : FS) (chain : List String) (p : String) (c : FileContent)
    (hl : lookup fs p = some c) (hn : ¬ p ∈ chain) : unvisited fs (chain ++ [p]) < unvisited fs chain :=
  unvisited_lt hl hn

/-- For every finite file system (self-references, mutual references, any depth), every list of steps and every chain,
    `subworkflowCache` returns a cache or an error.  No divergence: the function is total in Lean by well-founded
    recursion on `unvisited fs chain` (`chain_measure_decreases`).  No panic: the result type has a `panic` outcome, and
    no statement produces it — `StepWorkflowPaths` uses only checked assertions (pinned by
    `unchecked_assertions_pinned`) and `FromYAML` returns a workflow or an error (`parse_path_never_panics`). -/
theorem subworkflowCache_total (norm : String → String) (fs : FS) (steps : List Step)
    (acc : List (List String)) (chain : List String) :
    (∃ files, subworkflowCache norm fs steps acc chain = .ok files) ∨
    (∃ e, subworkflowCache norm fs steps acc chain = .error e) := by
  cases h : subworkflowCache norm fs steps acc chain with
  | ok files => exact Or.inl ⟨files, rfl⟩
  | error e => exact Or.inr ⟨e, rfl⟩
  | panic s => exact absurd h (cache_no_panic norm fs _ chain rfl steps acc s)

/-- the file-cache part of `Parse` likewise -/
theorem parseFiles_total (norm : String → String) (fs : FS) (root : String) :
    (∃ files, parseFiles norm fs root = .ok files) ∨ (∃ e, parseFiles norm fs root = .error e) := by
  cases h : parseFiles norm fs root with
  | ok files => exact Or.inl ⟨files, rfl⟩
  | error e => exact Or.inr ⟨e, rfl⟩
  | panic s =>
    exfalso
    unfold parseFiles at h
    split at h
    · cases h
    · cases h
    · split at h
      · cases h
      · rename_i s' hsub
        exact cache_no_panic norm fs _ [] rfl _ [] s' hsub
      · cases h

/-- file `q` is transitively referenced from the foreach steps of the root workflow -/
def ReachFrom (norm : String → String) (fs : FS) (root q : String) : Prop :=
  ∃ steps, lookup fs root = some (.wf steps) ∧ Reach norm fs steps q

/-- If `Parse` gets past sub-workflow discovery, the merged cache holds the root and every transitively referenced
    file, and each of them exists, converts and is not on a reference cycle.  Conversely, if some transitively
    referenced file is missing, does not convert, or is on a reference cycle, the result is an error. -/
theorem subworkflows_found_or_reported (norm : String → String) (fs : FS) (root : String) :
    (∀ files, parseFiles norm fs root = .ok files →
      root ∈ files ∧ ∀ q, ReachFrom norm fs root q →
        q ∈ files ∧ (∃ st, lookup fs (norm q) = some (.wf st)) ∧ ¬ OnCycle norm fs q) ∧
    ((∃ q, ReachFrom norm fs root q ∧
        (lookup fs (norm q) = none ∨ lookup fs (norm q) = some .invalid ∨ OnCycle norm fs q)) →
      ∃ e, parseFiles norm fs root = .error e) := by
  have key : ∀ files, parseFiles norm fs root = .ok files →
      root ∈ files ∧ ∀ q, ReachFrom norm fs root q →
        q ∈ files ∧ (∃ st, lookup fs (norm q) = some (.wf st)) ∧ ¬ OnCycle norm fs q := by
    intro files h
    unfold parseFiles at h
    split at h
    · cases h
    · cases h
    · rename_i steps hroot
      split at h
      · cases h
      · cases h
      · rename_i sub hsub
        injection h with h
        subst h
        refine ⟨by simp, ?_⟩
        rintro q ⟨steps', hl, hreach⟩
        have := lookup_wf_inj hroot hl
        subst this
        have hg := cache_inv norm fs _ [] rfl steps [] sub hsub q hreach
        exact ⟨by simp [hg.1], hg.2.2.1, hg.2.2.2⟩
  refine ⟨key, ?_⟩
  rintro ⟨q, hreach, hbad⟩
  rcases parseFiles_total norm fs root with ⟨files, h⟩ | ⟨e, h⟩
  · obtain ⟨_, hall⟩ := key files h
    obtain ⟨_, ⟨st, hst⟩, hnc⟩ := hall q hreach
    rcases hbad with hb | hb | hb
    · rw [hst] at hb; cases hb
    · rw [hst] at hb; cases hb
    · exact absurd hb hnc
  · exact ⟨e, h⟩

/-- Completeness: sub-workflow discovery fails only when there is something to report — if the root converts and every
    transitively referenced file exists, converts and is not on a reference cycle, the cache is built. -/
theorem subworkflows_error_only_if_problem (norm : String → String) (fs : FS) (root : String) (steps : List Step)
    (hroot : lookup fs root = some (.wf steps))
    (hgood : ∀ q, ReachFrom norm fs root q → (∃ st, lookup fs (norm q) = some (.wf st)) ∧ ¬ OnCycle norm fs q) :
    ∃ files, parseFiles norm fs root = .ok files := by
  obtain ⟨files, hfiles⟩ := cache_complete norm fs _ [] rfl steps [] (fun q hq => by
    obtain ⟨hv, hc⟩ := hgood q ⟨steps, hroot, hq⟩
    exact ⟨hv, by simp, hc⟩)
  exact ⟨files ++ [root], by simp [parseFiles, hroot, subworkflowCacheTop, hfiles]⟩

/-! ## the tie to the source: unchecked type assertions of the parse path -/

/-- The only type assertions without comma-ok in engine.go, internal/yaml/parser.go, workflow/yaml.go and
    loadfile/loadfile.go are the ones the model accounts for (see Arca/Expected/Asserts.lean). -/
theorem unchecked_assertions_pinned : Arca.Gen.uncheckedAsserts = Arca.Expected.uncheckedAsserts := by decide

/-! ## non-vacuity -/

/-- a mapping with a sequence as key is rejected by `transform` (it used to panic later) -/
example : transform (.doc [.map "!!map" "" [(.seq "!!seq" "" [.scalar "!!str" "a"], .scalar "!!str" "v")]])
    = .err .nonScalarKey := rfl

/-- a well-formed document is transformed, decoded by `Raw`, and its `!expr` is built -/
def demoDoc : YNode :=
  .doc [.map "!!map" "" [(.scalar "!!str" "k", .scalar "!expr" "$.input.name"), (.scalar "!!str" "l", .seq "!!seq" "" [.scalar "!!int" "1"])]]

def demoEnv : Env :=
  { parseExpr := fun s => if s == "$.input.name" then .compiles else .rejected
    stepPath := fun _ => none }

example : (match parseRaw demoDoc with
    | .ok (.map [("k", .str "$.input.name"), ("l", .seq [.str "1"])]) => true
    | _ => false) = true := rfl

example : (match fromYamlPrefix demoEnv demoDoc with
    | .ok (.map [("k", .expr "$.input.name"), ("l", .seq [.str "1"])]) => true
    | _ => false) = true := by
  simp [fromYamlPrefix, demoDoc, demoEnv, transform, transformEntries, transformList, keysScalar, YNode.isScalar,
    build, buildKeys, buildList, mapKeys, mapKeysC, mapKey, mapKeyC, raw, Node.typeID, Node.contents, Node.tag, Node.value,
    buildExpression, compileExpression, Out.mapOk]

/-- a `!expr` tag on a sequence is an error, not a crash -/
example : fromYamlPrefix demoEnv (.doc [.seq "!expr" "" [.scalar "!!str" "a"]]) = .err (.build .nonString) := by
  simp [fromYamlPrefix, transform, transformList, build, Node.tag, buildExpression, Node.typeID]

def foreachStep (file : String) : Step := .map (some (.str "foreach")) (some (.str file))

/-- two files whose loop steps reference each other -/
def cycleFS : FS :=
  [("workflow.yaml", .wf [foreachStep "a.yaml"]),
   ("a.yaml", .wf [foreachStep "b.yaml"]),
   ("b.yaml", .wf [foreachStep "a.yaml"])]

theorem cycleFS_reaches_b : ReachFrom id cycleFS "workflow.yaml" "b.yaml" :=
  ⟨_, rfl, .trans (p := "a.yaml") (by decide) rfl (.direct (by decide))⟩

theorem cycleFS_b_on_cycle : OnCycle id cycleFS "b.yaml" :=
  ⟨_, rfl, "b.yaml", .trans (p := "a.yaml") (by decide) rfl (.direct (by decide)), rfl⟩

/-- the 2-cycle is reported -/
example : ∃ e, parseFiles id cycleFS "workflow.yaml" = .error e :=
  (subworkflows_found_or_reported id cycleFS "workflow.yaml").2
    ⟨"b.yaml", cycleFS_reaches_b, Or.inr (Or.inr cycleFS_b_on_cycle)⟩

/-- … and the error is the cycle error (computed by unfolding the model) -/
example : parseFiles id cycleFS "workflow.yaml" = .error .cycle := by
  simp [parseFiles, cycleFS, foreachStep, subworkflowCacheTop, subworkflowCache, loopFiles, lookup, stepWorkflowPaths,
    addStepPath, stepPath, insertNew, allPresent]

/-- a reference to a file that does not exist is reported as missing -/
example : parseFiles id [("workflow.yaml", .wf [foreachStep "gone.yaml"])] "workflow.yaml" = .error .missing := by
  simp [parseFiles, foreachStep, subworkflowCacheTop, subworkflowCache, lookup, stepWorkflowPaths, addStepPath, stepPath,
    insertNew, allPresent]

/-- a diamond (shared sub-workflow) is accepted and the shared file is in the cache -/
def diamondFS : FS :=
  [("workflow.yaml", .wf [foreachStep "a.yaml", foreachStep "b.yaml", .map (some .other) (some (.str "never.yaml")), .notMap]),
   ("a.yaml", .wf [foreachStep "shared.yaml"]),
   ("b.yaml", .wf [foreachStep "shared.yaml", .map (some (.str "foreach")) none]),
   ("shared.yaml", .wf [])]

example : parseFiles id diamondFS "workflow.yaml" =
    .ok ["shared.yaml", "shared.yaml", "shared.yaml", "a.yaml", "b.yaml", "workflow.yaml"] := by
  simp [parseFiles, diamondFS, foreachStep, subworkflowCacheTop, subworkflowCache, loopFiles, lookup, stepWorkflowPaths,
    addStepPath, stepPath, insertNew, allPresent]

end Arca.Props.C11
