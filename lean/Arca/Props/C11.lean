/-
C11 — parsing any files yields a workflow or an error, never a crash or endless loop.

Property theorems only (helper lemmas: Arca/Proofs/YamlLemmas.lean, Arca/Proofs/YamlSubWf.lean).

Scope.  The model starts at the node tree gopkg.in/yaml.v3 produces (`YNode`); yaml.v3 (bytes → nodes),
`expressions.New` (`Env.parseExpr`: accepts, rejects or panics), the regular expression of `!ordisabled` (`Env.stepPath`), path normalisation
(`norm`) and the schema unserialization that follows `yamlBuildExpressions` in `FromYAML` are parameters / outside the
model; they are exercised by the correspondence streams (`vharness parse -mode tree|fs|bytes`).  All theorems quantify
over every node tree, every environment and every finite file system.
-/
import Arca.Proofs.YamlLemmas
import Arca.Proofs.YamlSubWf
import Arca.Gen.Asserts
import Arca.Expected.Asserts

namespace Arca.Props.C11
open Arca.Model.Yaml Arca.Model.SubWf

/-! ## the YAML layer -/

/-
FULL STATEMENT (false over the whole node alphabet):

  theorem transform_never_panics (t : YNode) : ∀ s, transform t ≠ .panic s

`transform` evaluates `n.Content[0]` for a document node without checking `len(n.Content)`; the tree `YNode.doc []`
makes it index out of range (`transform_panics_on_empty_document` below).  gopkg.in/yaml.v3 never produces such a node
(`parser.document()` always appends exactly one child, and `Parse` is the only caller of `transform`), so no byte
string triggers it — the differential streams confirm this — but the guarantee lives in yaml.v3, not in the engine.
The hypothesis `docsOk` of the partial version says exactly that: every document node that `transform` can reach has
a child.
-/
theorem transform_never_panics_partial (t : YNode) (h : t.docsOk = true) : ∀ s, transform t ≠ .panic s := by
  intro s hs
  have := transform_no_panic t h
  simp [hs, Out.isPanic] at this

/-- the counterexample that makes the hypothesis necessary -/
theorem transform_panics_on_empty_document : (transform (.doc [])).isPanic = true := rfl

/-- what `yaml.Unmarshal(data, &n)` leaves in `n`: the zero node for an empty stream, otherwise a document node with
    exactly one child that contains no further document nodes -/
def fromYamlV3 : YNode → Bool
  | .empty => true
  | .doc [c] => c.docsOk
  | _ => false

/-- `yaml.New().Parse(data)` never panics on anything yaml.v3 hands over -/
theorem parse_never_panics (t : YNode) (h : fromYamlV3 t = true) : ∀ s, parse t ≠ .panic s := by
  apply transform_never_panics_partial
  match t, h with
  | .empty, _ => rfl
  | .doc [c], h => simpa [fromYamlV3, YNode.docsOk] using h

/-- `Raw()` (how input files are decoded, `engineWorkflow.Run`) returns a value for every node a successful
    `transform` produced — in particular `n.contents[i].Raw().(string)` cannot fail and no index is out of range. -/
theorem raw_never_panics (t : YNode) (n : Node) (h : transform t = .ok n) : ∃ v, raw n = .ok v :=
  raw_wf n (transform_wf t n h)

/-- On a transformed map node `MapKeys` and `MapKey` are total, and every key `MapKeys` lists is found by `MapKey`
    (so the discarded `found` result in `yamlBuildExpressions` / `buildOneOfExpressions` never hides a nil node). -/
theorem mapKey_total_on_transformed (t : YNode) (n : Node) (h : transform t = .ok n) (hmap : n.typeID = .map) :
    (∃ ks, mapKeys n = .ok ks ∧ ∀ key ∈ ks, ∃ m, mapKey n key = .ok (some m)) ∧
    (∀ key, ∃ r, mapKey n key = .ok r) := by
  have hwf := transform_wf t n h
  obtain ⟨ks, hks⟩ := mapKeys_wf hwf hmap
  refine ⟨⟨ks, hks, fun key hk => ?_⟩, fun key => ?_⟩
  · obtain ⟨m, hm, _⟩ := mapKey_of_mapKeys hwf hmap hks key hk
    exact ⟨m, hm⟩
  · obtain ⟨r, hr, _⟩ := mapKey_wf key hwf hmap
    exact ⟨r, hr⟩

/-- `yamlBuildExpressions` (with `buildExpression`, `buildOneOfExpressions`, `buildResultOrDisabledExpression`,
    `buildOptionalExpression`, `compileExpression`) never panics on a node a successful `transform` produced, whatever
    the expression parser does — accept, reject or panic — and whatever the regular expression answers.
    (Before commit 55d02b1 this needed the hypothesis that `expressions.New` does not panic: v0.4.6 dereferences a nil
    token for texts ending in a binary operator, e.g. `a: !expr '1 +'`; found by the tree stream, seed 3.) -/
theorem buildExpressions_never_panics (env : Env) (t : YNode) (n : Node) (h : transform t = .ok n) :
    ∀ s, buildExpressions env n ≠ .panic s := by
  intro s hs
  have := build_no_panic env n (transform_wf t n h)
  simp [buildExpressions] at hs
  simp [hs, Out.isPanic] at this

/-- an environment in which the expression parser panics on the witness text, as `expressions.New("1 +")` does -/
def panickingEnv : Env :=
  { parseExpr := fun s => if s == "1 +" then .panics else .rejected
    stepPath := fun _ => none }

/-- a panic of the expression parser is reported as the ordinary "failed to compile expression" error:
    the document `!expr '1 +'` transforms fine and `yamlBuildExpressions` returns that error -/
theorem expression_parser_panic_is_reported_as_error :
    ∃ n, transform (.doc [.scalar "!expr" "1 +"]) = .ok n ∧ buildExpressions panickingEnv n = .err .exprCompile :=
  ⟨_, rfl, by simp [buildExpressions, build, Node.tag, buildExpression, compileExpression, Node.typeID, Node.value,
    panickingEnv]⟩

/-- the same for every environment and every text, in `buildExpression` -/
theorem buildExpression_recovers (env : Env) (tag text : String) (h : env.parseExpr text = .panics) :
    buildExpression env (.mk .str tag [] text) = .err .exprCompile := by
  simp [buildExpression, Node.typeID, Node.value, compileExpression_of_panics env text h]

/-- `FromYAML` up to and including `yamlBuildExpressions`, and `Parse` + `Raw`, as one statement about what yaml.v3
    hands over -/
theorem parse_path_never_panics (env : Env) (t : YNode) (h : fromYamlV3 t = true) :
    (∀ s, fromYamlPrefix env t ≠ .panic s) ∧ (∀ s, parseRaw t ≠ .panic s) := by
  have hp := parse_never_panics t h
  simp only [parse] at hp
  constructor
  · intro s hs
    unfold fromYamlPrefix at hs
    cases ht : transform t with
    | panic s' => exact hp s' ht
    | err e => simp [ht] at hs
    | ok n =>
      simp only [ht] at hs
      cases hb : build env n with
      | panic s' => exact buildExpressions_never_panics env t n ht s' hb
      | err e => simp [hb] at hs
      | ok v => simp [hb] at hs
  · intro s hs
    unfold parseRaw at hs
    cases ht : transform t with
    | panic s' => exact hp s' ht
    | err e => simp [ht] at hs
    | ok n =>
      obtain ⟨v, hv⟩ := raw_never_panics t n ht
      simp [ht, hv] at hs

/-! ## sub-workflow discovery -/

/-- The termination argument Lean accepted for `subworkflowCache` (no fuel): following a reference to a file that exists,
    or to a key the caller supplied, and that is not in the chain strictly decreases the number of files plus the number
    of supplied keys outside the chain. -/
theorem chain_measure_decreases (fs : FS) (sup : Supplied) (chain : List String) (e : String)
    (hv : (∃ c, lookup fs e = some c) ∨ (∃ c, supLookup sup e = some c)) (hn : ¬ e ∈ chain) :
    measure fs sup (chain ++ [e]) < measure fs sup chain :=
  measure_lt hv hn

/-- … and the one for `checkSubworkflowCycles`: following a key that has a content and is not in the chain strictly
    decreases the number of keys of the contents outside the chain. -/
theorem check_measure_decreases (ctx : FS) (chain : List String) (p : String) (c : FileContent)
    (hl : lookup ctx p = some c) (hn : ¬ p ∈ chain) : unvisited ctx (chain ++ [p]) < unvisited ctx chain :=
  unvisited_lt hl hn

/-- For every finite file system and every set of supplied files (self-references, mutual references, any depth), every
    list of steps and every chain, `subworkflowCache` returns a cache or an error.  No divergence: the function is total
    in Lean by well-founded recursion on `measure fs sup chain` (`chain_measure_decreases`).  No panic: the result type
    has a `panic` outcome, and no statement produces it — `StepWorkflowPaths` uses only checked assertions (pinned by
    `unchecked_assertions_pinned`) and `FromYAML` returns a workflow or an error (`parse_path_never_panics`). -/
theorem subworkflowCache_total (norm : String → String) (fs : FS) (sup : Supplied) (steps : List Step)
    (acc : List (List String)) (chain : List String) :
    (∃ files, subworkflowCache norm fs sup steps acc chain = .ok files) ∨
    (∃ e, subworkflowCache norm fs sup steps acc chain = .error e) := by
  cases h : subworkflowCache norm fs sup steps acc chain with
  | ok files => exact Or.inl ⟨files, rfl⟩
  | error e => exact Or.inr ⟨e, rfl⟩
  | panic s => exact absurd h (cache_no_panic norm fs sup _ chain rfl steps acc s)

/-- `checkSubworkflowCycles` likewise, for every contents (cyclic or not) -/
theorem checkCycles_total (ctx : FS) (steps : List Step) (chain : List String) :
    checkCycles ctx steps chain = .ok () ∨ ∃ e, checkCycles ctx steps chain = .error e := by
  cases h : checkCycles ctx steps chain with
  | ok u => exact Or.inl rfl
  | error e => exact Or.inr ⟨e, rfl⟩
  | panic s => exact absurd h (checkCycles_no_panic ctx _ chain rfl steps s)

/-- the file-cache part of `Parse` likewise, for every cache the caller hands over -/
theorem parseFiles_total (norm : String → String) (fs files : FS) (root : String) :
    (∃ keys, parseFiles norm fs files root = .ok keys) ∨ (∃ e, parseFiles norm fs files root = .error e) := by
  cases h : parseFiles norm fs files root with
  | ok keys => exact Or.inl ⟨keys, rfl⟩
  | error e => exact Or.inr ⟨e, rfl⟩
  | panic s =>
    exfalso
    unfold parseFiles at h
    split at h
    · cases h
    · cases h
    · split at h
      · cases h
      · rename_i s' hsub
        exact cache_no_panic norm fs _ _ [] rfl _ [] s' hsub
      · split at h
        · cases h
        · rename_i s' hchk
          exact checkCycles_no_panic _ _ [] rfl _ s' hchk
        · cases h

/-- file `q` is transitively referenced from the foreach steps of the root workflow of the caller's cache `files` (a
    referenced key denotes the caller's file under that key if there is one, else the file on disk) -/
def ReachFrom (norm : String → String) (fs files : FS) (root q : String) : Prop :=
  ∃ steps, lookup files root = some (.wf steps) ∧ Reach norm fs (some files) steps q

/-- If `Parse` gets past sub-workflow discovery and the cycle check, the merged cache holds the root and every
    transitively referenced file, and each of them exists, converts and is not on a reference cycle.  Conversely, if some
    transitively referenced file is missing, does not convert, or is on a reference cycle, the result is an error.
    (The CLI's cache is `contextCache norm fs root`: the root workflow alone, as it is on disk.) -/
theorem subworkflows_found_or_reported (norm : String → String) (fs files : FS) (root : String) :
    (∀ keys, parseFiles norm fs files root = .ok keys →
      root ∈ keys ∧ ∀ q, ReachFrom norm fs files root q →
        q ∈ keys ∧ (∃ st, denot norm fs (some files) q = some (.wf st)) ∧ ¬ OnCycle norm fs (some files) q) ∧
    ((∃ q, ReachFrom norm fs files root q ∧
        (denot norm fs (some files) q = none ∨ denot norm fs (some files) q = some .invalid ∨
          OnCycle norm fs (some files) q)) →
      ∃ e, parseFiles norm fs files root = .error e) := by
  have key : ∀ keys, parseFiles norm fs files root = .ok keys →
      root ∈ keys ∧ ∀ q, ReachFrom norm fs files root q →
        q ∈ keys ∧ (∃ st, denot norm fs (some files) q = some (.wf st)) ∧ ¬ OnCycle norm fs (some files) q := by
    intro keys h
    unfold parseFiles at h
    split at h
    · cases h
    · cases h
    · rename_i steps hroot
      split at h
      · cases h
      · cases h
      · rename_i sub hsub
        split at h
        · cases h
        · cases h
        · injection h with h
          subst h
          refine ⟨List.mem_append_right _ (lookup_mem hroot), ?_⟩
          rintro q ⟨steps', hl, hreach⟩
          have := lookup_wf_inj hroot hl
          subst this
          have hg := cache_inv norm fs (some files) _ [] rfl steps [] sub hsub q hreach
          refine ⟨?_, hg.2.2.1, hg.2.2.2⟩
          rcases hg.1 with hs | hm
          · cases hq : supLookup (some files) q with
            | none => simp [hq] at hs
            | some c => exact List.mem_append_right _ (lookup_mem (show lookup files q = some c from hq))
          · exact List.mem_append_left _ hm
  refine ⟨key, ?_⟩
  rintro ⟨q, hreach, hbad⟩
  rcases parseFiles_total norm fs files root with ⟨keys, h⟩ | ⟨e, h⟩
  · obtain ⟨_, hall⟩ := key keys h
    obtain ⟨_, ⟨st, hst⟩, hnc⟩ := hall q hreach
    rcases hbad with hb | hb | hb
    · rw [hst] at hb; cases hb
    · rw [hst] at hb; cases hb
    · exact absurd hb hnc
  · exact ⟨e, h⟩

/-- Completeness: `Parse` fails in its file-cache part only when there is something to report — if the root converts and
    every transitively referenced file exists, converts and is not on a reference cycle, the cache is built and passes
    the cycle check. -/
theorem subworkflows_error_only_if_problem (norm : String → String) (fs files : FS) (root : String) (steps : List Step)
    (hroot : lookup files root = some (.wf steps))
    (hgood : ∀ q, ReachFrom norm fs files root q →
      (∃ st, denot norm fs (some files) q = some (.wf st)) ∧ ¬ OnCycle norm fs (some files) q) :
    ∃ keys, parseFiles norm fs files root = .ok keys := by
  obtain ⟨keys, hkeys⟩ := cache_complete norm fs (some files) _ [] rfl steps [] (fun q hq => by
    obtain ⟨hv, hc⟩ := hgood q ⟨steps, hroot, hq⟩
    exact ⟨hv, by simp, hc⟩)
  have hchk : checkCycles (mergedContents norm fs files keys) steps [] = .ok () := by
    apply checkCycles_complete _ _ [] rfl
    intro q hq
    have hreach := keyReach_reach norm fs files keys hq
    obtain ⟨⟨st, hst⟩, hnc⟩ := hgood q ⟨steps, hroot, hreach⟩
    refine ⟨by simp, ?_, ?_⟩
    · intro hinv
      rw [merged_denot norm fs files keys q _ hinv] at hst
      cases hst
    · rintro ⟨st', hl, hcyc⟩
      exact hnc ⟨st', merged_denot norm fs files keys q _ hl, q, keyReach_reach norm fs files keys hcyc, rfl⟩
  exact ⟨keys ++ files.map Prod.fst, by simp [parseFiles, hroot, hkeys, hchk]⟩

/-- Whatever discovery found: if the contents that are going to be used — the discovered files overridden by the
    caller's — contain a reference cycle (by key) reachable from the root workflow, `Parse` returns an error instead of
    handing them to `Prepare` (which would recurse without end).  The proof uses the check on the merged contents only. -/
theorem parse_rejects_cycles_in_used_files (norm : String → String) (fs files : FS) (root : String) (steps : List Step)
    (keys : List String) (hroot : lookup files root = some (.wf steps))
    (hkeys : subworkflowCache norm fs (some files) steps [] [] = .ok keys) (q : String)
    (hq : KeyReach (mergedContents norm fs files keys) steps q)
    (hcyc : KeyOnCycle (mergedContents norm fs files keys) q) :
    ∃ e, parseFiles norm fs files root = .error e := by
  rcases checkCycles_total (mergedContents norm fs files keys) steps [] with h | ⟨e, h⟩
  · exact absurd hcyc (checkCycles_sound _ _ [] rfl steps h q hq).2
  · exact ⟨e, by simp [parseFiles, hroot, hkeys, h]⟩

/-! ## the tie to the source: unchecked type assertions of the parse path -/

/-- The only type assertions without comma-ok in engine.go, internal/yaml/parser.go, workflow/yaml.go and
    loadfile/loadfile.go are the ones the model accounts for (see Arca/Expected/Asserts.lean). -/
theorem unchecked_assertions_pinned : Arca.Gen.uncheckedAsserts = Arca.Expected.uncheckedAsserts := by decide

/-! ## non-vacuity -/

/-- a mapping with a sequence as key is rejected by `transform` (it used to panic later) -/
example : transform (.doc [.map "!!map" "" [(.seq "!!seq" "" [.scalar "!!str" "a"], .scalar "!!str" "v")]])
    = .err .nonScalarKey := rfl

/-- a well-formed document is transformed, decoded by `Raw`, and its `!expr` is built -/
def demoDoc : YNode :=
  .doc [.map "!!map" "" [(.scalar "!!str" "k", .scalar "!expr" "$.input.name"), (.scalar "!!str" "l", .seq "!!seq" "" [.scalar "!!int" "1"])]]

def demoEnv : Env :=
  { parseExpr := fun s => if s == "$.input.name" then .compiles else .rejected
    stepPath := fun _ => none }

example : (match parseRaw demoDoc with
    | .ok (.map [("k", .str "$.input.name"), ("l", .seq [.str "1"])]) => true
    | _ => false) = true := rfl

example : (match fromYamlPrefix demoEnv demoDoc with
    | .ok (.map [("k", .expr "$.input.name"), ("l", .seq [.str "1"])]) => true
    | _ => false) = true := by
  simp [fromYamlPrefix, demoDoc, demoEnv, transform, transformEntries, transformList, keysScalar, YNode.isScalar,
    build, buildKeys, buildList, mapKeys, mapKeysC, mapKey, mapKeyC, raw, Node.typeID, Node.contents, Node.tag, Node.value,
    buildExpression, compileExpression, Out.mapOk]

/-- a `!expr` tag on a sequence is an error, not a crash -/
example : fromYamlPrefix demoEnv (.doc [.seq "!expr" "" [.scalar "!!str" "a"]]) = .err (.build .nonString) := by
  simp [fromYamlPrefix, transform, transformList, build, Node.tag, buildExpression, Node.typeID]

def foreachStep (file : String) : Step := .map (some (.str "foreach")) (some (.str file))

/-- two files whose loop steps reference each other -/
def cycleFS : FS :=
  [("workflow.yaml", .wf [foreachStep "a.yaml"]),
   ("a.yaml", .wf [foreachStep "b.yaml"]),
   ("b.yaml", .wf [foreachStep "a.yaml"])]

theorem cycleFS_reaches_b : ReachFrom id cycleFS (contextCache id cycleFS "workflow.yaml") "workflow.yaml" "b.yaml" :=
  ⟨_, rfl, .trans (p := "a.yaml") (by decide) rfl (.direct (by decide))⟩

theorem cycleFS_b_on_cycle : OnCycle id cycleFS (some (contextCache id cycleFS "workflow.yaml")) "b.yaml" :=
  ⟨_, rfl, "b.yaml", .trans (p := "a.yaml") (by decide) rfl (.direct (by decide)), rfl⟩

/-- the 2-cycle is reported -/
example : ∃ e, parseFiles id cycleFS (contextCache id cycleFS "workflow.yaml") "workflow.yaml" = .error e :=
  (subworkflows_found_or_reported id cycleFS _ "workflow.yaml").2
    ⟨"b.yaml", cycleFS_reaches_b, Or.inr (Or.inr cycleFS_b_on_cycle)⟩

/-- … and the error is the cycle error (computed by unfolding the model) -/
example : parseFiles id cycleFS (contextCache id cycleFS "workflow.yaml") "workflow.yaml" = .error .cycle := by
  simp [parseFiles, contextCache, cycleFS, foreachStep, subworkflowCache, loopSupplied, loopFiles, supLookup, lookup,
    stepWorkflowPaths, addStepPath, stepPath, insertNew, allPresent]

/-- a reference to a file that does not exist is reported as missing -/
example : parseFiles id [] [("workflow.yaml", .wf [foreachStep "gone.yaml"])] "workflow.yaml" = .error .missing := by
  simp [parseFiles, foreachStep, subworkflowCache, loopSupplied, supLookup, lookup, stepWorkflowPaths, addStepPath,
    stepPath, insertNew, allPresent]

/-- a diamond (shared sub-workflow) is accepted and the shared file is in the cache -/
def diamondFS : FS :=
  [("workflow.yaml", .wf [foreachStep "a.yaml", foreachStep "b.yaml", .map (some .other) (some (.str "never.yaml")), .notMap]),
   ("a.yaml", .wf [foreachStep "shared.yaml"]),
   ("b.yaml", .wf [foreachStep "shared.yaml", .map (some (.str "foreach")) none]),
   ("shared.yaml", .wf [])]

example : parseFiles id diamondFS (contextCache id diamondFS "workflow.yaml") "workflow.yaml" =
    .ok ["shared.yaml", "shared.yaml", "shared.yaml", "shared.yaml", "a.yaml", "b.yaml", "workflow.yaml"] := by
  simp [parseFiles, contextCache, diamondFS, foreachStep, subworkflowCache, loopSupplied, loopFiles, supLookup,
    lookup, stepWorkflowPaths, addStepPath, stepPath, insertNew, allPresent, checkCycles, loopCheck, mergedContents]

/-- the caller's files are followed by key and need not be on disk: nothing is on disk here -/
example : parseFiles id [] [("workflow.yaml", .wf [foreachStep "a.yaml"]), ("a.yaml", .wf [])] "workflow.yaml" =
    .ok ["workflow.yaml", "a.yaml"] := by
  simp [parseFiles, foreachStep, subworkflowCache, loopSupplied, supLookup, lookup, stepWorkflowPaths, addStepPath,
    stepPath, insertNew, checkCycles, loopCheck, mergedContents]

/-- a supplied sub-workflow that references itself is reported although the copy on disk is acyclic -/
example : parseFiles id [("a.yaml", .wf [])] [("workflow.yaml", .wf [foreachStep "a.yaml"]), ("a.yaml", .wf [foreachStep "a.yaml"])]
    "workflow.yaml" = .error .cycle := by
  simp [parseFiles, foreachStep, subworkflowCache, loopSupplied, supLookup, lookup, stepWorkflowPaths, addStepPath,
    stepPath, insertNew]

/-- the hypotheses of `parse_rejects_cycles_in_used_files` are about the check alone: a cyclic contents is reported by
    it whatever was discovered -/
example : checkCycles [("workflow.yaml", .wf [foreachStep "a.yaml"]), ("a.yaml", .wf [foreachStep "a.yaml"])]
    [foreachStep "a.yaml"] [] = .error .cycle := by
  simp [checkCycles, loopCheck, foreachStep, lookup, stepWorkflowPaths, addStepPath, stepPath, insertNew]

end Arca.Props.C11
